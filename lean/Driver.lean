import SnaxVerif.Drv.All
/-! JSON-lines driver: one request `{"fn": name, "args": …}` per line, one answer per line
(`{"ok": …}` or `{"err": …}`), flushed per line. -/
open Lean SnaxVerif.Drv

def answer (line : String) : Json :=
  match Json.parse line with
  | .error e => Json.mkObj [("err", Json.str s!"parse: {e}")]
  | .ok j =>
    match (do
      let fn ← str (← field j "fn")
      let args ← field j "args"
      match allHandlers.lookup fn with
      | none => throw s!"unknown fn {fn}"
      | some h => h args : Except String Json) with
    | .ok r => Json.mkObj [("ok", r)]
    | .error e => Json.mkObj [("err", Json.str e)]

partial def loop (hin hout : IO.FS.Stream) : IO Unit := do
  let line ← hin.getLine
  if line.isEmpty then return ()
  let l := line.trimAscii.toString
  if !l.isEmpty then
    hout.putStrLn (answer l).compress
    hout.flush
  loop hin hout

def main : IO Unit := do
  loop (← IO.getStdin) (← IO.getStdout)
