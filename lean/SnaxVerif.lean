import SnaxVerif.Model.Affine
import SnaxVerif.Lemmas.Affine
import SnaxVerif.Props.C19
