import SnaxVerif.Model.AccfgRules
/-
BlockLevelSetupAwaitOverlapPattern (accfg_config_overlap.py) as a *certified move*: the pattern moves a setup and
the side-effect-free operations computing its operands upwards inside one block (`lazy_move_up`). Which operations move
is decided by the real code (the harness reads the permutation off the real rewrite); the model applies that move and
checks the independence conditions under which `Props/C06.lean` proves that the machine state is unchanged.
-/
namespace SnaxVerif.Accfg

/-- may statement `s` be executed before `t` instead of after it? (a) `s` is side-effect free and the two statements
do not define each other's inputs or the same variable; (b) `s` is a setup of an accelerator that `t` neither sets up
nor launches (nor may clobber), and `t` does not define an operand of the setup. -/
def indep (s t : Stmt) : Bool :=
  (sefS s &&
    (defsS s).all (fun x => !(readsS t).contains x && !(defsS t).contains x) &&
    (defsS t).all (fun x => !(readsS s).contains x)) ||
  (match s with
   | .setup a fs => !touchesS a t && !launchesS a t && fs.all (fun p => !(defsS t).contains p.2)
   | _ => false)

/-- every moved statement (flag true) is independent of the staying statements in front of it;
`stay` = staying statements seen so far -/
def partitionOK : List (Bool × Stmt) → List Stmt → Bool
  | [], _ => true
  | (true, s) :: r, stay => stay.all (indep s) && partitionOK r stay
  | (false, t) :: r, stay => partitionOK r (stay ++ [t])

def movedOf (seg : List (Bool × Stmt)) : List Stmt := (seg.filter (·.1)).map (·.2)
def stayOf (seg : List (Bool × Stmt)) : List Stmt := (seg.filter (fun p => !p.1)).map (·.2)

/-- the block with the flagged statements of the segment `[start, start + flags.length)` moved to its front -/
def blockMoveRw (flags : List Bool) (_F : Facts) (b : Block) (start : Nat) : Option Block :=
  let l := b.toList
  let pre := l.take start
  let seg := (l.drop start).take flags.length
  let rest := (l.drop start).drop flags.length
  if seg.length = flags.length ∧ partitionOK (flags.zip seg) [] then
    some (Block.ofList (pre ++ movedOf (flags.zip seg) ++ stayOf (flags.zip seg) ++ rest))
  else none

def applyBlockMove (path : List Nat) (flags : List Bool) (b : Block) : Option Block :=
  rewriteB (blockMoveRw flags) path b noFacts

end SnaxVerif.Accfg
