import SnaxVerif.Model.StridePattern
/-
`StridePattern.canonicalize` over ALL integer upper bounds (the attribute stores `IntAttr`s and nothing
refuses a negative one). `Model/StridePattern.lean` is the model on the property's domain (natural
bounds); this file mirrors the same Python loop on `Int × Int` so that the correspondence check can
also feed negative bounds, and `Lemmas/StridePatternZ.lean` proves that on non-negative bounds the two
agree (so every theorem transfers) while on negative bounds the result is NOT a canonical form.

No Mathlib import: this file is linked into the driver executable.
-/
namespace SnaxVerif
namespace Stride

abbrev LoopZ := Int × Int

/-- nested loops with Python `range(b)`: empty for `b <= 0` -/
def offsZ : List LoopZ → List Int
  | [] => [0]
  | (b, s) :: rest => (offsZ rest).flatMap fun o => (List.range b.toNat).map fun (i : Nat) => o + s * (i : Int)

def stepZ (acc : List LoopZ) (x : LoopZ) : List LoopZ :=
  if x.1 = 0 then (0, 0) :: acc
  else if x.1 = 1 then acc
  else match acc with
    | (b, s) :: rest => if b * s = x.2 then (b * x.1, s) :: rest else x :: acc
    | [] => x :: acc

def canonLoopsZ (p : List LoopZ) : List LoopZ := (p.foldl stepZ []).reverse

structure PatternZ where
  ub : List Int
  ts : List Int
  ss : List Int
deriving DecidableEq, Repr, Inhabited

def PatternZ.loops (p : PatternZ) : List LoopZ := p.ub.zip p.ts
def PatternZ.verify (p : PatternZ) : Bool := p.ub.length == p.ts.length

def PatternZ.canonicalize (p : PatternZ) : PatternZ :=
  if (0 : Int) ∈ p.ss then p
  else
    let r := (canonLoopsZ p.loops).unzip
    { ub := r.1, ts := r.2, ss := p.ss }

/-- the embedding of the natural-bound model -/
def toZ (x : Loop) : LoopZ := ((x.1 : Int), x.2)

end Stride
end SnaxVerif
