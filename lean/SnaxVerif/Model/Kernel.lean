/-!
# Model for C18 — kernel recognition, expansion and dispatch

Mirrors (see each definition):
* `snaxc/transforms/convert_linalg_to_kernel.py` : `check_kernel_equivalence` (upstream = op-type sequence
  only; fixed = with fixes/F05-kernel-structural-match.diff: value mapping, result types, commutative swap),
  `ParseLinalgBody`
* `snaxc/dialects/kernel.py`                    : `equivalent_region` of `MulOp AddOp MacOp QMacOp`
* `snaxc/transforms/convert_kernel_to_linalg.py`: `LowerLinalgBody`, `LowerRescale`
* `snaxc/transforms/dispatch_kernels.py`        : `DispatchTemplatePattern`
* `util/gemmx/simd_golden_model.py`             : `postprocessing_simd_golden_model` (the rescale specification)

A linalg body is a straight-line SSA block over signless integers. Values of the block are numbered in
definition order: block arguments `0 … n-1`, then the result of op `j` is value `n + j`. Under this numbering
the Python `mapping` dictionary of the fixed matcher (block_a value -> block_b value, built from
`zip(args, args)` and `zip(results, results)` in lock step) is the identity on numbers, and `mapping.get`
of a value defined outside the block is `None`.

No Mathlib. Total, computable.
-/
namespace SnaxVerif.Kernel

/-- a scalar value of a body: a signless integer of width `w` (two's complement) -/
structure Val where
  w : Nat
  v : BitVec w
  deriving DecidableEq

/-- operation kinds of a body. `const`/`other` carry what the printed op carries besides operands and types. -/
inductive OpKind
  | addi | muli | subi | extsi | trunci | shrsi | minsi | maxsi
  | cmpi (pred : Nat)                     -- arith.cmpi, MLIR predicate number (eq ne slt sle sgt sge ult ule ugt uge)
  | select                                -- arith.select
  | const (c : Int)                       -- arith.constant inside the body
  | other (name : String) (comm : Bool)   -- any other op; `comm` = has the xDSL `Commutative` trait
  deriving DecidableEq, Repr

/-- xDSL trait `Commutative` (observed on xDSL 0.70: addi, muli yes; subi, extsi, minsi, maxsi no) -/
def OpKind.commutative : OpKind → Bool
  | .addi | .muli => true
  | .other _ c => c
  | _ => false

/-- `type(op_a) is type(op_b)`: the Python class only, attributes (the constant's value) are not compared -/
def OpKind.sameType : OpKind → OpKind → Bool
  | .const _, .const _ => true
  | .cmpi _, .cmpi _ => true
  | .other n _, .other m _ => n == m
  | a, b => a == b

/-- kinds without attributes: for these `sameType` is equality -/
def OpKind.attrFree : OpKind → Bool
  | .const _ | .cmpi _ | .other _ _ => false
  | _ => true

/-- an operand -/
inductive Ref
  | val (i : Nat)              -- value number `i` of the block
  | outer (w : Nat) (c : Int)  -- a value defined outside the block: the constant `c : iw`
  deriving DecidableEq, Repr

/-- one op with exactly one integer result of width `width` -/
structure BOp where
  kind : OpKind
  args : List Ref
  width : Nat
  deriving DecidableEq, Repr

/-- a linalg body: block argument widths, ops, operands of the terminating `linalg.yield` -/
structure Body where
  args : List Nat
  ops : List BOp
  ret : List Ref
  deriving DecidableEq, Repr

/-! ## fixed-width semantics (`arith` dialect, two's complement; `none` = ill-typed or poison) -/

def binop (k : OpKind) {w : Nat} (x y : BitVec w) : Option (BitVec w) :=
  match k with
  | .addi => some (x + y)
  | .muli => some (x * y)
  | .subi => some (x - y)
  | .shrsi => if y.toNat < w then some (x.sshiftRight y.toNat) else none
  | .minsi => some (if x.slt y then x else y)
  | .maxsi => some (if y.slt x then x else y)
  | _ => none

def unop (k : OpKind) (w : Nat) (x : Val) : Option Val :=
  match k with
  | .extsi => if x.w < w then some ⟨w, x.v.signExtend w⟩ else none
  | .trunci => if w < x.w then some ⟨w, x.v.setWidth w⟩ else none
  | _ => none

def nullop (k : OpKind) (w : Nat) : Option Val :=
  match k with
  | .const c => some ⟨w, BitVec.ofInt w c⟩
  | _ => none

/-- `arith.cmpi` predicates -/
def cmpPred (p : Nat) {w : Nat} (x y : BitVec w) : Option Bool :=
  match p with
  | 0 => some (x == y) | 1 => some (x != y)
  | 2 => some (x.slt y) | 3 => some (x.sle y) | 4 => some (y.slt x) | 5 => some (y.sle x)
  | 6 => some (x.ult y) | 7 => some (x.ule y) | 8 => some (y.ult x) | 9 => some (y.ule x)
  | _ => none

/-- binary ops whose operands have the result type -/
def arithBin (k : OpKind) (w : Nat) (x y : Val) : Option Val :=
  if hx : x.w = w then
    if hy : y.w = w then (binop k (x.v.cast hx) (y.v.cast hy)).map (Val.mk w)
    else none
  else none

/-- `arith.cmpi`: operands of one type, result i1 -/
def cmpop (k : OpKind) (w : Nat) (x y : Val) : Option Val :=
  match k with
  | .cmpi p =>
    if h : y.w = x.w then
      if w = 1 then (cmpPred p x.v (y.v.cast h)).map fun b => ⟨1, BitVec.ofBool b⟩ else none
    else none
  | _ => none

/-- `arith.select`: i1 condition, both values of the result type -/
def ternop (k : OpKind) (w : Nat) (c x y : Val) : Option Val :=
  match k with
  | .select =>
    if c.w = 1 then
      if hx : x.w = w then
        if hy : y.w = w then some ⟨w, if c.v.toNat = 1 then x.v.cast hx else y.v.cast hy⟩
        else none
      else none
    else none
  | _ => none

/-- one op of declared result width `w` applied to operand values -/
def evalOp (k : OpKind) (w : Nat) : List Val → Option Val
  | [] => nullop k w
  | [x] => unop k w x
  | [x, y] => (arithBin k w x y).orElse fun _ => cmpop k w x y
  | [c, x, y] => ternop k w c x y
  | _ => none

def lookup (env : List Val) : Ref → Option Val
  | .val i => env[i]?
  | .outer w c => some ⟨w, BitVec.ofInt w c⟩

def lookupAll (env : List Val) : List Ref → Option (List Val)
  | [] => some []
  | r :: rs => (lookup env r).bind fun v => (lookupAll env rs).map (v :: ·)

def stepOp (env : List Val) (op : BOp) : Option Val :=
  (lookupAll env op.args).bind (evalOp op.kind op.width)

def evalOps : List BOp → List Val → Option (List Val)
  | [], env => some env
  | op :: rest, env => (stepOp env op).bind fun r => evalOps rest (env ++ [r])

/-- the function of its scalar inputs a body computes (the yielded values) -/
def evalBody (b : Body) (ins : List Val) : Option (List Val) :=
  if ins.map Val.w = b.args then (evalOps b.ops ins).bind fun env => lookupAll env b.ret else none

/-! ## `check_kernel_equivalence` -/

/-- `mapping.get(operand)` -/
def mapRef : Ref → Option Ref
  | .val i => some (.val i)
  | .outer _ _ => none

/-- one iteration of the loop over `zip(block_a.ops, block_b.ops)`.
`fixed = false`: upstream (`type(op_a) is type(op_b)` only). -/
def opMatch (fixed : Bool) (a b : BOp) : Bool :=
  a.kind.sameType b.kind &&
  (!fixed ||
    (a.width == b.width &&
      (a.args.map mapRef == b.args.map some ||
        (a.kind.commutative && (a.args.map mapRef).reverse == b.args.map some))))

def all2 {α β : Type} (p : α → β → Bool) : List α → List β → Bool
  | [], [] => true
  | a :: as, b :: bs => p a b && all2 p as bs
  | _, _ => false

/-- `check_kernel_equivalence(block_a, block_b)`; the terminating `linalg.yield` of both blocks is the
last op of the Python op lists: it has no result, is not commutative, its operands are compared through
the mapping by the fixed matcher and not at all upstream. -/
def blockMatch (fixed : Bool) (a b : Body) : Bool :=
  if fixed then
    a.ops.length == b.ops.length && a.args.length == b.args.length &&
      all2 (opMatch true) a.ops b.ops && a.ret.map mapRef == b.ret.map some
  else
    a.ops.length == b.ops.length && all2 (opMatch false) a.ops b.ops

/-! ## `check_kernel_equivalence` with its `mapping` dictionary made explicit -/

/-- the Python `mapping: dict[SSAValue, SSAValue]` (block_a value number -> block_b value number) -/
abbrev VMap := Nat → Option Nat

/-- `dict(zip(block_a.args, block_b.args))`: argument `i` of a -> argument `i` of b, as far as both exist -/
def initMap (na nb : Nat) : VMap := fun i => if i < min na nb then some i else none

/-- `mapping.update(zip(op_a.results, op_b.results))` for ops with one result -/
def updMap (m : VMap) (ka vb : Nat) : VMap := fun i => if i = ka then some vb else m i

/-- `mapping.get(operand)` -/
def refGet (m : VMap) : Ref → Option Ref
  | .val i => (m i).map Ref.val
  | .outer _ _ => none

/-- one iteration of the fixed matcher's loop, with the dictionary as it is at that point -/
def opMatchDict (m : VMap) (a b : BOp) : Bool :=
  a.kind.sameType b.kind &&
    (a.width == b.width &&
      (a.args.map (refGet m) == b.args.map some ||
        (a.kind.commutative && (a.args.map (refGet m)).reverse == b.args.map some)))

/-- the loop over `zip(block_a.ops, block_b.ops)`: `na`/`nb` = number of the next result in a / in b;
returns the final dictionary (`none` = `return False`) -/
def opsMatchDict : VMap → Nat → Nat → List BOp → List BOp → Option VMap
  | m, _, _, [], [] => some m
  | m, na, nb, a :: as, b :: bs =>
    if opMatchDict m a b then opsMatchDict (updMap m na nb) (na + 1) (nb + 1) as bs else none
  | _, _, _, _, _ => none

/-- `check_kernel_equivalence` (fixed) as written: length checks, dictionary from the block arguments, the loop,
and the yield (last op of both blocks) compared through the final dictionary -/
def blockMatchDict (a b : Body) : Bool :=
  a.ops.length == b.ops.length && a.args.length == b.args.length &&
    match opsMatchDict (initMap a.args.length b.args.length) a.args.length b.args.length a.ops b.ops with
    | some m => a.ret.map (refGet m) == b.ret.map some
    | none => false

/-- every operand of an op refers to a value defined before it (SSA dominance inside the block) -/
def scopedRefs (k : Nat) (l : List Ref) : Bool :=
  l.all fun r => match r with | .val i => decide (i < k) | .outer _ _ => true

def scopedOps : Nat → List BOp → Bool
  | _, [] => true
  | k, op :: rest => scopedRefs k op.args && scopedOps (k + 1) rest

def Body.wellScoped (b : Body) : Bool :=
  scopedOps b.args.length b.ops && scopedRefs (b.args.length + b.ops.length) b.ret

def idMap (k : Nat) : VMap := fun i => if i < k then some i else none


/-! ## the kernels -/

inductive Kernel | mul | add | mac | qmac | rescale
  deriving DecidableEq, Repr

/-- the `Parsable` ops of `Kernel.operations`, in that order -/
def Kernel.parsable : List Kernel := [.mul, .add, .mac, .qmac]

/-- `len(op_def.get_irdl_definition().operands)` -/
def Kernel.nOperands : Kernel → Nat
  | .qmac => 4
  | .rescale => 1
  | _ => 2

/-- `equivalent_region` of a kernel op whose operand types followed by its result type are `tys`
(`tys.length = nOperands + 1`). Result type of `MuliOp(a, b)`/`SubiOp(a, b)`/`AddiOp(a, b)` = type of `a`. -/
def equivalentRegion (k : Kernel) (tys : List Nat) : Body :=
  let t := fun i => tys.getD i 0
  match k with
  | .mul => ⟨tys, [⟨.muli, [.val 0, .val 1], t 0⟩], [.val 3]⟩
  | .add => ⟨tys, [⟨.addi, [.val 0, .val 1], t 0⟩], [.val 3]⟩
  | .mac =>
    if t 0 = t 2 then
      ⟨tys, [⟨.muli, [.val 0, .val 1], t 0⟩, ⟨.addi, [.val 2, .val 3], t 2⟩], [.val 4]⟩
    else
      ⟨tys, [⟨.extsi, [.val 0], t 2⟩, ⟨.extsi, [.val 1], t 2⟩, ⟨.muli, [.val 3, .val 4], t 2⟩,
             ⟨.addi, [.val 2, .val 5], t 2⟩], [.val 6]⟩
  | .qmac =>
    ⟨tys, [⟨.extsi, [.val 0], t 2⟩, ⟨.subi, [.val 5, .val 2], t 2⟩,
           ⟨.extsi, [.val 1], t 3⟩, ⟨.subi, [.val 7, .val 3], t 3⟩,
           ⟨.muli, [.val 6, .val 8], t 2⟩, ⟨.addi, [.val 4, .val 9], t 4⟩], [.val 10]⟩
  | .rescale => ⟨tys, [], []⟩   -- not Parsable: never asked for

/-- `ParseLinalgBody`: the kernel whose op replaces the body, if any. The Python loop does not stop at the
first match, but after a replacement the block is `[kernel op, yield]`, which matches no region. -/
def recognize (fixed : Bool) (b : Body) : Option Kernel :=
  Kernel.parsable.find? fun k =>
    k.nOperands == b.args.length - 1 && blockMatch fixed b (equivalentRegion k b.args)

/-- `ParseLinalgBody` with the dictionary-based matcher -/
def recognizeDict (b : Body) : Option Kernel :=
  Kernel.parsable.find? fun k =>
    k.nOperands == b.args.length - 1 && blockMatchDict b (equivalentRegion k b.args)

/-! ## intended meaning of the kernels (specification, over the integers) -/

/-- what a kernel is meant to compute from its scalar operands followed by the accumulator/output
element (last): signed integers, result wrapped to the accumulator width. -/
def kernelSpec (k : Kernel) (ins : List Val) : Option Val :=
  match k, ins with
  | .mul, [a, b, c] => some ⟨c.w, BitVec.ofInt c.w (a.v.toInt * b.v.toInt)⟩
  | .add, [a, b, c] => some ⟨c.w, BitVec.ofInt c.w (a.v.toInt + b.v.toInt)⟩
  | .mac, [a, b, c] => some ⟨c.w, BitVec.ofInt c.w (c.v.toInt + a.v.toInt * b.v.toInt)⟩
  | .qmac, [a, b, za, zb, c] =>
    some ⟨c.w, BitVec.ofInt c.w (c.v.toInt + (a.v.toInt - za.v.toInt) * (b.v.toInt - zb.v.toInt))⟩
  | _, _ => none

/-- the kernel instance is well typed (its `equivalent_region` verifies as `arith` IR and yields the
result type): operands narrower than or as wide as the accumulator as the region requires. -/
def kernelTyped (k : Kernel) (tys : List Nat) : Bool :=
  match k, tys with
  | .mul, [a, b, c] => a == c && b == c
  | .add, [a, b, c] => a == c && b == c
  | .mac, [a, b, c] => (a == c && b == c) || (decide (a < c) && decide (b < c))
  | .qmac, [a, b, za, zb, c] => decide (a < c) && decide (b < c) && za == c && zb == c
  | _, _ => false

/-! ## kernel form of a body and `LowerLinalgBody` -/

/-- a body `[%r = kernel.k operands : opTypes -> resWidth ; linalg.yield ret]` -/
structure KBody where
  args : List Nat
  kernel : Kernel
  operands : List Ref
  opTypes : List Nat
  resWidth : Nat
  ret : List Ref
  deriving DecidableEq, Repr

/-- what `ParseLinalgBody` writes: operands = block arguments but the last, in order; result type = type of
the last block argument; the yield returns the kernel's result -/
def toKernelForm (b : Body) (k : Kernel) : KBody :=
  { args := b.args, kernel := k, operands := (List.range (b.args.length - 1)).map Ref.val,
    opTypes := b.args.take (b.args.length - 1), resWidth := b.args.getLastD 0,
    ret := [.val b.args.length] }

/-- meaning of the kernel form: the kernel applied to its operands, accumulating on the last block
argument (the output element) -/
def evalKBody (kb : KBody) (ins : List Val) : Option (List Val) :=
  if ins.map Val.w = kb.args then
    (lookupAll ins kb.operands).bind fun vs =>
      match ins.getLast? with
      | none => none
      | some acc =>
        if vs.map Val.w = kb.opTypes ∧ acc.w = kb.resWidth then
          (kernelSpec kb.kernel (vs ++ [acc])).bind fun r => lookupAll (ins ++ [r]) kb.ret
        else none
  else none

/-- `LowerLinalgBody`: the body is replaced by `kernel_op.equivalent_region`, whose block arguments become
the block arguments of the new `linalg.generic`. The operands of the kernel op and the operand of the yield
are not looked at. -/
def expand (kb : KBody) : Body := equivalentRegion kb.kernel (kb.opTypes ++ [kb.resWidth])

/-- the kernel op uses the block arguments in order and its result is what is yielded -/
def KBody.canonical (kb : KBody) : Bool :=
  kb.operands == (List.range (kb.args.length - 1)).map Ref.val &&
  kb.opTypes ++ [kb.resWidth] == kb.args && kb.ret == [.val kb.args.length]

/-! ## bodies mixing kernel ops and arith ops (fused kernels) and the guard of `LowerLinalgBody` -/

/-- an op of a mixed body: an arith op, or `kernel.k operands : opTypes -> resWidth` -/
inductive MOp
  | arith (op : BOp)
  | kern (k : Kernel) (operands : List Ref) (opTypes : List Nat) (resWidth : Nat)
  deriving DecidableEq, Repr

structure MBody where
  args : List Nat
  ops : List MOp
  ret : List Ref
  deriving DecidableEq, Repr

/-- meaning of a kernel op inside a body: the kernel applied to its operands, accumulating on the last
block argument `acc` (the output element) -/
def stepKernel (env : List Val) (acc : Option Val) (k : Kernel) (operands : List Ref) (opTypes : List Nat)
    (resWidth : Nat) : Option Val :=
  (lookupAll env operands).bind fun vs =>
    match acc with
    | none => none
    | some acc =>
      if vs.map Val.w = opTypes ∧ acc.w = resWidth then kernelSpec k (vs ++ [acc]) else none

def stepMOp (env : List Val) (acc : Option Val) : MOp → Option Val
  | .arith op => stepOp env op
  | .kern k operands opTypes resWidth => stepKernel env acc k operands opTypes resWidth

def evalMOps (acc : Option Val) : List MOp → List Val → Option (List Val)
  | [], env => some env
  | op :: rest, env => (stepMOp env acc op).bind fun r => evalMOps acc rest (env ++ [r])

/-- the function a mixed body computes -/
def evalMBody (b : MBody) (ins : List Val) : Option (List Val) :=
  if ins.map Val.w = b.args then (evalMOps ins.getLast? b.ops ins).bind fun env => lookupAll env b.ret else none

/-- `isinstance(op, Parsable)` -/
def Kernel.isParsable : Kernel → Bool
  | .rescale => false
  | _ => true

/-- `LowerLinalgBody.match_and_rewrite` on an arbitrary body: `none` = the pattern returns without rewriting.
It fires only when the FIRST op is a Parsable kernel op AND its `next_op` is the `linalg.yield`
("only works for non-fused kernels"); the new body is the kernel's `equivalent_region`. -/
def lowerLinalgBody (b : MBody) : Option Body :=
  match b.ops with
  | [.kern k _ opTypes resWidth] => if k.isParsable then some (equivalentRegion k (opTypes ++ [resWidth])) else none
  | _ => none

/-- a kernel-form body as a mixed body -/
def KBody.toMBody (kb : KBody) : MBody :=
  ⟨kb.args, [.kern kb.kernel kb.operands kb.opTypes kb.resWidth], kb.ret⟩

/-- an arith body as a mixed body -/
def Body.toMBody (b : Body) : MBody := ⟨b.args, b.ops.map MOp.arith, b.ret⟩

/-- the body after `LowerLinalgBody` (unchanged when the pattern does not fire) -/
def lowerResult (b : MBody) : MBody :=
  match lowerLinalgBody b with
  | some r => r.toMBody
  | none => b

/-- `LowerLinalgBody` with fix FC18a (fixes/FC18a-lower-linalg-body-canonical-guard.diff): additionally the kernel
op must be applied to the block arguments in order, produce the type of the output element, and its result
must be what the body yields (`KBody.canonical`; in real IR the operand types are the block argument types
as soon as the operands are the block arguments). -/
def lowerLinalgBodyFixed (b : MBody) : Option Body :=
  match b.ops with
  | [.kern k operands opTypes resWidth] =>
    if k.isParsable && (KBody.canonical ⟨b.args, k, operands, opTypes, resWidth, b.ret⟩) then
      some (equivalentRegion k (opTypes ++ [resWidth]))
    else none
  | _ => none

def lowerResultFixed (b : MBody) : MBody :=
  match lowerLinalgBodyFixed b with
  | some r => r.toMBody
  | none => b

/-! ## pass pipeline on one body -/

/-- `convert-linalg-to-kernel` followed by `convert-kernel-to-linalg` on one body -/
def pipelineRecognizeExpand (b : Body) : MBody :=
  match recognize true b with
  | some k => lowerResultFixed (toKernelForm b k).toMBody
  | none => b.toMBody


/-! ## rescale -/

structure RescaleParams where
  inputZp : Int
  outputZp : Int
  multiplier : List Int
  shift : List Int
  maxInt : Int
  minInt : Int
  doubleRound : Bool
  deriving DecidableEq, Repr

/-- the ops `LowerRescale` puts in place of `kernel.rescale` (block arguments: input, output element);
the six constants are created in front of the `linalg.generic`. `none` = `get_values()[0]` raises
IndexError on an empty multiplier/shift array. Types are hard-coded in the pass: i32 / i64 / i8. -/
def rescaleBody (p : RescaleParams) (args : List Nat) : Option Body :=
  match p.shift, p.multiplier with
  | s :: _, m :: _ =>
    some ⟨args,
      [ ⟨.subi, [.val 0, .outer 32 p.inputZp], args.getD 0 0⟩,   -- SubiOp(op.input, zp_in): type of the input
        ⟨.extsi, [.val 2], 64⟩,
        ⟨.muli, [.val 3, .outer 64 m], 64⟩,
        ⟨.shrsi, [.val 4, .outer 64 s], 64⟩,
        ⟨.trunci, [.val 5], 32⟩,
        ⟨.addi, [.val 6, .outer 32 p.outputZp], 32⟩,
        ⟨.minsi, [.val 7, .outer 32 p.maxInt], 32⟩,
        ⟨.maxsi, [.val 8, .outer 32 p.minInt], 32⟩,
        ⟨.trunci, [.val 9], 8⟩ ],
      [.val 10]⟩
  | _, _ => none

/-- the function computed by `rescaleBody` on an i32 input (closed form; `rescale_body_eval`) -/
def rescaleExpand (p : RescaleParams) (x : BitVec 32) : Option (BitVec 8) :=
  match p.shift, p.multiplier with
  | s :: _, m :: _ =>
    let v : BitVec 64 := (x - BitVec.ofInt 32 p.inputZp).signExtend 64 * BitVec.ofInt 64 m
    let sh : BitVec 64 := BitVec.ofInt 64 s
    if sh.toNat < 64 then
      let t : BitVec 32 := (v.sshiftRight sh.toNat).setWidth 32 + BitVec.ofInt 32 p.outputZp
      let mx := BitVec.ofInt 32 p.maxInt
      let mn := BitVec.ofInt 32 p.minInt
      let c1 := if t.slt mx then t else mx
      let c2 := if mn.slt c1 then c1 else mn
      some (c2.setWidth 8)
    else none
  | _, _ => none

/-- `postprocessing_simd_golden_model` for the element `x` (any integer width `wi`) of channel `ch` (numpy: `data_in` int64, `np.int64`
product, `np.int32` after the first shift, int32 arithmetic afterwards, `np.clip`). `none`: no parameter
for the channel, or a shift outside 1..63. -/
def rescaleSpec {wi : Nat} (p : RescaleParams) (ch : Nat) (x : BitVec wi) : Option (BitVec 32) :=
  match p.shift[ch]?, p.multiplier[ch]? with
  | some s, some m =>
    if 1 ≤ s ∧ s ≤ 63 then
      let var : BitVec 64 := x.signExtend 64 - BitVec.ofInt 64 p.inputZp
      let var := var * BitVec.ofInt 64 m
      let var : BitVec 32 := (var.sshiftRight (s - 1).toNat).setWidth 32
      let var := if p.doubleRound then (if (0 : BitVec 32).sle var then var + 1 else var - 1) else var
      let var := var.sshiftRight 1
      let var := var + BitVec.ofInt 32 p.outputZp
      let mn := BitVec.ofInt 32 p.minInt
      let mx := BitVec.ofInt 32 p.maxInt
      -- np.clip(a, lo, hi) = minimum(maximum(a, lo), hi)
      let c1 := if var.slt mn then mn else var
      let c2 := if mx.slt c1 then mx else c1
      some c2
    else none
  | _, _ => none

/-! ### `LowerRescale` with fix FC18c (fixes/FC18c-lower-rescale-golden-model.diff) -/

/-- `len(set(values)) == 1`: one value for all channels -/
def uniformParam : List Int → Option Int
  | [] => none
  | s :: ss => if ss.all (· == s) then some s else none

/-- the ops the FIXED `LowerRescale` puts in place of `kernel.rescale : (i wi) -> i wr` (block arguments: input,
output element; constants created in front of the generic). `none` = the pattern returns: per-channel
(non-uniform) or missing multiplier/shift, or an input that is not narrower than 64 bits.
64 bit up to the first shift (by shift - 1), 32 bit afterwards, conversion to the result type at the end. -/
def rescaleBodyFixed (p : RescaleParams) (args : List Nat) : Option Body :=
  match uniformParam p.shift, uniformParam p.multiplier with
  | some s, some m =>
    if args.getD 0 0 < 64 then
      let wr := args.getD 1 0
      let pre : List BOp :=
        [ ⟨.extsi, [.val 0], 64⟩,
          ⟨.subi, [.val 2, .outer 64 p.inputZp], 64⟩,
          ⟨.muli, [.val 3, .outer 64 m], 64⟩,
          ⟨.shrsi, [.val 4, .outer 64 (s - 1)], 64⟩,
          ⟨.trunci, [.val 5], 32⟩ ]
      let mid : List BOp :=
        if p.doubleRound then
          [ ⟨.cmpi 2, [.val 6, .outer 32 0], 1⟩,
            ⟨.select, [.val 7, .outer 32 (-1), .outer 32 1], 32⟩,
            ⟨.addi, [.val 6, .val 8], 32⟩ ]
        else []
      let t := 6 + mid.length
      let post : List BOp :=
        [ ⟨.shrsi, [.val t, .outer 32 1], 32⟩,
          ⟨.addi, [.val (t + 1), .outer 32 p.outputZp], 32⟩,
          ⟨.minsi, [.val (t + 2), .outer 32 p.maxInt], 32⟩,
          ⟨.maxsi, [.val (t + 3), .outer 32 p.minInt], 32⟩ ]
      let fin : List BOp :=
        if wr < 32 then [⟨.trunci, [.val (t + 4)], wr⟩]
        else if 32 < wr then [⟨.extsi, [.val (t + 4)], wr⟩]
        else []
      some ⟨args, pre ++ mid ++ post ++ fin, [.val (t + 4 + fin.length)]⟩
    else none
  | _, _ => none

/-- the function computed by `rescaleBodyFixed` on an input of width `wi`, result of width `wr` (closed form) -/
def rescaleExpandFixed {wi : Nat} (p : RescaleParams) (x : BitVec wi) (wr : Nat) : Option (BitVec wr) :=
  match uniformParam p.shift, uniformParam p.multiplier with
  | some s, some m =>
    if wi < 64 then
      let v : BitVec 64 := (x.signExtend 64 - BitVec.ofInt 64 p.inputZp) * BitVec.ofInt 64 m
      let sh : BitVec 64 := BitVec.ofInt 64 (s - 1)
      if sh.toNat < 64 then
        let t : BitVec 32 := (v.sshiftRight sh.toNat).setWidth 32
        let t := if p.doubleRound then t + (if t.slt 0 then BitVec.ofInt 32 (-1) else BitVec.ofInt 32 1) else t
        let t := t.sshiftRight 1 + BitVec.ofInt 32 p.outputZp
        let mx := BitVec.ofInt 32 p.maxInt
        let mn := BitVec.ofInt 32 p.minInt
        let c1 := if t.slt mx then t else mx
        let c2 := if mn.slt c1 then c1 else mn
        some (c2.signExtend wr)
      else none
    else none
  | _, _ => none

/-! ## dispatch -/

structure Supported where
  kind : Kernel
  types : List Nat
  deriving DecidableEq, Repr

structure Acc where
  name : String
  streamer : Bool          -- isinstance(acc, SNAXStreamer)
  supported : List Supported
  deriving DecidableEq, Repr

inductive DErr | valueError
  deriving DecidableEq, Repr

/-- the loop over `accelerator.supported_kernels`: the operand-type loop only `continue`s its own
iteration, so the first entry of the right kernel type matches; `zip(..., strict=True)` raises
ValueError on a length mismatch. -/
def matchSupported (k : Kernel) (tys : List Nat) : List Supported → Except DErr Bool
  | [] => .ok false
  | sk :: rest =>
    if sk.kind ≠ k then matchSupported k tys rest
    else if sk.types.length ≠ tys.length then .error .valueError
    else .ok true

def findAcc (k : Kernel) (tys : List Nat) : List Acc → Except DErr (Option Acc)
  | [] => .ok none
  | a :: rest =>
    match matchSupported k tys a.supported with
    | .error e => .error e
    | .ok true => .ok (some a)
    | .ok false => findAcc k tys rest

/-- `DispatchTemplatePattern.match_and_rewrite` on a generic without `library_call` whose body is
`[kernel op, yield]`: the `library_call` it sets (`none`: unchanged). `dynamic`: some shaped operand of the
generic has a dynamic dimension. -/
def dispatch (accs : List Acc) (k : Kernel) (tys : List Nat) (dynamic : Bool) : Except DErr (Option String) :=
  match findAcc k tys accs with
  | .error e => .error e
  | .ok none => .ok none
  | .ok (some a) => .ok (some (if a.streamer && !dynamic then a.name ++ "_stream" else a.name))

/-! ### dispatch with the repair fixes/FD15-dispatch-operand-types.diff (NOT applied to /repo: it changes the output of
the upstream test dispatch_kernels.mlir, whose first input dispatches a mistyped qmac) -/

/-- the loop over `supported_kernels` with the whole type list compared: an entry matches iff kind and types agree -/
def matchSupportedFixed (k : Kernel) (tys : List Nat) (l : List Supported) : Bool :=
  l.any fun sk => sk.kind == k && sk.types == tys

def findAccFixed (k : Kernel) (tys : List Nat) : List Acc → Option Acc
  | [] => none
  | a :: rest => if matchSupportedFixed k tys a.supported then some a else findAccFixed k tys rest

def dispatchFixed (accs : List Acc) (k : Kernel) (tys : List Nat) (dynamic : Bool) : Option String :=
  (findAccFixed k tys accs).map fun a => if a.streamer && !dynamic then a.name ++ "_stream" else a.name

/-! ## `SupportedKernel.is_same_kernel` (accelerators/dispatching.py) -/

/-- `isinstance(kernel_op, self.kernel_type) and list(self.operand_types) == [*operand_types, *result_types]`:
the kernel kind and the WHOLE element type list, result type included -/
def isSameKernel (sk : Supported) (k : Kernel) (tys : List Nat) : Bool :=
  sk.kind == k && sk.types == tys

/-! ## `convert-tosa-to-kernel` (`RescaleClampPattern`) -/

/-- a `tosa.rescale` (i32 input, constant parameters) as the pattern sees it -/
structure TosaRescale where
  outWidth : Nat                  -- element type of the rescale result
  users : Nat                     -- number of uses of the rescale result
  clamp : Option (Int × Int)      -- (min_val, max_val) of the tosa.clamp that is the single user, if it is one
  inputZp : Int
  outputZp : Int
  multiplier : List Int
  shift : List Int
  doubleRound : Bool              -- rounding_mode == "DOUBLE_ROUND"
  deriving DecidableEq, Repr

/-- the `kernel.rescale` (parameters, result width) written in place of rescale (+ clamp); `none` = the
pattern returns without rewriting. Without a clamp only i8 / i32 results are handled and the clamp range
defaults to `value_range()` of the signless result type, `(-2^(w-1), 2^w)`, with `max // 2 - 1`. -/
def tosaToKernel (t : TosaRescale) : Option (RescaleParams × Nat) :=
  if t.users ≠ 1 then none
  else
    match t.clamp with
    | some (lo, hi) =>
      some (⟨t.inputZp, t.outputZp, t.multiplier, t.shift, hi, lo, t.doubleRound⟩, t.outWidth)
    | none =>
      if t.outWidth ≠ 8 ∧ t.outWidth ≠ 32 then none
      else
        let lo : Int := -(2 ^ (t.outWidth - 1) : Nat)
        let hi : Int := ((2 ^ t.outWidth : Nat) : Int) / 2 - 1
        some (⟨t.inputZp, t.outputZp, t.multiplier, t.shift, hi, lo, t.doubleRound⟩, t.outWidth)

end SnaxVerif.Kernel
