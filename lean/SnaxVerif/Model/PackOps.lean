import SnaxVerif.Model.PackBits
/-
Model of `pack_bitlist` (snaxc/util/pack_bitlist.py) at the level of the EMITTED OPERATION LIST: which
`arith.constant` / `arith.shli` / `arith.ori` operations are yielded, in which order, and which earlier
result (or outside SSA value) each operand refers to. `Model/PackBits.lean` models the expression tree
behind the last operation; this file models the list itself, its sequential execution and its SSA
well-formedness (every operand is defined before it is used).

No Mathlib import: this file is linked into the driver executable.
-/
namespace SnaxVerif
namespace Pack

/-- a value or offset as it is passed in: a Python `int` (a constant operation is emitted for it) or
an SSA value / operation defined outside (nothing is emitted; `v` is its run-time content) -/
inductive Src where
  | lit (v : Nat)
  | ext (v : Nat)
deriving DecidableEq, Repr, Inhabited

def Src.content : Src → Nat
  | .lit v => v
  | .ext v => v

/-- an operand: the result of the `i`-th emitted operation, or an outside SSA value with content `v` -/
inductive Ref where
  | op (i : Nat)
  | ext (v : Nat)
deriving DecidableEq, Repr, Inhabited

inductive Op where
  | const (v : Nat)          -- arith.constant
  | shl (a b : Ref)          -- arith.shli(value, offset)
  | or (a b : Ref)           -- arith.ori
deriving DecidableEq, Repr, Inhabited

/-- `if isinstance(x, int): yield (c := ConstantOp(x)) else: SSAValue.get(x)`; `base` = number of
operations emitted so far. Returns the emitted operations and the operand to use. -/
def emitSrc (base : Nat) : Src → List Op × Ref
  | .lit v => ([.const v], .op base)
  | .ext v => ([], .ext v)

/-- the body of the first loop for one `(value, offset)` pair: the OFFSET constant is emitted first,
then the value constant, then the shift -/
def emitShift (base : Nat) (v o : Src) : List Op × Ref :=
  let eo := emitSrc base o
  let ev := emitSrc (base + eo.1.length) v
  let n := base + eo.1.length + ev.1.length
  (eo.1 ++ ev.1 ++ [.shl ev.2 eo.2], .op n)

/-- the first loop over `zip(values, offsets)` (lengths already checked): operations and the list
`shifted_vals` -/
def emitShifts (base : Nat) : List (Src × Src) → List Op × List Ref
  | [] => ([], [])
  | (v, o) :: rest =>
    let e := emitShift base v o
    let r := emitShifts (base + e.1.length) rest
    (e.1 ++ r.1, e.2 :: r.2)

/-- `while len(shifted_vals) > 1: a, b, *rest = shifted_vals; yield (x := OrIOp(a, b));
shifted_vals = [*rest, x.result]` (one unit of fuel per iteration) -/
def emitOrs : Nat → Nat → List Ref → List Op
  | fuel + 1, base, a :: b :: rest => .or a b :: emitOrs fuel (base + 1) (rest ++ [.op base])
  | _, _, _ => []

/-- `pack_bitlist(values, offsets)`: the emitted operations (`lengthMismatch` = ValueError of the strict zip) -/
def emit (vs os : List Src) : Except Err (List Op) :=
  if vs.length ≠ os.length then .error .lengthMismatch
  else
    let s := emitShifts 0 (vs.zip os)
    .ok (s.1 ++ emitOrs s.2.length s.1.length s.2)

/-! ### sequential execution -/

def Ref.get (env : List Nat) : Ref → Option Nat
  | .op i => env[i]?
  | .ext v => some v

/-- value of one operation given the results of the operations before it (`none`: an operand refers to
an operation that has not been emitted yet) -/
def Op.eval (env : List Nat) : Op → Option Nat
  | .const v => some v
  | .shl a b => (a.get env).bind fun x => (b.get env).bind fun y => some (x <<< y)
  | .or a b => (a.get env).bind fun x => (b.get env).bind fun y => some (x ||| y)

/-- run the operations in order, appending each result to `env` -/
def execFrom (env : List Nat) : List Op → Option (List Nat)
  | [] => some env
  | o :: rest =>
    match o.eval env with
    | none => none
    | some v => execFrom (env ++ [v]) rest

end Pack
end SnaxVerif
