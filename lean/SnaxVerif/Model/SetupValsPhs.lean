import SnaxVerif.Model.SetupVals
import SnaxVerif.Model.Phs
/-!
# snax_phs: setup values of the PHS accelerator (property C08)

Mirrors `snaxc/accelerators/snax_phs.py`:
* `SNAXPHSAccelerator.__init__`: `fields = (*streamer_setup_fields, *phs_switch_fields, "loop_bound_alu")` with one
  `phs_switch_i` per `pe.get_true_switches()`;
* `_generate_stream_setup_vals`: loop bound, `_generate_streamer_setup_vals(op)`, `get_switch_values(generic)` =
  `decode_abstract_graph(self.pe, convert_generic_body_to_phs(generic))`, loop bound.

The processing element, `get_true_switches`, the encoder and the decoder are the model of property C20
(`Model/Phs.lean`, shared); nothing of it is re-modelled here. No Mathlib import.
-/
namespace SnaxVerif.SV

/-- exceptions of the PHS encoder / decoder, by Python class -/
def ofPhsErr : Phs.Err → Err
  | .assertion => .assertionError | .notImplemented => .notImplemented | .indexError => .indexError
  | .valueError => .valueError | .mappingNotFound => .mappingNotFound | .malformed => .malformed

/-- `self.fields` of `SNAXPHSAccelerator` for the processing element `A` -/
def phsFields (cfg : List Streamer) (A : Phs.PE) : List Field :=
  streamerFields cfg ++ (List.range A.trueSwitches).map Field.phsSwitch ++ [.loopBoundAlu]

/-- `get_switch_values`: one `arith.constant` per decoded switch value -/
def switchVals (sw : List Nat) : List Val := sw.map fun (x : Nat) => Val.c (Int.ofNat x)

/-- `_generate_stream_setup_vals`; `K` is the result of `convert_generic_body_to_phs` on the generic in the region
(or the exception it raised) -/
def phsVals (v : Variant) (cfg : List Streamer) (op : StreamOp) (A : Phs.PE) (K : Except Phs.Err Phs.PE) :
    Except Err (List Val) :=
  match firstBound v op with
  | .error e => .error e
  | .ok lb =>
    match streamerVals cfg op with
    | .error e => .error e
    | .ok sv =>
      match K with
      | .error e => .error (ofPhsErr e)
      | .ok k =>
        match Phs.decode A k with
        | .error e => .error (ofPhsErr e)
        | .ok sw => .ok (sv ++ switchVals sw ++ [.c lb])

/-- `phs_switch_i` ↦ the i-th decoded switch value (what the decoded values make the element compute is C20's
`decode_sound`); `loop_bound_alu` ↦ the number of temporal steps of stream 0. -/
def phsMeaning (cfg : List Streamer) (op : StreamOp) (sw : List Nat) : Field → Option Den
  | .phsSwitch i => (sw[i]?).map fun (x : Nat) => konst (Int.ofNat x)
  | .loopBoundAlu => (op.pats[0]?).map fun p => konst (prodI (p.dims.map (·.1)))
  | f => streamMeaning cfg op f

end SnaxVerif.SV
