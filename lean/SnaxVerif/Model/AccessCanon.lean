import SnaxVerif.Model.AffineTransform
/-
Model of `AccessPattern` / `SchedulePattern` / `TemplatePattern` construction, `canonicalize` and
`inner_dims` (snaxc/ir/dart/access_pattern.py). `PatternCollection.canonicalize / inner_dims`
(Schedule, Template) apply the same functions to every member.

A bound is `none` (dynamic, Python `None`) or a static integer (any sign: only `SchedulePattern`
refuses bounds <= 0). The pattern is the matrix form of `Model/AffineTransform.lean`.

No Mathlib import: this file is linked into the driver executable.
-/
namespace SnaxVerif
namespace AP

abbrev Bound := Option Int

inductive Cls where
  | access | schedule | template
deriving DecidableEq, Repr, Inhabited

inductive Err where
  | valueError      -- ValueError raised by the Python code
  | typeError       -- `None <= 0` in SchedulePattern.__init__
  | indexError      -- from `AffineTransform.from_affine_map` (dimension position >= num_dims)
deriving DecidableEq, Repr

structure Pattern where
  cls : Cls
  bounds : List Bound
  t : AT.Transform
deriving DecidableEq, Repr, Inhabited

/-- `any(bound <= 0 for bound in bounds)` of `SchedulePattern.__init__`, left to right (short-circuit):
a `None` met first raises TypeError, a bound `<= 0` met first raises ValueError. -/
def schedCheck : List Bound → Except Err Unit
  | [] => .ok ()
  | none :: _ => .error .typeError
  | some b :: rest => if b ≤ 0 then .error .valueError else schedCheck rest

/-- the constructors: `SchedulePattern` checks its bounds first, then `AccessPattern.__init__` checks
`len(bounds) == pattern.num_dims`. -/
def construct (cls : Cls) (bounds : List Bound) (t : AT.Transform) : Except Err Pattern :=
  match (if cls = .schedule then schedCheck bounds else .ok ()) with
  | .error e => .error e
  | .ok () =>
    if bounds.length ≠ t.nd then .error .valueError
    else .ok { cls := cls, bounds := bounds, t := t }

/-- class invariant of a constructed pattern whose matrix is a well-formed numpy array -/
def Pattern.valid (p : Pattern) : Prop :=
  p.bounds.length = p.t.nd ∧ (∀ r ∈ p.t.A, r.length = p.t.nd) ∧ p.t.A.length = p.t.b.length

/-- `bound is None or bound > 1` -/
def keep (b : Bound) : Bool :=
  match b with
  | none => true
  | some n => decide (n > 1)

/-- numpy boolean-mask column selection `row[mask]` (and the same selection on an index vector) -/
def select {α} : List Bool → List α → List α
  | m :: ms, a :: as => if m then a :: select ms as else select ms as
  | _, _ => []

/-- `canonicalize` for an arbitrary "keep this dimension" test -/
def Pattern.canonicalizeWith (k : Bound → Bool) (p : Pattern) : Pattern :=
  let mask := p.bounds.map k
  { cls := p.cls
    bounds := p.bounds.filter k
    t := { nd := (p.bounds.filter k).length, A := p.t.A.map (select mask), b := p.t.b } }

/-- `AccessPattern.canonicalize` AS IT IS: "remove dimensions with bound 1" with the test
`bound is None or bound > 1` -/
def Pattern.canonicalize (p : Pattern) : Pattern := p.canonicalizeWith keep

/-- the test of fix FC19a: `bound is None or bound != 1` -/
def keepFixed (b : Bound) : Bool :=
  match b with
  | none => true
  | some n => decide (n ≠ 1)

/-- `AccessPattern.canonicalize` with fix FC19a -/
def Pattern.canonicalizeFixed (p : Pattern) : Pattern := p.canonicalizeWith keepFixed

/-- the constructors called with an `AffineMap(n, 0, rs)`: `SchedulePattern` checks its bounds first,
`AccessPattern.__init__` converts the map (`from_affine_map` may raise) and then compares lengths. -/
def constructFromMap (cls : Cls) (bounds : List Bound) (n : Nat) (rs : List AExpr) : Except Err Pattern :=
  match (if cls = .schedule then schedCheck bounds else .ok ()) with
  | .error e => .error e
  | .ok () =>
    match AT.fromMap n rs with
    | .error .valueError => .error .valueError
    | .error .indexError => .error .indexError
    | .ok t => construct cls bounds t

/-- `AccessPattern.inner_dims(dim)`: `bounds[-dim:]`, `A[:, -dim:]` (a `dim` beyond the rank keeps
everything, as Python slicing does). -/
def Pattern.innerDims (p : Pattern) (dim : Int) : Except Err Pattern :=
  if dim ≤ 0 then .error .valueError
  else
    let k := p.bounds.length - dim.toNat
    .ok { cls := p.cls
          bounds := p.bounds.drop k
          t := { nd := p.t.nd - (p.t.nd - dim.toNat), A := p.t.A.map (·.drop (p.t.nd - dim.toNat)), b := p.t.b } }

/-- The iteration box: index `x_i` ranges over `0 <= x_i < b_i` (static) or `0 <= x_i` (dynamic). -/
def InBox : List Bound → List Int → Prop
  | [], [] => True
  | b :: bs, x :: xs => 0 ≤ x ∧ (∀ n, b = some n → x < n) ∧ InBox bs xs
  | _, _ => False

/-- re-insert index 0 at the removed positions -/
def embed : List Bool → List Int → List Int
  | true :: ms, y :: ys => y :: embed ms ys
  | false :: ms, ys => 0 :: embed ms ys
  | _, _ => []

end AP
end SnaxVerif
