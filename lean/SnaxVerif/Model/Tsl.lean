import SnaxVerif.Model.Affine
/-!
Model of tiled-strided layouts (`snaxc/ir/tsl/{stride,tiled_stride,tiled_strided_layout}.py`), of the
views that `snaxc/dialects/tsl.py` derives from them (`get_affine_map`, the values computed by the ops of
`get_bound_ops` / `get_step_ops`), of the textual form (`__str__` and `snaxc/parser/tsl_parser.py`, at token
level) and of the pointer arithmetic of `snaxc/transforms/convert_memref_to_arith.py`.

The model mirrors the Python as it is, including its treatment of `0` as "falsy" (`if stride.bound`), its
error paths (as `Except Err`) and — selected by a flag — the two defects D9 / D23 and their repairs F6 / F13.
Steps and bounds are `Nat` (the property quantifies over positive steps and bounds; `0` is kept because the
code special-cases it); negative literals are outside the model (`Err.negative`).

No Mathlib import: this file is linked into the driver executable.
-/
namespace SnaxVerif.Tsl
open SnaxVerif

/-- The exceptions of the real code that the model distinguishes. -/
inductive Err where
  | valueError | assertionError | notImplemented | parseError | indexError | typeError | divZero | negative
deriving DecidableEq, Repr, Inhabited

/-- `Stride(step, bound)`; `none` is a dynamic entry (`?`). -/
structure Stride where
  step : Option Nat
  bound : Option Nat
deriving DecidableEq, Repr, Inhabited

/-- `TiledStride.strides`, outermost tile first. -/
abbrev TStride := List Stride

/-- `TiledStridedLayout(tstrides, offset)`. -/
structure Layout where
  ts : List TStride
  offset : Option Int
deriving DecidableEq, Repr, Inhabited

/-! ## The reference function: logical index ↦ address, for fully static layouts -/

structure SStride where
  step : Nat
  bound : Nat
deriving DecidableEq, Repr, Inhabited

/-- a fully static layout: per dimension the (step, bound) pairs from the outermost to the innermost tile -/
abbrev SLayout := List (List SStride)

def SStride.toStride (s : SStride) : Stride := ⟨some s.step, some s.bound⟩

/-- the embedding of static layouts into layouts -/
def ofStatic (s : SLayout) (offset : Option Int := some 0) : Layout :=
  ⟨s.map (·.map SStride.toStride), offset⟩

/-- product of the bounds -/
def prodB : List SStride → Nat
  | [] => 1
  | s :: r => s.bound * prodB r

/-- contribution of strides whose digit is reduced: digit_k = (i mod Π_{≥k} b) div Π_{>k} b -/
def addrIn : List SStride → Nat → Nat
  | [], _ => 0
  | s :: r, i => s.step * ((i % (s.bound * prodB r)) / prodB r) + addrIn r i

/-- one dimension: mixed-radix digits of `i` w.r.t. the inner bounds, the outermost digit is not reduced -/
def addrDim : List SStride → Nat → Nat
  | [], _ => 0
  | s :: r, i => s.step * (i / prodB r) + addrIn r i

/-- THE function from logical index to address (in elements, without `offset`); missing indices count as 0 -/
def addr : SLayout → List Nat → Nat
  | [], _ => 0
  | t :: ts, idx => addrDim t (idx.headD 0) + addr ts idx.tail

/-- logical shape of a static layout -/
def shape (s : SLayout) : List Nat := s.map prodB

/-- all index vectors of a box in row-major order (last index fastest) -/
def points : List Nat → List (List Nat)
  | [] => [[]]
  | b :: bs => (List.range b).flatMap fun i => (points bs).map (i :: ·)

/-- every step and every bound is positive (the property's quantifier) -/
def SPos (s : SLayout) : Prop := ∀ t ∈ s, ∀ x ∈ t, 0 < x.step ∧ 0 < x.bound

instance (s : SLayout) : Decidable (SPos s) := by unfold SPos; infer_instance

/-! ## Basic queries -/

def Stride.isDynamic (s : Stride) : Bool := s.step.isNone || s.bound.isNone

/-- `TiledStridedLayout.__iter__`: all strides, dimension-major -/
def Layout.strides (l : Layout) : List Stride := l.ts.flatten

def Layout.isDynamic (l : Layout) : Bool := l.strides.any Stride.isDynamic

/-- `tile_bounds` -/
def Layout.tileBounds (l : Layout) : List (List (Option Nat)) := l.ts.map (·.map (·.bound))

/-- Python truthiness of `int | None` -/
def truthy : Option Nat → Bool
  | some (_ + 1) => true
  | _ => false

/-! ## `TiledStride.from_stride`, `TiledStridedLayout.from_strides` -/

/-- `bound * steps[0] if bound and steps[0] else None` -/
def mulTruthy (b s : Option Nat) : Option Nat :=
  match b, s with
  | some (b + 1), some (s + 1) => some ((b + 1) * (s + 1))
  | _, _ => none

/-- the `steps` list after the loop over `reversed(tile_bounds[1:])`; argument: `tile_bounds[1:]` -/
def stepsFrom (simple : Option Nat) : List (Option Nat) → List (Option Nat)
  | [] => [simple]
  | b :: r =>
    let rest := stepsFrom simple r
    mulTruthy b (rest.headD none) :: rest

def fromStride (simple : Option Nat) (tileBounds : List (Option Nat)) : TStride :=
  ((stepsFrom simple tileBounds.tail).zip tileBounds).map fun p => ⟨p.1, p.2⟩

def fromStrides (strides : List (Option Nat)) (tileBounds : List (List (Option Nat))) (offset : Option Int) :
    Layout :=
  ⟨(strides.zip tileBounds).map fun p => fromStride p.1 p.2, offset⟩

/-! ### variant WITH fix F42 (finding D42 of C05): `bound * steps[0] if bound and steps[0] is not None else None`

Appended; `mulTruthy` / `stepsFrom` / `fromStride` / `fromStrides` above are the code BEFORE the fix. The two agree unless
the simple stride is the static 0 (`Lemmas/TslF42.lean`), so every theorem stated for positive strides applies to both. -/

def mulTruthyF (b s : Option Nat) : Option Nat :=
  match b, s with
  | some (b + 1), some s => some ((b + 1) * s)
  | _, _ => none

def stepsFromF (simple : Option Nat) : List (Option Nat) → List (Option Nat)
  | [] => [simple]
  | b :: r =>
    let rest := stepsFromF simple r
    mulTruthyF b (rest.headD none) :: rest

def fromStrideF (simple : Option Nat) (tileBounds : List (Option Nat)) : TStride :=
  ((stepsFromF simple tileBounds.tail).zip tileBounds).map fun p => ⟨p.1, p.2⟩

def fromStridesF (strides : List (Option Nat)) (tileBounds : List (List (Option Nat))) (offset : Option Int) :
    Layout :=
  ⟨(strides.zip tileBounds).map fun p => fromStrideF p.1 p.2, offset⟩

/-! ## `canonicalize` -/

/-- the squash test of `TiledStride.canonicalize` (`prev` = current innermost kept stride, `s` = next outer) -/
def squashable (prev s : Stride) : Bool :=
  truthy prev.step && truthy prev.bound && truthy s.bound &&
    (match prev.step, prev.bound with
     | some ps, some pb => s.step == some (ps * pb)
     | _, _ => false)

def mulOpt (a b : Option Nat) : Option Nat :=
  match a, b with
  | some a, some b => some (a * b)
  | _, _ => none

/-- `TiledStride.canonicalize` (the Python loop runs from the innermost stride outwards = right fold) -/
def canonT : TStride → TStride
  | [] => []
  | s :: r =>
    match canonT r with
    | [] => [s]                                    -- "always keep the innermost one"
    | h :: t =>
      if s.bound = some 1 then h :: t              -- unit bound: dropped
      else if squashable h s then ⟨h.step, mulOpt h.bound s.bound⟩ :: t
      else s :: h :: t

def Layout.canonicalize (l : Layout) : Layout := ⟨l.ts.map canonT, l.offset⟩

/-! ## `all_values`, `self_overlaps`, `is_dense` -/

/-- `Stride.all_values` -/
def Stride.allValues (s : Stride) : Except Err (List Nat) :=
  match s.step, s.bound with
  | some st, some b =>
    if st = 0 then .error .assertionError
    else if b = 0 then .error .assertionError
    else .ok ((List.range b).map (st * ·))
  | _, _ => .error .valueError

/-- `np.expand_dims(result, -1) + np.expand_dims(next, 0)`, flattened -/
def bsum (acc vals : List Nat) : List Nat := acc.flatMap fun a => vals.map (a + ·)

def allValuesFrom : List Stride → List Nat → Except Err (List Nat)
  | [], acc => .ok acc
  | s :: r, acc =>
    match s.allValues with
    | .error e => .error e
    | .ok v => allValuesFrom r (bsum acc v)

/-- `TiledStridedLayout.all_values` (as a list, in numpy's flatten order) -/
def Layout.allValues (l : Layout) : Except Err (List Nat) := allValuesFrom l.strides [0]

def hasDup : List Nat → Bool
  | [] => false
  | a :: r => r.contains a || hasDup r

def maxL (l : List Nat) : Nat := l.foldl max 0

def Layout.selfOverlaps (l : Layout) : Except Err Bool := l.allValues.map hasDup

def Layout.isDense (l : Layout) : Except Err Bool :=
  l.allValues.map fun v => if hasDup v then false else decide (maxL v = v.length - 1)

/-! ## `TiledStridedLayoutAttr.get_affine_map` -/

/-- `prod([stride.bound for stride in … if stride.bound])` -/
def prodT : List Stride → Nat
  | [] => 1
  | s :: r =>
    match s.bound with
    | some (b + 1) => (b + 1) * prodT r
    | _ => prodT r

/-- the summand of stride `s` (followed by the inner strides `r`) of dimension `dim` -/
def affTerm (dim : Nat) (depth0 : Bool) (s : Stride) (r : List Stride) : Except Err AExpr :=
  match s.step with
  | some (st + 1) =>
    let base := if depth0 then AExpr.dim dim else .bin .mod (.dim dim) (.const (prodT (s :: r)))
    .ok (AExpr.smartMulC (.bin .fdiv base (.const (prodT r))) (st + 1))
  | _ => .error .assertionError       -- `assert (step := …)`

def affDim (dim : Nat) : Bool → List Stride → AExpr → Except Err AExpr
  | _, [], acc => .ok acc
  | d0, s :: r, acc =>
    match affTerm dim d0 s r with
    | .error e => .error e
    | .ok t => affDim dim false r (AExpr.smartAdd acc t)

def affDims : Nat → List TStride → AExpr → Except Err AExpr
  | _, [], acc => .ok acc
  | d, t :: ts, acc =>
    match affDim d true t acc with
    | .error e => .error e
    | .ok a => affDims (d + 1) ts a

/-- the single result expression of `get_affine_map()` (built with xDSL's smart `+`, `*`, `%`, `//`) -/
def Layout.affineMap (l : Layout) : Except Err AExpr :=
  if l.isDynamic then .error .notImplemented else affDims 0 l.ts (.const 0)

/-! ## Values computed by the ops of `get_bound_ops` / `get_step_ops` -/

/-- `assert stride.bound is not None` for the inner tiles -/
def staticBound (x : Stride) : Except Err Nat :=
  match x.bound with
  | some b => .ok b
  | none => .error .assertionError

def boundsDim (t : TStride) (dimSize : Nat) : Except Err (List Nat) :=
  match t with
  | [] => .error .indexError                      -- `tsl.get_stride(dim, 0)`
  | s :: r =>
    let b0 := match s.bound with
      | some b => b
      | none => dimSize / prodT (s :: r)            -- arith.divui; the divisor is ≥ 1
    match r.mapM staticBound with
    | .error e => .error e
    | .ok inner => .ok (b0 :: inner)

/-- `get_bound_ops(memref)`: the value of every bound op, given the runtime shape -/
def boundsAt : List TStride → List Nat → Except Err (List (List Nat))
  | [], _ => .ok []
  | _ :: _, [] => .error .indexError
  | t :: ts, d :: ds =>
    match boundsDim t d with
    | .error e => .error e
    | .ok b => match boundsAt ts ds with
      | .error e => .error e
      | .ok bs => .ok (b :: bs)

/-- position (flat index in dimension-major order) and value of the first largest truthy static step -/
def maxStep : List Stride → Nat → Nat → Nat → Nat × Nat
  | [], _, bestPos, bestVal => (bestPos, bestVal)
  | s :: r, pos, bestPos, bestVal =>
    match s.step with
    | some st => if st > bestVal then maxStep r (pos + 1) pos st else maxStep r (pos + 1) bestPos bestVal
    | none => maxStep r (pos + 1) bestPos bestVal

/-- the right-to-left assignment loop of `get_step_ops` on the reversed flat list of (stride, bound value);
    result in the same (reversed) order -/
def stepsRev (el : Nat) : List (Stride × Nat) → Nat → List Nat
  | [], _ => []
  | (s, b) :: r, dyn =>
    match s.step with
    | some st => (st * el) :: stepsRev el r dyn
    | none => dyn :: stepsRev el r (dyn * b)

/-- regroup a flat list according to the depths of `ts` -/
def regroup : List TStride → List Nat → List (List Nat)
  | [], _ => []
  | t :: ts, flat => flat.take t.length :: regroup ts (flat.drop t.length)

/-- `get_step_ops(bound_ops, memref_op, in_bytes)` for a memref whose layout is not a `StridedLayoutAttr`:
    the value of every step op (`el` = element size in bytes, or 1) -/
def stepsAt (l : Layout) (bounds : List (List Nat)) (el : Nat) : Except Err (List (List Nat)) :=
  let flat := l.strides
  let fb := bounds.flatten
  if l.ts = [] then .error .indexError             -- `tsl.tstrides[-1]`
  else if flat.length ≠ fb.length then .error .indexError
  else if flat = [] then .error .indexError        -- bound_ops[max_key] with depth -1: KeyError
  else
    let (p, v) := maxStep flat 0 (flat.length - 1) 0
    let dyn0 := fb.getD p 0 * (v * el)
    .ok (regroup l.ts (stepsRev el (flat.zip fb).reverse dyn0).reverse)

/-- the static layout that the bound and step ops describe at run time (steps in elements) -/
def resolve (l : Layout) (runtimeShape : List Nat) : Except Err SLayout :=
  match boundsAt l.ts runtimeShape with
  | .error e => .error e
  | .ok bs => match stepsAt l bs 1 with
    | .error e => .error e
    | .ok ss => .ok ((ss.zip bs).map fun p => (p.1.zip p.2).map fun q => ⟨q.1, q.2⟩)

/-! ## Textual form, at token level -/

inductive Tok where
  | lsq | rsq | lpar | rpar | arrow | comma | colon | question | greater | minus
  | int (n : Nat) | offsetKw | other
deriving DecidableEq, Repr, Inhabited

/-- `str(x) if x else "?"` (used for steps and bounds: `0` prints as `?`) -/
def printOptNat : Option Nat → Tok
  | some (n + 1) => .int (n + 1)
  | _ => .question

def commaSep : List (List Tok) → List Tok
  | [] => []
  | [x] => x
  | x :: y :: r => x ++ .comma :: commaSep (y :: r)

/-- `TiledStride.__str__` -/
def printTStride (t : TStride) : List Tok :=
  .lsq :: commaSep (t.map fun s => [printOptNat s.bound]) ++
    .rsq :: .arrow :: .lpar :: commaSep (t.map fun s => [printOptNat s.step]) ++ [.rpar]

def printOffset : Option Int → List Tok
  | none => [.question]
  | some (.ofNat n) => [.int n]
  | some (.negSucc n) => [.minus, .int (n + 1)]

/-- `TiledStridedLayout.__str__` -/
def printLayout (l : Layout) : List Tok :=
  commaSep (l.ts.map printTStride) ++
    (if l.offset = some 0 then [] else .comma :: .offsetKw :: .colon :: printOffset l.offset)

/-- `_parse_int_or_question` -/
def parseIntQ : List Tok → Except Err (Option Int × List Tok)
  | .question :: r => .ok (none, r)
  | .minus :: .int n :: r => .ok (some (-(n : Int)), r)
  | .int n :: r => .ok (some (n : Int), r)
  | _ => .error .parseError

def dropComma : List Tok → List Tok
  | .comma :: r => r
  | r => r

/-- the loops of `_parse_bound` / `_parse_step` after the opening bracket; one unit of fuel per item -/
def parseItems (close : Tok) : Nat → List Tok → Except Err (List (Option Int) × List Tok)
  | 0, _ => .error .parseError
  | f + 1, toks =>
    match toks with
    | [] => .error .parseError
    | t :: r =>
      if t = close then .ok ([], r)
      else match parseIntQ (t :: r) with
        | .error e => .error e
        | .ok (v, r1) =>
          match parseItems close f (dropComma r1) with
          | .error e => .error e
          | .ok (vs, r2) => .ok (v :: vs, r2)

def toNatEntry : Option Int → Except Err (Option Nat)
  | none => .ok none
  | some (.ofNat n) => .ok (some n)
  | some (.negSucc _) => .error .negative

def mkStrides : List (Option Int) → List (Option Int) → Except Err TStride
  | st :: sts, b :: bs =>
    match toNatEntry st, toNatEntry b, mkStrides sts bs with
    | .ok st', .ok b', .ok r => .ok (⟨st', b'⟩ :: r)
    | _, _, _ => .error .negative
  | _, _ => .ok []

/-- `_parse_tiled_stride` -/
def parseTStride (fuel : Nat) : List Tok → Except Err (TStride × List Tok)
  | .lsq :: r =>
    match parseItems .rsq fuel r with
    | .error e => .error e
    | .ok (bounds, r1) =>
      match r1 with
      | .arrow :: .lpar :: r2 =>
        match parseItems .rpar fuel r2 with
        | .error e => .error e
        | .ok (steps, r3) =>
          if steps.length ≠ bounds.length then .error .parseError
          else match mkStrides steps bounds with
            | .error e => .error e
            | .ok t => .ok (t, r3)
      | _ => .error .parseError
  | _ => .error .parseError

/-- the offset after `offset :`. `f6 = false`: the tree as found (`parse_integer`, defect D9);
    `f6 = true`: with fix F6 (`_parse_int_or_question`). -/
def parseOffset (f6 : Bool) (toks : List Tok) : Except Err (Option Int × List Tok) :=
  match parseIntQ toks with
  | .ok (none, r) => if f6 then .ok (none, r) else .error .parseError
  | x => x

/-- `TSLParser.parse` followed by the closing `>` that `parse_parameter` requires -/
def parseLayout (f6 : Bool) : Nat → List Tok → List TStride → Except Err Layout
  | 0, _, _ => .error .parseError
  | f + 1, toks, acc =>
    match toks with
    | .greater :: _ => .ok ⟨acc, some 0⟩
    | .offsetKw :: r =>
      match r with
      | .colon :: r1 =>
        match parseOffset f6 r1 with
        | .error e => .error e
        | .ok (o, r2) =>
          match r2 with
          | .greater :: _ => .ok ⟨acc, o⟩
          | _ => .error .parseError
      | _ => .error .parseError
    | _ =>
      match parseTStride toks.length toks with
      | .error e => .error e
      | .ok (t, r1) => parseLayout f6 f (dropComma r1) (acc ++ [t])

/-- parse a token stream (which has to contain the closing `>`) -/
def parse (f6 : Bool) (toks : List Tok) : Except Err Layout := parseLayout f6 (toks.length + 1) toks []

/-! ## Pointer arithmetic of `convert-memref-to-arith` (subview of a TSL memref) -/

/-- `prod(cast(int, stride.bound) for stride in strides[1:])` -/
def prodInner : List Stride → Except Err Nat
  | [] => .ok 1
  | s :: r =>
    match s.bound, prodInner r with
    | some b, .ok p => .ok (b * p)
    | none, _ => .error .typeError
    | _, .error e => .error e

/-- byte offset contributed by subview offset `off` along dimension `t` -/
def ptrTerm (t : TStride) (el off : Nat) : Except Err Nat :=
  match t with
  | [] => .error .indexError
  | s :: r =>
    match s.step with
    | none => .error .assertionError
    | some st =>
      match prodInner r with
      | .error e => .error e
      | .ok p => if p = 0 then .error .divZero else .ok (off / p * (st * el))

/-- The byte offsets that are added to the aligned pointer, in order.
    `offs`: per dimension `none` = dynamic offset (values in `dyn`, in order), `some c` = static offset.
    `f13 = false`: the tree as found (static offsets ignored, defect D23); `true`: with fix F13. -/
def subviewTerms (f13 : Bool) (el : Nat) : List TStride → List (Option Nat) → List Nat → Except Err (List Nat)
  | _, [], _ => .ok []
  | [], _ :: _, _ => .error .indexError
  | _ :: _, none :: _, [] => .error .indexError   -- malformed subview: dynamic offset without operand
  | t :: ts, none :: offs, v :: dyn =>
    match ptrTerm t el v with
    | .error e => .error e
    | .ok x => (subviewTerms f13 el ts offs dyn).map (x :: ·)
  | t :: ts, some c :: offs, dyn =>
    if f13 && c ≠ 0 then
      match ptrTerm t el c with
      | .error e => .error e
      | .ok x => (subviewTerms f13 el ts offs dyn).map (x :: ·)
    else subviewTerms f13 el ts offs dyn

/-- The value that replaces `extract_aligned_pointer_as_index(subview …)`. In the tree as found the
    replacement is the result of the *last* emitted op, which is the element-size constant when no offset was
    added (second half of D23); F13 passes the pointer explicitly. -/
def subviewPtr (f13 : Bool) (el base : Nat) (ts : List TStride) (offs : List (Option Nat)) (dyn : List Nat) :
    Except Err Nat :=
  (subviewTerms f13 el ts offs dyn).map fun terms =>
    if terms.isEmpty && !f13 then el else base + terms.sum

/-- the meaning of plain strides: dot product of strides and index (missing indices count as 0) -/
def dot : List Nat → List Nat → Nat
  | [], _ => 0
  | s :: ss, idx => s * idx.headD 0 + dot ss idx.tail

/-- the offsets of a subview as one list of numbers (static entries and dynamic operand values merged) -/
def mergeOffs : List (Option Nat) → List Nat → Option (List Nat)
  | [], _ => some []
  | none :: _, [] => none
  | none :: offs, v :: dyn => (mergeOffs offs dyn).map (v :: ·)
  | some c :: offs, dyn => (mergeOffs offs dyn).map (c :: ·)

/-- every dimension is tiled at least once and every offset is a multiple of its inner tile size -/
def Aligned : SLayout → List Nat → Prop
  | t :: ts, v :: vs => t ≠ [] ∧ prodB t.tail ∣ v ∧ Aligned ts vs
  | [], [] => True
  | _, _ => False

/-! ## Specification vocabulary for the dynamic bound / step resolution (used by the C10 theorems) -/

/-- product of the extents of the dynamic-step tiles in a list of (stride, extent) pairs -/
def dynProd : List (Stride × Nat) → Nat
  | [] => 1
  | (s, b) :: r => (match s.step with | none => b | some _ => 1) * dynProd r

/-- a dimension whose outermost bound is dynamic: (outermost step, static inner tiles) -/
abbrev DynDim := Option Nat × List SStride

def DynDim.toTStride (d : DynDim) : TStride := ⟨d.1, none⟩ :: d.2.map SStride.toStride

/-- the bounds such a dimension resolves to at runtime extent `n` -/
def DynDim.boundsFor (d : DynDim) (n : Nat) : List Nat := n / prodB d.2 :: d.2.map (·.bound)

/-! ## The loop-nest view (DMA loop nests, allocation sizes) -/

/-- the addresses visited by a loop nest over (bound, step) pairs, outermost loop first, innermost fastest -/
def nestValues : List (Nat × Nat) → List Nat
  | [] => [0]
  | (b, st) :: r => (List.range b).flatMap fun i => (nestValues r).map (st * i + ·)

/-- the loop nest described by per-tile bounds and steps (dimension-major, outermost tile first) -/
def nestOf (bounds steps : List (List Nat)) : List (Nat × Nat) := bounds.flatten.zip steps.flatten

/-- address of a digit vector under per-tile steps -/
def dotDigits : List Nat → List Nat → Nat
  | st :: sts, d :: ds => d * st + dotDigits sts ds
  | _, _ => 0

/-- digit vectors of a nest: one digit per tile, below the tile's bound -/
def InRange : List Nat → List Nat → Prop
  | [], [] => True
  | b :: bs, d :: ds => d < b ∧ InRange bs ds
  | _, _ => False

/-! ## Vocabulary for the injectivity of a resolved dynamic layout (lists of (stride, extent), read right to
left = innermost tile of the last dimension first, exactly as `get_step_ops` assigns the steps) -/

/-- contribution of the static tiles to the address of a digit vector -/
def statSum (el : Nat) : List (Stride × Nat) → List Nat → Nat
  | (s, _) :: r, d :: ds => (match s.step with | some st => d * (st * el) | none => 0) + statSum el r ds
  | _, _ => 0

/-- the largest address the static tiles reach -/
def statSpan (el : Nat) : List (Stride × Nat) → Nat
  | [] => 0
  | (s, b) :: r => (match s.step with | some st => (b - 1) * (st * el) | none => 0) + statSpan el r

/-- the digits of the static tiles -/
def statDigits : List (Stride × Nat) → List Nat → List Nat
  | (s, _) :: r, d :: ds => (match s.step with | some _ => [d] | none => []) ++ statDigits r ds
  | _, _ => []

/-- mixed-radix value of the digits of the dynamic tiles (first visited = least significant) -/
def dynVal : List (Stride × Nat) → List Nat → Nat
  | (s, b) :: r, d :: ds => match s.step with
    | some _ => dynVal r ds
    | none => d + b * dynVal r ds
  | _, _ => 0

/-! ## `get_step_ops` with fix FC10a (finding C10-N1) -/

/-- `get_step_ops` with fix FC10a: when no stride has a (truthy) static step the chain is seeded with the
    element size ("default to the most right stride (row-major-like)") instead of `extent × 0`; otherwise
    exactly `stepsAt`. (`bound_ops[max_key]` is no longer read in that case, so a layout without strides does
    not raise here.) -/
def stepsAtN1 (l : Layout) (bounds : List (List Nat)) (el : Nat) : Except Err (List (List Nat)) :=
  let flat := l.strides
  let fb := bounds.flatten
  if l.ts = [] then .error .indexError
  else if flat.length ≠ fb.length then .error .indexError
  else
    let (p, v) := maxStep flat 0 (flat.length - 1) 0
    let dyn0 := if v = 0 then el else fb.getD p 0 * (v * el)
    .ok (regroup l.ts (stepsRev el (flat.zip fb).reverse dyn0).reverse)

/-! ## `get_step_ops` on a memref whose layout is a `StridedLayoutAttr` (the metadata branch, tree with FC10a) -/

/-- per tile of one dimension: the step pre-assigned from `memref.extract_strided_metadata` — only the LAST
    tile of the dimension, and only if its step is dynamic: `metadata.strides[dim] * element_size` -/
def preDim (pre : Nat) : TStride → List (Option Nat)
  | [] => []
  | [s] => [if s.step.isNone then some pre else none]
  | _ :: s :: r => none :: preDim pre (s :: r)

/-- the pre-assigned steps of a layout (`mstr` = run-time strides of the memref in elements, `elSize` = size of the
    element type in bytes — the code multiplies by it whether or not `in_bytes` is set) -/
def preLayout (elSize : Nat) : List TStride → List Nat → Except Err (List (List (Option Nat)))
  | [], _ => .ok []
  | _ :: _, [] => .error .indexError             -- `metadata_op.strides[dim]`
  | t :: ts, m :: ms =>
    if t = [] then .error .indexError            -- `tsl.get_stride(dim, -1)`
    else match preLayout elSize ts ms with
      | .error e => .error e
      | .ok r => .ok (preDim (m * elSize) t :: r)

/-- the right-to-left assignment loop with pre-assigned steps: a dynamic tile takes its pre-assigned step if it
    has one, else the chain value; either way the chain continues with `step * bound` -/
def stepsRevM (el : Nat) : List ((Stride × Nat) × Option Nat) → Nat → List Nat
  | [], _ => []
  | ((s, b), pre) :: r, dyn =>
    match s.step with
    | some st => (st * el) :: stepsRevM el r dyn
    | none =>
      let stp := match pre with
        | some p => p
        | none => dyn
      stp :: stepsRevM el r (stp * b)

/-- `get_step_ops(bound_ops, memref_op, in_bytes)` for a memref with a `StridedLayoutAttr`
    (`el` = `elSize` if `in_bytes` else 1) -/
def stepsAtStrided (l : Layout) (bounds : List (List Nat)) (el elSize : Nat) (mstr : List Nat) :
    Except Err (List (List Nat)) :=
  match preLayout elSize l.ts mstr with
  | .error e => .error e
  | .ok pre =>
    let flat := l.strides
    let fb := bounds.flatten
    if l.ts = [] then .error .indexError
    else if flat.length ≠ fb.length then .error .indexError
    else
      let (p, v) := maxStep flat 0 (flat.length - 1) 0
      let dyn0 := if v = 0 then el else fb.getD p 0 * (v * el)
      .ok (regroup l.ts (stepsRevM el ((flat.zip fb).zip pre.flatten).reverse dyn0).reverse)

/-! ## Small helpers of the classes (`TiledStride.is_dynamic / all_values / get_stride`, `equal_tile_bounds`,
`Stride.__str__`) -/

/-- `TiledStride.is_dynamic` -/
def tstrideIsDynamic (t : TStride) : Bool := t.any Stride.isDynamic

/-- `TiledStride.all_values`: the first failing stride decides the exception -/
def tstrideAllValues (t : TStride) : Except Err (List (List Nat)) := t.mapM Stride.allValues

/-- `TiledStride.get_stride(depth)` for `depth ≥ 0` (`IndexError` is turned into `None`) -/
def tstrideGet (t : TStride) (depth : Nat) : Option Stride := t[depth]?

/-- `equal_tile_bounds` -/
def Layout.equalTileBounds (a b : Layout) : Bool := a.tileBounds == b.tileBounds

/-- `Stride.__str__`: `bound -> step`, `?` only for `None` (a literal 0 is printed as 0 here) -/
def printStride (s : Stride) : List Tok :=
  [match s.bound with | some b => Tok.int b | none => Tok.question, .arrow,
   match s.step with | some st => Tok.int st | none => Tok.question]

/-! ## Vocabulary for the general statement about subview pointers -/

/-- every offset rounded down to a multiple of the inner tile size of its dimension -/
def floorTile : SLayout → List Nat → List Nat
  | t :: ts, v :: vs => (v / prodB t.tail * prodB t.tail) :: floorTile ts vs
  | _, _ => []

/-- one offset per dimension, every dimension tiled at least once -/
def Shaped : SLayout → List Nat → Prop
  | t :: ts, _ :: vs => t ≠ [] ∧ Shaped ts vs
  | [], [] => True
  | _, _ => False

end SnaxVerif.Tsl
