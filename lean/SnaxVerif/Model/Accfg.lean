/-
Model of the accfg layer of snax-mlir (C01, C06, C07): a structured IR (setups, launches, awaits,
pure arithmetic, opaque calls, scf.if, scf.for), an abstract CSR machine, and the accelerator-state
inference of `snaxc/inference/trace_acc_state.py` (with fixes F1/F2 applied) as a forward analysis.

State-typed SSA values of the real IR are erased: what the compiler assumes at a program point
(`infer_state_of` of the state operand) is compared with `knownB` at that point by the
correspondence check, for every setup and launch of every generated program.

No Mathlib import: linked into the driver executable.
-/
namespace SnaxVerif.Accfg

abbrev Var := Nat
abbrev AccId := Nat
abbrev Field := Nat
abbrev Facts := AccId → Field → Option Var
abbrev Env := Var → Int
abbrev Regs := AccId → Field → Int

inductive Event where
  | launch (a : AccId) (snapshot : List Int) (lvals : List Int)
  | await (a : AccId)
  | call (tag : Nat)
deriving DecidableEq, Repr

/-- side-effect-free operations; `opaque` is any other pure op (an arbitrary deterministic function
of its operands, supplied by the configuration) -/
inductive PureOp where
  | add | sub | mul | cast
  | const (c : Int)
  | opaque (tag : Nat)
deriving DecidableEq, Repr

/-- What the theorems are parametric in: the register fields every accelerator has (a launch observes
all of them), the behaviour of effectful calls ("behind the compiler's back") and of opaque pure ops. -/
structure Cfg where
  fields : AccId → List Field
  clob : Nat → Regs → Regs
  opq : Nat → List Int → Int

def PureOp.eval (cfg : Cfg) : PureOp → List Int → Int
  | .add, [x, y] => x + y
  | .sub, [x, y] => x - y
  | .mul, [x, y] => x * y
  | .cast, [x] => x
  | .const c, _ => c
  | .opaque t, xs => cfg.opq t xs
  | _, _ => 0

def noFacts : Facts := fun _ _ => none
/-- `state_intersection` -/
def meet (x y : Facts) : Facts := fun a f => if x a f = y a f then x a f else none
/-- a setup updates the fields it names -/
def upd (F : Facts) (a : AccId) (fs : List (Field × Var)) : Facts := fun a' f =>
  if a' = a then (match fs.lookup f with | some x => some x | none => F a' f) else F a' f
/-- proof-only: a write that exists only in the transformed run forgets its fields unless it stores
what is known to be there -/
def forget (F : Facts) (a : AccId) (fs : List (Field × Var)) : Facts := fun a' f =>
  if a' = a then (match fs.lookup f with
    | some y => if F a' f = some y then F a' f else none
    | none => F a' f) else F a' f
def setRegs (r : Regs) (env : Env) (a : AccId) (fs : List (Field × Var)) : Regs := fun a' f =>
  if a' = a then (match fs.lookup f with | some x => env x | none => r a' f) else r a' f

mutual
inductive Stmt where
  | setup (a : AccId) (fs : List (Field × Var))
  | ghost (a : AccId) (fs : List (Field × Var))     -- proof device: a setup present only in the transformed run
  | launch (a : AccId) (lvals : List Var)
  | await (a : AccId)
  | pure (dst : Var) (op : PureOp) (args : List Var)
  | call (tag : Nat) (effects : Bool)
  | ifS (c : Var) (t e : Block)
  | forS (lb ub step iv : Var) (body : Block)
inductive Block where
  | nil
  | cons (s : Stmt) (r : Block)
end

structure St where
  env : Env
  regs : Regs
  tr : List Event

/-- scf.for trip count (a non-positive step never iterates; MLIR requires step > 0) -/
def tripCount (lb ub step : Int) : Nat :=
  if step ≤ 0 ∨ ub ≤ lb then 0 else ((ub - lb + step - 1) / step).toNat

/-- run `f i` for i = k, k+1, …, k+n-1 -/
def iterFrom {σ} (f : Nat → σ → σ) : Nat → Nat → σ → σ
  | 0, _, s => s
  | n+1, k, s => iterFrom f n (k + 1) (f k s)

def setEnv (env : Env) (v : Var) (x : Int) : Env := fun w => if w = v then x else env w

mutual
def execS (cfg : Cfg) (gh : Bool) : Stmt → St → St
  | .setup a fs, s => { s with regs := setRegs s.regs s.env a fs }
  | .ghost a fs, s => if gh then { s with regs := setRegs s.regs s.env a fs } else s
  | .launch a lv, s =>
      { s with tr := s.tr ++ [Event.launch a ((cfg.fields a).map (s.regs a)) (lv.map s.env)] }
  | .await a, s => { s with tr := s.tr ++ [Event.await a] }
  | .pure d op args, s => { s with env := setEnv s.env d (op.eval cfg (args.map s.env)) }
  | .call tag eff, s =>
      { s with regs := (if eff then cfg.clob tag s.regs else s.regs), tr := s.tr ++ [Event.call tag] }
  | .ifS c t e, s => if s.env c ≠ 0 then execB cfg gh t s else execB cfg gh e s
  | .forS lb ub step iv b, s =>
      let l := s.env lb; let st := s.env step
      iterFrom (fun i u => execB cfg gh b { u with env := setEnv u.env iv (l + i * st) })
        (tripCount l (s.env ub) st) 0 s
def execB (cfg : Cfg) (gh : Bool) : Block → St → St
  | .nil, s => s
  | .cons s r, st => execB cfg gh r (execS cfg gh s st)
end

/- The accelerator-state inference (F1: loop head = F ⊓ body(F); after the loop = F ⊓ body(head);
F2: an effectful call forgets everything, also when nested). -/
mutual
def knownS : Stmt → Facts → Facts
  | .setup a fs, F => upd F a fs
  | .ghost a fs, F => forget F a fs
  | .launch _ _, F => F
  | .await _, F => F
  | .pure _ _ _, F => F
  | .call _ eff, F => if eff then noFacts else F
  | .ifS _ t e, F => meet (knownB t F) (knownB e F)
  | .forS _ _ _ _ b, F => meet F (knownB b (meet F (knownB b F)))
def knownB : Block → Facts → Facts
  | .nil, F => F
  | .cons s r, F => knownB r (knownS s F)
end

/-- facts at the head of a loop body -/
def headFacts (b : Block) (F : Facts) : Facts := meet F (knownB b F)

/-- tabulate what is known about accelerator `a` over a field list -/
def tab (F : Facts) (a : AccId) (fs : List Field) : List (Field × Var) :=
  fs.filterMap fun f => (F a f).map fun x => (f, x)

/- In pre-order: what is assumed in front of every setup and launch (for the correspondence with
`infer_state_of` of the op's state operand). A launch's state operand is the state *after* its setup,
which is the state in front of the launch. -/
mutual
def annotS (fields : AccId → List Field) : Stmt → Facts → List (List (Field × Var))
  | .setup a _, F => [tab F a (fields a)]
  | .launch a _, F => [tab F a (fields a)]
  | .ifS _ t e, F => annotB fields t F ++ annotB fields e F
  | .forS _ _ _ _ b, F => annotB fields b (headFacts b F)
  | _, _ => []
def annotB (fields : AccId → List Field) : Block → Facts → List (List (Field × Var))
  | .nil, _ => []
  | .cons s r, F => annotS fields s F ++ annotB fields r (knownS s F)
end

mutual
def defsS : Stmt → List Var
  | .pure d _ _ => [d]
  | .ifS _ t e => defsB t ++ defsB e
  | .forS _ _ _ iv b => iv :: defsB b
  | _ => []
def defsB : Block → List Var
  | .nil => []
  | .cons s r => defsS s ++ defsB r
end
mutual
def usesS : Stmt → List Var
  | .setup _ fs => fs.map (·.2)
  | .ghost _ fs => fs.map (·.2)
  | .ifS _ t e => usesB t ++ usesB e
  | .forS _ _ _ _ b => usesB b
  | _ => []
def usesB : Block → List Var
  | .nil => []
  | .cons s r => usesS s ++ usesB r
end

/- SSA well-formedness used by the theorems: a value used by a setup is not redefined later in the
same block (decidable; checked on every converted program by the driver). -/
mutual
def wfS : Stmt → Bool
  | .ifS _ t e => wfB t && wfB e
  | .forS _ _ _ _ b => wfB b
  | _ => true
def wfB : Block → Bool
  | .nil => true
  | .cons s r => wfS s && wfB r && (usesS s).all (fun x => !(defsB r).contains x)
end

/- a setup never names a field twice (the dialect verifier's job; needed by `simplify`) -/
mutual
def nodupS : Stmt → Bool
  | .setup _ fs => decide (fs.map (·.1)).Nodup
  | .ghost _ fs => decide (fs.map (·.1)).Nodup
  | .ifS _ t e => nodupB t && nodupB e
  | .forS _ _ _ _ b => nodupB b
  | _ => true
def nodupB : Block → Bool
  | .nil => true
  | .cons s r => nodupS s && nodupB r
end

end SnaxVerif.Accfg
