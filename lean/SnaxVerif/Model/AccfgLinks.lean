import SnaxVerif.Model.Accfg
/-!
Linked accfg IR (C07): the statements of `Model/Accfg.lean` WITH the state-typed SSA values.

* `PStmt`/`PBlock` — the program before `accfg-trace-states`: every setup has a result state id and an optional
  (possibly stale) input state, every launch names the state it runs on; `scf.if` carries no state yet, `scf.for`
  may already carry state values (`PCar`: pre-existing threading of a loop).
* `LStmt`/`LBlock` — the traced program: setups are linked, `scf.for` carries per accelerator
  (block argument, init, yielded, result), `scf.if` yields per accelerator (result, then-state, else-state).
* `weave` — `_weave_states_in_region` (snaxc/transforms/convert_linalg_to_accfg.py) as it is at /repo HEAD.
* `inferL` — `infer_state_of` (snaxc/inference/trace_acc_state.py): follows the links, cuts the cycle through a
  loop-carried block argument with the `assume` dictionary exactly as the Python does.
* `erase` — forgets the links (and the empty setups the pass inserts): back to the IR of `Model/Accfg.lean`.

No Mathlib import: linked into the driver executable.
-/
namespace SnaxVerif.AccfgLinks
open SnaxVerif.Accfg

abbrev StateId := Nat

/- ===== Python `State = dict[str, SSAValue]` (insertion-ordered dictionary) ===== -/
abbrev LState := List (Field × Var)

/-- `d[f] = x` -/
def dset : LState → Field → Var → LState
  | [], f, x => [(f, x)]
  | (g, y) :: r, f, x => if g = f then (f, x) :: r else (g, y) :: dset r f x

/-- `d.update(dict(setup_op.iter_params()))`; with `d = {}`: `{name: val for name, val in setup_op.iter_params()}`
(a field named twice: the last value wins, as in Python) -/
def dupdate (d : LState) (fs : List (Field × Var)) : LState := fs.foldl (fun d p => dset d p.1 p.2) d

/-- `state_intersection(a, b) = {k: a[k] for k in a if a[k] == b.get(k)}` -/
def dinter (a b : LState) : LState := a.filter fun p => b.lookup p.1 == some p.2

/- ===== owner of a state value (what `state_var.owner` is matched against) ===== -/
inductive LDef where
  | setup (inp : Option StateId) (fs : List (Field × Var))   -- result of accfg.setup
  | ifRes (t e : StateId)                                    -- result of scf.if: the two yielded states
  | forRes (init yld : StateId)                              -- result of scf.for: iter_arg, yielded
  | forArg (init yld : StateId)                              -- block argument of the scf.for body
deriving Repr, DecidableEq

/-- `infer_state_of(state_var, assume)`. `D` = owner table of the program, `A` = `assume` (newest binding first,
`{**assume, state_var: init}`), first argument = recursion fuel (`none` = out of fuel or a value without a
defining setup / scf.if / scf.for — the Python raises `ValueError` / `RecursionError` there). -/
def inferL (D : StateId → Option LDef) : Nat → List (StateId × LState) → StateId → Option LState
  | 0, _, _ => none
  | n+1, A, v =>
    match A.lookup v with
    | some s => some s
    | none =>
      match D v with
      | none => none
      | some (.setup none fs) => some (dupdate [] fs)
      | some (.setup (some i) fs) => (inferL D n A i).map fun s => dupdate s fs
      | some (.ifRes t e) => (inferL D n A t).bind fun x => (inferL D n A e).map fun y => dinter x y
      | some (.forRes i y) => (inferL D n A i).bind fun x => (inferL D n A y).map fun z => dinter x z
      | some (.forArg i y) =>
          (inferL D n A i).bind fun x => (inferL D n ((v, x) :: A) y).map fun z => dinter x z

/- ===== the IR ===== -/
structure IfRes where
  acc : AccId
  res : StateId
  thn : StateId
  els : StateId
deriving Repr, DecidableEq

structure ForCar where
  acc : AccId
  arg : StateId
  init : StateId
  yld : StateId
  res : StateId
deriving Repr, DecidableEq

/-- a loop-carried state value that the INPUT program already has (pre-existing threading): block argument, init
operand, yield operand, result — all ids of the input program -/
structure PCar where
  acc : AccId
  arg : StateId
  init : StateId
  yld : StateId
  res : StateId
deriving Repr, DecidableEq

mutual
/-- program before state tracing -/
inductive PStmt where
  | setup (a : AccId) (fs : List (Field × Var)) (out : StateId) (inp : Option StateId)
  | launch (a : AccId) (lvals : List Var) (st : StateId)
  | await (a : AccId)
  | pure (dst : Var) (op : PureOp) (args : List Var)
  | call (tag : Nat) (effects : Bool)
  | ifS (c : Var) (t e : PBlock)
  | forS (lb ub step iv : Var) (body : PBlock) (car : List PCar)
inductive PBlock where
  | nil
  | cons (s : PStmt) (r : PBlock)
end

mutual
/-- traced program. `empty a out` = the `accfg.setup "a" to ()` without input state that the pass inserts;
`launch … st cur`: `st` = the state operand (`none` = refers to no setup seen before it), `cur` = it is the state
produced by the setup of its accelerator that precedes it in straight-line code (derived, see `weaveS`). -/
inductive LStmt where
  | setup (a : AccId) (fs : List (Field × Var)) (out : StateId) (inp : Option StateId)
  | empty (a : AccId) (out : StateId)
  | launch (a : AccId) (lvals : List Var) (st : Option StateId) (cur : Bool)
  | await (a : AccId)
  | pure (dst : Var) (op : PureOp) (args : List Var)
  | call (tag : Nat) (effects : Bool)
  | ifS (c : Var) (t e : LBlock) (res : List IfRes)
  | forS (lb ub step iv : Var) (body : LBlock) (car : List ForCar)
inductive LBlock where
  | nil
  | cons (s : LStmt) (r : LBlock)
end

/- ===== erasure ===== -/
mutual
def erasePS : PStmt → Stmt
  | .setup a fs _ _ => .setup a fs
  | .launch a lv _ => .launch a lv
  | .await a => .await a
  | .pure d op args => .pure d op args
  | .call t e => .call t e
  | .ifS c t e => .ifS c (eraseP t) (eraseP e)
  | .forS lb ub st iv b _ => .forS lb ub st iv (eraseP b)
def eraseP : PBlock → Block
  | .nil => .nil
  | .cons s r => .cons (erasePS s) (eraseP r)
end

mutual
/-- `none`: an inserted empty setup (no operation of the input program) -/
def eraseS : LStmt → Option Stmt
  | .setup a fs _ _ => some (.setup a fs)
  | .empty _ _ => none
  | .launch a lv _ _ => some (.launch a lv)
  | .await a => some (.await a)
  | .pure d op args => some (.pure d op args)
  | .call t e => some (.call t e)
  | .ifS c t e _ => some (.ifS c (erase t) (erase e))
  | .forS lb ub st iv b _ => some (.forS lb ub st iv (erase b))
def erase : LBlock → Block
  | .nil => .nil
  | .cons s r => match eraseS s with
    | some x => .cons x (erase r)
    | none => erase r
end

mutual
/-- erasure that keeps the inserted empty setups as `setup a []` (= what `accfg_common.Conv` produces from the real
traced IR) -/
def eraseAllS : LStmt → Stmt
  | .setup a fs _ _ => .setup a fs
  | .empty a _ => .setup a []
  | .launch a lv _ _ => .launch a lv
  | .await a => .await a
  | .pure d op args => .pure d op args
  | .call t e => .call t e
  | .ifS c t e _ => .ifS c (eraseAll t) (eraseAll e)
  | .forS lb ub st iv b _ => .forS lb ub st iv (eraseAll b)
def eraseAll : LBlock → Block
  | .nil => .nil
  | .cons s r => .cons (eraseAllS s) (eraseAll r)
end

/- ===== owner table of a traced program ===== -/
mutual
def ldefsS : LStmt → List (StateId × LDef)
  | .setup _ fs out inp => [(out, .setup inp fs)]
  | .empty _ out => [(out, .setup none [])]
  | .ifS _ t e res => ldefsB t ++ (ldefsB e ++ res.map fun r => (r.res, LDef.ifRes r.thn r.els))
  | .forS _ _ _ _ b car =>
      car.map (fun c => (c.arg, LDef.forArg c.init c.yld)) ++
        (ldefsB b ++ car.map fun c => (c.res, LDef.forRes c.init c.yld))
  | _ => []
def ldefsB : LBlock → List (StateId × LDef)
  | .nil => []
  | .cons s r => ldefsS s ++ ldefsB r
end

def tableOf (L : LBlock) : StateId → Option LDef := fun v => (ldefsB L).lookup v

/- ===== helpers of the pass ===== -/
/- `_accelerators_threaded_through` of the repaired pass (fixes/FC07a): `find_all_acc_names_in_region` (with
repetitions, any depth) plus the accelerators whose state a loop (here or nested) already carries -/
mutual
def accsPS : PStmt → List AccId
  | .setup a _ _ _ => [a]
  | .ifS _ t e => accsPB t ++ accsPB e
  | .forS _ _ _ _ b car => accsPB b ++ car.map (·.acc)
  | _ => []
def accsPB : PBlock → List AccId
  | .nil => []
  | .cons s r => accsPS s ++ accsPB r
end

/- `find_all_acc_names_in_region` alone (the pass before fixes/FC07a) -/
mutual
def accsOldPS : PStmt → List AccId
  | .setup a _ _ _ => [a]
  | .ifS _ t e => accsOldPB t ++ accsOldPB e
  | .forS _ _ _ _ b _ => accsOldPB b
  | _ => []
def accsOldPB : PBlock → List AccId
  | .nil => []
  | .cons s r => accsOldPS s ++ accsOldPB r
end

/- `has_accfg_effects` of an op of the fragment: an unannotated call, at any depth -/
mutual
def effPS : PStmt → Bool
  | .call _ e => e
  | .ifS _ t e => effPB t || effPB e
  | .forS _ _ _ _ b _ => effPB b
  | _ => false
def effPB : PBlock → Bool
  | .nil => false
  | .cons s r => effPS s || effPB r
end

def insU (a : Nat) : List Nat → List Nat
  | [] => [a]
  | b :: r => if a < b then a :: b :: r else if a = b then b :: r else b :: insU a r
/-- `tuple(sorted(set(...)))` -/
def sortU (l : List Nat) : List Nat := l.foldr insU []

/-- the dictionary `state: accelerator -> SSA state value` (absent = `none`) -/
abbrev Sig := AccId → Option StateId
def noSig : Sig := fun _ => none
def sset (σ : Sig) (a : AccId) (v : StateId) : Sig := fun b => if b = a then some v else σ b

/-- "insert empty setup ops for all accelerators (of the list) that don't have a state": returns the inserted
(accelerator, fresh state) pairs, the updated dictionary and the next fresh id -/
def ensure : List AccId → Sig → Nat → List (AccId × StateId) × Sig × Nat
  | [], σ, n => ([], σ, n)
  | a :: r, σ, n =>
    match σ a with
    | some _ => ensure r σ n
    | none =>
      let x := ensure r (sset σ a n) (n + 1)
      ((a, n) :: x.1, x.2.1, x.2.2)

/-- consecutive fresh ids for a list of accelerators -/
def mkIds : List AccId → Nat → List (AccId × StateId)
  | [], _ => []
  | a :: r, n => (a, n) :: mkIds r (n + 1)

def withIds (σ : Sig) (ids : List (AccId × StateId)) : Sig := fun a =>
  match ids.lookup a with
  | some v => some v
  | none => σ a

def prepend : List (AccId × StateId) → LBlock → LBlock
  | [], b => b
  | (a, v) :: r, b => .cons (.empty a v) (prepend r b)

/-- append empty setups at the end of a block (in front of its yield) -/
def appEmpties : LBlock → List (AccId × StateId) → LBlock
  | .nil, es => prepend es .nil
  | .cons s r, es => .cons s (appEmpties r es)

structure WS where
  pre : List (AccId × StateId)   -- empty setups inserted in front of the statement
  stmt : LStmt
  sig : Sig
  cur : Sig
  nxt : Nat
  rho : List (StateId × StateId)
  bad : Bool                     -- the pass left the IR malformed (xDSL's verifier rejects the result)

structure WB where
  blk : LBlock
  sig : Sig
  nxt : Nat
  rho : List (StateId × StateId)
  bad : Bool

/-- which accelerators get a new scf.if result: `calc_if_state_delta` (present in both branches and not unchanged in
both), restricted to the accelerators set up in a branch (no other state value can differ), sorted -/
def ifChanged (σ σt σe : Sig) (cands : List AccId) : List AccId :=
  cands.filter fun a =>
    match σt a, σe a with
    | some vt, some ve => !(σ a == some vt && σ a == some ve)
    | _, _ => false

/-- scf.if after both branches have been woven (`wt`, `we`): new results for the changed accelerators, invalidated
accelerators dropped, the rest unchanged -/
def ifFinish (c : Var) (σ : Sig) (cands : List AccId) (wt we : WB) (ρ : List (StateId × StateId)) : WS :=
  let ch := ifChanged σ wt.sig we.sig cands
  let ress := mkIds ch we.nxt
  ⟨[], .ifS c wt.blk we.blk
        (ch.map fun a => IfRes.mk a ((ress.lookup a).getD 0) ((wt.sig a).getD 0) ((we.sig a).getD 0)),
   fun a =>
     match ress.lookup a with
     | some v => some v
     | none => if (wt.sig a).isSome && (we.sig a).isSome then σ a else none,
   noSig, we.nxt + ch.length, ρ, wt.bad || we.bad⟩

/-- the dictionary passed into the body of a loop: the new block arguments for the accelerators set up in it -/
def forBodySig (us : List AccId) (en : List (AccId × StateId) × Sig × Nat) : Sig :=
  withIds en.2.1 (mkIds us en.2.2)

/-- scf.for after its body has been woven (`wb`): `en` = result of `ensure` in front of the loop (inserted empty
setups, dictionary, next id); empty setups in front of the yield where the state got invalidated, iter_args /
yield operands / results, dictionary after the loop -/
def forFinish (lb ub st iv : Var) (us : List AccId) (en : List (AccId × StateId) × Sig × Nat) (wb : WB)
    (ρ : List (StateId × StateId)) : WS :=
  let args := mkIds us en.2.2
  let ey := ensure us wb.sig wb.nxt
  let ress := mkIds us ey.2.2
  ⟨en.1, .forS lb ub st iv (appEmpties wb.blk ey.1)
        (us.map fun a => ForCar.mk a ((args.lookup a).getD 0) ((en.2.1 a).getD 0) ((ey.2.1 a).getD 0)
          ((ress.lookup a).getD 0)),
   fun a =>
     match ress.lookup a with
     | some v => some v
     | none => if (wb.sig a).isSome then en.2.1 a else none,
   noSig, ey.2.2 + us.length, ρ, wb.bad⟩

/-- scf.for that ALREADY carries state values (`car`, non-empty) — `find_existing_block_arg` re-uses the existing
block argument of an accelerator: its init operand is kept (and the current state appended as a further operand
when it is a different value: operands and block arguments then no longer match, `bad`), its yield operand is NOT
touched (`created_block_args` only), its result becomes the state after the loop. `ρb` = the body's renaming. -/
def forFinishP (lb ub st iv : Var) (us : List AccId) (en : List (AccId × StateId) × Sig × Nat) (wb : WB)
    (ρ : List (StateId × StateId)) (car : List PCar) : WS :=
  let args := mkIds us en.2.2
  let created := us.filter fun a => !(car.any fun c => c.acc == a)
  let ey := ensure created wb.sig wb.nxt
  let ress := mkIds us ey.2.2
  let yldOf : AccId → StateId := fun a =>
    match car.find? (fun c => c.acc == a) with
    | some c => (wb.rho.lookup c.yld).getD 0
    | none => (ey.2.1 a).getD 0
  ⟨en.1, .forS lb ub st iv (appEmpties wb.blk ey.1)
        (us.map fun a => ForCar.mk a ((args.lookup a).getD 0) ((en.2.1 a).getD 0) (yldOf a) ((ress.lookup a).getD 0)),
   fun a =>
     match ress.lookup a with
     | some v => some v
     | none => if (wb.sig a).isSome then en.2.1 a else none,
   noSig, ey.2.2 + us.length, (car.map fun c => (c.res, ((ress.lookup c.acc).getD 0))) ++ ρ,
   wb.bad || car.any fun c =>
     !(us.contains c.acc) || ρ.lookup c.init != en.2.1 c.acc || (wb.rho.lookup c.yld).isNone⟩

/-
`_weave_states_in_region` (with fixes/FC07a). Arguments: `σ` the state dictionary, `cur` (bookkeeping of the model
only: the state produced by the last setup of an accelerator in the straight-line code in front of this point, reset
by control flow and by effectful calls), `n` the next fresh state id (every state value of the output gets a fresh id
in definition order: the comparison with the real pass is up to renaming of state values), `ρ` input state id ↦
output state id (`rewriter.replace_op` redirects the uses of a re-created setup).

* setup: re-linked to `σ a` (`op.in_state != state.get(accel)` only decides whether the op object is re-created;
  either way the resulting op has `in_state = state.get(accel)`), then `σ a := out`.
* scf.if: both branches from copies of `σ`; invalidated in a branch ⇒ dropped; `calc_if_state_delta` ⇒ new results.
* scf.for: `us` = accelerators set up in the body or already carried by this / a nested loop; none ⇒
  `has_accfg_effects → clear` (the body is walked by the model but produces no link); otherwise empty setups for
  accelerators without state, block arguments (an EXISTING block argument is re-used and its init operand re-linked
  to the state in front of the loop), body, deletion of accelerators that are not in `us` but invalidated by the
  body, empty setup in front of the yield where the state got invalidated, yield operands (also of existing block
  arguments: the state that really ends the body), results.
* call: `has_accfg_effects → clear`.
-/
mutual
def weaveS : PStmt → Sig → Sig → Nat → List (StateId × StateId) → WS
  | .setup a fs out _, σ, cur, n, ρ =>
      ⟨[], .setup a fs n (σ a), sset σ a n, sset cur a n, n + 1, (out, n) :: ρ, false⟩
  | .launch a lv s, σ, cur, n, ρ =>
      ⟨[], .launch a lv (ρ.lookup s) ((ρ.lookup s).isSome && ρ.lookup s == cur a), σ, cur, n, ρ, false⟩
  | .await a, σ, cur, n, ρ => ⟨[], .await a, σ, cur, n, ρ, false⟩
  | .pure d op args, σ, cur, n, ρ => ⟨[], .pure d op args, σ, cur, n, ρ, false⟩
  | .call t e, σ, cur, n, ρ =>
      ⟨[], .call t e, if e then noSig else σ, if e then noSig else cur, n, ρ, false⟩
  | .ifS c t e, σ, _, n, ρ =>
      let wt := weaveB t σ noSig n ρ
      let we := weaveB e σ noSig wt.nxt ρ
      ifFinish c σ (sortU (accsPB t ++ accsPB e)) wt we ρ
  | .forS lb ub st iv body car, σ, _, n, ρ =>
      let us := sortU (accsPB body ++ car.map (·.acc))
      if us.isEmpty then
        let wb := weaveB body σ noSig n ρ
        ⟨[], .forS lb ub st iv wb.blk [], if effPB body then noSig else σ, noSig, wb.nxt, ρ, wb.bad⟩
      else
        let en := ensure us σ n
        -- existing block arguments / results keep their role: the input ids are renamed to the new ids
        let ρb := (car.map fun k => (k.arg, (((mkIds us en.2.2).lookup k.acc).getD 0))) ++ ρ
        let wb := weaveB body (forBodySig us en) noSig (en.2.2 + us.length) ρb
        forFinish lb ub st iv us en wb
          ((car.map fun k => (k.res, (((mkIds us (ensure us wb.sig wb.nxt).2.2).lookup k.acc).getD 0))) ++ ρ)
def weaveB : PBlock → Sig → Sig → Nat → List (StateId × StateId) → WB
  | .nil, σ, _, n, ρ => ⟨.nil, σ, n, ρ, false⟩
  | .cons s r, σ, cur, n, ρ =>
      let ws := weaveS s σ cur n ρ
      let wr := weaveB r ws.sig ws.cur ws.nxt ws.rho
      ⟨prepend ws.pre (.cons ws.stmt wr.blk), wr.sig, wr.nxt, wr.rho, ws.bad || wr.bad⟩
end

/-- the pass on a function body: empty dictionary at entry -/
def weave (p : PBlock) : LBlock := (weaveB p noSig noSig 0 []).blk
/-- the pass leaves the IR malformed (the module verifier then raises) -/
def weaveBad (p : PBlock) : Bool := (weaveB p noSig noSig 0 []).bad

/- The pass BEFORE fixes/FC07a (findings DC07a, DC07b): an existing state block argument is re-used
(`find_existing_block_arg`) but neither its init operand nor its yield operand is re-linked (`forFinishP`), and only
accelerators set up in the body count as touched. Used by the driver when the findings are listed as open. -/
mutual
def weaveOldS : PStmt → Sig → Sig → Nat → List (StateId × StateId) → WS
  | .setup a fs out _, σ, cur, n, ρ =>
      ⟨[], .setup a fs n (σ a), sset σ a n, sset cur a n, n + 1, (out, n) :: ρ, false⟩
  | .launch a lv s, σ, cur, n, ρ =>
      ⟨[], .launch a lv (ρ.lookup s) ((ρ.lookup s).isSome && ρ.lookup s == cur a), σ, cur, n, ρ, false⟩
  | .await a, σ, cur, n, ρ => ⟨[], .await a, σ, cur, n, ρ, false⟩
  | .pure d op args, σ, cur, n, ρ => ⟨[], .pure d op args, σ, cur, n, ρ, false⟩
  | .call t e, σ, cur, n, ρ =>
      ⟨[], .call t e, if e then noSig else σ, if e then noSig else cur, n, ρ, false⟩
  | .ifS c t e, σ, _, n, ρ =>
      let wt := weaveOldB t σ noSig n ρ
      let we := weaveOldB e σ noSig wt.nxt ρ
      ifFinish c σ (sortU (accsOldPB t ++ accsOldPB e)) wt we ρ
  | .forS lb ub st iv body [], σ, _, n, ρ =>
      let us := sortU (accsOldPB body)
      if us.isEmpty then
        let wb := weaveOldB body σ noSig n ρ
        ⟨[], .forS lb ub st iv wb.blk [], if effPB body then noSig else σ, noSig, wb.nxt, ρ, wb.bad⟩
      else
        let en := ensure us σ n
        forFinish lb ub st iv us en (weaveOldB body (forBodySig us en) noSig (en.2.2 + us.length) ρ) ρ
  | .forS lb ub st iv body (c :: cs), σ, _, n, ρ =>
      -- the same code path of the pass on a loop that already carries state values
      let us := sortU (accsOldPB body)
      if us.isEmpty then
        -- (`continue`: nothing is touched; outside the fragment the correspondence feeds to the model)
        let wb := weaveOldB body σ noSig n ρ
        ⟨[], .forS lb ub st iv wb.blk [], if effPB body then noSig else σ, noSig, wb.nxt, ρ, true⟩
      else
        let en := ensure us σ n
        let ρb := ((c :: cs).map fun k => (k.arg, (((mkIds us en.2.2).lookup k.acc).getD 0))) ++ ρ
        forFinishP lb ub st iv us en (weaveOldB body (forBodySig us en) noSig (en.2.2 + us.length) ρb) ρ (c :: cs)
def weaveOldB : PBlock → Sig → Sig → Nat → List (StateId × StateId) → WB
  | .nil, σ, _, n, ρ => ⟨.nil, σ, n, ρ, false⟩
  | .cons s r, σ, cur, n, ρ =>
      let ws := weaveOldS s σ cur n ρ
      let wr := weaveOldB r ws.sig ws.cur ws.nxt ws.rho
      ⟨prepend ws.pre (.cons ws.stmt wr.blk), wr.sig, wr.nxt, wr.rho, ws.bad || wr.bad⟩
end

def weaveOld (p : PBlock) : LBlock := (weaveOldB p noSig noSig 0 []).blk
def weaveOldBad (p : PBlock) : Bool := (weaveOldB p noSig noSig 0 []).bad

/- no loop of the input carries a state value yet (pre-existing links only on setups) -/
mutual
def plainPS : PStmt → Bool
  | .ifS _ t e => plainPB t && plainPB e
  | .forS _ _ _ _ b car => car.isEmpty && plainPB b
  | _ => true
def plainPB : PBlock → Bool
  | .nil => true
  | .cons s r => plainPS s && plainPB r
end

/- ===== what the compiler assumes at the setups and launches (pre-order), for the correspondence ===== -/
def inferAt (D : StateId → Option LDef) (fuel : Nat) : Option StateId → Option LState
  | none => some []
  | some v => inferL D fuel [] v

mutual
def annotLS (D : StateId → Option LDef) (fuel : Nat) : LStmt → List (Option LState)
  | .setup _ _ _ inp => [inferAt D fuel inp]
  | .empty _ _ => [some []]
  | .launch _ _ (some v) _ => [inferL D fuel [] v]
  | .launch _ _ none _ => [none]
  | .ifS _ t e _ => annotLB D fuel t ++ annotLB D fuel e
  | .forS _ _ _ _ b _ => annotLB D fuel b
  | _ => []
def annotLB (D : StateId → Option LDef) (fuel : Nat) : LBlock → List (Option LState)
  | .nil => []
  | .cons s r => annotLS D fuel s ++ annotLB D fuel r
end

/-- facts behind a statement of the traced program (an inserted empty setup changes nothing) -/
def stepF (s : LStmt) (G : Facts) : Facts :=
  match eraseS s with
  | some x => knownS x G
  | none => G

/- Decidable validation of the LINKS of a traced program against the position-based facts: at every setup and every
straight-line launch, whatever `inferL` answers for the input state is contained in the facts `knownB` has there.
(Run by the driver on the converted REAL traced IR of every case; `agree_soundChk`: it is implied by `AgreeB`.) -/
def subRow (s : LState) (r : Field → Option Var) : Bool := s.all fun p => r p.1 == some p.2
def chkAt (D : StateId → Option LDef) (fuel : Nat) (o : Option StateId) (r : Field → Option Var) : Bool :=
  match o with
  | none => true
  | some v =>
    match inferL D fuel [] v with
    | none => true
    | some s => subRow s r
mutual
def soundChkS (D : StateId → Option LDef) (fuel : Nat) : LStmt → Facts → Bool
  | .setup a _ _ inp, G => chkAt D fuel inp (G a)
  | .empty _ _, _ => true
  | .launch a _ st cur, G => !cur || chkAt D fuel st (G a)
  | .await _, _ => true
  | .pure _ _ _, _ => true
  | .call _ _, _ => true
  | .ifS _ t e _, G => soundChkB D fuel t G && soundChkB D fuel e G
  | .forS _ _ _ _ b _, G => soundChkB D fuel b (headFacts (erase b) G)
def soundChkB (D : StateId → Option LDef) (fuel : Nat) : LBlock → Facts → Bool
  | .nil, _ => true
  | .cons s r, G => soundChkS D fuel s G && soundChkB D fuel r (stepF s G)
end

/-- a fuel that is generous for every program met in practice: (number of state values + 2)² -/
def fuelOf (L : LBlock) : Nat := ((ldefsB L).length + 2) * ((ldefsB L).length + 2)

/- Decidable shape of an owner table with ids below `K`: every link goes to a smaller id, except the yield operand of a
loop-carried block argument (the one cycle, cut by `assume`); every link target has an owner. Under these two checks
`fuelOf` is enough fuel for `inferL` (`inferL_fuel_suffices`); the driver evaluates them on every case. -/
def rankedChk (l : List (StateId × LDef)) (K : Nat) : Bool :=
  l.all fun p =>
    decide (p.1 < K) &&
    match p.2 with
    | .setup none _ => true
    | .setup (some i) _ => decide (i < p.1)
    | .ifRes t e => decide (t < p.1) && decide (e < p.1)
    | .forRes i y => decide (i < p.1) && decide (y < p.1)
    | .forArg i y => decide (i < p.1) && decide (y < K)
def ldefTargets : LDef → List StateId
  | .setup none _ => []
  | .setup (some i) _ => [i]
  | .ifRes t e => [t, e]
  | .forRes i y => [i, y]
  | .forArg i y => [i, y]
def closedChk (l : List (StateId × LDef)) : Bool :=
  l.all fun p => (ldefTargets p.2).all fun t => (l.lookup t).isSome

/- a setup never names a field twice (then `dupdate` = `upd` of Model/Accfg.lean) -/
mutual
def nodupPS : PStmt → Bool
  | .setup _ fs _ _ => decide (fs.map (·.1)).Nodup
  | .ifS _ t e => nodupPB t && nodupPB e
  | .forS _ _ _ _ b _ => nodupPB b
  | _ => true
def nodupPB : PBlock → Bool
  | .nil => true
  | .cons s r => nodupPS s && nodupPB r
end

end SnaxVerif.AccfgLinks
