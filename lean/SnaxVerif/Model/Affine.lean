/-
Model of xDSL affine expressions as used by snax-mlir, of xDSL's smart constructors
(`AffineExpr.__add__` / `__mul__`, which `snaxc/util/canonicalize_affine.py` relies on) and of
`snaxc/util/canonicalize_affine.py` itself (with fix F18 applied: the result of a smart
constructor is returned instead of asserted to be a binary expression).

No Mathlib import: this file is linked into the driver executable.
-/
namespace SnaxVerif

inductive BinKind where
  | add | mul | fdiv | mod | cdiv
deriving DecidableEq, Repr, Inhabited

inductive AExpr where
  | dim (i : Nat)
  | const (c : Int)
  | bin (k : BinKind) (a b : AExpr)
deriving DecidableEq, Repr, Inhabited

namespace AExpr

/-- Python `//`, `%` and xDSL's ceildiv `-(-a // b)` on integers; division by zero raises in
Python, the model answers `none`. -/
def evalBin (k : BinKind) (x y : Int) : Option Int :=
  match k with
  | .add => some (x + y)
  | .mul => some (x * y)
  | .fdiv => if y = 0 then none else some (Int.fdiv x y)
  | .mod => if y = 0 then none else some (Int.fmod x y)
  | .cdiv => if y = 0 then none else some (-(Int.fdiv (-x) y))

/-- `AffineExpr.eval(dims, [])`. -/
def eval (env : Nat → Int) : AExpr → Option Int
  | dim i => some (env i)
  | const c => some c
  | bin k a b => (eval env a).bind fun x => (eval env b).bind fun y => evalBin k x y

def isConst : AExpr → Bool
  | const _ => true
  | _ => false

/-- `self + AffineConstantExpr(c)` for an arbitrary `self` (xDSL `__add__`/`_simplify_add`). -/
def smartAddC : AExpr → Int → AExpr
  | const a, c => const (a + c)
  | bin .add l (const r), c => if c = 0 then bin .add l (const r) else smartAddC l (r + c)
  | s, c => if c = 0 then s else bin .add s (const c)

/-- `self + other` (xDSL `__add__`): a constant `self` is swapped to the right first. -/
def smartAdd (s o : AExpr) : AExpr :=
  match s, o with
  | const a, const b => const (b + a)
  | const a, o => smartAddC o a
  | s, const c => smartAddC s c
  | s, o => bin .add s o

/-- `self * AffineConstantExpr(c)` (xDSL `__mul__`/`_simplify_mul`). -/
def smartMulC : AExpr → Int → AExpr
  | const a, c => const (a * c)
  | bin .mul l (const r), c => if c = 1 then bin .mul l (const r) else smartMulC l (r * c)
  | bin .add l r, c => if c = 1 then bin .add l r else smartAdd (smartMulC l c) (smartMulC r c)
  | s, c => if c = 1 then s else bin .mul s (const c)

/-- `get_dim` of canonicalize_affine.py. -/
def getDim : AExpr → Option Nat
  | dim i => some i
  | const _ => none
  | bin _ a b => match getDim a with
    | some d => some d
    | none => getDim b

/-- last step of `canonicalize_addition`: `(a + b) + c` becomes `a + (b + c)` (smart `+`). -/
def addAssoc (l r : AExpr) : AExpr :=
  match l with
  | bin .add ll lr => smartAdd ll (smartAdd lr r)
  | _ => bin .add l r

/-- "order by minimum dimension first": `dim_rhs is not None and (dim_lhs is None or dim_lhs > dim_rhs)`. -/
def addReorder (l r : AExpr) : Bool :=
  match getDim r, getDim l with
  | some _, none => true
  | some b, some a => decide (a > b)
  | none, _ => false

def addOrder (l r : AExpr) : AExpr :=
  if addReorder l r then
    match smartAdd r l with
    | bin .add l' r' => addAssoc l' r'
    | e => e            -- F18: xDSL already simplified the sum
  else addAssoc l r

/-- the raw swap "always put the constant on rhs" -/
def constRight (l r : AExpr) : AExpr × AExpr := if l.isConst then (r, l) else (l, r)

/-- `canonicalize_addition` applied to `Add(l, r)` (F18 applied). -/
def canonAdd (l r : AExpr) : AExpr :=
  match l, r with
  | const a, const b => const (a + b)
  | _, _ =>
    let p := constRight l r
    if p.2 = const 0 then p.1 else addOrder p.1 p.2

def mulDistribute (l r : AExpr) : AExpr :=
  match r with
  | const c =>
    if c = 1 then l else
    match l with
    | bin .add ll lr => smartAdd (smartMulC ll c) (smartMulC lr c)
    | _ => bin .mul l r
  | _ => bin .mul l r

/-- `canonicalize_multiplication` applied to `Mul(l, r)` (F18 applied). -/
def canonMul (l r : AExpr) : AExpr :=
  match l, r with
  | const a, const b => const (a * b)
  | _, _ =>
    let p := constRight l r
    mulDistribute p.1 p.2

def canonFdiv (l r : AExpr) : AExpr := if r = const 1 then l else bin .fdiv l r
def canonMod (l r : AExpr) : AExpr := if r = const 1 then const 0 else bin .mod l r

def canonRule (k : BinKind) (l r : AExpr) : AExpr :=
  match k with
  | .add => canonAdd l r
  | .mul => canonMul l r
  | .fdiv => canonFdiv l r
  | .mod => canonMod l r
  | .cdiv => bin .cdiv l r

/-- `canonicalize_expr`; one unit of fuel per nesting level of the Python recursion. -/
def canon : Nat → AExpr → Option AExpr
  | 0, _ => none
  | f + 1, e =>
    match e with
    | dim _ => some e
    | const _ => some e
    | bin k l r =>
      match canon f l, canon f r with
      | some l', some r' =>
        let n := canonRule k l' r'
        if n = e then some n else canon f n
      | _, _ => none

end AExpr

/-- `canonicalize_map`: every result expression. -/
def canonMap (fuel : Nat) (results : List AExpr) : Option (List AExpr) :=
  results.mapM (AExpr.canon fuel)

end SnaxVerif
