import SnaxVerif.Model.AccfgRules
/-
Taint analysis for ghost writes (C01 pull, C06 loop-level overlap): which register fields may differ between the run that
executes the ghosts and the run that skips them. A ghost taints the fields it writes, a real setup clears the fields it
writes (both runs store the same value), a launch must observe no tainted field, an effectful call must see no taint at
all (it may read any register), a loop is entered with the taint of its ghosts already assumed.
-/
namespace SnaxVerif.Accfg

abbrev Taint := List (AccId × Field)

def tSetup (T : Taint) (a : AccId) (fs : List (Field × Var)) : Taint :=
  T.filter fun p => !(p.1 == a && (fs.lookup p.2).isSome)

def tGhost (T : Taint) (a : AccId) (fs : List (Field × Var)) : Taint :=
  (fs.map fun q => (a, q.1)) ++ T

/- the fields written by the ghosts of a statement -/
mutual
def ghostFieldsS : Stmt → Taint
  | .ghost a fs => fs.map fun q => (a, q.1)
  | .ifS _ t e => ghostFieldsB t ++ ghostFieldsB e
  | .forS _ _ _ _ b => ghostFieldsB b
  | _ => []
def ghostFieldsB : Block → Taint
  | .nil => []
  | .cons s r => ghostFieldsS s ++ ghostFieldsB r
end

mutual
def taintS : Stmt → Taint → Taint
  | .setup a fs, T => tSetup T a fs
  | .ghost a fs, T => tGhost T a fs
  | .ifS _ t e, T => taintB t T ++ taintB e T
  | .forS _ _ _ _ b, T => T ++ ghostFieldsB b
  | _, T => T
def taintB : Block → Taint → Taint
  | .nil, T => T
  | .cons s r, T => taintB r (taintS s T)
end

mutual
def okTS (fields : AccId → List Field) : Stmt → Taint → Bool
  | .launch a _, T => (fields a).all fun f => !T.contains (a, f)
  | .call _ eff, T => !eff || T.isEmpty
  | .ifS _ t e, T => okTB fields t T && okTB fields e T
  | .forS _ _ _ _ b, T => okTB fields b (T ++ ghostFieldsB b)
  | _, _ => true
def okTB (fields : AccId → List Field) : Block → Taint → Bool
  | .nil, _ => true
  | .cons s r, T => okTS fields s T && okTB fields r (taintS s T)
end

end SnaxVerif.Accfg
