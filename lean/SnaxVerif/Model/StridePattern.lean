/-
Model of `StridePattern.canonicalize` (snaxc/dialects/snax_stream.py) and of the address sequence a
stride pattern denotes (temporal loop nest of the SNAX streamer address generator).

A temporal loop nest is a list of `(bound, stride)` pairs, INNERMOST FIRST (the order of
`upper_bounds` / `temporal_strides` in the attribute). Bounds are `Nat`: a negative upper bound has no
meaning for the hardware (the bound register is unsigned) and is outside this model; the driver
refuses it.

No Mathlib import: this file is linked into the driver executable.
-/
namespace SnaxVerif
namespace Stride

abbrev Loop := Nat × Int

/-- The flattened sequence of temporal address offsets of a loop nest, innermost loop first in the
list, i.e. the LAST list element is the outermost (slowest) loop:
`for i_{n-1} < b_{n-1}: … for i_0 < b_0: emit Σ s_k * i_k`. -/
def offs : List Loop → List Int
  | [] => [0]
  | (b, s) :: rest => (offs rest).flatMap fun o => (List.range b).map fun (i : Nat) => o + s * (i : Int)

/-- One iteration of the `for ub, ts in zip(upper_bounds, temporal_strides)` loop of
`StridePattern.canonicalize`. `acc` is the pair of lists `new_upper_bounds/new_temporal_strides`
kept REVERSED (head = `[-1]`, the most recently appended entry). -/
def step (acc : List Loop) (x : Loop) : List Loop :=
  if x.1 = 0 then (0, 0) :: acc                 -- "hardcoded zeros should pass through"
  else if x.1 = 1 then acc                      -- "upper bound of 1 can be removed"
  else match acc with
    | (b, s) :: rest =>
      if (b : Int) * s = x.2 then (b * x.1, s) :: rest   -- "wrap two strides in 1"
      else x :: acc
    | [] => x :: acc

/-- The loop of `StridePattern.canonicalize` on the zipped `(ub, ts)` list. -/
def canonLoops (p : List Loop) : List Loop := (p.foldl step []).reverse

/-- The attribute: three integer arrays. `ub` is `Nat` (see the header). -/
structure Pattern where
  ub : List Nat
  ts : List Int
  ss : List Int
deriving DecidableEq, Repr, Inhabited

/-- `zip(upper_bounds, temporal_strides)` (Python `zip` truncates; `verify` makes the lengths equal). -/
def Pattern.loops (p : Pattern) : List Loop := p.ub.zip p.ts

/-- `StridePattern.verify` -/
def Pattern.verify (p : Pattern) : Bool := p.ub.length == p.ts.length

/-- `StridePattern.canonicalize`, including the guard `if IntAttr(0) in self.spatial_strides: return self`. -/
def Pattern.canonicalize (p : Pattern) : Pattern :=
  if (0 : Int) ∈ p.ss then p
  else
    let r := (canonLoops p.loops).unzip
    { ub := r.1, ts := r.2, ss := p.ss }

/-- What the pattern denotes: the temporal address-offset sequence (the spatial strides are carried
unchanged by `canonicalize` and have no bounds inside the attribute). -/
def Pattern.addrs (p : Pattern) : List Int := offs p.loops

end Stride
end SnaxVerif
