import SnaxVerif.Model.CyclicLayout
import SnaxVerif.Model.AffineTransform
/-
Front end of `AddCyclicMemoryLayout.match_and_rewrite`: the op's `patterns` attribute (affine maps)
is turned into the matrices the walk works on by
`Schedule(SchedulePattern(bounds, x.data) for x in op.patterns)`, i.e. by
`AffineTransform.from_affine_map` (`Model/AffineTransform.lean: AT.fromMap`, shared with C03/C19)
plus the two `ValueError` checks of `SchedulePattern` / `AccessPattern`.

With this file the model's input is what the pass reads from the IR (affine expressions, bounds,
memref types), not a matrix prepared by the harness.

No Mathlib import: this file is linked into the driver executable.
-/
namespace SnaxVerif.CyclicLayout

/-- one operand as the pass sees it: memref type + its entry of `op.patterns` -/
structure OperandM where
  shape : List Nat
  elBits : Option Nat
  hasTsl : Bool
  ndims : Nat                -- `map.num_dims`
  exprs : List AExpr         -- `map.results`
deriving Repr

/-- `SchedulePattern(bounds, map)`:
`any(bound <= 0)` → ValueError; `AffineTransform.from_affine_map(map)` → ValueError unless the map is a
pure linear transformation (an `IndexError` needs a dimension position ≥ `num_dims`, which no parsed
attribute has); `len(bounds) != pattern.num_dims` → ValueError. -/
def patternOperand (bounds : List Int) (o : OperandM) : Except Err Operand :=
  if bounds.any (fun b => decide (b ≤ 0)) then .error .valueError
  else match AT.fromMap o.ndims o.exprs with
    | .error .valueError => .error .valueError
    | .error .indexError => .error .indexError
    | .ok t =>
      if bounds.length ≠ o.ndims then .error .valueError
      else .ok { shape := o.shape, elBits := o.elBits, hasTsl := o.hasTsl, ndims := o.ndims, rows := t.A }

/-- `match_and_rewrite` from the op's attributes: guard, schedule construction, layouts -/
def rewriteOpMaps (fixed tiled : Bool) (spatial : Option Nat) (bounds : List Int) (ops : List OperandM) :
    Except Err (Option (List Layout)) :=
  if ops.any (·.hasTsl) then .ok none
  else match mapE (patternOperand bounds) ops with
    | .error e => .error e
    | .ok ops' => rewriteOp fixed tiled spatial bounds ops'

end SnaxVerif.CyclicLayout
