/-!
# Model of `snaxc/ir/dart/access_pattern.py` and `snaxc/ir/dart/scheduler.py`

A schedule is an iteration box (`bounds`) shared by all operands plus, per operand, an integer matrix
(stored by ROWS: one row per result of the affine map, one entry per loop dimension) and a bias vector.
Python keeps a copy of the bounds in every `SchedulePattern`; every constructor path in the code under
test (`Schedule.rotate/tile_dim/add_dim/canonicalize/clear_unused_dims/inner_dims`, `AutoflowScheduler`)
applies the same list operation to each copy, so the model stores them once (the converter in
`harness/props/c03.py` refuses objects whose copies differ and reports every copy of the real output).

Error paths are mirrored with `Except Err` (numpy `IndexError`, `ValueError` of the constructors,
`ZeroDivisionError`), never defaulted.  No Mathlib here (linked into the driver).
-/
namespace SnaxVerif.Sched

inductive Err | indexError | valueError | zeroDivision | assertion | outOfFuel | certificate | runtime
deriving DecidableEq, Repr

/-- one operand: `A` by rows and `b`; `rows.length = b.length`, every row has one entry per dimension -/
structure Operand where
  rows : List (List Int)
  b : List Int
deriving DecidableEq, Repr

structure Schedule where
  bounds : List Nat
  ops : List Operand
deriving DecidableEq, Repr

/-- template bounds may be unbounded (`None`) -/
structure Template where
  bounds : List (Option Nat)
  ops : List Operand
deriving DecidableEq, Repr

def Operand.mapRows (f : List Int → List Int) (o : Operand) : Operand := { o with rows := o.rows.map f }

abbrev Schedule.n (s : Schedule) : Nat := s.bounds.length
abbrev Template.n (t : Template) : Nat := t.bounds.length

/-! ## iteration space -/

/-- all index vectors of a box, lexicographic, last index fastest -/
def points : List Nat → List (List Nat)
  | [] => [[]]
  | b :: bs => (List.range b).flatMap fun i => (points bs).map (i :: ·)

def dot : List Int → List Nat → Int
  | a :: as, x :: xs => a * (x : Int) + dot as xs
  | _, _ => 0

/-- `A @ x + b` -/
def evalOp (o : Operand) (x : List Nat) : List Int := List.zipWith (fun r c => dot r x + c) o.rows o.b

/-- for every iteration (in execution order) the tuple of operand indices -/
def imageS (s : Schedule) : List (List (List Int)) :=
  (points s.bounds).map fun x => s.ops.map (evalOp · x)

/-- what the Python constructors guarantee (`SchedulePattern.__init__`, `AccessPattern.__init__`) -/
def WF (s : Schedule) : Prop :=
  (∀ b ∈ s.bounds, 0 < b) ∧ ∀ o ∈ s.ops, ∀ r ∈ o.rows, r.length = s.bounds.length

def wfB (s : Schedule) : Bool :=
  s.bounds.all (0 < ·) && s.ops.all fun o => o.rows.all (·.length == s.bounds.length) && o.rows.length == o.b.length

/-! ## elementary transformations (`SchedulePattern.rotate / tile_dim / add_dim`) -/

/-- `l[1:d] + l[:1] + l[d:]` -/
def rotList {α} (d : Nat) (l : List α) : List α := (l.take d).drop 1 ++ l.take 1 ++ l.drop d

def rotateRaw (d : Nat) (s : Schedule) : Schedule :=
  { bounds := rotList d s.bounds, ops := s.ops.map (Operand.mapRows (rotList d)) }

/-- numpy raises `IndexError` for the column index list `[1..d-1, 0, d..n-1]` iff `d > n` or `n = 0` -/
def rotate (d : Nat) (s : Schedule) : Except Err Schedule :=
  if d > s.n ∨ s.n = 0 then .error .indexError else .ok (rotateRaw d s)

/-- `l[:i] + (x, y) + l[i+1:]` -/
def tileList {α} (x y : α) (i : Nat) (l : List α) : List α := l.take i ++ [x, y] ++ l.drop (i + 1)

/-- row of `A @ T`, `T = (d0..d_{i-1}, t*d_i + d_{i+1}, d_{i+2}, ..)` -/
def tileRow (t i : Nat) (r : List Int) : List Int := tileList ((t : Int) * r.getD i 0) (r.getD i 0) i r

def tileRaw (i t : Nat) (s : Schedule) : Schedule :=
  { bounds := tileList (s.bounds.getD i 0 / t) t i s.bounds, ops := s.ops.map (Operand.mapRows (tileRow t i)) }

def tile (i t : Nat) (s : Schedule) : Except Err Schedule :=
  if i ≥ s.n then .error .indexError
  else if t = 0 then .error .zeroDivision
  else if s.bounds.getD i 0 / t = 0 then .error .valueError
  else .ok (tileRaw i t s)

def addDim (s : Schedule) : Schedule :=
  { bounds := 1 :: s.bounds, ops := s.ops.map (Operand.mapRows (0 :: ·)) }

/-- select by boolean mask (`A[:, mask]`) -/
def keepBy {α} : List Bool → List α → List α
  | m :: ms, a :: as => if m then a :: keepBy ms as else keepBy ms as
  | _, _ => []

def maskSched (mask : List Bool) (s : Schedule) : Schedule :=
  { bounds := keepBy mask s.bounds, ops := s.ops.map (Operand.mapRows (keepBy mask)) }

/-- `PatternCollection.clear_unused_dims()` (default bounds): drop the dimensions with bound `== 1` -/
def clearUnused (s : Schedule) : Schedule := maskSched (s.bounds.map (· != 1)) s

/-- `PatternCollection.clear_unused_dims(bounds)` with CUSTOM bounds: the custom bounds replace the schedule's,
then dims with custom bound `== 1` are dropped.  numpy raises `IndexError` when a kept index lies beyond the
matrix, `SchedulePattern.__init__` raises `ValueError` for a kept bound `0`. -/
def clearUnusedWith (c : List Nat) (s : Schedule) : Except Err Schedule :=
  if (c.drop s.n).any (· != 1) then .error .indexError
  else if c.any (· == 0) then .error .valueError
  else .ok (maskSched (c.map (· != 1)) { s with bounds := c })

/-- `PatternCollection.canonicalize()`: drop the dimensions with bound `== 1` (since the repair of
`AccessPattern.canonicalize` in /repo a bound `<= 0`, an empty space, is kept) -/
def canonicalize (s : Schedule) : Schedule := maskSched (s.bounds.map (· != 1)) s

/-- `l[-k:]` for `k > 0` -/
def lastN {α} (k : Nat) (l : List α) : List α := l.drop (l.length - k)

def innerRaw (k : Nat) (s : Schedule) : Schedule :=
  { bounds := lastN k s.bounds, ops := s.ops.map (Operand.mapRows (lastN k)) }

def inner (k : Nat) (s : Schedule) : Except Err Schedule :=
  if k = 0 then .error .valueError else .ok (innerRaw k s)

def tInnerRaw (k : Nat) (t : Template) : Template :=
  { bounds := lastN k t.bounds, ops := t.ops.map (Operand.mapRows (lastN k)) }

def tInner (k : Nat) (t : Template) : Except Err Template :=
  if k = 0 then .error .valueError else .ok (tInnerRaw k t)

/-! ## exact template matching (replaces the SVD of `same_nonzero_singular_vectors`) -/

abbrev Vec := List Int

def vscale (c : Int) (v : Vec) : Vec := v.map (c * ·)
def vadd (a b : Vec) : Vec := List.zipWith (· + ·) a b
def vsub (a b : Vec) : Vec := List.zipWith (· - ·) a b

/-- `Σ_j w_j • P_j` as a vector of length `n` -/
def comb (n : Nat) : Vec → List Vec → Vec
  | c :: w, p :: P => vadd (vscale c p) (comb n w P)
  | _, _ => List.replicate n 0

/-- `v` is in the rational row space of `P`: a non-zero integer multiple is an integer combination -/
def InSpan (P : List Vec) (v : Vec) : Prop := ∃ (c : Int) (w : Vec), c ≠ 0 ∧ vscale c v = comb v.length w P

def SameRowSpace (T P : List Vec) : Prop := (∀ v ∈ T, InSpan P v) ∧ (∀ v ∈ P, InSpan T v)

/-- an echelon basis row: pivot column, the row, and its coordinates over the original rows -/
structure BRow where
  pc : Nat
  v : Vec
  a : Vec

/-- one fraction-free elimination step on the state `(v, a, c)` with invariant `c•v₀ - v = a·P` -/
def stepReduce (st : Vec × Vec × Int) (p : BRow) : Vec × Vec × Int :=
  let x := st.1.getD p.pc 0
  if x = 0 then st else
  let pv := p.v.getD p.pc 0
  (vsub (vscale pv st.1) (vscale x p.v), vadd (vscale pv st.2.1) (vscale x p.a), pv * st.2.2)

def reduceBy (basis : List BRow) (v : Vec) (m : Nat) : Vec × Vec × Int :=
  basis.foldl stepReduce (v, List.replicate m 0, 1)

def unitVec (m i : Nat) (c : Int) : Vec := (List.range m).map fun j => if j = i then c else 0

def buildBasis (P : List Vec) : List BRow :=
  let m := P.length
  (P.zipIdx).foldl (fun basis (row, i) =>
    let st := reduceBy basis row m
    match st.1.findIdx? (· != 0) with
    | none => basis
    | some pc => basis ++ [{ pc := pc, v := st.1, a := vsub (unitVec m i st.2.2) st.2.1 }]) []

/-- candidate witness `(c, w)` with `c • v = w · P` (unchecked) -/
def solve (P : List Vec) (v : Vec) : Option (Int × Vec) :=
  let st := reduceBy (buildBasis P) v P.length
  if st.1.all (· == 0) then some (st.2.2, st.2.1) else none

/-- membership test WITH the witness re-checked by multiplication -/
def inSpanB (P : List Vec) (v : Vec) : Bool :=
  match solve P v with
  | some (c, w) => c != 0 && vscale c v == comb v.length w P
  | none => false

def vdot : Vec → Vec → Int
  | a :: as, b :: bs => a * b + vdot as bs
  | _, _ => 0

/-- `y` certifies that `v` is NOT in the rational row space of `P`: `y` is orthogonal to every row of `P`
but not to `v` (all of one length) -/
def nonMemberB (P : List Vec) (v y : Vec) : Bool :=
  y.length == v.length && P.all (·.length == v.length) && P.all (fun p => vdot p y == 0) && vdot v y != 0

/-- candidate kernel vector (unchecked): the residual of `v` has a leading column `f` outside the pivot
columns; back-substitute through the echelon basis, scaling instead of dividing -/
def kernelWitness (P : List Vec) (v : Vec) : Option Vec :=
  let basis := buildBasis P
  let st := reduceBy basis v P.length
  match st.1.findIdx? (· != 0) with
  | none => none
  | some f =>
    some (basis.reverse.foldl (fun y p => (vscale (p.v.getD p.pc 0) y).set p.pc (-(vdot p.v y)))
      (unitVec v.length f 1))

/-- CERTIFYING decision of `v ∈ rowspace(P)`: `some true` with a re-checked combination, `some false` with
a re-checked orthogonal vector, `none` if neither certificate checks (never observed; the search is not
verified, the answer is) -/
def spanDecide (P : List Vec) (v : Vec) : Option Bool :=
  if inSpanB P v then some true
  else match kernelWitness P v with
    | some y => if nonMemberB P v y then some false else none
    | none => none

/-- all decisions `some true` -> `some true`; some decision `some false` -> `some false`; else undecided -/
def combineDecisions (ds : List (Option Bool)) : Option Bool :=
  if ds.any (· == some false) then some false
  else if ds.all (· == some true) then some true
  else none

/-- certified comparison of two row spaces -/
def sameRowSpaceD (T P : List Vec) : Option Bool :=
  combineDecisions (T.map (spanDecide P) ++ P.map (spanDecide T))

def sameRowSpaceB (T P : List Vec) : Bool := T.all (inSpanB P) && P.all (inSpanB T)

def decisionE : Option Bool → Except Err Bool
  | some b => .ok b
  | none => .error .certificate

/-- `TemplatePattern.matches` with exact arithmetic; `tn`, `n` = number of dims of template / schedule -/
def matchOp (tn n : Nat) (tp sp : Operand) : Except Err Bool :=
  if n > tn then
    (if tn = 0 then .error .valueError   -- sp.inner_dims(0)
     else decisionE (sameRowSpaceD (tp.rows.drop (tp.rows.length - sp.rows.length)) (sp.rows.map (lastN tn))))
  else if n < tn then .ok false
  else decisionE (sameRowSpaceD (tp.rows.drop (tp.rows.length - sp.rows.length)) sp.rows)

def matchOps (tn n : Nat) : List Operand → List Operand → Except Err Bool
  | tp :: ts, sp :: ss =>
    match matchOp tn n tp sp with
    | .error e => .error e
    | .ok false => .ok false
    | .ok true => matchOps tn n ts ss
  | _, _ => .ok true

/-- `Template.matches` -/
def matchesQ (t : Template) (s : Schedule) : Except Err Bool :=
  if t.ops.length ≠ s.ops.length then .ok false else matchOps t.n s.n t.ops s.ops

/-! ## extra checks of `scheduler.py` -/

/-- number of columns selected by the Python slice `[:, :-tn]` on `n` columns (`-0` selects nothing) -/
def temporalCount (tn n : Nat) : Nat := if tn = 0 then 0 else n - tn

/-- columns selected by `[:, -tn:]` (`-0:` selects everything) -/
def spatialPart {α} (tn : Nat) (r : List α) : List α := if tn = 0 then r else lastN tn r

def isPureOutputStationary (t : Template) (s : Schedule) : Bool :=
  match s.ops.getLast? with
  | none => true
  | some o =>
    let types := (List.range (temporalCount t.n s.n)).map fun j => o.rows.any fun r => r.getD j 0 != 0
    (types.dropWhile id).all (!·)

def isMemoryFlexibleEnough (sizes : List Nat) (t : Template) (s : Schedule) : Bool :=
  if ¬ (s.n > t.n) then true else
  (s.ops.zip sizes).all fun (o, size) =>
    let m : Int := ((8 + size - 1) / size : Nat)
    o.rows.any fun r => !((r.take (temporalCount t.n s.n)).any (· % m != 0)) && (spatialPart t.n r).any (· == 1)

/-- `is_output_channel_stationary`; the assert holds iff `channel_dim < 2`, the row access raises IndexError -/
def isOutputChannelStationary (ch : Nat) (t : Template) (s : Schedule) : Except Err Bool :=
  match s.ops.getLast? with
  | none => .error .indexError
  | some o =>
    if ch ≥ 2 then .error .assertion
    else match o.rows[ch]? with
      | none => .error .indexError
      | some r =>
        let arr := r.take (temporalCount t.n s.n)
        match arr.findIdx? (· != 0) with
        | none => .ok true
        | some i => .ok ((arr.take i).all (· != 0))

/-! ## `scheduler_backtrack` -/

/-- `template[0].bounds[-k] if k <= template.num_dims else None`, with Python truthiness (`0`/`None` = no bound) -/
def templateBound (t : Template) (k : Nat) : Nat :=
  if k ≤ t.n ∧ 0 < k then ((t.bounds[t.n - k]?).getD none).getD 0 else 0

/-- body of one iteration of the `for` loop: the rotated schedule and the candidate, if any -/
def btStep (mtch : Template → Schedule → Except Err Bool) (checks : List (Template → Schedule → Bool))
    (tmpl : Template) (k : Nat) (s : Schedule) : Except Err (Schedule × Option Schedule) :=
  match rotate (s.n - k + 1) s with
  | .error e => .error e
  | .ok s1 =>
    if k = 0 then .error .valueError   -- inner_dims(0); unreachable: rotate(n+1) raises first
    else
      match mtch (tInnerRaw k tmpl) (innerRaw k s1) with
      | .error e => .error e
      | .ok false => .ok (s1, none)
      | .ok true =>
        if !(checks.all fun c => c (tInnerRaw k tmpl) (innerRaw k s1)) then .ok (s1, none) else
        let tb := templateBound tmpl k
        let sb := s1.bounds.getD (s1.n - k) 0
        if tb = 0 then .ok (s1, some s1)
        else if sb ≤ tb then .ok (s1, some s1)
        else if sb % tb ≠ 0 then .ok (s1, none)
        else match tile (s1.n - k) tb s1 with
          | .error e => .error e
          | .ok c => .ok (s1, some c)

/-- the `for _ in range(iters)` loop; `rec` is the recursive generator call -/
def btLoop (step : Schedule → Except Err (Schedule × Option Schedule))
    (rec : Schedule → Except Err (List Schedule)) : Nat → Schedule → Except Err (List Schedule)
  | 0, _ => .ok []
  | i + 1, s =>
    match step s with
    | .error e => .error e
    | .ok (s1, cand) =>
      match (match cand with | none => Except.ok [] | some c => rec c) with
      | .error e => .error e
      | .ok here =>
        match btLoop step rec i s1 with
        | .error e => .error e
        | .ok rest => .ok (here ++ rest)

/-- `list(scheduler_backtrack(template, schedule, k, checks))` in yield order; an exception anywhere
makes `list(..)` raise, hence `Except`.  `fuel` bounds the recursion depth. -/
def backtrack (mtch : Template → Schedule → Except Err Bool) (checks : List (Template → Schedule → Bool))
    (tmpl : Template) : Nat → Schedule → Nat → Except Err (List Schedule)
  | 0, _, _ => .error .outOfFuel
  | fuel + 1, s, k =>
    if k > s.n then .ok [s]
    else btLoop (btStep mtch checks tmpl k) (fun c => backtrack mtch checks tmpl fuel c (k + 1)) (s.n - k + 1) s

/-! ## construction (`SchedulePattern.__init__` / `AccessPattern.__init__`) and the use in `AutoflowScheduler` -/

/-- `Schedule(SchedulePattern(bounds, pattern) for ...)`: every bound must be a strictly positive integer and
every matrix must have one column per bound, otherwise `ValueError` -/
def construct (bounds : List Int) (ops : List Operand) : Except Err Schedule :=
  if bounds.any (· ≤ 0) then .error .valueError
  else if ops.any (fun o => o.rows.any (·.length != bounds.length)) then .error .valueError
  else .ok { bounds := bounds.map Int.toNat, ops := ops }

/-- `AutoflowScheduler`: canonicalize, then the first schedule yielded under the two default constraints;
`none` = the generator is empty (Python: `StopIteration`) -/
def autoflow (sizes : List Nat) (tmpl : Template) (fuel : Nat) (s : Schedule) : Except Err (Option Schedule) :=
  match backtrack matchesQ [isPureOutputStationary, isMemoryFlexibleEnough sizes] tmpl fuel (canonicalize s) 1 with
  | .error e => .error e
  | .ok rs => .ok rs.head?

/-! ## `next(scheduler_backtrack(..))`: the FIRST yielded schedule, lazily -/

/-- the `for` loop of the generator, stopped at the first yielded schedule (later iterations are not run, so
their exceptions are not raised) -/
def btLoopFirst (step : Schedule → Except Err (Schedule × Option Schedule))
    (rec : Schedule → Except Err (Option Schedule)) : Nat → Schedule → Except Err (Option Schedule)
  | 0, _ => .ok none
  | i + 1, s =>
    match step s with
    | .error e => .error e
    | .ok (s1, cand) =>
      match (match cand with | none => Except.ok none | some c => rec c) with
      | .error e => .error e
      | .ok (some r) => .ok (some r)
      | .ok none => btLoopFirst step rec i s1

/-- `next(scheduler_backtrack(template, schedule, k, checks), None)` -/
def backtrackFirst (mtch : Template → Schedule → Except Err Bool) (checks : List (Template → Schedule → Bool))
    (tmpl : Template) : Nat → Schedule → Nat → Except Err (Option Schedule)
  | 0, _, _ => .error .outOfFuel
  | fuel + 1, s, k =>
    if k > s.n then .ok (some s)
    else btLoopFirst (btStep mtch checks tmpl k) (fun c => backtrackFirst mtch checks tmpl fuel c (k + 1)) (s.n - k + 1) s

/-- `AutoflowScheduler` as the pass really runs it: `canonicalize`, then `next(..)` of the search under the two
default constraints; `none` = `StopIteration` -/
def autoflowFirst (sizes : List Nat) (tmpl : Template) (fuel : Nat) (s : Schedule) : Except Err (Option Schedule) :=
  backtrackFirst matchesQ [isPureOutputStationary, isMemoryFlexibleEnough sizes] tmpl fuel (canonicalize s) 1

/-! ## accelerator templates (`get_template` of snax_alu.py and snax_gemmx.py) as tables -/

/-- what `get_template` looks at: the kernel op inside each `dart.generic` of the operation's body, in order -/
inductive KOp | qmac | mac | add | rescale | other
deriving DecidableEq, Repr

/-- `SNAXAluAccelerator.get_template`: three operands `(y) -> (y)` on 4 lanes -/
def aluTemplate : Template := ⟨[some 4], List.replicate 3 ⟨[[1]], [0]⟩⟩

def opMK : Operand := ⟨[[1, 0, 0], [0, 0, 1]], [0, 0]⟩
def opKN : Operand := ⟨[[0, 0, 1], [0, 1, 0]], [0, 0]⟩
def opMN : Operand := ⟨[[1, 0, 0], [0, 1, 0]], [0, 0]⟩
def op2 : Operand := ⟨[[1, 0], [0, 1]], [0, 0]⟩

/-- `SNAXGEMMXAccelerator.get_template` for an array of `m x n x k`: the decision tree over the body's kernels.
A (q)mac first: matmul `A[m,k], B[k,n], C[m,n]`, a following add appends the output pattern once more (gemm), a
following rescale changes nothing; anything else, or a generic left over before the yield, is `RuntimeError`.
Any other first kernel: the two-operand rescale-only template over `(m, k)`. -/
def gemmxTemplate (m n k : Nat) (body : List KOp) : Except Err Template :=
  match body with
  | [] => .error .assertion
  | first :: rest =>
    if first = .qmac ∨ first = .mac then
      let b3 : List (Option Nat) := [some m, some n, some k]
      match rest with
      | [] => .ok ⟨b3, [opMK, opKN, opMN]⟩
      | .add :: rest2 =>
        (match rest2 with
         | [] => .ok ⟨b3, [opMK, opKN, opMN, opMN]⟩
         | [.rescale] => .ok ⟨b3, [opMK, opKN, opMN, opMN]⟩
         | _ => .error .runtime)
      | .rescale :: rest2 =>
        (match rest2 with
         | [] => .ok ⟨b3, [opMK, opKN, opMN]⟩
         | [.rescale] => .ok ⟨b3, [opMK, opKN, opMN]⟩
         | _ => .error .runtime)
      | _ => .error .runtime
    else if rest = [] then .ok ⟨[some m, some k], [op2, op2]⟩
    else .error .runtime

end SnaxVerif.Sched
