/-
Model for property C13, second part: what a barrier-separated function means on the machine.

* every core executes the whole function; after `dispatch_regions.py` an operation of class `dm` / `cp`
  is executed by the DMA core / the compute core only, everything else (barriers, `scf.if`, `scf.for`,
  `scf.yield`, class-`all` operations) by every core: `perCore`, `proj`;
* the barriers cut an execution into epochs (`epochs`); inside an epoch the cores run concurrently, each
  one in program order: `IsSchedule`;
* the memory is symbolic (`Term`): an operation overwrites each buffer it writes by an uninterpreted
  function (named by the operation) of the contents of the buffers it reads: `step`, `execS`.

No Mathlib import.
-/
import SnaxVerif.Model.Cores

namespace SnaxVerif.Cores

/-- the DMA core, the compute core, any further core -/
inductive Core where
  | dmc | cpc | other (n : Nat)
deriving DecidableEq, Repr

/-- core `c` executes operations of class `k` -/
def execs (c : Core) (k : Cls) : Bool :=
  match k, c with
  | .all, _ => true
  | .dm, .dmc => true
  | .cp, .cpc => true
  | _, _ => false

/-- the event is executed by core `c` (a barrier is executed by every core) -/
def evOn (c : Core) : Ev → Bool
  | .sync => true
  | .op l => execs c l.cls

/-- the part of an execution that core `c` runs -/
def proj (c : Core) (t : List Ev) : List Ev := t.filter (evOn c)

def isSync : Ev → Bool
  | .sync => true
  | .op _ => false

/-- the function as core `c` executes it after dispatch: single-core leaves of other cores are erased;
barriers, scf.if, scf.for and yields stay -/
def perCore (c : Core) : Blk → Blk
  | .nil => .nil
  | .leaf l r => if execs c l.cls then .leaf l (perCore c r) else perCore c r
  | .sync r => .sync (perCore c r)
  | .ifO l t e r => .ifO l (perCore c t) (perCore c e) (perCore c r)
  | .forO l b ys y r => .forO l (perCore c b) ys y (perCore c r)

/-- compound ops and loop terminators are executed by all cores -/
def CompoundAll : Blk → Prop
  | .nil => True
  | .leaf _ r => CompoundAll r
  | .sync r => CompoundAll r
  | .ifO l t e r => l.cls = Cls.all ∧ CompoundAll t ∧ CompoundAll e ∧ CompoundAll r
  | .forO l b _ y r => l.cls = Cls.all ∧ y.cls = Cls.all ∧ CompoundAll b ∧ CompoundAll r

/-- epochs: the operations between consecutive barriers -/
def epochs : List Ev → List (List Leaf)
  | [] => [[]]
  | .sync :: t => [] :: epochs t
  | .op l :: t =>
    match epochs t with
    | e :: es => (l :: e) :: es
    | [] => [[l]]

/-- symbolic buffer contents: the initial contents of buffer `b`, or the result of operation `id`
applied to the contents of the buffers it reads -/
inductive Term where
  | init (b : Nat)
  | app (id : Nat) (args : List Term)

abbrev Mem := Nat → Term

/-- one operation: every buffer it writes receives `op(contents of the buffers it reads)` -/
def step (l : Leaf) (m : Mem) : Mem :=
  fun b => if b ∈ l.writes then Term.app l.id (l.reads.map m) else m b

/-- run the scheduled events in list order (first element first) -/
def execS : List (Core × Leaf) → Mem → Mem
  | [], m => m
  | e :: s, m => execS s (step e.2 m)

/-- buffer clash irrespective of the classes -/
def Clash (a b : Leaf) : Prop :=
  ∃ x, (x ∈ a.writes ∧ (x ∈ b.reads ∨ x ∈ b.writes)) ∨ (x ∈ a.reads ∧ x ∈ b.writes)

/-- `s` is a schedule of epoch `ep`: every core executes, in program order, exactly the operations of
the epoch that it runs -/
def IsSchedule (ep : List Leaf) (s : List (Core × Leaf)) : Prop :=
  ∀ c, (s.filter (fun e => e.1 == c)).map (·.2) = ep.filter (fun l => execs c l.cls)

end SnaxVerif.Cores
