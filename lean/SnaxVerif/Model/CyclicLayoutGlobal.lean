import SnaxVerif.Model.CyclicLayout
/-
The neighbour of `set-memory-layout` in the pipeline: `ApplyLayoutCastSubviewGlobal`
(`snaxc/transforms/realize_memref_casts.py`). When the operand that received a layout is a
`memref.subview` (a tile) of an uninitialised `memref.global`, the layout of the WHOLE global is
derived from the tile's layout: the other tiles are placed behind the first one,

    current_stride = max(bound * step over all strides of the tile layout)
    for tstride, shape in zip(layout.tstrides, const_shape):
        remaining_size = shape // prod(bounds of tstride)
        new_strides = copy of tstride
        if remaining_size > 1:
            new_strides.insert(0, Stride(current_stride, remaining_size)); current_stride *= remaining_size

Only the layout computation is modelled (not the IR surgery, not `transform_constant` for
initialised globals). No Mathlib import: linked into the driver executable.
-/
namespace SnaxVerif.CyclicLayout

/-- `max(stride.bound * stride.step for _, _, stride in layout)`; `none` = `max()` of an empty sequence (ValueError) -/
def maxProd (L : Layout) : Option Nat :=
  match L.flatten with
  | [] => none
  | p :: r => some (r.foldl (fun m q => max m (q.bound * q.step)) (p.bound * p.step))

/-- one iteration of the loop over the dimensions (index `d`): the tile size is read from the
tile layout `L`, the new stride is put in front of a copy of that dimension's strides -/
def globalStep (L : Layout) (gshape : List Nat) (st : Layout × Nat) (d : Nat) : Layout × Nat :=
  match L[d]?, st.1[d]?, gshape[d]? with
  | some t, some l, some n =>
    let remaining := n / prodB t
    if remaining > 1 then (st.1.set d (⟨st.2, remaining⟩ :: l), st.2 * remaining) else st
  | _, _, _ => st

/-- the layout given to the whole global; `ok none`: the pattern does not fire (a non-positive
extent of the global). Different ranks (a rank-reducing subview; Python's `zip` would truncate) are
outside the model. -/
def globalLayout (L : Layout) (gshape : List Nat) : Except Err (Option Layout) :=
  if gshape.any (· = 0) then .ok none
  else if gshape.length ≠ L.length then .error .outsideModel
  else match maxProd L with
    | none => .error .valueError
    | some m => .ok (some ((List.range L.length).foldl (globalStep L gshape) (L, m)).1)

/-- the two guards added by fix FC12e (directly before `# find current strides`), `zip` over the tile
layout: the tile divides the global in every dimension, and every STATIC subview offset
(`none` = `DYNAMIC_INDEX`, cannot be checked) is a multiple of its tile -/
def tileDividesB (L : Layout) (gshape : List Nat) : Bool :=
  (L.zip gshape).all fun p => decide (p.2 % prodB p.1 = 0)

def offsetsAlignedB (L : Layout) (offs : List (Option Nat)) : Bool :=
  (L.zip offs).all fun p => match p.2 with
    | none => true
    | some o => decide (o % prodB p.1 = 0)

/-- `ApplyLayoutCastSubviewGlobal` with fix FC12e: the pattern returns early (`ok none`) unless both
guards hold; otherwise it computes what the unfixed code computes -/
def globalLayoutFixed (L : Layout) (gshape : List Nat) (offs : List (Option Nat)) : Except Err (Option Layout) :=
  if gshape.any (· = 0) then .ok none
  else if gshape.length ≠ L.length then .error .outsideModel
  else if !tileDividesB L gshape || !offsetsAlignedB L offs then .ok none
  else globalLayout L gshape

end SnaxVerif.CyclicLayout
