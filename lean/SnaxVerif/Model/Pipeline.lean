/-! # C15 — model of `construct-pipeline`, `pipeline-duplicate-buffers`, `unroll-pipeline`

Mirrors `snaxc/transforms/pipeline/{construct_pipeline,pipeline_duplicate_buffers,unroll_pipeline}.py`
WITH fix F16 (static guard in `ConstructPipeline`: constant `lb = 0`, `step = 1`, constant `ub ≥ stages - 1`)
and fix FC15b (`ConstructPipeline` declines a body in which anything but the yield follows the stages).

A loop body is a token list (the `scf.yield` is the end of the list). Stage ops carry a tag and the
memref operands they read / write. No Mathlib. -/
namespace SnaxVerif.Pipeline

/-- A memref operand of a stage op. `dup` never occurs in an input loop: it is introduced by
`PipelineDuplicateBuffers` (parity-selected pair of allocations). -/
inductive Opnd
  | tile (j : Nat)    -- result of the j-th index op: a view that depends on the loop index
  | alloc (b : Nat)   -- result of a `memref.alloc` outside the loop
  | ext (b : Nat)     -- any other memref defined outside the loop
  | dup (b : Nat)     -- `select (i mod 2 == 0) b b'`
  deriving DecidableEq, Repr, Inhabited

structure SOp where
  tag : Nat
  ins : List Opnd
  outs : List Opnd
  deriving DecidableEq, Repr, Inhabited

/-- `idx`: any op that is neither dispatchable nor a barrier (`is_index_op`); `op`: a dispatchable op
(`memref.copy`, `linalg.generic`, dart streaming region: all of them are stage ops); `sync`: barrier. -/
inductive Tok
  | idx
  | op (o : SOp)
  | sync
  deriving DecidableEq, Repr

structure Loop where
  lb : Option Int      -- `none`: not an `arith.constant` of index type
  ub : Option Int
  step : Option Int
  nested : Bool        -- the body contains another `scf.for`
  body : List Tok

inductive Err
  | assertion       -- `assert next_op is not None` (loop body that is only the yield)
  | dupOperand      -- a value occurs twice among the operands of one stage (block arguments go out of step: the passes raise)
  | multipleUses | nonSubsequent | notAlloc   -- the three `NotImplementedError`s of PipelineDuplicateBuffers
  deriving DecidableEq, Repr

/-! ## ConstructPipeline -/

/-- `while is_index_op(next_op)`: the yield is itself an "index op", so an empty body trips the assertion and a
body of index ops only is declined (`none`). `some rest`: `rest` starts with a non-index token. -/
def skipIdx : List Tok → Except Err (Option (List Tok))
  | [] => .error .assertion
  | [.idx] => .ok none
  | .idx :: rest => skipIdx rest
  | rest => .ok (some rest)

/-- `while is_stage_op(next_op)`, one token at a time; `afterOp`: the previous token was a stage op (a barrier now closes
the stage). `none`: declined — a stage is not closed by a barrier before the yield, or (fix FC15b) the loop is left at a
token that is neither a stage op nor the yield (second barrier in a row, index op behind the stages): such tokens would
stay in the loop body behind the pipeline op. The second component (tokens left in the loop) is therefore always `[]`;
it is kept so that the statement `NoTrailing` stays expressible (`collect_no_trailing`). -/
def collect : List Tok → List (List SOp) → List SOp → Bool → Option (List (List SOp) × List Tok)
  | [], stages, cur, _ => if cur.isEmpty then some (stages, []) else none
  | .op o :: rest, stages, cur, _ => collect rest stages (cur ++ [o]) true
  | .sync :: rest, stages, cur, true => collect rest (stages ++ [cur]) [] false
  | .sync :: _, _, _, false => none
  | .idx :: _, _, _, _ => none

structure Pipe where
  stages : List (List SOp)
  trailing : List Tok
  deriving Repr, DecidableEq

/-- `ConstructPipeline.match_and_rewrite` with F16. `none` = the loop is left as it is. -/
def construct (l : Loop) : Except Err (Option Pipe) :=
  match l.lb, l.step, l.ub with
  | some 0, some 1, some ub =>
    if l.nested then .ok none else
    match skipIdx l.body with
    | .error e => .error e
    | .ok none => .ok none
    | .ok (some rest) =>
      match collect rest [] [] false with
      | none => .ok none
      | some (stages, trailing) =>
        if stages.length < 2 then .ok none
        else if ub < (stages.length : Int) - 1 then .ok none
        else .ok (some ⟨stages, trailing⟩)
  | _, _, _ => .ok none

/-! ## PipelineDuplicateBuffers -/

def stageIns (st : List SOp) : List Opnd := st.flatMap (·.ins)
def stageOuts (st : List SOp) : List Opnd := st.flatMap (·.outs)

def inStages (P : List (List SOp)) (v : Opnd) : List Nat :=
  (List.range P.length).filter fun k => decide (v ∈ stageIns (P.getD k []))
def outStages (P : List (List SOp)) (v : Opnd) : List Nat :=
  (List.range P.length).filter fun k => decide (v ∈ stageOuts (P.getD k []))

/-- what a stage operand becomes -/
def classify (P : List (List SOp)) (v : Opnd) : Except Err Opnd :=
  match v with
  | .dup b => .ok (.dup b)
  | v =>
    -- a view computed by an index op (`tile`) is analysed like any other buffer: it only becomes an index-op result
    -- ("safe") when it is read-only or write-only; as a stage-to-stage buffer it is refused (not an allocation)
    match inStages P v, outStages P v with
    | [], _ => .ok v
    | _, [] => .ok v
    | [ki], [ko] =>
      if ki ≠ ko + 1 then .error .nonSubsequent
      else match v with
        | .alloc b => .ok (.dup b)
        | _ => .error .notAlloc
    | _, _ => .error .multipleUses

def allOperands (P : List (List SOp)) : List Opnd := P.flatMap fun st => st.flatMap fun o => o.ins ++ o.outs

/-- what `classify` turns an operand into (the operand itself where `classify` fails) -/
def cget (P : List (List SOp)) (v : Opnd) : Opnd :=
  match classify P v with
  | .ok w => w
  | .error _ => v

/-- the first operand (stage by stage, op by op, inputs then outputs) that PipelineDuplicateBuffers rejects -/
def firstErr (P : List (List SOp)) : Option Err :=
  (allOperands P).findSome? fun v =>
    match classify P v with
    | .error e => some e
    | .ok _ => none

def duplicate (P : List (List SOp)) : Except Err (List (List SOp)) :=
  if P.any (fun st => !decide ((stageIns st ++ stageOuts st).Nodup)) then .error .dupOperand
  else match firstErr P with
    | some e => .error e
    | none => .ok (P.map fun st => st.map fun o => ⟨o.tag, o.ins.map (cget P), o.outs.map (cget P)⟩)

/-! ## UnrollPipeline: which stage runs on which index expression -/

inductive IExpr
  | const (c : Nat)     -- prologue: `arith.constant c`
  | ivMinus (c : Nat)   -- steady state: `i - c`
  | ubMinus (c : Nat)   -- epilogue: `ub - c`
  deriving DecidableEq, Repr

structure Unrolled where
  prologue : List (List (Nat × IExpr))   -- every inner list is followed by a barrier
  newLb : Nat
  body : List (Nat × IExpr)              -- followed by a barrier
  epilogue : List (List (Nat × IExpr))   -- in program order
  deriving Repr, DecidableEq

def unroll (S : Nat) : Unrolled where
  prologue := (List.range (S - 1)).map fun i => (List.range (i + 1)).map fun j => (j, .const (i - j))
  newLb := S - 1
  body := (List.range S).map fun k => (k, .ivMinus k)
  epilogue := (List.range (S - 1)).reverse.map fun i =>
    (List.range (i + 1)).reverse.map fun j => (S - 1 - j, .ubMinus (i - j + 1))

def IExpr.eval (iv ub : Int) : IExpr → Int
  | .const c => c
  | .ivMinus c => iv - c
  | .ubMinus c => ub - c

def evalSlot (iv ub : Int) (s : List (Nat × IExpr)) : List (Nat × Int) := s.map fun p => (p.1, p.2.eval iv ub)

/-- the (stage, iteration) pairs of the unrolled program for `ub = N`, barrier-separated groups in program order -/
def evalUnroll (S : Nat) (N : Int) : List (List (Nat × Int)) :=
  let u := unroll S
  u.prologue.map (evalSlot 0 N)
    ++ (List.range (N - u.newLb).toNat).map (fun d => evalSlot ((u.newLb : Int) + (d : Nat)) N u.body)
    ++ u.epilogue.map (evalSlot 0 N)

/-! ## The three passes together -/

inductive Outcome
  | declined
  | pipelined (stages : List (List SOp)) (trailing : List Tok) (u : Unrolled)
  deriving Repr, DecidableEq

deriving instance DecidableEq for Except

def run (l : Loop) : Except Err Outcome :=
  match construct l with
  | .error e => .error e
  | .ok none => .ok .declined
  | .ok (some p) =>
    match duplicate p.stages with
    | .error e => .error e
    | .ok st => .ok (.pipelined st p.trailing (unroll st.length))

/-! ## Ideal slot structure -/

/-- slot `t` runs stage `k` on iteration `t - k` for every `k < S` with `k ≤ t` and `t - k < N` -/
def slot (S N t : Nat) : List (Nat × Nat) :=
  (List.range' (t + 1 - N) (min S (t + 1) - (t + 1 - N))).map fun k => (k, t - k)

def slots (S N : Nat) : List (List (Nat × Nat)) := (List.range (N + S - 1)).map (slot S N)

/-! ## Semantics: symbolic memory -/

inductive Loc
  | cell (arr : Nat) (i : Nat)    -- element `i` of array `arr` (what a tile views)
  | buf (b : Nat) (copy : Nat)    -- allocation `b` (copy 0) or its clone (copy 1)
  | ext (b : Nat)
  deriving DecidableEq, Repr

inductive Term
  | init (l : Loc)
  | nil
  | cons (h t : Term)
  | app (k o n q : Nat) (arg : Term)   -- output `q` of op `o` of stage `k` in iteration `n`, applied to what it read
  deriving DecidableEq, Repr

abbrev Mem := Loc → Term

/-- an event: op `o` of stage `k` on iteration `n` -/
structure Ev where
  k : Nat
  o : Nat
  n : Nat
  deriving DecidableEq, Repr

def tileArr (tiles : List (Nat × Nat × Bool)) (j : Nat) : Nat := (tiles.getD j (0, 0, false)).1
def tileOff (tiles : List (Nat × Nat × Bool)) (j : Nat) : Nat := (tiles.getD j (0, 0, false)).2.1
/-- loop-invariant view (`subview A[off]`) instead of `subview A[i + off]` -/
def tileInv (tiles : List (Nat × Nat × Bool)) (j : Nat) : Bool := (tiles.getD j (0, 0, false)).2.2

/-- tile `j` = (array, offset, invariant) views element `n + offset` (or `offset` if loop-invariant) of its array -/
def resolve (tiles : List (Nat × Nat × Bool)) (dbl : Bool) (n : Nat) : Opnd → Loc
  | .tile j => .cell (tileArr tiles j) ((if tileInv tiles j then 0 else n) + tileOff tiles j)
  | .alloc b => .buf b 0
  | .ext b => .ext b
  | .dup b => .buf b (if dbl then n % 2 else 0)

structure Prog where
  tiles : List (Nat × Nat × Bool)
  stages : List (List SOp)     -- after `duplicate`

def Prog.opAt (p : Prog) (e : Ev) : SOp := (p.stages.getD e.k []).getD e.o ⟨0, [], []⟩
def Prog.reads (p : Prog) (dbl : Bool) (e : Ev) : List Loc := (p.opAt e).ins.map (resolve p.tiles dbl e.n)
def Prog.writes (p : Prog) (dbl : Bool) (e : Ev) : List Loc := (p.opAt e).outs.map (resolve p.tiles dbl e.n)

def readVals (rs : List Loc) (m : Mem) : Term := rs.foldr (fun a t => .cons (m a) t) .nil

def step (p : Prog) (dbl : Bool) (e : Ev) (m : Mem) : Mem := fun a =>
  if a ∈ p.writes dbl e then .app e.k e.o e.n ((p.writes dbl e).idxOf a) (readVals (p.reads dbl e) m) else m a

def exec (p : Prog) (dbl : Bool) (l : List Ev) (m : Mem) : Mem := l.foldl (fun m e => step p dbl e m) m

/-- the events of one (stage, iteration) pair, in program order -/
def stageEvents (p : Prog) (k n : Nat) : List Ev :=
  (List.range (p.stages.getD k []).length).map fun o => ⟨k, o, n⟩

/-- the original loop: iterations in order, stages in order -/
def seqEvents (p : Prog) (N : Nat) : List Ev :=
  (List.range N).flatMap fun n => (List.range p.stages.length).flatMap fun k => stageEvents p k n

/-- the unrolled program in program order (one admissible schedule) -/
def pipeEvents (p : Prog) (N : Nat) : List Ev :=
  (slots p.stages.length N).flatMap fun s => s.flatMap fun kn => stageEvents p kn.1 kn.2

def initMem : Mem := fun l => .init l

/-! ## Decidable side conditions of the equivalence theorem (evaluated on every generated case by the driver) -/

def allOps (p : Prog) : List (Nat × SOp) :=
  (List.range p.stages.length).flatMap fun k => (p.stages.getD k []).map fun o => (k, o)

/-- facts established by PipelineDuplicateBuffers: a duplicated buffer is written only by one stage `s` and read
only by stage `s+1`, and is not also used directly; a directly used shared buffer is never read or never written -/
def dupAdjacent (p : Prog) : Bool :=
  (allOps p).all fun (k, o) => (allOps p).all fun (k', o') =>
    (o.outs.all fun v => match v with
      | .dup b => (o'.outs.all fun w => w != .dup b || k' == k) && (o'.ins.all fun w => w != .dup b || k' == k + 1)
                  && !(o'.ins.contains (.alloc b)) && !(o'.outs.contains (.alloc b))
      | _ => true) &&
    (o.ins.all fun v => match v with
      | .dup b => (o'.outs.all fun w => w != .dup b || k' + 1 == k) && !(o'.ins.contains (.alloc b)) && !(o'.outs.contains (.alloc b))
      | _ => true)

def isShared : Opnd → Bool
  | .alloc _ => true
  | .ext _ => true
  | _ => false

def sharedOneSided (p : Prog) : Bool :=
  (allOps p).all fun (_, o) => (allOps p).all fun (_, o') =>
    o.outs.all fun v => !isShared v || !(o'.ins.contains v)

/-- input clause: a shared (write-only) buffer is written by ops of one stage only -/
def oneWriterStage (p : Prog) : Bool :=
  (allOps p).all fun (k, o) => (allOps p).all fun (k', o') =>
    o.outs.all fun v => !isShared v || !(o'.outs.contains v) || k == k'

/-- input clause: two tiles that view the same array do so at the same offset from the loop index -/
def tilesAligned (p : Prog) : Bool :=
  p.tiles.all fun t => p.tiles.all fun t' => t.1 != t'.1 || (t.2.1 == t'.2.1 && !t.2.2 && !t'.2.2)

/-- every (stage, is-output, operand) occurrence of the program -/
def touches (p : Prog) : List (Nat × Bool × Opnd) :=
  (allOps p).flatMap fun ko => ko.2.ins.map (fun v => (ko.1, false, v)) ++ ko.2.outs.map (fun v => (ko.1, true, v))


/-- two operand occurrences, at least one of them an output, may coexist in a pipeline:
tiles of one array are loop-variant with the same offset, or belong to one stage (input clause TilesAligned); a shared buffer that is written is touched by one
stage only (PipelineDuplicateBuffers: never read; input clause OneWriterStage: one writing stage); a duplicated buffer
is written by one stage and read by the next only, and is not also used directly (PipelineDuplicateBuffers) -/
def pairOK (tiles : List (Nat × Nat × Bool)) (x y : Nat × Bool × Opnd) : Bool :=
  match x.2.2, y.2.2 with
  | .tile j, .tile j' => tileArr tiles j != tileArr tiles j'
      || (!tileInv tiles j && !tileInv tiles j' && tileOff tiles j == tileOff tiles j') || x.1 == y.1
  | .alloc b, .alloc b' => b != b' || x.1 == y.1
  | .ext b, .ext b' => b != b' || x.1 == y.1
  | .alloc b, .dup b' => b != b'
  | .dup b, .alloc b' => b != b'
  | .dup b, .dup b' =>
    b != b' || (if x.2.1 && y.2.1 then x.1 == y.1 else if x.2.1 then y.1 == x.1 + 1 else x.1 == y.1 + 1)
  | _, _ => true

def safeB (p : Prog) : Bool :=
  (touches p).all fun x => (touches p).all fun y => !(x.2.1 || y.2.1) || pairOK p.tiles x y

end SnaxVerif.Pipeline

namespace SnaxVerif.Pipeline

/-! ## side conditions of the double-buffer refinement (evaluated by the driver; established by `duplicate`, see
`Lemmas/PipelineDuplicate.lean`) -/

/-- allocation `b` is double buffered somewhere in the program -/
def dupId (p : Prog) (b : Nat) : Bool := (touches p).any fun t => t.2.2 == .dup b

/-- a copy of a double-buffered allocation -/
def isDupLoc (p : Prog) : Loc → Bool
  | .buf b _ => dupId p b
  | _ => false

/-- a double-buffered allocation is not also used directly, and every read of it is preceded by a write in an
earlier stage (so within one iteration it is written before it is read) -/
def dupWF (p : Prog) : Bool :=
  (touches p).all fun t =>
    match t.2.2 with
    | .alloc b => !dupId p b
    | .dup b => t.2.1 || (touches p).any fun w => w.2.1 && w.2.2 == .dup b && decide (w.1 < t.1)
    | _ => true

/-- input clause for `duplicate`: what must hold of the ORIGINAL stage operands so that the duplicated program is safe:
two tile occurrences (one written) are compatible (TilesAligned), and a shared buffer written by two occurrences is written
in one stage (OneWriterStage) -/
def pairIn (tiles : List (Nat × Nat × Bool)) (x y : Nat × Bool × Opnd) : Bool :=
  match x.2.2, y.2.2 with
  | .tile _, .tile _ => pairOK tiles x y
  | .alloc b, .alloc b' => !(x.2.1 && y.2.1) || b != b' || x.1 == y.1
  | .ext b, .ext b' => !(x.2.1 && y.2.1) || b != b' || x.1 == y.1
  | _, _ => true

def inputOK (tiles : List (Nat × Nat × Bool)) (P : List (List SOp)) : Bool :=
  (touches ⟨tiles, P⟩).all fun x => (touches ⟨tiles, P⟩).all fun y => !(x.2.1 || y.2.1) || pairIn tiles x y

/-- the input of `duplicate` has no parity-selected operands (they are only introduced by it) -/
def inputNoDup (P : List (List SOp)) : Bool :=
  (touches ⟨[], P⟩).all fun t => match t.2.2 with | .dup _ => false | _ => true

/-- the events of one iteration of the original loop -/
def iterEvents (p : Prog) (n : Nat) : List Ev :=
  (List.range p.stages.length).flatMap fun k => stageEvents p k n

end SnaxVerif.Pipeline

namespace SnaxVerif.Pipeline

/-- a module with several loops: the pattern objects of the three passes visit one loop after the other and keep no state
from one loop to the next, so the module is transformed loop by loop (the first loop that makes a pass raise makes the
run raise) -/
def runModule : List Loop → Except Err (List Outcome)
  | [] => .ok []
  | l :: ls =>
    match run l with
    | .error e => .error e
    | .ok o =>
      match runModule ls with
      | .error e => .error e
      | .ok os => .ok (o :: os)

end SnaxVerif.Pipeline
