/-!
# Model of the configuration-value generators (property C08)

For every accelerator the Python code has TWO separately hand-written functions: one that lists the field
names (`get_streamer_setup_fields`, `get_xdma_streamer_setup_fields`, `self.fields = (...)`) and one that
generates the values (`_generate_streamer_setup_vals`, `_generate_stream_setup_vals`, `_generate_setup_vals`).
`accfg.SetupOp.iter_params` zips the two. The model keeps them separate in exactly the same way:
`…Fields` mirrors the first, `…Vals` mirrors the second (including the exceptions it raises), nothing is
shared between the two except the configuration they read.

Sources mirrored (every repaired site is selected by a flag of `Variant`; `Variant.fixed` = all repairs):
* `snaxc/accelerators/snax.py`       `SNAXStreamer._generate_streamer_setup_vals` / `get_streamer_setup_fields`
                                     / `get_xdma_streamer_setup_fields`
* `snaxc/accelerators/snax_alu.py`   `_generate_stream_setup_vals`, `fields`
* `snaxc/accelerators/snax_gemmx.py` `_generate_setup_vals`, `fields`
* `snaxc/accelerators/snax_xdma.py`  `_generate_stream_setup_vals`
* `snaxc/accelerators/snax_hwpe_mult.py` `_generate_setup_vals`, `fields`
* `snaxc/util/pack_bitlist.py`       (the two shapes that are used: 2 and 4 values)

No Mathlib import: this file is linked into the driver.
-/
namespace SnaxVerif.SV

/-! ## Configurations -/

/-- `StreamerFlag`: normal / irrelevant / reuse. -/
inductive Flag | n | i | r
  deriving DecidableEq, Repr, Inhabited

/-- The `StreamerExtension` subclasses (xDMA extensions; `transpose` doubles as the regular-streamer option). -/
inductive Ext | maxpool | add | addLong | rescaleDown | rescaleUp | memset | transpose
  deriving DecidableEq, Repr, Inhabited

/-- One element of `Streamer.opts`. -/
inductive Opt | remap | chan | byteMask | bcast | ext (e : Ext)
  deriving DecidableEq, Repr, Inhabited

structure Streamer where
  tdims : List Flag
  sdims : List Nat
  opts : List Opt
  deriving Repr, Inhabited

/-- `any(isinstance(opt, X) for opt in streamer.opts)` -/
def Streamer.has (s : Streamer) (o : Opt) : Bool := s.opts.any (· == o)

/-- `[ext for ext in streamer.opts if isinstance(ext, StreamerExtension)]`, in `opts` order. -/
def Streamer.exts (s : Streamer) : List Ext :=
  s.opts.filterMap fun | .ext e => some e | _ => none

/-- Which tree is modelled, one flag per repaired site (`true` = the repair is applied). -/
structure Variant where
  f11 : Bool              -- D11 → F11: gemmx rescale-only kernel emits n multipliers
  f14 : Bool              -- D12 → F14: xDMA declares `_enabled_chan` only with a channel mask
  zeroPerOperand : Bool   -- D80 → FC08a: xDMA masks use the zero-pointer flag of their own operand
  extCsrLen : Bool        -- D83 → FC08b: xDMA emits `csr_length` zeros per extension for a non-generic body
  loopAllDims : Bool      -- D82 → FC08c: alu loop bound = product of all upper bounds of stream 0
  deriving DecidableEq, Repr

/-- the tree as pinned: no repair -/
def Variant.pristine : Variant := ⟨false, false, false, false, false⟩
/-- every shipped repair applied (F11, F14, FC08a, FC08b, FC08c) -/
def Variant.fixed : Variant := ⟨true, true, true, true, true⟩
/-- /repo before FC08a–c: only F11 and F14 -/
def Variant.repo : Variant := ⟨true, true, false, false, false⟩

inductive Err | indexError | assertionError | valueError | zeroDivision | notImplemented
  | mappingNotFound | malformed          -- snax_phs: raised by the PHS encoder / decoder
  deriving DecidableEq, Repr

def Err.name : Err → String
  | .indexError => "IndexError" | .assertionError => "AssertionError" | .valueError => "ValueError"
  | .zeroDivision => "ZeroDivisionError" | .notImplemented => "NotImplementedError"
  | .mappingNotFound => "MappingNotFoundError" | .malformed => "Malformed"

/-! ## Operations -/

/-- `snax_stream.StridePattern`: (upper bound, temporal stride) pairs — the attribute verifier forces equal
lengths — and spatial strides. -/
structure Pattern where
  dims : List (Int × Int)
  ss : List Int
  deriving Repr, Inhabited

/-- What `_generate_streamer_setup_vals` reads from the streaming region: the stride patterns and, per
operand, whether it is the result of `arith.constant 0 : index` (zero pointer). `zero.length` is the number
of operands. A pointer that is a block argument (function argument, loop-carried value) or the result of any
other op — including a non-zero constant — has flag `false`, and the flag is evaluated afresh for every operand
(the xDMA generator does not: see `xdmaVals`). -/
structure StreamOp where
  pats : List Pattern
  zero : List Bool
  deriving Repr, Inhabited

/-! ## Values -/

/-- SSA values that are not computed by the generator. -/
inductive Leaf
  | opnd (i : Nat)   -- i-th operand of the streaming region (a base pointer)
  | inp (i : Nat)    -- i-th input of the first `dart.generic` (qmac zero points)
  | ptr (i : Nat)    -- hwpe: aligned pointer + byte offset of memref operand i, as i32
  | dim (i : Nat)    -- hwpe: `memref.dim %operand_i, 0`, as i32
  | dimDiv4 (i : Nat) -- alu (linalg path): `memref.dim %operand_i, 0` divided (unsigned) by 4, as i32
  deriving DecidableEq, Repr

/-- A generated value: the expression tree of the `arith` ops that define it. -/
inductive Val
  | leaf (l : Leaf)
  | c (v : Int)                 -- arith.constant v : i32
  | andi (a b : Val)
  | shli (a b : Val)
  | ori (a b : Val)
  deriving DecidableEq, Repr

abbrev Env := Leaf → BitVec 32
/-- What a register receives: a 32-bit word depending on the run-time values of the leaves. -/
abbrev Den := Env → BitVec 32

def konst (v : Int) : Den := fun _ => BitVec.ofInt 32 v

def Val.den : Val → Den
  | .leaf l => fun env => env l
  | .c v => konst v
  | .andi a b => fun env => a.den env &&& b.den env
  | .shli a b => fun env => a.den env <<< b.den env
  | .ori a b => fun env => a.den env ||| b.den env

/-- `pack_bitlist((a, b), [oa, ob])`: one `or`. -/
def pack2 (a b : Val) (oa ob : Int) : Val := .ori (.shli a (.c oa)) (.shli b (.c ob))

/-- `pack_bitlist([a, b, c, d], [oa, ob, oc, od])`: the queue `[s0,s1,s2,s3] → [s2,s3,s0|s1] → [s0|s1,s2|s3]`. -/
def pack4 (a b c d : Val) (oa ob oc od : Int) : Val :=
  .ori (.ori (.shli a (.c oa)) (.shli b (.c ob))) (.ori (.shli c (.c oc)) (.shli d (.c od)))

/-! ## Field names (structured; `Field.name` renders the Python string) -/

inductive Field
  | ptrLow (s : Nat) | ptrHigh (s : Nat)
  | sstride (s d : Nat) | bound (s d : Nat) | tstride (s d : Nat)
  | remap (s : Nat) | chanMask (s : Nat) | transpose (s : Nat) | bcast (s : Nat)
  -- xDMA
  | enabledChan (s : Nat) | enabledByte (s : Nat) | bypass (s : Nat) | extCsr (s : Nat) (e : Ext) (i : Nat)
  -- alu
  | aluMode | loopBoundAlu
  -- phs
  | phsSwitch (i : Nat)
  -- gemmx
  | K | N | M | subtractions | csr0 | csr1 | shift (i : Nat) | mult (i : Nat) | temporalLoopBound | bypassSIMD
  -- hwpe
  | hA | hB | hO | vectorLength | nrIters | mode
  deriving DecidableEq, Repr

def Ext.name : Ext → String
  | .maxpool => "maxpool_ext" | .add => "add_ext" | .addLong => "add_ext_long"
  | .rescaleDown => "rescale_down_ext" | .rescaleUp => "rescale_up_ext" | .memset => "memset_ext"
  | .transpose => "t"

/-- `string.ascii_lowercase[s]` (the model covers at most 26 streamers, as the Python naming does). -/
def sname (s : Nat) : String := String.singleton (Char.ofNat (97 + s))

def Field.name : Field → String
  | .ptrLow s => s!"{sname s}_ptr_low" | .ptrHigh s => s!"{sname s}_ptr_high"
  | .sstride s d => s!"{sname s}_sstride_{d}" | .bound s d => s!"{sname s}_bound_{d}"
  | .tstride s d => s!"{sname s}_tstride_{d}"
  | .remap s => s!"{sname s}_address_remap" | .chanMask s => s!"{sname s}_channel_mask"
  | .transpose s => s!"{sname s}_transpose" | .bcast s => s!"{sname s}_broadcast"
  | .enabledChan s => s!"{sname s}_enabled_chan" | .enabledByte s => s!"{sname s}_enabled_byte"
  | .bypass s => s!"{sname s}_bypass" | .extCsr s e i => s!"{sname s}_{e.name}_{i}"
  | .aluMode => "alu_mode" | .loopBoundAlu => "loop_bound_alu"
  | .phsSwitch i => s!"phs_switch_{i}"
  | .K => "K" | .N => "N" | .M => "M" | .subtractions => "subtractions" | .csr0 => "csr0" | .csr1 => "csr1"
  | .shift i => s!"shift_{i}" | .mult i => s!"mult_{i}"
  | .temporalLoopBound => "temporal_loop_bound" | .bypassSIMD => "bypassSIMD"
  | .hA => "A" | .hB => "B" | .hO => "O" | .vectorLength => "vector_length" | .nrIters => "nr_iters"
  | .mode => "mode"

/-! ## The regular streamer: `get_streamer_setup_fields` -/

def streamerBlockFields (x : Streamer × Nat) : List Field :=
  [.ptrLow x.2, .ptrHigh x.2]
  ++ (List.range x.1.sdims.length).map (Field.sstride x.2)
  ++ (List.range x.1.tdims.length).map (Field.bound x.2)
  ++ (List.range x.1.tdims.length).map (Field.tstride x.2)
  ++ (if x.1.has .remap then [.remap x.2] else [])
  ++ (if x.1.has .chan then [.chanMask x.2] else [])

def transposeField (x : Streamer × Nat) : List Field :=
  if x.1.has (.ext .transpose) then [.transpose x.2] else []

def bcastField (x : Streamer × Nat) : List Field :=
  if x.1.has .bcast then [.bcast x.2] else []

def streamerFields (cfg : List Streamer) : List Field :=
  cfg.zipIdx.flatMap streamerBlockFields ++ cfg.zipIdx.flatMap transposeField ++ cfg.zipIdx.flatMap bcastField

/-! ## The regular streamer: `_generate_streamer_setup_vals` -/

def zeroAddress : Int := 0x10000040

def ptrLowVal (z : Bool) (idx : Nat) : Val := if z then .c zeroAddress else .leaf (.opnd idx)

/-- `for dim, _ in enumerate(streamer.spatial_dims): spatial_strides.data[dim]` (IndexError when the pattern
has fewer spatial strides than the streamer has spatial dimensions). -/
def sstrideVals (st : Streamer) (p : Pattern) : Except Err (List Val) :=
  (List.range st.sdims.length).mapM fun d =>
    match p.ss[d]? with
    | some s => .ok (.c s)
    | none => .error .indexError

/-- `upper_bounds + (1,)*(tdim - len)` zipped with `temporal_strides + (0,)*(tdim - len)`. A negative
count gives the empty tuple in Python, truncated subtraction gives the same here. -/
def padDims (st : Streamer) (p : Pattern) : List (Int × Int) :=
  p.dims ++ List.replicate (st.tdims.length - p.dims.length) (1, 0)

/-- the `bound` written for one temporal dimension (internal reuse collapses to 1) -/
def collapse (f : Flag) (b t : Int) : Int := if f = .r ∧ b > 1 ∧ t = 0 then 1 else b

def boundVals (st : Streamer) (p : Pattern) : List Val :=
  (st.tdims.zip (padDims st p)).map fun x => .c (collapse x.1 x.2.1 x.2.2)

/-- `assert stride == 0` on irrelevant dimensions -/
def tstrideVals (st : Streamer) (p : Pattern) : Except Err (List Val) :=
  (st.tdims.zip (padDims st p)).mapM fun x =>
    if x.1 = .i ∧ x.2.2 ≠ 0 then .error .assertionError else .ok (.c x.2.2)

def remapVals (st : Streamer) : List Val := if st.has .remap then [.c 0] else []

def chanVals (st : Streamer) (z : Bool) : List Val :=
  if st.has .chan then [.c (if z then 0 else -1)] else []

/-- `do_broadcast[operand]`: some spatial stride of a programmed spatial dimension is 0 and the streamer can
broadcast. -/
def doBroadcast (st : Streamer) (p : Pattern) : Bool :=
  st.has .bcast && (p.ss.take st.sdims.length).any (· == 0)

/-- One iteration of the first loop: the values of one streamer and its `do_broadcast` flag. -/
def streamerBlock (op : StreamOp) (x : Streamer × Nat) : Except Err (List Val × Bool) :=
  match op.zero[x.2]? with
  | none => .error .indexError                    -- op.operands[operand]
  | some z =>
    match op.pats[x.2]? with
    | none => .error .indexError                  -- op.stride_patterns.data[operand]
    | some p =>
      match sstrideVals x.1 p with
      | .error e => .error e
      | .ok ss =>
        match tstrideVals x.1 p with
        | .error e => .error e
        | .ok ts =>
          .ok ([ptrLowVal z x.2, .c 0] ++ ss ++ boundVals x.1 p ++ ts ++ remapVals x.1 ++ chanVals x.1 z,
               doBroadcast x.1 p)

def transposeVal (x : Streamer × Nat) : List Val :=
  if x.1.has (.ext .transpose) then [.c 0] else []

def bcastVal (y : (Streamer × Nat) × (List Val × Bool)) : List Val :=
  if y.1.1.has .bcast then [.c (if y.2.2 then 1 else 0)] else []

def streamerVals (cfg : List Streamer) (op : StreamOp) : Except Err (List Val) :=
  match cfg.zipIdx.mapM (streamerBlock op) with
  | .error e => .error e
  | .ok rs =>
    .ok ((cfg.zipIdx.zip rs).flatMap (fun y => y.2.1) ++ cfg.zipIdx.flatMap transposeVal
         ++ (cfg.zipIdx.zip rs).flatMap bcastVal)

/-! ## The streaming-region verifier and the address stream a pattern denotes -/

/-- `snax_stream.StreamingRegionOp.verify_`, the part that looks at the streamer configuration: one pattern per
streamer, and no pattern AS WRITTEN has more temporal loops / spatial strides than its streamer has dimensions
(`len(stride_pattern.temporal_strides) > streamer.temporal_dim` raises). The module verifier runs between all
passes, so only accepted regions reach the value generators in the pipeline. -/
def regionAccepts (cfg : List Streamer) (op : StreamOp) : Bool :=
  op.pats.length == cfg.length &&
  (cfg.zip op.pats).all fun x =>
    decide (x.2.dims.length ≤ x.1.tdims.length) && decide (x.2.ss.length ≤ x.1.sdims.length)

/-- addresses of a loop nest given OUTERMOST loop first -/
def addrsOut : List (Int × Int) → List Int
  | [] => [0]
  | d :: rest => (List.range d.1.toNat).flatMap fun (i : Nat) => (addrsOut rest).map (· + (i : Int) * d.2)

/-- The temporal address stream (relative to the base pointer) of a list of (bound, stride) loops, entry 0 being
the innermost loop — both for a stride pattern and for the registers `bound_i` / `tstride_i` of a streamer. -/
def addrStream (dims : List (Int × Int)) : List Int := addrsOut dims.reverse

/-- the (bound, stride) pairs that end up in `bound_i` / `tstride_i`, before the reuse collapse: positions
`0 … tdim-1` of the padded pattern; anything beyond is silently dropped by the generator -/
def writtenDims (st : Streamer) (p : Pattern) : List (Int × Int) :=
  (st.tdims.zip (padDims st p)).map (·.2)

/-! ## snax_alu (streaming-region path) -/

def prodI (l : List Int) : Int := l.foldr (· * ·) 1

def aluFields (cfg : List Streamer) : List Field := streamerFields cfg ++ [.aluMode, .loopBoundAlu]

/-- The loop count of the ALU, evaluated first. Unrepaired: `op.stride_patterns.data[0].upper_bounds.data[0]`
(IndexError without a loop); FC08c: `prod(x.data for x in op.stride_patterns.data[0].upper_bounds)`. -/
def firstBound (v : Variant) (op : StreamOp) : Except Err Int :=
  match op.pats[0]? with
  | none => .error .indexError
  | some p =>
    if v.loopAllDims then .ok (prodI (p.dims.map (·.1)))
    else match p.dims[0]? with
      | none => .error .indexError
      | some d => .ok d.1

def aluVals (v : Variant) (cfg : List Streamer) (op : StreamOp) : Except Err (List Val) :=
  match firstBound v op with
  | .error e => .error e
  | .ok lb =>
    match streamerVals cfg op with
    | .error e => .error e
    | .ok sv => .ok (sv ++ [.c 0, .c lb])

/-! ## snax_alu, legacy `linalg.generic` path (`_generate_setup_vals`): a fixed table -/

/-- The 17 values the legacy path emits for `linalg.generic(a, b) -> o` over 1-d memrefs, whatever the streamer
configuration of the accelerator is: per operand (pointer, 0, 8, dim/4, 32), then alu mode 0 and dim/4 iterations. -/
def aluLinalgVals : List Val :=
  let lb : Val := .leaf (.dimDiv4 0)
  [.leaf (.ptr 0), .c 0, .c 8, lb, .c 32,
   .leaf (.ptr 1), .c 0, .c 8, lb, .c 32,
   .leaf (.ptr 2), .c 0, .c 8, lb, .c 32,
   .c 0, lb]

/-- the configuration the table was written for (`snax_alu.default_streamer`) -/
def aluDefault : List Streamer :=
  [ { tdims := [.n], sdims := [4], opts := [] }, { tdims := [.n], sdims := [4], opts := [] },
    { tdims := [.n], sdims := [4], opts := [] } ]

/-- What the registers mean for an elementwise operation over 1-d `i64` memrefs on 4 lanes: base pointer of operand
`s`, 8 bytes between lanes, `dim/4` temporal steps of 32 bytes, and as many ALU iterations. -/
def aluLinalgMeaning : Field → Option Den
  | .ptrLow s => if s < 3 then some (fun env => env (.ptr s)) else none
  | .ptrHigh s => if s < 3 then some (konst 0) else none
  | .sstride s 0 => if s < 3 then some (konst 8) else none
  | .bound s 0 => if s < 3 then some (fun env => env (.dimDiv4 0)) else none
  | .tstride s 0 => if s < 3 then some (konst 32) else none
  | .aluMode => some (konst 0)
  | .loopBoundAlu => some (fun env => env (.dimDiv4 0))
  | _ => none

/-! ## snax_gemmx -/

/-- attributes of a `kernel.rescale` -/
structure Rescale where
  inZp : Int
  outZp : Int
  maxI : Int
  minI : Int
  dr : Int
  shifts : List Int
  mults : List Int
  deriving Repr, Inhabited

/-- first op of the first `dart.generic` of the region -/
inductive GKernel
  | mac (zp : Option (Nat × Nat))     -- MacOp (none) or QMacOp with the generic-input indices of zp_lhs, zp_rhs
  | rescale (r : Rescale)
  | other
  deriving Repr, Inhabited

/-- The body of the region: the first op of every `dart.generic` in it, in order (qmac, qmac→rescale,
qmac→add→rescale, mac→add, rescale only, …); a bias-add generic is `.other`. -/
structure GemmxOp where
  s : StreamOp
  generics : List GKernel
  i8out : Bool                  -- the region yields a `!dart.stream<i8>`
  deriving Repr, Inhabited

/-- `generic_op = op.body.block.first_op`; its first op selects the branch. (The Python asserts that the first op
is a `dart.generic`; regions without one are outside the model and behave like an unsupported kernel.) -/
def GemmxOp.kernel (op : GemmxOp) : GKernel := op.generics.headD .other

/-- `region_yield.prev_op` is the LAST generic of the region (for a single generic: the matmul itself); the
rescale parameters are taken from it iff its first op is a `kernel.rescale`. -/
def GemmxOp.post (op : GemmxOp) : Option Rescale :=
  match op.generics.getLast? with
  | some (.rescale r) => some r
  | _ => none

def ceil4 (n : Nat) : Nat := (n + 3) / 4

def gemmxFields (cfg : List Streamer) (n : Nat) : List Field :=
  streamerFields cfg ++ [.K, .N, .M, .subtractions, .csr0, .csr1]
  ++ (List.range (ceil4 n)).map Field.shift ++ (List.range n).map Field.mult
  ++ [.temporalLoopBound, .bypassSIMD]

/-- the kernel-parameter part of what `_generate_setup_vals` computes -/
structure GParams where
  k : Int
  n : Int
  m : Int
  sub : Val
  csr0 : Val
  csr1 : Val
  shifts : List Val
  mults : List Val
  tlb : Val
  byp : Val
  /-- attributes `_generate_setup_vals` attaches to the `accfg.launch` (consumed by `lower_acc_launch`) -/
  attrs : List (String × List Int) := []
  deriving Repr

def c255 : Val := .c 255

def csr0Val (minI maxI outZp inZp : Int) : Val :=
  pack4 (.andi (.c minI) c255) (.andi (.c maxI) c255) (.andi (.c outZp) c255) (.andi (.c inZp) c255) 24 16 8 0

/-- `shifts[i:i+4]` for `i in range(0, len, 4)` -/
def chunks4 {α} : List α → List (List α)
  | a :: b :: c :: d :: rest => [a, b, c, d] :: chunks4 rest
  | [] => []
  | short => [short]

/-- `pack_bitlist(chunk[::-1], (24, 16, 8, 0))`; `zip(strict=True)` raises ValueError unless 4 values. -/
def packShiftChunk : List Int → Except Err Val
  | [a, b, c, d] => .ok (pack4 (.c d) (.c c) (.c b) (.c a) 24 16 8 0)
  | _ => .error .valueError

/-- per-channel arrays: a single value is broadcast to `n` channels -/
def bcastN (n : Nat) (l : List Int) : List Int :=
  match l with
  | [x] => List.replicate n x
  | _ => l

def defaultRescale (n : Nat) : Rescale :=
  { inZp := 0, outZp := 0, maxI := 127, minI := -128, dr := 0,
    shifts := List.replicate n 9, mults := List.replicate n 1 }

/-- the rescale parameters the i8 branch programs: those of the trailing rescale generic (single values broadcast
to `n` channels), else the "no rescale" defaults -/
def effRescale (n : Nat) (op : GemmxOp) : Rescale :=
  match op.post with
  | some r => { r with shifts := bcastN n r.shifts, mults := bcastN n r.mults }
  | none => defaultRescale n

/-- Channel-wise requantisation with more channels than the array has columns: the registers carry the first `n`
channels, the complete attribute arrays of the `kernel.rescale` (as written, not broadcast) and `M` travel as
attributes of the launch: `shift_vals` iff more than `ceil(n/4)` packed shift words, `mult_vals` and `m` iff more than
`n` multipliers. -/
def launchAttrs (n : Nat) (op : GemmxOp) (nShiftWords nMults : Nat) (m : Int) : List (String × List Int) :=
  match op.post with
  | none => []
  | some r =>
    (if nShiftWords > ceil4 n then [("shift_vals", r.shifts)] else [])
    ++ (if nMults > n then [("mult_vals", r.mults), ("m", [m])] else [])

def gemmxParams (v : Variant) (n : Nat) (op : GemmxOp) : Except Err GParams :=
  match op.kernel with
  | .mac zp =>
    match (if op.i8out then op.s.pats[2]? else op.s.pats.getLast?) with
    | none => .error .indexError
    | some last =>
      let m := prodI ((last.dims.filter fun d => d.2 ≠ 0).map (·.1))   -- `// n` with n = 1
      match op.s.pats[0]? with
      | none => .error .indexError
      | some p0 =>
        if m = 0 then .error .zeroDivision else
        let k := Int.fdiv (prodI (p0.dims.map (·.1))) m
        let zpa : Val := match zp with | some (a, _) => .leaf (.inp a) | none => .c 0
        let zpb : Val := match zp with | some (_, b) => .leaf (.inp b) | none => .c 0
        let sub := pack2 (.andi zpa c255) (.andi zpb c255) 0 8
        if op.i8out then
          let r := effRescale n op
          match (chunks4 r.shifts).mapM packShiftChunk with
          | .error e => .error e
          | .ok sh =>
            .ok { k := k, n := 1, m := m, sub := sub,
                  csr0 := csr0Val r.minI r.maxI r.outZp r.inZp, csr1 := .c r.dr,
                  shifts := sh.take (ceil4 n), mults := (r.mults.map Val.c).take n,
                  tlb := .c m, byp := .c 0, attrs := launchAttrs n op sh.length r.mults.length m }
        else
          .ok { k := k, n := 1, m := m, sub := sub, csr0 := .c 0, csr1 := .c 0,
                shifts := List.replicate (ceil4 n) (.c 0), mults := List.replicate n (.c 1),
                tlb := .c 0, byp := .c 1 }
  | .rescale r =>
    match op.s.pats[0]? with
    | none => .error .indexError
    | some p0 =>
      let m := prodI (p0.dims.map (·.1))
      match r.shifts[0]?, r.mults[0]? with
      | some s, some mu =>
        let sh := pack4 (.c s) (.c s) (.c s) (.c s) 24 16 8 0
        .ok { k := 1, n := 1, m := m, sub := .c 0,
              csr0 := csr0Val r.minI r.maxI r.outZp r.inZp, csr1 := .c r.dr,
              shifts := List.replicate (ceil4 n) sh,
              -- D11: the pristine tree emits ceil(n/4) multipliers for n `mult_i` fields
              mults := List.replicate (if v.f11 then n else ceil4 n) (.c mu),
              tlb := .c m, byp := .c 0 }
      | _, _ => .error .indexError
  | .other => .error .notImplemented

def gemmxTail (P : GParams) : List Val :=
  [.c P.k, .c P.n, .c P.m, P.sub, P.csr0, P.csr1] ++ P.shifts ++ P.mults ++ [P.tlb, P.byp]

def gemmxVals (v : Variant) (cfg : List Streamer) (n : Nat) (op : GemmxOp) : Except Err (List Val) :=
  match streamerVals cfg op.s with
  | .error e => .error e
  | .ok sv =>
    match gemmxParams v n op with
    | .error e => .error e
    | .ok P => .ok (sv ++ gemmxTail P)

/-! ## snax_xdma -/

/-- first op of the body of the streaming region, as far as the extensions look at it -/
inductive XKernel
  | notGeneric                         -- the body does not start with a `dart.generic`
  | add                                -- kernel.add : i32, i32 -> i32
  | rescale (down : Bool) (inZp mult outZp shift : Int)   -- kernel.rescale i32->i8 (down) or i8->i32 (up)
  | other
  deriving Repr, Inhabited, DecidableEq

structure XdmaOp where
  s : StreamOp
  kernel : XKernel
  deriving Repr, Inhabited

def csrLen : Ext → Nat
  | .rescaleDown => 4 | .rescaleUp => 4 | _ => 1

/-- `ext.supported_kernel is not None and ext.supported_kernel.is_same_kernel(kernel_op)` -/
def extMatches (k : XKernel) (e : Ext) : Bool :=
  match e, k with
  | .add, .add => true
  | .rescaleDown, .rescale true _ _ _ _ => true
  | .rescaleUp, .rescale false _ _ _ _ => true
  | _, _ => false

/-- `ext.get_csr_values(kernel_op)` for a matching extension -/
def csrValues (k : XKernel) : List Int :=
  match k with
  | .add => [2]
  | .rescale _ inZp mult outZp shift => [inZp, mult, outZp, shift]
  | _ => []

def xdmaBlockFields (v : Variant) (x : Streamer × Nat) : List Field :=
  (List.range x.1.sdims.length).map (Field.sstride x.2)
  ++ (List.range x.1.tdims.length).map (Field.bound x.2)
  ++ (List.range x.1.tdims.length).map (Field.tstride x.2)
  -- D12: the pristine tree declares `_enabled_chan` unconditionally
  ++ (if v.f14 then (if x.1.has .chan then [.enabledChan x.2] else []) else [.enabledChan x.2])
  ++ (if x.1.has .byteMask then [.enabledByte x.2] else [])
  ++ [.bypass x.2]
  ++ x.1.exts.flatMap fun e => (List.range (csrLen e)).map (Field.extCsr x.2 e)

def xdmaFields (v : Variant) (cfg : List Streamer) : List Field :=
  cfg.zipIdx.flatMap (fun x => [Field.ptrLow x.2, .ptrHigh x.2]) ++ cfg.zipIdx.flatMap (xdmaBlockFields v)

def bypassFrom (k : XKernel) : Nat → List Ext → Int
  | _, [] => 0
  | i, e :: es => (if k ≠ .notGeneric ∧ extMatches k e then (2 : Int) ^ i else 0) + bypassFrom k (i + 1) es

/-- values of one extension; for a body that does not start with a `dart.generic` the unrepaired tree emits ONE
zero whatever `csr_length` is (D83), FC08b emits `csr_length` zeros -/
def extVals (v : Variant) (k : XKernel) (e : Ext) : List Val :=
  if k = .notGeneric then (if v.extCsrLen then List.replicate (csrLen e) (.c 0) else [.c 0])
  else if extMatches k e then (csrValues k).map Val.c
  else List.replicate (csrLen e) (.c 0)

/-- second loop of `_generate_stream_setup_vals`; `z` is the value of the variable `is_zero_pattern` that the
masks of this streamer read (see `maskFlag`). -/
def xdmaBlock (v : Variant) (op : XdmaOp) (z : Bool) (x : Streamer × Nat) : Except Err (List Val) :=
  match op.s.pats[x.2]? with
  | none => .error .indexError
  | some p =>
    match sstrideVals x.1 p with
    | .error e => .error e
    | .ok ss =>
      match tstrideVals x.1 p with
      | .error e => .error e
      | .ok ts =>
        .ok (ss ++ boundVals x.1 p ++ ts
             ++ (if x.1.has .chan then [.c (if z then 0 else -1)] else [])
             ++ (if x.1.has .byteMask then [.c (if z then 0 else -1)] else [])
             ++ [.c (bypassFrom op.kernel 0 x.1.exts)]
             ++ x.1.exts.flatMap (extVals v op.kernel))

def xdmaPtr (op : XdmaOp) (x : Streamer × Nat) : Except Err Bool :=
  match op.s.zero[x.2]? with
  | none => .error .indexError
  | some z => .ok z

/-- Which zero-pointer flag the masks of streamer `x` read. Unrepaired (D80): the variable `is_zero_pattern` still
holds the value of the LAST streamer of the first loop (`zlast`). FC08a: `zero_patterns[operand]`, a list
initialised with `False` and filled by the first loop. -/
def maskFlag (v : Variant) (op : XdmaOp) (zlast : Bool) (x : Streamer × Nat) : Bool :=
  if v.zeroPerOperand then (op.s.zero[x.2]?).getD false else zlast

def xdmaVals (v : Variant) (cfg : List Streamer) (op : XdmaOp) : Except Err (List Val) :=
  match cfg.zipIdx.mapM (xdmaPtr op) with
  | .error e => .error e
  | .ok zs =>
    let zlast := zs.getLast?.getD false          -- `is_zero_pattern = False` before the loop
    match cfg.zipIdx.mapM (fun x => xdmaBlock v op (maskFlag v op zlast x) x) with
    | .error e => .error e
    | .ok bs =>
      .ok ((cfg.zipIdx.zip zs).flatMap (fun y => [ptrLowVal y.2 y.1.2, .c 0]) ++ (cfg.zipIdx.zip bs).flatMap (·.2))

/-! ## The launch op: `accfg.LaunchOp([...], self.launch_fields, setup)` -/

/-- (launch field, constant written) per accelerator: both launch registers of a streamer accelerator get the same
`arith.constant 1 : i5`, xDMA `1 : i32`, hwpe `0 : i5` -/
def aluLaunch : List (String × Int) := [("launch_streamer", 1), ("launch_alu", 1)]
def gemmxLaunch : List (String × Int) := [("launch_streamer", 1), ("launch_gemmx", 1)]
def xdmaLaunch : List (String × Int) := [("launch_start", 1)]
def phsLaunch : List (String × Int) := [("launch_streamer", 1), ("launch_alu", 1)]
def hwpeLaunch : List (String × Int) := [("launch", 0)]

/-! ## snax_hwpe_mult (linalg path, fixed tables) -/

def hwpeFields : List Field := [.hA, .hB, .hO, .vectorLength, .nrIters, .mode]

/-- `ptrs + [nr_iters] + [vector_length] + [mode]` -/
def hwpeVals : List Val :=
  [.leaf (.ptr 0), .leaf (.ptr 1), .leaf (.ptr 2), .c 1, .leaf (.dim 0), .c 1]

/-! ## What each named register is supposed to receive (read off the field NAMES) -/

/-- Streamer-level fields. Independent of any list position: looks only at the streamer/dimension indices in
the name. -/
def streamMeaning (cfg : List Streamer) (op : StreamOp) : Field → Option Den
  | .ptrLow s => (op.zero[s]?).map fun z => if z then konst zeroAddress else fun env => env (.opnd s)
  | .ptrHigh _ => some (konst 0)
  | .sstride s d => (op.pats[s]?).bind fun p => (p.ss[d]?).map konst
  | .bound s d =>
    (cfg[s]?).bind fun st => (op.pats[s]?).bind fun p => (st.tdims[d]?).map fun f =>
      konst (collapse f (p.dims.getD d (1, 0)).1 (p.dims.getD d (1, 0)).2)
  | .tstride s d => (op.pats[s]?).map fun p => konst (p.dims.getD d (1, 0)).2
  | .remap _ => some (konst 0)
  | .chanMask s => (op.zero[s]?).map fun z => konst (if z then 0 else -1)
  | .transpose _ => some (konst 0)
  | .bcast s =>
    (cfg[s]?).bind fun st => (op.pats[s]?).map fun p =>
      konst (if (p.ss.take st.sdims.length).any (· == 0) then 1 else 0)
  | _ => none

def aluMeaning (cfg : List Streamer) (op : StreamOp) : Field → Option Den
  | .aluMode => some (konst 0)
  | .loopBoundAlu => (op.pats[0]?).map fun p => konst (prodI (p.dims.map (·.1)))   -- the number of temporal steps
  | f => streamMeaning cfg op f

/-- gemmx kernel fields relative to the computed parameters `P` (what the parameters themselves must be is
stated separately in `Props/C08.lean`). -/
def gemmxMeaning (cfg : List Streamer) (op : StreamOp) (P : GParams) : Field → Option Den
  | .K => some (konst P.k) | .N => some (konst P.n) | .M => some (konst P.m)
  | .subtractions => some P.sub.den | .csr0 => some P.csr0.den | .csr1 => some P.csr1.den
  | .shift i => (P.shifts[i]?).map Val.den
  | .mult i => (P.mults[i]?).map Val.den
  | .temporalLoopBound => some P.tlb.den | .bypassSIMD => some P.byp.den
  | f => streamMeaning cfg op f

/-! ### gemmx kernel registers, absolute: read off the operation (kernel attributes, stride patterns), not off `P` -/

def bv (x : Int) : BitVec 32 := BitVec.ofInt 32 x

/-- four 8-bit fields at bit offsets 24, 16, 8, 0 -/
def word4 (a b c d : BitVec 32) : BitVec 32 := a <<< 24 ||| b <<< 16 ||| c <<< 8 ||| d

/-- csr0: `min_int (i8) | max_int (i8) | out_zp (i8) | in_zp (i8)`, each forced to 8 bits -/
def csr0Spec (r : Rescale) : BitVec 32 :=
  word4 (bv r.minI &&& 255) (bv r.maxI &&& 255) (bv r.outZp &&& 255) (bv r.inZp &&& 255)

/-- `shift_i`: the shifts of channels 4i … 4i+3, channel 4i in the low byte -/
def shiftWord (s : List Int) (i : Nat) : Option (BitVec 32) :=
  (s[4 * i]?).bind fun a => (s[4 * i + 1]?).bind fun b => (s[4 * i + 2]?).bind fun c => (s[4 * i + 3]?).map fun d =>
    word4 (bv d) (bv c) (bv b) (bv a)

/-- the output stream of a matmul: operand 2 (D8) for i8 output, the last operand (D32) otherwise -/
def outPattern (op : GemmxOp) : Option Pattern := if op.i8out then op.s.pats[2]? else op.s.pats.getLast?

/-- temporal steps of stream A -/
def stepsA (op : GemmxOp) : Option Int := (op.s.pats[0]?).map fun p => prodI (p.dims.map (·.1))

/-- non-reduction steps of the output stream -/
def macM (op : GemmxOp) : Option Int :=
  (outPattern op).map fun last => prodI ((last.dims.filter fun d => d.2 ≠ 0).map (·.1))

/-- run-time value of a zero point of the matmul: an input of the qmac generic, 0 for mac -/
def zpaDen : Option (Nat × Nat) → Den
  | some (a, _) => fun env => env (.inp a)
  | none => konst 0
def zpbDen : Option (Nat × Nat) → Den
  | some (_, b) => fun env => env (.inp b)
  | none => konst 0

/-- mac / qmac (any chain of generics): loop counts from the stride patterns, zero points from the qmac, rescale
parameters from `effRescale` = the trailing rescale (single values broadcast to `n` channels) or the defaults -/
def macSpec (n : Nat) (op : GemmxOp) (zp : Option (Nat × Nat)) : Field → Option Den
  | .K => (macM op).bind fun m => (stepsA op).map fun s => konst (Int.fdiv s m)
  | .N => some (konst 1)
  | .M => (macM op).map konst
  | .subtractions => some fun env => (zpaDen zp env &&& 255) ||| ((zpbDen zp env &&& 255) <<< 8)   -- zp_b | zp_a
  | .csr0 => some (if op.i8out then fun _ => csr0Spec (effRescale n op) else konst 0)
  | .csr1 => some (if op.i8out then konst (effRescale n op).dr else konst 0)
  | .shift i =>
    if i < ceil4 n then
      (if op.i8out then (shiftWord (effRescale n op).shifts i).map fun w => fun _ => w else some (konst 0))
    else none
  | .mult i => if i < n then (if op.i8out then ((effRescale n op).mults[i]?).map konst else some (konst 1)) else none
  | .temporalLoopBound => if op.i8out then (macM op).map konst else some (konst 0)
  | .bypassSIMD => some (if op.i8out then konst 0 else konst 1)
  | _ => none

/-- rescale only (simd): K = N = 1, M = steps of the stream, per-tensor shift / multiplier (element 0) -/
def rescaleSpec (n : Nat) (op : GemmxOp) (r : Rescale) : Field → Option Den
  | .K => some (konst 1)
  | .N => some (konst 1)
  | .M => (stepsA op).map konst
  | .subtractions => some (konst 0)
  | .csr0 => some fun _ => csr0Spec r
  | .csr1 => some (konst r.dr)
  | .shift i => if i < ceil4 n then (r.shifts[0]?).map fun s => fun _ => word4 (bv s) (bv s) (bv s) (bv s) else none
  | .mult i => if i < n then (r.mults[0]?).map konst else none
  | .temporalLoopBound => (stepsA op).map konst
  | .bypassSIMD => some (konst 0)
  | _ => none

/-- What every gemmx kernel register means, read off the operation (kernel attributes, stride patterns), independent
of the generator's parameter record. -/
def gemmxSpec (n : Nat) (op : GemmxOp) (f : Field) : Option Den :=
  match op.kernel with
  | .mac zp => macSpec n op zp f
  | .rescale r => rescaleSpec n op r f
  | .other => none

/-- all registers of gemmx: the kernel registers by `gemmxSpec`, the others by the streamer meaning -/
def gemmxFullSpec (cfg : List Streamer) (n : Nat) (op : GemmxOp) (f : Field) : Option Den :=
  match f with
  | .K | .N | .M | .subtractions | .csr0 | .csr1 | .shift _ | .mult _ | .temporalLoopBound | .bypassSIMD =>
    gemmxSpec n op f
  | f => streamMeaning cfg op.s f

def xdmaMeaning (cfg : List Streamer) (op : XdmaOp) : Field → Option Den
  | .enabledChan s => (op.s.zero[s]?).map fun z => konst (if z then 0 else -1)
  | .enabledByte s => (op.s.zero[s]?).map fun z => konst (if z then 0 else -1)
  | .bypass s => (cfg[s]?).map fun st => konst (bypassFrom op.kernel 0 st.exts)
  | .extCsr _ e i =>
    if i < csrLen e then
      some (konst (if op.kernel ≠ .notGeneric ∧ extMatches op.kernel e then (csrValues op.kernel).getD i 0 else 0))
    else none
  | f => streamMeaning cfg op.s f

def hwpeMeaning : Field → Option Den
  | .hA => some fun env => env (.ptr 0)
  | .hB => some fun env => env (.ptr 1)
  | .hO => some fun env => env (.ptr 2)
  | .vectorLength => some fun env => env (.dim 0)
  | .nrIters => some (konst 1)
  | .mode => some (konst 1)
  | _ => none

/-- The alignment relation: one value per field, and the i-th value is what the i-th name means.
(Stated as an equality of lists so that it composes under `++`; `Lemmas/SetupVals.lean` unfolds it into the
index form used by the theorems.) -/
def Aligned (m : Field → Option Den) (fs : List Field) (vs : List Val) : Prop :=
  fs.map m = vs.map fun v => some v.den

end SnaxVerif.SV
