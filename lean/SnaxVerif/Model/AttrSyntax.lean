/-
Token-level model of the custom attribute syntax of
  * `StridePattern.print_parameters / parse_parameters` (snaxc/dialects/snax_stream.py) and
  * `StreamerConfigurationAttr.print_parameter / parse_parameter` (snaxc/dialects/snax.py).

"Token level": the printer's text is modelled as the token sequence xDSL's MLIR lexer produces from
it (the correspondence check lexes the real printed text with the real lexer and compares), the
parser as the recursive descent the Python code performs on tokens. The lexer itself is not modelled.

No Mathlib import: this file is linked into the driver executable.
-/
namespace SnaxVerif
namespace Syntax

inductive Tok where
  | lt | gt | lsq | rsq | comma | minus | eq
  | ident (s : String)
  | nat (n : Nat)
deriving DecidableEq, Repr, Inhabited

/-! ### integers and `[i, j, …]` lists (xDSL `print_int`, `print_list`, `parse_integer`,
`parse_comma_separated_list(SQUARE, …)`) -/

def printInt (i : Int) : List Tok := if i < 0 then [.minus, .nat (-i).toNat] else [.nat i.toNat]

/-- `, i` for every further element -/
def printIntsTail : List Int → List Tok
  | [] => []
  | i :: l => .comma :: printInt i ++ printIntsTail l

def printInts : List Int → List Tok
  | [] => [.lsq, .rsq]
  | i :: l => .lsq :: printInt i ++ printIntsTail l ++ [.rsq]

/-- `parse_integer()` (defaults `allow_boolean=True, allow_negative=True`) -/
def parseInt : List Tok → Option (Int × List Tok)
  | .minus :: .nat n :: r => some (-(n : Int), r)
  | .nat n :: r => some ((n : Int), r)
  | .ident s :: r => if s = "true" then some (1, r) else if s = "false" then some (0, r) else none
  | _ => none

/-- after an element: `]` ends the list, `,` announces another element -/
def parseIntsTail : List Tok → Option (List Int × List Tok)
  | .rsq :: r => some ([], r)
  | .comma :: .minus :: .nat n :: r => (parseIntsTail r).map fun p => (-(n : Int) :: p.1, p.2)
  | .comma :: .nat n :: r => (parseIntsTail r).map fun p => ((n : Int) :: p.1, p.2)
  | .comma :: .ident s :: r =>
    if s = "true" then (parseIntsTail r).map fun p => (1 :: p.1, p.2)
    else if s = "false" then (parseIntsTail r).map fun p => (0 :: p.1, p.2) else none
  | _ => none

def parseInts : List Tok → Option (List Int × List Tok)
  | .lsq :: .rsq :: r => some ([], r)
  | .lsq :: r =>
    match parseInt r with
    | none => none
    | some (i, r') => (parseIntsTail r').map fun p => (i :: p.1, p.2)
  | _ => none

/-! ### `#snax_stream.stride_pattern<ub = […], ts = […], ss = […]>` -/

structure SPAttr where
  ub : List Int
  ts : List Int
  ss : List Int
deriving DecidableEq, Repr, Inhabited

def printSP (p : SPAttr) : List Tok :=
  [.lt, .ident "ub", .eq] ++ printInts p.ub ++ [.comma, .ident "ts", .eq] ++ printInts p.ts ++
  [.comma, .ident "ss", .eq] ++ printInts p.ss ++ [.gt]

/-- `parse_parameters`; `none` = ParseError. (`verify` — equal lengths of ub and ts — runs after
parsing, on construction; it is modelled by `Stride.Pattern.verify`.) -/
def parseSP (toks : List Tok) : Option (SPAttr × List Tok) :=
  match toks with
  | .lt :: .ident k1 :: .eq :: r =>
    if k1 ≠ "ub" then none else
    match parseInts r with
    | some (ub, .comma :: .ident k2 :: .eq :: r) =>
      if k2 ≠ "ts" then none else
      match parseInts r with
      | some (ts, .comma :: .ident k3 :: .eq :: r) =>
        if k3 ≠ "ss" then none else
        match parseInts r with
        | some (ss, .gt :: r) => some ({ ub := ub, ts := ts, ss := ss }, r)
        | _ => none
      | _ => none
    | _ => none
  | _ => none

/-! ### `#snax.streamer_config<r[opts=a-b, temp=n-n-r, spat=8-8], w[temp=…, spat=…]>` -/

inductive SType where | reader | writer
deriving DecidableEq, Repr, Inhabited

inductive Flag where | normal | irrelevant | reuse
deriving DecidableEq, Repr, Inhabited

/-- the keys of `STREAMER_OPT_MAP` (an option is identified by its class, i.e. by its name) -/
inductive Opt where
  | broadcast | byteMask | channelMask | addressRemap
  | maxpool | memset | transpose | add | addLong | rescaleDown | rescaleUp
deriving DecidableEq, Repr, Inhabited

inductive SysType where | regular | xdma
deriving DecidableEq, Repr, Inhabited

structure Streamer where
  ty : SType
  temporal : List Flag
  spatial : List Nat
  opts : List Opt
deriving DecidableEq, Repr, Inhabited

structure Config where
  streamers : List Streamer
  sys : SysType
deriving DecidableEq, Repr, Inhabited

def stypeName : SType → String | .reader => "r" | .writer => "w"
def stypeOf (s : String) : Option SType :=
  if s = "r" then some .reader else if s = "w" then some .writer else none

def flagName : Flag → String | .normal => "n" | .irrelevant => "i" | .reuse => "r"
def flagOf (s : String) : Option Flag :=
  if s = "n" then some .normal else if s = "i" then some .irrelevant
  else if s = "r" then some .reuse else none

def optName : Opt → String
  | .broadcast => "b" | .byteMask => "bm" | .channelMask => "c" | .addressRemap => "a"
  | .maxpool => "maxpool_ext" | .memset => "memset_ext" | .transpose => "t" | .add => "add_ext"
  | .addLong => "add_ext_long" | .rescaleDown => "rescale_down_ext" | .rescaleUp => "rescale_up_ext"

def allOpts : List Opt :=
  [.broadcast, .byteMask, .channelMask, .addressRemap, .maxpool, .memset, .transpose, .add, .addLong,
   .rescaleDown, .rescaleUp]

def optOf (s : String) : Option Opt := allOpts.find? fun o => optName o = s

/-- `'-'.join(items)` as tokens -/
def printDash {α} (tok : α → Tok) : List α → List Tok
  | [] => []
  | [a] => [tok a]
  | a :: l => tok a :: .minus :: printDash tok l

/-- `while not parse_optional_punctuation(term): items.append(item()); parse_optional_punctuation("-")`
for single-token items. The flag says that an item was just read, i.e. that an optional `-` is
consumed first. -/
def parseDashAux {α} (item : Tok → Option α) (term : Tok) : Bool → List Tok → Option (List α × List Tok)
  | _, [] => none
  | true, .minus :: r => parseDashAux item term false r
  | _, t :: r =>
    if t = term then some ([], r) else
    match item t with
    | none => none
    | some a => (parseDashAux item term true r).map fun p => (a :: p.1, p.2)

def parseDash {α} (item : Tok → Option α) (term : Tok) (toks : List Tok) : Option (List α × List Tok) :=
  parseDashAux item term false toks

def optItem : Tok → Option Opt | .ident s => optOf s | _ => none
def flagItem : Tok → Option Flag | .ident s => flagOf s | _ => none
def natItem : Tok → Option Nat | .nat n => some n | _ => none

def printStreamer (s : Streamer) : List Tok :=
  [.ident (stypeName s.ty), .lsq] ++
  (if s.opts.isEmpty then [] else [.ident "opts", .eq] ++ printDash (fun o => .ident (optName o)) s.opts ++ [.comma]) ++
  [.ident "temp", .eq] ++ printDash (fun f => .ident (flagName f)) s.temporal ++ [.comma] ++
  [.ident "spat", .eq] ++ printDash Tok.nat s.spatial ++ [.rsq]

/-- `', '.join(streamer_strings)` -/
def printStreamers : List Streamer → List Tok
  | [] => []
  | [s] => printStreamer s
  | s :: l => printStreamer s ++ .comma :: printStreamers l

/-- `print_parameter`: the system type is NOT printed (finding D16). -/
def printCfg (c : Config) : List Tok := .lt :: printStreamers c.streamers ++ [.gt]

/-- the optional `opts=…,` group: `parse_optional_keyword("opts")` -/
def parseOpts : List Tok → Option (List Opt × List Tok)
  | .ident s :: r =>
    if s = "opts" then
      match r with
      | .eq :: r' => parseDash optItem .comma r'
      | _ => none
    else some ([], .ident s :: r)
  | r => some ([], r)

def parseStreamer : List Tok → Option (Streamer × List Tok)
  | .ident ty :: .lsq :: r =>
    match stypeOf ty with
    | none => none
    | some ty =>
      match parseOpts r with
      | some (opts, .ident k1 :: .eq :: r) =>
        if k1 ≠ "temp" then none else
        match parseDash flagItem .comma r with
        | some (temporal, .ident k2 :: .eq :: r) =>
          if k2 ≠ "spat" then none else
          match parseDash natItem .rsq r with
          | some (spatial, r) => some ({ ty := ty, temporal := temporal, spatial := spatial, opts := opts }, r)
          | none => none
        | _ => none
      | _ => none
  | _ => none

/-- `while True: …streamer…; if not parse_optional_punctuation(","): break` (fuel: one per streamer) -/
def parseStreamers : Nat → List Tok → Option (List Streamer × List Tok)
  | 0, _ => none
  | fuel + 1, toks =>
    match parseStreamer toks with
    | none => none
    | some (s, .comma :: r) => (parseStreamers fuel r).map fun p => (s :: p.1, p.2)
    | some (s, r) => some ([s], r)

/-- `parse_parameter`: `StreamerConfiguration(streamers)` — the system type takes its default. -/
def parseCfg (toks : List Tok) : Option (Config × List Tok) :=
  match toks with
  | .lt :: r =>
    match parseStreamers toks.length r with
    | some (ss, .gt :: r) => some ({ streamers := ss, sys := .regular }, r)
    | _ => none
  | _ => none

/-! ### fix FC19-D16: the system type is printed (as `system=xdma, `) unless it is the default -/

def sysName : SysType → String | .regular => "reg" | .xdma => "xdma"
def sysOf (s : String) : Option SysType :=
  if s = "reg" then some .regular else if s = "xdma" then some .xdma else none

def printSysPrefix : SysType → List Tok
  | .regular => []
  | .xdma => [.ident "system", .eq, .ident (sysName .xdma), .comma]

def printCfgFixed (c : Config) : List Tok := .lt :: printSysPrefix c.sys ++ printStreamers c.streamers ++ [.gt]

def parseStreamersThen (sys : SysType) (r : List Tok) : Option (Config × List Tok) :=
  match parseStreamers (r.length + 1) r with
  | some (ss, .gt :: r') => some ({ streamers := ss, sys := sys }, r')
  | _ => none

/-- `if parser.parse_optional_keyword("system"): "=", parse_str_enum(StreamerSystemType), ","` -/
def parseCfgFixed (toks : List Tok) : Option (Config × List Tok) :=
  match toks with
  | .lt :: .ident s :: r =>
    if s = "system" then
      match r with
      | .eq :: .ident v :: .comma :: r' =>
        match sysOf v with
        | none => none
        | some sys => parseStreamersThen sys r'
      | _ => none
    else parseStreamersThen .regular (.ident s :: r)
  | .lt :: r => parseStreamersThen .regular r
  | _ => none

/-! ### `StridePattern.parse_parameters` AS IT IS: `parser.parse_identifier("ub")` — the argument of xDSL's
`parse_identifier` is an error-message context, not the expected spelling, so ANY bare identifier is
accepted in the three key positions and the arrays are assigned by position (finding DC19c). `parseSP`
above is the parser with fix FC19c (`parse_keyword`). -/

def parseSPLoose (toks : List Tok) : Option (SPAttr × List Tok) :=
  match toks with
  | .lt :: .ident _ :: .eq :: r =>
    match parseInts r with
    | some (ub, .comma :: .ident _ :: .eq :: r) =>
      match parseInts r with
      | some (ts, .comma :: .ident _ :: .eq :: r) =>
        match parseInts r with
        | some (ss, .gt :: r) => some ({ ub := ub, ts := ts, ss := ss }, r)
        | _ => none
      | _ => none
    | _ => none
  | _ => none

end Syntax
end SnaxVerif
