import SnaxVerif.Model.Tsl
/-!
Model for property C12 ("materialised casts deliver the right data to every consumer").

* `transformConstant` — `snaxc/transforms/realize_memref_casts.py: transform_constant` on the flat (row-major)
  list of element values: `values.reshape(bounds).transpose(argsort(steps)[::-1]).tobytes()`.
* `transposeTuple` — `snaxc/transforms/frontend/remove_transpose_constants.py: transpose_tuple`.
* memory-space assignment on types — `snaxc/transforms/set_memory_space.py`.
* a buffer-level program model (`Item` / `Blk`), its semantics on an abstract memory of cells
  (`exec`), the placement rule of `RealizeMemrefCasts` (`realize`, as found = D8 and with fix F10) and a
  checker for copy placements (`chk`).

No Mathlib import: this file is linked into the driver executable.
-/
namespace SnaxVerif.Casts
open SnaxVerif SnaxVerif.Tsl

/-! ## `transform_constant` -/

/-- a flat stride together with its weight in the row-major numbering of the source array
    (`values.reshape(bounds)`: the weight of axis `k` is the product of the bounds of the later axes) -/
structure WStride where
  step : Nat
  bound : Nat
  w : Nat
deriving DecidableEq, Repr, Inhabited

/-- number of elements of the logical box -/
def size : SLayout → Nat
  | [] => 1
  | t :: ts => prodB t * size ts

/-- the strides of one dimension (outermost tile first); `W` = number of elements of the later dimensions -/
def tagDim (W : Nat) : List SStride → List WStride
  | [] => []
  | s :: r => ⟨s.step, s.bound, prodB r * W⟩ :: tagDim W r

/-- `[stride for _, _, stride in layout]` (dimension-major) with the row-major weights of `reshape(bounds)` -/
def tagAll : SLayout → List WStride
  | [] => []
  | t :: ts => tagDim (size ts) t ++ tagAll ts

/-- insertion into a list sorted by ascending step, in front of the first element that is not smaller
    (`sortAsc` below is then the stable ascending sort, like `np.argsort` on short lists) -/
def insAsc (x : WStride) : List WStride → List WStride
  | [] => [x]
  | y :: r => if x.step ≤ y.step then x :: y :: r else y :: insAsc x r

def sortAsc : List WStride → List WStride
  | [] => []
  | x :: r => insAsc x (sortAsc r)

/-- the axes in the order of `order[::-1]`: descending step -/
def sortDesc (l : List WStride) : List WStride := (sortAsc l).reverse

def prodW : List WStride → Nat
  | [] => 1
  | s :: r => s.bound * prodW r

/-- position in the source array (row-major) of the element that `tobytes()` writes at position `a` of the
    transposed array whose axes are `S` (outermost first) -/
def srcIdx : List WStride → Nat → Nat
  | [], _ => 0
  | s :: r, a => ((a / prodW r) % s.bound) * s.w + srcIdx r a

/-- the data of the re-laid-out constant for a static layout (no checks) -/
def relayout (data : List Int) (s : SLayout) : List Int :=
  let S := sortDesc (tagAll s)
  (List.range data.length).map fun a => data.getD (srcIdx S a) 0

/-- the static layout behind a layout all of whose entries are static -/
def staticStride (s : Stride) : Option SStride :=
  match s.step, s.bound with
  | some st, some b => some ⟨st, b⟩
  | _, _ => none

def static? (l : Layout) : Option SLayout := l.ts.mapM fun t => t.mapM staticStride

/-- `transform_constant(source, dest_layout)` for a source without layout and a TSL destination:
    `ok none` = "not transformed" (warning), `ok (some d)` = the new flat data, `error` = the exception.
    `is_dense()` is evaluated first and raises `ValueError` on a dynamic layout (the later `is_dynamic()` test is
    dead code); `reshape` raises `ValueError` when the number of elements does not match (splat constants). -/
def transformConstantF (refuseOffset : Bool) (data : List Int) (l : Layout) : Except Err (Option (List Int)) :=
  match l.isDense with
  | .error e => .error e
  | .ok false => .ok none
  | .ok true =>
    match static? l with
    | none => .ok none
    | some s =>
      if refuseOffset && (l.offset != some 0) then .ok none          -- proposed fix FC12d (finding DC12d)
      else if data.length ≠ size s then .error .valueError else .ok (some (relayout data s))

/-- the code as found: the offset of the target layout is ignored (finding DC12d) -/
abbrev transformConstant (data : List Int) (l : Layout) : Except Err (Option (List Int)) :=
  transformConstantF false data l

/-! ## `transpose_tuple` -/

/-- the indices `i + j * rows for i in range(rows) for j in range(cols)` -/
def transposeIdx (cols rows : Nat) : List Nat :=
  (List.range rows).flatMap fun i => (List.range cols).map fun j => i + j * rows

/-- `tuple(array_tuple[i + j * rows] for i in range(rows) for j in range(cols))`; an index beyond the end of the
    tuple raises `IndexError` -/
def transposeTuple (a : List Int) (cols rows : Nat) : Except Err (List Int) :=
  if (transposeIdx cols rows).all (· < a.length) then .ok ((transposeIdx cols rows).map fun k => a.getD k 0)
  else .error .indexError

/-! ## memory spaces (`set-memory-space`) -/

inductive Space where
  | none | l1 | l3 | other (n : Nat)
deriving DecidableEq, Repr, Inhabited

/-- a value type as far as the pass is concerned: not a memref, or a memref in a memory space -/
abbrev Ty := Option Space

/-- `change_to_memory_space` -/
def toL3 : Ty → Ty
  | some .none => some .l3
  | t => t

structure FuncSig where
  pub : Bool
  ins : List Ty
  outs : List Ty
deriving DecidableEq, Repr, Inhabited

/-- `InitFuncMemorySpace` on the signature -/
def initFunc (f : FuncSig) : FuncSig :=
  if f.pub && (f.ins ++ f.outs).any (· == some .none) then ⟨f.pub, f.ins.map toL3, f.outs.map toL3⟩ else f

/-- `InitMemRefGlobalMemorySpace` / `InitMemRefAllocMemorySpace` on the result type -/
def initGlobal : Ty → Ty
  | some _ => some .l3
  | t => t
def initAlloc : Ty → Ty
  | some _ => some .l1
  | t => t

/-- `InitStreamAndLinalgMemorySpace`: the type of an operand after the rewrite
    (memrefs outside L1 are replaced by the result of a `memory_space_cast` to L1) -/
def initOperand : Ty → Ty
  | some _ => some .l1
  | t => t

/-- `HandleFuncReturns`: the type of a returned value after the rewrite, given the declared result type -/
def initReturn (declared actual : Ty) : Ty :=
  match declared, actual with
  | some d, some a => if d ≠ a then some d else some a
  | _, a => a

/-! ## buffer-level programs -/

/-- an operand of an operation: cells addressed directly (through the source, an argument, another buffer …)
    or the result of the cast that is being realised -/
inductive Opd where
  | direct (cells : List Nat)
  | cast
deriving DecidableEq, Repr, Inhabited

mutual
inductive Item where
  /-- accelerator operation: `ins` are read, `outs` are wholly overwritten -/
  | leaf (tag : Nat) (ins outs : List Opd)
  /-- a `memref.copy` that is already in the program (between directly addressed cells) -/
  | copy (src dst : List Nat)
  /-- the copy inserted by the rule: source → stand-in buffer -/
  | copyIn
  /-- the copy inserted by the rule: stand-in buffer → source -/
  | copyOut
  /-- a region that is executed a number of times which is not known statically (`scf.for`, `scf.if`) -/
  | loop (id : Nat) (body : Blk)
inductive Blk where
  | nil
  | cons (i : Item) (r : Blk)
end

def Opd.isCast : Opd → Bool
  | .cast => true
  | .direct _ => false

mutual
/-- the item uses the cast value (in any role, at any depth) -/
def Item.uses : Item → Bool
  | .leaf _ ins outs => ins.any Opd.isCast || outs.any Opd.isCast
  | .loop _ b => b.uses
  | _ => false
def Blk.uses : Blk → Bool
  | .nil => false
  | .cons i r => i.uses || r.uses
end

mutual
/-- the item uses the cast value as an input -/
def Item.usesIn : Item → Bool
  | .leaf _ ins _ => ins.any Opd.isCast
  | .loop _ b => b.usesIn
  | _ => false
def Blk.usesIn : Blk → Bool
  | .nil => false
  | .cons i r => i.usesIn || r.usesIn
end

mutual
/-- the item uses the cast value as an output -/
def Item.usesOut : Item → Bool
  | .leaf _ _ outs => outs.any Opd.isCast
  | .loop _ b => b.usesOut
  | _ => false
def Blk.usesOut : Blk → Bool
  | .nil => false
  | .cons i r => i.usesOut || r.usesOut
end

/-! ### the placement rule of `RealizeMemrefCasts` -/

/-- fixed rule (F10): the copy-in goes in front of the item of the cast's block that contains the first use
    of any kind -/
def insInTop : Blk → Blk
  | .nil => .nil
  | .cons i r => if i.uses then .cons .copyIn (.cons i r) else .cons i (insInTop r)

def Item.leafIn : Item → Bool
  | .leaf _ ins _ => ins.any Opd.isCast
  | _ => false

def Item.leafOut : Item → Bool
  | .leaf _ _ outs => outs.any Opd.isCast
  | _ => false

mutual
/-- rule as found: the copy-in goes directly in front of the first use *as input* in walk order, wherever it is
    nested; `none` if there is no such use (`Item.insInOrig`: inside a region of the item) -/
def Item.insInOrig : Item → Option Item
  | .loop id b => match b.insInOrig with
    | some b' => some (.loop id b')
    | none => none
  | _ => none
def Blk.insInOrig : Blk → Option Blk
  | .nil => none
  | .cons i r =>
    if i.leafIn then some (.cons .copyIn (.cons i r))
    else match i.insInOrig with
      | some i' => some (.cons i' r)
      | none => match r.insInOrig with
        | some r' => some (.cons i r')
        | none => none
end

mutual
/-- the copy-out goes directly behind the last use *as output* in walk order, wherever it is nested -/
def Item.insOut : Item → Option Item
  | .loop id b => match b.insOut with
    | some b' => some (.loop id b')
    | none => none
  | _ => none
def Blk.insOut : Blk → Option Blk
  | .nil => none
  | .cons i r =>
    match r.insOut with
    | some r' => some (.cons i r')
    | none =>
      if i.leafOut then some (.cons i (.cons .copyOut r))
      else match i.insOut with
        | some i' => some (.cons i' r)
        | none => none
end

/-- the block of the cast after `RealizeMemrefCasts` fired on it (the cast itself becomes the allocation).
    `fixed = false`: the tree as found (defect D8); `fixed = true`: with fix F10. -/
def realize (fixed : Bool) (b : Blk) : Blk :=
  let b1 := (b.insOut).getD b
  if fixed then (if b.usesIn then insInTop b1 else b1)
  else (b1.insInOrig).getD b1

/-! ### semantics -/

abbrev Mem := Nat → Nat

/-- what an operation computes: value of cell `cell` of output number `out` of operation `tag`, given the
    values it read. Universally quantified in the theorems. -/
abbrev Fn := Nat → Nat → Nat → List (List Nat) → Nat

structure St where
  mem : Mem
  /-- every executed operation with the values it read -/
  log : List (Nat × List (List Nat))
  /-- number of loop entries so far (trip counts may depend on it) -/
  clk : Nat

/-- the cells behind an operand; `cc` are the cells that the cast value stands for -/
def Opd.cells (cc : List Nat) : Opd → List Nat
  | .direct cs => cs
  | .cast => cc

/-- write `v k`, `v (k+1)`, … to the cells (first occurrence wins) -/
def write (m : Mem) : List Nat → Nat → (Nat → Nat) → Mem
  | [], _, _ => m
  | c :: cs, k, v => fun x => if x = c then v k else write m cs (k + 1) v x

/-- copy cell-wise; every value is read before anything is written -/
def srcVal (m : Mem) (src : List Nat) (k : Nat) : Nat :=
  match src[k]? with
  | some c => m c
  | none => 0

def copyCells (m : Mem) (src dst : List Nat) : Mem := write m dst 0 (srcVal m src)

def writeOuts (cc : List Nat) (f : Nat → Nat → Nat) (m : Mem) : List Opd → Nat → Mem
  | [], _ => m
  | o :: os, j => writeOuts cc f (write m (o.cells cc) 0 (f j)) os (j + 1)

/-- run `f` `n` times -/
def iter (f : St → St) : Nat → St → St
  | 0, s => s
  | n + 1, s => iter f n (f s)

/-- Parameters of a run: `fn` = what operations compute, `trips` = trip count of a loop (by loop id and entry
    number), `cc` = the cells the cast value stands for, `src`/`alloc` = source cells and stand-in cells,
    `real` = the inserted copies are performed (`false`: the cast is an alias, the copies are no-ops). -/
structure Cfg where
  fn : Fn
  trips : Nat → Nat → Nat
  cc : List Nat
  src : List Nat
  alloc : List Nat
  real : Bool

mutual
def Item.exec (g : Cfg) : Item → St → St
  | .leaf tag ins outs, s =>
    let vals := ins.map fun o => (o.cells g.cc).map s.mem
    ⟨writeOuts g.cc (fun j k => g.fn tag j k vals) s.mem outs 0, s.log ++ [(tag, vals)], s.clk⟩
  | .copy a b, s => ⟨copyCells s.mem a b, s.log, s.clk⟩
  | .copyIn, s => if g.real then ⟨copyCells s.mem g.src g.alloc, s.log, s.clk⟩ else s
  | .copyOut, s => if g.real then ⟨copyCells s.mem g.alloc g.src, s.log, s.clk⟩ else s
  | .loop id b, s => iter (b.exec g) (g.trips id s.clk) ⟨s.mem, s.log, s.clk + 1⟩
def Blk.exec (g : Cfg) : Blk → St → St
  | .nil, s => s
  | .cons i r, s => r.exec g (i.exec g s)
end

/-- the cast is an alias of its source -/
def aliasCfg (fn : Fn) (trips : Nat → Nat → Nat) (src alloc : List Nat) : Cfg :=
  ⟨fn, trips, src, src, alloc, false⟩

/-- the cast value is its own buffer, filled and written back by the inserted copies -/
def realCfg (fn : Fn) (trips : Nat → Nat → Nat) (src alloc : List Nat) : Cfg :=
  ⟨fn, trips, alloc, src, alloc, true⟩

/-! ### a checker for copy placements -/

/-- a directly addressed operand avoids the cells `forb`; the cast value is allowed iff `allowCast` -/
def Opd.okB (forb : List Nat) (allowCast : Bool) : Opd → Bool
  | .direct cs => cs.all fun c => !forb.contains c
  | .cast => allowCast

mutual
/-- every directly addressed operand (at any depth) avoids the cells `forb`, the cast value is used as an input
    only if `ci` and as an output only if `co`, and the item contains none of the inserted copies -/
def Item.okB (forb : List Nat) (ci co : Bool) : Item → Bool
  | .leaf _ ins outs => ins.all (Opd.okB forb ci) && outs.all (Opd.okB forb co)
  | .copy a b => (a.all fun c => !forb.contains c) && (b.all fun c => !forb.contains c)
  | .copyIn => false
  | .copyOut => false
  | .loop _ b => b.okB forb ci co
def Blk.okB (forb : List Nat) (ci co : Bool) : Blk → Bool
  | .nil => true
  | .cons i r => i.okB forb ci co && r.okB forb ci co
end

def Item.isLeaf : Item → Bool
  | .leaf _ _ _ => true
  | _ => false

/-- checker state: `srcOk` = the source holds the current data, `allocOk` = the stand-in buffer holds it -/
structure Sync where
  srcOk : Bool
  allocOk : Bool
deriving DecidableEq, Repr, Inhabited

/-- an item other than the inserted copies -/
def stepOther (src alloc : List Nat) (i : Item) (q : Sync) : Option Sync :=
  if i.okB (alloc ++ src) false false then some q              -- touches neither buffer
  else if i.okB alloc false false then                          -- addresses the source directly
    (if q.srcOk then some ⟨true, false⟩ else none)
  else if i.okB (alloc ++ src) q.allocOk true then              -- uses the cast value (reads only valid data)
    some ⟨q.srcOk && i.okB (alloc ++ src) q.allocOk false,      -- … the source stays valid if it is not an output
          q.allocOk || (!(i.okB (alloc ++ src) q.allocOk false) && i.isLeaf)⟩
  else none

/-- One item of the cast's block. `none` = the placement is not accepted. -/
def stepSync (src alloc : List Nat) (i : Item) (q : Sync) : Option Sync :=
  match i with
  | .copyIn => if q.srcOk then some ⟨true, true⟩ else none
  | .copyOut => if q.allocOk then some ⟨true, true⟩ else none
  | .leaf t a b => stepOther src alloc (.leaf t a b) q
  | .copy a b => stepOther src alloc (.copy a b) q
  | .loop id b => stepOther src alloc (.loop id b) q

def chkFrom (src alloc : List Nat) : Blk → Sync → Option Sync
  | .nil, q => some q
  | .cons i r, q =>
    match stepSync src alloc i q with
    | some q' => chkFrom src alloc r q'
    | none => none

/-- the block (with inserted copies) is accepted: starting with valid data in the source only, every reader
    through the cast finds the data in the stand-in buffer, and at the end the source is valid again -/
def chk (src alloc : List Nat) (b : Blk) : Bool :=
  match chkFrom src alloc b ⟨true, false⟩ with
  | some q => q.srcOk
  | none => false

/-! ### the syntactic clauses, as a decision procedure -/

/-- split off the longest prefix of items that do not use the cast -/
def splitPre : Blk → Blk × Blk
  | .nil => (.nil, .nil)
  | .cons i r => if i.uses then (.nil, .cons i r) else ((Blk.cons i (splitPre r).1), (splitPre r).2)

/-- split off the longest suffix of items that do not use the cast -/
def splitPost : Blk → Blk × Blk
  | .nil => (.nil, .nil)
  | .cons i r =>
    if r.uses then (Blk.cons i (splitPost r).1, (splitPost r).2)
    else if i.uses then (.cons i .nil, r)
    else (.nil, .cons i r)

/-- the last use of the cast as an output (if any) is an operation of the block itself -/
def lwtB : Blk → Bool
  | .nil => true
  | .cons i r => if r.usesOut then lwtB r else (!i.usesOut || i.leafOut)

/-- The clauses `Clean`, `SourceQuiet`, `LastWriterTop` for the segment between the first and the last item that use
    the cast. -/
def synB (src alloc : List Nat) (b : Blk) : Bool :=
  let pre := (splitPre b).1
  let mid := (splitPost (splitPre b).2).1
  let post := (splitPost (splitPre b).2).2
  pre.okB alloc true true && post.okB alloc true true && mid.okB (alloc ++ src) true true && lwtB mid

/-! ## where `set-memory-space` puts the L1 casts (`InitStreamAndLinalgMemorySpace`) -/

mutual
/-- the function body as far as the pattern is concerned: accelerator operations with the values (by id, in operand
    order) that are not in L1 yet, other operations (`op []`), and regions -/
inductive MItem where
  | op (needs : List Nat)
  | loop (body : MBlk)
inductive MBlk where
  | nil
  | cons (i : MItem) (r : MBlk)
end

/-- Positions are paths of indices (in the original program). A cast inserted in front of the operation at `c` is
    visible at the operation at `p`: same block, not later - or `p` is nested in such an operation. -/
def domB : List Nat → List Nat → Bool
  | [k], k' :: _ => decide (k ≤ k')
  | a :: c, b :: p => a == b && domB c p
  | _, _ => false

structure MState where
  /-- the casts created so far (value, position), newest first = the order of `operand.uses` -/
  casts : List (Nat × List Nat)
  /-- (operation, value, position of the cast that feeds it), in walk order -/
  out : List (List Nat × Nat × List Nat)

/-- `get_cast_op` for every operand of the operation at `p`. `fixed = false`: the code as found re-uses any existing L1
    cast of the value (finding DC12c); `true`: with the proposed fix FC12c only a cast that is visible at `p`. -/
def assignOp (fixed : Bool) (p : List Nat) : List Nat → MState → MState
  | [], st => st
  | v :: vs, st =>
    match st.casts.find? fun c => c.1 == v && (!fixed || domB c.2 p) with
    | some c => assignOp fixed p vs ⟨st.casts, st.out ++ [(p, v, c.2)]⟩
    | none => assignOp fixed p vs ⟨(v, p) :: st.casts, st.out ++ [(p, v, p)]⟩

mutual
def MItem.walk (fixed : Bool) (p : List Nat) : MItem → MState → MState
  | .op needs, st => assignOp fixed p needs st
  | .loop b, st => b.walk fixed p 0 st
def MBlk.walk (fixed : Bool) (pre : List Nat) (k : Nat) : MBlk → MState → MState
  | .nil, st => st
  | .cons i r, st => r.walk fixed pre (k + 1) (i.walk fixed (pre ++ [k]) st)
end

/-- for every operand that needs a cast: which cast feeds it -/
def assignCasts (fixed : Bool) (b : MBlk) : List (List Nat × Nat × List Nat) := (b.walk fixed [] 0 ⟨[], []⟩).out

/-! ## run-time shape of the stand-in buffer (`RealizeMemrefCasts`, dynamic dimensions) -/

/-- the indices of the `memref.dim` ops that size the allocation: one per dynamic entry (`none`) of the cast's shape,
    namely the POSITION of that entry in the shape (`k` = position of the head) -/
def dynIdx : List (Option Nat) → Nat → List Nat
  | [], _ => []
  | none :: r, k => k :: dynIdx r (k + 1)
  | some _ :: r, k => dynIdx r (k + 1)

/-- run-time shape of `memref.alloc(dyn operands) : memref<shape>`: static entries from the type, dynamic entries
    from the operands in order (a missing operand counts as 0) -/
def allocShape : List (Option Nat) → List Nat → List Nat
  | [], _ => []
  | some n :: r, ops => n :: allocShape r ops
  | none :: r, ops => ops.headD 0 :: allocShape r ops.tail

/-- run-time shape of the stand-in buffer of a cast of a source with run-time shape `rt` -/
def standInShape (shape : List (Option Nat)) (rt : List Nat) : List Nat :=
  allocShape shape ((dynIdx shape 0).map fun i => rt.getD i 0)

/-! ## layout of a global that is read through a subview (`ApplyLayoutCastSubviewGlobal`) -/

/-- `max(stride.bound * stride.step for … in layout)` (0 for the empty layout, where Python raises) -/
def maxExtent (l : SLayout) : Nat := (l.flatten.map fun s => s.bound * s.step).foldl max 0

/-- the loop over `zip(layout.tstrides, const_shape)`: a dimension whose shape holds more than one tile gets one more,
    outermost, stride for the tiles; `cur` = the running "current stride" -/
def outerTiles : SLayout → List Nat → Nat → SLayout
  | t :: ts, sh :: shs, cur =>
    let rem := sh / prodB t
    if rem > 1 then (⟨cur, rem⟩ :: t) :: outerTiles ts shs (cur * rem) else t :: outerTiles ts shs cur
  | _, _, _ => []

/-- the layout chosen for the whole global, given the layout of the subview (one tile) and the shape of the global -/
def subviewGlobalLayout (l : SLayout) (shape : List Nat) : SLayout := outerTiles l shape (maxExtent l)

/-- fix FC12e, first half (= FC09a): the tile divides the global in every dimension (`zip`: surplus entries are
    ignored) -/
def tilesWhole : SLayout → List Nat → Bool
  | t :: ts, sh :: shs => sh % prodB t == 0 && tilesWhole ts shs
  | _, _ => true

/-- proposed fix FC12e, second half: every static offset of the subview (`none` = dynamic) is a multiple of the tile
    size (`zip`: surplus entries are ignored) -/
def offsAligned : SLayout → List (Option Nat) → Bool
  | t :: ts, some o :: os => o % prodB t == 0 && offsAligned ts os
  | _ :: ts, none :: os => offsAligned ts os
  | _, _ => true

/-- the guards that FC12e adds to `ApplyLayoutCastSubviewGlobal`; `fixWhole` / `fixAligned` = false: the code as found
    without that guard (findings DC12f / DC12e) -/
def subviewGlobalGuard (fixWhole fixAligned : Bool) (l : SLayout) (shape : List Nat) (offs : List (Option Nat)) : Bool :=
  (!fixWhole || tilesWhole l shape) && (!fixAligned || offsAligned l offs)

/-- element `i` (per dimension, inside the tile) of tile number `q` -/
def tilePoint : SLayout → List Nat → List Nat → List Nat
  | t :: ts, q :: qs, i :: is => (prodB t * q + i) :: tilePoint ts qs is
  | _, _, _ => []

/-- first element of tile number `q` -/
def tileBase : SLayout → List Nat → List Nat
  | t :: ts, q :: qs => (prodB t * q) :: tileBase ts qs
  | _, _ => []

end SnaxVerif.Casts
