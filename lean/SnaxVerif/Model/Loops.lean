/-!
# Loop IR for C17 (loop restructuring preserves the executed operation sequence)

Model of the rewrite patterns of
* `snaxc/transforms/pipeline/pipeline_canonicalize_for.py` : `ChangeForStep` (with fix F03: trip count
  `ceil(ub/step)`; the unrepaired `ub // step` is kept behind `ceil := false`), `MergeForLoops`;
* `snaxc/transforms/reuse_memref_allocs.py` : `LoopHoistPureOperations`, `MoveMemrefDims`;
* the greedy driver's "erase trivially dead op" step (`dce`).

A block is a cons-list whose cells carry the operation, so a block *suffix* is again a block and every
rewrite is a function on the suffix that starts at its anchor operation. `arith.constant … : index`
operations are not statements: the converter turns them into literal operands (`Arg.cst`), because the
patterns only ever look through them (`extract_cst_index`) and their placement is unobservable.

Observable behaviour = `trace`: the list of side-effecting operations (`"test.op"`) executed, in order,
with the evaluated operands (an index value, or the shape = list of sizes of a memref operand).
-/
namespace SnaxVerif.Loops

abbrev Var := Nat

inductive Val
  | int (n : Int)
  | mem (shape : List Int)
  deriving DecidableEq, Repr, Inhabited

def Val.toInt : Val → Int
  | .int n => n
  | .mem _ => 0

def Val.shape : Val → List Int
  | .mem s => s
  | .int _ => []

inductive Arg
  | var (v : Var)
  | cst (c : Int)
  deriving DecidableEq, Repr, Inhabited

abbrev Env := Var → Val

def Arg.eval (env : Env) : Arg → Val
  | .var v => env v
  | .cst c => .int c

def evalArgs (env : Env) (args : List Arg) : List Val := args.map (Arg.eval env)

def upd (env : Env) (v : Var) (x : Val) : Env := fun w => if w = v then x else env w

/-- Kinds of value-producing operations. `hoistable` / `dceable` mirror the xDSL traits the patterns test. -/
inductive OpKind
  | mul | add | divui | remui            -- arith (trait Pure)
  | amin (alts : List (Int × List Int))  -- affine.min, each alternative = const + Σ coeff_k * operand_k (no traits)
  | dim (idx : Nat)                      -- memref.dim src, idx   (NoMemoryEffect, not Pure)
  | subview (rank : Nat)                 -- memref.subview: args = src :: sizes(rank) ++ other operands (NoMemoryEffect)
  | alloc                                -- memref.alloc: args = all sizes, static ones as literals (MemoryAllocEffect; whitelisted)
  | opaque (f : Nat)                     -- any other op with trait Pure (test.pureop): uninterpreted function
  deriving DecidableEq, Repr, Inhabited

/-- `Pure() in op.traits or isinstance(op, memref.AllocOp)` -/
def OpKind.hoistable : OpKind → Bool
  | .mul | .add | .divui | .remui | .opaque _ | .alloc => true
  | _ => false

/-- `is_side_effect_free` (used by the driver's dead-code step) -/
def OpKind.dceable : OpKind → Bool
  | .mul | .add | .divui | .remui | .opaque _ | .dim _ | .subview _ => true
  | _ => false

def dot : List Int → List Int → Int
  | a :: as, b :: bs => a * b + dot as bs
  | _, _ => 0

def linEval (vals : List Int) (alt : Int × List Int) : Int := alt.1 + dot alt.2 vals

def minList : List Int → Int
  | [] => 0
  | x :: xs => xs.foldl min x

def bin (f : Int → Int → Int) : List Val → Val
  | [a, b] => .int (f a.toInt b.toInt)
  | _ => .int 0

/-- value of an operation; `I` interprets the uninterpreted pure operations -/
def OpKind.apply (I : Nat → List Val → Val) : OpKind → List Val → Val
  | .mul, vs => bin (· * ·) vs
  | .add, vs => bin (· + ·) vs
  | .divui, vs => bin (· / ·) vs      -- unsigned division, modelled on non-negative operands
  | .remui, vs => bin (· % ·) vs
  | .amin alts, vs => .int (minList (alts.map (linEval (vs.map Val.toInt))))
  | .dim i, vs => .int ((vs.headD (.int 0)).shape.getD i 0)
  | .subview rank, vs => .mem (((vs.drop 1).take rank).map Val.toInt)
  | .alloc, vs => .mem (vs.map Val.toInt)
  | .opaque f, vs => I f vs

inductive Blk
  | nil
  | pure (dst : Var) (op : OpKind) (args : List Arg) (rest : Blk)
  | eff (id : Nat) (args : List Arg) (rest : Blk)
  | loop (iv : Var) (lb ub step : Arg) (body rest : Blk)
  deriving DecidableEq, Repr, Inhabited

structure Event where
  id : Nat
  vals : List Val
  deriving DecidableEq, Repr

/-- trip count of `scf.for lb to ub step st` (st ≤ 0 is outside the dialect's contract: no iterations) -/
def tripCount (lb ub st : Int) : Nat :=
  if st ≤ 0 then 0 else ((ub - lb + st - 1) / st).toNat

def iters (lb ub st : Int) : List Int :=
  (List.range (tripCount lb ub st)).map (fun (k : Nat) => lb + st * (k : Int))

def trace (I : Nat → List Val → Val) : Blk → Env → List Event
  | .nil, _ => []
  | .pure d op args r, env => trace I r (upd env d (op.apply I (evalArgs env args)))
  | .eff id args r, env => ⟨id, evalArgs env args⟩ :: trace I r env
  | .loop iv lb ub st body r, env =>
      (iters (lb.eval env).toInt (ub.eval env).toInt (st.eval env).toInt).flatMap
          (fun i => trace I body (upd env iv (.int i)))
        ++ trace I r env

/-! ## syntactic helpers -/

def argVars : List Arg → List Var
  | [] => []
  | .var v :: r => v :: argVars r
  | .cst _ :: r => argVars r

def usesOf : Blk → List Var
  | .nil => []
  | .pure _ _ args r => argVars args ++ usesOf r
  | .eff _ args r => argVars args ++ usesOf r
  | .loop _ lb ub st body r => argVars [lb, ub, st] ++ (usesOf body ++ usesOf r)

/-- every defined name (results and induction variables), nested regions included -/
def defsAll : Blk → List Var
  | .nil => []
  | .pure d _ _ r => d :: defsAll r
  | .eff _ _ r => defsAll r
  | .loop iv _ _ _ body r => iv :: (defsAll body ++ defsAll r)

/-- names defined at the top level of the block (what is in scope after it) -/
def defsTop : Blk → List Var
  | .nil => []
  | .pure d _ _ r => d :: defsTop r
  | .eff _ _ r => defsTop r
  | .loop _ _ _ _ _ r => defsTop r

def allVars (b : Blk) : List Var := defsAll b ++ usesOf b

def ivsOf : Blk → List Var
  | .nil => []
  | .pure _ _ _ r => ivsOf r
  | .eff _ _ r => ivsOf r
  | .loop iv _ _ _ body r => iv :: (ivsOf body ++ ivsOf r)

def append : Blk → Blk → Blk
  | .nil, c => c
  | .pure d op args r, c => .pure d op args (append r c)
  | .eff id args r, c => .eff id args (append r c)
  | .loop iv lb ub st body r, c => .loop iv lb ub st body (append r c)

/-- first `n` statements (nil-terminated) and the remaining suffix -/
def splitAt : Nat → Blk → Option (Blk × Blk)
  | 0, b => some (.nil, b)
  | _ + 1, .nil => none
  | n + 1, .pure d op args r => (splitAt n r).map (fun (p, s) => (.pure d op args p, s))
  | n + 1, .eff id args r => (splitAt n r).map (fun (p, s) => (.eff id args p, s))
  | n + 1, .loop iv lb ub st body r => (splitAt n r).map (fun (p, s) => (.loop iv lb ub st body p, s))

/-- only value-producing statements at the top level (no side-effecting op, no loop) -/
def pureOnly : Blk → Bool
  | .nil => true
  | .pure _ _ _ r => pureOnly r
  | _ => false

/-- nothing in the block (nested regions included) has an effect the dead-code step respects -/
def deadBody : Blk → Bool
  | .nil => true
  | .pure _ op _ r => op.dceable && deadBody r
  | .eff _ _ _ => false
  | .loop _ _ _ _ body r => deadBody body && deadBody r

/-- environment after a `pureOnly` block -/
def runPure (I : Nat → List Val → Val) : Blk → Env → Env
  | .pure d op args r, env => runPure I r (upd env d (op.apply I (evalArgs env args)))
  | _, env => env

def substArg (x : Var) (a : Arg) : Arg → Arg
  | .var v => if v = x then a else .var v
  | .cst c => .cst c

/-- `replace_all_uses_with`: every use of `x` becomes `a` -/
def subst (x : Var) (a : Arg) : Blk → Blk
  | .nil => .nil
  | .pure d op args r => .pure d op (args.map (substArg x a)) (subst x a r)
  | .eff id args r => .eff id (args.map (substArg x a)) (subst x a r)
  | .loop iv lb ub st body r =>
      .loop iv (substArg x a lb) (substArg x a ub) (substArg x a st) (subst x a body) (subst x a r)

inductive Err
  | noMatch        -- the pattern returns without rewriting
  | zeroDivision   -- ChangeForStep: `ub // 0`
  | noConstant     -- MoveMemrefDims: RuntimeError("no constant value found")
  | badPath        -- position does not exist in the program
  | sideCond       -- the rewrite matched but the program is not in SSA form around it (never on verified IR)
  deriving DecidableEq, Repr

/-- apply `f` to the block suffix at a position: `[i]` = suffix starting at statement `i`,
`i :: p` = inside the body of the loop that is statement `i`. -/
def applyAt (f : Blk → Except Err Blk) : Blk → List Nat → Except Err Blk
  | _, [] => .error .badPath
  | b, [0] => f b
  | .loop iv lb ub st body r, 0 :: p => (applyAt f body p).map (fun body' => .loop iv lb ub st body' r)
  | .pure d op args r, (n + 1) :: p => (applyAt f r (n :: p)).map (.pure d op args)
  | .eff id args r, (n + 1) :: p => (applyAt f r (n :: p)).map (.eff id args)
  | .loop iv lb ub st body r, (n + 1) :: p => (applyAt f r (n :: p)).map (.loop iv lb ub st body)
  | _, _ => .error .badPath

def getAt : Blk → List Nat → Option Blk
  | _, [] => none
  | b, [0] => some b
  | .loop _ _ _ _ body _, 0 :: p => getAt body p
  | .pure _ _ _ r, (n + 1) :: p => getAt r (n :: p)
  | .eff _ _ r, (n + 1) :: p => getAt r (n :: p)
  | .loop _ _ _ _ _ r, (n + 1) :: p => getAt r (n :: p)
  | _, _ => none

/-! ## `pipeline-canonicalize-for` -/

/-- Python `//` -/
def pyFloorDiv (a b : Int) : Int := Int.fdiv a b

/-- `ChangeForStep`, anchored at the loop. `ceil = true` is the code with fix F03 (`-(-ub // step)`),
`ceil = false` the upstream `ub // step`. `fresh` names the new loop's induction variable; the old name
becomes the result of the inserted `arith.muli step, iv` (equal to the real result up to SSA renaming). -/
def changeStep (ceil : Bool) (fresh : Var) : Blk → Except Err Blk
  | .loop iv (.cst lb) (.cst ub) (.cst st) body rest =>
    if lb ≠ 0 then .error .noMatch
    else if st = 1 then .error .noMatch
    else if st = 0 then .error .zeroDivision
    else if fresh = iv || (allVars body).contains fresh then .error .sideCond
    else
      let n := if ceil then -(pyFloorDiv (-ub) st) else pyFloorDiv ub st
      .ok (.loop fresh (.cst 0) (.cst n) (.cst 1) (.pure iv .mul [.cst st, .var fresh] body) rest)
  | _ => .error .noMatch

/-- the constant step of the anchored loop is positive (scf.for's contract) -/
def positiveStep : Blk → Bool
  | .loop _ _ _ (.cst st) _ _ => decide (0 < st)
  | _ => false

/-- `MergeForLoops`, anchored at the parent loop; `j` = index of the matched (inner) loop in the parent body.
There is no perfect-nest check and no sign check in the code, hence none here (D18, DC17a). -/
def mergeLoops (fresh : Var) (j : Nat) : Blk → Except Err Blk
  | .loop i (.cst lbp) (.cst ubp) (.cst stp) pbody rest =>
    match splitAt j pbody with
    | some (pre, .loop jv (.cst lb) (.cst ub) (.cst st) ibody irest) =>
      if lb ≠ 0 || lbp ≠ 0 || st ≠ 1 || stp ≠ 1 then .error .noMatch
      else if fresh = i || fresh = jv || (allVars pbody).contains fresh then .error .sideCond
      else
        .ok (.loop fresh (.cst 0) (.cst (ub * ubp)) (.cst 1)
              (.pure i .divui [.var fresh, .cst ub]
                (append pre (.pure jv .remui [.var fresh, .cst ub] (append ibody irest)))) rest)
    | _ => .error .noMatch
  | _ => .error .noMatch

/-- the clause under which merging is correct: nothing but value computations beside the inner loop -/
def perfectNestAt (j : Nat) : Blk → Bool
  | .loop _ _ _ _ pbody _ =>
    match splitAt j pbody with
    | some (pre, .loop _ _ _ _ _ irest) => pureOnly pre && pureOnly irest
    | _ => false
  | _ => false

/-- both constant upper bounds are non-negative -/
def nonNegBoundsAt (j : Nat) : Blk → Bool
  | .loop _ _ (.cst ubp) _ pbody _ =>
    match splitAt j pbody with
    | some (_, .loop _ _ (.cst ub) _ _ _) => decide (0 ≤ ub) && decide (0 ≤ ubp)
    | _ => false
  | _ => false

/-! ## `reuse-memref-allocs` -/

/-- `LoopHoistPureOperations`, anchored at the innermost enclosing loop; `j` = index of the matched op in its body;
`bargs` = all block arguments of the function (function arguments and induction variables):
`defined_outside_loop` refuses every operand that is a block argument. -/
def hoist (bargs : List Var) (j : Nat) : Blk → Except Err Blk
  | .loop iv lb ub st body rest =>
    match splitAt j body with
    | some (pre, .pure d op args suf) =>
      if !op.hoistable then .error .noMatch
      else if (argVars args).any (fun v => bargs.contains v || v = iv || (defsTop pre).contains v) then .error .noMatch
      else if d = iv || (allVars pre).contains d || (argVars [lb, ub, st]).contains d || (usesOf rest).contains d
        then .error .sideCond
      else .ok (.pure d op args (.loop iv lb ub st (append pre suf) rest))
    | _ => .error .noMatch
  | _ => .error .noMatch

/-- the greedy driver's dead-code step, anchored at the erased op -/
def dce : Blk → Except Err Blk
  | .pure d op _ rest =>
    if op.dceable && !(usesOf rest).contains d then .ok rest else .error .noMatch
  | .loop _ _ _ _ body rest => if deadBody body then .ok rest else .error .noMatch
  | _ => .error .noMatch

/-! ### `MoveMemrefDims` (whole-program function: it follows def-use chains) -/

def findDef : Blk → Var → Option (OpKind × List Arg)
  | .nil, _ => none
  | .pure d op args r, v => if d = v then some (op, args) else findDef r v
  | .eff _ _ r, v => findDef r v
  | .loop _ _ _ _ body r, v => (findDef body v).orElse (fun _ => findDef r v)

/-- position of the definition of `v` -/
def pathOfDef : Blk → Var → Option (List Nat)
  | .nil, _ => none
  | .pure d _ _ r, v =>
    if d = v then some [0] else (pathOfDef r v).bind (fun p => match p with | n :: q => some ((n + 1) :: q) | [] => none)
  | .eff _ _ r, v => (pathOfDef r v).bind (fun p => match p with | n :: q => some ((n + 1) :: q) | [] => none)
  | .loop _ _ _ _ body r, v =>
    match pathOfDef body v with
    | some p => some (0 :: p)
    | none => (pathOfDef r v).bind (fun p => match p with | n :: q => some ((n + 1) :: q) | [] => none)

/-- `find_parent_for_loop` of a definition: the position of the innermost enclosing loop (`[]` = none) -/
def loopPathOfDef (prog : Blk) (v : Var) : Option (List Nat) := (pathOfDef prog v).map List.dropLast

/-- every use of `d` is an operand of `memref.alloc` / `memref.subview` -/
def usesOnlyAllocSubview (d : Var) : Blk → Bool
  | .nil => true
  | .pure _ op args r =>
    ((match op with | .alloc | .subview _ => true | _ => !(argVars args).contains d)) && usesOnlyAllocSubview d r
  | .eff _ args r => !(argVars args).contains d && usesOnlyAllocSubview d r
  | .loop _ lb ub st body r =>
    !(argVars [lb, ub, st]).contains d && usesOnlyAllocSubview d body && usesOnlyAllocSubview d r

inductive DimSrc
  | newDim (src : Var) (idx : Nat)        -- dim of a block argument: a new memref.dim is created
  | const (c : Int)                       -- static / constant subview size
  | min (m : Var) (alts : List (Int × List Int))   -- size is an affine.min result
  | existing (w : Var)                    -- size is a memref.dim defined under another loop
  deriving Repr

/-- `dimension_outside_loop` + `get_new_dim_op`: `none` = not movable. `here` = loop position of the matched dim. -/
def resolveDim (prog : Blk) (bargs : List Var) (here : List Nat) : Nat → Var → Nat → Option DimSrc
  | 0, _, _ => none
  | fuel + 1, s, idx =>
    match findDef prog s with
    | none => if bargs.contains s then some (.newDim s idx) else none
    | some (.subview rank, args) =>
      if idx < rank then
        match args[idx + 1]? with
        | some (.cst c) => some (.const c)
        | some (.var w) =>
          match findDef prog w with
          | some (.amin alts, _) => some (.min w alts)
          | some (.dim idx2, [.var s2]) =>
            if loopPathOfDef prog w ≠ some here then some (.existing w) else resolveDim prog bargs here fuel s2 idx2
          | _ => none
        | none => none
      else none
    | _ => none

def removeStmt : Blk → Except Err Blk
  | .pure _ _ _ r => .ok r
  | _ => .error .badPath

def altIsConst (alt : Int × List Int) : Bool := alt.2.all (· == 0)

/-- `MoveMemrefDims` on the `memref.dim` at `path`. -/
def moveDim (bargs : List Var) (prog : Blk) (path : List Nat) : Except Err Blk :=
  match getAt prog path with
  | some (.pure d (.dim idx) [.var s] _) =>
    let here := path.dropLast
    if here.isEmpty then .error .noMatch                     -- is_in_loop
    else if !usesOnlyAllocSubview d prog then .error .noMatch
    else
      match resolveDim prog bargs here (path.length + 64) s idx with
      | none => .error .noMatch
      | some (.const c) => applyAt removeStmt (subst d (.cst c) prog) path
      | some (.min m alts) =>
        match alts with
        | alt :: _ =>
          if altIsConst alt then applyAt removeStmt (subst m (.cst alt.1) (subst d (.cst alt.1) prog)) path
          else .error .noConstant
        | [] => .error .noConstant
      | some (.newDim src i) =>
        (applyAt removeStmt prog path).bind (fun p1 => applyAt (fun b => .ok (.pure d (.dim i) [.var src] b)) p1 here)
      | some (.existing w) =>
        (applyAt removeStmt (subst d (.var w) prog) path).bind (fun p1 =>
          match loopPathOfDef prog w, pathOfDef prog w, findDef prog w with
          | some (_ :: _), some pw, some (op, args) =>      -- the existing dim sits in a loop: it is re-inserted before this loop
            (applyAt (fun b => .ok (.pure w op args b)) p1 here).bind (fun p2 => applyAt removeStmt p2 pw)
          | _, _, _ => .ok p1)
  | _ => .error .noMatch

/-- what `MoveMemrefDims` resolves the `memref.dim` at `path` to (`none`: no rewrite) -/
def dimSrcAt (bargs : List Var) (prog : Blk) (path : List Nat) : Option DimSrc :=
  match getAt prog path with
  | some (.pure _ (.dim idx) [.var s] _) => resolveDim prog bargs path.dropLast (path.length + 64) s idx
  | _ => none

/-- clause `NoAffineMinSize`: the size is not the result of an `affine.min` (D24) -/
def noAffineMinSize (bargs : List Var) (prog : Blk) (path : List Nat) : Bool :=
  match dimSrcAt bargs prog path with
  | some (.min _ _) => false
  | _ => true

/-- clause `NoExistingDimMove`: the size is not an existing `memref.dim` that sits in (another) loop (DC17b) -/
def noExistingDimMove (bargs : List Var) (prog : Blk) (path : List Nat) : Bool :=
  match dimSrcAt bargs prog path with
  | some (.existing w) => match loopPathOfDef prog w with | some (_ :: _) => false | _ => true
  | _ => true

/-- all block arguments of a function with `nargs` arguments (named `0 … nargs-1`) -/
def blockArgs (nargs : Nat) (prog : Blk) : List Var := List.range nargs ++ ivsOf prog

def maxVar : List Var → Nat
  | [] => 0
  | v :: r => max v (maxVar r)

/-- a name that occurs nowhere in the program -/
def freshVar (nargs : Nat) (prog : Blk) : Var := max nargs (maxVar (allVars prog)) + 1

end SnaxVerif.Loops
