/-!
# Loop IR for C17 (loop restructuring preserves the executed operation sequence)

Model of the rewrite patterns of
* `snaxc/transforms/pipeline/pipeline_canonicalize_for.py` : `ChangeForStep` (with fix F03: trip count
  `ceil(ub/step)`; the unrepaired `ub // step` is kept behind `ceil := false`), `MergeForLoops`;
* `snaxc/transforms/reuse_memref_allocs.py` : `LoopHoistPureOperations`, `MoveMemrefDims`;
* the greedy driver's "erase trivially dead op" step (`dce`).

A block is a cons-list whose cells carry the operation, so a block *suffix* is again a block and every
rewrite is a function on the suffix that starts at its anchor operation. `arith.constant … : index`
operations are not statements: the converter turns them into literal operands (`Arg.cst`), because the
patterns only ever look through them (`extract_cst_index`) and their placement is unobservable.

Observable behaviour = `trace`: the list of side-effecting operations (`"test.op"`) executed, in order,
with the evaluated operands (an index value, or the shape = list of sizes of a memref operand).
-/
namespace SnaxVerif.Loops

abbrev Var := Nat

inductive Val
  | int (n : Int)
  | mem (shape : List Int)
  deriving DecidableEq, Repr, Inhabited

def Val.toInt : Val → Int
  | .int n => n
  | .mem _ => 0

def Val.shape : Val → List Int
  | .mem s => s
  | .int _ => []

inductive Arg
  | var (v : Var)
  | cst (c : Int)
  deriving DecidableEq, Repr, Inhabited

abbrev Env := Var → Val

def Arg.eval (env : Env) : Arg → Val
  | .var v => env v
  | .cst c => .int c

def evalArgs (env : Env) (args : List Arg) : List Val := args.map (Arg.eval env)

def upd (env : Env) (v : Var) (x : Val) : Env := fun w => if w = v then x else env w

/-- Kinds of value-producing operations. `hoistable` / `dceable` mirror the xDSL traits the patterns test. -/
inductive OpKind
  | mul | add | divui | remui            -- arith (trait Pure)
  | amin (alts : List (Int × List Int))  -- affine.min, each alternative = const + Σ coeff_k * operand_k (no traits)
  | dim (idx : Nat)                      -- memref.dim src, idx   (NoMemoryEffect, not Pure)
  | subview (rank : Nat)                 -- memref.subview: args = src :: sizes(rank) ++ other operands (NoMemoryEffect)
  | alloc                                -- memref.alloc: args = all sizes, static ones as literals (MemoryAllocEffect; whitelisted)
  | opaque (f : Nat)                     -- any other op with trait Pure (test.pureop): uninterpreted function
  | lit (c : Int)                        -- arith.constant of a non-index integer type (Pure; index constants are literals)
  deriving DecidableEq, Repr, Inhabited

/-- `Pure() in op.traits or isinstance(op, memref.AllocOp)` -/
def OpKind.hoistable : OpKind → Bool
  | .mul | .add | .divui | .remui | .opaque _ | .lit _ | .alloc => true
  | _ => false

/-- `is_side_effect_free` (used by the driver's dead-code step) -/
def OpKind.dceable : OpKind → Bool
  | .mul | .add | .divui | .remui | .opaque _ | .lit _ | .dim _ | .subview _ => true
  | _ => false

def dot : List Int → List Int → Int
  | a :: as, b :: bs => a * b + dot as bs
  | _, _ => 0

def linEval (vals : List Int) (alt : Int × List Int) : Int := alt.1 + dot alt.2 vals

def minList : List Int → Int
  | [] => 0
  | x :: xs => xs.foldl min x

def bin (f : Int → Int → Int) : List Val → Val
  | [a, b] => .int (f a.toInt b.toInt)
  | _ => .int 0

/-- value of an operation; `I` interprets the uninterpreted pure operations -/
def OpKind.apply (I : Nat → List Val → Val) : OpKind → List Val → Val
  | .mul, vs => bin (· * ·) vs
  | .add, vs => bin (· + ·) vs
  | .divui, vs => bin (· / ·) vs      -- unsigned division, modelled on non-negative operands
  | .remui, vs => bin (· % ·) vs
  | .amin alts, vs => .int (minList (alts.map (linEval (vs.map Val.toInt))))
  | .dim i, vs => .int ((vs.headD (.int 0)).shape.getD i 0)
  | .subview rank, vs => .mem (((vs.drop 1).take rank).map Val.toInt)
  | .alloc, vs => .mem (vs.map Val.toInt)
  | .opaque f, vs => I f vs
  | .lit c, _ => .int c

inductive Blk
  | nil
  | pure (dst : Var) (op : OpKind) (args : List Arg) (rest : Blk)
  | eff (id : Nat) (args : List Arg) (rest : Blk)
  | loop (iv : Var) (lb ub step : Arg) (body rest : Blk)
  deriving DecidableEq, Repr, Inhabited

structure Event where
  id : Nat
  vals : List Val
  deriving DecidableEq, Repr

/-- trip count of `scf.for lb to ub step st` (st ≤ 0 is outside the dialect's contract: no iterations) -/
def tripCount (lb ub st : Int) : Nat :=
  if st ≤ 0 then 0 else ((ub - lb + st - 1) / st).toNat

def iters (lb ub st : Int) : List Int :=
  (List.range (tripCount lb ub st)).map (fun (k : Nat) => lb + st * (k : Int))

/-- `scf.for` operationally: `i = lb; while i < ub { yield i; i += st }`, at most `fuel` iterations -/
def whileIters (ub st : Int) : Nat → Int → List Int
  | 0, _ => []
  | fuel + 1, i => if i < ub then i :: whileIters ub st fuel (i + st) else []

def trace (I : Nat → List Val → Val) : Blk → Env → List Event
  | .nil, _ => []
  | .pure d op args r, env => trace I r (upd env d (op.apply I (evalArgs env args)))
  | .eff id args r, env => ⟨id, evalArgs env args⟩ :: trace I r env
  | .loop iv lb ub st body r, env =>
      (iters (lb.eval env).toInt (ub.eval env).toInt (st.eval env).toInt).flatMap
          (fun i => trace I body (upd env iv (.int i)))
        ++ trace I r env

/-! ## syntactic helpers -/

def argVars : List Arg → List Var
  | [] => []
  | .var v :: r => v :: argVars r
  | .cst _ :: r => argVars r

def usesOf : Blk → List Var
  | .nil => []
  | .pure _ _ args r => argVars args ++ usesOf r
  | .eff _ args r => argVars args ++ usesOf r
  | .loop _ lb ub st body r => argVars [lb, ub, st] ++ (usesOf body ++ usesOf r)

/-- every defined name (results and induction variables), nested regions included -/
def defsAll : Blk → List Var
  | .nil => []
  | .pure d _ _ r => d :: defsAll r
  | .eff _ _ r => defsAll r
  | .loop iv _ _ _ body r => iv :: (defsAll body ++ defsAll r)

/-- names defined at the top level of the block (what is in scope after it) -/
def defsTop : Blk → List Var
  | .nil => []
  | .pure d _ _ r => d :: defsTop r
  | .eff _ _ r => defsTop r
  | .loop _ _ _ _ _ r => defsTop r

def allVars (b : Blk) : List Var := defsAll b ++ usesOf b

def ivsOf : Blk → List Var
  | .nil => []
  | .pure _ _ _ r => ivsOf r
  | .eff _ _ r => ivsOf r
  | .loop iv _ _ _ body r => iv :: (ivsOf body ++ ivsOf r)

def append : Blk → Blk → Blk
  | .nil, c => c
  | .pure d op args r, c => .pure d op args (append r c)
  | .eff id args r, c => .eff id args (append r c)
  | .loop iv lb ub st body r, c => .loop iv lb ub st body (append r c)

/-- first `n` statements (nil-terminated) and the remaining suffix -/
def splitAt : Nat → Blk → Option (Blk × Blk)
  | 0, b => some (.nil, b)
  | _ + 1, .nil => none
  | n + 1, .pure d op args r => (splitAt n r).map (fun (p, s) => (.pure d op args p, s))
  | n + 1, .eff id args r => (splitAt n r).map (fun (p, s) => (.eff id args p, s))
  | n + 1, .loop iv lb ub st body r => (splitAt n r).map (fun (p, s) => (.loop iv lb ub st body p, s))

/-- only value-producing statements at the top level (no side-effecting op, no loop) -/
def pureOnly : Blk → Bool
  | .nil => true
  | .pure _ _ _ r => pureOnly r
  | _ => false

/-- nothing in the block (nested regions included) has an effect the dead-code step respects -/
def deadBody : Blk → Bool
  | .nil => true
  | .pure _ op _ r => op.dceable && deadBody r
  | .eff _ _ _ => false
  | .loop _ _ _ _ body r => deadBody body && deadBody r

/-- environment after a `pureOnly` block -/
def runPure (I : Nat → List Val → Val) : Blk → Env → Env
  | .pure d op args r, env => runPure I r (upd env d (op.apply I (evalArgs env args)))
  | _, env => env

def substArg (x : Var) (a : Arg) : Arg → Arg
  | .var v => if v = x then a else .var v
  | .cst c => .cst c

/-- `replace_all_uses_with`: every use of `x` becomes `a` -/
def subst (x : Var) (a : Arg) : Blk → Blk
  | .nil => .nil
  | .pure d op args r => .pure d op (args.map (substArg x a)) (subst x a r)
  | .eff id args r => .eff id (args.map (substArg x a)) (subst x a r)
  | .loop iv lb ub st body r =>
      .loop iv (substArg x a lb) (substArg x a ub) (substArg x a st) (subst x a body) (subst x a r)

inductive Err
  | noMatch        -- the pattern returns without rewriting
  | zeroDivision   -- ChangeForStep: `ub // 0`
  | noConstant     -- MoveMemrefDims: RuntimeError("no constant value found")
  | badPath        -- position does not exist in the program
  | sideCond       -- the rewrite matched but the program is not in SSA form around it (never on verified IR)
  deriving DecidableEq, Repr

/-- apply `f` to the block suffix at a position: `[i]` = suffix starting at statement `i`,
`i :: p` = inside the body of the loop that is statement `i`. -/
def applyAt (f : Blk → Except Err Blk) : Blk → List Nat → Except Err Blk
  | _, [] => .error .badPath
  | b, [0] => f b
  | .loop iv lb ub st body r, 0 :: p => (applyAt f body p).map (fun body' => .loop iv lb ub st body' r)
  | .pure d op args r, (n + 1) :: p => (applyAt f r (n :: p)).map (.pure d op args)
  | .eff id args r, (n + 1) :: p => (applyAt f r (n :: p)).map (.eff id args)
  | .loop iv lb ub st body r, (n + 1) :: p => (applyAt f r (n :: p)).map (.loop iv lb ub st body)
  | _, _ => .error .badPath

def getAt : Blk → List Nat → Option Blk
  | _, [] => none
  | b, [0] => some b
  | .loop _ _ _ _ body _, 0 :: p => getAt body p
  | .pure _ _ _ r, (n + 1) :: p => getAt r (n :: p)
  | .eff _ _ r, (n + 1) :: p => getAt r (n :: p)
  | .loop _ _ _ _ _ r, (n + 1) :: p => getAt r (n :: p)
  | _, _ => none

/-! ## `pipeline-canonicalize-for` -/

/-- Python `//` -/
def pyFloorDiv (a b : Int) : Int := Int.fdiv a b

/-- `ChangeForStep`, anchored at the loop. `ceil = true` is the code with fix F03 (`-(-ub // step)`),
`ceil = false` the upstream `ub // step`. `fresh` names the new loop's induction variable; the old name
becomes the result of the inserted `arith.muli step, iv` (equal to the real result up to SSA renaming). -/
def changeStep (ceil : Bool) (fresh : Var) : Blk → Except Err Blk
  | .loop iv (.cst lb) (.cst ub) (.cst st) body rest =>
    if lb ≠ 0 then .error .noMatch
    else if st = 1 then .error .noMatch
    else if st = 0 then .error .zeroDivision
    else if fresh = iv || (allVars body).contains fresh then .error .sideCond
    else
      let n := if ceil then -(pyFloorDiv (-ub) st) else pyFloorDiv ub st
      .ok (.loop fresh (.cst 0) (.cst n) (.cst 1) (.pure iv .mul [.cst st, .var fresh] body) rest)
  | _ => .error .noMatch

/-- the constant step of the anchored loop is positive (scf.for's contract) -/
def positiveStep : Blk → Bool
  | .loop _ _ _ (.cst st) _ _ => decide (0 < st)
  | _ => false

/-- `MergeForLoops`, anchored at the parent loop; `j` = index of the matched (inner) loop in the parent body.
There is no perfect-nest check and no sign check in the code, hence none here (D18, DC17a).
`negGuard = false` is the code as it is; `negGuard = true` is the code with the proposed fix `fixes/FC17a-*.diff`
(`if ub < 0 or ub_parent < 0: return`). -/
def mergeLoops (negGuard : Bool) (fresh : Var) (j : Nat) : Blk → Except Err Blk
  | .loop i (.cst lbp) (.cst ubp) (.cst stp) pbody rest =>
    match splitAt j pbody with
    | some (pre, .loop jv (.cst lb) (.cst ub) (.cst st) ibody irest) =>
      if lb ≠ 0 || lbp ≠ 0 || st ≠ 1 || stp ≠ 1 then .error .noMatch
      else if negGuard && (decide (ub < 0) || decide (ubp < 0)) then .error .noMatch   -- proposed fix FC17a only
      else if fresh = i || fresh = jv || (allVars pbody).contains fresh then .error .sideCond
      else
        .ok (.loop fresh (.cst 0) (.cst (ub * ubp)) (.cst 1)
              (.pure i .divui [.var fresh, .cst ub]
                (append pre (.pure jv .remui [.var fresh, .cst ub] (append ibody irest)))) rest)
    | _ => .error .noMatch
  | _ => .error .noMatch

/-- the clause under which merging is correct: nothing but value computations beside the inner loop -/
def perfectNestAt (j : Nat) : Blk → Bool
  | .loop _ _ _ _ pbody _ =>
    match splitAt j pbody with
    | some (pre, .loop _ _ _ _ _ irest) => pureOnly pre && pureOnly irest
    | _ => false
  | _ => false

/-- both constant upper bounds are non-negative -/
def nonNegBoundsAt (j : Nat) : Blk → Bool
  | .loop _ _ (.cst ubp) _ pbody _ =>
    match splitAt j pbody with
    | some (_, .loop _ _ (.cst ub) _ _ _) => decide (0 ≤ ub) && decide (0 ≤ ubp)
    | _ => false
  | _ => false

/-! ## `reuse-memref-allocs` -/

/-- moving the value computation at index `j` of the loop body in front of the loop; the checks are exactly what the
move needs semantically (operands neither the induction variable nor defined earlier in the body) plus SSA side conditions -/
def hoistCore (j : Nat) : Blk → Except Err Blk
  | .loop iv lb ub st body rest =>
    match splitAt j body with
    | some (pre, .pure d op args suf) =>
      if (argVars args).any (fun v => v = iv || (defsTop pre).contains v) then .error .noMatch
      else if d = iv || (allVars pre).contains d || (argVars [lb, ub, st]).contains d || (usesOf rest).contains d
        then .error .sideCond
      else .ok (.pure d op args (.loop iv lb ub st (append pre suf) rest))
    | _ => .error .noMatch
  | _ => .error .noMatch

/-- the pattern's own guard: `Pure() in op.traits or alloc`, and `defined_outside_loop` (which additionally refuses every
operand that is a block argument) -/
def hoistGuard (bargs : List Var) (j : Nat) : Blk → Bool
  | .loop _ _ _ _ body _ =>
    match splitAt j body with
    | some (_, .pure _ op args _) => op.hoistable && !(argVars args).any (fun v => bargs.contains v)
    | _ => false
  | _ => false

/-- `LoopHoistPureOperations`, anchored at the innermost enclosing loop; `j` = index of the matched op in its body;
`bargs` = all block arguments of the function (function arguments and induction variables). -/
def hoist (bargs : List Var) (j : Nat) (b : Blk) : Except Err Blk :=
  if hoistGuard bargs j b then hoistCore j b else .error .noMatch

/-- the greedy driver's dead-code step, anchored at the erased op -/
def dce : Blk → Except Err Blk
  | .pure d op _ rest =>
    if op.dceable && !(usesOf rest).contains d then .ok rest else .error .noMatch
  | .loop _ _ _ _ body rest => if deadBody body then .ok rest else .error .noMatch
  | _ => .error .noMatch

/-! ### `MoveMemrefDims`

The pattern follows the def-use chain of the matched `memref.dim` upwards. The model does that on the list of
definitions that dominate the matched op (`ctxAlong`, collected on the way from the function entry to the op; it also
checks that the program is in SSA form along that way), so that the chain can be interpreted semantically. -/

/-- a dominating definition `v = op(args)`, with the induction variable of its innermost enclosing loop -/
structure Fact where
  v : Var
  op : OpKind
  args : List Arg
  inLoop : Option Var
  deriving Repr, Inhabited

def factVars : List Fact → List Var
  | [] => []
  | f :: r => f.v :: (argVars f.args ++ factVars r)

/-- the definitions dominating position `p` (in order) and the induction variable of the loop enclosing `p`;
`none` if a name is defined twice / used before its definition on the way (never on verified IR) -/
def ctxAlong : Blk → List Nat → List Fact → Option Var → Option (List Fact × Option Var)
  | _, [], _, _ => none
  | _, [0], acc, cur => some (acc, cur)
  | .loop iv _ _ _ body _, 0 :: p, acc, _ =>
    if (factVars acc).contains iv then none else ctxAlong body p acc (some iv)
  | .pure d op args r, (n + 1) :: p, acc, cur =>
    if (factVars acc).contains d || (argVars args).contains d then none
    else ctxAlong r (n :: p) (acc ++ [⟨d, op, args, cur⟩]) cur
  | .eff _ _ r, (n + 1) :: p, acc, cur => ctxAlong r (n :: p) acc cur
  | .loop _ _ _ _ _ r, (n + 1) :: p, acc, cur => ctxAlong r (n :: p) acc cur
  | _, _, _, _ => none

def lookupFact (fs : List Fact) (v : Var) : Option Fact := fs.find? (fun f => f.v == v)

def findDef : Blk → Var → Option (OpKind × List Arg)
  | .nil, _ => none
  | .pure d op args r, v => if d = v then some (op, args) else findDef r v
  | .eff _ _ r, v => findDef r v
  | .loop _ _ _ _ body r, v => (findDef body v).orElse (fun _ => findDef r v)

/-- position of the definition of `v` -/
def pathOfDef : Blk → Var → Option (List Nat)
  | .nil, _ => none
  | .pure d _ _ r, v =>
    if d = v then some [0] else (pathOfDef r v).bind (fun p => match p with | n :: q => some ((n + 1) :: q) | [] => none)
  | .eff _ _ r, v => (pathOfDef r v).bind (fun p => match p with | n :: q => some ((n + 1) :: q) | [] => none)
  | .loop _ _ _ _ body r, v =>
    match pathOfDef body v with
    | some p => some (0 :: p)
    | none => (pathOfDef r v).bind (fun p => match p with | n :: q => some ((n + 1) :: q) | [] => none)

/-- every use of `d` is an operand of `memref.alloc` / `memref.subview` -/
def usesOnlyAllocSubview (d : Var) : Blk → Bool
  | .nil => true
  | .pure _ op args r =>
    ((match op with | .alloc | .subview _ => true | _ => !(argVars args).contains d)) && usesOnlyAllocSubview d r
  | .eff _ args r => !(argVars args).contains d && usesOnlyAllocSubview d r
  | .loop _ lb ub st body r =>
    !(argVars [lb, ub, st]).contains d && usesOnlyAllocSubview d body && usesOnlyAllocSubview d r

inductive DimSrc
  | newDim (src : Var) (idx : Nat)        -- dim of a block argument: a new memref.dim is created
  | const (c : Int)                       -- static / constant subview size
  | min (m : Var) (alts : List (Int × List Int))   -- size is an affine.min result
  | existing (w : Var) (inLoop : Bool)    -- size is a memref.dim defined under another loop (or under none)
  deriving Repr

/-- `dimension_outside_loop` + `get_new_dim_op`: `none` = not movable. `here` = loop of the matched dim. -/
def resolveDim (fs : List Fact) (bargs : List Var) (here : Option Var) : Nat → Var → Nat → Option DimSrc
  | 0, _, _ => none
  | fuel + 1, s, idx =>
    match lookupFact fs s with
    | none => if bargs.contains s then some (.newDim s idx) else none
    | some ⟨_, .subview rank, args, _⟩ =>
      if idx < rank then
        match args[idx + 1]? with
        | some (.cst c) => some (.const c)
        | some (.var w) =>
          match lookupFact fs w with
          | some ⟨_, .amin alts, _, _⟩ => some (.min w alts)
          | some ⟨_, .dim idx2, [.var s2], lw⟩ =>
            if lw ≠ here then some (.existing w lw.isSome) else resolveDim fs bargs here fuel s2 idx2
          | _ => none
        | none => none
      else none
    | some _ => none

def removeStmt : Blk → Except Err Blk
  | .pure _ _ _ r => .ok r
  | _ => .error .badPath

def altIsConst (alt : Int × List Int) : Bool := alt.2.all (· == 0)

/-- the matched `d = memref.dim s, idx` is erased and every use (all below it: SSA) becomes the operand `a` -/
def replaceDimUses (d : Var) (idx : Nat) (s : Var) (a : Arg) : Blk → Except Err Blk
  | .pure d' (.dim idx') [.var s'] rest =>
    if d' ≠ d || idx' ≠ idx || s' ≠ s then .error .badPath
    else if (defsAll rest).contains d || (argVars [a]).any (fun v => v = d || (defsAll rest).contains v) then .error .sideCond
    else .ok (subst d a rest)
  | _ => .error .badPath

/-- the matched `d = memref.dim s, idx` becomes `d = memref.dim src, i` -/
def replaceDimRhs (d : Var) (idx : Nat) (s : Var) (src : Var) (i : Nat) : Blk → Except Err Blk
  | .pure d' (.dim idx') [.var s'] rest =>
    if d' ≠ d || idx' ≠ idx || s' ≠ s then .error .badPath
    else .ok (.pure d (.dim i) [.var src] rest)
  | _ => .error .badPath

def countOf (v : Var) (l : List Var) : Nat := (l.filter (· == v)).length

/-- `MoveMemrefDims` on the `memref.dim` at `path`.
`keepDom = false` is the code as it is; `keepDom = true` is the code with the proposed fix `fixes/FC17b-*.diff`
(an existing dim that already dominates the loop is used where it is instead of being detached and re-inserted). -/
def moveDim (keepDom : Bool) (bargs : List Var) (prog : Blk) (path : List Nat) : Except Err Blk :=
  match getAt prog path with
  | some (.pure d (.dim idx) [.var s] rest) =>
    match ctxAlong prog path [] none with
    | none => .error .sideCond
    | some (facts, here) =>
      if here.isNone then .error .noMatch                     -- is_in_loop
      else if !usesOnlyAllocSubview d prog then .error .noMatch
      else
        match resolveDim facts bargs here (facts.length + 1) s idx with
        | none => .error .noMatch
        | some r =>
          if countOf d (usesOf prog) ≠ countOf d (usesOf rest) then .error .sideCond    -- uses outside the scope of `d`
          else match r with
          | .const c => applyAt (replaceDimUses d idx s (.cst c)) prog path
          | .min m alts =>
            match alts with
            | alt :: _ =>
              if altIsConst alt then applyAt removeStmt (subst m (.cst alt.1) (subst d (.cst alt.1) prog)) path
              else .error .noConstant
            | [] => .error .noConstant
          | .newDim src i =>
            (applyAt (replaceDimRhs d idx s src i) prog path).bind (fun p1 =>
              applyAt (hoistCore (path.getLastD 0)) p1 path.dropLast)
          | .existing w inLoop =>
            if inLoop && !keepDom then
              -- the existing dim sits in a loop: it is detached and re-inserted in front of this loop (DC17b)
              (applyAt removeStmt (subst d (.var w) prog) path).bind (fun p1 =>
                match pathOfDef prog w, findDef prog w with
                | some pw, some (op, args) =>
                  (applyAt (fun b => .ok (.pure w op args b)) p1 path.dropLast).bind (fun p2 => applyAt removeStmt p2 pw)
                | _, _ => .error .sideCond)
            else applyAt (replaceDimUses d idx s (.var w)) prog path
  | _ => .error .noMatch

/-- what `MoveMemrefDims` resolves the `memref.dim` at `path` to (`none`: no rewrite) -/
def dimSrcAt (bargs : List Var) (prog : Blk) (path : List Nat) : Option DimSrc :=
  match getAt prog path, ctxAlong prog path [] none with
  | some (.pure _ (.dim idx) [.var s] _), some (facts, here) => resolveDim facts bargs here (facts.length + 1) s idx
  | _, _ => none

/-- clause `NoAffineMinSize`: the size is not the result of an `affine.min` (D24) -/
def noAffineMinSize (bargs : List Var) (prog : Blk) (path : List Nat) : Bool :=
  match dimSrcAt bargs prog path with
  | some (.min _ _) => false
  | _ => true

/-- clause `NoExistingDimMove`: the size is not an existing `memref.dim` that sits in (another) loop (DC17b) -/
def noExistingDimMove (bargs : List Var) (prog : Blk) (path : List Nat) : Bool :=
  match dimSrcAt bargs prog path with
  | some (.existing _ true) => false
  | _ => true

/-- all block arguments of a function with `nargs` arguments (named `0 … nargs-1`) -/
def blockArgs (nargs : Nat) (prog : Blk) : List Var := List.range nargs ++ ivsOf prog

def maxVar : List Var → Nat
  | [] => 0
  | v :: r => max v (maxVar r)

/-- a name that occurs nowhere in the program -/
def freshVar (nargs : Nat) (prog : Blk) : Var := max nargs (maxVar (allVars prog)) + 1

/-! ## rewrite sequences (what the greedy driver produces: any rules, any positions, any order, any length) -/

/-- ChangeForStep (F03) on a loop whose constant step is positive -/
def changeStepG (fresh : Var) (b : Blk) : Except Err Blk :=
  if positiveStep b then changeStep true fresh b else .error .noMatch

/-- MergeForLoops under the clauses `PerfectNest` and `NonNegBounds` -/
def mergeLoopsG (negGuard : Bool) (fresh : Var) (j : Nat) (b : Blk) : Except Err Blk :=
  if perfectNestAt j b && nonNegBoundsAt j b then mergeLoops negGuard fresh j b else .error .noMatch

/-- one step of `pipeline-canonicalize-for` inside the clauses, at any position -/
def CanonStep (negGuard : Bool) (p q : Blk) : Prop :=
  ∃ path, (∃ fresh, applyAt (changeStepG fresh) p path = .ok q)
    ∨ (∃ fresh j, applyAt (mergeLoopsG negGuard fresh j) p path = .ok q)
    ∨ applyAt dce p path = .ok q

/-- one step of `reuse-memref-allocs` inside the clauses, at any position (`nargs` = number of function arguments) -/
def ReuseStep (keepDom : Bool) (nargs : Nat) (p q : Blk) : Prop :=
  ∃ path, (∃ j, applyAt (hoist (List.range nargs ++ ivsOf p) j) p path = .ok q)
    ∨ applyAt dce p path = .ok q
    ∨ (moveDim keepDom (List.range nargs ++ ivsOf p) p path = .ok q
        ∧ noAffineMinSize (List.range nargs ++ ivsOf p) p path = true
        ∧ (keepDom = true ∨ noExistingDimMove (List.range nargs ++ ivsOf p) p path = true))

/-- reflexive-transitive closure -/
inductive Star (R : Blk → Blk → Prop) : Blk → Blk → Prop
  | refl (p : Blk) : Star R p p
  | step {p q r : Blk} : R p q → Star R q r → Star R p r

end SnaxVerif.Loops
