/-
Model for property C13 (cross-core dependencies are separated by a cluster barrier).

* `snaxc/transforms/insert_sync_barrier.py` `InsertSyncBarrier.apply`: ONE pre-order walk over the
  module with the flat list `ops_to_sync` ("pending"):
    1. the current op is pending  -> a `snax.cluster_sync_op` is inserted in front of it and the pending
       list is discharged;
    2. the current op is a barrier -> the pending list is discharged;
    3. for every value used or defined by the current op and every user `u` of that value:
         current op is dm      and `u` is not dm      -> `u` pending (+ the yield of the enclosing `scf.for`
         current op is compute and `u` is not compute -> `u` pending   when both are direct children of it)
         `u` is a `memref.dealloc`                    -> `u` pending.
  "discharged" is modelled twice (`fixed : Bool`):
    * `false` = the code at the pinned commit: the list is cleared (defect D5);
    * `true`  = the code with `fixes/F17-sync-barrier-reached-through.diff`: only the operations that are
      reached through the barrier (they live in the barrier's block or nested below one of its operations)
      are removed.
* `snaxc/util/dispatching_rules.py`: the class of an operation (`dm`, `cp` = compute, `all`) is evaluated by
  the real rules and shipped as data.
* the machine: a function is executed by every core; an operation of class `dm`/`cp` only by that core
  (`dispatch_regions.py` wraps exactly those in a core guard), everything else - barriers included - by all.

The IR is a single (non-mutual) inductive: a block is a list of operations in constructor form.
`Leaf` carries what the walk looks at (`id`, `cls`, `vals`, `dealloc`) and what the property looks at
(`reads`, `writes` = buffers, named by the SSA value that allocates them).  No Mathlib import.
-/
namespace SnaxVerif.Cores

/-- who executes an operation (`dispatch_to_dm`, `dispatch_to_compute`, neither) -/
inductive Cls where
  | dm | cp | all
deriving DecidableEq, Repr, Inhabited

structure Leaf where
  id : Nat
  cls : Cls
  /-- SSA values used (operands) or defined (results) -/
  vals : List Nat
  /-- buffers read / written (a buffer is named by the SSA value of its allocation / function argument) -/
  reads : List Nat
  writes : List Nat
  /-- `isinstance(op, memref.DeallocOp)` -/
  dealloc : Bool
deriving DecidableEq, Repr, Inhabited

/-- A block. `ifO l t e r`: `scf.if` (`l` = the op itself: class `all`, its operands/results), then-block,
else-block (`nil` when absent), rest of the enclosing block.  `forO l b ys y r`: `scf.for` with body `b`
followed by its terminator `y` (`scf.yield`); `ys` = a barrier sits directly in front of the yield. -/
inductive Blk where
  | nil
  | leaf (l : Leaf) (r : Blk)
  | sync (r : Blk)
  | ifO (l : Leaf) (t e : Blk) (r : Blk)
  | forO (l : Leaf) (b : Blk) (ys : Bool) (y : Leaf) (r : Blk)
deriving DecidableEq, Repr, Inhabited

/-- every operation of the subtree, pre-order (the order is irrelevant for the walk) -/
def leavesB : Blk → List Leaf
  | .nil => []
  | .leaf l r => l :: leavesB r
  | .sync r => leavesB r
  | .ifO l t e r => l :: (leavesB t ++ (leavesB e ++ leavesB r))
  | .forO l b _ y r => l :: (leavesB b ++ (y :: leavesB r))

def idsB (b : Blk) : List Nat := (leavesB b).map (·.id)

/-- the operations directly in the block (not nested) -/
def kidL : Blk → List Leaf
  | .nil => []
  | .leaf l r => l :: kidL r
  | .sync r => kidL r
  | .ifO l _ _ r => l :: kidL r
  | .forO l _ _ _ r => l :: kidL r

/-- which repairs of `insert_sync_barrier.py` the walk includes:
`orig` = the pinned commit; `f17` = with `fixes/F17-sync-barrier-reached-through.diff`;
`all` = additionally `fixes/FC13a-sync-barrier-common-loop.diff` (the yield of the innermost loop that contains
both operations becomes pending) — `fixes/FC13b-sync-barrier-views.diff` is the parameter `rt` of the walk. -/
inductive Fix where
  | orig | f17 | all
deriving DecidableEq, Repr, Inhabited

/-- What the walk knows about the block it is in. `scope`: ids of all operations in the block or nested
below it (`is_reached_through`); `forKids`: when the block is the body of an `scf.for`, the ids of its
direct children (terminator included) and the id of the terminator (the "same parent, parent is a
ForOp" test of the code without FC13a); `loops`: the enclosing `scf.for` operations, innermost first, each as
(ids of all operations inside the loop, id of its terminator) (`common_loop`, FC13a). -/
structure Ctx where
  scope : List Nat
  forKids : Option (List Nat × Nat)
  loops : List (List Nat × Nat)
deriving Repr, Inhabited

/-- `common_loop`: the terminator of the innermost enclosing loop that also contains operation `uid` -/
def firstLoop : List (List Nat × Nat) → Nat → Option Nat
  | [], _ => none
  | (sc, y) :: rest, uid => if sc.contains uid then some y else firstLoop rest uid

def yieldOf (fx : Fix) (cx : Ctx) (u : Leaf) : List Nat :=
  if fx = Fix.all then
    (match firstLoop cx.loops u.id with
     | some y => [y]
     | none => [])
  else
    match cx.forKids with
    | some (kids, y) => if kids.contains u.id then [y] else []
    | none => []

/-- what one use `u` of a value of the current op `o` appends to `ops_to_sync` -/
def addsFor (fx : Fix) (cx : Ctx) (o u : Leaf) : List Nat :=
  (if o.cls == Cls.dm && u.cls != Cls.dm then u.id :: yieldOf fx cx u else []) ++
  ((if o.cls == Cls.cp && u.cls != Cls.cp then u.id :: yieldOf fx cx u else []) ++
   (if u.dealloc then [u.id] else []))

/-- users of value `v` in the whole function: every operation that uses or defines a value with the same root
(`uses_through_views`, FC13b; `rt = id`: the users of `v` itself) -/
def usersOf (all : List Leaf) (rt : Nat → Nat) (v : Nat) : List Leaf :=
  all.filter (fun u => u.vals.any (fun w => rt w == rt v))

/-- repair FC13c (D30, shipped as an OPEN proposal, not applied): what a later single-core user `u` of a buffer that the
all-cores operation `o` accesses appends -/
def addsGlobal (fx : Fix) (cx : Ctx) (u : Leaf) : List Nat :=
  if u.cls != Cls.all then u.id :: yieldOf fx cx u else []

/-- `eff o.id`: the operand values through which the all-cores operation `o` accesses memory (FC13c: not
side-effect free, no regions, not view-like); `eff = fun _ => []` is the code without FC13c. -/
def adds (fx : Fix) (all : List Leaf) (rt : Nat → Nat) (eff : Nat → List Nat) (cx : Ctx) (o : Leaf) : List Nat :=
  o.vals.flatMap (fun v => (usersOf all rt v).flatMap (addsFor fx cx o)) ++
  (if o.cls == Cls.all then (eff o.id).flatMap (fun v => (usersOf all rt v).flatMap (addsGlobal fx cx)) else [])

/-- the pending list after a barrier in a block with the given scope -/
def discharge (fx : Fix) (scope : List Nat) (P : List Nat) : List Nat :=
  if fx = Fix.orig then [] else P.filter (fun u => !scope.contains u)

/-- visit one operation: (a barrier is inserted in front of it, pending list afterwards) -/
def visit (fx : Fix) (all : List Leaf) (rt : Nat → Nat) (eff : Nat → List Nat) (cx : Ctx) (o : Leaf) (P : List Nat) : Bool × List Nat :=
  ((P.contains o.id),
   (if P.contains o.id then discharge fx cx.scope P else P) ++ adds fx all rt eff cx o)

def withSync (hit : Bool) (b : Blk) : Blk := if hit then .sync b else b

def bodyCtx (cx : Ctx) (b : Blk) (y : Leaf) : Ctx :=
  { scope := idsB b ++ [y.id], forKids := some ((kidL b).map (·.id) ++ [y.id], y.id),
    loops := (idsB b ++ [y.id], y.id) :: cx.loops }

def plainCtx (cx : Ctx) (b : Blk) : Ctx := { scope := idsB b, forKids := none, loops := cx.loops }

def topCtx (p : Blk) : Ctx := { scope := idsB p, forKids := none, loops := [] }

/-- the walk: output block and pending list at the end -/
def walkB (fx : Fix) (all : List Leaf) (rt : Nat → Nat) (eff : Nat → List Nat) (cx : Ctx) : Blk → List Nat → Blk × List Nat
  | .nil, P => (.nil, P)
  | .leaf l r, P =>
    let w := walkB fx all rt eff cx r (visit fx all rt eff cx l P).2
    (withSync (visit fx all rt eff cx l P).1 (.leaf l w.1), w.2)
  | .sync r, P =>
    let w := walkB fx all rt eff cx r (discharge fx cx.scope P)
    (.sync w.1, w.2)
  | .ifO l t e r, P =>
    let wt := walkB fx all rt eff (plainCtx cx t) t (visit fx all rt eff cx l P).2
    let we := walkB fx all rt eff (plainCtx cx e) e wt.2
    let w := walkB fx all rt eff cx r we.2
    (withSync (visit fx all rt eff cx l P).1 (.ifO l wt.1 we.1 w.1), w.2)
  | .forO l b ys y r, P =>
    let wb := walkB fx all rt eff (bodyCtx cx b y) b (visit fx all rt eff cx l P).2
    let P2 := if ys then discharge fx (bodyCtx cx b y).scope wb.2 else wb.2
    let vy := visit fx all rt eff (bodyCtx cx b y) y P2
    let w := walkB fx all rt eff cx r vy.2
    (withSync (visit fx all rt eff cx l P).1 (.forO l wb.1 (ys || vy.1) y w.1), w.2)

/-- `insert-sync-barrier` on a function body; `rt` maps an SSA value to the value it is a view of (root) -/
def insertBarriers (fx : Fix) (rt : Nat → Nat) (eff : Nat → List Nat) (p : Blk) : Blk :=
  (walkB fx (leavesB p) rt eff (topCtx p) p []).1

/-- The pass on a MODULE: `InsertSyncBarrier.apply` is one walk over all functions, and the list `ops_to_sync`
survives from one function to the next. The users of a value are operations of the same function (SSA values are
function-local), hence the per-function table `leavesB f`. -/
def walkModule (fx : Fix) (rt : Nat → Nat) (eff : Nat → List Nat) : List Blk → List Nat → List Blk
  | [], _ => []
  | f :: fs, P =>
    (walkB fx (leavesB f) rt eff (topCtx f) f P).1 ::
      walkModule fx rt eff fs (walkB fx (leavesB f) rt eff (topCtx f) f P).2

/-- root of a value under a list of (view result, source) pairs -/
def rootOf (views : List (Nat × Nat)) : Nat → Nat → Nat
  | 0, v => v
  | n + 1, v => match views.lookup v with
    | some src => rootOf views n src
    | none => v

/-! ## Executions -/

inductive Ev where
  | op (l : Leaf)
  | sync
deriving DecidableEq, Repr, Inhabited

/-- concatenation of any number of traces taken from `S` -/
inductive Star (S : List Ev → Prop) : List Ev → Prop where
  | nil : Star S []
  | cons {a b : List Ev} : S a → Star S b → Star S (a ++ b)

def ySync (ys : Bool) : List Ev := if ys then [Ev.sync] else []

/-- `Run b t`: `t` is the sequence of operations executed by one path through `b`
(every branch outcome, every trip count). -/
def Run : Blk → List Ev → Prop
  | .nil, t => t = []
  | .leaf l r, t => ∃ t', Run r t' ∧ t = Ev.op l :: t'
  | .sync r, t => ∃ t', Run r t' ∧ t = Ev.sync :: t'
  | .ifO l a b r, t => ∃ t1 t2, (Run a t1 ∨ Run b t1) ∧ Run r t2 ∧ t = Ev.op l :: (t1 ++ t2)
  | .forO l b ys y r, t => ∃ t1 t2,
      Star (fun s => ∃ s', Run b s' ∧ s = s' ++ (ySync ys ++ [Ev.op y])) t1 ∧ Run r t2 ∧
      t = Ev.op l :: (t1 ++ t2)

/-- the two operations run on different core sets and touch a common buffer, one of them writing -/
def Conflict (a b : Leaf) : Prop :=
  a.cls ≠ b.cls ∧ ∃ x, (x ∈ a.writes ∧ (x ∈ b.reads ∨ x ∈ b.writes)) ∨ (x ∈ a.reads ∧ x ∈ b.writes)

/-- every conflicting pair of an execution has a barrier in between -/
def Separated (t : List Ev) : Prop :=
  ∀ a m c e1 e2, t = a ++ Ev.op e1 :: (m ++ Ev.op e2 :: c) → Conflict e1 e2 → Ev.sync ∈ m

/-! ## `snax-to-func`: the lowering of the barriers

`snaxc/transforms/snax_to_func.py`: every `snax.cluster_sync_op` is replaced, in place, by one
`func.call @snax_cluster_hw_barrier` (in the model the barrier stays the constructor `sync`: the harness maps the
call back to it) and every `memref.dealloc` is erased; nothing else changes. -/

/-- the pass on a block: `memref.dealloc` leaves disappear, every barrier stays where it is -/
def lowerB : Blk → Blk
  | .nil => .nil
  | .leaf l r => if l.dealloc then lowerB r else .leaf l (lowerB r)
  | .sync r => .sync (lowerB r)
  | .ifO l t e r => .ifO l (lowerB t) (lowerB e) (lowerB r)
  | .forO l b ys y r => .forO l (lowerB b) ys y (lowerB r)

/-- an event of the lowered code: barriers and every operation that is not a dealloc -/
def keptEv : Ev → Bool
  | .sync => true
  | .op l => !l.dealloc

/-- what an execution looks like after the lowering -/
def lowerT (t : List Ev) : List Ev := t.filter keptEv

/-- `scf.if`, `scf.for` and loop terminators are not deallocs (true of any IR) -/
def CompoundKept : Blk → Prop
  | .nil => True
  | .leaf _ r => CompoundKept r
  | .sync r => CompoundKept r
  | .ifO l t e r => l.dealloc = false ∧ CompoundKept t ∧ CompoundKept e ∧ CompoundKept r
  | .forO l b _ y r => l.dealloc = false ∧ y.dealloc = false ∧ CompoundKept b ∧ CompoundKept r

end SnaxVerif.Cores
