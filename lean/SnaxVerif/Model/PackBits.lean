/-
Model of `pack_bitlist` (snaxc/util/pack_bitlist.py): the tree of `arith.shli` / `arith.ori`
operations it emits, and what that tree computes.

A value/offset is a natural number: the concrete content of the SSA value or Python int that is passed
(a negative Python int `v` reaches the hardware as `v mod 2^dtype`; that conversion is done by the
harness before the model is asked). `eval` is the value over unbounded naturals, `evalW w` the value
computed by `w`-bit `arith` operations (results truncated to `w` bits). A shift amount `>= w` is
poison for `arith.shli`; `evalW` then answers `0` (all bits shifted out) and the generator of the
correspondence check never produces such an offset.

No Mathlib import: this file is linked into the driver executable.
-/
namespace SnaxVerif
namespace Pack

/-- The emitted expression tree: `shl v o` is `arith.shli(value, offset)`, `or` is `arith.ori`. -/
inductive Tree where
  | shl (v o : Nat)
  | or (a b : Tree)
deriving DecidableEq, Repr, Inhabited

def Tree.eval : Tree → Nat
  | .shl v o => v <<< o
  | .or a b => a.eval ||| b.eval

/-- `w`-bit machine arithmetic: constants are `w`-bit, `shli` drops the bits shifted out. -/
def Tree.evalW (w : Nat) : Tree → Nat
  | .shl v o => ((v % 2 ^ w) <<< o) % 2 ^ w
  | .or a b => a.evalW w ||| b.evalW w

/-- number of `arith.ori` operations -/
def Tree.ors : Tree → Nat
  | .shl _ _ => 0
  | .or a b => a.ors + b.ors + 1

/-- depth of the `ori` tree -/
def Tree.depth : Tree → Nat
  | .shl _ _ => 0
  | .or a b => max a.depth b.depth + 1

/-- `for int_val, int_off in zip(values, offsets, strict=True)`; `none` = `ValueError` of strict zip. -/
def shifted : List Nat → List Nat → Option (List Tree)
  | [], [] => some []
  | v :: vs, o :: os => (shifted vs os).map (Tree.shl v o :: ·)
  | _, _ => none

/-- `while len(shifted_vals) > 1: a, b, *rest = shifted_vals; shifted_vals = [*rest, a | b]`
(one unit of fuel per iteration; `l.length` is always enough). -/
def orLoop : Nat → List Tree → List Tree
  | n + 1, a :: b :: rest => orLoop n (rest ++ [Tree.or a b])
  | _, l => l

inductive Err where
  | lengthMismatch        -- ValueError: zip() argument 2 is longer/shorter than argument 1
deriving DecidableEq, Repr

/-- `pack_bitlist(values, offsets)`: the tree behind the last emitted op (`none`: nothing is emitted
for empty lists). -/
def pack (vs os : List Nat) : Except Err (Option Tree) :=
  match shifted vs os with
  | none => .error .lengthMismatch
  | some l => .ok (orLoop l.length l).head?

/-- The specification: OR of all shifted values. -/
def spec (vs os : List Nat) : Nat := (List.zipWith (· <<< ·) vs os).foldl (· ||| ·) 0

/-- A bit field: value, offset, width. -/
structure Field where
  v : Nat
  o : Nat
  w : Nat

/-- pairwise disjoint bit ranges -/
def Disjoint (fs : List Field) : Prop :=
  ∀ (i j : Nat) (hi : i < fs.length) (hj : j < fs.length), i ≠ j →
    fs[i].o + fs[i].w ≤ fs[j].o ∨ fs[j].o + fs[j].w ≤ fs[i].o

/-- every value fits its width -/
def InRange (fs : List Field) : Prop := ∀ f ∈ fs, f.v < 2 ^ f.w


end Pack
end SnaxVerif
