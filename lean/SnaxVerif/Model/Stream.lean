import SnaxVerif.Model.Affine
import SnaxVerif.Model.StridePattern
/-!
Model of the two passes that turn a scheduled operation into SNAX streamer configurations (C02):

* `dart-layout-resolution` (`snaxc/transforms/dart/dart_layout_resolution.py`, `LayoutResolution`): the
  "unit response" stride extraction from the composed map  layout-in-bytes ∘ schedule pattern  (`resolve`);
* `convert-dart-to-snax-stream` (`snaxc/transforms/convert_dart_to_snax_stream.py`,
  `ConvertStreamToSnaxStreamPattern`): relevant-dimension filter, the three cases of the first stride
  (`= 8`, `< 8` with only a warning, `> 8`), the spatial fill-up with `applied_stride/applied_bound`, the
  broadcast escape, the remaining temporal strides and all error paths (`toStridePattern`);
* the accelerator-specific `set_stride_patterns` customisations as list manipulations (`customize`; no theorem
  is claimed about them) followed by `StridePattern.canonicalize` (model of C19, `Model/StridePattern.lean`);
* the two semantics that the property compares: `hwStream` (the documented SNAX streamer address generator:
  `addr = Σ t_i·ts_i + Σ p_j·ss_j`, one 8-byte word per port, as BYTE offsets relative to the base pointer) and
  `schedStream` (the bytes of the elements that the access pattern assigns to each temporal step).

The model mirrors the code as it is. The code performs three silent, possibly lossy steps; the model performs
them too and records them in GHOST flags (`warned`, `inexact`, `bcast`) that the theorems use as clauses:
`warned` is the `warnings.warn` of the `< 8` path (observable, compared with the real code), `bcast` is set when the
broadcast escape forced a stride to 0. `inexact` (a `//` with a remainder) is kept for the statements of the theorems but
can no longer be set: with fix FC02a the code raises instead (`toStridePattern_exact`).

A loop is `(bound, stride)` (`Stride.Loop`), loop lists are INNERMOST FIRST (the order in which the code
consumes `access_iter` and the order of `upper_bounds/temporal_strides`).
No Mathlib import: this file is linked into the driver executable.
-/
namespace SnaxVerif.Stream
open SnaxVerif SnaxVerif.Stride

inductive Err where
  | stopIteration | assertionError | runtimeError | notImplemented | zeroDivision
deriving DecidableEq, Repr, Inhabited

/-- `TCDM_BANK_WIDTH` -/
def bank : Nat := 8

/-! ## Layout resolution -/

def dotI : List Int → List Int → Int
  | a :: as, x :: xs => a * x + dotI as xs
  | _, _ => 0

/-- the schedule pattern `x ↦ A·x + b` (one row of `A` and one entry of `b` per operand dimension) -/
def patEval (A : List (List Int)) (b : List Int) (x : List Int) : List Int :=
  (A.zip b).map fun rb => dotI rb.1 x + rb.2

def envOf (l : List Int) : Nat → Int := fun i => l.getD i 0

/-- `access_mem_map.eval(x, ())[0]` where `access_mem_map = data_mem_map.compose(access_data_map)`:
    the byte address (relative to the aligned pointer) of the element that iteration `x` touches.
    `none` = division by zero inside the layout expression. -/
def accessEval (L : AExpr) (A : List (List Int)) (b : List Int) (x : List Int) : Option Int :=
  L.eval (envOf (patEval A b x))

/-- `generate_one_list(n, i)` -/
def unitVec (n i : Nat) : List Int := (List.range n).map fun j => if j = i then 1 else 0

/-- the `strides` list of `LayoutResolution.match_and_rewrite`: the value of the composed map at every unit
    vector (NOT the difference to the value at the origin) -/
def resolve (L : AExpr) (A : List (List Int)) (b : List Int) (n : Nat) : Option (List Int) :=
  (List.range n).mapM fun i => accessEval L A b (unitVec n i)

/-! ## Conversion to a stride pattern -/

/-- `access_iter`: `(stride, bound)` of the relevant dimensions, innermost (last) dimension first -/
def accessIter (strides : List Int) (bounds : List Nat) (relevant : List Bool) : List Loop :=
  ((((bounds.zip strides).zip relevant).filter fun x => x.2).map fun x => x.1).reverse

/-- the result of the conversion of one operand, with the ghost flags -/
structure Res where
  pat : Pattern
  warned : Bool      -- the `stride * bound < TCDM_BANK_WIDTH` warning was issued
  inexact : Bool     -- some `//` of the code had a non-zero remainder
  bcast : Bool       -- the broadcast escape forced a stride to 0
deriving DecidableEq, Repr, Inhabited

/-- state of the iteration: the current `(stride, bound)` (or `(None, None)`) and the rest of the iterator -/
structure St where
  cur : Option Loop
  rest : List Loop
  inexact : Bool
  bcast : Bool
deriving DecidableEq, Repr, Inhabited

/-- `next(access_iter, (None, None))` -/
def nextOpt (rest : List Loop) : Option Loop × List Loop :=
  match rest with
  | [] => (none, [])
  | x :: r => (some x, r)

/-- "Fetch the first stride" and the three `TCDM_BANK_WIDTH` cases -/
def first (it : List Loop) : Except Err (St × Bool) :=
  match it with
  | [] => .error .stopIteration
  | (b, s) :: rest =>
    if s * (b : Int) = 8 then
      match rest with
      | [] => .error .stopIteration
      | x :: r => .ok (⟨some x, r, false, false⟩, false)
    else if s * (b : Int) < 8 then
      match rest with
      | [] => .error .stopIteration
      | x :: r => .ok (⟨some x, r, false, false⟩, true)
    else
      let tot := (s * (b : Int)).toNat
      -- fix FC02a: `if (stride * bound) % TCDM_BANK_WIDTH != 0: raise RuntimeError` (was a silent `//`, finding DC02b)
      if tot % bank ≠ 0 then .error .runtimeError
      else .ok (⟨some (tot / bank, 8), rest, false, false⟩, false)

/-- one iteration of `for spat_size in streamers[operand].spatial_dims`; returns the appended spatial stride -/
def spatialStep (bc : Bool) (st : St) (spat : Nat) : Except Err (Int × St) :=
  match st.cur with
  | none => .error .assertionError                      -- `assert stride is not None`
  | some (b, s) =>
    if b = spat then
      .ok (s, ⟨(nextOpt st.rest).1, (nextOpt st.rest).2, st.inexact, st.bcast⟩)
    else if b < spat then
      if b = 0 then .error .zeroDivision                -- `spat_size % bound`
      else if spat % b ≠ 0 then .error .assertionError  -- `assert spat_size % bound == 0`
      else
        match st.rest with
        | [] => .error .stopIteration                   -- `next(access_iter)` without default
        | (nb, ns) :: r =>
          let ab := spat / b
          -- fix FC02a: `if next_bound % applied_bound != 0: raise RuntimeError` (was a silent `//`, finding DC02b)
          if nb % ab ≠ 0 then .error .runtimeError
          else if s * (b : Int) ≠ ns then
            if ns = 0 ∧ bc = true then
              .ok (s, ⟨some (nb / ab, 0), r, st.inexact, true⟩)
            else .error .runtimeError
          else
            .ok (s, ⟨some (nb / ab, s * (b : Int) * (ab : Int)), r, st.inexact, st.bcast⟩)
    else .error .notImplemented

/-- the loop over the spatial dimensions of the streamer -/
def spatialLoop (bc : Bool) : St → List Nat → Except Err (List Int × St)
  | st, [] => .ok ([], st)
  | st, d :: ds =>
    match spatialStep bc st d with
    | .error e => .error e
    | .ok (s, st') =>
      match spatialLoop bc st' ds with
      | .error e => .error e
      | .ok (ss, st'') => .ok (s :: ss, st'')

/-- "remaining are temporal strides" -/
def temporal (st : St) : List Loop :=
  match st.cur with
  | none => []
  | some x => x :: st.rest

/-- the conversion of one operand: `it` = `access_iter` as a list, `dims` = `streamer.spatial_dims`,
    `bc` = the streamer has the `HasBroadcast` option -/
def toStridePattern (it : List Loop) (dims : List Nat) (bc : Bool) : Except Err Res :=
  match first it with
  | .error e => .error e
  | .ok (st, w) =>
    match spatialLoop bc st dims with
    | .error e => .error e
    | .ok (ss, st') =>
      let t := temporal st'
      .ok ⟨{ ub := t.map (·.1), ts := t.map (·.2), ss := ss }, w, st'.inexact, st'.bcast⟩

/-- fix FC02a, first half (was the silent half of finding D29): the innermost relevant dimension is taken for a
    contiguous run of elements, so unless the `< 8` warning path is taken its stride has to be the element width
    (`el` = size in bytes of the operand's stream element type). -/
def contiguousInner (el : Nat) (it : List Loop) : Bool :=
  match it with
  | [] => true
  | (b, s) :: _ => decide (s * (b : Int) < 8) || decide (s = (el : Int))

/-- the conversion of one operand as the code does it now: the contiguity check sits right after
    "Fetch the first stride", in front of everything else -/
def toStridePatternEl (el : Nat) (it : List Loop) (dims : List Nat) (bc : Bool) : Except Err Res :=
  if contiguousInner el it then toStridePattern it dims bc else .error .runtimeError

/-! ## Accelerator-specific `set_stride_patterns` (tables; correspondence and oracle only) -/

inductive Variant where
  | generic                                   -- `SNAXStreamer.set_stride_patterns`: identity (snax_alu)
  | gemmx (out32 : Bool) (ser : Nat) (sd : Nat) -- output stream i32 / i8, `serializer_ratio`, `streamers[2].spatial_dims[-1]`
  | gemmxOther                                -- output stream neither i8 nor i32
  | xdmaAdd                                   -- `AddExtension.set_stride_patterns`
deriving DecidableEq, Repr, Inhabited

def emptyPat : Pattern := { ub := [0, 0, 0], ts := [0, 0, 0], ss := [0] }
def emptyPat2 : Pattern := { ub := [0, 0, 0], ts := [0, 0, 0], ss := [0, 0] }

def insertAt {α} (l : List α) (i : Nat) (x : α) : List α := l.take i ++ x :: l.drop i

def customize (v : Variant) (ps : List Pattern) : Except Err (List Pattern) :=
  match v with
  | .generic => .ok ps
  | .xdmaAdd =>
    match ps.head?, ps.getLast? with
    | some p, some q => .ok [{ ub := 2 :: p.ub, ts := 512 :: p.ts, ss := p.ss }, q]
    | _, _ => .error .assertionError     -- IndexError in the code; never reached (3 operands)
  | .gemmxOther =>
    if ps.length = 4 then .error .runtimeError else
    if ps.length = 3 then .ok ps else .error .notImplemented   -- unreachable: get_streamers raises first
  | .gemmx out32 ser sd =>
    match ps with
    | [a, b, d] =>
      if out32 then .ok [a, b, emptyPat, d, d]
      else .ok [a, b, d, { ub := d.ub ++ [ser], ts := d.ts ++ [0], ss := [8 * (sd : Int), 8] }, emptyPat2]
    | [a, b, c, d] =>
      if out32 then .ok [a, b, emptyPat, c, d]
      else .ok [a, b, d, c, emptyPat2]
    | [x, y] =>
      let z : Pattern := { ub := x.ub, ts := x.ub.map fun _ => 0, ss := [8] }
      -- "make last spatial stride patterns 2d": the last two patterns get `spatial_strides = [8, 64]`
      .ok [z, z, y, { x with ss := [8, 64] }, { emptyPat with ss := [8, 64] }]
    | _ => .error .notImplemented         -- other operand counts: IndexError / never produced

/-- position, in the list returned by `set_stride_patterns` (= one pattern per streamer of the accelerator), of the
    pattern that serves operand `i` of an op with `nops` operands (specification side; the harness uses the same table
    to pick the pattern the oracle judges) -/
def dataIndex (v : Variant) (nops i : Nat) : Nat :=
  match v with
  | .gemmx out32 _ _ =>
    if nops = 3 then (if out32 then [0, 1, 4] else [0, 1, 2]).getD i 0
    else if nops = 4 then (if out32 then [0, 1, 3, 4] else [0, 1, 3, 2]).getD i 0
    else [3, 2].getD i 0
  | .xdmaAdd => [0, 0, 1].getD i 0
  | _ => i

/-- `SNAXGEMMXAccelerator.get_streamers(op)`: which streamers of the configuration (A, B, D8, C, D32 = 0..4) serve the
    operands of an op with `nops` patterns whose last stream has an `outBits`-bit integer element type -/
def gemmxStreamers (nops outBits : Nat) : Except Err (List Nat) :=
  if nops = 3 then
    if outBits = 32 then .ok [0, 1, 4] else if outBits = 8 then .ok [0, 1, 2] else .error .notImplemented
  else if nops = 4 then
    if outBits = 32 then .ok [0, 1, 3, 4] else if outBits = 8 then .ok [0, 1, 3, 2] else .error .notImplemented
  else .ok [3, 2]

/-- `AddExtension.get_streamers`: both inputs on the reader, the output on the writer -/
def xdmaAddStreamers : List Nat := [0, 0, 1]

/-- the stride patterns of the final `snax_stream.streaming_region` -/
def finalPatterns (v : Variant) (ps : List Pattern) : Except Err (List Pattern) :=
  (customize v ps).map fun l => l.map Pattern.canonicalize

/-- `StreamingRegionOp.verify_` (with `StridePattern.verify`): one pattern per streamer of the accelerator, not more
    temporal / spatial strides than the streamer has dimensions. `streamers` = `(temporal_dim, spatial_dim)` each. -/
def verifyRegion (streamers : List (Nat × Nat)) (ps : List Pattern) : Bool :=
  ps.length == streamers.length &&
    (ps.zip streamers).all fun x => x.1.verify && decide (x.1.ts.length ≤ x.2.1) && decide (x.1.ss.length ≤ x.2.2)

/-! ## The two semantics -/

/-- the spatial loops of a streamer with a given pattern: port `p_j < dims_j` adds `p_j · ss_j`
    (Python `zip`: extra entries on either side are ignored) -/
def spatialLoops (dims : List Nat) (ss : List Int) : List Loop := dims.zip ss

/-- byte-level loop nest of the hardware: 8 bytes per word, the ports, the temporal loops -/
def hwLoops (dims : List Nat) (p : Pattern) : List Loop :=
  (bank, 1) :: (spatialLoops dims p.ss ++ p.loops)

/-- per temporal step (in execution order) the byte offsets of all ports, port 0 first, 8 bytes per port -/
def hwStream (dims : List Nat) (p : Pattern) : List (List Int) :=
  (offs p.loops).map fun base => (offs ((bank, 1) :: spatialLoops dims p.ss)).map fun x => base + x

/-- byte-level loop nest of the schedule: `el` bytes per element, then the access loops -/
def schedLoops (el : Nat) (it : List Loop) : List Loop := (el, 1) :: it

/-- per schedule step (the loops `it.drop k` = everything outside the `k` innermost relevant loops, which are
    the relevant spatial dimensions of the template) the bytes of all elements of that step -/
def schedStream (el : Nat) (it : List Loop) (k : Nat) : List (List Int) :=
  (offs (it.drop k)).map fun base => (offs ((el, 1) :: it.take k)).map fun x => base + x

/-- product of the bounds of a loop list -/
def prodBounds : List Loop → Nat
  | [] => 1
  | (b, _) :: r => b * prodBounds r

/-- innermost relevant stride equals the element width (the data of one step is contiguous inside a bank) -/
def innerStride (it : List Loop) : Option Int := it.head?.map (·.2)

/-! ## The iteration box (specification side) -/

/-- all index vectors of a box in schedule order (row-major: first dimension outermost, last index fastest) -/
def points : List Nat → List (List Nat)
  | [] => [[]]
  | b :: bs => (List.range b).flatMap fun i => (points bs).map (i :: ·)

/-- `Σ strides_i · x_i` for a point of the box -/
def dotN : List Int → List Nat → Int
  | s :: ss, x :: xs => s * (x : Int) + dotN ss xs
  | _, _ => 0

/-- `access_iter` when every dimension is relevant -/
def boxLoops (bounds : List Nat) (strides : List Int) : List Loop := (bounds.zip strides).reverse

/-- the `el` bytes of the element at byte address `a` -/
def elemBytes (el : Nat) (a : Int) : List Int := (List.range el).map fun (k : Nat) => a + (k : Int)

end SnaxVerif.Stream
