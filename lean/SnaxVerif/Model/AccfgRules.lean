import SnaxVerif.Model.Accfg
/-
The rewrite patterns of `snaxc/transforms/accfg_dedup.py` (with fixes F1, F7) as functions on the
erased accfg program, addressed by the position of the matched op.

A position is `[i₀, r₁, i₁, …, iₙ]`: statement i₀ of the function body, region r₁ of it (scf.if: 0 =
then, 1 = else; scf.for: 0 = body), statement i₁ of that block, …  The greedy driver's order is not
modelled: the harness replays every real rewrite step through `applyRule` and compares.
-/
namespace SnaxVerif.Accfg

/-- block utilities -/
def Block.toList : Block → List Stmt
  | .nil => []
  | .cons s r => s :: r.toList
def Block.ofList : List Stmt → Block
  | [] => .nil
  | s :: r => .cons s (Block.ofList r)
def Block.append : Block → Block → Block
  | .nil, c => c
  | .cons s r, c => .cons s (r.append c)

/-- facts after the first `n` statements of a block -/
def knownPrefix : Nat → Block → Facts → Facts
  | 0, _, F => F
  | _, .nil, F => F
  | n+1, .cons s r, F => knownPrefix n r (knownS s F)

/- Apply `rw` to the block that contains the addressed statement: `rw F b i` gets the facts `F` at the
start of that block, the whole block `b` and the index `i` of the statement in it. -/
mutual
def rewriteS (rw : Facts → Block → Nat → Option Block) : Nat → List Nat → Stmt → Facts → Option Stmt
  | k, p, .ifS c t e, F =>
      if k = 0 then (rewriteB rw p t F).map fun t' => .ifS c t' e
      else if k = 1 then (rewriteB rw p e F).map fun e' => .ifS c t e'
      else none
  | k, p, .forS lb ub st iv b, F =>
      if k = 0 then (rewriteB rw p b (headFacts b F)).map fun b' => .forS lb ub st iv b' else none
  | _, _, _, _ => none
def rewriteB (rw : Facts → Block → Nat → Option Block) : List Nat → Block → Facts → Option Block
  | [i], b, F => rw F b i
  | 0 :: k :: p, .cons s r, F => (rewriteS rw k p s F).map fun s' => .cons s' r
  | (i+1) :: k :: p, .cons s r, F => (rewriteB rw (i :: k :: p) r (knownS s F)).map fun r' => .cons s r'
  | _, _, _ => none
end

/- side-effect freeness as xDSL's `is_side_effect_free` decides it for the ops of the model -/
mutual
def sefS : Stmt → Bool
  | .pure _ _ _ => true
  | .ifS _ t e => sefB t && sefB e
  | .forS _ _ _ _ b => sefB b
  | _ => false
def sefB : Block → Bool
  | .nil => true
  | .cons s r => sefS s && sefB r
end

/-! ### SimplifyRedundantSetupCalls -/

/-- keep the fields whose assumed previous value differs -/
def dropKnown (F : Facts) (a : AccId) (fs : List (Field × Var)) : List (Field × Var) :=
  fs.filter (fun p => F a p.1 != some p.2)

def simplifyRw (F : Facts) : Block → Nat → Option Block
  | .cons s r, 0 =>
      match s with
      | .setup a fs =>
        let fs' := dropKnown F a fs
        if fs'.length = fs.length then none else some (.cons (.setup a fs') r)
      | _ => none
  | .cons s r, i+1 => (simplifyRw (knownS s F) r i).map fun r' => .cons s r'
  | .nil, _ => none

/-! ### MergeSetupOps -/

/-- Python: `state = dict(prev.iter_params()); state.update(dict(op.iter_params()))` (insertion order) -/
def mergeFields (fs1 fs2 : List (Field × Var)) : List (Field × Var) :=
  fs1.map (fun p => (p.1, (fs2.lookup p.1).getD p.2)) ++
    fs2.filter (fun p => !(fs1.map (·.1)).contains p.1)

/-- `front` = the statements between the candidate previous setup and the matched op, reversed walk:
the block is scanned forwards keeping the most recent same-accelerator setup that is followed only by
side-effect-free statements. `pre` (reversed) are the statements before that setup, `mid` (reversed)
the ones after it. -/
def mergeScan (a : AccId) : List Stmt → Nat → (Option (List Stmt × List (Field × Var))) → List Stmt →
    List Stmt → Option (List Stmt × List (Field × Var) × List Stmt × List (Field × Var) × List Stmt)
  -- args: remaining statements, index of the target, current candidate (pre reversed, its fields),
  --       mid reversed, everything seen so far reversed
  | .setup a' fs2 :: rest, 0, some (pre, fs1), mid, _ =>
      if a' = a then some (pre.reverse, fs1, mid.reverse, fs2, rest) else none
  | _, 0, _, _, _ => none
  | s :: rest, i+1, cand, mid, seen =>
      match s with
      | .setup a' fs =>
          if a' = a then mergeScan a rest i (some (seen, fs)) [] (s :: seen)
          else mergeScan a rest i none [] (s :: seen)          -- a setup has side effects: abort the walk
      | _ =>
          if sefS s then mergeScan a rest i cand (s :: mid) (s :: seen)
          else mergeScan a rest i none [] (s :: seen)
  | [], _, _, _, _ => none

def targetAcc : List Stmt → Nat → Option AccId
  | .setup a _ :: _, 0 => some a
  | _ :: r, i+1 => targetAcc r i
  | _, _ => none

def mergeRw (_F : Facts) (b : Block) (i : Nat) : Option Block :=
  match targetAcc b.toList i with
  | none => none
  | some a =>
    match mergeScan a b.toList i none [] [] with
    | some (pre, fs1, mid, fs2, rest) =>
        some (Block.ofList (pre ++ mid ++ [.setup a (mergeFields fs1 fs2)] ++ rest))
    | none => none

/-! ### trivially-dead erase of the greedy driver -/

def dceRw (_F : Facts) : Block → Nat → Option Block
  | .cons s r, 0 => if sefS s then some r else none
  | .cons s r, i+1 => (dceRw _F r i).map fun r' => .cons s r'
  | .nil, _ => none

/-! ### PullSetupOpsOutOfLoops -/

/- all setups of accelerator `a` in a region, in walk order (`all_setup_ops_in_region`) -/
mutual
def setupsOfS (a : AccId) : Stmt → List (List (Field × Var))
  | .setup a' fs => if a' = a then [fs] else []
  | .ifS _ t e => setupsOfB a t ++ setupsOfB a e
  | .forS _ _ _ _ b => setupsOfB a b
  | _ => []
def setupsOfB (a : AccId) : Block → List (List (Field × Var))
  | .nil => []
  | .cons s r => setupsOfS a s ++ setupsOfB a r
end

structure PullAcc where
  safe : List Field
  bad : List Field
  vals : List (Field × Var)

/-- one (key, val) of the scan in `PullSetupOpsOutOfLoops` -/
def pullStep (inner : List Var) (st : PullAcc) (kv : Field × Var) : PullAcc :=
  if inner.contains kv.2 then { st with bad := kv.1 :: st.bad }
  else match st.vals.lookup kv.1 with
    | some v => if v != kv.2 then { st with bad := kv.1 :: st.bad }
                else { st with vals := (kv.1, kv.2) :: st.vals, safe := kv.1 :: st.safe }
    | none => { st with vals := (kv.1, kv.2) :: st.vals, safe := kv.1 :: st.safe }

def insertSorted (x : Nat) : List Nat → List Nat
  | [] => [x]
  | y :: r => if x < y then x :: y :: r else if x = y then y :: r else y :: insertSorted x r

def sortDedup (l : List Nat) : List Nat := l.foldl (fun acc x => insertSorted x acc) []

/-- the fields hoisted in front of the loop and their values; field ids are ordered like the field
names, which is the order `sorted(safe - bad)` produces -/
def pullFields (F : Facts) (a : AccId) (iv : Var) (body : Block) : List (Field × Var) :=
  let inner := iv :: defsB body
  let st := ((setupsOfB a body).flatten).foldl (pullStep inner) { safe := [], bad := [], vals := [] }
  let keys := (sortDedup st.safe).filter (fun k => !st.bad.contains k)
  keys.filterMap fun k =>
    match st.vals.lookup k with
    | some v => if F a k = some v then none else some (k, v)     -- F1: already set up in front of the loop
    | none => none

/- the state an accelerator has "a current state value" in the threaded IR (keys of the dict in
`_weave_states_in_region`); needed for the applicability guards that look at `in_state`. -/
mutual
def liveS : Stmt → (AccId → Bool) → (AccId → Bool)
  | .setup a _, L => fun x => if x = a then true else L x
  | .ghost _ _, L => L
  | .call _ eff, L => if eff then fun _ => false else L
  | .ifS _ t e, L => fun x => liveB t L x && liveB e L x
  | .forS _ _ _ _ b, L => fun x =>
      if (setupsOfB x b).isEmpty then (L x && liveB b L x) else true
  | _, L => L
def liveB : Block → (AccId → Bool) → (AccId → Bool)
  | .nil, L => L
  | .cons s r, L => liveB r (liveS s L)
end

/- does the statement give accelerator `a` a new state value or invalidate it? -/
mutual
def touchesS (a : AccId) : Stmt → Bool
  | .setup a' _ => a' = a
  | .ghost a' _ => a' = a
  | .call _ eff => eff
  | .ifS _ t e => touchesB a t || touchesB a e
  | .forS _ _ _ _ b => touchesB a b
  | _ => false
def touchesB (a : AccId) : Block → Bool
  | .nil => false
  | .cons s r => touchesS a s || touchesB a r
end

/-- `rw` for pull: `i` is the index of the loop in its block, `j` the index of the matched setup in
the loop body. Guards: the setup is the first state-touching statement of its accelerator in the body
(its in_state is the loop's block argument). -/
def pullRw (j : Nat) (F : Facts) : Block → Nat → Option Block
  | .cons s r, 0 =>
      match s with
      | .forS lb ub st iv body =>
        match targetAcc body.toList j with
        | none => none
        | some a =>
          if ((body.toList.take j).any (touchesS a)) then none else
          let fs := pullFields F a iv body
          if fs.isEmpty then none else some (.cons (.setup a fs) (.cons (.forS lb ub st iv body) r))
      | _ => none
  | .cons s r, i+1 => (pullRw j (knownS s F) r i).map fun r' => .cons s r'
  | .nil, _ => none

/-! ### HoistSetupCallsIntoConditionals -/

mutual
def launchesS (a : AccId) : Stmt → Bool
  | .launch a' _ => a' = a
  | .ifS _ t e => launchesB a t || launchesB a e
  | .forS _ _ _ _ b => launchesB a b
  | _ => false
def launchesB (a : AccId) : Block → Bool
  | .nil => false
  | .cons s r => launchesS a s || launchesB a r
end

/-- scan forwards for the most recent `scf.if` that gives `a` a state and is followed only by statements
that neither touch the state of `a` nor launch `a` nor define an operand of the setup -/
def hoistScan (a : AccId) : List Stmt → Nat → (AccId → Bool) →
    Option (List Stmt × Var × Block × Block) → List Stmt → List Stmt →
    Option (List Stmt × Var × Block × Block × List Stmt × List (Field × Var) × List Stmt)
  | [], _, _, _, _, _ => none
  | s :: rest, 0, _, cand, mid, _ =>
      match s, cand with
      | .setup a' fs, some (pre, c, t, e) =>
          if a' = a ∧ fs.all (fun p => !(defsB (Block.ofList mid.reverse)).contains p.2) then
            some (pre.reverse, c, t, e, mid.reverse, fs, rest) else none
      | _, _ => none
  | s :: rest, i+1, L, cand, mid, seen =>
      if touchesS a s then
        match s with
        | .ifS c t e =>
            -- the if has a state result for `a` iff `a` is live at the end of both branches and changed
            if liveB t L a && liveB e L a then hoistScan a rest i (liveS s L) (some (seen, c, t, e)) [] (s :: seen)
            else hoistScan a rest i (liveS s L) none [] (s :: seen)
        | _ => hoistScan a rest i (liveS s L) none [] (s :: seen)
      else if launchesS a s then hoistScan a rest i (liveS s L) none [] (s :: seen)
      else hoistScan a rest i (liveS s L) cand (s :: mid) (s :: seen)

def hoistRw (L : AccId → Bool) (_F : Facts) (b : Block) (i : Nat) : Option Block :=
  match targetAcc b.toList i with
  | none => none
  | some a =>
    match hoistScan a b.toList i L none [] [] with
    | some (pre, c, t, e, mid, fs, rest) =>
        some (Block.ofList (pre ++ [.ifS c (t.append (.cons (.setup a fs) .nil)) (e.append (.cons (.setup a fs) .nil))]
                ++ mid ++ rest))
    | none => none

/- liveness at the start of the addressed block (for `hoistRw`) is threaded like the facts; the
function body starts with nothing live. For simplicity the rule is given the liveness computed along
the same path. -/
mutual
def liveAtS : Nat → List Nat → Stmt → (AccId → Bool) → (AccId → Bool)
  | 0, p, .ifS _ t _, L => liveAtB p t L
  | 1, p, .ifS _ _ e, L => liveAtB p e L
  | 0, p, .forS _ _ _ _ b, L => liveAtB p b (fun x => if (setupsOfB x b).isEmpty then L x else true)
  | _, _, _, L => L
def liveAtB : List Nat → Block → (AccId → Bool) → (AccId → Bool)
  | [_], _, L => L
  | 0 :: k :: p, .cons s _, L => liveAtS k p s L
  | (i+1) :: k :: p, .cons s r, L => liveAtB (i :: k :: p) r (liveS s L)
  | _, _, L => L
end

/-! ### ElideEmptySetupOps: an empty setup that has an in-state -/

def elideRw (L : AccId → Bool) (_F : Facts) : Block → Nat → Option Block
  | .cons s r, 0 =>
      match s with
      | .setup a [] => if L a then some r else none
      | _ => none
  | .cons s r, i+1 => (elideRw (liveS s L) _F r i).map fun r' => .cons s r'
  | .nil, _ => none

/-! ### insertion of a statement in front of a position (the shape of a `pull` rewrite) -/

def insertRw (s : Stmt) (_F : Facts) : Block → Nat → Option Block
  | b, 0 => some (.cons s b)
  | .cons t r, i+1 => (insertRw s _F r i).map fun r' => .cons t r'
  | .nil, _+1 => none

def insertAt (path : List Nat) (s : Stmt) (b : Block) : Option Block := rewriteB (insertRw s) path b noFacts

/-- the statement at a position -/
def stmtAtL : List Stmt → Nat → Option Stmt
  | s :: _, 0 => some s
  | _ :: r, i+1 => stmtAtL r i
  | [], _ => none

/- "every launch is total" for the analysis that forgets a field at a ghost write (the side condition
of the ghost-write theorem), as a computable check -/
mutual
def okSb (fields : AccId → List Field) : Stmt → Facts → Bool
  | .launch a _, F => (fields a).all fun f => (F a f).isSome
  | .ifS _ t e, F => okBb fields t F && okBb fields e F
  | .forS _ _ _ _ b, F => okBb fields b (headFacts b F)
  | _, _ => true
def okBb (fields : AccId → List Field) : Block → Facts → Bool
  | .nil, _ => true
  | .cons s r, F => okSb fields s F && okBb fields r (knownS s F)
end

mutual
def noGhostS : Stmt → Bool
  | .ghost _ _ => false
  | .ifS _ t e => noGhostB t && noGhostB e
  | .forS _ _ _ _ b => noGhostB b
  | _ => true
def noGhostB : Block → Bool
  | .nil => true
  | .cons s r => noGhostS s && noGhostB r
end

/- statement at a position of the program -/
mutual
def stmtAtS : Nat → List Nat → Stmt → Option Stmt
  | k, p, .ifS _ t e => if k = 0 then stmtAtB p t else if k = 1 then stmtAtB p e else none
  | k, p, .forS _ _ _ _ b => if k = 0 then stmtAtB p b else none
  | _, _, _ => none
def stmtAtB : List Nat → Block → Option Stmt
  | [i], b => stmtAtL b.toList i
  | 0 :: k :: p, .cons s _ => stmtAtS k p s
  | (i+1) :: k :: p, .cons _ r => stmtAtB (i :: k :: p) r
  | _, _ => none
end
def stmtAt (path : List Nat) (b : Block) : Option Stmt := stmtAtB path b

/- variables a statement reads -/
mutual
def readsS : Stmt → List Var
  | .setup _ fs => fs.map (·.2)
  | .ghost _ fs => fs.map (·.2)
  | .launch _ lv => lv
  | .await _ => []
  | .pure _ _ args => args
  | .call _ _ => []
  | .ifS c t e => c :: (readsB t ++ readsB e)
  | .forS lb ub st _ b => lb :: ub :: st :: readsB b
def readsB : Block → List Var
  | .nil => []
  | .cons s r => readsS s ++ readsB r
end

/-- side condition of the dead-code step: nothing in the resulting program reads a value the erased
statement defined ("trivially dead": no uses) -/
def dceSide (path : List Nat) (b b' : Block) : Bool :=
  match stmtAt path b with
  | some s => (defsS s).all fun x => !(readsB b').contains x
  | none => false

inductive Rule where
  | simplify | merge | elide | dce | hoist
  | pull (j : Nat)
deriving Repr, DecidableEq

/-- replay one rewrite of accfg-dedup: `path` addresses the anchor statement (for `pull` the loop, with
`j` the index of the matched setup inside its body; for the others the matched op itself) -/
def applyRule (rule : Rule) (path : List Nat) (b : Block) : Option Block :=
  match rule with
  | .simplify => rewriteB simplifyRw path b noFacts
  | .merge => rewriteB mergeRw path b noFacts
  | .elide => rewriteB (elideRw (liveAtB path b (fun _ => false))) path b noFacts
  | .dce => rewriteB dceRw path b noFacts
  | .pull j => rewriteB (pullRw j) path b noFacts
  | .hoist => rewriteB (hoistRw (liveAtB path b (fun _ => false))) path b noFacts

end SnaxVerif.Accfg
