import SnaxVerif.Model.AccfgMove
/-
LoopLevelSetupAwaitOverlapPattern (accfg_config_overlap.py) on the erased accfg program: the first setup of a loop body
is rotated — a copy (with the side-effect-free operations computing its operands, `get_scoped_setup_inputs`) evaluated at
the lower bound goes in front of the loop, a copy evaluated at `iv + step` goes to the end of the body, the original is
erased. Loop-carried data values are outside the model's IR fragment.
-/
namespace SnaxVerif.Accfg

/- is there, in this block, a launch of `a` that would use the state value that is current at the start of the block?
(a launch reached before the state of `a` is redefined on its path) -/
mutual
def usesOuterS (a : AccId) : Stmt → Bool
  | .launch a' _ => a' = a
  | .ifS _ t e => usesOuterB a t || usesOuterB a e
  | .forS _ _ _ _ b => usesOuterB a b
  | _ => false
def usesOuterB (a : AccId) : Block → Bool
  | .nil => false
  | .cons s r => usesOuterS a s || (!touchesS a s && usesOuterB a r)
end

/-- guard "there is a launch of the setup's out-state in the same block and none elsewhere": scan the statements after the
setup up to (and including, for nested uses) the first one that touches the state of `a` -/
def launchGuard (a : AccId) : List Stmt → Bool → Option Bool
  -- returns none if a nested launch would use the state (abort), else some (found a top-level launch)
  | [], found => some found
  | s :: r, found =>
    match s with
    | .launch a' _ => if a' = a then launchGuard a r true else launchGuard a r found
    | .ifS _ _ _ => if usesOuterS a s then none else if touchesS a s then some found else launchGuard a r found
    | .forS _ _ _ _ _ => if usesOuterS a s then none else if touchesS a s then some found else launchGuard a r found
    | _ => if touchesS a s then some found else launchGuard a r found

/-- the side-effect-free statements of `pre` (top level) that compute the needed variables, in program order -/
def inputChain : List Stmt → List Var → List Stmt
  -- `pre` is given REVERSED (last statement first)
  | [], _ => []
  | s :: r, need =>
    match s with
    | .pure d _ args => if need.contains d then inputChain r (need ++ args) ++ [s] else inputChain r need
    | _ => inputChain r need

/-- clone a chain with a renaming: every definition gets a fresh variable, operands are mapped -/
def renameVar (m : List (Var × Var)) (x : Var) : Var := (m.lookup x).getD x

def cloneChain : List Stmt → List (Var × Var) → Nat → List Stmt × List (Var × Var) × Nat
  | [], m, fresh => ([], m, fresh)
  | s :: r, m, fresh =>
    match s with
    | .pure d op args =>
      let s' := Stmt.pure fresh op (args.map (renameVar m))
      let (rest, m', f') := cloneChain r ((d, fresh) :: m) (fresh + 1)
      (s' :: rest, m', f')
    | _ => cloneChain r m fresh

def isLaunch : Stmt → Bool
  | .launch _ _ => true
  | _ => false

def isPure : Stmt → Bool
  | .pure _ _ _ => true
  | _ => false

def pureDef : Stmt → List Var
  | .pure d _ _ => [d]
  | _ => []

def pureArgs : Stmt → List Var
  | .pure _ _ args => args
  | _ => []

/-- SSA order inside a list of pure statements: no statement reads or redefines a variable that a later one defines,
no variable is defined twice, no statement reads its own result -/
def pureSSA : List Stmt → Bool
  | [] => true
  | s :: r => (pureDef s ++ pureArgs s).all (fun x => !(r.flatMap pureDef).contains x) &&
      (pureArgs s).all (fun x => !(pureDef s).contains x) && pureSSA r

/-- the chain is closed: every operand of a chain statement is the induction variable, the result of an earlier chain
statement (`K`), or a variable that `pre` does not define -/
def closedChain (predefs : List Var) (iv : Var) : List Stmt → List Var → Bool
  | [], _ => true
  | s :: r, K =>
    match s with
    | .pure d _ args =>
      args.all (fun y => K.contains y || (!predefs.contains y && y != iv)) && closedChain predefs iv r (d :: K)
    | _ => closedChain predefs iv r K

/-- statements that may stand between the loop head and the rotated setup besides pure operations: they define no variable
and leave the registers of `a` alone (calls without effects, awaits, setups of other accelerators) -/
def isQuiet (a : AccId) : Stmt → Bool
  | .call _ eff => !eff
  | .await _ => true
  | .setup a' _ => a' != a
  | _ => false

/-- Side conditions under which `Props/C06.lean` proves the rotation correct (all decidable, evaluated on every real
loop-level step):
* `pre` (the statements of the body in front of the rotated setup) are pure operations in SSA order that do not define
  the induction variable, or quiet statements (`isQuiet`); the setup names no field twice;
  (then the cloned input chain is closed and covers every variable of the setup that `pre` defines: `inputChain_closed`);
* the step and the induction variable are not redefined in the loop body;
* all variables of the loop are below `fresh` (the clones get the ids from `fresh` on). -/
def loopSide (a : AccId) (fs : List (Field × Var)) (pre after : List Stmt) (lb ub st iv : Var) (fresh : Nat) : Bool :=
  let predefs := pre.flatMap pureDef
  let bodyDefs := predefs ++ defsB (Block.ofList after)
  pre.all (fun s => isPure s || isQuiet a s) && pureSSA pre && !predefs.contains iv &&
  decide (fs.map (·.1)).Nodup &&
  !bodyDefs.contains st && !bodyDefs.contains iv && st != iv &&
  ([lb, ub, st, iv] ++ bodyDefs ++ readsB (Block.ofList (pre ++ after)) ++ fs.map (·.2)).all (fun x => x < fresh)

/-- the guards of the pattern (plus, for the proof variants, `loopSide`) -/
def rotGuard (chk : Bool) (a : AccId) (fs : List (Field × Var)) (pre after : List Stmt) (lb ub st iv : Var) (fresh : Nat) : Bool :=
  !(pre.any (touchesS a) || pre.any isLaunch) && (!chk || loopSide a fs pre after lb ub st iv fresh) &&
  (match launchGuard a after false with
   | some true => true
   | _ => false)

/-- what the loop (followed by `r`) is replaced by. `keep`: leave the original setup in place; `ghost`: the two copies are
ghosts. The real pattern is `keep = false, ghost = false`; the other variants are the intermediate programs of the proof. -/
def rotWindow (keep ghost : Bool) (a : AccId) (fs : List (Field × Var)) (pre after : List Stmt) (lb ub st iv : Var)
    (fresh : Nat) (r : Block) : Block :=
  let chain := inputChain pre.reverse (fs.map (·.2))
  let mk := fun (x : List (Field × Var)) => if ghost then Stmt.ghost a x else Stmt.setup a x
  -- copy in front of the loop: iv ↦ lb
  let c0 := cloneChain chain [(iv, lb)] fresh
  let s0 := mk (fs.map fun p => (p.1, renameVar c0.2.1 p.2))
  -- copy at the end of the body: iv ↦ iv + step
  let next := c0.2.2
  let c1 := cloneChain chain [(iv, next)] (next + 1)
  let s1 := mk (fs.map fun p => (p.1, renameVar c1.2.1 p.2))
  let orig := if keep then [Stmt.setup a fs] else []
  let body' := Block.ofList (pre ++ (orig ++ (after ++ ((Stmt.pure next .add [iv, st] :: c1.1) ++ [s1]))))
  (Block.ofList ((c0.1 ++ [s0]) ++ [Stmt.forS lb ub st iv body'])).append r

/-- `i` = index of the loop in its block (anchor), `j` = index of the matched setup in the loop body, `fresh` = first unused
variable id; `chk`: also require `loopSide` (the replay uses `chk = false`). -/
def loopOverlapGen (keep ghost chk : Bool) (j fresh : Nat) (_F : Facts) : Block → Nat → Option Block
  | .cons s r, 0 =>
    match s with
    | .forS lb ub st iv body =>
      match body.toList.drop j with
      | .setup a fs :: after =>
        if rotGuard chk a fs (body.toList.take j) after lb ub st iv fresh then
          some (rotWindow keep ghost a fs (body.toList.take j) after lb ub st iv fresh r)
        else none
      | _ => none
    | _ => none
  | .cons s r, i+1 => (loopOverlapGen keep ghost chk j fresh _F r i).map fun r' => .cons s r'
  | .nil, _ => none

/-! ### loops with carried data values (desugared by the converter: `q := cast x` in front of the loop, `p := cast q` at the
head of the body, `q := cast y` at its end). The real pattern evaluates the copy in front of the loop with the block
arguments replaced by the loop's init operands and the copy at the end of the body with the yield operands. -/

def isCastOf : Stmt → Option (Var × Var)
  | .pure d .cast [x] => some (d, x)
  | _ => none

/-- alias environment `(q, x)`: "q currently holds the value of x" — extended by `q := cast x`, pairs mentioning a redefined
variable are dropped -/
def aliasStep (s : Stmt) (A : List (Var × Var)) : List (Var × Var) :=
  let ds := defsS s
  let A' := A.filter (fun p => !ds.contains p.1 && !ds.contains p.2)
  match isCastOf s with
  | some (d, x) => if d = x then A' else (d, x) :: A'
  | none => A'

/-- number of trailing statements of `after` that are carry assignments `q := cast y` for a `q` read by one of the first `nh`
statements `p := cast q` of `pre`; `nh` itself is the number of leading statements of `pre` of that shape -/
def nHeads (pre after : List Stmt) : Nat :=
  let tq := ((after.reverse.takeWhile (fun s => (isCastOf s).isSome)).filterMap isCastOf).map (·.1)
  (pre.takeWhile (fun s => match isCastOf s with | some (_, q) => tq.contains q | none => false)).length

def nTails (pre after : List Stmt) : Nat :=
  let qs := ((pre.take (nHeads pre after)).filterMap isCastOf).map (·.2)
  (after.reverse.takeWhile (fun s => match isCastOf s with | some (q, _) => qs.contains q | none => false)).length

/-- `(p, q, y)`: the block argument `p` is read from the carry register `q`; its value in the next iteration is the yielded `y` -/
def params1T (heads tails : List Stmt) : List (Var × Var × Var) :=
  heads.filterMap (fun s => (isCastOf s).bind fun pq => ((tails.filterMap isCastOf).lookup pq.2).map fun y => (pq.1, pq.2, y))

/-- `(p, q, x)`: the value of `p` in the first iteration is the loop's init operand `x` (`q := cast x` in front of the loop) -/
def params0T (A : List (Var × Var)) (heads : List Stmt) : List (Var × Var × Var) :=
  heads.filterMap (fun s => (isCastOf s).bind fun pq => (A.lookup pq.2).map fun x => (pq.1, pq.2, x))

def dropMid (l : List (Var × Var × Var)) : List (Var × Var) := l.map fun t => (t.1, t.2.2)

/-- side conditions of the carried variant of the theorem (decidable, evaluated on every real step), besides `loopSide`:
every parameter `(p, q, src)` comes from a head `p := cast q` of `pre` whose carry register `q` is not defined in `pre`; at
the end of the body `q := cast y` is among the trailing carry assignments, which are in SSA order and assign nothing the
chain or the setup reads; in front of the loop `q` is known to hold `x`; every block argument read at the head is a
parameter; sources are below `fresh`. -/
def carrySide (A : List (Var × Var)) (fs : List (Field × Var)) (pre after : List Stmt) (iv : Var) (fresh : Nat) : Bool :=
  let nh := nHeads pre after
  let nt := nTails pre after
  let heads := pre.take nh
  let pre' := pre.drop nh
  let tails := after.drop (after.length - nt)
  let t0 := params0T A heads
  let t1 := params1T heads tails
  let predefs := pre.flatMap pureDef
  tails.all isPure && pureSSA tails &&
  t1.all (fun t => pre.any (fun s => isCastOf s == some (t.1, t.2.1)) && tails.any (fun s => isCastOf s == some (t.2.1, t.2.2)) &&
    !predefs.contains t.2.1 && t.2.1 != iv && t.1 != iv && decide (t.2.2 < fresh) && !(tails.flatMap pureDef).contains t.2.2) &&
  t0.all (fun t => pre.any (fun s => isCastOf s == some (t.1, t.2.1)) && A.lookup t.2.1 == some t.2.2 &&
    !predefs.contains t.2.1 && t.2.1 != iv && t.1 != iv && decide (t.2.2 < fresh) && decide (t.2.1 < fresh)) &&
  (heads.flatMap pureDef).all (fun p => ((dropMid t0).map (·.1)).contains p && ((dropMid t1).map (·.1)).contains p) &&
  (tails.flatMap pureDef).all (fun q => !(fs.map (·.2)).contains q && !(pre'.flatMap pureArgs).contains q)

/-- the rewritten window for a loop with carried values (`A` = alias environment in front of the loop) -/
def rotWindowC (keep ghost : Bool) (params0 params1 : List (Var × Var)) (nh nt : Nat) (a : AccId) (fs : List (Field × Var))
    (pre after : List Stmt) (lb ub st iv : Var) (fresh : Nat) (r : Block) : Block :=
  let chain := inputChain (pre.drop nh).reverse (fs.map (·.2))
  let mk := fun (x : List (Field × Var)) => if ghost then Stmt.ghost a x else Stmt.setup a x
  let c0 := cloneChain chain ((iv, lb) :: params0) fresh
  let s0 := mk (fs.map fun p => (p.1, renameVar c0.2.1 p.2))
  let next := c0.2.2
  let c1 := cloneChain chain ((iv, next) :: params1) (next + 1)
  let s1 := mk (fs.map fun p => (p.1, renameVar c1.2.1 p.2))
  let orig := if keep then [Stmt.setup a fs] else []
  let body' := Block.ofList (pre ++ (orig ++ (after.take (after.length - nt) ++
    (((Stmt.pure next .add [iv, st] :: c1.1) ++ [s1]) ++ after.drop (after.length - nt)))))
  (Block.ofList ((c0.1 ++ [s0]) ++ [Stmt.forS lb ub st iv body'])).append r

def rotGuardC (chk : Bool) (A : List (Var × Var)) (a : AccId) (fs : List (Field × Var)) (pre after : List Stmt)
    (lb ub st iv : Var) (fresh : Nat) : Bool :=
  let heads := pre.take (nHeads pre after)
  let tails := after.drop (after.length - nTails pre after)
  (params0T A heads).length == heads.length && (params1T heads tails).length == heads.length &&
  rotGuard chk a fs pre after lb ub st iv fresh && (!chk || carrySide A fs pre after iv fresh)

def loopOverlapC (keep ghost chk : Bool) (j fresh : Nat) (A : List (Var × Var)) (_F : Facts) : Block → Nat → Option Block
  | .cons s r, 0 =>
    match s with
    | .forS lb ub st iv body =>
      match body.toList.drop j with
      | .setup a fs :: after =>
        if rotGuardC chk A a fs (body.toList.take j) after lb ub st iv fresh then
          some (rotWindowC keep ghost
            (dropMid (params0T A ((body.toList.take j).take (nHeads (body.toList.take j) after))))
            (dropMid (params1T ((body.toList.take j).take (nHeads (body.toList.take j) after))
              (after.drop (after.length - nTails (body.toList.take j) after))))
            (nHeads (body.toList.take j) after) (nTails (body.toList.take j) after)
            a fs (body.toList.take j) after lb ub st iv fresh r)
        else none
      | _ => none
    | _ => none
  | .cons s r, i+1 => (loopOverlapC keep ghost chk j fresh (aliasStep s A) _F r i).map fun r' => .cons s r'
  | .nil, _ => none

def applyLoopOverlapC (path : List Nat) (j fresh : Nat) (b : Block) : Option Block :=
  rewriteB (loopOverlapC false false false j fresh []) path b noFacts

/-- the variants used by the proof (`chk = true`) -/
def applyLoopOverlapCGen (keep ghost : Bool) (path : List Nat) (j fresh : Nat) (b : Block) : Option Block :=
  rewriteB (loopOverlapC keep ghost true j fresh []) path b noFacts

def loopOverlapRw (j fresh : Nat) := loopOverlapGen false false false j fresh

def applyLoopOverlap (path : List Nat) (j fresh : Nat) (b : Block) : Option Block :=
  rewriteB (loopOverlapRw j fresh) path b noFacts

/-- the variants used by the proof (`chk = true`) -/
def applyLoopOverlapGen (keep ghost : Bool) (path : List Nat) (j fresh : Nat) (b : Block) : Option Block :=
  rewriteB (loopOverlapGen keep ghost true j fresh) path b noFacts

end SnaxVerif.Accfg
