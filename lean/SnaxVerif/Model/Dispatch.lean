/-!
# Model of `dispatch-regions` (snaxc/transforms/dispatch_regions.py) and of the dispatching rules
(snaxc/util/dispatching_rules.py) — property C14.

* `OpKind`, `ruleDm`, `ruleCp`: the two rules as decision tables over the facts they inspect
  (kind of op, accelerator of a streaming region, first op of its body, per-extension
  `is_same_kernel` results). Error paths: `assert op.accelerator`, `ctx.get_acc` raising.
* `Op / Blk / Regs`: structured IR. A `leaf` is an op that the walk does not enter for dispatching
  (it may still contain nested ops: `inner`, e.g. the body of `linalg.generic`); `reg` is any
  non-dispatchable op with regions (`scf.if`, `scf.for`, `test.op` with regions, ...); `guard c` is
  the `scf.if` on `core_id == c` that the pass creates.
* `goB`: one call of `dispatcher(block, cond, rule)`: post-order walk (`walk(region_first=True)`),
  pending run `ops_to_dispatch`, flushed when the next visited op is not dispatchable or has a
  different parent block. Nested ops of a leaf are visited before the leaf, so a leaf with `inner`
  flushes the pending run first.
* `dispatch r fixed nb` (`r`: which `dispatch_to_compute`, see `ruleCp`): dm phase (core `nb-1`) then compute phase (core 0) over the blocks of the
  function; `fixed = false` is the upstream `any(<generator>)` which stops at the first block that
  changed (finding D7), `fixed = true` is the tree with fixes/F04 (`any([...])`).
* `runF`: which ops one core executes, in order. Every control decision (branch taken, trip count,
  which regions of an unknown op run, `cf.cond_br`) is resolved by an oracle `orc` indexed by the
  static op and the dynamic path (enclosing iteration indices), so the theorems hold for every
  deterministic resolution of the control flow.
No Mathlib.
-/
namespace SnaxVerif.Dispatch

/-! ## dispatching rules -/

/-- what `ctx.get_acc(op.accelerator.data)` yields for a streaming region -/
inductive Acc where
  | none      -- no `accelerator` property: `assert op.accelerator` fails
  | unreg     -- name not registered in the AccContext: `get_acc` raises `Exception`
  | other     -- registered, not a `SNAXXDMAAccelerator`
  | xdma      -- a `SNAXXDMAAccelerator`
  deriving DecidableEq, Repr

/-- the facts the two rules look at -/
inductive OpKind where
  | copy                                                  -- `memref.CopyOp`
  | generic                                               -- `linalg.GenericOp`
  | stream (acc : Acc) (firstGeneric : Bool) (ms : List Bool)
      -- `dart.StreamingRegionOpBase`; `firstGeneric`: first op of the body is `dart.GenericOp`;
      -- `ms`: `ext.supported_kernel.is_same_kernel(kernel_op)` for every extension of
      -- `XDMA_EXT_SET` with a supported kernel, in order
  | coreCall     -- a `func.call @snax_cluster_core_idx` that is already in the program (not dispatchable, but
                 -- `InsertFunctionDeclaration` reacts to it)
  | other
  deriving DecidableEq, Repr

inductive RuleErr where
  | assertion | notRegistered
  deriving DecidableEq, Repr

def accCheck : Acc → Except RuleErr Bool     -- returns "is xdma"
  | .none => .error .assertion
  | .unreg => .error .notRegistered
  | .other => .ok false
  | .xdma => .ok true

/-- `dispatch_to_dm` -/
def ruleDm : OpKind → Except RuleErr Bool
  | .copy => .ok true
  | .stream acc fg ms =>
    match accCheck acc with
    | .error e => .error e
    | .ok x => .ok (x && fg && ms.any id)
  | _ => .ok false

/-- `dispatch_to_compute`. `r = false`: the upstream rule, `any(not is_same_kernel)` (finding DC14a);
`r = true`: the rule with fixes/FC14a, `any(is_same_kernel)` ("don't dispatch to compute if the kernel is
provided by a StreamerExtension"). -/
def ruleCp (r : Bool) : OpKind → Except RuleErr Bool
  | .generic => .ok true
  | .stream acc fg ms =>
    match accCheck acc with
    | .error e => .error e
    | .ok x => .ok (if x && fg then (if r then !(ms.any id) else !(ms.any (fun m => !m))) else true)
  | _ => .ok false

/-! ### the extension kernels of the xDMA -/

/-- signature of a kernel op: its name and its operand types followed by its result types
(what `SupportedKernel.is_same_kernel` compares: `isinstance(op, kernel_type)` and the type list) -/
structure KSig where
  name : String
  tys : List String
  deriving DecidableEq, Repr

/-- `[ext.supported_kernel for ext in XDMA_EXT_SET if ext.supported_kernel is not None]`, in that order:
RescaleDownExtension, RescaleUpExtension, AddExtension (MaxPool, MemSet, Transpose, AddLong have none) -/
def xdmaExtKernels : List KSig :=
  [⟨"kernel.rescale", ["i32", "i8"]⟩, ⟨"kernel.rescale", ["i8", "i32"]⟩, ⟨"kernel.add", ["i32", "i32", "i32"]⟩]

/-- the list `ms` of a streaming region whose kernel has signature `k` -/
def matchesOf (k : KSig) : List Bool := xdmaExtKernels.map (fun e => decide (e = k))

/-- who should execute an op according to the property (independent of the two rules): copies and xDMA
streaming regions whose kernel an extension provides are data movement; `linalg.generic` and every
other streaming region (it names an accelerator) are compute; the rest runs everywhere -/
inductive Cls where
  | dm | cp | all
  deriving DecidableEq, Repr

def specClass : OpKind → Cls
  | .copy => .dm
  | .generic => .cp
  | .stream acc fg ms => if acc = .xdma && fg && ms.any id then .dm else .cp
  | .coreCall => .all
  | .other => .all

/-- the class the two rules give together (none: a rule raises, or both claim the op) -/
def rulesClass (r : Bool) (k : OpKind) : Option Cls :=
  match ruleDm k, ruleCp r k with
  | .ok true, .ok false => some .dm
  | .ok false, .ok true => some .cp
  | .ok false, .ok false => some .all
  | _, _ => none

/-! ## IR -/

structure Leaf where
  id : Nat
  kind : OpKind
  inner : Bool            -- the op has nested ops (none of them dispatchable)
  deriving DecidableEq, Repr

def dmOf (l : Leaf) : Bool := match ruleDm l.kind with | .ok b => b | .error _ => false
def cpOf (r : Bool) (l : Leaf) : Bool := match ruleCp r l.kind with | .ok b => b | .error _ => false

mutual
inductive Op where
  | leaf (l : Leaf)
  | guard (core : Nat) (body : Blk)              -- scf.if (core_id == core) { body }
  | reg (k : Nat) (kind : Nat) (rs : Regs)       -- non-dispatchable op with regions (kind 0 = scf.if, 1 = scf.for, 2 = other)
inductive Blk where
  | nil
  | cons (o : Op) (r : Blk)
inductive Regs where
  | nil
  | cons (b : Blk) (rs : Regs)
end

inductive Term where
  | ret
  | br (t : Nat)
  | cbr (k t e : Nat)
  deriving DecidableEq, Repr

structure BB where
  body : Blk
  term : Term

/-- the ops the pass puts at the start of the first block -/
inductive Pre where
  | call (pins : List Nat)     -- func.call @snax_cluster_core_idx {pin_to_constants = pins}
  | pinned (k : Nat)           -- the call replaced by `arith.constant k` (function-constant-pinning)
  | const (v : Nat)            -- arith.constant v : i32
  | cmp (c : Nat)              -- arith.cmpi eq, <core id>, <const c>
  deriving DecidableEq, Repr

structure Func where
  pre : List Pre
  blocks : List BB

/-- the event an executed region op leaves in the trace -/
def regEv (k : Nat) : Leaf := ⟨k, .other, true⟩

/-! ## the dispatcher -/

def ofLeaves : List Leaf → Blk
  | [] => .nil
  | l :: ls => .cons (.leaf l) (ofLeaves ls)

/-- create the scf.if for the pending run (kept in reverse order), if any -/
def flush (tc : Nat) (p : List Leaf) (rest : Blk) : Blk :=
  match p with
  | [] => rest
  | _ :: _ => .cons (.guard tc (ofLeaves p.reverse)) rest

mutual
def goB (sel : Leaf → Bool) (tc : Nat) : Blk → List Leaf → Blk
  | .nil, p => flush tc p .nil
  | .cons (.leaf l) r, p =>
      if l.inner then
        -- the nested ops are visited first and end the pending run
        flush tc p (if sel l then goB sel tc r [l] else .cons (.leaf l) (goB sel tc r []))
      else if sel l then goB sel tc r (l :: p)
      else flush tc p (.cons (.leaf l) (goB sel tc r []))
  | .cons (.guard c b) r, p => flush tc p (.cons (.guard c (goB sel tc b [])) (goB sel tc r []))
  | .cons (.reg k kind rs) r, p => flush tc p (.cons (.reg k kind (goRs sel tc rs)) (goB sel tc r []))
def goRs (sel : Leaf → Bool) (tc : Nat) : Regs → Regs
  | .nil => .nil
  | .cons b rs => .cons (goB sel tc b []) (goRs sel tc rs)
end

mutual
def anyO (sel : Leaf → Bool) : Op → Bool
  | .leaf l => sel l
  | .guard _ b => anyB sel b
  | .reg _ _ rs => anyRs sel rs
def anyB (sel : Leaf → Bool) : Blk → Bool
  | .nil => false
  | .cons o r => anyO sel o || anyB sel r
def anyRs (sel : Leaf → Bool) : Regs → Bool
  | .nil => false
  | .cons b rs => anyB sel b || anyRs sel rs
end

/-- one `any(dispatcher(block, …) for block in blocks)`; with `fixed = false` the generator
    short-circuits: blocks after the first changed one are never visited -/
def phaseBlocks (fixed : Bool) (sel : Leaf → Bool) (tc : Nat) : List BB → List BB
  | [] => []
  | bb :: rest =>
    if !fixed && anyB sel bb.body then ⟨goB sel tc bb.body [], bb.term⟩ :: rest
    else ⟨goB sel tc bb.body [], bb.term⟩ :: phaseBlocks fixed sel tc rest

def changedBlocks (sel : Leaf → Bool) (bs : List BB) : Bool := bs.any (fun bb => anyB sel bb.body)

def prelude (nb : Nat) : Bool → Bool → List Pre
  | true, true => [.call (List.range nb), .const 0, .cmp 0, .const (nb - 1), .cmp (nb - 1)]
  | true, false => [.call (List.range nb), .const (nb - 1), .cmp (nb - 1)]
  | false, true => [.call (List.range nb), .const 0, .cmp 0]
  | false, false => []

def dispatch (r fixed : Bool) (nb : Nat) (f : Func) : Func :=
  let b1 := phaseBlocks fixed dmOf (nb - 1) f.blocks
  let b2 := phaseBlocks fixed (cpOf r) 0 b1
  ⟨prelude nb (changedBlocks dmOf f.blocks) (changedBlocks (cpOf r) b1) ++ f.pre, b2⟩

/-- the pattern is applied to every `func.func` of the module on its own; neither the visibility nor the
    name of a function is looked at (so the model of a function carries neither), and an external
    declaration is a function without blocks -/
def dispatchModule (r fixed : Bool) (nb : Nat) (m : List Func) : List Func := m.map (dispatch r fixed nb)

def isCoreCall (l : Leaf) : Bool :=
  match l.kind with
  | .coreCall => true
  | _ => false

/-- `InsertFunctionDeclaration`: the external declaration of `snax_cluster_core_idx` is inserted (or
    replaced) as soon as the function contains a call of it after the first pattern ran — the call the
    pass emitted, or one that was in the program already -/
def declInserted (r : Bool) (nb : Nat) (f : Func) : Bool :=
  changedBlocks dmOf f.blocks || changedBlocks (cpOf r) (phaseBlocks true dmOf (nb - 1) f.blocks) ||
    changedBlocks isCoreCall f.blocks

/-! error path: the first rule evaluation that raises aborts the pass -/

def leafErr (l : Leaf) : Option RuleErr :=
  match ruleDm l.kind with
  | .error e => some e
  | .ok _ => none

mutual
def errO : Op → Option RuleErr
  | .leaf l => leafErr l
  | .guard _ b => errB b
  | .reg _ _ rs => errRs rs
def errB : Blk → Option RuleErr
  | .nil => none
  | .cons o r => (errO o).orElse (fun _ => errB r)
def errRs : Regs → Option RuleErr
  | .nil => none
  | .cons b rs => (errB b).orElse (fun _ => errRs rs)
end

def errBlocks : List BB → Option RuleErr
  | [] => none
  | bb :: rest => (errB bb.body).orElse (fun _ => errBlocks rest)

/-- the pass with its error path (fixed tree: the dm phase evaluates the rule on every op) -/
def dispatchE (r : Bool) (nb : Nat) (f : Func) : Except RuleErr Func :=
  match errBlocks f.blocks with
  | some e => .error e
  | none => .ok (dispatch r true nb f)

/-! ## the whole pass on a module

`DispatchRegions.apply`: first `DispatchRegionsRewriter` on every `func.func` in module order (a rule that
raises aborts), then `InsertFunctionDeclaration` on every `func.call @snax_cluster_core_idx`: it builds
the external declaration and `SymbolTable.insert_or_update`s it — appended at the end of the module if
absent, REPLACING the existing declaration otherwise. The replacement detaches the old declaration op;
if that op is still ahead in the walker's worklist (it stands after the function holding the call) the
walker trips over it: `ValueError: Operation insertion point must have a parent block` (finding DC14b —
in particular the pass cannot be run on its own output). `declFix = true`: fixes/FC14b (an existing
declaration is left alone). -/

inductive Item where
  | fn (f : Func)
  | coreDecl            -- `func.func private @snax_cluster_core_idx() -> i32`

inductive ModErr where
  | rule (e : RuleErr)
  | detachedDecl        -- the ValueError of the walker
  deriving DecidableEq, Repr

def isCoreDecl : Item → Bool
  | .coreDecl => true
  | .fn _ => false

/-- the function holds a call of `snax_cluster_core_idx` after the first pattern -/
def itemCalls (r : Bool) (nb : Nat) : Item → Bool
  | .fn f => declInserted r nb f
  | .coreDecl => false

def firstRuleErr : List Item → Option RuleErr
  | [] => none
  | .fn f :: rest => (errBlocks f.blocks).orElse (fun _ => firstRuleErr rest)
  | .coreDecl :: rest => firstRuleErr rest

/-- a declaration stands after a function that calls it -/
def lateDecl (r : Bool) (nb : Nat) : List Item → Bool
  | [] => false
  | it :: rest => (itemCalls r nb it && rest.any isCoreDecl) || lateDecl r nb rest

def dispatchItem (r : Bool) (nb : Nat) : Item → Item
  | .fn f => .fn (dispatch r true nb f)
  | .coreDecl => .coreDecl

def dispatchModuleE (r declFix : Bool) (nb : Nat) (m : List Item) : Except ModErr (List Item) :=
  match firstRuleErr m with
  | some e => .error (.rule e)
  | none =>
    if !declFix && lateDecl r nb m then .error .detachedDecl
    else
      let out := m.map (dispatchItem r nb)
      .ok (if m.any (itemCalls r nb) && !(m.any isCoreDecl) then out ++ [.coreDecl] else out)

def fnsOf : List Item → List Func
  | [] => []
  | .fn f :: rest => f :: fnsOf rest
  | .coreDecl :: rest => fnsOf rest

/-! ## pinning the core id -/

def pinPre (k : Nat) : Pre → Pre
  | .call _ => .pinned k
  | p => p

/-- the specialisation made by `function-constant-pinning` for constant `k`: the annotated call is
    replaced by the constant -/
def pin (k : Nat) (f : Func) : Func := ⟨f.pre.map (pinPre k), f.blocks⟩

def pinnedVal : Pre → Option Nat
  | .pinned k => some k
  | _ => none

/-- the value of the core id inside the function when it runs on `core` -/
def coreOf (f : Func) (core : Nat) : Nat := (f.pre.findSome? pinnedVal).getD core

/-! ## per-core execution -/

/-- `orc k kind path`: the regions op `k` executes, in order, at the dynamic instance `path` -/
abbrev Orc := Nat → Nat → List Nat → List Nat

def sched (fs : List (List Nat → List Leaf)) : List Nat → Nat → List Nat → List Leaf
  | [], _, _ => []
  | r :: s, i, p => (fs.getD r (fun _ => [])) (i :: p) ++ sched fs s (i + 1) p

mutual
def runO (core : Nat) (orc : Orc) : Op → List Nat → List Leaf
  | .leaf l => fun _ => [l]
  | .guard c b => fun p => if core = c then runB core orc b p else []
  | .reg k kind rs => fun p => regEv k :: sched (runRs core orc rs) (orc k kind p) 0 p
def runB (core : Nat) (orc : Orc) : Blk → List Nat → List Leaf
  | .nil => fun _ => []
  | .cons o r => fun p => runO core orc o p ++ runB core orc r p
def runRs (core : Nat) (orc : Orc) : Regs → List (List Nat → List Leaf)
  | .nil => []
  | .cons b rs => runB core orc b :: runRs core orc rs
end

/-- run the blocks from block `cur`, at most `fuel` blocks (control flow graphs may loop) -/
def runBlocks (c : Nat) (orc : Orc) (bs : List BB) : Nat → Nat → List Leaf
  | 0, _ => []
  | n + 1, cur =>
    match bs[cur]? with
    | none => []
    | some bb =>
      runB c orc bb.body [n] ++
        (match bb.term with
         | .ret => []
         | .br t => runBlocks c orc bs n t
         | .cbr k t e =>
           if (orc k 3 [n]).headD 0 ≠ 0 then runBlocks c orc bs n t else runBlocks c orc bs n e)

def runF (core : Nat) (orc : Orc) (f : Func) (fuel entry : Nat) : List Leaf :=
  runBlocks (coreOf f core) orc f.blocks fuel entry

/-- the rule of the property: who may execute an op -/
def allowed (r : Bool) (nb core : Nat) (l : Leaf) : Bool :=
  (!(dmOf l) || decide (core = nb - 1)) && (!(cpOf r l) || decide (core = 0))

/-! ## a concrete oracle for the driver (shared with the harness interpreter) -/

def mix (seed k : Nat) (p : List Nat) : Nat :=
  p.foldl (fun a x => (a * 31 + x + 1) % 1000003) ((seed * 7919 + k * 104729 + 17) % 1000003)

def stdOrc (seed : Nat) : Orc := fun k kind p =>
  let h := mix seed k p
  match kind with
  | 0 => [h % 2]
  | 1 => List.replicate (h % 3) 0
  | 3 => [h % 2]
  | _ => (List.range (h % 3)).map (fun i => (h / 3 + i) % 3)

end SnaxVerif.Dispatch
