import SnaxVerif.Model.Stream
import SnaxVerif.Model.Tsl
/-!
C02, layout side: the byte layout expression that `dart-layout-resolution` composes with the schedule pattern
(`MemRefType.get_affine_map_in_bytes`) for a memref with a static tiled-strided layout, built from the model of
`TiledStridedLayoutAttr.get_affine_map` (C10, `Model/Tsl.lean`), and the ALIGNMENT condition under which the
unit-response stride extraction of the pass is exact (`Props/C02.lean`, `tsl_linear_of_aligned`).

No Mathlib import: this file is linked into the driver executable.
-/
namespace SnaxVerif.Stream
open SnaxVerif SnaxVerif.Tsl

/-- `memref_type.get_affine_map_in_bytes()` for a TSL layout: `layout.get_affine_map()` (the layout's `offset` is NOT
    part of that map — the code ignores it) with the single result multiplied by the element size in bytes
    (xDSL: `result * self.element_type.size`, the smart `*`). -/
def tslBytes (lay : SLayout) (el : Nat) : Except Tsl.Err AExpr :=
  match (ofStatic lay).affineMap with
  | .error e => .error e
  | .ok e => .ok (AExpr.smartMulC e (el : Int))

/-! ### digits -/

/-- a coefficient vector over the schedule dimensions, as a function of the dimension index -/
def cf (d : List Nat) : Nat → Nat := fun k => d.getD k 0

/-- `Σ_k f k · y_k` -/
def dotF (f : Nat → Nat) : List Nat → Nat
  | [] => 0
  | y :: ys => f 0 * y + dotF (fun k => f (k + 1)) ys

/-- the operand index that digits `ds` (outermost tile first) denote: `Σ_t ds_t · Π_{u>t} bound_u` -/
def valueOf : List SStride → List Nat → Nat
  | [], _ => 0
  | _ :: r, ds => ds.headD 0 * prodB r + valueOf r ds.tail

/-- `Σ_t step_t · ds_t` -/
def stepSum : List SStride → List Nat → Nat
  | [], _ => 0
  | s :: r, ds => s.step * ds.headD 0 + stepSum r ds.tail

/-- coefficient (w.r.t. schedule dimension `k`) of the operand index, when tile `t`'s digit is `Σ_k Dt[t][k]·x_k` -/
def valueCoef : List SStride → List (List Nat) → Nat → Nat
  | [], _, _ => 0
  | _ :: r, Dt, k => cf (Dt.headD []) k * prodB r + valueCoef r Dt.tail k

/-- coefficient of the address contributed by one operand dimension -/
def stepCoef : List SStride → List (List Nat) → Nat → Nat
  | [], _, _ => 0
  | s :: r, Dt, k => s.step * cf (Dt.headD []) k + stepCoef r Dt.tail k

/-- every digit of the given tiles stays below the tile's bound at the largest point of the box -/
def tilesBounded (maxpt : List Nat) : List SStride → List (List Nat) → Bool
  | [], _ => true
  | s :: r, Dt => decide (dotF (cf (Dt.headD [])) maxpt < s.bound) && tilesBounded maxpt r Dt.tail

/-- the pattern row is the digit combination, coefficient by coefficient -/
def rowMatches (l : List SStride) (Dt : List (List Nat)) : Nat → List Int → Bool
  | _, [] => true
  | k, c :: cs => decide (c = (valueCoef l Dt k : Int)) && rowMatches l Dt (k + 1) cs

/-- one operand dimension: row of the pattern, tiles of the layout (outermost first), digit vectors per tile.
    The outermost tile's digit is unbounded (as in `get_affine_map`). -/
def rowAligned (n : Nat) (maxpt : List Nat) (l : List SStride) (row : List Int) (Dt : List (List Nat)) : Bool :=
  decide (row.length = n) && rowMatches l Dt 0 row && tilesBounded maxpt l.tail Dt.tail

def rowsAligned (n : Nat) (maxpt : List Nat) : SLayout → List (List Int) → List (List (List Nat)) → Bool
  | [], [], _ => true
  | l :: ls, row :: rows, D => rowAligned n maxpt l row (D.headD []) && rowsAligned n maxpt ls rows D.tail
  | _, _, _ => false

/-- **the alignment check** (decidable, on the inputs of layout resolution): the pattern has no constant term, and
    with the digit assignment `D` (per operand dimension, per tile, one non-negative coefficient per schedule
    dimension) every operand index is the mixed-radix value of digits that stay inside their tiles on the whole box. -/
def alignedB (lay : SLayout) (A : List (List Int)) (b : List Int) (bounds : List Nat) (D : List (List (List Nat))) :
    Bool :=
  decide (b.length = A.length) && b.all (fun c => decide (c = 0)) &&
    rowsAligned bounds.length (bounds.map (· - 1)) lay A D

/-- `TiledStride.canonicalize` on static strides (the same function as `Tsl.canonS` of the C10 lemmas, repeated here
    because the driver cannot import a Mathlib-dependent file; `squash_eq_canonS` proves them equal): unit bounds are
    dropped, a tile whose step continues the tile inside it (`step = inner.step * inner.bound`) is merged with it. -/
def squash : List SStride → List SStride
  | [] => []
  | s :: r =>
    match squash r with
    | [] => [s]
    | h :: t =>
      if s.bound = 1 then h :: t
      else if h.step ≠ 0 ∧ h.bound ≠ 0 ∧ s.bound ≠ 0 ∧ s.step = h.step * h.bound then
        ⟨h.step, h.bound * s.bound⟩ :: t
      else s :: h :: t

/-- all digits (also the outermost) stay inside their tiles: the operand index stays inside the shape -/
def rowsFull (maxpt : List Nat) : SLayout → List (List (List Nat)) → Bool
  | [], _ => true
  | l :: ls, D => tilesBounded maxpt l (D.headD []) && rowsFull maxpt ls D.tail

/-- **alignment against the canonical (squashed) layout**: covers schedule dimensions that run across tiles which
    continue each other in memory. The indices additionally have to stay inside the shape (only there does
    canonicalisation preserve the address function). -/
def alignedCanonB (lay : SLayout) (A : List (List Int)) (b : List Int) (bounds : List Nat)
    (D : List (List (List Nat))) : Bool :=
  alignedB (lay.map squash) A b bounds D && rowsFull (bounds.map (· - 1)) (lay.map squash) D

/-- total address coefficient of schedule dimension `k` (in elements) -/
def totalCoef : SLayout → List (List (List Nat)) → Nat → Nat
  | [], _, _ => 0
  | l :: ls, D, k => stepCoef l (D.headD []) k + totalCoef ls D.tail k

/-- the strides (in bytes) that an aligned operand must get -/
def alignedStrides (lay : SLayout) (el : Nat) (D : List (List (List Nat))) (n : Nat) : List Int :=
  (List.range n).map fun k => ((el * totalCoef lay D k : Nat) : Int)

/-! ### a digit assignment computed from the inputs (no completeness claim: `alignedB` judges the result) -/

/-- inner products `Π_{u>t} bound_u` of the tiles, outermost first -/
def innerProds : List SStride → List Nat
  | [] => []
  | _ :: r => prodB r :: innerProds r

/-- index of the first (= outermost) tile whose inner product divides `c` -/
def pickTile (c : Nat) : List Nat → Nat → Option (Nat × Nat)
  | [], _ => none
  | p :: ps, t => if p ≠ 0 ∧ c % p = 0 then some (t, c / p) else pickTile c ps (t + 1)

/-- digit vectors of one operand dimension: coefficient `c` of schedule dim `k` goes to the outermost tile whose
    inner product divides it -/
def autoRow (l : List SStride) (row : List Int) : List (List Nat) :=
  let prods := innerProds l
  (List.range l.length).map fun t =>
    row.map fun (c : Int) =>
      match pickTile c.toNat prods 0 with
      | some (t', m) => if t' = t ∧ 0 < c then m else 0
      | none => 0

def autoDigits (lay : SLayout) (A : List (List Int)) : List (List (List Nat)) :=
  (lay.zip A).map fun x => autoRow x.1 x.2

end SnaxVerif.Stream
