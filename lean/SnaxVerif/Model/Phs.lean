/-! Model of the PHS "processing element" graphs of snax-mlir (C20).

Mirrors (with fix F09 applied, i.e. the operation inside a choose region reads the region's block
arguments by position):
* `snaxc/phs/encode.py`   `convert_generic_body_to_phs`, `get_id`              -> `encode`
* `snaxc/phs/combine.py`  `append_to_abstract_graph`, `uncollide_inputs`, ...  -> `combine`
* `snaxc/phs/decode.py`   `decode_abstract_graph`, `search_mapping`, `valid_mapping` -> `decode`
* `snaxc/dialects/phs.py` `PEOp.get_true_switches`, `is_concrete`, `ChooseOp.insert_operations`

Representation. A `phs.pe` body is a list of choose ops in block order (`nodes`); every `phs.mux` has
exactly one use (an operand slot or the lhs of a younger mux) in every graph the API builds, so muxes are
kept as trees (`Src.mux`) inside the operand that uses them. Block arguments are addressed by absolute
index (data arguments first, then the switches in creation order); switch `s` is block argument
`argTys.length + s`. No Mathlib. -/
namespace SnaxVerif.Phs

/-- an MLIR type: the Python class of the attribute (what `type(a) is type(b)` compares) and its text -/
structure Ty where
  cls : String
  txt : String
deriving DecidableEq, Repr, Inhabited

def indexTy : Ty := ⟨"IndexType", "index"⟩

/-- an operation offered by a choose op: `cls` is the operation name (what `ChooseOp.insert_operations`
compares; it determines the Python class, which is what `decode_abstract_graph` compares), `attr` the printed
properties / attributes that distinguish operations of one class (`slt` of an `arith.cmpi`, the value of an
`arith.constant`; `""` for an operation without any). The semantics may depend on both. -/
structure OpCode where
  cls : String
  attr : String
deriving DecidableEq, Repr, Inhabited

instance : Coe String OpCode := ⟨fun s => ⟨s, ""⟩⟩

/-- which tree is modelled: `fixed = true` is the tree with fixes/DC20a (an offered operation is identified by
name AND properties / attributes: `phs.same_operation`), `fixed = false` the tree before it (name / Python class
only — finding DC20a). Every function below that compares operations takes the variant as an instance. -/
class Variant where
  fixed : Bool

/-- default: the tree as committed (fixes/DC20a applied). Theorems about both trees take the variant as a
variable; `Props/C20.lean` declares the unfixed tree locally for the `_fails` witness. -/
instance Variant.fixedTree : Variant := ⟨true⟩

/-- `same_operation` (fixed) / `operation.name ==`, `type(a) is type(b)` (unfixed) -/
def sameOp [Variant] (a b : OpCode) : Bool := if Variant.fixed then a == b else a.cls == b.cls

variable [Variant]

inductive Src where
  | arg (i : Nat)
  | node (j : Nat)
  | mux (sw : Nat) (l r : Src)
deriving DecidableEq, Repr, Inhabited

structure Node where
  id : String
  ops : List OpCode
  operands : List Src
  sw : Nat
  resTy : Ty
deriving DecidableEq, Repr, Inhabited

inductive SwUse where
  | choose (j : Nat)
  | mux
deriving DecidableEq, Repr, Inhabited

structure PE where
  argTys : List Ty
  nodes : List Node
  yld : Src
  switches : List SwUse
deriving DecidableEq, Repr, Inhabited

inductive Err where
  | assertion | notImplemented | indexError | valueError | mappingNotFound | malformed
deriving DecidableEq, Repr, Inhabited

def Err.name : Err → String
  | .assertion => "AssertionError" | .notImplemented => "NotImplementedError" | .indexError => "IndexError"
  | .valueError => "ValueError" | .mappingNotFound => "MappingNotFoundError" | .malformed => "Malformed"

/-- what an operand resolves to when muxes are followed: a block argument or a choose op (by name) -/
inductive Leaf where
  | arg (i : Nat)
  | name (s : String)
deriving DecidableEq, Repr, Inhabited

/-! ### lookups -/

def findId (id : String) : List Node → Nat → Option Nat
  | [], _ => none
  | n :: r, p => if n.id = id then some p else findId id r (p + 1)

/-- `PEOp.get_choose_op`: first choose op of the block with this symbol name -/
def PE.lookup (A : PE) (id : String) : Option Nat := findId id A.nodes 0

def PE.nArgs (A : PE) : Nat := A.argTys.length + A.switches.length

def Src.hasMux : Src → Bool
  | .mux _ _ _ => true
  | _ => false

def PE.srcTy (A : PE) (nSw : Nat) : Src → Option Ty
  | .arg i => if i < A.argTys.length then A.argTys[i]? else if i < A.argTys.length + nSw then some indexTy else none
  | .node j => (A.nodes[j]?).map (·.resTy)
  | .mux _ l _ => A.srcTy nSw l

/-- the leaf a mux-free operand denotes -/
def PE.leafOf (A : PE) : Src → Option Leaf
  | .arg i => some (.arg i)
  | .node j => (A.nodes[j]?).map fun n => .name n.id
  | .mux _ _ _ => none

/-- `get_abstract_possibilities` -/
def PE.poss (A : PE) : Src → List Leaf
  | .arg i => [.arg i]
  | .node j => match A.nodes[j]? with
    | some n => [.name n.id]
    | none => []
  | .mux _ l r => A.poss l ++ A.poss r

/-- `_follow_operand` under a mux assignment (`1` selects rhs, anything else lhs) -/
def PE.follow (A : PE) (m : Nat → Nat) : Src → Option Leaf
  | .arg i => some (.arg i)
  | .node j => (A.nodes[j]?).map fun n => .name n.id
  | .mux s l r => if m s = 1 then A.follow m r else A.follow m l

/-! ### kernel bodies and `encode` -/

inductive KSrc where
  | arg (i : Nat)
  | res (j : Nat)
deriving DecidableEq, Repr, Inhabited

structure KOp where
  name : OpCode
  operands : List KSrc
  resTy : Ty
deriving DecidableEq, Repr, Inhabited

/-- body of a `linalg.generic`: block argument types, the operations, the yielded value -/
structure KBody where
  argTys : List Ty
  ops : List KOp
  yld : KSrc
deriving DecidableEq, Repr, Inhabited

def KSrc.isArg (i : Nat) : KSrc → Bool
  | .arg k => k == i
  | .res _ => false

def KBody.argUsed (b : KBody) (i : Nat) : Bool :=
  b.ops.any (fun o => o.operands.any (KSrc.isArg i)) || b.yld.isArg i

/-- index of block argument `i` after the unused arguments in front of it were erased -/
def KBody.renum (b : KBody) (i : Nat) : Nat :=
  ((List.range i).filter b.argUsed).length

def KBody.conv (b : KBody) : KSrc → Src
  | .arg i => .arg (b.renum i)
  | .res j => .node j

def KBody.srcTy (b : KBody) : KSrc → Option Ty
  | .arg i => b.argTys[i]?
  | .res j => (b.ops[j]?).map (·.resTy)

/-- the type part of `get_id` -/
def idKey (opTys : List Ty) (resTy : Ty) : String :=
  "i_" ++ String.join (opTys.map fun t => t.txt ++ "_") ++ "o_" ++ resTy.txt ++ "_"

def KBody.keyOf (b : KBody) (o : KOp) : Option String :=
  (o.operands.mapM b.srcTy).map fun tys => idKey tys o.resTy

/-- reference well-formedness of a body (what building the IR enforces) -/
def KBody.srcOk (b : KBody) (below : Nat) : KSrc → Bool
  | .arg i => i < b.argTys.length
  | .res j => j < below

def KBody.wf (b : KBody) : Bool :=
  (List.range b.ops.length).all (fun j => match b.ops[j]? with
    | some o => o.operands.all (b.srcOk j)
    | none => false) && b.srcOk b.ops.length b.yld

def encodeNodes (b : KBody) : List KOp → Nat → List String → Except Err (List Node)
  | [], _, _ => .ok []
  | o :: r, j, seen =>
    match b.keyOf o with
    | none => .error .malformed
    | some key =>
      let cnt := (seen.filter (· = key)).length
      match encodeNodes b r (j + 1) (seen ++ [key]) with
      | .error e => .error e
      | .ok ns => .ok ((⟨key ++ toString cnt, [o.name], o.operands.map b.conv, j, o.resTy⟩ : Node) :: ns)

/-- `convert_generic_body_to_phs` -/
def encode (b : KBody) : Except Err PE :=
  if !b.wf then .error .malformed else
  match encodeNodes b b.ops 0 [] with
  | .error e => .error e
  | .ok ns => .ok { argTys := ((List.range b.argTys.length).filter b.argUsed).filterMap (b.argTys[·]?),
                    nodes := ns, yld := b.conv b.yld,
                    switches := (List.range b.ops.length).map .choose }

/-! ### `combine` -/

/-- `get_equivalent_owner` (`nArgs` = current number of block arguments of the abstract graph) -/
def equivOwner (G A : PE) (nArgs : Nat) : Src → Except Err Src
  | .arg i => if i < nArgs then .ok (.arg i) else .error .indexError
  | .node j => match G.nodes[j]? with
    | none => .error .malformed
    | some g => match A.lookup g.id with
      | none => .error .assertion
      | some a => .ok (.node a)
  | .mux _ _ _ => .error .notImplemented

/-- `are_equivalent` -/
def areEquivalent (G A : PE) (g a : Src) : Bool :=
  match G.leafOf g with
  | some l => (A.poss a).contains l
  | none => false

/-- `uncollide_inputs` on the operand lists; `ns` = number of switches so far. Returns the new operand
list of the abstract op and the new number of switches (all added switches drive muxes). -/
def uncollideList (G A : PE) : List Src → List Src → Nat → Except Err (List Src × Nat)
  | [], [], ns => .ok ([], ns)
  | g :: gs, a :: as, ns =>
    if areEquivalent G A g a then
      match uncollideList G A gs as ns with
      | .error e => .error e
      | .ok (r, ns') => .ok (a :: r, ns')
    else
      match equivOwner G A (A.argTys.length + ns) g with
      | .error e => .error e
      | .ok o =>
        match uncollideList G A gs as (ns + 1) with
        | .error e => .error e
        | .ok (r, ns') => .ok (.mux ns a o :: r, ns')
  | _, _, _ => .error .valueError

/-- `zip(..., strict=True)` with `assert type(a) is type(b)` -/
def checkTys : List Ty → List Ty → Except Err Unit
  | [], [] => .ok ()
  | x :: xs, y :: ys => if x.cls = y.cls then checkTys xs ys else .error .assertion
  | _, _ => .error .valueError

/-- `ChooseOp.insert_operations`: append the operations whose *name* is not present yet (attributes are NOT
compared: an operation of a class that is present with other attributes is silently dropped — finding DC20a).
The real code rebuilds an appended operation as `type(operation)(*block.args)`, which raises `TypeError` for
an operation that needs attributes; no generated history reaches that (every attributed class of the
generators is the only class of its type signature), so it is not modelled. -/
def hasClass (cur : List OpCode) (c : OpCode) : Bool := cur.any fun x => sameOp x c

def insertOps (cur : List OpCode) : List OpCode → List OpCode
  | [] => cur
  | o :: r => insertOps (if hasClass cur o then cur else cur ++ [o]) r

def mapExcept {α β} (f : α → Except Err β) : List α → Except Err (List β)
  | [] => .ok []
  | a :: r => match f a with
    | .error e => .error e
    | .ok b => match mapExcept f r with
      | .error e => .error e
      | .ok bs => .ok (b :: bs)

def optTys (l : List (Option Ty)) : Except Err (List Ty) :=
  mapExcept (fun o => match o with | some t => .ok t | none => .error .malformed) l

/-- one `phs.choose` of the concrete graph `G` is merged into `A` -/
def combineNode (G A : PE) (g : Node) : Except Err PE :=
  match A.lookup g.id with
  | none =>
    match mapExcept (equivOwner G A A.nArgs) g.operands with
    | .error e => .error e
    | .ok owners =>
      match optTys (g.operands.map (G.srcTy G.switches.length)), optTys (owners.map (A.srcTy (A.switches.length + 1))) with
      | .ok gt, .ok at_ =>
        match checkTys gt at_ with
        | .error e => .error e
        | .ok () =>
          let n : Node := ⟨g.id, g.ops, owners, A.switches.length, g.resTy⟩
          .ok { A with nodes := A.nodes ++ [n], switches := A.switches ++ [.choose A.nodes.length] }
      | _, _ => .error .malformed
  | some ai =>
    match A.nodes[ai]? with
    | none => .error .malformed
    | some a =>
      match optTys (g.operands.map (G.srcTy G.switches.length)), optTys (a.operands.map (A.srcTy A.switches.length)) with
      | .ok gt, .ok at_ =>
        match checkTys gt at_ with
        | .error e => .error e
        | .ok () =>
          match checkTys [g.resTy] [a.resTy] with
          | .error e => .error e
          | .ok () =>
            match uncollideList G A g.operands a.operands A.switches.length with
            | .error e => .error e
            | .ok (opnds, ns) =>
              let n : Node := ⟨a.id, insertOps a.ops g.ops, opnds, a.sw, a.resTy⟩
              .ok { A with nodes := A.nodes.set ai n,
                           switches := A.switches ++ List.replicate (ns - A.switches.length) .mux }
      | _, _ => .error .malformed

def combineNodes (G : PE) : List Node → PE → Except Err PE
  | [], A => .ok A
  | g :: r, A => match combineNode G A g with
    | .error e => .error e
    | .ok A' => combineNodes G r A'

def combineYield (G A : PE) : Except Err PE :=
  match uncollideList G A [G.yld] [A.yld] A.switches.length with
  | .error e => .error e
  | .ok ([y], ns) => .ok { A with yld := y, switches := A.switches ++ List.replicate (ns - A.switches.length) .mux }
  | .ok _ => .error .malformed

def Node.anyMux (n : Node) : Bool := n.operands.any Src.hasMux

/-- `append_to_abstract_graph(graph := G, abstract_graph := A)` -/
def combine (A G : PE) : Except Err PE :=
  if G.nodes.any Node.anyMux || G.yld.hasMux then .error .notImplemented else
  match combineNodes G G.nodes A with
  | .error e => .error e
  | .ok A' => combineYield G A'

/-- a merge history: the first kernel is the element, the others are appended in order -/
def mergeAll : PE → List PE → Except Err PE
  | A, [] => .ok A
  | A, g :: r => match combine A g with
    | .error e => .error e
    | .ok A' => mergeAll A' r

/-! ### `decode` -/

/-- `PEOp.is_concrete` -/
def PE.isConcrete (K : PE) : Bool :=
  K.nodes.all (fun n => n.ops.length == 1 && !n.anyMux) && !K.yld.hasMux

/-- `PEOp.get_true_switches` -/
def swCounts (A : PE) : SwUse → Bool
  | .mux => true
  | .choose j => match A.nodes[j]? with
    | some n => decide (n.ops.length > 1)
    | none => false

def PE.trueSwitches (A : PE) : Nat := (A.switches.filter (swCounts A)).length

inductive Pre where
  | skip
  | val (n : Nat)
  | muxP (s : Nat)
deriving DecidableEq, Repr, Inhabited

/-- first offered operation of the same CLASS as `t` (`type(target_operation) is type(operation)`) -/
def idxOf (t : OpCode) : List OpCode → Nat → Option Nat
  | [], _ => none
  | o :: r, p => if sameOp o t then some p else idxOf t r (p + 1)

/-- the local decision for switch number `s` -/
def localChoice (A K : PE) (s : Nat) : SwUse → Except Err Pre
  | .mux => .ok (.muxP s)
  | .choose j => match A.nodes[j]? with
    | none => .error .malformed
    | some a =>
      if a.ops.length = 1 then .ok .skip else
      match K.lookup a.id with
      | none => .ok (.val 0)
      | some kc => match K.nodes[kc]? with
        | none => .error .malformed
        | some k => match k.ops.head? with
          | none => .error .malformed
          | some t => match idxOf t a.ops 0 with
            | some i => .ok (.val i)
            | none => .error .mappingNotFound

def localChoices (A K : PE) : List SwUse → Nat → Except Err (List Pre)
  | [], _ => .ok []
  | u :: r, s => match localChoice A K s u with
    | .error e => .error e
    | .ok p => match localChoices A K r (s + 1) with
      | .error e => .error e
      | .ok ps => .ok (p :: ps)

/-- operands of one op of `valid_mapping` -/
def validOperands (K A : PE) (m : Nat → Nat) : List Src → List Src → Except Err Bool
  | [], [] => .ok true
  | k :: ks, a :: as =>
    match K.leafOf k with
    | none => .error .notImplemented
    | some l => if A.follow m a = some l then validOperands K A m ks as else .ok false
  | _, _ => .error .valueError

def validNodes (K A : PE) (m : Nat → Nat) : List Node → Except Err Bool
  | [] => .ok true
  | k :: r => match A.lookup k.id with
    | none => .error .assertion
    | some ai => match A.nodes[ai]? with
      | none => .error .malformed
      | some a => match validOperands K A m k.operands a.operands with
        | .error e => .error e
        | .ok false => .ok false
        | .ok true => validNodes K A m r

/-- `valid_mapping` -/
def validMapping (K A : PE) (m : Nat → Nat) : Except Err Bool :=
  match validNodes K A m K.nodes with
  | .error e => .error e
  | .ok false => .ok false
  | .ok true => validOperands K A m [K.yld] [A.yld]

def upd (m : Nat → Nat) (s v : Nat) : Nat → Nat := fun x => if x = s then v else m x

/-- `search_mapping`: all assignments of the mux switches in lexicographic order, first valid one -/
def search (check : (Nat → Nat) → Except Err Bool) : List Nat → (Nat → Nat) → Except Err (Option (Nat → Nat))
  | [], m => match check m with
    | .error e => .error e
    | .ok true => .ok (some m)
    | .ok false => .ok none
  | s :: r, m => match search check r (upd m s 0) with
    | .error e => .error e
    | .ok (some sol) => .ok (some sol)
    | .ok none => search check r (upd m s 1)

def muxSwitches : List Pre → List Nat
  | [] => []
  | .muxP s :: r => s :: muxSwitches r
  | _ :: r => muxSwitches r

def finalVals (m : Nat → Nat) : List Pre → List Nat
  | [] => []
  | .skip :: r => finalVals m r
  | .val n :: r => n :: finalVals m r
  | .muxP s :: r => m s :: finalVals m r

/-- `decode_abstract_graph(abstract_graph := A, graph := K)` -/
def decode (A K : PE) : Except Err (List Nat) :=
  if !K.isConcrete then .error .assertion else
  if K.argTys.length ≠ A.argTys.length then .error .assertion else
  match localChoices A K A.switches 0 with
  | .error e => .error e
  | .ok pre =>
    match search (validMapping K A) (muxSwitches pre) (fun _ => 0) with
    | .error e => .error e
    | .ok none => .error .mappingNotFound
    | .ok (some m) => .ok (finalVals m pre)

/-- how the hardware consumes the decoded values: one-operation choose ops have no switch -/
def expandFrom (A : PE) : List SwUse → List Nat → List Nat
  | [], _ => []
  | u :: r, vs =>
    if swCounts A u then
      match vs with
      | v :: vs' => v :: expandFrom A r vs'
      | [] => 0 :: expandFrom A r []
    else 0 :: expandFrom A r vs

def PE.expand (A : PE) (vs : List Nat) : List Nat := expandFrom A A.switches vs

/-- the switch valuation seen by the processing element -/
def PE.assign (A : PE) (vs : List Nat) : Nat → Nat := fun s => (A.expand vs).getD s 0

/-! ### semantics -/

def mapOpt {α β} (f : α → Option β) : List α → Option (List β)
  | [] => some []
  | a :: r => match f a with
    | none => none
    | some b => match mapOpt f r with
      | none => none
      | some bs => some (b :: bs)

/-! ### semantics of a `linalg.generic` body (reference for `encode`) -/

def lookupV {V : Type} (inp res : List V) : KSrc → Option V
  | .arg i => inp[i]?
  | .res j => res[j]?

def evalOps {V : Type} (sem : OpCode → List V → V) (inp : List V) : List KOp → List V → Option (List V)
  | [], res => some res
  | o :: r, res => match mapOpt (lookupV inp res) o.operands with
    | none => none
    | some vs => evalOps sem inp r (res ++ [sem o.name vs])

/-- value of the body on the values `inp` of ALL its block arguments -/
def KBody.eval {V : Type} (sem : OpCode → List V → V) (b : KBody) (inp : List V) : Option V :=
  match evalOps sem inp b.ops [] with
  | none => none
  | some res => lookupV inp res b.yld

/-- the data ports of the encoded kernel: the block arguments that are used, in order -/
def KBody.usedInputs {V : Type} (b : KBody) (inp : List V) : List V :=
  ((List.range b.argTys.length).filter b.argUsed).filterMap (inp[·]?)

/-- executable evaluator (fuel = maximal depth): the value of a source under the switch valuation `swv`,
data inputs `inp` and operation semantics `sem` -/
def evalF {V : Type} (sem : OpCode → List V → V) (A : PE) (swv : Nat → Nat) (inp : List V) : Nat → Src → Option V
  | 0, _ => none
  | _ + 1, .arg i => if i < A.argTys.length then inp[i]? else none
  | f + 1, .mux s l r => if swv s = 1 then evalF sem A swv inp f r else evalF sem A swv inp f l
  | f + 1, .node j => match A.nodes[j]? with
    | none => none
    | some n => match n.ops[swv n.sw]? with
      | none => none
      | some op => (mapOpt (evalF sem A swv inp f) n.operands).map (sem op)

def srcDepth : Src → Nat
  | .mux _ l r => Nat.max (srcDepth l) (srcDepth r) + 1
  | _ => 1

def PE.fuel (A : PE) : Nat :=
  (A.nodes.length + 1) * ((A.nodes.foldl (fun acc n => n.operands.foldl (fun a s => Nat.max a (srcDepth s)) acc) (srcDepth A.yld)) + 1) + 1

def PE.eval {V : Type} (sem : OpCode → List V → V) (A : PE) (swv : Nat → Nat) (inp : List V) : Option V :=
  evalF sem A swv inp A.fuel A.yld

/-- relational semantics: `Computes … s v` — the dataflow graph delivers `v` at `s`. No evaluation order,
no fuel: a derivation is a finite acyclic evaluation along the selected paths. -/
inductive Computes {V : Type} (sem : OpCode → List V → V) (A : PE) (swv : Nat → Nat) (inp : List V) : Src → V → Prop
  | arg {i v} : i < A.argTys.length → inp[i]? = some v → Computes sem A swv inp (.arg i) v
  | muxL {s l r v} : swv s ≠ 1 → Computes sem A swv inp l v → Computes sem A swv inp (.mux s l r) v
  | muxR {s l r v} : swv s = 1 → Computes sem A swv inp r v → Computes sem A swv inp (.mux s l r) v
  | node {j n op vs} : A.nodes[j]? = some n → n.ops[swv n.sw]? = some op → vs.length = n.operands.length →
      (∀ i (h : i < n.operands.length) (h' : i < vs.length), Computes sem A swv inp n.operands[i] vs[i]) →
      Computes sem A swv inp (.node j) (sem op vs)

/-- free (Herbrand) semantics used by the driver: values are terms -/
inductive HTerm where
  | inp (i : Nat)
  | app (op : OpCode) (args : List HTerm)
deriving Inhabited

/-! ### structural well-formedness checked on every real graph by the harness -/

def srcRefsOk (A : PE) (below : Nat) : Src → Bool
  | .arg i => i < A.nArgs
  | .node j => j < below
  | .mux s l r => s < A.switches.length && srcRefsOk A below l && srcRefsOk A below r

/-- ids are pairwise distinct -/
def uniqueIds : List Node → Bool
  | [] => true
  | n :: r => (findId n.id r 0).isNone && uniqueIds r

/-- every use precedes... every operand of node `k` refers to nodes in front of it (SSA dominance in the block) -/
def PE.ssaOk (A : PE) : Bool :=
  (List.range A.nodes.length).all (fun k => match A.nodes[k]? with
    | some n => n.operands.all (srcRefsOk A k)
    | none => false) && srcRefsOk A A.nodes.length A.yld

def srcMuxOk (A : PE) : Src → Bool
  | .mux s l r => decide (A.switches[s]? = some .mux) && srcMuxOk A l && srcMuxOk A r
  | _ => true

/-- no two DIFFERENT operations of one class (what `insert_operations` maintains; decoding picks by class) -/
def classFun (l : List OpCode) : Bool := l.all fun o => l.all fun o' => !sameOp o o' || o == o'

def nodeOk (A : PE) (n : Node) : Bool := !n.ops.isEmpty && n.operands.all (srcMuxOk A) && classFun n.ops

def nodeSwOk (A : PE) (j : Nat) : Bool :=
  match A.nodes[j]? with
  | some n => decide (A.switches[n.sw]? = some (.choose j))
  | none => false

/-- structural invariants of a `phs.pe` that the IR itself guarantees (symbol names unique, every choose op
has a default region, every mux / choose op is driven by its own switch block argument) -/
def PE.wf (A : PE) : Bool :=
  uniqueIds A.nodes && A.nodes.all (nodeOk A) && srcMuxOk A A.yld && (List.range A.nodes.length).all (nodeSwOk A)

def coversNode (A : PE) (k : Node) : Bool :=
  match A.lookup k.id with
  | none => false
  | some ai => match A.nodes[ai]? with
    | none => false
    | some a => k.ops.all (fun o => a.ops.contains o)

/-- every operation of every choose op of `K` is offered by the choose op of `A` with the same name
(what merging `K` into `A` establishes) -/
def covers (A K : PE) : Bool := K.nodes.all (coversNode A)

/-! ### `PEOp.from_operations` -/

def checkOpsTys (tys0 : List Ty) (res0 : Ty) : List (OpCode × List Ty × Ty) → Except Err Unit
  | [] => .ok ()
  | (_, tys, res) :: r => match checkTys tys0 tys with
    | .error e => .error e
    | .ok () => match checkTys [res0] [res] with
      | .error e => .error e
      | .ok () => checkOpsTys tys0 res0 r

/-- `PEOp.from_operations`: one choose op `"0"` offering all the operations; its data operands are the data
ports, one per operand position of the operations (operand `i` of every operation reads port `i`: F09) -/
def peFromOperations : List (OpCode × List Ty × Ty) → Except Err PE
  | [] => .error .indexError
  | (n0, tys0, res0) :: r => match checkOpsTys tys0 res0 r with
    | .error e => .error e
    | .ok () => .ok { argTys := tys0,
                      nodes := [⟨"0", n0 :: r.map (·.1), (List.range tys0.length).map Src.arg, 0, res0⟩],
                      yld := .node 0, switches := [.choose 0] }

/-- all operations of all choose ops of a list of graphs -/
def allOps (gs : List PE) : List OpCode := gs.flatMap fun g => g.nodes.flatMap (·.ops)

/-- every choose switch has its choose op (the switch block argument has a user) -/
def swTargetsOk (A : PE) : Bool :=
  A.switches.all fun u => match u with
    | .choose j => (A.nodes[j]?).isSome
    | .mux => true

def srcRefOk (A : PE) : Src → Bool
  | .node j => (A.nodes[j]?).isSome
  | .arg _ => true
  | .mux _ l r => srcRefOk A l && srcRefOk A r

/-- every operand that names a choose op names one of this graph -/
def PE.refsOk (A : PE) : Bool := A.nodes.all (fun n => n.operands.all (srcRefOk A)) && srcRefOk A A.yld

/-- a kernel as `convert_generic_body_to_phs` produces it: structurally well-formed, concrete, every switch
and every operand refers to a choose op of the kernel -/
def PE.kwf (K : PE) : Bool := K.wf && K.isConcrete && swTargetsOk K && K.refsOk

end SnaxVerif.Phs
