/-!
# C04 (a) — register maps of the CSR-configured accelerators

Model of the name -> CSR-address tables built by `generate_acc_op()` of
`snaxc/accelerators/{snax_alu,snax_gemmx,snax_xdma,snax_phs,snax_hwpe_mult,gemmini}.py` and of the helpers
`SNAXStreamer.get_streamer_setup_fields / get_xdma_streamer_setup_fields / get_streamer_setup_dict /
get_streamer_launch_dict` (`snaxc/accelerators/snax.py`) and `get_xdma_streamer_setup_dict`
(`snax_xdma.py`), as functions of the streamer configuration.

Python dictionaries are modelled as association lists with Python's semantics (`dictSet`: an existing key
keeps its position and takes the new value), so a configuration that makes two field names coincide (the
same xDMA extension listed twice) is mirrored, not assumed away.  No Mathlib.
-/
namespace SnaxVerif.RegMap

/-- One `Streamer` as far as the register map depends on it.  The flags are `any(isinstance(opt, X))`
over `streamer.opts`; `exts` lists, in order, `(ext.name, ext.csr_length)` of the options that are
`StreamerExtension`s (only used by the xDMA field list). -/
structure Streamer where
  tdim : Nat
  sdim : Nat
  remap : Bool
  cmask : Bool
  bmask : Bool
  bcast : Bool
  transp : Bool
  exts : List (String × Nat)
deriving Repr, DecidableEq

abbrev Cfg := List Streamer

/-! ## Python dict semantics -/

abbrev Dict := List (String × Nat)

def keys (d : Dict) : List String := d.map (·.1)
def vals (d : Dict) : List Nat := d.map (·.2)

/-- `d[k] = v` -/
def dictSet (d : Dict) (k : String) (v : Nat) : Dict :=
  if d.any (fun e => e.1 == k) then d.map (fun e => if e.1 == k then (e.1, v) else e) else d ++ [(k, v)]

/-- `d.update(ps)` / `{**d, k1: v1, …}` -/
def dictUpdate (d : Dict) (ps : List (String × Nat)) : Dict := ps.foldl (fun d e => dictSet d e.1 e.2) d

/-- `{k: v for k, v in ps}` -/
def dictOf (ps : List (String × Nat)) : Dict := dictUpdate [] ps

def lookup (d : Dict) (k : String) : Option Nat := (d.find? (fun e => e.1 == k)).map (·.2)

/-- `[(key, base + i) for i, key in enumerate(fields)]` -/
def enumFrom (base : Nat) : List String → List (String × Nat)
  | [] => []
  | f :: fs => (f, base) :: enumFrom (base + 1) fs

/-! ## Field lists -/

def alphabet : List String :=
  ["a", "b", "c", "d", "e", "f", "g", "h", "i", "j", "k", "l", "m", "n", "o", "p", "q", "r", "s", "t", "u", "v",
   "w", "x", "y", "z"]

/-- `zip(self.streamer_names, streamers)` with `streamer_names = ascii_lowercase[:size]` (truncates at 26). -/
def named (cfg : Cfg) : List (String × Streamer) := (alphabet.take cfg.length).zip cfg

/-- `[f"{nm}_{suf}_{i}" for i in range(n)]` -/
def idx (nm suf : String) (n : Nat) : List String :=
  (List.range n).map (fun i => nm ++ "_" ++ suf ++ "_" ++ toString i)

/-- `[f"{pre}{i}" for i in range(n)]` -/
def numbered (pre : String) (n : Nat) : List String := (List.range n).map (fun i => pre ++ toString i)

def streamerFields (nm : String) (s : Streamer) : List String :=
  [nm ++ "_ptr_low", nm ++ "_ptr_high"] ++ idx nm "sstride" s.sdim ++ idx nm "bound" s.tdim
    ++ idx nm "tstride" s.tdim
    ++ (if s.remap then [nm ++ "_address_remap"] else [])
    ++ (if s.cmask then [nm ++ "_channel_mask"] else [])

/-- `SNAXStreamer.get_streamer_setup_fields` -/
def setupFields (cfg : Cfg) : List String :=
  (named cfg).flatMap (fun p => streamerFields p.1 p.2)
    ++ (named cfg).flatMap (fun p => if p.2.transp then [p.1 ++ "_transpose"] else [])
    ++ (named cfg).flatMap (fun p => if p.2.bcast then [p.1 ++ "_broadcast"] else [])

def xdmaStreamerFields (nm : String) (s : Streamer) : List String :=
  idx nm "sstride" s.sdim ++ idx nm "bound" s.tdim ++ idx nm "tstride" s.tdim
    ++ (if s.cmask then [nm ++ "_enabled_chan"] else [])      -- fix F14 (d3cca53): only with HasChannelMask
    ++ (if s.bmask then [nm ++ "_enabled_byte"] else [])
    ++ [nm ++ "_bypass"]
    ++ s.exts.flatMap (fun e => idx nm e.1 e.2)

/-- `SNAXStreamer.get_xdma_streamer_setup_fields` -/
def xdmaSetupFields (cfg : Cfg) : List String :=
  (named cfg).flatMap (fun p => [p.1 ++ "_ptr_low", p.1 ++ "_ptr_high"])
    ++ (named cfg).flatMap (fun p => xdmaStreamerFields p.1 p.2)

/-! ## Register maps -/

/-- What `generate_acc_op()` declares, plus the addresses the code reserves without naming them
(`reserved`: busy + performance counter after the streamer launch register, the xDMA multicast
gap, the HWPE "clear" register written by its barrier). -/
structure RegMap where
  fields : Dict
  launch : Dict
  barrier : Nat
  reserved : List Nat
deriving Repr, DecidableEq

def RegMap.addrs (m : RegMap) : List Nat := vals m.fields ++ vals m.launch ++ [m.barrier] ++ m.reserved

def base : Nat := 0x3C0

/-- `get_streamer_setup_dict(base)` = `(base + len, dict)` and `get_streamer_launch_dict` = `(a + 1 + 2, dict)`. -/
def streamerSetupDict (b : Nat) (sf : List String) : Nat × Dict := (b + sf.length, dictOf (enumFrom b sf))
def streamerLaunchDict (b : Nat) (lf : List String) : Nat × Dict := (b + lf.length + 2, dictOf (enumFrom b lf))

/-- Common shape of `generate_acc_op` of the streamer accelerators (alu, gemmx, phs):
`addr_next, streamer_setup = get_streamer_setup_dict(base)`, `addr_next, streamer_launch =
get_streamer_launch_dict(addr_next)`, then the dict displays `{**streamer_setup, <extraF>}`,
`{**streamer_launch, <extraL>}` and the barrier, all relative to `addr_next` (`a`). -/
def mkStreamerMap (b : Nat) (sf : List String) (extraF extraL : Nat → List (String × Nat)) (barrier : Nat → Nat) :
    RegMap :=
  let s := streamerSetupDict b sf
  let l := streamerLaunchDict s.1 ["launch_streamer"]
  let a := l.1
  { fields := dictUpdate s.2 (extraF a)
    launch := dictUpdate l.2 (extraL a)
    barrier := barrier a
    reserved := [s.1 + 1, s.1 + 2] }

/-- `SNAXAluAccelerator.generate_acc_op` -/
def regMapAlu (cfg : Cfg) : RegMap :=
  mkStreamerMap base (setupFields cfg)
    (fun a => [("alu_mode", a + 0), ("loop_bound_alu", a + 1)])
    (fun a => [("launch_alu", a + 2)])
    (fun a => a + 3)

/-- `ceil(n / 4)` -/
def nbShifts (n : Nat) : Nat := (n + 3) / 4

def gemmxExtraFields (n a : Nat) : List (String × Nat) :=
  [("K", a + 0), ("N", a + 1), ("M", a + 2), ("subtractions", a + 3), ("csr0", a + 4), ("csr1", a + 5)]
    ++ enumFrom (a + 6) (numbered "shift_" (nbShifts n))
    ++ enumFrom (a + 6 + nbShifts n) (numbered "mult_" n)
    ++ [("temporal_loop_bound", a + 6 + nbShifts n + n), ("bypassSIMD", a + 7 + nbShifts n + n)]

/-- `SNAXGEMMXAccelerator.generate_acc_op` (only `n` of `m, n, k` influences the map). -/
def regMapGemmx (cfg : Cfg) (n : Nat) : RegMap :=
  mkStreamerMap base (setupFields cfg) (gemmxExtraFields n)
    (fun a => [("launch_gemmx", a + 8 + nbShifts n + n)])
    (fun a => a + 9 + nbShifts n + n)

/-- `get_phs_switch_setup_dict(a)` = `(a + len, dict)` -/
def phsSwitchDict (a sw : Nat) : Nat × Dict :=
  (a + (numbered "phs_switch_" sw).length, dictOf (enumFrom a (numbered "phs_switch_" sw)))

/-- `SNAXPHSAccelerator.generate_acc_op` with `sw = pe.get_true_switches()`. -/
def regMapPhs (cfg : Cfg) (sw : Nat) : RegMap :=
  mkStreamerMap base (setupFields cfg)
    (fun a => (phsSwitchDict a sw).2 ++ [("loop_bound_alu", (phsSwitchDict a sw).1 + 0)])
    (fun a => [("launch_alu", (phsSwitchDict a sw).1 + 1)])
    (fun a => (phsSwitchDict a sw).1 + 2)

def maxMulticastDest : Nat := 16

/-- `SNAXXDMAAccelerator.generate_acc_op` with `get_xdma_streamer_setup_dict / _launch_dict`. -/
def regMapXdma (cfg : Cfg) : RegMap :=
  let sf := xdmaSetupFields cfg
  let d0 := dictOf (enumFrom base (sf.take 4))
  let d := dictUpdate d0 (enumFrom (base + 2 + 2 * maxMulticastDest) (sf.drop 4))
  let a1 := base + sf.length + 2 * maxMulticastDest - 2
  let l := dictOf (enumFrom a1 ["launch_start"])
  let a2 := a1 + 1
  { fields := d
    launch := l
    barrier := a2 + 2
    reserved := List.range' (base + 4) (2 * maxMulticastDest - 2) ++ [a2, a2 + 1] }

/-- `SNAXHWPEMultAccelerator.generate_acc_op`; 0x3c5 is written by `SNAXPollingBarrier.lower_acc_await`. -/
def regMapHwpe : RegMap :=
  { fields := dictOf [("A", 0x3D0), ("B", 0x3D1), ("O", 0x3D3), ("vector_length", 0x3D4), ("nr_iters", 0x3D5),
      ("mode", 0x3D6)]
    launch := dictOf [("launch", 0x3C0)]
    barrier := 0x3C3
    reserved := [0x3C5] }

/-- `GemminiAccelerator.generate_acc_op`: RoCC, the "addresses" are `funct7` values shared by the two
source fields of one instruction. -/
def regMapGemmini : RegMap :=
  { fields := dictOf [("k_LOOP_WS_CONFIG_BOUNDS.rs1", 9), ("k_LOOP_WS_CONFIG_BOUNDS.rs2", 9),
      ("k_LOOP_WS_CONFIG_ADDRS_AB.rs1", 10), ("k_LOOP_WS_CONFIG_ADDRS_AB.rs2", 10),
      ("k_LOOP_WS_CONFIG_ADDRS_DC.rs1", 11), ("k_LOOP_WS_CONFIG_ADDRS_DC.rs2", 11),
      ("k_LOOP_WS_CONFIG_STRIDES_AB.rs1", 12), ("k_LOOP_WS_CONFIG_STRIDES_AB.rs2", 12),
      ("k_LOOP_WS_CONFIG_STRIDES_DC.rs1", 13), ("k_LOOP_WS_CONFIG_STRIDES_DC.rs2", 13)]
    launch := dictOf [("k_LOOP_WS.rs1", 8), ("k_LOOP_WS.rs2", 8)]
    barrier := 0x0BAD
    reserved := [] }

/-- `SNAXGEMMXAccelerator.from_config`: the route of a system configuration file.  Input: per configured
streamer `(temporal_dims, len(spatial_dims))`; the five streamers A, B, D8, C, D32 get fixed option sets, D8/C/D32
the temporal dims `("r",) + ("n",) * (t - 1)` (so at least one).  Fewer than five entries: `IndexError`. -/
def gemmxFromConfig : List (Nat × Nat) → Option Cfg
  | a :: b :: c :: d :: e :: _ =>
    some [⟨a.1, a.2, true, false, false, false, true, []⟩,
          ⟨b.1, b.2, true, false, false, false, true, []⟩,
          ⟨max c.1 1, c.2, true, false, false, false, false, []⟩,
          ⟨max d.1 1, d.2, true, true, false, true, false, []⟩,
          ⟨max e.1 1, e.2, true, false, false, false, false, []⟩]
  | _ => none

/-- The field tuples `self.fields` / `self.launch_fields` of the accelerator objects (what setup ops are
built from), to be compared with the key order of the declared dictionaries. -/
def aluFieldNames (cfg : Cfg) : List String := setupFields cfg ++ ["alu_mode", "loop_bound_alu"]
def gemmxFieldNames (cfg : Cfg) (n : Nat) : List String :=
  setupFields cfg ++ ["K", "N", "M", "subtractions", "csr0", "csr1"] ++ numbered "shift_" (nbShifts n)
    ++ numbered "mult_" n ++ ["temporal_loop_bound", "bypassSIMD"]
def phsFieldNames (cfg : Cfg) (sw : Nat) : List String :=
  setupFields cfg ++ numbered "phs_switch_" sw ++ ["loop_bound_alu"]
def xdmaFieldNames (cfg : Cfg) : List String := xdmaSetupFields cfg

end SnaxVerif.RegMap
