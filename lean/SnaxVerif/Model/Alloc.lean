/-
Model of local-buffer allocation in snax-mlir (property C11):

* `snaxc/transforms/memref_to_snax.py`  `AllocOpRewrite`  (size of a buffer), together with
  `snaxc/dialects/tsl.py` `get_bound_ops` / `get_step_ops(in_bytes=True)` that it calls;
* `snaxc/transforms/snax_allocate.py`   `StaticAllocs` (bump pointer), `MiniMallocate`
  (lifetimes, dealloc insertion, placement through the external `minimalloc` solver),
  `allocs_are_static` / mode `auto`, `create_memref_struct`.

`MiniMallocate` is modelled twice: `ViewMode.orig` is the code at the pinned commit (uses of the
alloc result and of a directly attached `unrealized_conversion_cast` only, defect D13) and
`ViewMode.fixed` is the code with `fixes/F12-minimalloc-view-lifetimes.diff` applied (users are
collected transitively through view-like operations).

All index arithmetic of the emitted IR is interpreted in ℤ (no 32/64-bit wrap-around).
No Mathlib import: this file is linked into the driver executable.
-/
namespace SnaxVerif.Alloc

/-- Error outcomes of the real code (the harness maps them to Python exception classes). -/
inductive Err where
  | innerDynamic     -- AssertionError  : an inner tile bound is `?` (get_bound_ops)
  | rankMismatch     -- IndexError      : layout has more dimensions than the memref (shapes.pop(0)), or an empty tiled stride
  | zeroDiv          -- ZeroDivisionError: alignment 0 in static mode (`current_address % alignment`)
  | full             -- RuntimeError    : "Memory space … is full"
  | notStatic        -- RuntimeError    : "Static allocations should have a statically known size."
  | noMemSpace       -- RuntimeError    : "Allocations need a defined memory space"
  | unknownMem       -- KeyError        : memory space not registered
  | noUse            -- StopIteration   : `next(iter(uses))` on an alloc without uses
  | firstUseNotCast  -- AssertionError  : first use (use-list order) is not an unrealized_conversion_cast
  | badSolution      -- KeyError        : the solver returned fewer offsets than buffers
  | notClosed        -- (model only) the alias scan did not reach a fixed point: input not in def-before-use order
  | solverFull       -- RuntimeError    : the first-fit solver (harness stub of `minimalloc`) exceeds the capacity
  | solverFuel       -- (model only) the first-fit search ran out of fuel (never happens: fuel = #placed + 1)
  | misalignedStart  -- RuntimeError    : (only with the proposed fix FC11a) memory.start is not a multiple of an alignment
  | badMode          -- RuntimeError    : "unsupported allocation strategy"
  | noAlignAttr      -- AssertionError  : DynamicAllocs on an "L1" alloc without alignment attribute
deriving DecidableEq, Repr, Inhabited

def prodL : List Nat → Nat
  | [] => 1
  | x :: xs => x * prodL xs

/-! ## 1. Allocation size -/

/-- `snaxc.ir.tsl.Stride`: `none` = dynamic (`?`). -/
structure Stride where
  step : Option Nat
  bound : Option Nat
deriving DecidableEq, Repr, Inhabited

/-- One `TiledStride` (outermost tile first). -/
abbrev TStride := List Stride

/-- `TiledStridedLayout`. -/
structure Layout where
  dims : List TStride
  offset : Nat
deriving Repr, Inhabited

/-- `prod([stride.bound for _, stride in tsl.tstrides[dim] if stride.bound])`:
dynamic and zero bounds are skipped. -/
def staticProd (t : TStride) : Nat :=
  prodL ((t.filterMap (·.bound)).filter (· ≠ 0))

/-- bounds of the inner tiles: all static, else `assert stride.bound is not None`. -/
def innerBounds : List Stride → Except Err (List Nat)
  | [] => .ok []
  | s :: rest =>
    match s.bound with
    | none => .error .innerDynamic
    | some b => (innerBounds rest).map (b :: ·)

/-- `get_bound_ops` for one dimension, evaluated on the runtime extent `n` of that dimension:
the outermost bound is the literal, or `n / Π static bounds` (`arith.divui`, floor). -/
def boundsDim (t : TStride) (n : Nat) : Except Err (List Nat) :=
  match t with
  | [] => .error .rankMismatch
  | s0 :: rest =>
    let b0 := match s0.bound with
      | some b => b
      | none => n / staticProd t
    (innerBounds rest).map (b0 :: ·)

/-- `get_bound_ops` for all dimensions (first error in dimension order; `shapes.pop(0)` raises
`IndexError` when the layout has more dimensions than there are shape operands). -/
def boundsAll : List TStride → List Nat → Except Err (List (List Nat))
  | [], _ => .ok []
  | _ :: _, [] => .error .rankMismatch
  | t :: ts, n :: ns =>
    match boundsDim t n with
    | .error e => .error e
    | .ok b => (boundsAll ts ns).map (b :: ·)

/-- position (in `(dim, depth)` iteration order) and value of the largest static step; ties keep
the first, no static non-zero step keeps the default (last position, 0). -/
def maxKeyAux : List Stride → Nat → Nat × Nat → Nat × Nat
  | [], _, best => best
  | s :: rest, i, best =>
    match s.step with
    | some st => if st > best.2 then maxKeyAux rest (i + 1) (i, st) else maxKeyAux rest (i + 1) best
    | none => maxKeyAux rest (i + 1) best

def maxKey (fs : List Stride) : Nat × Nat := maxKeyAux fs 0 (fs.length - 1, 0)

/-- steps (in bytes) of one dimension, assigned innermost first, threading the running
"dynamic step" (`dynamic_step = step_op * bound`) from the right. -/
def stepsDim (el : Nat) : List Stride → List Nat → Nat → List Nat × Nat
  | s :: ss, b :: bs, dyn =>
    let (r, dyn1) := stepsDim el ss bs dyn
    match s.step with
    | some st => (st * el :: r, dyn1)
    | none => (dyn1 :: r, dyn1 * b)
  | _, _, dyn => ([], dyn)

/-- all dimensions, right to left. -/
def stepsAllAux (el : Nat) : List TStride → List (List Nat) → Nat → List (List Nat) × Nat
  | t :: ts, b :: bs, dyn =>
    let (rs, dyn1) := stepsAllAux el ts bs dyn
    let (r, dyn2) := stepsDim el t b dyn1
    (r :: rs, dyn2)
  | _, _, dyn => ([], dyn)

/-- `get_step_ops(bound_ops, memref, in_bytes=True)` evaluated: static steps are `step·el`,
dynamic ones follow the contiguity assumption starting from `bound[maxkey]·maxstep·el` — or, since the repair f7f5ecf
(C10-N1), from the element size when the layout has no static step at all. -/
def stepsAll (el : Nat) (dims : List TStride) (bs : List (List Nat)) : List (List Nat) :=
  let fs := dims.flatten
  let (k, v) := maxKey fs
  let dyn0 := if v = 0 then el else (bs.flatten.getD k 0) * (v * el)
  (stepsAllAux el dims bs dyn0).1

/-- `Σ_depth (bound − 1)·step` of one dimension, in ℤ (the IR computes `subi bound, 1`). -/
def dimSpan : List Nat → List Nat → Int
  | s :: ss, b :: bs => ((b : Int) - 1) * (s : Int) + dimSpan ss bs
  | _, _ => 0

def spanAll : List (List Nat) → List (List Nat) → Int
  | s :: ss, b :: bs => dimSpan s b + spanAll ss bs
  | _, _ => 0

/-- Size operand of `snax.alloc` for a TSL layout, evaluated on the runtime shape `sh`:
`1·(Σ (bound−1)·step_bytes + el) + offset·el`. -/
def allocSize (l : Layout) (el : Nat) (sh : List Nat) : Except Err Int :=
  match boundsAll l.dims sh with
  | .error e => .error e
  | .ok bs => .ok (spanAll (stepsAll el l.dims bs) bs + (el : Int) + (l.offset : Int) * (el : Int))

/-- Size operand for a memref without layout: `el · Π shape`. -/
def noLayoutSize (el : Nat) (sh : List Nat) : Nat := el * prodL sh

/-! ### Address semantics of a resolved layout (what the size is compared with) -/

/-- byte offset contributed by index `i` of one dimension: mixed-radix digits of `i` w.r.t. the
tile bounds (outermost digit unbounded) times the steps. -/
def dimAddr : List Nat → List Nat → Nat → Nat
  | s :: ss, _ :: bs, i => (i / prodL bs) * s + dimAddr ss bs (i % prodL bs)
  | _, _, _ => 0

def byteAddr : List (List Nat) → List (List Nat) → List Nat → Nat
  | s :: ss, b :: bs, i :: is => dimAddr s b i + byteAddr ss bs is
  | _, _, _ => 0

/-- row-major element index for a memref without layout -/
def rowMajor : List Nat → List Nat → Nat
  | _ :: sh, i :: is => i * prodL sh + rowMajor sh is
  | _, _ => 0

/-! ## 2. Static mode (`StaticAllocs`) -/

structure Mem where
  start : Nat
  cap : Nat
deriving DecidableEq, Repr, Inhabited

/-- one `snax.alloc` as the allocation patterns see it -/
structure Req where
  mem : Option Nat      -- index into the memory table; `none` = no memory_space attribute
  size : Option Nat     -- `none` = the size operand is not an `arith.constant`
  align : Nat           -- 0 = no alignment attribute
deriving DecidableEq, Repr, Inhabited

/-- a placed buffer -/
structure Placed where
  mem : Nat
  addr : Nat
  size : Nat
  align : Nat
deriving DecidableEq, Repr, Inhabited

/-- `if current_address % alignment != 0: current_address += alignment - current_address % alignment` -/
def roundUp (a al : Nat) : Nat := if a % al ≠ 0 then a + (al - a % al) else a

/-- `StaticAllocs.match_and_rewrite` for one alloc; `cur m` is `current_addresses[memory]`
(initialised lazily with `memory.start`, which is what the initial `cur` holds). -/
def staticStep (mems : List Mem) (cur : Nat → Nat) (r : Req) : Except Err (Placed × (Nat → Nat)) :=
  match r.size with
  | none => .error .notStatic
  | some size =>
    match r.mem with
    | none => .error .noMemSpace
    | some m =>
      match mems[m]? with
      | none => .error .unknownMem
      | some mem =>
        if r.align = 0 then .error .zeroDiv
        else
          let a := roundUp (cur m) r.align
          if a + size > mem.start + mem.cap then .error .full
          else .ok (⟨m, a, size, r.align⟩, fun k => if k = m then a + size else cur k)

def staticRun (mems : List Mem) : (Nat → Nat) → List Req → Except Err (List Placed)
  | _, [] => .ok []
  | cur, r :: rest =>
    match staticStep mems cur r with
    | .error e => .error e
    | .ok (p, cur') => (staticRun mems cur' rest).map (p :: ·)

def initCur (mems : List Mem) : Nat → Nat := fun m => (mems[m]?.map (·.start)).getD 0

/-- `snax-allocate{mode=static}` on the allocs of a module in walk order -/
def staticAlloc (mems : List Mem) (reqs : List Req) : Except Err (List Placed) :=
  staticRun mems (initCur mems) reqs

/-! ## 3. MiniMallocate -/

inductive Kind where
  | ucast    -- builtin.unrealized_conversion_cast
  | view     -- memref.subview / cast / memory_space_cast / reinterpret_cast, snax.layout_cast
  | sel      -- arith.select between memrefs (double buffering): its result IS one of the buffers, the code does not follow it
  | other
deriving DecidableEq, Repr, Inhabited

/-- any operation that is not a top-level `snax.alloc`: operand and result SSA value ids -/
structure Node where
  kind : Kind
  ops : List Nat
  res : List Nat
deriving DecidableEq, Repr, Inhabited

/-- a top-level operation of the function body -/
inductive TopOp where
  /-- top-level `snax.alloc` defining SSA value `res`; `firstUse` = the cast result that
  `next(iter(uses))` yields: `none` = no use, `some none` = first use is not an
  unrealized_conversion_cast, `some (some v)` = result 0 of that cast -/
  | alloc (res : Nat) (req : Req) (firstUse : Option (Option Nat))
  /-- any other operation with everything nested in it (pre-order), `term` = IsTerminator -/
  | op (nodes : List Node) (term : Bool)
deriving Repr, Inhabited

abbrev Prog := List TopOp

/-- all non-alloc nodes with the index of their top-level operation (`get_top_level_op`) -/
def flatFrom : Prog → Nat → List (Node × Nat)
  | [], _ => []
  | .alloc .. :: rest, i => flatFrom rest (i + 1)
  | .op nodes _ :: rest, i => nodes.map (·, i) ++ flatFrom rest (i + 1)

def flat (p : Prog) : List (Node × Nat) := flatFrom p 0

inductive ViewMode where
  | orig | fixed
deriving DecidableEq, Repr, Inhabited

def usesAny (S : List Nat) (n : Node) : Bool := n.ops.any (S.contains ·)

/-- which operations propagate "is the buffer" from an operand to their results -/
def follows (vm : ViewMode) (n : Node) : Bool :=
  match vm, n.kind with
  | _, .ucast => true
  | .fixed, .view => true
  | _, _ => false

/-- F12 (`get_users_through_views`): one forward pass over the operations in definition order
collecting the values that are the buffer or a cast / view of it. -/
def aliasScan (S : List Nat) : List (Node × Nat) → List Nat
  | [] => S
  | (n, _) :: rest =>
    aliasScan (if follows .fixed n && usesAny S n then n.res ++ S else S) rest

/-- the scan reached a fixed point (always true when definitions precede uses) -/
def closed (S : List Nat) (fl : List (Node × Nat)) : Bool :=
  fl.all fun (n, _) => !(follows .fixed n && usesAny S n) || n.res.all (S.contains ·)

/-- pinned commit: the alloc result and result 0 of every unrealized cast that uses it directly -/
def aliasOrig (r : Nat) (fl : List (Node × Nat)) : List Nat :=
  r :: fl.filterMap fun (n, _) =>
    if n.kind = .ucast && n.ops.contains r then n.res.head? else none

def aliasSet (vm : ViewMode) (r : Nat) (fl : List (Node × Nat)) : Except Err (List Nat) :=
  match vm with
  | .orig => .ok (aliasOrig r fl)
  | .fixed =>
    let S := aliasScan [r] fl
    if closed S fl then .ok S else .error .notClosed

/-- top-level indices of the operations that use one of the values -/
def useTops (S : List Nat) (fl : List (Node × Nat)) : List Nat :=
  (fl.filter fun (n, _) => usesAny S n).map (·.2)

/-- `buffer.end_time`: starts at the alloc index, raised to every later using top-level op -/
def endTime (s : Nat) (tops : List Nat) : Nat := tops.foldl max s

/-- `minimalloc.Buffer(id, start, end, size, alignment)` plus bookkeeping -/
structure Buf where
  res : Nat
  start : Nat
  stop : Nat
  size : Nat
  align : Nat
  mem : Nat
  castRes : Nat       -- the value that is deallocated
deriving DecidableEq, Repr, Inhabited

def mkBuf (vm : ViewMode) (fl : List (Node × Nat)) (i res : Nat) (req : Req) : Except Err Buf :=
  match req.size with
  | none => .error .notStatic
  | some size =>
    match req.mem with
    | none => .error .noMemSpace
    | some m =>
      match aliasSet vm res fl with
      | .error e => .error e
      | .ok S => .ok ⟨res, i, endTime i (useTops S fl), size, req.align, m, 0⟩

/-- first loop of `MiniMallocate`: one `Buffer` per top-level alloc, in order -/
def buffersFrom (vm : ViewMode) (fl : List (Node × Nat)) : Prog → Nat → Except Err (List Buf)
  | [], _ => .ok []
  | .op .. :: rest, i => buffersFrom vm fl rest (i + 1)
  | .alloc res req _ :: rest, i =>
    match mkBuf vm fl i res req with
    | .error e => .error e
    | .ok b => (buffersFrom vm fl rest (i + 1)).map (b :: ·)

def firstUses : Prog → List (Option (Option Nat))
  | [] => []
  | .op .. :: rest => firstUses rest
  | .alloc _ _ fu :: rest => fu :: firstUses rest

/-- second loop: the value to deallocate is result 0 of the first use, which must be a cast -/
def attachCasts : List Buf → List (Option (Option Nat)) → Except Err (List Buf)
  | [], _ => .ok []
  | _ :: _, [] => .error .noUse
  | b :: bs, fu :: fus =>
    match fu with
    | none => .error .noUse
    | some none => .error .firstUseNotCast
    | some (some v) => (attachCasts bs fus).map ({ b with castRes := v } :: ·)

def isTermAt (p : Prog) (i : Nat) : Bool :=
  match p[i]? with
  | some (.op _ t) => t
  | _ => false

/-- `(deallocated value, top-level index after which memref.dealloc is inserted)`; none when
the last use is a terminator -/
def deallocs (p : Prog) (bs : List Buf) : List (Nat × Nat) :=
  bs.filterMap fun b => if isTermAt p b.stop then none else some (b.castRes, b.stop)

/-- every memory space of a buffer must be registered (`get_memory` raises `KeyError`) -/
def checkMems (mems : List Mem) : List Buf → Except Err Unit
  | [] => .ok ()
  | b :: bs => if mems[b.mem]?.isNone then .error .unknownMem else checkMems mems bs

/-- buffers handed to the solver for memory `m` (`buffers_subset`), order preserved -/
def subset (bs : List Buf) (m : Nat) : List Buf := bs.filter (·.mem = m)

/-- `zip(buffers_subset, solution)` looked up by buffer identity -/
def findOff (z : List (Buf × Nat)) (b : Buf) : Option Nat := (z.find? (·.1 = b)).map (·.2)

/-- `pointer_result[buffer.id] = offset + memory.start` with the solver's answer for the buffer's
memory; `sol m` is the list returned by `Problem(subset m, capacity m).solve()` -/
def placeOne (mems : List Mem) (sol : Nat → List Nat) (all : List Buf) (b : Buf) : Except Err Placed :=
  match mems[b.mem]? with
  | none => .error .unknownMem
  | some mem =>
    match findOff ((subset all b.mem).zip (sol b.mem)) b with
    | none => .error .badSolution
    | some off => .ok ⟨b.mem, off + mem.start, b.size, b.align⟩

def placeAll (mems : List Mem) (sol : Nat → List Nat) (all : List Buf) : List Buf → Except Err (List (Buf × Placed))
  | [] => .ok []
  | b :: rest =>
    match placeOne mems sol all b with
    | .error e => .error e
    | .ok p => (placeAll mems sol all rest).map ((b, p) :: ·)

structure MiniResult where
  bufs : List Buf
  deallocs : List (Nat × Nat)
  placed : List (Buf × Placed)
deriving DecidableEq, Repr, Inhabited

def lifetimes (vm : ViewMode) (p : Prog) : Except Err (List Buf) :=
  match buffersFrom vm (flat p) p 0 with
  | .error e => .error e
  | .ok bs => attachCasts bs (firstUses p)

/-- `MiniMallocate.match_and_rewrite` on a single-block function, solver as a parameter -/
def miniMallocate (vm : ViewMode) (mems : List Mem) (sol : Nat → List Nat) (p : Prog) :
    Except Err MiniResult :=
  match lifetimes vm p with
  | .error e => .error e
  | .ok bs =>
    match checkMems mems bs with
    | .error e => .error e
    | .ok _ =>
      match placeAll mems sol bs bs with
      | .error e => .error e
      | .ok pl => .ok ⟨bs, deallocs p bs, pl⟩

/-! ### The contract assumed of the external solver (executable form) -/

/-- half-open lifespans `[start, stop)` intersect -/
def overlapLife (a b : Buf) : Bool := decide (max a.start b.start < min a.stop b.stop)

def disjointRange (a sa b sb : Nat) : Bool := decide (a + sa ≤ b) || decide (b + sb ≤ a)

/-- the solver's answer `offs` for the problem `(bufs, cap)` respects the contract: one offset per
buffer, offsets multiples of the alignment, `offset + size ≤ capacity`, distinct buffers with
intersecting half-open lifespans get disjoint ranges -/
def contractOk (bufs : List Buf) (cap : Nat) (offs : List Nat) : Bool :=
  let z := bufs.zip offs
  decide (offs.length = bufs.length) &&
  z.all fun p =>
    decide (p.2 % p.1.align = 0) && decide (p.2 + p.1.size ≤ cap) &&
    z.all fun q => decide (p.1 = q.1) || !overlapLife p.1 q.1 || disjointRange p.2 p.1.size q.2 q.1.size

/-! ### A concrete solver: first fit (the `minimalloc` stand-in of harness/compat.py), and the whole pass with it -/

/-- `off = (off + a - 1) // a * a` -/
def alignUp (off a : Nat) : Nat := (off + a - 1) / a * a

/-- an already placed buffer `p` forbids offset `off` for `b`: lifespans intersect and ranges intersect -/
def clashWith (b : Buf) (off : Nat) (p : Buf × Nat) : Bool :=
  overlapLife p.1 b && !disjointRange off b.size p.2 p.1.size

/-- the `while True` loop of the stub: round up, look for the first clashing placed buffer, jump behind it -/
def findSlot (b : Buf) (a : Nat) (placed : List (Buf × Nat)) : Nat → Nat → Option Nat
  | 0, _ => none
  | fuel + 1, off =>
    let off' := alignUp off a
    match placed.find? (clashWith b off') with
    | none => some off'
    | some p => findSlot b a placed fuel (p.2 + p.1.size)

/-- place the buffers one after the other in the given order; `placed` in placement order -/
def firstFitAux (cap : Nat) : List Buf → List (Buf × Nat) → Except Err (List Nat)
  | [], _ => .ok []
  | b :: rest, placed =>
    match findSlot b (max 1 b.align) placed (placed.length + 1) 0 with
    | none => .error .solverFuel
    | some off =>
      if off + b.size > cap then .error .solverFull
      else (firstFitAux cap rest (placed ++ [(b, off)])).map (off :: ·)

/-- `Problem(bufs, cap).solve()` of the stand-in solver -/
def firstFit (bufs : List Buf) (cap : Nat) : Except Err (List Nat) := firstFitAux cap bufs []

/-- the answers of the first-fit solver for every memory (`[]` where it fails or the memory is unknown) -/
def ffSol (mems : List Mem) (bs : List Buf) : Nat → List Nat := fun m =>
  match mems[m]? with
  | none => []
  | some mem => match firstFit (subset bs m) mem.cap with
    | .ok offs => offs
    | .error _ => []

/-- first error of the solver over the memories `0 … n-1` -/
def ffErrors (mems : List Mem) (bs : List Buf) : Nat → Except Err Unit
  | 0 => .ok ()
  | n + 1 =>
    match ffErrors mems bs n with
    | .error e => .error e
    | .ok _ =>
      match mems[n]? with
      | none => .ok ()
      | some mem => match firstFit (subset bs n) mem.cap with
        | .ok _ => .ok ()
        | .error e => .error e

/-- `MiniMallocate` with the first-fit solver plugged in: no parameter, no hypothesis left -/
def miniMallocateFF (vm : ViewMode) (mems : List Mem) (p : Prog) : Except Err MiniResult :=
  match lifetimes vm p with
  | .error e => .error e
  | .ok bs =>
    match checkMems mems bs with
    | .error e => .error e
    | .ok _ =>
      match ffErrors mems bs mems.length with
      | .error e => .error e
      | .ok _ => miniMallocate vm mems (ffSol mems bs) p

/-- executable form of `WellOrd` (SSA order of the flattened operations) -/
def wellOrdB : List (Node × Nat) → Bool
  | [] => true
  | (n, _) :: rest =>
    n.res.all (fun w => !n.ops.contains w) &&
    rest.all (fun m => m.1.res.all (fun w => !n.ops.contains w)) && wellOrdB rest

/-! ### Proposed fix FC11a for finding C11-N1: refuse a memory whose start is not a multiple of an alignment -/

/-- `if memory.start % buffer.alignment != 0: raise RuntimeError` for every buffer (alignment 0 is never a divisor) -/
def startAligned (mems : List Mem) (bs : List Buf) : Bool :=
  bs.all fun b => match mems[b.mem]? with
    | none => true
    | some mem => b.align == 0 || mem.start % b.align == 0

/-- `MiniMallocate` with FC11a -/
def miniMallocateChecked (vm : ViewMode) (mems : List Mem) (sol : Nat → List Nat) (p : Prog) :
    Except Err MiniResult :=
  match miniMallocate vm mems sol p with
  | .error e => .error e
  | .ok r => if startAligned mems r.bufs then .ok r else .error .misalignedStart

/-- `MiniMallocate` with FC11a and the first-fit solver: the start check precedes the solver call -/
def miniMallocateFFChecked (vm : ViewMode) (mems : List Mem) (p : Prog) : Except Err MiniResult :=
  match lifetimes vm p with
  | .error e => .error e
  | .ok bs =>
    match checkMems mems bs with
    | .error e => .error e
    | .ok _ => if startAligned mems bs then miniMallocateFF vm mems p else .error .misalignedStart

/-! ## 4. Mode `auto`, descriptor -/

/-- `allocs_are_static`: every `snax.alloc` in the module (nested ones included) has a constant size -/
def allocsAreStatic (sizes : List (Option Nat)) : Bool := sizes.all (·.isSome)

/-- `SnaxAllocatePass.mode` -/
inductive Mode where
  | dynamic | static | minimalloc | auto
deriving DecidableEq, Repr, Inhabited

def modeOfString (s : String) : Except Err Mode :=
  if s = "dynamic" then .ok .dynamic else if s = "static" then .ok .static
  else if s = "minimalloc" then .ok .minimalloc else if s = "auto" then .ok .auto else .error .badMode

/-- the rewrite pattern `SnaxAllocatePass.apply` runs -/
inductive Pattern where
  | dynamicAllocs | staticAllocs | miniMallocate
deriving DecidableEq, Repr, Inhabited

/-- `apply`: `sizes` are the size operands of all `snax.alloc` of the module (`none` = not a constant) -/
def selectPattern (m : Mode) (sizes : List (Option Nat)) : Pattern :=
  match m with
  | .dynamic => .dynamicAllocs
  | .static => .staticAllocs
  | .minimalloc => .miniMallocate
  | .auto => if allocsAreStatic sizes then .miniMallocate else .dynamicAllocs

/-- what `DynamicAllocs` does with one alloc -/
inductive DynOut where
  | left                 -- memory space is not "L1": untouched
  | call (align : Nat)   -- `func.call @snax_alloc_l1(size operand, alignment)`, descriptor from the two returned pointers
deriving DecidableEq, Repr, Inhabited

/-- `DynamicAllocs` over the allocs in walk order: `(memory space is "L1", alignment attribute)` -/
def dynamicAllocs : List (Bool × Option Nat) → Except Err (List DynOut)
  | [] => .ok []
  | (false, _) :: rest => (dynamicAllocs rest).map (.left :: ·)
  | (true, none) :: _ => .error .noAlignAttr
  | (true, some a) :: rest => (dynamicAllocs rest).map (.call a :: ·)

/-- `MiniMallocate` returns without doing anything unless the function body is a single block -/
def miniApplies (nBlocks : Nat) : Bool := nBlocks == 1

/-- `create_memref_struct`: (pointer, aligned pointer, offset, sizes) -/
def descriptor (addr : Nat) (shape : List Nat) : Nat × Nat × Nat × List Nat := (addr, addr, 0, shape)

/-! ## 5. Specification vocabulary (used by the theorems in `Props/C11.lean`; not executed) -/

/-- every index is inside the runtime shape -/
def InShape : List Nat → List Nat → Prop
  | i :: is, n :: ns => i < n ∧ InShape is ns
  | [], [] => True
  | _, _ => False

/-- the resolved tile bounds of every dimension multiply to at least the runtime extent -/
def CoversB : List (List Nat) → List Nat → Prop
  | b :: bs, n :: ns => n ≤ prodL b ∧ CoversB bs ns
  | [], [] => True
  | _, _ => False

/-- Clause of `size_bound_partial`, per dimension of extent `n`.
* static outermost bound — clause **Covers** (property C09, defect D22): the bounds multiply to
  at least `n`;
* dynamic outermost bound — clause **TileDividesShape** (defect D32): the inner tile is
  positive and divides `n` (otherwise `arith.divui` floors the outermost bound). -/
def DimCovered (t : TStride) (n : Nat) : Prop :=
  match t with
  | [] => False
  | s0 :: rest =>
    match s0.bound with
    | some b0 => ∃ ib, innerBounds rest = .ok ib ∧ n ≤ b0 * prodL ib
    | none => ∃ ib, innerBounds rest = .ok ib ∧ 0 < prodL ib ∧ prodL ib ∣ n

def LayoutCovers : List TStride → List Nat → Prop
  | t :: ts, n :: ns => DimCovered t n ∧ LayoutCovers ts ns
  | [], [] => True
  | _, _ => False

/-- `v` is the buffer `r` or a cast / view of it, through any chain of view-like operations -/
inductive Alias (fl : List (Node × Nat)) (r : Nat) : Nat → Prop where
  | base : Alias fl r r
  | step {n : Node} {t w v : Nat} : (n, t) ∈ fl → follows .fixed n = true → w ∈ n.ops →
      Alias fl r w → v ∈ n.res → Alias fl r v

/-- `v` is the buffer `r`, a cast / view of it, or the result of an `arith.select` that may pick it
(what double buffering produces): the property's notion of "the buffer is still used" at full strength -/
inductive AliasS (fl : List (Node × Nat)) (r : Nat) : Nat → Prop where
  | base : AliasS fl r r
  | step {n : Node} {t w v : Nat} : (n, t) ∈ fl → (follows .fixed n = true ∨ n.kind = .sel) → w ∈ n.ops →
      AliasS fl r w → v ∈ n.res → AliasS fl r v

/-- the buffer `r`, or a view or cast of it, is used by an operation at or below top-level index ≥ `t` -/
def UsedAtOrAfter (p : Prog) (r t : Nat) : Prop :=
  ∃ v n u, Alias (flat p) r v ∧ (n, u) ∈ flat p ∧ v ∈ n.ops ∧ t ≤ u

/-- Contract assumed of the external `minimalloc` solver for the problem `(bufs, cap)`: one offset
per buffer; every offset is a multiple of the buffer's alignment and `offset + size ≤ cap`;
two different buffers whose half-open lifespans `[start, stop)` intersect get disjoint ranges. -/
def SolverContract (bufs : List Buf) (cap : Nat) (offs : List Nat) : Prop :=
  offs.length = bufs.length ∧
  (∀ p ∈ bufs.zip offs, p.2 % p.1.align = 0 ∧ p.2 + p.1.size ≤ cap) ∧
  (∀ p ∈ bufs.zip offs, ∀ q ∈ bufs.zip offs, p.1 ≠ q.1 →
    max p.1.start q.1.start < min p.1.stop q.1.stop →
    p.2 + p.1.size ≤ q.2 ∨ q.2 + q.1.size ≤ p.2)

/-- the part of the solver contract that memory safety needs (no alignment): one offset per buffer,
`offset + size ≤ cap`, different buffers with intersecting half-open lifespans get disjoint ranges -/
def SolverSafe (bufs : List Buf) (cap : Nat) (offs : List Nat) : Prop :=
  offs.length = bufs.length ∧
  (∀ p ∈ bufs.zip offs, p.2 + p.1.size ≤ cap) ∧
  (∀ p ∈ bufs.zip offs, ∀ q ∈ bufs.zip offs, p.1 ≠ q.1 →
    max p.1.start q.1.start < min p.1.stop q.1.stop →
    p.2 + p.1.size ≤ q.2 ∨ q.2 + q.1.size ≤ p.2)

/-- SSA order of the flattened operations: no operation uses a result of itself or of a later operation
(what xDSL's verifier guarantees for single-block regions listed in pre-order) -/
def WellOrd : List (Node × Nat) → Prop
  | [] => True
  | (n, _) :: rest => (∀ w ∈ n.res, w ∉ n.ops) ∧ (∀ m ∈ rest, ∀ w ∈ m.1.res, w ∉ n.ops) ∧ WellOrd rest

end SnaxVerif.Alloc
