/-
Model of `snaxc/transforms/set_memory_layout.py` (pass `set-memory-layout`):
`ensure_access_granularity`, the per-operand walk of `AddCyclicMemoryLayout.match_and_rewrite`,
the fill-up step (upstream version and the version with fix F15), `TiledStride.canonicalize`
(`snaxc/ir/tsl/tiled_stride.py`) and the address function of a tiled-strided layout
(`TiledStridedLayoutAttr.get_affine_map`, `snaxc/dialects/tsl.py`).

Conventions: a layout is a list (one entry per operand dimension) of lists of strides,
OUTERMOST tile first, exactly as `TiledStride.strides`. Shapes are static and positive
(`rewriteOp` answers `outsideModel` otherwise). Python exceptions are `Err` values.

No Mathlib import: this file is linked into the driver executable.
-/
namespace SnaxVerif.CyclicLayout

structure Stride where
  step : Nat
  bound : Nat
deriving DecidableEq, Repr, Inhabited

abbrev Layout := List (List Stride)

inductive Err where
  | assertion      -- AssertionError (element type without fixed width, accelerator missing)
  | indexError     -- IndexError (pattern has more results than the memref has dimensions)
  | valueError     -- ValueError raised by SchedulePattern (bound <= 0, #bounds != #dims)
  | outsideModel   -- input outside the modelled domain (zero-sized dimension, ragged matrix)
deriving DecidableEq, Repr, Inhabited

/-! ## Address semantics of a layout (`get_affine_map`) -/

/-- plain product of the bounds of one dimension -/
def prodB : List Stride → Nat
  | [] => 1
  | s :: r => s.bound * prodB r

/-- `prod(s.bound for s in strides if s.bound)`: zero (and dynamic) bounds are skipped -/
def prodNZ : List Stride → Nat
  | [] => 1
  | s :: r => (if s.bound = 0 then 1 else s.bound) * prodNZ r

/-- contribution of the strides at depth > 0: `step * ((d mod Π_{≥k}) floordiv Π_{>k})` -/
def addrIn : List Stride → Nat → Nat
  | [], _ => 0
  | s :: r, i => s.step * ((i % (s.bound * prodB r)) / prodB r) + addrIn r i

/-- one dimension of `get_affine_map`: the outermost digit is not reduced -/
def addrDim : List Stride → Nat → Nat
  | [], _ => 0
  | s :: r, i => s.step * (i / prodB r) + addrIn r i

/-- `get_affine_map` evaluated at an index vector (element offset, not bytes) -/
def addr : Layout → List Nat → Nat
  | l :: S, i :: idx => addrDim l i + addr S idx
  | _, _ => 0

/-! ## `ensure_access_granularity` -/

/-- `if s % g != 0: s += (g - s) % 64` in Python integers -/
def pad (s g : Nat) : Nat :=
  if s % g = 0 then s else s + Int.toNat (Int.fmod ((g : Int) - (s : Int)) 64)

/-- the granularity (in elements) the code asks for: temporal 8/16, spatial 8/2 -/
def gran (spatial : Nat) (elBits : Nat) (schedDim : Nat) : Nat :=
  if schedDim ≥ spatial then (if elBits = 8 then 8 else 16) else (if elBits = 8 then 8 else 2)

/-- `ensure_access_granularity(ctx, current_stride, schedule_dim, op, operand)`.
`elBits = none`: the element type has no fixed bit width (assert fails);
`spatial = none`: the op has no accelerator attribute (assert in `spatial_dims` fails). -/
def ensureGranularity (spatial : Option Nat) (elBits : Option Nat) (cur schedDim : Nat) : Except Err Nat :=
  if cur = 1 then .ok cur
  else match elBits with
    | none => .error .assertion
    | some w => match spatial with
      | none => .error .assertion
      | some sp => .ok (pad cur (gran sp w schedDim))

/-! ## The schedule walk -/

/-- `accesses.index(1)` after normalisation to 0/1: first operand dimension with a non-zero coefficient -/
def firstNonzero : List Int → Option Nat
  | [] => none
  | c :: r => if c ≠ 0 then some 0 else (firstNonzero r).map (· + 1)

/-- the hyper-rectangularity veto: some schedule dimension walks the accessed operand dimension with a
coefficient that is not a multiple of the candidate tile size, and has a different bound -/
def veto (row : List Int) (bounds : List Nat) (b : Nat) : Bool :=
  (row.zip bounds).any fun p => decide (Int.fmod p.1 (b : Int) ≠ 0) && decide (p.2 ≠ b)

structure Cfg where
  tiled : Bool
  spatial : Option Nat
  elBits : Option Nat
  shape : List Nat
  rows : List (List Int)     -- the matrix A of the operand's pattern, one row per pattern result
  bounds : List Nat          -- schedule bounds, outermost first
deriving Repr

/-- the bound given to the new stride: the schedule bound if tiling is allowed, else what remains -/
def layoutBound (c : Cfg) (d : Nat) (existing n b : Nat) : Nat :=
  let sizeRemaining := n / existing
  let toTile := c.tiled && decide (sizeRemaining % b = 0) && !(veto (c.rows.getD d []) c.bounds b)
  if toTile then b else sizeRemaining

/-- body of the loop over schedule dimensions (innermost first); `k` = `schedule_dim`,
`b` = `schedule_bound`, `col` = the column of A -/
def stepCol (c : Cfg) (st : Layout × Nat) (k b : Nat) (col : List Int) : Except Err (Layout × Nat) :=
  match firstNonzero col with
  | none => .ok st
  | some d =>
    match ensureGranularity c.spatial c.elBits st.2 k with
    | .error e => .error e
    | .ok cur =>
      match st.1[d]?, c.shape[d]? with
      | some l, some n =>
        let lb := layoutBound c d (prodNZ l) n b
        .ok (st.1.set d (⟨cur, lb⟩ :: l), cur * lb)
      | _, _ => .error .indexError

def walk (c : Cfg) : List (Nat × List Int) → Nat → Layout × Nat → Except Err (Layout × Nat)
  | [], _, st => .ok st
  | (b, col) :: rest, k, st =>
    match stepCol c st k b col with
    | .error e => .error e
    | .ok st' => walk c rest (k + 1) st'

/-- column `j` of the matrix -/
def column (rows : List (List Int)) (j : Nat) : List Int := rows.map fun r => r.getD j 0

/-- `zip(schedule.bounds[::-1], np.flip(A, axis=1).T)` -/
def revCols (c : Cfg) : List (Nat × List Int) :=
  (c.bounds.zip ((List.range c.bounds.length).map (column c.rows))).reverse

/-- `strides = [[] for _ in range(rank)]`, `current_stride = 1` -/
def initState (shape : List Nat) : Layout × Nat := (shape.map fun _ => [], 1)

/-! ## Fill-up -/

/-- upstream: `for stride in strides: if not len(stride): stride.append(Stride(current_stride, 1))` -/
def fillOrig (st : Layout × Nat) : Layout :=
  st.1.map fun l => if l.isEmpty then [⟨st.2, 1⟩] else l

/-- with F15, one iteration of `for stride, size in zip(strides, shape)` (index `d`) -/
def fillStep (shape : List Nat) (st : Layout × Nat) (d : Nat) : Layout × Nat :=
  match st.1[d]?, shape[d]? with
  | some l, some n =>
    let covered := prodNZ l
    if l.isEmpty || decide (covered < n) then
      let remaining := (n + covered - 1) / covered      -- -(-size // covered)
      (st.1.set d (⟨st.2, remaining⟩ :: l), st.2 * remaining)
    else st
  | _, _ => st

def fillFixed (shape : List Nat) (st : Layout × Nat) : Layout × Nat :=
  (List.range shape.length).foldl (fillStep shape) st

/-! ## `TiledStride.canonicalize` -/

def canon : List Stride → List Stride
  | [] => []
  | s :: r =>
    match canon r with
    | [] => [s]                                   -- the innermost stride is always kept
    | h :: t =>
      if s.bound = 1 then h :: t                  -- unit bound: dropped
      else if h.step ≠ 0 ∧ h.bound ≠ 0 ∧ h.step * h.bound = s.step ∧ s.bound ≠ 0 then
        ⟨h.step, h.bound * s.bound⟩ :: t          -- squash
      else s :: h :: t

/-! ## One operand, one op -/

/-- state after the walk and the fill-up, before canonicalisation.
`fixed = true`: with fix F15; `fixed = false`: the upstream code. -/
def layoutPre (fixed : Bool) (c : Cfg) : Except Err Layout :=
  match walk c (revCols c) 0 (initState c.shape) with
  | .error e => .error e
  | .ok st => .ok (if fixed then (fillFixed c.shape st).1 else fillOrig st)

/-- the layout of the `snax.layout_cast` result inserted for one operand -/
def cyclicLayout (fixed : Bool) (c : Cfg) : Except Err Layout :=
  match layoutPre fixed c with
  | .error e => .error e
  | .ok S => .ok (S.map canon)

structure Operand where
  shape : List Nat
  elBits : Option Nat
  hasTsl : Bool              -- the operand type already carries a `#tsl.tsl` layout
  ndims : Nat                -- number of dimensions of the operand's pattern
  rows : List (List Int)
deriving Repr

def mapE {α β ε} (f : α → Except ε β) : List α → Except ε (List β)
  | [] => .ok []
  | x :: xs =>
    match f x with
    | .error e => .error e
    | .ok y =>
      match mapE f xs with
      | .error e => .error e
      | .ok ys => .ok (y :: ys)

/-- `SchedulePattern(bounds, pattern)` validation -/
def checkPattern (bounds : List Int) (o : Operand) : Except Err Unit :=
  if bounds.any (fun b => decide (b ≤ 0)) then .error .valueError
  else if bounds.length ≠ o.ndims then .error .valueError
  else .ok ()

def cfgOf (tiled : Bool) (spatial : Option Nat) (bounds : List Int) (o : Operand) : Cfg :=
  { tiled := tiled, spatial := spatial, elBits := o.elBits, shape := o.shape, rows := o.rows,
    bounds := bounds.map Int.toNat }

def operandLayout (fixed tiled : Bool) (spatial : Option Nat) (bounds : List Int) (o : Operand) :
    Except Err Layout :=
  if o.shape.any (· = 0) || o.rows.any (fun r => r.length ≠ o.ndims) then .error .outsideModel
  else cyclicLayout fixed (cfgOf tiled spatial bounds o)

/-- `AddCyclicMemoryLayout.match_and_rewrite` on one `dart.schedule`:
`none` = the op is left untouched (some operand already has a TSL layout),
`some ls` = one `snax.layout_cast` per operand with these layouts. -/
def rewriteOp (fixed tiled : Bool) (spatial : Option Nat) (bounds : List Int) (ops : List Operand) :
    Except Err (Option (List Layout)) :=
  if ops.any (·.hasTsl) then .ok none
  else match mapE (checkPattern bounds) ops with
    | .error e => .error e
    | .ok _ =>
      match mapE (operandLayout fixed tiled spatial bounds) ops with
      | .error e => .error e
      | .ok ls => .ok (some ls)

end SnaxVerif.CyclicLayout
