import SnaxVerif.Model.Affine
/-
Model of `AffineTransform` (snaxc/ir/dart/affine_transform.py): matrix form `x ↦ A·x + b` of an affine
map, `eval`, `compose`, `to_affine_map`, `from_affine_map`.

Matrices are lists of rows over unbounded `Int` (numpy's `np.int_` is int64 and wraps silently; the
overflow-free range is an assumption of the check, recorded in the harness). `nd` is `A.shape[1]`
(needed because a list of rows does not know its width when there are no rows).

No Mathlib import: this file is linked into the driver executable.
-/
namespace SnaxVerif
namespace AT

/-- `a @ x` for two vectors of equal length. -/
def dot : List Int → List Int → Int
  | a :: as, x :: xs => a * x + dot as xs
  | _, _ => 0

/-- `A @ x` -/
def matVec (A : List (List Int)) (x : List Int) : List Int := A.map (dot · x)

def vecAdd (a b : List Int) : List Int := List.zipWith (· + ·) a b

/-- column `j` of a matrix given as rows -/
def col (O : List (List Int)) (j : Nat) : List Int := O.map (·.getD j 0)

/-- `S @ O` where `O` has `n` columns -/
def matMul (S O : List (List Int)) (n : Nat) : List (List Int) :=
  S.map fun row => (List.range n).map fun j => dot row (col O j)

structure Transform where
  nd : Nat
  A : List (List Int)
  b : List Int
deriving DecidableEq, Repr, Inhabited

/-- `__post_init__` (the parts a list-of-rows can violate) + rectangularity of the numpy array. -/
def Transform.wf (t : Transform) : Bool :=
  t.A.length == t.b.length && t.A.all (·.length == t.nd)

inductive Err where
  | valueError       -- ValueError raised by the Python code (shape mismatch / not a pure linear map)
  | indexError       -- a dimension position >= num_dims (`dims[self.position]` raises IndexError)
deriving DecidableEq, Repr

/-- `AffineTransform.eval(x)` for a single vector. -/
def Transform.eval (t : Transform) (x : List Int) : Except Err (List Int) :=
  if x.length ≠ t.nd then .error .valueError else .ok (vecAdd (matVec t.A x) t.b)

/-- `self.compose(other)`: `other` first, then `self`. -/
def Transform.compose (s o : Transform) : Except Err Transform :=
  if s.nd ≠ o.A.length then .error .valueError
  else .ok { nd := o.nd, A := matMul s.A o.A o.nd, b := vecAdd (matVec s.A o.b) s.b }

/-- One result of `to_affine_map`:
`expr = Const(b); for dim: if A[r,dim] != 0: expr += Const(A[r,dim]) * Dim(dim)`.
`Const(a) * Dim(d)` goes through xDSL's `__mul__`, which first swaps the constant to the right
(`smartMulC (dim d) a`); `expr += t` is `expr.__add__(t)` (`smartAdd`). -/
def toMapRowFrom (k : Nat) (acc : AExpr) : List Int → AExpr
  | [] => acc
  | a :: row =>
    toMapRowFrom (k + 1) (if a = 0 then acc else AExpr.smartAdd acc (AExpr.smartMulC (.dim k) a)) row

def toMapRow (row : List Int) (b : Int) : AExpr := toMapRowFrom 0 (.const b) row

/-- `to_affine_map`: the result expressions (the map has `nd` dims, 0 symbols). -/
def Transform.toMap (t : Transform) : List AExpr := List.zipWith toMapRow t.A t.b

/-- the check "pure linear transformation" of `from_affine_map`: no floordiv / ceildiv / mod anywhere -/
def noDivMod : AExpr → Bool
  | .dim _ => true
  | .const _ => true
  | .bin k a b => (k == .add || k == .mul) && noDivMod a && noDivMod b

def dimsBelow (n : Nat) : AExpr → Bool
  | .dim i => decide (i < n)
  | .const _ => true
  | .bin _ a b => dimsBelow n a && dimsBelow n b

def envOf (x : List Int) : Nat → Int := fun i => x.getD i 0

/-- `generate_one_list(n, d)`; `d = none` is the call with `-1` (all zeros). -/
def oneList (n : Nat) (d : Option Nat) : List Int :=
  (List.range n).map fun x => if some x = d then 1 else 0

/-- value of a division-free expression (`getD` is never reached for such an expression:
`Lemmas/AffineTransform.lean: eval_isSome_of_noDivMod`) -/
def evalAt (e : AExpr) (x : List Int) : Int := (e.eval (envOf x)).getD 0

/-- `from_affine_map(AffineMap(n, 0, rs))`: unit responses. -/
def fromMap (n : Nat) (rs : List AExpr) : Except Err Transform :=
  if rs.any (fun e => !noDivMod e) then .error .valueError
  else if rs.any (fun e => !dimsBelow n e) then .error .indexError
  else .ok {
    nd := n
    A := rs.map fun e => (List.range n).map fun d => evalAt e (oneList n (some d)) - evalAt e (oneList n none)
    b := rs.map fun e => evalAt e (oneList n none) }

/-- Hypothesis of `fromMap_linear`: every product has a side without dimensions (what xDSL's own
`*` enforces; a raw `AffineBinaryOpExpr(Mul, d0, d1)` violates it and is not affine). -/
def dimFree : AExpr → Bool
  | .dim _ => false
  | .const _ => true
  | .bin _ a b => dimFree a && dimFree b

def mulConstSide : AExpr → Bool
  | .dim _ => true
  | .const _ => true
  | .bin k a b => (k != .mul || dimFree a || dimFree b) && mulConstSide a && mulConstSide b

/-! ### further entry points of the class (added in the deepening round; nothing above is changed) -/

/-- `__post_init__` on the shapes of the two numpy arrays -/
def postInit (aShape bShape : List Nat) : Except Err Unit :=
  if aShape.length ≠ 2 then .error .valueError          -- "Matrix A must be 2-dimensional."
  else if bShape.length ≠ 1 then .error .valueError     -- "Vector b must be 1-dimensional."
  else if aShape.head? ≠ bShape.head? then .error .valueError
  else .ok ()

/-- `eval(x)` for a 2-D `x` of shape `(xs.length, k)` (batch of vectors): `(A @ x.T).T + b`. -/
def Transform.evalBatch (t : Transform) (xs : List (List Int)) (k : Nat) : Except Err (List (List Int)) :=
  if k ≠ t.nd then .error .valueError else .ok (xs.map fun x => vecAdd (matVec t.A x) t.b)

/-- `eval(x)` dispatching on `x.ndim` (1: `xs = [x]`; 2: batch; anything else raises). -/
def Transform.evalNd (t : Transform) (ndim : Nat) (xs : List (List Int)) (k : Nat) : Except Err (List (List Int)) :=
  if ndim = 1 then
    match xs with
    | [x] => (t.eval x).map fun y => [y]
    | _ => .error .valueError
  else if ndim = 2 then t.evalBatch xs k
  else .error .valueError

/-- numpy broadcasting: two extents are compatible when equal or one of them is 1 -/
def compat (m n : Nat) : Bool := m == n || m == 1 || n == 1

def stretch {α} (n : Nat) (l : List α) : List α :=
  match l with
  | [a] => List.replicate n a
  | _ => l

/-- `(a == b).all()` for two broadcast-compatible vectors -/
def allEq1 (a b : List Int) : Bool :=
  let n := if a.length = 1 then b.length else a.length
  (List.zipWith (· == ·) (stretch n a) (stretch n b)).all id

/-- `(A == B).all()` for two broadcast-compatible matrices (lists of rows) -/
def allEq2 (A B : List (List Int)) : Bool :=
  let n := if A.length = 1 then B.length else A.length
  (List.zipWith allEq1 (stretch n A) (stretch n B)).all id

/-- `AffineTransform.__eq__` AS IT IS: `(self.A == other.A).all() and (self.b == other.b).all()` with
numpy broadcasting (incompatible shapes raise ValueError; `and` short-circuits). -/
def Transform.eqNp (s o : Transform) : Except Err Bool :=
  if !(compat s.A.length o.A.length && compat s.nd o.nd) then .error .valueError
  else if !(allEq2 s.A o.A) then .ok false
  else if !(compat s.b.length o.b.length) then .error .valueError
  else .ok (allEq1 s.b o.b)

/-- `__eq__` with fix FC19b (`np.array_equal` on both arrays: shapes and entries). -/
def Transform.eqFixed (s o : Transform) : Bool := s.nd == o.nd && s.A == o.A && s.b == o.b

end AT
end SnaxVerif
