/-
Model of the DMA lowering of `memref.copy` in snax-mlir (property C05):

* `snaxc/ir/tsl/stride.py`, `tiled_stride.py` (`from_stride`), `tiled_strided_layout.py`
  (`from_strides`, `largest_common_contiguous_block`),
* `snaxc/dialects/tsl.py` (`get_bound_ops`, `get_step_ops`: the values the emitted ops compute at run time),
* `snaxc/transforms/snax_copy_to_dma.py` (`MatchSimpleCopy`, `extract_strides`, `extract_offset`, `TransformDMA`),
* `runtime/include/snax_rt.h` (`snax_dma_1d_transfer`, `snax_dma_2d_transfer` = `snrt_dma_start_1d/2d`).

The model mirrors the code as it is (by-value LCB membership, `divui` flooring of dynamic bounds, `None == None`
matching of dynamic steps, truthiness tests on 0).  Emission of ops and their evaluation against a run-time
memref descriptor are folded together: `lowerCopy` returns the concrete DMA program for a descriptor.
Addresses are unbounded naturals (no 32-bit wrap).  No Mathlib import: linked into the driver.
-/
namespace SnaxVerif.Dma

/-- `snaxc.ir.tsl.Stride`: `none` = dynamic (`?`). -/
structure Stride where
  step : Option Nat
  bound : Option Nat
deriving DecidableEq, Repr, Inhabited

/-- `TiledStridedLayout`: one list of strides per dimension (outermost tile first) and an offset
(`none` = dynamic, only produced from `strided<…, offset: ?>`). -/
structure Tsl where
  ts : List (List Stride)
  offset : Option Nat
deriving DecidableEq, Repr, Inhabited

inductive Err where
  | noMatch      -- the pattern returns without rewriting (copy left in place)
  | assertion    -- AssertionError
  | indexError   -- IndexError / KeyError
  | structure    -- the two layouts do not have the same (dim, depth) structure: outside the model
  | notImplemented  -- NotImplementedError ("This memref layout type is not handled yet.")
  | fuel
deriving DecidableEq, Repr, Inhabited

inductive Layout where
  | none
  | strided (strides : List (Option Nat)) (offset : Option Nat)
  | tsl (t : Tsl)
  | other        -- any other layout attribute (e.g. an affine map)
deriving DecidableEq, Repr, Inhabited

/-- memref type: shape (`none` = dynamic `?`), element size in bytes (`FixedBitwidthType.size`; 0 stands for an
element type that is not a `FixedBitwidthType`, i.e. `index`), whether the element type is an `IntegerType`, layout. -/
structure MemTy where
  shape : List (Option Nat)
  el : Nat
  isInt : Bool
  layout : Layout
deriving DecidableEq, Repr, Inhabited

/-- run-time memref descriptor: aligned pointer, sizes, strides and offset (in elements). -/
structure Rt where
  base : Nat
  shape : List Nat
  strides : List Nat
  offset : Nat
deriving DecidableEq, Repr, Inhabited

/-- Python truthiness of `int | None`. -/
def truthy : Option Nat → Bool
  | some n => n != 0
  | none => false

/-! ### `TiledStride.from_stride`, `TiledStridedLayout.from_strides` -/

/-- steps for the tile bounds `b₀ :: tail`: called on `tail`. WITH fix F42:
`bound * steps[0] if bound and steps[0] is not None else None`. -/
def fsSteps (simple : Option Nat) : List (Option Nat) → List (Option Nat)
  | [] => [simple]
  | b :: r =>
    let inner := fsSteps simple r
    let h := inner.head?.join
    (if truthy b && h.isSome then some (b.getD 0 * h.getD 0) else none) :: inner

/-- BEFORE fix F42 (finding D42): `bound * steps[0] if bound and steps[0] else None` — a step 0 is falsy and makes the
outer step `None`. -/
def fsStepsPre (simple : Option Nat) : List (Option Nat) → List (Option Nat)
  | [] => [simple]
  | b :: r =>
    let inner := fsStepsPre simple r
    let h := inner.head?.join
    (if truthy b && truthy h then some (b.getD 0 * h.getD 0) else none) :: inner

def fromStridePre (simple : Option Nat) (tb : List (Option Nat)) : List Stride :=
  List.zipWith Stride.mk (fsStepsPre simple tb.tail) tb

def fromStridesPre (strides : List (Option Nat)) (tbs : List (List (Option Nat))) (offset : Option Nat) : Tsl :=
  ⟨List.zipWith fromStridePre strides tbs, offset⟩

def fromStride (simple : Option Nat) (tb : List (Option Nat)) : List Stride :=
  List.zipWith Stride.mk (fsSteps simple tb.tail) tb

def fromStrides (strides : List (Option Nat)) (tbs : List (List (Option Nat))) (offset : Option Nat) : Tsl :=
  ⟨List.zipWith fromStride strides tbs, offset⟩

def Tsl.tileBounds (t : Tsl) : List (List (Option Nat)) := t.ts.map (·.map (·.bound))

/-! ### `extract_strides`, `extract_offset`, reconstruction of the two TSLs -/

/-- row-major strides of the default layout; argument = `shape[1:]`. -/
def rowMajor : List (Option Nat) → List (Option Nat)
  | [] => [some 1]
  | sz :: r =>
    let inner := rowMajor r
    (match sz, inner.head? with
     | some n, some (some s) => some (n * s)
     | _, _ => none) :: inner

def extractStrides (t : MemTy) : Option (List (Option Nat)) :=
  match t.layout with
  | .strided s _ => some s
  | .none => some (rowMajor t.shape.tail)
  | .tsl _ => none
  | .other => none

def extractOffset (t : MemTy) : Option Nat :=
  match t.layout with
  | .strided _ o => o
  | _ => some 0

/-- `[[x] if x > 0 else [None] for x in shape]` (a dynamic extent is a negative number there). -/
def shapeTileBounds (shape : List (Option Nat)) : List (List (Option Nat)) :=
  shape.map fun x => match x with
    | some n => if n > 0 then [some n] else [none]
    | none => [none]

/-- the TSL `TransformDMA` uses for operand `t` whose partner is `other`; `srcShape` is the *source* shape. -/
def tslOf (t other : MemTy) (srcShape : List (Option Nat)) : Except Err Tsl :=
  match t.layout with
  | .tsl l => .ok l
  | .other => .error .notImplemented
  | _ =>
    match extractStrides t with
    | none => .error .noMatch
    | some strides =>
      if strides.isEmpty then .error .noMatch else
      let tbs := match other.layout with
        | .tsl l => l.tileBounds
        | _ => shapeTileBounds srcShape
      .ok (fromStrides strides tbs (extractOffset t))

/-- `tslOf` BEFORE fix F42 -/
def tslOfPre (t other : MemTy) (srcShape : List (Option Nat)) : Except Err Tsl :=
  match t.layout with
  | .tsl l => .ok l
  | .other => .error .notImplemented
  | _ =>
    match extractStrides t with
    | none => .error .noMatch
    | some strides =>
      if strides.isEmpty then .error .noMatch else
      let tbs := match other.layout with
        | .tsl l => l.tileBounds
        | _ => shapeTileBounds srcShape
      .ok (fromStridesPre strides tbs (extractOffset t))

/-! ### entries: one record per (dim, depth) carrying both static strides and the run-time values -/

structure Entry where
  ss : Stride          -- source stride as written in the (reconstructed) TSL
  ds : Stride          -- destination stride at the same (dim, depth)
  bound : Nat := 0     -- value of `bound_ops[(dim, depth)]` (computed from the SOURCE)
  sstep : Nat := 0     -- value of `step_ops_src[(dim, depth)]`, bytes
  dstep : Nat := 0     -- value of `step_ops_dst[(dim, depth)]`, bytes
deriving DecidableEq, Repr, Inhabited

/-! ### `largest_common_contiguous_block` -/

/-- `next(… for … in sorted(self_strides, key=bound is None) if stride.step == current_stride)` -/
def findStep (cur : Option Nat) (l : List Entry) : Option Entry :=
  match l.find? (fun e => e.ss.bound.isSome && e.ss.step == cur) with
  | some e => some e
  | none => l.find? (fun e => e.ss.bound.isNone && e.ss.step == cur)

def nextCur (s : Stride) : Option Nat :=
  match s.step, s.bound with
  | some a, some b => some (a * b)
  | _, _ => none

/-- the `while True` loop; returns the members in the order they were found (innermost first) and the strides
that were not taken (`self_strides` at exit), in their original order. -/
def lcbLoop : Nat → List Entry → Option Nat → List Entry → Except Err (List Entry × List Entry)
  | 0, _, _, _ => .error .fuel
  | fuel + 1, l, cur, acc =>
    match findStep cur l with
    | none => .ok (acc, l)
    | some e =>
      if e.ss = e.ds then lcbLoop fuel (l.erase e) (nextCur e.ss) (acc ++ [e])
      else .ok (acc, l)

/-- `largest_common_contiguous_block_keys` (fix F21): the members by position, and the other positions. -/
def lcbSplit (flat : List Entry) : Except Err (List Entry × List Entry) :=
  lcbLoop (flat.length + 1) flat (some 1) []

def lcbMembers (flat : List Entry) : Except Err (List Entry) :=
  (lcbSplit flat).map (·.1)

def defaultLcb : List Stride := [⟨some 1, some 1⟩]

/-- `result or default_result` -/
def lcbOfMembers (m : List Entry) : List Stride :=
  if m.isEmpty then defaultLcb else m.map (·.ss)

/-! ### `get_bound_ops` evaluated on the run-time shape -/

def prodTruthy (l : List Stride) : Nat :=
  l.foldr (fun s acc => (if truthy s.bound then s.bound.getD 1 else 1) * acc) 1

/-- inner depths must be static (`assert stride.bound is not None`). -/
def innerBounds : List Stride → Except Err (List Nat)
  | [] => .ok []
  | s :: r =>
    match s.bound with
    | none => .error .assertion
    | some b => (innerBounds r).map (b :: ·)

def dimBounds (strides : List Stride) (extent : Nat) : Except Err (List Nat) :=
  match strides with
  | [] => .error .indexError
  | s :: r =>
    let b0 := match s.bound with
      | some b => b
      | none => extent / prodTruthy strides      -- arith.divui: floors
    (innerBounds r).map (b0 :: ·)

def resolveBounds : List (List Stride) → List Nat → Except Err (List (List Nat))
  | [], _ => .ok []
  | _ :: _, [] => .error .indexError
  | d :: ds, x :: xs => do
    let b ← dimBounds d x
    let r ← resolveBounds ds xs
    pure (b :: r)

/-! ### `get_step_ops` evaluated at run time -/

/-- One item of the right-to-left walk: static step (in elements), bound value, and the pre-assigned
run-time stride in bytes (`metadata_op.strides[dim] * element_size`, last depth of a strided memref only). -/
structure StepIn where
  step : Option Nat
  bound : Nat
  pre : Option Nat
deriving Repr, Inhabited

/-- `max_key`/`max_value` scan in flat order: strictly greater replaces. Returns (max step, bound at max key). -/
def maxScan : List StepIn → Nat × Option Nat → Nat × Option Nat
  | [], acc => acc
  | x :: r, (mv, mb) =>
    if truthy x.step && x.step.getD 0 > mv then maxScan r (x.step.getD 0, some x.bound) else maxScan r (mv, mb)

/-- the assignment loop over one dimension, innermost depth first (the tail is processed first);
state = value of `dynamic_step`. -/
def stepsDim (el : Nat) : List StepIn → Nat → List Nat × Nat
  | [], dyn => ([], dyn)
  | x :: r, dyn =>
    let (rs, dyn1) := stepsDim el r dyn
    match x.step with
    | some s => (s * el :: rs, dyn1)
    | none =>
      let st := x.pre.getD dyn1
      (st :: rs, st * x.bound)

/-- dimensions right to left. -/
def stepsAll (el : Nat) : List (List StepIn) → Nat → List (List Nat) × Nat
  | [], dyn => ([], dyn)
  | d :: r, dyn =>
    let (rs, dyn1) := stepsAll el r dyn
    let (ds, dyn2) := stepsDim el d dyn1
    (ds :: rs, dyn2)

/-- attach `pre` to the last depth of a dimension if its step is dynamic -/
def stepInsDim (pre : Option Nat) : List Stride → List Nat → List StepIn
  | [], _ => []
  | _, [] => []
  | [s], b :: _ => [⟨s.step, b, if s.step.isNone then pre else none⟩]
  | s :: s' :: r, b :: bs => ⟨s.step, b, none⟩ :: stepInsDim pre (s' :: r) bs

def stepIns (isStrided : Bool) (el : Nat) : List (List Stride) → List (List Nat) → List Nat → List (List StepIn)
  | [], _, _ => []
  | _, [], _ => []
  | d :: ds, b :: bs, mstr =>
    stepInsDim (if isStrided then (mstr.head?.map (· * el)) else none) d b :: stepIns isStrided el ds bs mstr.tail

/-- run-time byte steps of every (dim, depth) of layout `t` for a memref whose layout attribute is strided or not,
with the bound values `bounds` (always those of the source) and the descriptor strides `meta`. -/
def resolveSteps (t : Tsl) (isStrided : Bool) (el : Nat) (bounds : List (List Nat)) (mstr : List Nat) :
    List (List Nat) :=
  let ins := stepIns isStrided el t.ts bounds mstr
  let flat := ins.flatten
  let dflt : Option Nat := (ins.getLast?.bind (·.getLast?)).map (·.bound)
  let (mv, mb) := maxScan flat (0, dflt)
  (stepsAll el ins (mb.getD 0 * (mv * el))).1

def Layout.isStrided : Layout → Bool
  | .strided _ _ => true
  | _ => false

/-! ### the emitted program and the DMA semantics -/

inductive Xfer where
  | oneD (size : Nat)
  | twoD (size sstride dstride rep : Nat)
deriving DecidableEq, Repr, Inhabited

/-- loops are outermost first: (trip count, source byte step, destination byte step) -/
structure DmaProg where
  sbase : Nat
  dbase : Nat
  loops : List (Nat × Nat × Nat)
  xfer : Xfer
deriving DecidableEq, Repr, Inhabited

/-- all (source offset, destination offset) pairs of a loop nest over (bound, sstep, dstep), in execution order. -/
def offs : List (Nat × Nat × Nat) → List (Nat × Nat)
  | [] => [(0, 0)]
  | (b, s, d) :: r => (List.range b).flatMap fun i => (offs r).map fun p => (i * s + p.1, i * d + p.2)

/-- the sequence of runtime calls: (source pointer, destination pointer) of every `func.call`. -/
def DmaProg.calls (p : DmaProg) : List (Nat × Nat) :=
  (offs p.loops).map fun o => (p.sbase + o.1, p.dbase + o.2)

/-- byte moves (source byte, destination byte) of one call: `snrt_dma_start_1d(dst, src, size)` copies `size`
bytes; `snrt_dma_start_2d(dst, src, size, dst_stride, src_stride, repeat)` issues `repeat` bursts of `size` bytes. -/
def Xfer.moves (x : Xfer) (s d : Nat) : List (Nat × Nat) :=
  match x with
  | .oneD n => (List.range n).map fun k => (s + k, d + k)
  | .twoD n ss ds rep => (List.range rep).flatMap fun r => (List.range n).map fun k => (s + r * ss + k, d + r * ds + k)

def DmaProg.moves (p : DmaProg) : List (Nat × Nat) :=
  p.calls.flatMap fun c => p.xfer.moves c.1 c.2

/-! ### `TransformDMA` steps 3–6 -/

def sortKey (e : Entry) : Nat := if truthy e.ss.bound then e.ss.bound.getD 0 else 0

/-- stable insertion for `sorted(…, key=…, reverse=True)`: `x` precedes everything in `l` in the input. -/
def insDesc (x : Entry) : List Entry → List Entry
  | [] => [x]
  | y :: r => if sortKey y > sortKey x then y :: insDesc x r else x :: y :: r

def sortDesc (l : List Entry) : List Entry := l.foldr insDesc []

def Entry.triple (e : Entry) : Nat × Nat × Nat := (e.bound, e.sstep, e.dstep)

/-- BEFORE fix F21 (finding D41): `stride not in lcb` (by value, `Stride.__eq__`) -/
def remaining (lcb : List Stride) (flat : List Entry) : List Entry :=
  flat.filter fun e => !lcb.contains e.ss

/-- `stride in lcb and stride.bound == 1` -/
def unitCovered (lcb : List Stride) (e : Entry) : Bool := lcb.contains e.ss && e.ss.bound == some 1

/-- WITH fix F21: `key not in lcb_keys and not (stride in lcb and stride.bound == 1)`; `rest` = the positions
that are not members, in order. -/
def remainingByKey (lcb : List Stride) (rest : List Entry) : List Entry :=
  rest.filter fun e => !unitCovered lcb e

/-- step 6.2, literally: the innermost `scf.for` runs to `upper[-1]`; then for `i = 0 .. n-2` the nest so far is
wrapped into a loop to `upper[n - 2 - i]`. The nest is represented by its trip counts, outermost first. -/
def wrapLoops (upper : List Nat) : List Nat :=
  (List.range (upper.length - 1)).foldl (fun nest i => upper.getD (upper.length - 2 - i) 0 :: nest) [upper.getLastD 0]

/-- steps 5/6: no loop at all if nothing remains after the 2-D repeat dimension; otherwise the nest of step 6.2 and,
step 6.3, the `i`-th loop from outside advances the pointers by the steps of `remaining_strides_list[i]`. -/
def buildLoops (rest : List Entry) : List (Nat × Nat × Nat) :=
  if rest.isEmpty then []
  else List.zipWith (fun b (e : Entry) => (b, e.sstep, e.dstep)) (wrapLoops (rest.map (·.bound))) rest

/-- steps 4–6 given the remaining strides (dims ascending, depths ascending), the LCB, the pointers after
offset application and the total size in bytes. -/
def build (el sbase dbase total : Nat) (lcb : List Stride) (rem : List Entry) : Except Err DmaProg :=
  match sortDesc rem with
  | [] => .ok ⟨sbase, dbase, [], .oneD total⟩
  | h :: rest =>
    match lcb.getLast? with
    | none => .error .indexError
    | some last =>
      match last.bound, last.step with
      | some lb, some ls =>
        .ok ⟨sbase, dbase, buildLoops rest, .twoD (lb * ls * el) h.sstep h.dstep h.bound⟩
      | _, _ => .error .assertion

/-! ### resolution of both layouts against the descriptors -/

def zipEntries : List (List Stride) → List (List Stride) → List (List Nat) → List (List Nat) → List (List Nat) →
    List (List Entry)
  | s :: ss, d :: ds, b :: bs, x :: xs, y :: ys =>
    (List.zipWith (fun (p : Stride × Stride) (q : Nat × Nat × Nat) => (⟨p.1, p.2, q.1, q.2.1, q.2.2⟩ : Entry))
      (s.zip d) (b.zip (x.zip y))) :: zipEntries ss ds bs xs ys
  | _, _, _, _, _ => []

def sameStructure (a b : Tsl) : Bool := a.ts.map List.length == b.ts.map List.length

/-- entries per dimension for the two layouts and descriptors. -/
def resolve (src dst : MemTy) (tS tD : Tsl) (rs rd : Rt) : Except Err (List (List Entry)) := do
  if !sameStructure tS tD then throw .structure
  let bounds ← resolveBounds tS.ts rs.shape
  let ssteps := resolveSteps tS src.layout.isStrided src.el bounds rs.strides
  let dsteps := resolveSteps tD dst.layout.isStrided dst.el bounds rd.strides
  pure (zipEntries tS.ts tD.ts bounds ssteps dsteps)

/-- pointer after `apply offset if it is not zero` -/
def applyOffset (base el : Nat) (off : Option Nat) (rtOff : Nat) : Nat :=
  match off with
  | some 0 => base
  | some o => base + el * o
  | none => base + el * rtOff

def totalBytes (shape : List Nat) (el : Nat) : Nat := shape.foldr (· * ·) 1 * el

structure Lowered where
  tS : Tsl
  tD : Tsl
  nested : List (List Entry)
  lcb : List Stride
  prog : DmaProg
deriving DecidableEq, Repr

/-- steps 2–6 on the resolved entries: LCB, remaining strides, program. `byValue = true` is the code before fix
F21 (membership in the LCB decided by Stride value), `false` the code with F21 (by position). -/
def lowerResolved (byValue : Bool) (el sb db : Nat) (shape : List Nat) (nested : List (List Entry)) :
    Except Err (List Stride × DmaProg) :=
  match lcbSplit nested.flatten with
  | .error e => .error e
  | .ok mr =>
    match build el sb db (totalBytes shape el) (lcbOfMembers mr.1)
        (if byValue then remaining (lcbOfMembers mr.1) nested.flatten else remainingByKey (lcbOfMembers mr.1) mr.2) with
    | .error e => .error e
    | .ok p => .ok (lcbOfMembers mr.1, p)

/-- `TransformDMA.match_and_rewrite` evaluated on descriptors `rs`, `rd`. -/
def transformDma (byValue : Bool) (src dst : MemTy) (rs rd : Rt) : Except Err Lowered :=
  if src.shape != dst.shape || src.el != dst.el || src.isInt != dst.isInt || !src.isInt then .error .noMatch else
  match tslOf src dst src.shape with
  | .error e => .error e
  | .ok tS =>
    match tslOf dst src src.shape with
    | .error e => .error e
    | .ok tD =>
      match resolve src dst tS tD rs rd with
      | .error e => .error e
      | .ok nested =>
        match lowerResolved byValue src.el (applyOffset rs.base src.el tS.offset rs.offset)
            (applyOffset rd.base dst.el tD.offset rd.offset) rs.shape nested with
        | .error e => .error e
        | .ok r => .ok ⟨tS, tD, nested, r.1, r.2⟩

/-- `TransformDMA.match_and_rewrite` BEFORE fix F42 (finding D42): the reconstruction uses `from_stride` with the
truthiness test on the inner step. Kept for the refutation `strided_source_address_pre42_fails` and for checking an
unpatched tree (driver arg `pre42`, harness env `C05_PRE42=1`). -/
def transformDmaPre42 (byValue : Bool) (src dst : MemTy) (rs rd : Rt) : Except Err Lowered :=
  if src.shape != dst.shape || src.el != dst.el || src.isInt != dst.isInt || !src.isInt then .error .noMatch else
  match tslOfPre src dst src.shape with
  | .error e => .error e
  | .ok tS =>
    match tslOfPre dst src src.shape with
    | .error e => .error e
    | .ok tD =>
      match resolve src dst tS tD rs rd with
      | .error e => .error e
      | .ok nested =>
        match lowerResolved byValue src.el (applyOffset rs.base src.el tS.offset rs.offset)
            (applyOffset rd.base dst.el tD.offset rd.offset) rs.shape nested with
        | .error e => .error e
        | .ok r => .ok ⟨tS, tD, nested, r.1, r.2⟩

/-- `TransformDMA(test_ignore_transform=True)`: everything up to step 3 as usual (so the same inputs are refused), then
`if len(remaining_strides_list) == 0 or self.test_ignore_transform` always takes the 1-D branch. Documented upstream as
"renders the data incorrect"; modelled for correspondence only, no property is claimed for it. -/
def transformDmaIgnore (src dst : MemTy) (rs rd : Rt) : Except Err Lowered :=
  if src.shape != dst.shape || src.el != dst.el || src.isInt != dst.isInt || !src.isInt then .error .noMatch else
  match tslOf src dst src.shape with
  | .error e => .error e
  | .ok tS =>
    match tslOf dst src src.shape with
    | .error e => .error e
    | .ok tD =>
      match resolve src dst tS tD rs rd with
      | .error e => .error e
      | .ok nested =>
        match lcbSplit nested.flatten with
        | .error e => .error e
        | .ok mr =>
          .ok ⟨tS, tD, nested, lcbOfMembers mr.1,
            ⟨applyOffset rs.base src.el tS.offset rs.offset, applyOffset rd.base dst.el tD.offset rd.offset, [],
             .oneD (totalBytes rs.shape src.el)⟩⟩

/-- `MatchSimpleCopy`: both layouts absent → one 1-D transfer of `Π dims · element size` bytes. -/
def simpleCopy (src dst : MemTy) (rs rd : Rt) : Except Err DmaProg :=
  -- `assert isa(op.source.type, MemRefType[FixedBitwidthType])` comes before the layout test
  if src.el == 0 then .error .assertion else
  match src.layout, dst.layout with
  | .none, .none =>
    -- rank 0: `assert total_size_op is not None` in get_total_size_op
    if src.shape != dst.shape || src.el != dst.el || src.isInt != dst.isInt || src.shape.isEmpty then .error .assertion
    else .ok ⟨rs.base, rd.base, [], .oneD (totalBytes rs.shape src.el)⟩
  | _, _ => .error .noMatch

/-- the whole pass on one `memref.copy`. -/
def lowerCopy (byValue : Bool) (src dst : MemTy) (rs rd : Rt) : Except Err DmaProg :=
  match simpleCopy src dst rs rd with
  | .ok p => .ok p
  | .error .noMatch => (transformDma byValue src dst rs rd).map (·.prog)
  | .error e => .error e

/-! ### the layout-defined address (specification side) -/

def prodB : List Entry → Nat
  | [] => 1
  | e :: r => e.bound * prodB r

/-- address contribution of logical index `x` in one dimension with tile entries `es` (outermost first):
digit of depth k is `(x mod Π_{j≥k} b_j) / Π_{j>k} b_j` (depth 0 without the mod), as in
`TiledStridedLayoutAttr.get_affine_map`. Returns (source bytes, destination bytes). -/
def tileAddr : List Entry → Nat → Nat × Nat
  | [], _ => (0, 0)
  | e :: r, x =>
    let q := x / prodB r
    let p := tileAddr r (x % prodB r)
    (q * e.sstep + p.1, q * e.dstep + p.2)

/-- address of the logical element `idx` under both resolved layouts. -/
def elemAddr : List (List Entry) → List Nat → Nat × Nat
  | d :: ds, x :: xs =>
    let a := tileAddr d x
    let r := elemAddr ds xs
    (a.1 + r.1, a.2 + r.2)
  | _, _ => (0, 0)

/-- all index vectors of a box, lexicographic. -/
def box : List Nat → List (List Nat)
  | [] => [[]]
  | n :: r => (List.range n).flatMap fun i => (box r).map (i :: ·)

/-- the byte moves the property demands: every logical element, every byte of it, from the address the source
layout assigns to the address the destination layout assigns. -/
def expectedMoves (el sbase dbase : Nat) (shape : List Nat) (nested : List (List Entry)) : List (Nat × Nat) :=
  (box shape).flatMap fun idx =>
    (List.range el).map fun k => (sbase + (elemAddr nested idx).1 + k, dbase + (elemAddr nested idx).2 + k)

/-- the default (row-major) layout of a memref of run-time shape `shape`, as resolved entries: one entry per
dimension, byte step = product of the inner extents times the element size, same on both sides. -/
def rowMajorNested (el : Nat) : List Nat → List (List Entry)
  | [] => []
  | n :: r =>
    [⟨⟨none, none⟩, ⟨none, none⟩, n, r.foldr (· * ·) 1 * el, r.foldr (· * ·) 1 * el⟩] :: rowMajorNested el r

end SnaxVerif.Dma
