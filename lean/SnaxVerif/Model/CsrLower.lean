import SnaxVerif.Model.RegMap
/-!
# C04 (b) — `convert-accfg-to-csr` for the CSR-configured (SNAX) accelerators, and the RoCC pairing

Model of `snaxc/transforms/convert_accfg_to_csr.py` (`LowerAccfgSetupToCsr`, `LowerAccfgLaunchToCsr`,
`LowerAccfgAwaitToCsr`, `DeleteAllStates`, `RemoveAcceleratorOps`) with `SNAXAccelerator.lower_acc_setup /
lower_acc_launch` and the two barrier styles in use (`SNAXPollingBarrier` = hwpe, `SNAXPollingBarrier3`
= alu/gemmx/xdma/phs) of `snaxc/accelerators/snax.py`.  `SNAXPollingBarrier2/4` are not used by any
accelerator class and are not modelled.  Errors of the real code (`KeyError`, `AssertionError`, the
`Exception` of a failed accelerator lookup) are `Except.error`.  The walk is in reverse program order, so
the error reported is the one of the LAST offending op.

The programs are a small structured IR of its own (another file owns the accfg pass models): setups,
launches, awaits, opaque ops (carrying the number of `!accfg.state`-typed operands/results they mention),
`if` and `for`.  An `if`/`for` carries its results positionally as a list of *slots*: a slot is either the
accelerator state (result, block argument, init operand and yield operand of `!accfg.state` type) or a data
value (`scf.for`: result, block argument, init operand, yielded value; `scf.if`: result and the value yielded
by either branch).  The terminating `scf.yield` is part of the slots, not of the body.  `DeleteAllStates`
removes the state slots and keeps the data slots IN ORDER (old result i is re-bound to the new result at its
rank among the survivors); that order is what the semantics below observes: results are bound from the yields
position by position.  No Mathlib.
-/
namespace SnaxVerif.CsrLower
open SnaxVerif.RegMap (Dict lookup)

abbrev Var := Nat

/-- which `lower_acc_await` the registered accelerator class has -/
inductive Style
  | poll1   -- SNAXPollingBarrier: poll, then write 0 to 0x3c5, then 4 nops
  | poll3   -- SNAXPollingBarrier3: poll
deriving DecidableEq, Repr

/-- an `accfg.accelerator` op of the module together with the style of the class registered under its name -/
structure Decl where
  name : String
  fields : Dict
  launch : Dict
  barrier : Nat
  style : Style
deriving Repr

inductive Err
  | noAcc          -- Exception: symbol table lookup failed / accelerator not registered
  | keyError       -- KeyError: field not in the declared dictionary
  | assertLaunch   -- AssertionError: `assert "launch" in field`
  | zeroDiv        -- ZeroDivisionError: `m // (len(mult_vals) // n)` with fewer multipliers than one group
  | valueError     -- ValueError: `zip(values, offsets, strict=True)` in pack_bitlist (a shift chunk of < 4 values)
deriving DecidableEq, Repr

/-- `dict(pairs)[k]`: the value of the LAST occurrence of `k` -/
def lastLookup {α} : List (String × α) → String → Option α
  | [], _ => none
  | (k', v) :: r, k =>
    match lastLookup r k with
    | some x => some x
    | none => if k' == k then some v else none


/-! ## RoCC (`snaxc/accelerators/rocc.py`)

An instruction-configured accelerator: every emitted `.insn` transmits BOTH source registers of one
instruction.  `create_pairs` builds `field_dict = dict(op.iter_params())` (a field given twice keeps its LAST
value) and, for a setup, fills the operand the op does not give from `infer_state_of(in_state)`; a setup
without input state gets the materialised default `0` instead.  That is modelled as a lookup chain
(`operand`): the op's own last value for the field, else the fallback.  `prev` (the inferred state) is computed
by the real code and passed in as data: its soundness is the business of the state-inference property (C07)
and appears as the named hypothesis `PrevSound` of the theorems in `Props/C04.lean`. -/

inductive RVal
  | var (v : Var)
  | default0        -- the materialised `arith.constant 0 : i64`
deriving DecidableEq, Repr

/-- `insn instr funct7 rs1 rs2`: the asm string only carries `funct7`; `instr` is the name of the declared
instruction it was emitted for (the `.rs1` key it came from), kept for the semantics. -/
inductive RStmt
  | const0
  | insn (instr : String) (func7 : Nat) (rs1 rs2 : RVal)
deriving DecidableEq, Repr

/-- `name[:-4]` -/
def instrOf (f : String) : String := String.ofList (f.toList.take (f.length - 4))

/-- `name.endswith(".rs1")` -/
def isRs1 (f : String) : Bool := ".rs1".toList.isSuffixOf f.toList

/-- lookup in a Python dict given as its item list -/
def plookup {α} (d : List (String × α)) (k : String) : Option α := (d.find? (fun e => e.1 == k)).map (·.2)

/-- `field_dict[k]` after `create_pairs` filled it: the op's own value, else the fallback -/
def operand (ps : List (String × Var)) (fb : String → Option RVal) (k : String) : Option RVal :=
  match lastLookup ps k with
  | some v => some (.var v)
  | none => fb k

/-- `instruction in set(name[:-4] for name, _ in op.iter_params())` -/
def hasInstr (ps : List (String × Var)) (i : String) : Bool := ps.any (fun p => instrOf p.1 == i)

/-- both operands of every instruction the op mentions are available -/
def complete (ps : List (String × Var)) (fb : String → Option RVal) : Bool :=
  ps.all (fun p => (operand ps fb (instrOf p.1 ++ ".rs1")).isSome && (operand ps fb (instrOf p.1 ++ ".rs2")).isSome)

/-- `combine_pairs_to_ops(field_items, values)`: one instruction per declared `.rs1` key, in declaration order.
`restrict = true` (setup): only the instructions the op mentions (`current_fields`); `restrict = false`
(launch): every declared launch instruction, `values[name]` raising `KeyError` for one the op lacks. -/
def roccEmit (ps : List (String × Var)) (fb : String → Option RVal) (restrict : Bool) : Dict → Except Err (List RStmt)
  | [] => .ok []
  | e :: r =>
    if isRs1 e.1 then
      if hasInstr ps (instrOf e.1) then
        match operand ps fb (instrOf e.1 ++ ".rs1"), operand ps fb (instrOf e.1 ++ ".rs2") with
        | some a, some b =>
          match roccEmit ps fb restrict r with
          | .ok l => .ok (.insn (instrOf e.1) e.2 a b :: l)
          | .error x => .error x
        | _, _ => .error .keyError
      else if restrict then roccEmit ps fb restrict r else .error .keyError
    else roccEmit ps fb restrict r

def fromState (st : List (String × Var)) : String → Option RVal := fun k => (plookup st k).map RVal.var

/-- `RoCCAccelerator.lower_acc_setup` + `create_pairs`; `prev` = `infer_state_of(in_state)` (`none` = the
setup has no input state). -/
def roccSetup (decl : Dict) (ps : List (String × Var)) (prev : Option (List (String × Var))) :
    Except Err (List RStmt) :=
  match prev with
  | none =>
    -- defaults for the operands the setup does not give ("not set yet"); the constant is only materialised
    -- when one is needed
    match roccEmit ps (fun _ => some .default0) true decl with
    | .error e => .error e
    | .ok l => .ok ((if complete ps (fun _ => none) then [] else [RStmt.const0]) ++ l)
  | some st =>
    -- retrace the partner through the inferred previous state; KeyError if it is not there
    if complete ps (fromState st) then roccEmit ps (fromState st) true decl else .error .keyError

/-- `RoCCAccelerator.lower_acc_launch`: no retrace, both operands must be present (`assert`) -/
def roccLaunch (decl : Dict) (ps : List (String × Var)) : Except Err (List RStmt) :=
  if complete ps (fun _ => none) then roccEmit ps (fun _ => none) false decl else .error .assertLaunch

/-! ### instruction-level and accfg-level register files of a RoCC accelerator -/

abbrev RegsR := String → Int

def upd (r : RegsR) (k : String) (x : Int) : RegsR := fun j => if j = k then x else r j

def rvalOf (val : Var → Int) : RVal → Int
  | .var v => val v
  | .default0 => 0

/-- executing emitted instructions: each one writes both source registers of its instruction -/
def execR (val : Var → Int) : List RStmt → RegsR → RegsR
  | [], r => r
  | .const0 :: l, r => execR val l r
  | .insn i _ a b :: l, r => execR val l (upd (upd r (i ++ ".rs1") (rvalOf val a)) (i ++ ".rs2") (rvalOf val b))

/-- accfg level: a setup writes the fields it names, in order -/
def applySetup (val : Var → Int) : List (String × Var) → RegsR → RegsR
  | [], r => r
  | (k, v) :: ps, r => applySetup val ps (upd r k (val v))

/-- one loop-carried position of an `scf.for` -/
inductive FSlot
  | state
  | data (res arg init yld : Var)
deriving DecidableEq, Repr

/-- one result position of an `scf.if` -/
inductive ISlot
  | state
  | data (res yT yE : Var)
deriving DecidableEq, Repr

def FSlot.isData : FSlot → Bool
  | .state => false
  | .data .. => true
def ISlot.isData : ISlot → Bool
  | .state => false
  | .data .. => true

mutual
inductive Stmt
  | setup (acc : String) (ps : List (String × Var × Bool))   -- Bool: the value has `index` type
  | launch (acc : String) (ps : List (String × Var))
  /-- a launch op of the snax_gemmx class carrying `m`, `shift_vals`, `mult_vals` attributes (channel-specific
  quantisation, more output channels than the array width `n` of the registered accelerator) -/
  | launchG (acc : String) (ps : List (String × Var)) (n : Nat) (m : Int) (shifts mults : List Int)
  | await (acc : String)
  /-- setup / launch / await of an instruction-configured (RoCC) accelerator; `prev` = `infer_state_of(in_state)`
  of the real code (`none`: no input state), carried as an annotation -/
  | setupR (acc : String) (ps : List (String × Var)) (prev : Option (List (String × Var)))
  | launchR (acc : String) (ps : List (String × Var))
  | awaitR (acc : String)
  | op (tag : Nat) (nState : Nat)
  | ifS (tag : Nat) (slots : List ISlot) (t e : Block)
  | forS (tag : Nat) (slots : List FSlot) (body : Block)
inductive Block
  | nil
  | cons (s : Stmt) (r : Block)
end

mutual
inductive CStmt
  | csrw (addr : Nat) (v : Var) (cast : Bool) (isLaunch : Bool)   -- constraints "I, rK" / "I, K"
  | csrwC (addr : Nat) (c : Int)   -- csrw ("I, rK") of a value the lowering itself computes from constants
  | rocc (s : RStmt)               -- `.insn r CUSTOM_3, 0x3, funct7, x0, rs1, rs2` / the materialised default 0
  | poll (addr : Nat)          -- scf.while { csrr addr; cmpi ne 0; condition } do { yield }
  | clear                      -- csrw 965 (i12), 0 (i5)
  | nop
  | op (tag : Nat) (nState : Nat)
  | ifS (tag : Nat) (slots : List ISlot) (t e : CBlock)
  | forS (tag : Nat) (slots : List FSlot) (body : CBlock)
inductive CBlock
  | nil
  | cons (s : CStmt) (r : CBlock)
end

def CBlock.prepend : List CStmt → CBlock → CBlock
  | [], b => b
  | s :: l, b => .cons s (CBlock.prepend l b)

def clearAddr : Nat := 965

/-! ## lowering -/

def findDecl (ds : List Decl) (acc : String) : Option Decl := ds.find? (fun d => d.name == acc)

/-- `"launch" in field` -/
def infixOf (p : List Char) : List Char → Bool
  | [] => p.isEmpty
  | c :: cs => p.isPrefixOf (c :: cs) || infixOf p cs
def hasLaunch (f : String) : Bool := infixOf "launch".toList f.toList

/-- `SNAXAccelerator.lower_acc_setup` -/
def lowerSetup (d : Decl) : List (String × Var × Bool) → Except Err (List CStmt)
  | [] => .ok []
  | (f, v, c) :: ps =>
    match lookup d.fields f with
    | none => .error .keyError
    | some a =>
      match lowerSetup d ps with
      | .error e => .error e
      | .ok r => .ok (.csrw a v c false :: r)

/-- `SNAXAccelerator.lower_acc_launch` -/
def lowerLaunch (d : Decl) : List (String × Var) → Except Err (List CStmt)
  | [] => .ok []
  | (f, v) :: ps =>
    if hasLaunch f then
      match lookup d.launch f with
      | none => .error .keyError
      | some a =>
        match lowerLaunch d ps with
        | .error e => .error e
        | .ok r => .ok (.csrw a v false true :: r)
    else .error .assertLaunch

/-- `lower_acc_await` of the two polling barriers in use -/
def lowerAwait (d : Decl) : List CStmt :=
  match d.style with
  | .poll1 => [.poll d.barrier, .clear, .nop, .nop, .nop, .nop]
  | .poll3 => [.poll d.barrier]

/-! ### snax_gemmx: launch with channel groups (`SNAXGEMMXAccelerator.lower_acc_launch`, `"mult_vals" in attributes`)

The launch op carries the multipliers / shifts of ALL output channels; the array handles `n` channels at a
time.  The lowering overwrites `M` and `temporal_loop_bound` with `m // groups`, launches the streamer once,
and then, for EVERY group including the first, re-programs the `shift_*` / `mult_*` registers with that
group's values, writes `launch_gemmx` and awaits (`self.lower_acc_await(self.generate_acc_op())`: the barrier
of the registered accelerator's own map — the model uses the declared one, the harness registers the instance
the declaration was generated from).  All writes use the constraint "I, rK". -/

/-- `for j in range(0, len(l), 4): l[j : j + 4]` as `(j // 4, chunk)` -/
def chunks4 (l : List Int) : List (Nat × List Int) :=
  (List.range ((l.length + 3) / 4)).map (fun c => (c, (l.drop (4 * c)).take 4))

/-- `pack_bitlist(chunk[::-1], (24, 16, 8, 0))`: the value of the emitted i32 shl/or tree (as an unsigned
32-bit word); `zip(strict=True)`
raises for a chunk of fewer than four values -/
def u32 (x : Int) : Nat := (x % 4294967296).toNat

/-- `x << off` on 32 bits -/
def shl32 (x : Int) (off : Nat) : Nat := (u32 x * 2 ^ off) % 4294967296

def packWord : List Int → Except Err Int
  | [s0, s1, s2, s3] => .ok ((shl32 s3 24 ||| shl32 s2 16 ||| shl32 s1 8 ||| shl32 s0 0 : Nat) : Int)
  | _ => .error .valueError

/-- `l[i * n : i * n + n]` -/
def groupSlice (n i : Nat) (l : List Int) : List Int := (l.drop (i * n)).take n

def lowerShiftChunks (d : Decl) : List (Nat × List Int) → Except Err (List CStmt)
  | [] => .ok []
  | (c, ch) :: r =>
    match packWord ch with
    | .error e => .error e
    | .ok w =>
      match lookup d.fields ("shift_" ++ toString c) with
      | none => .error .keyError
      | some a =>
        match lowerShiftChunks d r with
        | .error e => .error e
        | .ok l => .ok (.csrwC a w :: l)

def lowerMults (d : Decl) : Nat → List Int → Except Err (List CStmt)
  | _, [] => .ok []
  | j, v :: r =>
    match lookup d.fields ("mult_" ++ toString j) with
    | none => .error .keyError
    | some a =>
      match lowerMults d (j + 1) r with
      | .error e => .error e
      | .ok l => .ok (.csrwC a v :: l)

/-- the per-group loop; `aG` = address of `launch_gemmx` -/
def lowerGroups (d : Decl) (n : Nat) (ps : List (String × Var)) (aG : Nat) (shifts mults : List Int) :
    List Nat → Except Err (List CStmt)
  | [] => .ok []
  | i :: r =>
    match lowerShiftChunks d (chunks4 (groupSlice n i shifts)) with
    | .error e => .error e
    | .ok sh =>
      match lowerMults d 0 (groupSlice n i mults) with
      | .error e => .error e
      | .ok mu =>
        match lastLookup ps "launch_gemmx" with
        | none => .error .keyError
        | some v =>
          match lowerGroups d n ps aG shifts mults r with
          | .error e => .error e
          | .ok l => .ok (sh ++ mu ++ (.csrw aG v false false :: lowerAwait d) ++ l)

def lowerLaunchG (d : Decl) (ps : List (String × Var)) (n : Nat) (m : Int) (shifts mults : List Int) :
    Except Err (List CStmt) :=
  match lookup d.launch "launch_gemmx", lookup d.launch "launch_streamer" with
  | some aG, some aS =>
    if mults.length / n = 0 then .error .zeroDiv
    else
      match lookup d.fields "M", lookup d.fields "temporal_loop_bound" with
      | some aM, some aT =>
        match lastLookup ps "launch_streamer" with
        | none => .error .keyError
        | some vS =>
          match lowerGroups d n ps aG shifts mults (List.range (mults.length / n)) with
          | .error e => .error e
          | .ok l =>
            .ok (.csrwC aM (Int.fdiv m (mults.length / n : Nat)) :: .csrwC aT (Int.fdiv m (mults.length / n : Nat))
              :: .csrw aS vS false false :: l)
      | _, _ => .error .keyError
  | _, _ => .error .keyError

mutual
/-- one op; regions are visited last-to-first like the reverse walk -/
def lowerStmt (ds : List Decl) : Stmt → Except Err (List CStmt)
  | .setup acc ps =>
    match findDecl ds acc with
    | none => .error .noAcc
    | some d => lowerSetup d ps
  | .launch acc ps =>
    match findDecl ds acc with
    | none => .error .noAcc
    | some d => lowerLaunch d ps
  | .launchG acc ps n m shifts mults =>
    match findDecl ds acc with
    | none => .error .noAcc
    | some d => lowerLaunchG d ps n m shifts mults
  | .await acc =>
    match findDecl ds acc with
    | none => .error .noAcc
    | some d => .ok (lowerAwait d)
  | .setupR acc ps prev =>
    match findDecl ds acc with
    | none => .error .noAcc
    | some d =>
      match roccSetup d.fields ps prev with
      | .error e => .error e
      | .ok l => .ok (l.map CStmt.rocc)
  | .launchR acc ps =>
    match findDecl ds acc with
    | none => .error .noAcc
    | some d =>
      match roccLaunch d.launch ps with
      | .error e => .error e
      | .ok l => .ok (l.map CStmt.rocc)
  | .awaitR acc =>
    -- `RoCCAccelerator.lower_acc_await`: nothing
    match findDecl ds acc with
    | none => .error .noAcc
    | some _ => .ok []
  | .op tag _ => .ok [.op tag 0]
  | .ifS tag slots t e =>
    match lowerBlock ds e with
    | .error x => .error x
    | .ok e' =>
      match lowerBlock ds t with
      | .error x => .error x
      | .ok t' => .ok [.ifS tag (slots.filter ISlot.isData) t' e']
  | .forS tag slots b =>
    match lowerBlock ds b with
    | .error x => .error x
    | .ok b' => .ok [.forS tag (slots.filter FSlot.isData) b']
/-- a block, last op first -/
def lowerBlock (ds : List Decl) : Block → Except Err CBlock
  | .nil => .ok .nil
  | .cons s r =>
    match lowerBlock ds r with
    | .error x => .error x
    | .ok r' =>
      match lowerStmt ds s with
      | .error x => .error x
      | .ok l => .ok (CBlock.prepend l r')
end

mutual
/-- number of `!accfg.state`-typed operands, results and block arguments left in a lowered program -/
def CStmt.stateCount : CStmt → Nat
  | .op _ n => n
  | .ifS _ sl t e => (sl.filter (fun x => !x.isData)).length + t.stateCount + e.stateCount
  | .forS _ sl b => (sl.filter (fun x => !x.isData)).length + b.stateCount
  | _ => 0
def CBlock.stateCount : CBlock → Nat
  | .nil => 0
  | .cons s r => s.stateCount + r.stateCount
end

/-! ## semantics: traces of register writes -/

/-- everything the models do not interpret: values of SSA variables, the effect of opaque ops on the data
state, branch outcomes, trip counts, binding of induction variables; `set` binds an SSA value (results and
block arguments of `if`/`for`) -/
structure Sem (σ : Type) where
  val : Var → σ → Int
  set : Var → Int → σ → σ
  opSem : Nat → σ → σ
  cond : Nat → σ → Bool
  trips : Nat → σ → Nat
  iter : Nat → Nat → σ → σ

inductive Ev
  | fieldW (acc f : String) (v : Int)
  | launchW (acc f : String) (v : Int)
  | await (acc : String)
  | op (tag : Nat)
deriving DecidableEq, Repr

inductive CEv
  | w (addr : Nat) (v : Int)
  | r (addr : Nat)
  | op (tag : Nat)
deriving DecidableEq, Repr

/-- the data positions of a loop / a conditional, in order -/
def fData : List FSlot → List (Var × Var × Var × Var)
  | [] => []
  | .state :: r => fData r
  | .data a b c d :: r => (a, b, c, d) :: fData r
def iData : List ISlot → List (Var × Var × Var)
  | [] => []
  | .state :: r => iData r
  | .data a b c :: r => (a, b, c) :: iData r

/-- simultaneous assignment `targets := sources` (all sources are read before any target is written) -/
def assign {σ : Type} (sem : Sem σ) (ps : List (Var × Var)) (s : σ) : σ :=
  (ps.map (fun p => (p.1, sem.val p.2 s))).foldl (fun s' p => sem.set p.1 p.2 s') s

/-- run `f 0, f 1, …, f (n-1)` threading the state, concatenating the traces -/
def iterN {σ ε : Type} (f : Nat → σ → σ × List ε) : Nat → Nat → σ → σ × List ε
  | 0, _, s => (s, [])
  | n + 1, i, s =>
    let r := f i s
    let r' := iterN f n (i + 1) r.1
    (r'.1, r.2 ++ r'.2)

/-- what a channel-group launch means at accfg level: `M` / `temporal_loop_bound` become `m // groups`, the
streamer is launched, then every group programs ITS shift / mult values, launches the array and awaits -/
def packWordD (ch : List Int) : Int :=
  match packWord ch with
  | .ok w => w
  | .error _ => 0

def shiftEvents (acc : String) (cs : List (Nat × List Int)) : List Ev :=
  cs.map (fun x => Ev.fieldW acc ("shift_" ++ toString x.1) (packWordD x.2))

def multEvents (acc : String) : Nat → List Int → List Ev
  | _, [] => []
  | j, v :: r => Ev.fieldW acc ("mult_" ++ toString j) v :: multEvents acc (j + 1) r

def groupEvents (acc : String) (vG : Int) (n : Nat) (shifts mults : List Int) : List Nat → List Ev
  | [] => []
  | i :: r =>
    shiftEvents acc (chunks4 (groupSlice n i shifts)) ++ multEvents acc 0 (groupSlice n i mults)
      ++ [Ev.launchW acc "launch_gemmx" vG, Ev.await acc] ++ groupEvents acc vG n shifts mults r

def launchGEvents (acc : String) (valOf : String → Int) (n : Nat) (m : Int) (shifts mults : List Int) : List Ev :=
  Ev.fieldW acc "M" (Int.fdiv m (mults.length / n : Nat)) ::
  Ev.fieldW acc "temporal_loop_bound" (Int.fdiv m (mults.length / n : Nat)) ::
  Ev.launchW acc "launch_streamer" (valOf "launch_streamer") ::
  groupEvents acc (valOf "launch_gemmx") n shifts mults (List.range (mults.length / n))

mutual
def execS {σ : Type} (sem : Sem σ) : Stmt → σ → σ × List Ev
  | .setup acc ps, s => (s, ps.map (fun p => Ev.fieldW acc p.1 (sem.val p.2.1 s)))
  | .launch acc ps, s => (s, ps.map (fun p => Ev.launchW acc p.1 (sem.val p.2 s)))
  | .launchG acc ps n m shifts mults, s =>
    (s, launchGEvents acc (fun f => match lastLookup ps f with | some v => sem.val v s | none => 0) n m shifts mults)
  | .await acc, s => (s, [Ev.await acc])
  -- RoCC statements are transparent for the CSR trace semantics; their meaning is `execRS` below
  | .setupR _ _ _, s => (s, [])
  | .launchR _ _, s => (s, [])
  | .awaitR _, s => (s, [])
  | .op tag _, s => (sem.opSem tag s, [Ev.op tag])
  | .ifS tag sl t e, s =>
    if sem.cond tag s then
      let r := execB sem t s
      (assign sem ((iData sl).map (fun x => (x.1, x.2.1))) r.1, r.2)
    else
      let r := execB sem e s
      (assign sem ((iData sl).map (fun x => (x.1, x.2.2))) r.1, r.2)
  | .forS tag sl b, s =>
    -- block arguments := inits; per iteration: body, then block arguments := yields; results := block arguments
    let r := iterN (fun i s' =>
        let r := execB sem b (sem.iter tag i s')
        (assign sem ((fData sl).map (fun x => (x.2.1, x.2.2.2))) r.1, r.2))
      (sem.trips tag s) 0 (assign sem ((fData sl).map (fun x => (x.2.1, x.2.2.1))) s)
    (assign sem ((fData sl).map (fun x => (x.1, x.2.1))) r.1, r.2)
def execB {σ : Type} (sem : Sem σ) : Block → σ → σ × List Ev
  | .nil, s => (s, [])
  | .cons st r, s =>
    let a := execS sem st s
    let b := execB sem r a.1
    (b.1, a.2 ++ b.2)
end

mutual
def execCS {σ : Type} (sem : Sem σ) : CStmt → σ → σ × List CEv
  | .csrw a v _ _, s => (s, [CEv.w a (sem.val v s)])
  | .csrwC a c, s => (s, [CEv.w a c])
  | .rocc _, s => (s, [])
  | .poll a, s => (s, [CEv.r a])
  | .clear, s => (s, [CEv.w clearAddr 0])
  | .nop, s => (s, [])
  | .op tag _, s => (sem.opSem tag s, [CEv.op tag])
  | .ifS tag sl t e, s =>
    if sem.cond tag s then
      let r := execCB sem t s
      (assign sem ((iData sl).map (fun x => (x.1, x.2.1))) r.1, r.2)
    else
      let r := execCB sem e s
      (assign sem ((iData sl).map (fun x => (x.1, x.2.2))) r.1, r.2)
  | .forS tag sl b, s =>
    let r := iterN (fun i s' =>
        let r := execCB sem b (sem.iter tag i s')
        (assign sem ((fData sl).map (fun x => (x.2.1, x.2.2.2))) r.1, r.2))
      (sem.trips tag s) 0 (assign sem ((fData sl).map (fun x => (x.2.1, x.2.2.1))) s)
    (assign sem ((fData sl).map (fun x => (x.1, x.2.1))) r.1, r.2)
def execCB {σ : Type} (sem : Sem σ) : CBlock → σ → σ × List CEv
  | .nil, s => (s, [])
  | .cons st r, s =>
    let a := execCS sem st s
    let b := execCB sem r a.1
    (b.1, a.2 ++ b.2)
end

/-! ## the declared map as a function on events -/

def addrF (ds : List Decl) (acc f : String) : Option Nat := (findDecl ds acc).bind (fun d => lookup d.fields f)
def addrL (ds : List Decl) (acc f : String) : Option Nat := (findDecl ds acc).bind (fun d => lookup d.launch f)

/-- what the declared register map says an accfg-level event is at CSR level -/
def mapEv (ds : List Decl) : Ev → Option (List CEv)
  | .fieldW acc f v => (addrF ds acc f).map (fun a => [CEv.w a v])
  | .launchW acc f v => (addrL ds acc f).map (fun a => [CEv.w a v])
  | .await acc => (findDecl ds acc).map (fun d =>
      match d.style with
      | .poll1 => [CEv.r d.barrier, CEv.w clearAddr 0]
      | .poll3 => [CEv.r d.barrier])
  | .op tag => some [CEv.op tag]

def mapTrace (ds : List Decl) : List Ev → Option (List CEv)
  | [] => some []
  | e :: t => (mapEv ds e).bind (fun a => (mapTrace ds t).map (fun b => a ++ b))

/-! ## register files -/

abbrev RegsF := String → String → Int
abbrev RegsA := Nat → Int

def replayF : List Ev → RegsF → RegsF
  | [], r => r
  | .fieldW acc f v :: t, r => replayF t (fun a g => if a = acc ∧ g = f then v else r a g)
  | _ :: t, r => replayF t r

def replayA : List CEv → RegsA → RegsA
  | [], r => r
  | .w a v :: t, r => replayA t (fun b => if b = a then v else r b)
  | _ :: t, r => replayA t r

/-! ### RoCC programs: the register file along a whole run

`M` = data state, the RoCC register file (one `CUSTOM_3` space), and a log of register snapshots taken at every
opaque op (so an op placed anywhere — e.g. right after a launch — observes the registers at that point). -/

abbrev M (σ : Type) := σ × RegsR × List RegsR

def iterM {σ : Type} (f : Nat → M σ → M σ) : Nat → Nat → M σ → M σ
  | 0, _, m => m
  | n + 1, i, m => iterM f n (i + 1) (f i m)

def assignM {σ : Type} (sem : Sem σ) (ps : List (Var × Var)) (m : M σ) : M σ := (assign sem ps m.1, m.2)

mutual
/-- accfg level: a setup writes the fields it names, a launch its launch operands -/
def execRS {σ : Type} (sem : Sem σ) : Stmt → M σ → M σ
  | .setupR _ ps _, m => (m.1, applySetup (fun v => sem.val v m.1) ps m.2.1, m.2.2)
  | .launchR _ ps, m => (m.1, applySetup (fun v => sem.val v m.1) ps m.2.1, m.2.2)
  | .op tag _, m => (sem.opSem tag m.1, m.2.1, m.2.2 ++ [m.2.1])
  | .ifS tag sl t e, m =>
    if sem.cond tag m.1 then assignM sem ((iData sl).map (fun x => (x.1, x.2.1))) (execRB sem t m)
    else assignM sem ((iData sl).map (fun x => (x.1, x.2.2))) (execRB sem e m)
  | .forS tag sl b, m =>
    assignM sem ((fData sl).map (fun x => (x.1, x.2.1)))
      (iterM (fun i m' => assignM sem ((fData sl).map (fun x => (x.2.1, x.2.2.2))) (execRB sem b (sem.iter tag i m'.1, m'.2)))
        (sem.trips tag m.1) 0 (assignM sem ((fData sl).map (fun x => (x.2.1, x.2.2.1))) m))
  | _, m => m
def execRB {σ : Type} (sem : Sem σ) : Block → M σ → M σ
  | .nil, m => m
  | .cons st r, m => execRB sem r (execRS sem st m)
end

mutual
/-- instruction level: every emitted instruction writes both source registers of its instruction -/
def execRCS {σ : Type} (sem : Sem σ) : CStmt → M σ → M σ
  | .rocc st, m => (m.1, execR (fun v => sem.val v m.1) [st] m.2.1, m.2.2)
  | .op tag _, m => (sem.opSem tag m.1, m.2.1, m.2.2 ++ [m.2.1])
  | .ifS tag sl t e, m =>
    if sem.cond tag m.1 then assignM sem ((iData sl).map (fun x => (x.1, x.2.1))) (execRCB sem t m)
    else assignM sem ((iData sl).map (fun x => (x.1, x.2.2))) (execRCB sem e m)
  | .forS tag sl b, m =>
    assignM sem ((fData sl).map (fun x => (x.1, x.2.1)))
      (iterM (fun i m' => assignM sem ((fData sl).map (fun x => (x.2.1, x.2.2.2))) (execRCB sem b (sem.iter tag i m'.1, m'.2)))
        (sem.trips tag m.1) 0 (assignM sem ((fData sl).map (fun x => (x.2.1, x.2.2.1))) m))
  | _, m => m
def execRCB {σ : Type} (sem : Sem σ) : CBlock → M σ → M σ
  | .nil, m => m
  | .cons st r, m => execRCB sem r (execRCS sem st m)
end

end SnaxVerif.CsrLower
