import SnaxVerif.Lemmas.RegMap
import SnaxVerif.Lemmas.CsrLower
import SnaxVerif.Lemmas.Rocc
import SnaxVerif.Lemmas.RoccProg
/-!
# C04 — CSR lowering writes every field to its declared register

Statements and theorems only; helper lemmas live in `Lemmas/RegMap.lean`, `Lemmas/CsrLower.lean`.

Coverage of the property text:
* "the register map of every CSR-configured accelerator is injective (setup fields, launch registers,
  barrier, reserved status registers)": `regMap_injective_alu/gemmx/phs/xdma/hwpe`, for EVERY streamer
  configuration (any number of streamers, dims, option flags, extension lists), gemmx `n`, PHS switch count.
* "exactly one write of every configured field's value to the declared address, in program order
  relative to launches and barriers; launches write the launch registers, awaits poll the declared
  barrier": `lower_refines` (the CSR-level trace IS the accfg-level trace mapped event by event through
  the declared map), for all programs (nested ifs and loops, all branch outcomes and trip counts).
* consequence used by hardware: `launch_observes` (at every point of the run, in particular at every
  launch, each declared register holds the value the accfg level says) from injectivity;
  `accelerators_separated` discharges its hypothesis for every accelerator and configuration.
* "no state-tracking values survive": `lower_no_state`.
* data values carried by control flow next to the state (`scf.for` iter_args/results, `scf.if` results) are
  part of the programs: `lower_refines` covers their binding (results are bound from the yields position by
  position, the surviving results keep their order); `lower_result_order_matters` shows a reversed
  re-binding is observable.
* NOT proved here: the RoCC clause (every emitted instruction carries the values in effect for both source
  fields).  `rocc.create_pairs` retraces through `infer_state_of`, which belongs to the accfg state-inference
  model (C07); the RoCC lowering is modelled executably (`roccSetup/roccLaunch`, inferred state passed in
  as data) and covered by the correspondence check and the oracle only.
-/
namespace SnaxVerif.C04
open SnaxVerif.RegMap SnaxVerif.CsrLower

/-! ## (a) register maps -/

/-- snax_alu: for every streamer configuration all declared and reserved addresses are pairwise distinct. -/
theorem regMap_injective_alu (cfg : Cfg) : (regMapAlu cfg).addrs.Nodup := regMapAlu_nodup cfg

/-- snax_gemmx: every streamer configuration and every `n` (`⌈n/4⌉` shift and `n` multiplier registers). -/
theorem regMap_injective_gemmx (cfg : Cfg) (n : Nat) : (regMapGemmx cfg n).addrs.Nodup := regMapGemmx_nodup cfg n

/-- snax PHS accelerators: every streamer configuration and every number of switches. -/
theorem regMap_injective_phs (cfg : Cfg) (sw : Nat) : (regMapPhs cfg sw).addrs.Nodup := regMapPhs_nodup cfg sw

/-- snax_xdma, including the multicast gap and the two registers skipped before the barrier.  The clause
`4 ≤ number of setup fields` says that the four pointer registers in front of the multicast gap exist; it
holds for every configuration with a reader and a writer (`regMap_injective_xdma_two_streamers`), which is
what every xDMA instance has. (Before fix F14 a single streamer already had four fields.) -/
theorem regMap_injective_xdma (cfg : Cfg) (h4 : 4 ≤ (xdmaSetupFields cfg).length) :
    (regMapXdma cfg).addrs.Nodup := regMapXdma_nodup_of_len cfg h4

theorem regMap_injective_xdma_two_streamers (cfg : Cfg) (h2 : 2 ≤ cfg.length) : (regMapXdma cfg).addrs.Nodup := by
  match cfg, h2 with
  | s1 :: s2 :: cfg, _ => exact regMapXdma_nodup_of_len _ (xdmaSetupFields_length s1 s2 cfg)

/-- …and the clause is needed: with no streamer the launch register falls into the multicast gap. -/
theorem regMap_injective_xdma_empty_fails : ¬ (regMapXdma []).addrs.Nodup := by decide

/-- snax_hwpe_mult, including the undeclared "clear" register 0x3c5 its barrier writes. -/
theorem regMap_injective_hwpe : regMapHwpe.addrs.Nodup := regMapHwpe_nodup

/-- gemmini (RoCC): the two source fields of an instruction share its funct7, distinct instructions differ. -/
theorem regMap_gemmini_pairs :
    ∀ e ∈ regMapGemmini.fields ++ regMapGemmini.launch, ∀ e' ∈ regMapGemmini.fields ++ regMapGemmini.launch,
      (e.2 = e'.2 ↔ instrOf e.1 = instrOf e'.1) := by decide

/-- every field name the alu / gemmx objects put into their setup ops (`self.fields`) has a declared
address, so `lower_acc_setup` cannot raise `KeyError` on them. -/
theorem regMap_complete_alu (cfg : Cfg) : ∀ f ∈ aluFieldNames cfg, (lookup (regMapAlu cfg).fields f).isSome :=
  fun f hf => mkStreamerMap_complete _ _ _ _ _ f (by simpa [aluFieldNames] using hf)

theorem regMap_complete_gemmx (cfg : Cfg) (n : Nat) :
    ∀ f ∈ gemmxFieldNames cfg n, (lookup (regMapGemmx cfg n).fields f).isSome := regMapGemmx_complete cfg n

theorem regMap_complete_phs (cfg : Cfg) (sw : Nat) :
    ∀ f ∈ phsFieldNames cfg sw, (lookup (regMapPhs cfg sw).fields f).isSome := regMapPhs_complete cfg sw

theorem regMap_complete_xdma (cfg : Cfg) :
    ∀ f ∈ xdmaFieldNames cfg, (lookup (regMapXdma cfg).fields f).isSome := regMapXdma_complete cfg

/-- the launch names of the streamer accelerators (`launch_streamer` plus the accelerator's own) are declared -/
theorem regMap_launch_complete :
    (∀ cfg, ∀ f ∈ ["launch_streamer", "launch_alu"], (lookup (regMapAlu cfg).launch f).isSome) ∧
    (∀ cfg n, ∀ f ∈ ["launch_streamer", "launch_gemmx"], (lookup (regMapGemmx cfg n).launch f).isSome) ∧
    (∀ cfg sw, ∀ f ∈ ["launch_streamer", "launch_alu"], (lookup (regMapPhs cfg sw).launch f).isSome) :=
  ⟨fun _ f hf => mkStreamerMap_launch_complete _ _ _ _ _ f (by simpa using hf),
   fun _ _ f hf => mkStreamerMap_launch_complete _ _ _ _ _ f (by simpa using hf),
   fun _ _ f hf => mkStreamerMap_launch_complete _ _ _ _ _ f (by simpa using hf)⟩

/-! ## (b) lowering -/

/-- The lowering raises (`KeyError`, `AssertionError`, failed accelerator lookup) EXACTLY when the program
looks up something undeclared: it succeeds iff every accelerator is declared, every setup field and launch
field is in the declared dictionaries and every launch field name contains "launch".  (`lower_refines` and
`lower_no_state` are stated for successful lowerings; this says which programs those are.) -/
theorem lower_total_iff (ds : List Decl) (p : Block) : (∃ q, lowerBlock ds p = .ok q) ↔ p.Declared ds :=
  ⟨fun ⟨q, h⟩ => lowerBlock_ok_declared ds p q h, lowerBlock_total ds p⟩

/-- so a setup built from an accelerator's own field names lowers against that accelerator's own map: for
every configuration, e.g. snax_gemmx (likewise alu / phs / xdma by `regMap_complete_*`). -/
theorem gemmx_own_setup_lowers (cfg : Cfg) (n : Nat) (ps : List (String × Var × Bool))
    (h : ∀ p ∈ ps, p.1 ∈ gemmxFieldNames cfg n) :
    ∃ l, lowerSetup (declOf "snax_gemmx" (regMapGemmx cfg n) .poll3) ps = .ok l := by
  apply lowerSetup_total
  intro p hp
  simp only [declOf]
  exact regMap_complete_gemmx cfg n p.1 (h p hp)


/-- The lowered program, run on any data semantics (values, opaque ops, branch outcomes, trip counts all
arbitrary), ends in the same data state and produces exactly the accfg-level trace mapped event by event
through the declared register map: one `csrw` of the field's value to the field's declared address per
configured field, launch values to the declared launch registers, one poll of the declared barrier per
await (plus the HWPE clear write), all in program order. -/
theorem lower_refines {σ : Type} (ds : List Decl) (sem : Sem σ) (p : Block) (q : CBlock)
    (h : lowerBlock ds p = .ok q) (s : σ) :
    (execCB sem q s).1 = (execB sem p s).1 ∧ mapTrace ds (execB sem p s).2 = some (execCB sem q s).2 :=
  lowerBlock_refines ds sem p q h s

/-- snax_gemmx launch with channel groups (launch op carrying `m` / `shift_vals` / `mult_vals`): the lowered
code, run on any data semantics, produces exactly the accfg-level meaning of the op mapped through the declared
map — `M` and `temporal_loop_bound` := `m // groups`, one streamer launch, then FOR EVERY GROUP (the first one
included) that group's packed shift words to `shift_*`, its multipliers to `mult_*`, the `launch_gemmx` write
and a poll of the barrier, in this order.  (Instance of `lower_refines`; with `launch_observes` every
`launch_gemmx` write therefore finds the shift / mult registers holding the values of ITS group.) -/
theorem group_launch_refines {σ : Type} (ds : List Decl) (sem : Sem σ) (acc : String) (ps : List (String × Var))
    (n : Nat) (m : Int) (shifts mults : List Int) (l : List CStmt)
    (h : lowerStmt ds (.launchG acc ps n m shifts mults) = .ok l) (s : σ) :
    (execCL sem l s).1 = s ∧
    mapTrace ds (launchGEvents acc (fun f => match lastLookup ps f with | some v => sem.val v s | none => 0)
      n m shifts mults) = some (execCL sem l s).2 := by
  have := lowerStmt_refines ds sem (.launchG acc ps n m shifts mults) l h s
  unfold R at this
  simp only [execS] at this
  exact this

/-- non-vacuity: two groups of four channels; group 0 is programmed like group 1 -/
example :
    lowerStmt [(⟨"g", [("M", 10), ("temporal_loop_bound", 11), ("shift_0", 20), ("mult_0", 30),
        ("mult_1", 31), ("mult_2", 32), ("mult_3", 33)], [("launch_streamer", 40), ("launch_gemmx", 41)],
        50, .poll3⟩ : Decl)]
      (.launchG "g" [("launch_streamer", 1), ("launch_gemmx", 2)] 4 16 [1, 2, 3, 4, 5, 6, 7, 8]
        [3, 5, 7, 11, 13, 17, 19, 23])
    = .ok [.csrwC 10 8, .csrwC 11 8, .csrw 40 1 false false,
        .csrwC 20 0x04030201, .csrwC 30 3, .csrwC 31 5, .csrwC 32 7, .csrwC 33 11, .csrw 41 2 false false, .poll 50,
        .csrwC 20 0x08070605, .csrwC 30 13, .csrwC 31 17, .csrwC 32 19, .csrwC 33 23, .csrw 41 2 false false, .poll 50] := by
  rfl

/-- No `!accfg.state`-typed operand, result or block argument is left anywhere in the lowered program. -/
theorem lower_no_state (ds : List Decl) (p : Block) (q : CBlock) (h : lowerBlock ds p = .ok q) :
    q.stateCount = 0 := lowerBlock_noState ds p q h

/-- With separated addresses (`Sep`, provided by injectivity), cut the accfg-level run anywhere — in
particular just before any launch: the CSR-level run has a matching cut at which every declared field
address holds exactly the value the field has at accfg level. -/
theorem launch_observes {σ : Type} (ds : List Decl) (hs : Sep ds) (sem : Sem σ) (p : Block) (q : CBlock)
    (h : lowerBlock ds p = .ok q) (s : σ) (rf : RegsF) (ra : RegsA) (hr : Rel ds rf ra)
    (t1 t2 : List Ev) (ht : (execB sem p s).2 = t1 ++ t2) :
    ∃ c1 c2, (execCB sem q s).2 = c1 ++ c2 ∧ mapTrace ds t1 = some c1 ∧ mapTrace ds t2 = some c2 ∧
      Rel ds (replayF t1 rf) (replayA c1 ra) := by
  obtain ⟨_, hm⟩ := lower_refines ds sem p q h s
  rw [ht] at hm
  obtain ⟨c1, c2, hc, h1, h2⟩ := mapTrace_split hm
  exact ⟨c1, c2, hc, h1, h2, regs_refine hs t1 c1 h1 rf ra hr⟩

/-- Injectivity of a register map (with 0x3c5 reserved for the HWPE barrier style) gives `Sep`. -/
theorem separated_of_injective (name : String) (m : RegMap) (style : Style) (h : m.addrs.Nodup)
    (hc : style = .poll1 → clearAddr ∈ m.reserved) : Sep [declOf name m style] := sep_single name m style h hc

/-- `launch_observes` applies to every accelerator class and every configuration. -/
theorem accelerators_separated :
    (∀ cfg, Sep [declOf "snax_alu" (regMapAlu cfg) .poll3]) ∧
    (∀ cfg n, Sep [declOf "snax_gemmx" (regMapGemmx cfg n) .poll3]) ∧
    (∀ name cfg sw, Sep [declOf name (regMapPhs cfg sw) .poll3]) ∧
    (∀ cfg, 2 ≤ cfg.length → Sep [declOf "snax_xdma" (regMapXdma cfg) .poll3]) ∧
    Sep [declOf "snax_hwpe_mult" regMapHwpe .poll1] :=
  ⟨fun cfg => sep_single _ _ _ (regMap_injective_alu cfg) (by simp),
   fun cfg n => sep_single _ _ _ (regMap_injective_gemmx cfg n) (by simp),
   fun name cfg sw => sep_single name _ _ (regMap_injective_phs cfg sw) (by simp),
   fun cfg h2 => sep_single _ _ _ (regMap_injective_xdma_two_streamers cfg h2) (by simp),
   sep_single _ _ _ regMap_injective_hwpe (fun _ => by decide)⟩

/-- Injectivity is what `launch_observes` needs: two fields declared at one address observe each other. -/
theorem launch_observes_fails_without_injectivity :
    ∃ (ds : List Decl) (t : List Ev) (c : List CEv), mapTrace ds t = some c ∧
      replayA c (fun _ => 0) 7 ≠ replayF t (fun _ _ => 0) "x" "A" :=
  ⟨[{ name := "x", fields := [("A", 7), ("B", 7)], launch := [], barrier := 0, style := .poll3 }],
   [.fieldW "x" "A" 1, .fieldW "x" "B" 2], [.w 7 1, .w 7 2], by decide, by decide⟩

/-- Finding DC04a (RoCC clause, model level): a setup WITHOUT input state that configures one operand of an
instruction emits that instruction with the materialised default 0 for the partner — whatever an earlier
setup (on a path the state tracer could not thread, e.g. inside one branch of an `scf.if`) put there.  Here
`k.rs1` was set to variable 1 by a previous setup; the instruction of the second setup carries `default0`. -/
theorem rocc_stateless_partial_setup_carries_default_fails :
    roccSetup [("k.rs1", 9), ("k.rs2", 9)] [("k.rs1", 1), ("k.rs2", 2)] none = .ok [.insn "k" 9 (.var 1) (.var 2)] ∧
    roccSetup [("k.rs1", 9), ("k.rs2", 9)] [("k.rs2", 3)] none = .ok [.const0, .insn "k" 9 .default0 (.var 3)] ∧
    RVal.default0 ≠ RVal.var 1 := by
  decide

/-- The order of the surviving results is observable: re-binding the two data results of a state-carrying
loop in reverse order (what `new_results.pop()` instead of `.pop(0)` would do in `DeleteAllStates`) is NOT a
refinement.  Concrete data semantics: environments `Var → Int`, zero trips; result 10 must receive init 0. -/
theorem lower_result_order_matters :
    let sem : Sem (Var → Int) :=
      { val := fun v s => s v, set := fun v x s => fun w => if w = v then x else s w, opSem := fun _ s => s,
        cond := fun _ _ => true, trips := fun _ _ => 0, iter := fun _ _ s => s }
    let s0 : Var → Int := fun v => if v = 0 then 7 else if v = 1 then 9 else 0
    (execS sem (.forS 0 [.data 10 11 0 12, .data 13 14 1 15, .state] .nil) s0).1 10 = 7 ∧
    (execCS sem (.forS 0 [.data 10 11 0 12, .data 13 14 1 15] .nil) s0).1 10 = 7 ∧
    (execCS sem (.forS 0 [.data 13 11 0 12, .data 10 14 1 15] .nil) s0).1 10 = 9 := by
  decide


/-! ## (c) RoCC: every emitted instruction carries the values in effect for both of its source fields

Per op, relative to the inferred previous state `st` = `infer_state_of(in_state)` that the real code retraces
through.  `PrevSound` — every field the inferred state mentions really holds that value — is the conclusion of
the state-inference property (C07) and is ASSUMED here as a named hypothesis; everything `rocc.py` itself does
(`create_pairs`, the retrace, the defaults, `combine_pairs_to_ops`) is inside the model and proved. -/

/-- Setup with an input state: every emitted instruction carries, for BOTH source fields, the value in effect
once the setup is done — the setup's own value where it gives one, the retraced value where the write was
optimised away earlier. -/
theorem rocc_setup_carries_current (decl : Dict) (ps st : List (String × Var)) (val : Var → Int) (regs : RegsR)
    (l : List RStmt) (hprev : PrevSound val st regs) (h : roccSetup decl ps (some st) = .ok l) :
    ∀ i f a b, RStmt.insn i f a b ∈ l →
      rvalOf val a = applySetup val ps regs (i ++ ".rs1") ∧ rvalOf val b = applySetup val ps regs (i ++ ".rs2") := by
  intro i f a b hm
  simp only [roccSetup] at h
  split at h
  · obtain ⟨i', f', a', b', he, _, ha, hb⟩ := roccEmit_sound ps (fromState st) true decl l h _ hm
    cases he
    exact ⟨operand_fromState_sound hprev ps _ _ ha, operand_fromState_sound hprev ps _ _ hb⟩
  · cases h

/-- …and executing the emitted instructions leaves the instruction-level register file exactly where the
accfg level says the setup leaves it: every configured field is transmitted (one instruction per configured
instruction), nothing else changes.  Clauses: field names are `<instr>.rs1/.rs2`; the configured instructions
are declared (an undeclared one is silently dropped by `current_fields`). -/
theorem rocc_setup_refines (decl : Dict) (ps st : List (String × Var)) (val : Var → Int) (regs : RegsR)
    (l : List RStmt) (hprev : PrevSound val st regs) (hwf : ∀ p ∈ ps, WF p.1)
    (hdecl : ∀ p ∈ ps, ∃ f, (instrOf p.1 ++ ".rs1", f) ∈ decl)
    (h : roccSetup decl ps (some st) = .ok l) :
    ∀ k, execR val l regs k = applySetup val ps regs k := by
  intro k
  have hcar := rocc_setup_carries_current decl ps st val regs l hprev h
  obtain ⟨h1, h2⟩ := execR_spec val (applySetup val ps regs) l regs hcar k
  by_cases hw : Written l k
  · exact h1 hw
  · rw [h2 hw, applySetup_eq]
    cases hl : lastLookup ps k with
    | none => rfl
    | some v =>
      exfalso; apply hw
      have hmem := lastLookup_some_mem hl
      obtain ⟨f, hf⟩ := hdecl _ hmem
      simp only [roccSetup] at h
      split at h
      · have hi : hasInstr ps (instrOf (instrOf k ++ ".rs1")) = true := by
          rw [instrOf_rs1]; unfold hasInstr; rw [List.any_eq_true]; exact ⟨_, hmem, by simp⟩
        obtain ⟨a, b, hm⟩ := roccEmit_complete ps (fromState st) true decl l h _ hf (isRs1_rs1 _) hi
        rw [instrOf_rs1] at hm
        exact ⟨_, _, _, _, hm, hwf _ hmem⟩
      · cases h

/-- The full statement for a setup WITHOUT input state (false of the code: finding DC04a). -/
def rocc_first_setup_statement : Prop :=
  ∀ (decl : Dict) (ps : List (String × Var)) (val : Var → Int) (regs : RegsR) (l : List RStmt),
    roccSetup decl ps none = .ok l → ∀ i f a b, RStmt.insn i f a b ∈ l →
      rvalOf val a = applySetup val ps regs (i ++ ".rs1") ∧ rvalOf val b = applySetup val ps regs (i ++ ".rs2")

/-- Setup without input state, clause `hnever`: the operands the setup does not give were never set (hold 0).
Then the materialised default is the value in effect. -/
theorem rocc_first_setup_carries_current_partial (decl : Dict) (ps : List (String × Var)) (val : Var → Int)
    (regs : RegsR) (l : List RStmt) (hnever : NeverSetZero ps regs) (h : roccSetup decl ps none = .ok l) :
    ∀ i f a b, RStmt.insn i f a b ∈ l →
      rvalOf val a = applySetup val ps regs (i ++ ".rs1") ∧ rvalOf val b = applySetup val ps regs (i ++ ".rs2") := by
  intro i f a b hm
  simp only [roccSetup] at h
  split at h
  · cases h
  · next l' hl' =>
    cases h
    have hm' : RStmt.insn i f a b ∈ l' := by
      rcases List.mem_append.mp hm with hm | hm
      · split at hm
        · cases hm
        · simp at hm
      · exact hm
    obtain ⟨i', f', a', b', he, hi, ha, hb⟩ := roccEmit_sound ps _ true decl l' hl' _ hm'
    cases he
    unfold hasInstr at hi
    rw [List.any_eq_true] at hi
    obtain ⟨p, hp, hpi⟩ := hi
    have hpi : instrOf p.1 = i := by simpa using hpi
    have key : ∀ k x, (k = i ++ ".rs1" ∨ k = i ++ ".rs2") → operand ps (fun _ => some RVal.default0) k = some x →
        rvalOf val x = applySetup val ps regs k := by
      intro k x hk hx
      rw [applySetup_eq]
      unfold operand at hx
      cases hl : lastLookup ps k with
      | some v => rw [hl] at hx; cases hx; rfl
      | none =>
        rw [hl] at hx; cases hx
        exact (hnever p hp k (by rw [hpi]; exact hk) hl).symm
    exact ⟨key _ _ (Or.inl rfl) ha, key _ _ (Or.inr rfl) hb⟩

/-- DC04a: without the clause the statement fails — `k.rs1` holds 11 (set on a path the tracer does not
thread), a state-less setup of `k.rs2` transmits the default 0 for it. -/
theorem rocc_first_setup_fails : ¬ rocc_first_setup_statement := by
  intro h
  have := (h [("k.rs1", 9), ("k.rs2", 9)] [("k.rs2", 3)] (fun _ => 5) (fun k => if k = "k.rs1" then 11 else 0)
    [.const0, .insn "k" 9 .default0 (.var 3)] (by decide) "k" 9 .default0 (.var 3) (by simp)).1
  revert this
  decide

/-- Launch: every declared launch instruction is emitted, carrying the launch op's own two values. -/
theorem rocc_launch_carries_operands (decl : Dict) (ps : List (String × Var)) (l : List RStmt)
    (h : roccLaunch decl ps = .ok l) :
    (∀ i f a b, RStmt.insn i f a b ∈ l → ∃ v1 v2, lastLookup ps (i ++ ".rs1") = some v1 ∧
        lastLookup ps (i ++ ".rs2") = some v2 ∧ a = .var v1 ∧ b = .var v2) ∧
    (∀ e ∈ decl, isRs1 e.1 = true → ∃ a b, RStmt.insn (instrOf e.1) e.2 a b ∈ l) := by
  simp only [roccLaunch] at h
  split at h
  · refine ⟨?_, roccEmit_all ps _ decl l h⟩
    intro i f a b hm
    obtain ⟨i', f', a', b', he, _, ha, hb⟩ := roccEmit_sound ps _ false decl l h _ hm
    cases he
    unfold operand at ha hb
    cases h1 : lastLookup ps (i ++ ".rs1") with
    | none => rw [h1] at ha; cases ha
    | some v1 =>
      cases h2 : lastLookup ps (i ++ ".rs2") with
      | none => rw [h2] at hb; cases hb
      | some v2 =>
        rw [h1] at ha; rw [h2] at hb; cases ha; cases hb
        exact ⟨v1, v2, rfl, rfl, rfl, rfl⟩
  · cases h

/-! ### RoCC, whole programs: the per-op theorems composed along a run

`Stmt.setupR / launchR / awaitR` are the ops of an instruction-configured accelerator inside the program IR
(`prev` = the real `infer_state_of(in_state)`, carried as an annotation); `lowerBlock` lowers them with
`roccSetup / roccLaunch`.  `execRS / execRB` run the accfg level on the RoCC register file (a setup writes the
fields it names), `execRCS / execRCB` run the emitted instructions (each writes both source registers); both log
the register file at every opaque op, so an op placed anywhere observes the registers at that point. -/

/-- **Whole program.** For every program (nested ifs / loops carrying data slots next to the state, all data
semantics, branch outcomes, trip counts) whose lowering succeeds: if the hypotheses of the per-op theorems hold
at every RoCC op the accfg-level run reaches (`PtsB`: names `<instr>.rs1/.rs2` of declared instructions; for a
setup with input state the inferred previous state is sound for the registers AT THAT POINT — exactly what the
state-inference theorem `C07.infer_sound_every_point` provides for its model — and for a setup without input
state the operands it does not give were never set), then the instruction-level run ends in the same data
state, the same register file and the same log of register snapshots: at every point of the run, in particular
at every launch, the registers the accelerator sees are the values in effect at accfg level. -/
theorem rocc_program_refines {σ : Type} (ds : List Decl) (sem : Sem σ) (p : Block) (q : CBlock)
    (h : lowerBlock ds p = .ok q) (m : M σ) (hp : PtsB ds sem p m) : execRCB sem q m = execRB sem p m :=
  roccB_refines ds sem p q h m hp

/-- per op, register files: a setup WITHOUT input state (clause `NeverSetZero`, cf. `rocc_first_setup_fails`) -/
theorem rocc_first_setup_refines_partial (decl : Dict) (ps : List (String × Var)) (val : Var → Int) (regs : RegsR)
    (l : List RStmt) (hnever : NeverSetZero ps regs) (hn : RoccNames decl ps)
    (h : roccSetup decl ps none = .ok l) : execR val l regs = applySetup val ps regs :=
  rocc_first_setup_eq decl ps val regs l hnever hn h

/-- per op, register files: a launch writes exactly its launch operands -/
theorem rocc_launch_refines (decl : Dict) (ps : List (String × Var)) (val : Var → Int) (regs : RegsR)
    (l : List RStmt) (hn : RoccNames decl ps) (h : roccLaunch decl ps = .ok l) :
    execR val l regs = applySetup val ps regs :=
  rocc_launch_eq decl ps val regs l hn h

/-- non-vacuity: a loop whose body re-programs one half of an instruction (the other half retraced through the
annotation) lowers to the expected instructions -/
example :
    lowerBlock [(⟨"gemmini", [("k.rs1", 9), ("k.rs2", 9)], [("go.rs1", 8), ("go.rs2", 8)], 0, .poll3⟩ : Decl)]
      (.cons (.setupR "gemmini" [("k.rs1", 1), ("k.rs2", 2)] none)
        (.cons (.forS 0 [.state] (.cons (.setupR "gemmini" [("k.rs1", 3)] (some [("k.rs1", 1), ("k.rs2", 2)]))
          (.cons (.launchR "gemmini" [("go.rs1", 4), ("go.rs2", 5)]) (.cons (.awaitR "gemmini") .nil)))) .nil))
    = .ok (.cons (.rocc (.insn "k" 9 (.var 1) (.var 2)))
        (.cons (.forS 0 [] (.cons (.rocc (.insn "k" 9 (.var 3) (.var 2)))
          (.cons (.rocc (.insn "go" 8 (.var 4) (.var 5))) .nil))) .nil)) := by
  rfl

/-- non-vacuity: gemmini, a deduplicated setup (rs2 of ADDRS_AB optimised away) with the previous state -/
example : roccSetup regMapGemmini.fields [("k_LOOP_WS_CONFIG_ADDRS_AB.rs1", 1)]
      (some [("k_LOOP_WS_CONFIG_ADDRS_AB.rs1", 7), ("k_LOOP_WS_CONFIG_ADDRS_AB.rs2", 2)])
    = .ok [.insn "k_LOOP_WS_CONFIG_ADDRS_AB" 10 (.var 1) (.var 2)] := by decide

/-! ## non-vacuity -/

/-- a two-streamer configuration with options: the alu map is what `generate_acc_op` prints -/
example : (regMapAlu [⟨1, 1, true, false, false, true, true, []⟩, ⟨2, 1, false, true, false, false, false, []⟩]).addrs.length = 23
    ∧ (regMapAlu [⟨1, 1, true, false, false, true, true, []⟩]).launch = [("launch_streamer", 968), ("launch_alu", 973)] := by
  decide

/-- a program with a loop carrying state lowers to the expected CSR program (and, by `lower_no_state`,
without state values) -/
example :
    lowerBlock [declOf "snax_hwpe_mult" regMapHwpe .poll1]
      (.cons (.setup "snax_hwpe_mult" [("A", 0, false), ("B", 1, true)])
        (.cons (.forS 0 [.data 10 11 0 12, .state, .data 13 14 1 15] (.cons (.setup "snax_hwpe_mult" [("O", 2, false)])
          (.cons (.launch "snax_hwpe_mult" [("launch", 3)]) (.cons (.await "snax_hwpe_mult") (.cons (.op 7 1) .nil)))))
          .nil))
    = .ok (.cons (.csrw 0x3D0 0 false false) (.cons (.csrw 0x3D1 1 true false) (.cons (.forS 0 [.data 10 11 0 12, .data 13 14 1 15]
          (.cons (.csrw 0x3D3 2 false false) (.cons (.csrw 0x3C0 3 false true) (.cons (.poll 0x3C3) (.cons .clear
            (.cons .nop (.cons .nop (.cons .nop (.cons .nop (.cons (.op 7 0) .nil))))))))) ) .nil))) := by
  rfl

/-- the error paths are reachable: undeclared field, launch field without "launch", undeclared accelerator -/
example : lowerBlock [declOf "snax_hwpe_mult" regMapHwpe .poll1] (.cons (.setup "snax_hwpe_mult" [("Z", 0, false)]) .nil)
      = .error .keyError
    ∧ lowerBlock [declOf "snax_hwpe_mult" regMapHwpe .poll1] (.cons (.launch "snax_hwpe_mult" [("go", 0)]) .nil)
      = .error .assertLaunch
    ∧ lowerBlock [] (.cons (.await "snax_hwpe_mult") .nil) = .error .noAcc :=
  ⟨rfl, rfl, rfl⟩

end SnaxVerif.C04
