import SnaxVerif.Lemmas.RegMap
import SnaxVerif.Lemmas.CsrLower
/-!
# C04 — CSR lowering writes every field to its declared register

Statements and theorems only; helper lemmas live in `Lemmas/RegMap.lean`, `Lemmas/CsrLower.lean`.

Coverage of the property text:
* "the register map of every CSR-configured accelerator is injective (setup fields, launch registers,
  barrier, reserved status registers)": `regMap_injective_alu/gemmx/phs/xdma/hwpe`, for EVERY streamer
  configuration (any number of streamers, dims, option flags, extension lists), gemmx `n`, PHS switch count.
* "exactly one write of every configured field's value to the declared address, in program order
  relative to launches and barriers; launches write the launch registers, awaits poll the declared
  barrier": `lower_refines` (the CSR-level trace IS the accfg-level trace mapped event by event through
  the declared map), for all programs (nested ifs and loops, all branch outcomes and trip counts).
* consequence used by hardware: `launch_observes` (at every point of the run, in particular at every
  launch, each declared register holds the value the accfg level says) from injectivity;
  `accelerators_separated` discharges its hypothesis for every accelerator and configuration.
* "no state-tracking values survive": `lower_no_state`.
* data values carried by control flow next to the state (`scf.for` iter_args/results, `scf.if` results) are
  part of the programs: `lower_refines` covers their binding (results are bound from the yields position by
  position, the surviving results keep their order); `lower_result_order_matters` shows a reversed
  re-binding is observable.
* NOT proved here: the RoCC clause (every emitted instruction carries the values in effect for both source
  fields).  `rocc.create_pairs` retraces through `infer_state_of`, which belongs to the accfg state-inference
  model (C07); the RoCC lowering is modelled executably (`roccSetup/roccLaunch`, inferred state passed in
  as data) and covered by the correspondence check and the oracle only.
-/
namespace SnaxVerif.C04
open SnaxVerif.RegMap SnaxVerif.CsrLower

/-! ## (a) register maps -/

/-- snax_alu: for every streamer configuration all declared and reserved addresses are pairwise distinct. -/
theorem regMap_injective_alu (cfg : Cfg) : (regMapAlu cfg).addrs.Nodup := regMapAlu_nodup cfg

/-- snax_gemmx: every streamer configuration and every `n` (`⌈n/4⌉` shift and `n` multiplier registers). -/
theorem regMap_injective_gemmx (cfg : Cfg) (n : Nat) : (regMapGemmx cfg n).addrs.Nodup := regMapGemmx_nodup cfg n

/-- snax PHS accelerators: every streamer configuration and every number of switches. -/
theorem regMap_injective_phs (cfg : Cfg) (sw : Nat) : (regMapPhs cfg sw).addrs.Nodup := regMapPhs_nodup cfg sw

/-- snax_xdma, including the multicast gap and the two registers skipped before the barrier.  The clause
`4 ≤ number of setup fields` says that the four pointer registers in front of the multicast gap exist; it
holds for every configuration with a reader and a writer (`regMap_injective_xdma_two_streamers`), which is
what every xDMA instance has. (Before fix F14 a single streamer already had four fields.) -/
theorem regMap_injective_xdma (cfg : Cfg) (h4 : 4 ≤ (xdmaSetupFields cfg).length) :
    (regMapXdma cfg).addrs.Nodup := regMapXdma_nodup_of_len cfg h4

theorem regMap_injective_xdma_two_streamers (cfg : Cfg) (h2 : 2 ≤ cfg.length) : (regMapXdma cfg).addrs.Nodup := by
  match cfg, h2 with
  | s1 :: s2 :: cfg, _ => exact regMapXdma_nodup_of_len _ (xdmaSetupFields_length s1 s2 cfg)

/-- …and the clause is needed: with no streamer the launch register falls into the multicast gap. -/
theorem regMap_injective_xdma_empty_fails : ¬ (regMapXdma []).addrs.Nodup := by decide

/-- snax_hwpe_mult, including the undeclared "clear" register 0x3c5 its barrier writes. -/
theorem regMap_injective_hwpe : regMapHwpe.addrs.Nodup := regMapHwpe_nodup

/-- gemmini (RoCC): the two source fields of an instruction share its funct7, distinct instructions differ. -/
theorem regMap_gemmini_pairs :
    ∀ e ∈ regMapGemmini.fields ++ regMapGemmini.launch, ∀ e' ∈ regMapGemmini.fields ++ regMapGemmini.launch,
      (e.2 = e'.2 ↔ instrOf e.1 = instrOf e'.1) := by decide

/-- every field name the alu / gemmx objects put into their setup ops (`self.fields`) has a declared
address, so `lower_acc_setup` cannot raise `KeyError` on them. -/
theorem regMap_complete_alu (cfg : Cfg) : ∀ f ∈ aluFieldNames cfg, (lookup (regMapAlu cfg).fields f).isSome :=
  fun f hf => mkStreamerMap_complete _ _ _ _ _ f (by simpa [aluFieldNames] using hf)

/-! ## (b) lowering -/

/-- The lowered program, run on any data semantics (values, opaque ops, branch outcomes, trip counts all
arbitrary), ends in the same data state and produces exactly the accfg-level trace mapped event by event
through the declared register map: one `csrw` of the field's value to the field's declared address per
configured field, launch values to the declared launch registers, one poll of the declared barrier per
await (plus the HWPE clear write), all in program order. -/
theorem lower_refines {σ : Type} (ds : List Decl) (sem : Sem σ) (p : Block) (q : CBlock)
    (h : lowerBlock ds p = .ok q) (s : σ) :
    (execCB sem q s).1 = (execB sem p s).1 ∧ mapTrace ds (execB sem p s).2 = some (execCB sem q s).2 :=
  lowerBlock_refines ds sem p q h s

/-- No `!accfg.state`-typed operand, result or block argument is left anywhere in the lowered program. -/
theorem lower_no_state (ds : List Decl) (p : Block) (q : CBlock) (h : lowerBlock ds p = .ok q) :
    q.stateCount = 0 := lowerBlock_noState ds p q h

/-- With separated addresses (`Sep`, provided by injectivity), cut the accfg-level run anywhere — in
particular just before any launch: the CSR-level run has a matching cut at which every declared field
address holds exactly the value the field has at accfg level. -/
theorem launch_observes {σ : Type} (ds : List Decl) (hs : Sep ds) (sem : Sem σ) (p : Block) (q : CBlock)
    (h : lowerBlock ds p = .ok q) (s : σ) (rf : RegsF) (ra : RegsA) (hr : Rel ds rf ra)
    (t1 t2 : List Ev) (ht : (execB sem p s).2 = t1 ++ t2) :
    ∃ c1 c2, (execCB sem q s).2 = c1 ++ c2 ∧ mapTrace ds t1 = some c1 ∧ mapTrace ds t2 = some c2 ∧
      Rel ds (replayF t1 rf) (replayA c1 ra) := by
  obtain ⟨_, hm⟩ := lower_refines ds sem p q h s
  rw [ht] at hm
  obtain ⟨c1, c2, hc, h1, h2⟩ := mapTrace_split hm
  exact ⟨c1, c2, hc, h1, h2, regs_refine hs t1 c1 h1 rf ra hr⟩

/-- Injectivity of a register map (with 0x3c5 reserved for the HWPE barrier style) gives `Sep`. -/
theorem separated_of_injective (name : String) (m : RegMap) (style : Style) (h : m.addrs.Nodup)
    (hc : style = .poll1 → clearAddr ∈ m.reserved) : Sep [declOf name m style] := sep_single name m style h hc

/-- `launch_observes` applies to every accelerator class and every configuration. -/
theorem accelerators_separated :
    (∀ cfg, Sep [declOf "snax_alu" (regMapAlu cfg) .poll3]) ∧
    (∀ cfg n, Sep [declOf "snax_gemmx" (regMapGemmx cfg n) .poll3]) ∧
    (∀ name cfg sw, Sep [declOf name (regMapPhs cfg sw) .poll3]) ∧
    (∀ cfg, 2 ≤ cfg.length → Sep [declOf "snax_xdma" (regMapXdma cfg) .poll3]) ∧
    Sep [declOf "snax_hwpe_mult" regMapHwpe .poll1] :=
  ⟨fun cfg => sep_single _ _ _ (regMap_injective_alu cfg) (by simp),
   fun cfg n => sep_single _ _ _ (regMap_injective_gemmx cfg n) (by simp),
   fun name cfg sw => sep_single name _ _ (regMap_injective_phs cfg sw) (by simp),
   fun cfg h2 => sep_single _ _ _ (regMap_injective_xdma_two_streamers cfg h2) (by simp),
   sep_single _ _ _ regMap_injective_hwpe (fun _ => by decide)⟩

/-- Injectivity is what `launch_observes` needs: two fields declared at one address observe each other. -/
theorem launch_observes_fails_without_injectivity :
    ∃ (ds : List Decl) (t : List Ev) (c : List CEv), mapTrace ds t = some c ∧
      replayA c (fun _ => 0) 7 ≠ replayF t (fun _ _ => 0) "x" "A" :=
  ⟨[{ name := "x", fields := [("A", 7), ("B", 7)], launch := [], barrier := 0, style := .poll3 }],
   [.fieldW "x" "A" 1, .fieldW "x" "B" 2], [.w 7 1, .w 7 2], by decide, by decide⟩

/-- Finding DC04a (RoCC clause, model level): a setup WITHOUT input state that configures one operand of an
instruction emits that instruction with the materialised default 0 for the partner — whatever an earlier
setup (on a path the state tracer could not thread, e.g. inside one branch of an `scf.if`) put there.  Here
`k.rs1` was set to variable 1 by a previous setup; the instruction of the second setup carries `default0`. -/
theorem rocc_stateless_partial_setup_carries_default_fails :
    roccSetup [("k.rs1", 9), ("k.rs2", 9)] [("k.rs1", 1), ("k.rs2", 2)] none = .ok [.insn 9 (.var 1) (.var 2)] ∧
    roccSetup [("k.rs1", 9), ("k.rs2", 9)] [("k.rs2", 3)] none = .ok [.const0, .insn 9 .default0 (.var 3)] ∧
    RVal.default0 ≠ RVal.var 1 := by
  decide

/-- The order of the surviving results is observable: re-binding the two data results of a state-carrying
loop in reverse order (what `new_results.pop()` instead of `.pop(0)` would do in `DeleteAllStates`) is NOT a
refinement.  Concrete data semantics: environments `Var → Int`, zero trips; result 10 must receive init 0. -/
theorem lower_result_order_matters :
    let sem : Sem (Var → Int) :=
      { val := fun v s => s v, set := fun v x s => fun w => if w = v then x else s w, opSem := fun _ s => s,
        cond := fun _ _ => true, trips := fun _ _ => 0, iter := fun _ _ s => s }
    let s0 : Var → Int := fun v => if v = 0 then 7 else if v = 1 then 9 else 0
    (execS sem (.forS 0 [.data 10 11 0 12, .data 13 14 1 15, .state] .nil) s0).1 10 = 7 ∧
    (execCS sem (.forS 0 [.data 10 11 0 12, .data 13 14 1 15] .nil) s0).1 10 = 7 ∧
    (execCS sem (.forS 0 [.data 13 11 0 12, .data 10 14 1 15] .nil) s0).1 10 = 9 := by
  decide

/-! ## non-vacuity -/

/-- a two-streamer configuration with options: the alu map is what `generate_acc_op` prints -/
example : (regMapAlu [⟨1, 1, true, false, false, true, true, []⟩, ⟨2, 1, false, true, false, false, false, []⟩]).addrs.length = 23
    ∧ (regMapAlu [⟨1, 1, true, false, false, true, true, []⟩]).launch = [("launch_streamer", 968), ("launch_alu", 973)] := by
  decide

/-- a program with a loop carrying state lowers to the expected CSR program (and, by `lower_no_state`,
without state values) -/
example :
    lowerBlock [declOf "snax_hwpe_mult" regMapHwpe .poll1]
      (.cons (.setup "snax_hwpe_mult" [("A", 0, false), ("B", 1, true)])
        (.cons (.forS 0 [.data 10 11 0 12, .state, .data 13 14 1 15] (.cons (.setup "snax_hwpe_mult" [("O", 2, false)])
          (.cons (.launch "snax_hwpe_mult" [("launch", 3)]) (.cons (.await "snax_hwpe_mult") (.cons (.op 7 1) .nil)))))
          .nil))
    = .ok (.cons (.csrw 0x3D0 0 false false) (.cons (.csrw 0x3D1 1 true false) (.cons (.forS 0 [.data 10 11 0 12, .data 13 14 1 15]
          (.cons (.csrw 0x3D3 2 false false) (.cons (.csrw 0x3C0 3 false true) (.cons (.poll 0x3C3) (.cons .clear
            (.cons .nop (.cons .nop (.cons .nop (.cons .nop (.cons (.op 7 0) .nil))))))))) ) .nil))) := by
  rfl

/-- the error paths are reachable: undeclared field, launch field without "launch", undeclared accelerator -/
example : lowerBlock [declOf "snax_hwpe_mult" regMapHwpe .poll1] (.cons (.setup "snax_hwpe_mult" [("Z", 0, false)]) .nil)
      = .error .keyError
    ∧ lowerBlock [declOf "snax_hwpe_mult" regMapHwpe .poll1] (.cons (.launch "snax_hwpe_mult" [("go", 0)]) .nil)
      = .error .assertLaunch
    ∧ lowerBlock [] (.cons (.await "snax_hwpe_mult") .nil) = .error .noAcc :=
  ⟨rfl, rfl, rfl⟩

end SnaxVerif.C04
