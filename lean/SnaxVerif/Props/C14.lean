import SnaxVerif.Lemmas.Dispatch
/-!
# C14 — dispatch runs each operation on exactly the cores it belongs to

Model: `Model/Dispatch.lean` (`dispatch_regions.py` with fix F04 = `dispatch r true`, upstream
short-circuiting `any(<generator>)` = `dispatch r false`; `dispatching_rules.py` = `ruleDm`/`ruleCp r`, where
`r = false` is the upstream `dispatch_to_compute` and `r = true` the one with fixes/FC14a).
Lemmas (`goB_spec`, `runBlocks_phase`, …) are in `Lemmas/Dispatch.lean`. Statements and theorems only.
-/
namespace SnaxVerif.C14
open SnaxVerif.Dispatch

/-- The property: for every function (any number of blocks, any nesting of region ops, leaves at any
depth), every core count, every core, every resolution `orc` of the control flow, every number of
executed blocks `fuel` and every entry block: the ops the core executes after dispatching are the ops
it executes before, filtered by the rule (`allowed`: dm ops only on core `nb-1`, compute ops only on
core 0, everything else everywhere) — `List.filter`, so in the original relative order. -/
def C14_statement (r fixed : Bool) : Prop :=
  ∀ (f : Func) (nb core : Nat) (orc : Orc) (fuel entry : Nat),
    runF core orc (dispatch r fixed nb f) fuel entry =
      (runF core orc f fuel entry).filter (allowed r nb (coreOf f core))

/-- C14 for the tree with F04 (every block is visited in both phases), whichever `dispatch_to_compute`. -/
theorem C14_dispatch (r : Bool) : C14_statement r true := by
  intro f nb core orc fuel entry
  simp only [runF, coreOf_dispatch]
  simp only [dispatch]
  rw [runBlocks_phase (cpOf r) 0 _ orc (cpOf_regEv r), runBlocks_phase dmOf (nb - 1) _ orc dmOf_regEv,
    List.filter_filter]
  congr 1
  funext l
  rw [Bool.and_comm]
  exact keep_keep r nb _ l

/-- D7: the upstream `any(dispatcher(...) for block in blocks)` stops at the first block that
changed; the copy in the second block is never guarded and runs on the compute core. -/
theorem C14_shortcircuit_fails (r : Bool) : ¬ C14_statement r false := by
  intro h
  have := h ⟨[], [⟨.cons (.leaf ⟨1, .copy, false⟩) .nil, .br 1⟩,
                  ⟨.cons (.leaf ⟨2, .copy, false⟩) .nil, .ret⟩]⟩ 2 0 (fun _ _ _ => []) 2 0
  revert this
  cases r <;> decide

/-- the same function is handled by the fixed pass (non-vacuity of `C14_dispatch` on the D7 witness:
core 0 executes nothing, core 1 both copies) -/
example :
    let f : Func := ⟨[], [⟨.cons (.leaf ⟨1, .copy, false⟩) .nil, .br 1⟩,
                          ⟨.cons (.leaf ⟨2, .copy, false⟩) .nil, .ret⟩]⟩
    runF 0 (fun _ _ _ => []) (dispatch false true 2 f) 2 0 = [] ∧
    (runF 1 (fun _ _ _ => []) (dispatch false true 2 f) 2 0).map (·.id) = [1, 2] := by decide

/-- Consequences spelled out: after dispatching, a core executes an op only if the rule allows it,
every op the rule allows is still executed, and the executed ops are a subsequence of the original. -/
theorem C14_exactly_its_cores (r : Bool) (f : Func) (nb core : Nat) (orc : Orc) (fuel entry : Nat) (l : Leaf) :
    (l ∈ runF core orc (dispatch r true nb f) fuel entry ↔
      l ∈ runF core orc f fuel entry ∧ (dmOf l = true → coreOf f core = nb - 1) ∧
        (cpOf r l = true → coreOf f core = 0)) ∧
    (runF core orc (dispatch r true nb f) fuel entry).Sublist (runF core orc f fuel entry) := by
  rw [C14_dispatch r f nb core orc fuel entry]
  refine ⟨?_, List.filter_sublist⟩
  simp only [List.mem_filter, allowed, Bool.and_eq_true, Bool.or_eq_true, Bool.not_eq_true',
    decide_eq_true_eq]
  constructor
  · rintro ⟨h, h1, h2⟩
    exact ⟨h, fun hd => h1.resolve_left (by simp [hd]), fun hc => h2.resolve_left (by simp [hc])⟩
  · rintro ⟨h, h1, h2⟩
    refine ⟨h, ?_, ?_⟩
    · cases hd : dmOf l
      · exact Or.inl rfl
      · exact Or.inr (h1 hd)
    · cases hc : cpOf r l
      · exact Or.inl rfl
      · exact Or.inr (h2 hc)

example : -- non-trivial instance: nested loop/if, adjacent and separated ops, three cores
    let f : Func := ⟨[], [⟨.cons (.leaf ⟨1, .copy, false⟩) (.cons (.leaf ⟨2, .copy, false⟩)
      (.cons (.reg 3 1 (.cons (.cons (.leaf ⟨4, .generic, true⟩) (.cons (.leaf ⟨5, .other, false⟩)
        (.cons (.leaf ⟨6, .copy, false⟩) .nil))) .nil)) .nil)), .ret⟩]⟩
    (runF 0 (stdOrc 1) (dispatch false true 3 f) 1 0).map (·.id) = [3, 4, 5, 4, 5] ∧
    (runF 1 (stdOrc 1) (dispatch false true 3 f) 1 0).map (·.id) = [3, 5, 5] ∧
    (runF 2 (stdOrc 1) (dispatch false true 3 f) 1 0).map (·.id) = [1, 2, 3, 5, 6, 5, 6] := by decide

/-- An external declaration (a function without blocks) is left untouched. -/
theorem dispatch_declaration (r fixed : Bool) (nb : Nat) (f : Func) (h : f.blocks = []) :
    dispatch r fixed nb f = f := by
  cases f with
  | mk pre blocks =>
    simp only at h
    subst h
    simp [dispatch, phaseBlocks, changedBlocks, prelude]

/-- Module level: every function of the module — whatever its visibility, which the pass does not look
at — is dispatched; position by position the functions of the output execute the filtered original. -/
theorem C14_module (r : Bool) (m : List Func) (nb core : Nat) (orc : Orc) (fuel entry : Nat) :
    (dispatchModule r true nb m).map (fun g => runF core orc g fuel entry) =
      m.map (fun f => (runF core orc f fuel entry).filter (allowed r nb (coreOf f core))) := by
  simp only [dispatchModule, List.map_map]
  apply List.map_congr_left
  intro f _
  exact C14_dispatch r f nb core orc fuel entry

example : -- a declaration followed by a function with a body: the declaration stays, the body is guarded
    let m : List Func := [⟨[], []⟩, ⟨[], [⟨.cons (.leaf ⟨1, .copy, false⟩) .nil, .ret⟩]⟩]
    (dispatchModule false true 2 m).map (fun g => (runF 0 (fun _ _ _ => []) g 1 0).map (·.id)) = [[], []] ∧
    (dispatchModule false true 2 m).map (fun g => (runF 1 (fun _ _ _ => []) g 1 0).map (·.id)) = [[], [1]] ∧
    (dispatchModule false true 2 m).map (fun g => g.pre.length) = [0, 3] := by decide

/-! ### structure of the output: grouping never changes which op is guarded by which condition -/

/-- The pass only ADDS guards: erasing every guard from the output gives back the input, block by block
(same ops, same order, same nesting in region ops, same terminators) — no op is lost, duplicated,
reordered or moved into another region, whatever the grouping does. -/
theorem C14_only_adds_guards (r : Bool) (f : Func) (nb : Nat) :
    (dispatch r true nb f).blocks.map (fun bb => (stripB bb.body, bb.term)) =
      f.blocks.map (fun bb => (stripB bb.body, bb.term)) := by
  simp only [dispatch, phaseBlocks_map, List.map_map]
  apply List.map_congr_left
  intro bb _
  simp [Function.comp, strip_goB, ofLeaves, appB]

/-- ... and exactly these guards: in the output every leaf carries the guards it had, followed by the
guard of the data-mover core iff `dispatch_to_dm` claims it and the guard of the compute core iff
`dispatch_to_compute` claims it (`guardsFor`) — independent of how neighbouring ops were grouped, at
every nesting depth, in every block. -/
theorem C14_guards (r : Bool) (f : Func) (nb : Nat) :
    (dispatch r true nb f).blocks.map (fun bb => labB [] bb.body) =
      f.blocks.map (fun bb => (labB [] bb.body).map (fun x => (x.1, x.2 ++ guardsFor r nb x.1))) := by
  simp only [dispatch, phaseBlocks_map, List.map_map]
  apply List.map_congr_left
  intro bb _
  simp only [Function.comp]
  rw [lab_goB (cpOf r) 0 (cpOf_regEv r) _ [] [] (by simp),
    lab_goB dmOf (nb - 1) dmOf_regEv _ [] [] (by simp)]
  simp only [List.reverse_nil, List.map_nil, List.nil_append, List.map_map]
  apply List.map_congr_left
  intro x _
  obtain ⟨l, g⟩ := x
  simp only [Function.comp, relab, guardsFor]
  cases hd : dmOf l <;> cases hc : cpOf r l <;> simp [hc]

example : -- the D7 witness and a grouped run: guards per leaf
    let f : Func := ⟨[], [⟨.cons (.leaf ⟨1, .copy, false⟩) (.cons (.leaf ⟨2, .copy, false⟩)
      (.cons (.reg 3 1 (.cons (.cons (.leaf ⟨4, .generic, true⟩) (.cons (.leaf ⟨5, .other, false⟩) .nil)) .nil)) .nil)),
      .ret⟩]⟩
    (dispatch false true 3 f).blocks.map (fun bb => (labB [] bb.body).map (fun x => (x.1.id, x.2))) =
      [[(1, [2]), (2, [2]), (3, []), (4, [0]), (5, [])]] := by decide

/-- One core (`nb_cores = 1`): core 0 is both the data mover and the compute core and executes the
whole original program. -/
theorem C14_single_core (r : Bool) (f : Func) (hpre : f.pre = []) (orc : Orc) (fuel entry : Nat) :
    runF 0 orc (dispatch r true 1 f) fuel entry = runF 0 orc f fuel entry := by
  rw [C14_dispatch r f 1 0 orc fuel entry]
  have hc : coreOf f 0 = 0 := by simp [coreOf, hpre]
  rw [hc]
  apply List.filter_eq_self.mpr
  intro l _
  simp [allowed]

/-! ### the whole pass on a module (both patterns, with the declaration of `snax_cluster_core_idx`) -/

/-- Whenever the pass succeeds on a module, its functions are, position by position, the dispatched
functions (so `C14_module` applies to them); the declaration of `snax_cluster_core_idx` is in the
output iff it was there before or some function calls it after dispatching. -/
theorem module_ok (r declFix : Bool) (nb : Nat) (m out : List Item)
    (h : dispatchModuleE r declFix nb m = .ok out) :
    fnsOf out = (fnsOf m).map (dispatch r true nb) ∧
    (out.any isCoreDecl = (m.any isCoreDecl || m.any (itemCalls r nb))) := by
  have hmap : ∀ l : List Item, fnsOf (l.map (dispatchItem r nb)) = (fnsOf l).map (dispatch r true nb) := by
    intro l
    induction l with
    | nil => rfl
    | cons it rest ih => cases it <;> simp [fnsOf, dispatchItem, ih]
  have happ : ∀ l : List Item, fnsOf (l ++ [.coreDecl]) = fnsOf l := by
    intro l
    induction l with
    | nil => rfl
    | cons it rest ih => cases it <;> simp [fnsOf, ih]
  have hdecl : ∀ l : List Item, (l.map (dispatchItem r nb)).any isCoreDecl = l.any isCoreDecl := by
    intro l
    induction l with
    | nil => rfl
    | cons it rest ih => cases it <;> simp [dispatchItem, isCoreDecl, ih]
  simp only [dispatchModuleE] at h
  split at h
  · cases h
  · split at h
    · cases h
    · injection h with h
      subst h
      cases hc : m.any (itemCalls r nb) <;> cases hd : m.any isCoreDecl <;>
        simp [hmap, happ, hdecl, hd, isCoreDecl, List.any_append]

/-- clause excluding finding DC14b: no declaration of `snax_cluster_core_idx` stands after a function
that calls it once the first pattern ran -/
def NoLateCoreDecl (r : Bool) (nb : Nat) (m : List Item) : Prop := lateDecl r nb m = false

/-- full statement: on every module whose rules do not raise, the pass produces an output -/
def module_total_statement (r declFix : Bool) : Prop :=
  ∀ (nb : Nat) (m : List Item), firstRuleErr m = none → ∃ out, dispatchModuleE r declFix nb m = .ok out

theorem module_total_partial (r : Bool) (nb : Nat) (m : List Item) (hr : firstRuleErr m = none)
    (hclause : NoLateCoreDecl r nb m) : ∃ out, dispatchModuleE r false nb m = .ok out := by
  simp only [dispatchModuleE, hr, NoLateCoreDecl.eq_1 r nb m ▸ hclause]
  exact ⟨_, rfl⟩

/-- DC14b: a function with one copy followed by the declaration — which is what the pass itself emits —
makes the pass raise. -/
theorem module_total_fails (r : Bool) : ¬ module_total_statement r false := by
  intro h
  obtain ⟨out, ho⟩ := h 2 [.fn ⟨[], [⟨.cons (.leaf ⟨1, .copy, false⟩) .nil, .ret⟩]⟩, .coreDecl] rfl
  revert ho
  cases r <;> simp [dispatchModuleE, firstRuleErr, errBlocks, errB, errO, leafErr, ruleDm, lateDecl, itemCalls,
    declInserted, changedBlocks, anyB, anyO, dmOf, isCoreDecl]

/-- with fixes/FC14b (an existing declaration is left alone) the pass is total -/
theorem module_total_fixed (r : Bool) : module_total_statement r true := by
  intro nb m hr
  simp only [dispatchModuleE, hr]
  exact ⟨_, rfl⟩

/-- in particular the upstream pass cannot be applied to its own output, the fixed one can, and then
every function is dispatched a second time -/
example :
    let m : List Item := [.fn ⟨[], [⟨.cons (.leaf ⟨1, .copy, false⟩) .nil, .ret⟩]⟩]
    (dispatchModuleE false false 2 m).toBool = true ∧
    (dispatchModuleE false false 2 m >>= dispatchModuleE false false 2).toBool = false ∧
    (dispatchModuleE false true 2 m >>= dispatchModuleE false true 2).toBool = true ∧
    ((dispatchModuleE false true 2 m >>= dispatchModuleE false true 2).toOption.map List.length) = some 2 := by decide

/-! ### the conditions of the inserted guards are defined in the entry block -/

/-- Every guard the pass puts around a leaf tests a condition that the prelude — the ops inserted at the
start of the ENTRY block, which dominates every block — defines: `cmp c ∈ pre` for every core `c` in
`guardsFor`; and the prelude defines it properly (the call first, the constant before the compare). This
is the model-level form of "no guard reads an undefined condition" in functions with several blocks. -/
theorem guard_conditions_defined (r : Bool) (f : Func) (nb : Nat) (bb : BB) (hbb : bb ∈ f.blocks)
    (l : Leaf) (g : List Nat) (hl : (l, g) ∈ labB [] bb.body) (c : Nat) (hc : c ∈ guardsFor r nb l) :
    Pre.cmp c ∈ (dispatch r true nb f).pre ∧ Pre.const c ∈ (dispatch r true nb f).pre ∧
      (dispatch r true nb f).pre.head? = some (Pre.call (List.range nb)) := by
  have hdm : dmOf l = true → changedBlocks dmOf f.blocks = true := by
    intro h
    simp only [changedBlocks, List.any_eq_true]
    exact ⟨bb, hbb, mem_labB_any dmOf l h dmOf_regEv bb.body [] g hl⟩
  have hcp : cpOf r l = true → changedBlocks (cpOf r) (phaseBlocks true dmOf (nb - 1) f.blocks) = true := by
    intro h
    obtain ⟨g', hg'⟩ := mem_lab_goB dmOf (nb - 1) dmOf_regEv bb.body l g hl
    simp only [changedBlocks, List.any_eq_true, phaseBlocks_map, List.mem_map]
    exact ⟨⟨goB dmOf (nb - 1) bb.body [], bb.term⟩, ⟨bb, hbb, rfl⟩,
      mem_labB_any (cpOf r) l h (cpOf_regEv r) _ [] g' hg'⟩
  simp only [guardsFor, List.mem_append] at hc
  simp only [dispatch]
  rcases hc with hc | hc
  · cases hd : dmOf l
    · simp [hd] at hc
    · simp only [hd, if_true, List.mem_singleton] at hc
      subst hc
      rw [hdm hd]
      cases changedBlocks (cpOf r) _ <;> simp [prelude]
  · cases hd : cpOf r l
    · simp [hd] at hc
    · simp only [hd, if_true, List.mem_singleton] at hc
      subst hc
      rw [hcp hd]
      cases changedBlocks dmOf f.blocks <;> simp [prelude]

/-! ### results of dispatched ops -/

/-- Necessary for a value produced by leaf `d` to be usable by a leaf `u` at the same nesting after the
pass: the guards put around `d` (by `C14_guards`: exactly `guardsFor d`) also enclose `u`. Full
statement: this holds for every producer / user pair. -/
def result_scope_statement (r : Bool) : Prop :=
  ∀ (nb : Nat) (d u : Leaf), guardsFor r nb d <+: guardsFor r nb u

/-- clause excluding finding DC14c: the producer is not dispatched (true of every dispatchable op after
bufferisation: they have no results) -/
def ProducerNotDispatched (r : Bool) (d : Leaf) : Prop := dmOf d = false ∧ cpOf r d = false

theorem result_scope_partial (r : Bool) (nb : Nat) (d u : Leaf) (h : ProducerNotDispatched r d) :
    guardsFor r nb d <+: guardsFor r nb u := by
  simp [guardsFor, h.1, h.2]

/-- DC14c: the result of a `linalg.generic` (guarded by core 0) used by an op that runs everywhere. -/
theorem result_scope_fails (r : Bool) : ¬ result_scope_statement r := by
  intro h
  have := h 2 ⟨1, .generic, true⟩ ⟨2, .other, false⟩
  revert this
  cases r <;> decide

/-- with at least two cores the data-mover core and the compute core are different cores -/
theorem dm_core_ne_compute_core (nb : Nat) (h : 2 ≤ nb) : nb - 1 ≠ 0 := by omega

/-- The two rules never both claim an op, provided that for a streaming region at least one extension
kernel differs from its kernel (true of `XDMA_EXT_SET`, whose kernels are pairwise different; the
harness checks `false ∈ ms` on every generated streaming region). -/
theorem rules_exclusive (k : OpKind) (hms : ∀ acc fg ms, k = .stream acc fg ms → false ∈ ms) :
    ¬ (ruleDm k = .ok true ∧ ruleCp false k = .ok true) := by
  cases k with
  | copy => simp [ruleCp]
  | generic => simp [ruleDm]
  | other => simp [ruleDm]
  | coreCall => simp [ruleDm]
  | stream acc fg ms =>
    have hm := hms acc fg ms rfl
    cases acc <;> cases fg <;> simp [ruleDm, ruleCp, accCheck]
    intro _
    exact hm

example : false ∈ [true, false, false] ∧ ruleDm (.stream .xdma true [true, false, false]) = .ok true ∧
    ruleCp false (.stream .xdma true [true, false, false]) = .ok false := ⟨by decide, rfl, rfl⟩

/-- With fixes/FC14a the two rules never both claim an op — no hypothesis on the extension table. -/
theorem rules_exclusive_fixed (k : OpKind) : ¬ (ruleDm k = .ok true ∧ ruleCp true k = .ok true) := by
  cases k with
  | copy => simp [ruleCp]
  | generic => simp [ruleDm]
  | other => simp [ruleDm]
  | coreCall => simp [ruleDm]
  | stream acc fg ms =>
    cases acc <;> cases fg <;> simp [ruleDm, ruleCp, accCheck]

/-! ### the rules against the classes of the property -/

/-- the streaming region names a registered accelerator (otherwise the rules raise) -/
def AccOk : OpKind → Prop
  | .stream .none _ _ => False
  | .stream .unreg _ _ => False
  | _ => True

/-- at least one extension kernel differs from the op's kernel (true of `XDMA_EXT_SET`) -/
def OneExtDiffers : OpKind → Prop
  | .stream _ _ ms => false ∈ ms
  | _ => True

/-- clause excluding finding DC14a: an xDMA streaming region has a kernel some extension provides -/
def NoForeignXdmaKernel : OpKind → Prop
  | .stream .xdma true ms => ms.any id = true
  | _ => True

/-- full statement: the two rules classify every op as the property does -/
def rules_statement (r : Bool) : Prop :=
  ∀ k : OpKind, AccOk k → OneExtDiffers k → rulesClass r k = some (specClass k)

/-- With fixes/FC14a the full statement holds — even without `OneExtDiffers`: every op whose rules do
not raise is classified exactly as the property says (copy / xDMA extension kernel: data mover;
linalg.generic / every other streaming region: compute; anything else: all cores). -/
theorem rules_match_spec (k : OpKind) (hacc : AccOk k) : rulesClass true k = some (specClass k) := by
  cases k with
  | copy => rfl
  | generic => rfl
  | other => rfl
  | coreCall => rfl
  | stream acc fg ms =>
    cases acc <;> cases fg
    case xdma.true =>
      cases h : ms.any id <;> simp [rulesClass, specClass, ruleDm, ruleCp, accCheck, h]
    all_goals simp_all [AccOk, rulesClass, specClass, ruleDm, ruleCp, accCheck]

theorem rules_statement_fixed : rules_statement true := fun k hacc _ => rules_match_spec k hacc

/-- the upstream rules, outside finding DC14a -/
theorem rules_match_spec_partial (k : OpKind) (hacc : AccOk k) (hdiff : OneExtDiffers k)
    (hclause : NoForeignXdmaKernel k) : rulesClass false k = some (specClass k) := by
  cases k with
  | copy => rfl
  | generic => rfl
  | other => rfl
  | coreCall => rfl
  | stream acc fg ms =>
    have hany : ms.any (fun m => !m) = true := by
      simp only [OneExtDiffers] at hdiff
      simp only [List.any_eq_true]
      exact ⟨false, hdiff, rfl⟩
    cases acc <;> cases fg
    case xdma.true =>
      have h1 : ms.any id = true := hclause
      simp [rulesClass, specClass, ruleDm, ruleCp, accCheck, h1, hany]
    all_goals simp_all [AccOk, rulesClass, specClass, ruleDm, ruleCp, accCheck]

/-- DC14a: `dispatch_to_compute` returns False for an xDMA streaming region as soon as ONE extension
kernel differs (`any(not same)`), so a region whose kernel no extension provides is claimed by neither
rule and runs on every core, although it is an accelerator operation. -/
theorem rules_match_spec_fails : ¬ rules_statement false := by
  intro h
  have := h (.stream .xdma true [false, false, false]) trivial (by simp [OneExtDiffers])
  revert this
  decide

example : AccOk (.stream .xdma true [false, false, true]) ∧ OneExtDiffers (.stream .xdma true [false, false, true]) ∧
    NoForeignXdmaKernel (.stream .xdma true [false, false, true]) ∧
    rulesClass false (.stream .xdma true [false, false, true]) = some .dm ∧
    rulesClass true (.stream .xdma true [false, false, false]) = some .cp := by
  refine ⟨trivial, by simp [OneExtDiffers], by simp [NoForeignXdmaKernel], by decide, by decide⟩

/-! ### the concrete extension kernel table -/

/-- `OneExtDiffers` holds for every kernel with the actual table: two of its entries differ, so no kernel
equals all of them. -/
theorem xdma_table_one_differs (k : KSig) : false ∈ matchesOf k := by
  simp only [matchesOf, xdmaExtKernels, List.map_cons, List.map_nil, List.mem_cons, List.not_mem_nil,
    or_false]
  by_cases h : (⟨"kernel.rescale", ["i32", "i8"]⟩ : KSig) = k
  · right; left
    subst h
    decide
  · left
    simp [h]

/-- Every kernel an xDMA extension provides (rescale down i32->i8, rescale up i8->i32, add on i32) makes
the streaming region a data-mover op and nothing else; every other kernel on the xDMA is claimed by
neither rule (DC14a); on any other registered accelerator the region is a compute op. -/
theorem xdma_kernel_classes (k : KSig) :
    (k ∈ xdmaExtKernels → rulesClass false (.stream .xdma true (matchesOf k)) = some .dm) ∧
    (k ∉ xdmaExtKernels → rulesClass false (.stream .xdma true (matchesOf k)) = some .all) ∧
    rulesClass false (.stream .other true (matchesOf k)) = some .cp := by
  have hd := xdma_table_one_differs k
  have hany : (matchesOf k).any (fun m => !m) = true := by
    simp only [List.any_eq_true]; exact ⟨false, hd, rfl⟩
  have hiff : (matchesOf k).any id = true ↔ k ∈ xdmaExtKernels := by
    simp only [matchesOf, List.any_map, List.any_eq_true, Function.comp, id, decide_eq_true_eq]
    constructor
    · rintro ⟨e, he, rfl⟩; exact he
    · intro h; exact ⟨k, h, rfl⟩
  refine ⟨fun h => ?_, fun h => ?_, ?_⟩
  · have h1 := hiff.mpr h
    simp [rulesClass, ruleDm, ruleCp, accCheck, h1, hany]
  · have h1 : (matchesOf k).any id = false := by
      cases hx : (matchesOf k).any id
      · rfl
      · exact absurd (hiff.mp hx) h
    simp [rulesClass, ruleDm, ruleCp, accCheck, h1, hany]
  · simp [rulesClass, ruleDm, ruleCp, accCheck]

/-- the same with fixes/FC14a: a kernel no extension provides makes the region a compute op -/
theorem xdma_kernel_classes_fixed (k : KSig) :
    (k ∈ xdmaExtKernels → rulesClass true (.stream .xdma true (matchesOf k)) = some .dm) ∧
    (k ∉ xdmaExtKernels → rulesClass true (.stream .xdma true (matchesOf k)) = some .cp) ∧
    rulesClass true (.stream .other true (matchesOf k)) = some .cp := by
  have hiff : (matchesOf k).any id = true ↔ k ∈ xdmaExtKernels := by
    simp only [matchesOf, List.any_map, List.any_eq_true, Function.comp, id, decide_eq_true_eq]
    constructor
    · rintro ⟨e, he, rfl⟩; exact he
    · intro h; exact ⟨k, h, rfl⟩
  refine ⟨fun h => ?_, fun h => ?_, ?_⟩
  · have h1 := hiff.mpr h
    simp [rulesClass, ruleDm, ruleCp, accCheck, h1]
  · have h1 : (matchesOf k).any id = false := by
      cases hx : (matchesOf k).any id
      · rfl
      · exact absurd (hiff.mp hx) h
    simp [rulesClass, ruleDm, ruleCp, accCheck, h1]
  · simp [rulesClass, ruleDm, ruleCp, accCheck]

/-- For streaming regions built from the actual extension table the two rules never both claim the op —
for both versions of `dispatch_to_compute`, no hypothesis left. -/
theorem rules_exclusive_table (r : Bool) (acc : Acc) (fg : Bool) (k : KSig) :
    ¬ (ruleDm (.stream acc fg (matchesOf k)) = .ok true ∧ ruleCp r (.stream acc fg (matchesOf k)) = .ok true) := by
  cases r
  · exact rules_exclusive _ (fun _ _ ms h => by cases h; exact xdma_table_one_differs k)
  · exact rules_exclusive_fixed _

example : matchesOf ⟨"kernel.rescale", ["i32", "i8"]⟩ = [true, false, false] ∧
    matchesOf ⟨"kernel.rescale", ["i8", "i32"]⟩ = [false, true, false] ∧
    matchesOf ⟨"kernel.add", ["i32", "i32", "i32"]⟩ = [false, false, true] ∧
    matchesOf ⟨"kernel.rescale", ["i32", "i32"]⟩ = [false, false, false] := by decide

/-- `InsertFunctionDeclaration`: the declaration of `snax_cluster_core_idx` is inserted iff the function
contains a call of it after dispatching — the annotated call emitted by the pass, or a call that was in
the program already. -/
theorem decl_iff_called (r : Bool) (nb : Nat) (f : Func) (hpre : f.pre = []) :
    declInserted r nb f = true ↔
      ((∃ pins, Pre.call pins ∈ (dispatch r true nb f).pre) ∨ changedBlocks isCoreCall f.blocks = true) := by
  simp only [declInserted, dispatch, hpre, List.append_nil]
  generalize changedBlocks dmOf f.blocks = a
  generalize changedBlocks (cpOf r) _ = b
  generalize changedBlocks isCoreCall f.blocks = c
  cases a <;> cases b <;> cases c <;> simp [prelude]

/-- The annotated call offers exactly the core ids `0 … nb-1` for pinning. -/
theorem pin_constants_cover (r : Bool) (f : Func) (nb k : Nat) (pins : List Nat)
    (h : Pre.call pins ∈ (dispatch r true nb f).pre) (hpre : f.pre = []) : k ∈ pins ↔ k < nb := by
  simp only [dispatch, hpre, List.append_nil] at h
  generalize changedBlocks dmOf f.blocks = a at h
  generalize changedBlocks (cpOf r) _ = b at h
  cases a <;> cases b <;> simp [prelude] at h <;> subst h <;> simp

/-- Pinning: when the pass emitted the core-id call, the specialisation of the dispatched function to
the constant `k` executes — on whatever core it is called — exactly the original program filtered by
the rule for core `k`. -/
theorem pin_spec (r : Bool) (f : Func) (hpre : f.pre = []) (nb k core : Nat) (orc : Orc) (fuel entry : Nat)
    (hcall : (dispatch r true nb f).pre ≠ []) :
    runF core orc (pin k (dispatch r true nb f)) fuel entry =
      (runF k orc f fuel entry).filter (allowed r nb k) := by
  have hk : coreOf (pin k (dispatch r true nb f)) core = k := by
    simp only [dispatch, hpre, List.append_nil, ne_eq] at hcall
    simp only [coreOf, pin, dispatch, hpre, List.append_nil]
    generalize changedBlocks dmOf f.blocks = a at hcall ⊢
    generalize changedBlocks (cpOf r) _ = b at hcall ⊢
    cases a <;> cases b <;> simp [prelude, pinPre, pinnedVal, List.findSome?_cons] at hcall ⊢
  have h := C14_dispatch r f nb k orc fuel entry
  simp only [runF, coreOf_dispatch] at h
  have hf : coreOf f k = k := by simp [coreOf, hpre]
  rw [hf] at h
  simp only [runF, hk, hf]
  exact h

/-- when nothing was dispatched there is no call, hence nothing to pin -/
theorem pin_unchanged (g : Func) (k : Nat) (h : g.pre = []) : pin k g = g := by
  cases g; simp_all [pin]

example : -- pin_spec is not vacuous: the D7 witness gets the call, pinned to core 1 it runs both copies
    let f : Func := ⟨[], [⟨.cons (.leaf ⟨1, .copy, false⟩) .nil, .br 1⟩,
                          ⟨.cons (.leaf ⟨2, .copy, false⟩) .nil, .ret⟩]⟩
    (dispatch false true 2 f).pre ≠ [] ∧
    (runF 0 (fun _ _ _ => []) (pin 1 (dispatch false true 2 f)) 2 0).map (·.id) = [1, 2] := by decide

end SnaxVerif.C14
