import SnaxVerif.Lemmas.Dispatch
/-!
# C14 — dispatch runs each operation on exactly the cores it belongs to

Model: `Model/Dispatch.lean` (`dispatch_regions.py` with fix F04 = `dispatch true`, upstream
short-circuiting `any(<generator>)` = `dispatch false`; `dispatching_rules.py` = `ruleDm`/`ruleCp`).
Lemmas (`goB_spec`, `runBlocks_phase`, …) are in `Lemmas/Dispatch.lean`. Statements and theorems only.
-/
namespace SnaxVerif.C14
open SnaxVerif.Dispatch

/-- The property: for every function (any number of blocks, any nesting of region ops, leaves at any
depth), every core count, every core, every resolution `orc` of the control flow, every number of
executed blocks `fuel` and every entry block: the ops the core executes after dispatching are the ops
it executes before, filtered by the rule (`allowed`: dm ops only on core `nb-1`, compute ops only on
core 0, everything else everywhere) — `List.filter`, so in the original relative order. -/
def C14_statement (fixed : Bool) : Prop :=
  ∀ (f : Func) (nb core : Nat) (orc : Orc) (fuel entry : Nat),
    runF core orc (dispatch fixed nb f) fuel entry =
      (runF core orc f fuel entry).filter (allowed nb (coreOf f core))

/-- C14 for the tree with F04 (every block is visited in both phases). -/
theorem C14_dispatch : C14_statement true := by
  intro f nb core orc fuel entry
  simp only [runF, coreOf_dispatch]
  simp only [dispatch]
  rw [runBlocks_phase cpOf 0 _ orc cpOf_regEv, runBlocks_phase dmOf (nb - 1) _ orc dmOf_regEv,
    List.filter_filter]
  congr 1
  funext l
  rw [Bool.and_comm]
  exact keep_keep nb _ l

/-- D7: the upstream `any(dispatcher(...) for block in blocks)` stops at the first block that
changed; the copy in the second block is never guarded and runs on the compute core. -/
theorem C14_shortcircuit_fails : ¬ C14_statement false := by
  intro h
  have := h ⟨[], [⟨.cons (.leaf ⟨1, .copy, false⟩) .nil, .br 1⟩,
                  ⟨.cons (.leaf ⟨2, .copy, false⟩) .nil, .ret⟩]⟩ 2 0 (fun _ _ _ => []) 2 0
  revert this
  decide

/-- the same function is handled by the fixed pass (non-vacuity of `C14_dispatch` on the D7 witness:
core 0 executes nothing, core 1 both copies) -/
example :
    let f : Func := ⟨[], [⟨.cons (.leaf ⟨1, .copy, false⟩) .nil, .br 1⟩,
                          ⟨.cons (.leaf ⟨2, .copy, false⟩) .nil, .ret⟩]⟩
    runF 0 (fun _ _ _ => []) (dispatch true 2 f) 2 0 = [] ∧
    (runF 1 (fun _ _ _ => []) (dispatch true 2 f) 2 0).map (·.id) = [1, 2] := by decide

/-- Consequences spelled out: after dispatching, a core executes an op only if the rule allows it,
every op the rule allows is still executed, and the executed ops are a subsequence of the original. -/
theorem C14_exactly_its_cores (f : Func) (nb core : Nat) (orc : Orc) (fuel entry : Nat) (l : Leaf) :
    (l ∈ runF core orc (dispatch true nb f) fuel entry ↔
      l ∈ runF core orc f fuel entry ∧ (dmOf l = true → coreOf f core = nb - 1) ∧
        (cpOf l = true → coreOf f core = 0)) ∧
    (runF core orc (dispatch true nb f) fuel entry).Sublist (runF core orc f fuel entry) := by
  rw [C14_dispatch f nb core orc fuel entry]
  refine ⟨?_, List.filter_sublist⟩
  simp only [List.mem_filter, allowed, Bool.and_eq_true, Bool.or_eq_true, Bool.not_eq_true',
    decide_eq_true_eq]
  constructor
  · rintro ⟨h, h1, h2⟩
    exact ⟨h, fun hd => h1.resolve_left (by simp [hd]), fun hc => h2.resolve_left (by simp [hc])⟩
  · rintro ⟨h, h1, h2⟩
    refine ⟨h, ?_, ?_⟩
    · cases hd : dmOf l
      · exact Or.inl rfl
      · exact Or.inr (h1 hd)
    · cases hc : cpOf l
      · exact Or.inl rfl
      · exact Or.inr (h2 hc)

example : -- non-trivial instance: nested loop/if, adjacent and separated ops, three cores
    let f : Func := ⟨[], [⟨.cons (.leaf ⟨1, .copy, false⟩) (.cons (.leaf ⟨2, .copy, false⟩)
      (.cons (.reg 3 1 (.cons (.cons (.leaf ⟨4, .generic, true⟩) (.cons (.leaf ⟨5, .other, false⟩)
        (.cons (.leaf ⟨6, .copy, false⟩) .nil))) .nil)) .nil)), .ret⟩]⟩
    (runF 0 (stdOrc 1) (dispatch true 3 f) 1 0).map (·.id) = [3, 4, 5, 4, 5] ∧
    (runF 1 (stdOrc 1) (dispatch true 3 f) 1 0).map (·.id) = [3, 5, 5] ∧
    (runF 2 (stdOrc 1) (dispatch true 3 f) 1 0).map (·.id) = [1, 2, 3, 5, 6, 5, 6] := by decide

/-- An external declaration (a function without blocks) is left untouched. -/
theorem dispatch_declaration (fixed : Bool) (nb : Nat) (f : Func) (h : f.blocks = []) :
    dispatch fixed nb f = f := by
  cases f with
  | mk pre blocks =>
    simp only at h
    subst h
    simp [dispatch, phaseBlocks, changedBlocks, prelude]

/-- Module level: every function of the module — whatever its visibility, which the pass does not look
at — is dispatched; position by position the functions of the output execute the filtered original. -/
theorem C14_module (m : List Func) (nb core : Nat) (orc : Orc) (fuel entry : Nat) :
    (dispatchModule true nb m).map (fun g => runF core orc g fuel entry) =
      m.map (fun f => (runF core orc f fuel entry).filter (allowed nb (coreOf f core))) := by
  simp only [dispatchModule, List.map_map]
  apply List.map_congr_left
  intro f _
  exact C14_dispatch f nb core orc fuel entry

example : -- a declaration followed by a function with a body: the declaration stays, the body is guarded
    let m : List Func := [⟨[], []⟩, ⟨[], [⟨.cons (.leaf ⟨1, .copy, false⟩) .nil, .ret⟩]⟩]
    (dispatchModule true 2 m).map (fun g => (runF 0 (fun _ _ _ => []) g 1 0).map (·.id)) = [[], []] ∧
    (dispatchModule true 2 m).map (fun g => (runF 1 (fun _ _ _ => []) g 1 0).map (·.id)) = [[], [1]] ∧
    (dispatchModule true 2 m).map (fun g => g.pre.length) = [0, 3] := by decide

/-- with at least two cores the data-mover core and the compute core are different cores -/
theorem dm_core_ne_compute_core (nb : Nat) (h : 2 ≤ nb) : nb - 1 ≠ 0 := by omega

/-- The two rules never both claim an op, provided that for a streaming region at least one extension
kernel differs from its kernel (true of `XDMA_EXT_SET`, whose kernels are pairwise different; the
harness checks `false ∈ ms` on every generated streaming region). -/
theorem rules_exclusive (k : OpKind) (hms : ∀ acc fg ms, k = .stream acc fg ms → false ∈ ms) :
    ¬ (ruleDm k = .ok true ∧ ruleCp k = .ok true) := by
  cases k with
  | copy => simp [ruleCp]
  | generic => simp [ruleDm]
  | other => simp [ruleDm]
  | stream acc fg ms =>
    have hm := hms acc fg ms rfl
    cases acc <;> cases fg <;> simp [ruleDm, ruleCp, accCheck]
    intro _
    exact hm

example : false ∈ [true, false, false] ∧ ruleDm (.stream .xdma true [true, false, false]) = .ok true ∧
    ruleCp (.stream .xdma true [true, false, false]) = .ok false := ⟨by decide, rfl, rfl⟩

/-! ### the rules against the classes of the property -/

/-- the streaming region names a registered accelerator (otherwise the rules raise) -/
def AccOk : OpKind → Prop
  | .stream .none _ _ => False
  | .stream .unreg _ _ => False
  | _ => True

/-- at least one extension kernel differs from the op's kernel (true of `XDMA_EXT_SET`) -/
def OneExtDiffers : OpKind → Prop
  | .stream _ _ ms => false ∈ ms
  | _ => True

/-- clause excluding finding DC14a: an xDMA streaming region has a kernel some extension provides -/
def NoForeignXdmaKernel : OpKind → Prop
  | .stream .xdma true ms => ms.any id = true
  | _ => True

/-- full statement: the two rules classify every op as the property does -/
def rules_statement : Prop :=
  ∀ k : OpKind, AccOk k → OneExtDiffers k → rulesClass k = some (specClass k)

theorem rules_match_spec_partial (k : OpKind) (hacc : AccOk k) (hdiff : OneExtDiffers k)
    (hclause : NoForeignXdmaKernel k) : rulesClass k = some (specClass k) := by
  cases k with
  | copy => rfl
  | generic => rfl
  | other => rfl
  | stream acc fg ms =>
    have hany : ms.any (fun m => !m) = true := by
      simp only [OneExtDiffers] at hdiff
      simp only [List.any_eq_true]
      exact ⟨false, hdiff, rfl⟩
    cases acc <;> cases fg
    case xdma.true =>
      have h1 : ms.any id = true := hclause
      simp [rulesClass, specClass, ruleDm, ruleCp, accCheck, h1, hany]
    all_goals simp_all [AccOk, rulesClass, specClass, ruleDm, ruleCp, accCheck]

/-- DC14a: `dispatch_to_compute` returns False for an xDMA streaming region as soon as ONE extension
kernel differs (`any(not same)`), so a region whose kernel no extension provides is claimed by neither
rule and runs on every core, although it is an accelerator operation. -/
theorem rules_match_spec_fails : ¬ rules_statement := by
  intro h
  have := h (.stream .xdma true [false, false, false]) trivial (by simp [OneExtDiffers])
  revert this
  decide

example : AccOk (.stream .xdma true [false, false, true]) ∧ OneExtDiffers (.stream .xdma true [false, false, true]) ∧
    NoForeignXdmaKernel (.stream .xdma true [false, false, true]) ∧
    rulesClass (.stream .xdma true [false, false, true]) = some .dm := by
  refine ⟨trivial, by simp [OneExtDiffers], by simp [NoForeignXdmaKernel], by decide⟩

/-! ### the concrete extension kernel table -/

/-- `OneExtDiffers` holds for every kernel with the actual table: two of its entries differ, so no kernel
equals all of them. -/
theorem xdma_table_one_differs (k : KSig) : false ∈ matchesOf k := by
  simp only [matchesOf, xdmaExtKernels, List.map_cons, List.map_nil, List.mem_cons, List.not_mem_nil,
    or_false]
  by_cases h : (⟨"kernel.rescale", ["i32", "i8"]⟩ : KSig) = k
  · right; left
    subst h
    decide
  · left
    simp [h]

/-- Every kernel an xDMA extension provides (rescale down i32->i8, rescale up i8->i32, add on i32) makes
the streaming region a data-mover op and nothing else; every other kernel on the xDMA is claimed by
neither rule (DC14a); on any other registered accelerator the region is a compute op. -/
theorem xdma_kernel_classes (k : KSig) :
    (k ∈ xdmaExtKernels → rulesClass (.stream .xdma true (matchesOf k)) = some .dm) ∧
    (k ∉ xdmaExtKernels → rulesClass (.stream .xdma true (matchesOf k)) = some .all) ∧
    rulesClass (.stream .other true (matchesOf k)) = some .cp := by
  have hd := xdma_table_one_differs k
  have hany : (matchesOf k).any (fun m => !m) = true := by
    simp only [List.any_eq_true]; exact ⟨false, hd, rfl⟩
  have hiff : (matchesOf k).any id = true ↔ k ∈ xdmaExtKernels := by
    simp only [matchesOf, List.any_map, List.any_eq_true, Function.comp, id, decide_eq_true_eq]
    constructor
    · rintro ⟨e, he, rfl⟩; exact he
    · intro h; exact ⟨k, h, rfl⟩
  refine ⟨fun h => ?_, fun h => ?_, ?_⟩
  · have h1 := hiff.mpr h
    simp [rulesClass, ruleDm, ruleCp, accCheck, h1, hany]
  · have h1 : (matchesOf k).any id = false := by
      cases hx : (matchesOf k).any id
      · rfl
      · exact absurd (hiff.mp hx) h
    simp [rulesClass, ruleDm, ruleCp, accCheck, h1, hany]
  · simp [rulesClass, ruleDm, ruleCp, accCheck]

example : matchesOf ⟨"kernel.rescale", ["i32", "i8"]⟩ = [true, false, false] ∧
    matchesOf ⟨"kernel.rescale", ["i8", "i32"]⟩ = [false, true, false] ∧
    matchesOf ⟨"kernel.add", ["i32", "i32", "i32"]⟩ = [false, false, true] ∧
    matchesOf ⟨"kernel.rescale", ["i32", "i32"]⟩ = [false, false, false] := by decide

/-- The annotated call offers exactly the core ids `0 … nb-1` for pinning. -/
theorem pin_constants_cover (f : Func) (nb k : Nat) (pins : List Nat)
    (h : Pre.call pins ∈ (dispatch true nb f).pre) (hpre : f.pre = []) : k ∈ pins ↔ k < nb := by
  simp only [dispatch, hpre, List.append_nil] at h
  generalize changedBlocks dmOf f.blocks = a at h
  generalize changedBlocks cpOf _ = b at h
  cases a <;> cases b <;> simp [prelude] at h <;> subst h <;> simp

/-- Pinning: when the pass emitted the core-id call, the specialisation of the dispatched function to
the constant `k` executes — on whatever core it is called — exactly the original program filtered by
the rule for core `k`. -/
theorem pin_spec (f : Func) (hpre : f.pre = []) (nb k core : Nat) (orc : Orc) (fuel entry : Nat)
    (hcall : (dispatch true nb f).pre ≠ []) :
    runF core orc (pin k (dispatch true nb f)) fuel entry =
      (runF k orc f fuel entry).filter (allowed nb k) := by
  have hk : coreOf (pin k (dispatch true nb f)) core = k := by
    simp only [dispatch, hpre, List.append_nil, ne_eq] at hcall
    simp only [coreOf, pin, dispatch, hpre, List.append_nil]
    generalize changedBlocks dmOf f.blocks = a at hcall ⊢
    generalize changedBlocks cpOf _ = b at hcall ⊢
    cases a <;> cases b <;> simp [prelude, pinPre, pinnedVal, List.findSome?_cons] at hcall ⊢
  have h := C14_dispatch f nb k orc fuel entry
  simp only [runF, coreOf_dispatch] at h
  have hf : coreOf f k = k := by simp [coreOf, hpre]
  rw [hf] at h
  simp only [runF, hk, hf]
  exact h

/-- when nothing was dispatched there is no call, hence nothing to pin -/
theorem pin_unchanged (g : Func) (k : Nat) (h : g.pre = []) : pin k g = g := by
  cases g; simp_all [pin]

example : -- pin_spec is not vacuous: the D7 witness gets the call, pinned to core 1 it runs both copies
    let f : Func := ⟨[], [⟨.cons (.leaf ⟨1, .copy, false⟩) .nil, .br 1⟩,
                          ⟨.cons (.leaf ⟨2, .copy, false⟩) .nil, .ret⟩]⟩
    (dispatch true 2 f).pre ≠ [] ∧
    (runF 0 (fun _ _ _ => []) (pin 1 (dispatch true 2 f)) 2 0).map (·.id) = [1, 2] := by decide

end SnaxVerif.C14
