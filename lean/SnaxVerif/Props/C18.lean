import SnaxVerif.Lemmas.Kernel
/-!
# C18 — kernel recognition and expansion preserve the scalar function

Model: `Model/Kernel.lean`. The committed model of `check_kernel_equivalence` is the FIXED matcher
(`recognize true`, fixes/F05-kernel-structural-match.diff); `recognize false` is the upstream
op-type-sequence matcher, refuted by `recognize_upstream_fails` (D14).

Statements and theorems only; helper lemmas are in `Lemmas/Kernel.lean`.
-/
namespace SnaxVerif.C18
open SnaxVerif.Kernel

/-! ## recognition (`convert-linalg-to-kernel`) -/

/-- The property for a matcher: a recognised body computes, on all inputs of all widths, the function of
the `equivalent_region` of the kernel it is replaced by. -/
def recognize_statement (fixed : Bool) : Prop :=
  ∀ (b : Body) (k : Kernel), recognize fixed b = some k →
    ∀ ins : List Val, evalBody b ins = evalBody (equivalentRegion k b.args) ins

/-- `recognize_sound`: full strength for the fixed matcher — every body (any number of ops, any wiring,
any widths, also ill-typed ones) and every input list. -/
theorem recognize_sound : recognize_statement true := by
  intro b k h ins
  have hp := List.find?_some h
  simp only [Bool.and_eq_true] at hp
  exact blockMatch_sound (region_args k b.args).symm (region_attrFree k b.args) hp.2 ins

/-- D14: the upstream matcher (operation types only) rewrites `x*x + x*x` to `kernel.mac x, y`. -/
def d14Body : Body :=
  ⟨[32, 32, 32], [⟨.muli, [.val 0, .val 0], 32⟩, ⟨.addi, [.val 3, .val 3], 32⟩], [.val 4]⟩

theorem recognize_upstream_fails : ¬ recognize_statement false := by
  intro h
  have := h d14Body .mac (by decide) [⟨32, 1#32⟩, ⟨32, 0#32⟩, ⟨32, 0#32⟩]
  revert this
  decide

/-- the fixed matcher leaves that body alone -/
theorem d14_fixed_unrecognized : recognize true d14Body = none := by decide

/-- Bodies that merely contain the same kinds of operations but compute something else than every
kernel region are left unchanged (contrapositive of `recognize_sound`). -/
theorem miswired_left_alone (b : Body)
    (h : ∀ k : Kernel, ∃ ins, evalBody b ins ≠ evalBody (equivalentRegion k b.args) ins) :
    recognize true b = none := by
  cases hr : recognize true b with
  | none => rfl
  | some k =>
    obtain ⟨ins, hne⟩ := h k
    exact absurd (recognize_sound b k hr ins) hne

/-! ## the matcher as written (explicit `mapping` dictionary) -/

/-- the dictionary-based matcher equals the number-based `blockMatch true` whenever block_b is in SSA form -/
theorem blockMatchDict_eq (a b : Body) (hb : b.wellScoped = true) : blockMatchDict a b = blockMatch true a b := by
  simp only [Body.wellScoped, Bool.and_eq_true] at hb
  unfold blockMatchDict blockMatch
  by_cases hl : a.ops.length = b.ops.length
  · by_cases hn : a.args.length = b.args.length
    · simp only [hl, hn, beq_self_eq_true, Bool.true_and, if_true, initMap_self]
      rw [opsMatchDict_idMap _ _ _ hb.1]
      by_cases hm : all2 (opMatch true) a.ops b.ops = true
      · simp only [hm, if_true, Bool.true_and]
        rw [Bool.eq_iff_iff]; simp only [beq_iff_eq]
        rw [hl]
        exact map_refGet_iff hb.2
      · simp [hm]
    · have : (a.args.length == b.args.length) = false := by simpa using hn
      simp [this]
  · have : (a.ops.length == b.ops.length) = false := by simpa using hl
    simp [this]

/-- the number-based model `recognize true` IS the dictionary-based code: the identity-mapping abstraction is proved -/
theorem recognizeDict_eq (b : Body) : recognizeDict b = recognize true b := by
  unfold recognizeDict recognize
  congr 1
  funext k
  by_cases hg : k.nOperands = b.args.length - 1
  · have h1 : 1 ≤ k.nOperands := by cases k <;> simp [Kernel.nOperands]
    rw [blockMatchDict_eq b _ (region_wellScoped k b.args (by omega))]
  · have : (k.nOperands == b.args.length - 1) = false := by simpa using hg
    simp [this]

/-- hence soundness holds for the code as written: a body accepted by the dictionary-based matcher computes the
function of the kernel's region on all inputs -/
theorem recognize_dict_sound (b : Body) (k : Kernel) (h : recognizeDict b = some k) (ins : List Val) :
    evalBody b ins = evalBody (equivalentRegion k b.args) ins :=
  recognize_sound b k (recognizeDict_eq b ▸ h) ins

/-! ## the regions compute the kernels' intended functions (`equivalent_region`, `LowerLinalgBody`) -/

/-- `region_spec` ("expansion by definition", made independent of the definition): for every well-typed
kernel instance, all operand widths and all operand values incl. extremes, the arithmetic of
`equivalent_region` equals the kernel's meaning over the integers (signed operands, result wrapped to the
accumulator width): `a*b`, `a+b`, `c + a*b`, `c + (a-za)*(b-zb)`. -/
theorem region_spec (k : Kernel) (ins : List Val) (hk : kernelTyped k (ins.map Val.w) = true) :
    evalBody (equivalentRegion k (ins.map Val.w)) ins = (kernelSpec k ins).map fun r => [r] := by
  cases k
  · -- mul
    rcases ins with _ | ⟨⟨wa, a⟩, _ | ⟨⟨wb, b⟩, _ | ⟨⟨wc, c⟩, _ | ⟨d, t⟩⟩⟩⟩ <;> simp [kernelTyped] at hk
    obtain ⟨rfl, rfl⟩ := hk
    simp [evalBody, equivalentRegion, evalOps, stepOp, lookupAll, lookup, evalOp, arithBin, cmpop, binop, kernelSpec, spec_mul]
  · -- add
    rcases ins with _ | ⟨⟨wa, a⟩, _ | ⟨⟨wb, b⟩, _ | ⟨⟨wc, c⟩, _ | ⟨d, t⟩⟩⟩⟩ <;> simp [kernelTyped] at hk
    obtain ⟨rfl, rfl⟩ := hk
    simp [evalBody, equivalentRegion, evalOps, stepOp, lookupAll, lookup, evalOp, arithBin, cmpop, binop, kernelSpec, spec_add]
  · -- mac
    rcases ins with _ | ⟨⟨wa, a⟩, _ | ⟨⟨wb, b⟩, _ | ⟨⟨wc, c⟩, _ | ⟨d, t⟩⟩⟩⟩ <;> simp [kernelTyped] at hk
    rcases hk with ⟨rfl, rfl⟩ | ⟨ha, hb⟩
    · simp [evalBody, equivalentRegion, evalOps, stepOp, lookupAll, lookup, evalOp, arithBin, cmpop, binop, kernelSpec,
        spec_mac]
    · have hne : wa ≠ wc := Nat.ne_of_lt ha
      simp [evalBody, equivalentRegion, evalOps, stepOp, lookupAll, lookup, evalOp, arithBin, cmpop, binop, unop, kernelSpec,
        spec_mac, hne, ha, hb]
  · -- qmac
    rcases ins with _ | ⟨⟨wa, a⟩, _ | ⟨⟨wb, b⟩, _ | ⟨⟨wza, za⟩, _ | ⟨⟨wzb, zb⟩, _ | ⟨⟨wc, c⟩, _ | ⟨d, t⟩⟩⟩⟩⟩⟩ <;>
      simp [kernelTyped] at hk
    obtain ⟨⟨⟨ha, hb⟩, rfl⟩, rfl⟩ := hk
    simp [evalBody, equivalentRegion, evalOps, stepOp, lookupAll, lookup, evalOp, arithBin, cmpop, binop, unop, kernelSpec,
      spec_qmac, ha, hb]
  · -- rescale: never typed
    simp [kernelTyped] at hk

/-- Replacement preserves the function: a recognised body computes exactly what the kernel op written in
its place means (`evalKBody` of `[kernel.k args[:-1] -> type(args[-1]); yield]`), for every well-typed
instance, all widths, all inputs. -/
theorem recognize_preserves (b : Body) (k : Kernel) (h : recognize true b = some k)
    (ins : List Val) (hins : ins.map Val.w = b.args) (hk : kernelTyped k b.args = true) :
    evalKBody (toKernelForm b k) ins = evalBody b ins := by
  rw [recognize_sound b k h ins, kernelForm_spec k b ins hins hk, ← hins, region_spec k ins (hins ▸ hk)]

/-- `recognize_preserves_welltyped`: the hypothesis `kernelTyped` of `recognize_preserves` is PROVED from the
body itself — a recognised body that evaluates on the inputs (all its ops type-check) and yields a value of
the output element type is a well-typed kernel instance, and the kernel op written in its place means
exactly the original body. -/
theorem recognize_preserves_welltyped (b : Body) (k : Kernel) (h : recognize true b = some k)
    (ins outs : List Val) (hev : evalBody b ins = some outs)
    (hyield : outs.map Val.w = [b.args.getLastD 0]) :
    kernelTyped k b.args = true ∧ evalKBody (toKernelForm b k) ins = evalBody b ins := by
  have hins := evalBody_some_widths hev
  obtain ⟨hp, hlen⟩ := recognize_shape h
  have hreg := recognize_sound b k h ins
  rw [hev, ← hins] at hreg
  have ht : kernelTyped k b.args = true := by
    rw [← hins]
    exact region_eval_typed k ins outs hp (by rw [hlen, ← hins]; simp) hreg.symm (by rw [hins]; exact hyield)
  exact ⟨ht, recognize_preserves b k h ins hins ht⟩


/-! ## expansion (`convert-kernel-to-linalg`, `LowerLinalgBody`) -/

/-- The property for expansion: the arithmetic body put in place of a kernel-form body computes the same
function. -/
def expand_statement : Prop :=
  ∀ (kb : KBody) (ins : List Val), ins.map Val.w = kb.args → kernelTyped kb.kernel (kb.opTypes ++ [kb.resWidth]) = true →
    evalBody (expand kb) ins = evalKBody kb ins

/-- `expand_sound_partial`: holds for kernel ops wired canonically (clause `canonical`: operands are the
block arguments in order, the operand/result types are the block argument types, the yield returns the
kernel's result) — the form `convert-linalg-to-kernel` writes. All kernels, widths, inputs. -/
theorem expand_sound_partial (kb : KBody) (ins : List Val) (hins : ins.map Val.w = kb.args)
    (hk : kernelTyped kb.kernel (kb.opTypes ++ [kb.resWidth]) = true)
    (canonical : kb.canonical = true) :
    evalBody (expand kb) ins = evalKBody kb ins := by
  have hc := canonical_eq canonical
  simp only [KBody.canonical, Bool.and_eq_true, beq_iff_eq] at canonical
  have hty := canonical.1.2
  rw [hty] at hk
  have h1 : expand kb = equivalentRegion kb.kernel kb.args := by unfold expand; rw [hty]
  have h2 : evalKBody kb ins = evalKBody (toKernelForm ⟨kb.args, [], []⟩ kb.kernel) ins :=
    congrArg (fun x => evalKBody x ins) hc
  rw [h1, h2, kernelForm_spec kb.kernel ⟨kb.args, [], []⟩ ins hins hk, ← hins,
    region_spec kb.kernel ins (hins ▸ hk)]

/-- DC18a: `LowerLinalgBody` ignores how the kernel op is wired: `kernel.mul %y, %y` becomes
`muli %x, %y`. -/
def dc18aBody : KBody :=
  { args := [32, 32, 32], kernel := .mul, operands := [.val 1, .val 1], opTypes := [32, 32],
    resWidth := 32, ret := [.val 3] }

theorem expand_wiring_fails : ¬ expand_statement := by
  intro h
  have := h dc18aBody [⟨32, 0#32⟩, ⟨32, 1#32⟩, ⟨32, 0#32⟩] (by decide) (by decide)
  revert this
  decide

/-- expansion followed by recognition gives the kernel back (the five canonical bodies of the upstream
test and all their width instances are recognised by the fixed matcher) -/
theorem canonical_recognized (k : Kernel) (tys : List Nat) (hk : kernelTyped k tys = true) :
    recognize true (equivalentRegion k tys) = some k :=
  region_recognized k tys hk

/-! ## the non-fused guard of `LowerLinalgBody` (bodies mixing kernel and arith ops) -/

/-- a body that is not exactly `[one op, yield]` — a fused kernel (kernel op followed by further kernel or
arith ops), or an empty body — is left unchanged, whatever its ops are -/
theorem lower_fused_unchanged (b : MBody) (h : b.ops.length ≠ 1) : lowerResult b = b := by
  have : lowerLinalgBody b = none := by
    unfold lowerLinalgBody
    split
    · next hops => simp [hops] at h
    · rfl
  simp [lowerResult, this]

/-- a body whose first op is not a kernel op is left unchanged (a kernel op later in the body does not count) -/
theorem lower_arith_first_unchanged (b : MBody) (op : BOp) (rest : List MOp) (h : b.ops = .arith op :: rest) :
    lowerResult b = b := by
  have : lowerLinalgBody b = none := by
    unfold lowerLinalgBody
    split
    · next hops => rw [h] at hops; cases hops
    · rfl
  simp [lowerResult, this]

/-- on a single-kernel body the pattern is `expand` -/
theorem lower_single (kb : KBody) (h : kb.kernel.isParsable = true) :
    lowerLinalgBody kb.toMBody = some (expand kb) := by
  simp [lowerLinalgBody, KBody.toMBody, h, expand]

/-- The property for `LowerLinalgBody` on arbitrary bodies (kernel and arith ops in any number and order):
the body after the pattern computes the same function. -/
def lower_statement : Prop :=
  ∀ (b : MBody) (ins : List Val), ins.map Val.w = b.args → evalMBody (lowerResult b) ins = evalMBody b ins

/-- `lower_preserves_partial`: every body — fused bodies of any length, kernel ops in any position, all
widths and inputs — keeps its function, under the clause `canonical` for the one case in which the pattern
fires (the body is a single kernel op: it must be well typed and wired canonically, DC18a). -/
theorem lower_preserves_partial (b : MBody) (ins : List Val) (hins : ins.map Val.w = b.args)
    (canonical : ∀ kb : KBody, b = kb.toMBody →
      kb.canonical = true ∧ kernelTyped kb.kernel (kb.opTypes ++ [kb.resWidth]) = true) :
    evalMBody (lowerResult b) ins = evalMBody b ins := by
  unfold lowerResult
  cases h : lowerLinalgBody b with
  | none => rfl
  | some r =>
    obtain ⟨kb, hb, _, hr⟩ := lowerLinalgBody_some h
    obtain ⟨hc, ht⟩ := canonical kb hb
    have hins' : ins.map Val.w = kb.args := by rw [hins, hb]; rfl
    simp only
    rw [hr, evalMBody_ofBody, expand_sound_partial kb ins hins' ht hc, hb, evalMBody_ofKBody]

theorem lower_statement_fails : ¬ lower_statement := by
  intro h
  have := h dc18aBody.toMBody [⟨32, 0#32⟩, ⟨32, 1#32⟩, ⟨32, 0#32⟩] (by decide)
  revert this
  decide

/-- non-vacuity: the fused body `kernel.mul a, b ; kernel.add %3, c ; yield` (a*b + c) -/
def fusedMulAdd : MBody :=
  ⟨[32, 32, 32], [.kern .mul [.val 0, .val 1] [32, 32] 32, .kern .add [.val 3, .val 2] [32, 32] 32], [.val 4]⟩

example : lowerResult fusedMulAdd = fusedMulAdd := by decide
example : evalMBody fusedMulAdd [⟨32, 3#32⟩, ⟨32, 5#32⟩, ⟨32, 7#32⟩] = some [⟨32, 22#32⟩] := by decide
example : ∀ kb : KBody, fusedMulAdd = kb.toMBody → False := by
  intro kb h
  have := congrArg (fun b => b.ops.length) h
  simp [fusedMulAdd, KBody.toMBody] at this

/-! ## dispatch (`dispatch-kernels`) -/

/-- The property for dispatch: the accelerator named in `library_call` is one of the module's
accelerators and declares the kernel with exactly the operand/result types of the op. -/
def dispatch_statement : Prop :=
  ∀ (accs : List Acc) (k : Kernel) (tys : List Nat) (dyn : Bool) (name : String),
    dispatch accs k tys dyn = .ok (some name) →
    ∃ a ∈ accs, (name = a.name ∨ name = a.name ++ "_stream") ∧
      ∃ sk ∈ a.supported, sk.kind = k ∧ sk.types = tys

/-- `dispatch_kind_partial`: what the code guarantees — the accelerator declares the kernel KIND, with a
type list of the right length; the clause `sk.types = tys` of `dispatch_statement` is dropped (D15). -/
theorem dispatch_kind_partial (accs : List Acc) (k : Kernel) (tys : List Nat) (dyn : Bool) (name : String)
    (h : dispatch accs k tys dyn = .ok (some name)) :
    ∃ a ∈ accs, (name = a.name ∨ name = a.name ++ "_stream") ∧
      ∃ sk ∈ a.supported, sk.kind = k ∧ sk.types.length = tys.length := by
  unfold dispatch at h
  split at h
  · cases h
  · cases h
  · next a ha =>
    obtain ⟨hm, hs⟩ := findAcc_some ha
    refine ⟨a, hm, ?_, matchSupported_true hs⟩
    simp only [Except.ok.injEq, Option.some.injEq] at h
    split at h <;> simp [← h]

/-- the dispatch tables of `snax_alu` and `snax_gemmx` (checked against the real classes on every run) -/
def aluAcc : Acc := ⟨"snax_alu", true, [⟨.add, [64, 64, 64]⟩, ⟨.mul, [64, 64, 64]⟩]⟩
def gemmxAcc : Acc :=
  ⟨"snax_gemmx", true, [⟨.qmac, [8, 8, 32, 32, 32]⟩, ⟨.mac, [8, 8, 32]⟩, ⟨.add, [32, 32, 32]⟩, ⟨.rescale, [32, 8]⟩]⟩

/-- D15: `kernel.add : i32, i32 -> i32` is dispatched to `snax_alu`, which declares i64 only. -/
theorem dispatch_types_fails : ¬ dispatch_statement := by
  intro h
  obtain ⟨a, ha, _, sk, hsk, hk, ht⟩ := h [aluAcc] .add [32, 32, 32] true "snax_alu" (by
    simp [dispatch, findAcc, matchSupported, aluAcc])
  simp only [List.mem_singleton] at ha
  subst ha
  simp only [aluAcc, List.mem_cons, List.not_mem_nil, or_false] at hsk
  rcases hsk with rfl | rfl
  · simp at ht
  · simp at hk

/-- `dispatch_fixed_sound`: with the repair FD15 (shipped, not applied) the FULL dispatch statement holds — the
accelerator named in `library_call` is in the module and declares the kernel with exactly the op's operand and
result types. -/
theorem dispatch_fixed_sound (accs : List Acc) (k : Kernel) (tys : List Nat) (dyn : Bool) (name : String)
    (h : dispatchFixed accs k tys dyn = some name) :
    ∃ a ∈ accs, (name = a.name ∨ name = a.name ++ "_stream") ∧
      ∃ sk ∈ a.supported, sk.kind = k ∧ sk.types = tys := by
  unfold dispatchFixed at h
  cases hf : findAccFixed k tys accs with
  | none => simp [hf] at h
  | some a =>
    obtain ⟨hm, hs⟩ := findAccFixed_some hf
    simp only [hf, Option.map_some, Option.some.injEq] at h
    refine ⟨a, hm, ?_, ?_⟩
    · split at h <;> simp [← h]
    · simp only [matchSupportedFixed, List.any_eq_true, Bool.and_eq_true, beq_iff_eq] at hs
      exact hs

/-- the D15 witness is not dispatched by the repaired pattern -/
theorem d15_fixed_undispatched : dispatchFixed [aluAcc] .add [32, 32, 32] false = none := by decide
example : dispatchFixed [aluAcc, gemmxAcc] .add [32, 32, 32] true = some "snax_gemmx" := by decide

/-- a kernel kind no accelerator of the module declares is never dispatched -/
theorem dispatch_unsupported (accs : List Acc) (k : Kernel) (tys : List Nat) (dyn : Bool)
    (h : ∀ a ∈ accs, ∀ sk ∈ a.supported, sk.kind ≠ k) : dispatch accs k tys dyn = .ok none := by
  unfold dispatch
  rw [findAcc_none h]

/-! ## rescale (`LowerRescale` against `postprocessing_simd_golden_model`) -/

/-- the arithmetic `LowerRescale` emits computes `rescaleExpand` (all parameters, all inputs) -/
theorem rescale_body_eval (p : RescaleParams) (x : BitVec 32) (o : BitVec 8) (b : Body)
    (h : rescaleBody p [32, 8] = some b) :
    evalBody b [⟨32, x⟩, ⟨8, o⟩] = (rescaleExpand p x).map fun r => [⟨8, r⟩] := by
  unfold rescaleBody at h
  unfold rescaleExpand
  split at h
  · next s _ m _ hs hm =>
    cases h
    by_cases hsh : s % 18446744073709551616 < 64 <;>
      simp [evalBody, evalOps, stepOp, lookupAll, lookup, evalOp, arithBin, cmpop, binop, unop, hsh]
  · cases h

/-- parameter sets the comparison is about: one shift in 1..63 per multiplier, clamp bounds ordered -/
@[reducible] def rescaleWf (p : RescaleParams) : Prop :=
  p.shift.length = p.multiplier.length ∧ (∀ s ∈ p.shift, 1 ≤ s ∧ s ≤ 63) ∧
    (BitVec.ofInt 32 p.maxInt).slt (BitVec.ofInt 32 p.minInt) = false

/-- clause: every intermediate value fits its type — the i32 subtraction of the zero point does not wrap
and the product shifted by `shift-1` fits in 32 bits (where the golden model casts to int32) -/
@[reducible] def noOverflow (p : RescaleParams) (s m : Int) (x : BitVec 32) : Prop :=
  (x - BitVec.ofInt 32 p.inputZp).signExtend 64 = x.signExtend 64 - BitVec.ofInt 64 p.inputZp ∧
  (((x.signExtend 64 - BitVec.ofInt 64 p.inputZp) * BitVec.ofInt 64 m).sshiftRight (s - 1).toNat) =
    ((((x.signExtend 64 - BitVec.ofInt 64 p.inputZp) * BitVec.ofInt 64 m).sshiftRight (s - 1).toNat).setWidth 32).signExtend 64

/-- The property for the rescale expansion: for every well-formed parameter set, channel and i32 input the
expansion computes the golden model's value (cast to the i8 result type). -/
def rescale_statement : Prop :=
  ∀ (p : RescaleParams) (ch : Nat) (x : BitVec 32), rescaleWf p → ch < p.multiplier.length →
    rescaleExpand p x = (rescaleSpec p ch x).map (BitVec.setWidth 8)

/-- `rescale_expand_partial`: the expansion equals the golden model under the clauses
`noDoubleRound` (D20), `firstChannel` (D20: the element belongs to channel 0, whose parameters are the only
ones used) and `fits` (DC18b: no intermediate overflow). All shifts 1..63, multipliers, zero points, clamps,
inputs. -/
theorem rescale_expand_partial (p : RescaleParams) (ch : Nat) (x : BitVec 32) (hwf : rescaleWf p)
    (hch : ch < p.multiplier.length)
    (noDoubleRound : p.doubleRound = false)
    (firstChannel : ch = 0)
    (fits : ∀ s m, p.shift[0]? = some s → p.multiplier[0]? = some m → noOverflow p s m x) :
    rescaleExpand p x = (rescaleSpec p ch x).map (BitVec.setWidth 8) := by
  subst firstChannel
  obtain ⟨hlen, hsh, hmm⟩ := hwf
  unfold rescaleExpand rescaleSpec
  rcases hs : p.shift with _ | ⟨s, ss⟩
  · rw [hs] at hlen; simp at hlen; omega
  rcases hm : p.multiplier with _ | ⟨m, ms⟩
  · rw [hm] at hch; simp at hch
  obtain ⟨hs1, hs2⟩ := hsh s (by simp [hs])
  obtain ⟨f1, f2⟩ := fits s m (by simp [hs]) (by simp [hm])
  have hn : (BitVec.ofInt 64 s).toNat = s.toNat := toNat_ofInt_shift hs1 hs2
  have hlt : s.toNat < 64 := by omega
  have hsplit : s.toNat = (s - 1).toNat + 1 := by omega
  simp only [List.getElem?_cons_zero, hn, hlt, if_true, noDoubleRound, hs1, hs2, and_self, Bool.false_eq_true,
    if_false, Option.map_some, Option.some.injEq]
  have key : ∀ V : BitVec 64,
      V.sshiftRight (s - 1).toNat = ((V.sshiftRight (s - 1).toNat).setWidth 32).signExtend 64 →
      (V.sshiftRight s.toNat).setWidth 32 = ((V.sshiftRight (s - 1).toNat).setWidth 32).sshiftRight 1 := by
    intro V hV
    rw [hsplit, BitVec.sshiftRight_add]
    generalize V.sshiftRight (s - 1).toNat = W at hV ⊢
    have := trunc_sshiftRight_signExtend (W.setWidth 32)
    rw [← hV] at this
    exact this
  rw [f1, key _ f2, clamp_comm _ _ _ hmm]

/-- D20: with `double_round = true` the expansion differs from the golden model -/
theorem rescale_doubleround_fails :
    ∃ (p : RescaleParams) (x : BitVec 32), rescaleWf p ∧ noOverflow p 1 1 x ∧ p.shift = [1] ∧ p.multiplier = [1] ∧
      rescaleExpand p x ≠ (rescaleSpec p 0 x).map (BitVec.setWidth 8) :=
  ⟨⟨0, 0, [1], [1], 127, -128, true⟩, 3#32, by decide, by decide, rfl, rfl, by decide⟩

/-- D20: elements of a channel other than 0 get channel 0's multiplier and shift -/
theorem rescale_perchannel_fails :
    ∃ (p : RescaleParams) (ch : Nat) (x : BitVec 32), rescaleWf p ∧ ch < p.multiplier.length ∧ p.doubleRound = false ∧
      noOverflow p 1 1 x ∧ noOverflow p 1 2 x ∧
      rescaleExpand p x ≠ (rescaleSpec p ch x).map (BitVec.setWidth 8) :=
  ⟨⟨0, 0, [1, 2], [1, 1], 127, -128, false⟩, 1, 10#32, by decide, by decide, rfl, by decide, by decide, by decide⟩

/-- DC18b: where the golden model wraps to int32 after the first shift the expansion does not
(x = 32768, multiplier = 65536, shift = 1: golden -128, expansion 127) -/
theorem rescale_overflow_fails :
    ∃ (p : RescaleParams) (x : BitVec 32), rescaleWf p ∧ p.doubleRound = false ∧ p.shift = [1] ∧ p.multiplier = [65536] ∧
      rescaleExpand p x ≠ (rescaleSpec p 0 x).map (BitVec.setWidth 8) :=
  ⟨⟨0, 0, [65536], [1], 127, -128, false⟩, 32768#32, by decide, rfl, rfl, rfl, by decide⟩

theorem rescale_statement_fails : ¬ rescale_statement := by
  intro h
  have := h ⟨0, 0, [1], [1], 127, -128, true⟩ 0 3#32 (by decide) (by decide)
  revert this
  decide

/-! ## `is_same_kernel`: a declaration matches exactly its own kernel kind and type list -/

/-- a `SupportedKernel` accepts a kernel op iff the kind and every element type — operands AND result —
are the declared ones (all declarations, all kinds, all type lists of any length) -/
theorem same_kernel_exact (sk : Supported) (k : Kernel) (tys : List Nat) :
    isSameKernel sk k tys = true ↔ sk.kind = k ∧ sk.types = tys := by
  simp [isSameKernel]

/-- in particular a result type that differs from the declared one is rejected -/
theorem same_kernel_result_checked (sk : Supported) (k : Kernel) (ops : List Nat) (r r' : Nat)
    (hdecl : sk.types = ops ++ [r]) (hne : r' ≠ r) : isSameKernel sk k (ops ++ [r']) = false := by
  simp [isSameKernel, hdecl, hne.symm]

example : isSameKernel ⟨.rescale, [32, 8]⟩ .rescale [32, 8] = true := by decide
example : isSameKernel ⟨.rescale, [32, 8]⟩ .rescale [32, 32] = false := by decide

/-! ## `convert-tosa-to-kernel`: the clamp range of the kernel that replaces rescale (+ clamp) -/

/-- without a `tosa.clamp` the kernel saturates to exactly the signed range of the (i8 or i32) result type -/
theorem tosa_default_saturates (t : TosaRescale) (p : RescaleParams) (w : Nat)
    (h : tosaToKernel t = some (p, w)) (hc : t.clamp = none) :
    (w = 8 ∨ w = 32) ∧ w = t.outWidth ∧ p.minInt = -(2 ^ (w - 1) : Nat) ∧ p.maxInt = (2 ^ (w - 1) : Nat) - 1 := by
  unfold tosaToKernel at h
  rw [hc] at h
  split at h
  · cases h
  · simp only at h
    split at h
    · cases h
    · next hw =>
      simp only [Option.some.injEq, Prod.mk.injEq] at h
      obtain ⟨rfl, rfl⟩ := h
      have hw' : t.outWidth = 8 ∨ t.outWidth = 32 := by omega
      rcases hw' with h8 | h32
      · simp [h8]
      · simp [h32]

/-- with a `tosa.clamp` as the single user its bounds are the kernel's bounds -/
theorem tosa_clamp_kept (t : TosaRescale) (p : RescaleParams) (w : Nat) (lo hi : Int)
    (h : tosaToKernel t = some (p, w)) (hc : t.clamp = some (lo, hi)) :
    w = t.outWidth ∧ p.minInt = lo ∧ p.maxInt = hi := by
  unfold tosaToKernel at h
  rw [hc] at h
  split at h
  · cases h
  · simp only [Option.some.injEq, Prod.mk.injEq] at h
    obtain ⟨rfl, rfl⟩ := h
    simp

/-- zero points, multipliers, shifts and the rounding mode are carried over unchanged -/
theorem tosa_params_kept (t : TosaRescale) (p : RescaleParams) (w : Nat) (h : tosaToKernel t = some (p, w)) :
    p.inputZp = t.inputZp ∧ p.outputZp = t.outputZp ∧ p.multiplier = t.multiplier ∧ p.shift = t.shift ∧
      p.doubleRound = t.doubleRound := by
  unfold tosaToKernel at h
  split at h
  · cases h
  · split at h
    · simp only [Option.some.injEq, Prod.mk.injEq] at h
      obtain ⟨rfl, _⟩ := h
      simp
    · simp only at h
      split at h
      · cases h
      · simp only [Option.some.injEq, Prod.mk.injEq] at h
        obtain ⟨rfl, _⟩ := h
        simp

example : tosaToKernel ⟨8, 1, none, 0, -3, [1085889731], [37], false⟩ =
    some (⟨0, -3, [1085889731], [37], 127, -128, false⟩, 8) := by decide
example : tosaToKernel ⟨32, 1, none, 0, -3, [1085889731], [37], false⟩ =
    some (⟨0, -3, [1085889731], [37], 2147483647, -2147483648, false⟩, 32) := by decide
example : tosaToKernel ⟨16, 1, some (-100, 90), 0, 0, [1], [1], true⟩ =
    some (⟨0, 0, [1], [1], 90, -100, true⟩, 16) := by decide

/-- DC18c: `LowerRescale` always ends with a truncation to i8, also for a `kernel.rescale (i32) -> i32`:
the yielded value has width 8 (1000 becomes -24) -/
theorem rescale_result_type_fails :
    ∃ (p : RescaleParams) (b : Body), rescaleBody p [32, 32] = some b ∧
      evalBody b [⟨32, 1000#32⟩, ⟨32, 0#32⟩] = some [⟨8, BitVec.ofInt 8 (-24)⟩] :=
  ⟨⟨0, 0, [1], [0], 2147483647, -2147483648, false⟩, _, rfl, by decide⟩

/-! ## rescale with fix FC18c: `LowerRescale` IS the golden model, for every input and result width -/

/-- the ops the fixed `LowerRescale` emits compute the closed form `rescaleExpandFixed`: every input width
below 64, every result width (truncation below 32 bits, nothing at 32, sign extension above), with and
without double rounding, all parameters and inputs -/
theorem rescale_fixed_body_eval {wi : Nat} (p : RescaleParams) (x : BitVec wi) (wr : Nat) (o : BitVec wr) (b : Body)
    (h : rescaleBodyFixed p [wi, wr] = some b) :
    evalBody b [⟨wi, x⟩, ⟨wr, o⟩] = (rescaleExpandFixed p x wr).map fun r => [⟨wr, r⟩] := by
  unfold rescaleBodyFixed at h
  unfold rescaleExpandFixed
  split at h
  · next s m hs hm =>
    by_cases hwi : wi < 64
    · simp only [List.getD_cons_zero, hwi, if_true] at h
      cases h
      rcases Nat.lt_trichotomy wr 32 with hw | hw | hw
      · by_cases hsh : (s - 1) % 18446744073709551616 < 64 <;> by_cases hdr : p.doubleRound = true <;>
          simp [evalBody, evalOps, stepOp, lookupAll, lookup, evalOp, arithBin, cmpop, ternop, binop, unop, cmpPred, hsh, hdr,
            hwi, hw] <;>
          exact (BitVec.signExtend_eq_setWidth_of_le _ (by omega)).symm
      · subst hw
        by_cases hsh : (s - 1) % 18446744073709551616 < 64 <;> by_cases hdr : p.doubleRound = true <;>
          simp [evalBody, evalOps, stepOp, lookupAll, lookup, evalOp, arithBin, cmpop, ternop, binop, unop, cmpPred, hsh, hdr,
            hwi]
      · have hw' : ¬ wr < 32 := by omega
        by_cases hsh : (s - 1) % 18446744073709551616 < 64 <;> by_cases hdr : p.doubleRound = true <;>
          simp [evalBody, evalOps, stepOp, lookupAll, lookup, evalOp, arithBin, cmpop, ternop, binop, unop, cmpPred, hsh, hdr,
            hwi, hw, hw']
    · simp [hwi] at h
  · cases h

/-- `rescale_fixed_sound` (full strength; replaces `rescale_expand_partial`, whose clauses `noDoubleRound`,
`fits` and the i8 result are gone): whenever the fixed pattern fires (uniform shift and multiplier), for every
well-formed parameter set, every channel, every input width below 64, every result width and every input
value, the expansion computes exactly `postprocessing_simd_golden_model` — 64-bit product, int32 cast after
the shift by `shift-1`, double rounding, final shift, zero point, saturation — converted to the result type. -/
theorem rescale_fixed_sound {wi : Nat} (p : RescaleParams) (ch : Nat) (x : BitVec wi) (wr : Nat)
    (hwf : rescaleWf p) (hch : ch < p.multiplier.length) (hwi : wi < 64)
    (s m : Int) (hs : uniformParam p.shift = some s) (hm : uniformParam p.multiplier = some m) :
    rescaleExpandFixed p x wr = (rescaleSpec p ch x).map (BitVec.signExtend wr) := by
  obtain ⟨hlen, hsh, hmm⟩ := hwf
  obtain ⟨hs1, hs2⟩ := hsh s (uniformParam_mem hs)
  have hn : (BitVec.ofInt 64 (s - 1)).toNat = (s - 1).toNat := toNat_ofInt_shift0 (by omega) (by omega)
  have hlt : (s - 1).toNat < 64 := by omega
  unfold rescaleExpandFixed rescaleSpec
  rw [uniformParam_getElem hs ch (by omega), uniformParam_getElem hm ch hch]
  simp only [hs, hm, hwi, hn, hlt, if_true, hs1, hs2, and_self, Option.map_some, Option.some.injEq]
  simp only [BitVec.ofNat_eq_ofNat]
  congr 1
  rw [clamp_comm _ _ _ hmm]
  cases p.doubleRound
  · simp
  · simp only [if_true]
    rw [double_round_eq]

/-- per-channel (non-uniform) or missing parameters: the fixed pattern does not fire (the kernel op stays) -/
theorem rescale_fixed_perchannel_untouched (p : RescaleParams) (args : List Nat)
    (h : uniformParam p.shift = none ∨ uniformParam p.multiplier = none) : rescaleBodyFixed p args = none := by
  unfold rescaleBodyFixed
  rcases h with h | h
  · rw [h]
  · rw [h]; cases uniformParam p.shift <;> rfl

/-- saturation: the golden model's (hence the fixed expansion's) 32-bit value lies within `[min_int, max_int]` -/
theorem rescale_saturates {wi : Nat} (p : RescaleParams) (ch : Nat) (x : BitVec wi) (r : BitVec 32)
    (hwf : rescaleWf p) (h : rescaleSpec p ch x = some r) :
    r.slt (BitVec.ofInt 32 p.minInt) = false ∧ (BitVec.ofInt 32 p.maxInt).slt r = false := by
  unfold rescaleSpec at h
  split at h
  · split at h
    · simp only [Option.some.injEq] at h
      subst h
      exact clip_bounds _ _ _ hwf.2.2
    · cases h
  · cases h

/-- ... and the conversion to the result type keeps that value whenever the clamp range fits the result type -/
theorem rescale_result_exact {wi : Nat} (p : RescaleParams) (ch : Nat) (x : BitVec wi) (r : BitVec 32) (wr : Nat)
    (hwf : rescaleWf p) (h : rescaleSpec p ch x = some r) (hpos : 0 < wr)
    (hlo : -((2 ^ (wr - 1) : Nat) : Int) ≤ (BitVec.ofInt 32 p.minInt).toInt)
    (hhi : (BitVec.ofInt 32 p.maxInt).toInt < ((2 ^ (wr - 1) : Nat) : Int)) :
    (r.signExtend wr).toInt = r.toInt := by
  obtain ⟨h1, h2⟩ := rescale_saturates p ch x r hwf h
  simp only [BitVec.slt_eq_decide, decide_eq_false_iff_not, Int.not_lt] at h1 h2
  exact signExtend_exact r wr hpos (by omega) (by omega)

/-! ## `LowerLinalgBody` with fix FC18a: every body keeps its function -/

/-- the property for the fixed pattern on arbitrary bodies (kernel and arith ops in any number and order);
`typed`: a single kernel op the pattern may fire on is a well-typed kernel instance (domain) -/
def lower_fixed_statement : Prop :=
  ∀ (b : MBody) (ins : List Val), ins.map Val.w = b.args →
    (∀ kb : KBody, b = kb.toMBody → kernelTyped kb.kernel (kb.opTypes ++ [kb.resWidth]) = true) →
    evalMBody (lowerResultFixed b) ins = evalMBody b ins

/-- `lower_fixed_preserves` (full strength; the clause `canonical` of `lower_preserves_partial` is now
established by the guard of the code): fused bodies, miswired kernel ops, yields of other values are left
alone, canonical single-kernel bodies are expanded to arithmetic computing the same function. -/
theorem lower_fixed_preserves : lower_fixed_statement := by
  intro b ins hins typed
  unfold lowerResultFixed
  cases h : lowerLinalgBodyFixed b with
  | none => rfl
  | some r =>
    obtain ⟨kb, hb, _, hc, hr⟩ := lowerLinalgBodyFixed_some h
    have ht := typed kb hb
    have hins' : ins.map Val.w = kb.args := by rw [hins, hb]; rfl
    simp only
    rw [hr, evalMBody_ofBody, expand_sound_partial kb ins hins' ht hc, hb, evalMBody_ofKBody]

/-- the DC18a witness is left unchanged by the fixed pattern -/
theorem dc18a_fixed_unchanged : lowerResultFixed dc18aBody.toMBody = dc18aBody.toMBody := by decide

/-- canonical single-kernel bodies are still expanded -/
theorem lower_fixed_fires (kb : KBody) (hp : kb.kernel.isParsable = true) (hc : kb.canonical = true) :
    lowerLinalgBodyFixed kb.toMBody = some (expand kb) := by
  simp [lowerLinalgBodyFixed, KBody.toMBody, hp, hc, expand]

/-! ## the pipeline `convert-linalg-to-kernel, convert-kernel-to-linalg` -/

/-- `pipeline_preserves`: recognition followed by expansion (one body, both patterns as they are in /repo)
keeps the scalar function of every well-typed body — recognised or not, any ops, wiring, widths, inputs.
No typing hypothesis on the intermediate kernel op: it is derived (`recognize_preserves_welltyped`). -/
theorem pipeline_preserves (b : Body) (ins outs : List Val) (hev : evalBody b ins = some outs)
    (hyield : outs.map Val.w = [b.args.getLastD 0]) :
    evalMBody (pipelineRecognizeExpand b) ins = evalBody b ins := by
  unfold pipelineRecognizeExpand
  cases h : recognize true b with
  | none => exact evalMBody_ofBody b ins
  | some k =>
    obtain ⟨ht, hp⟩ := recognize_preserves_welltyped b k h ins outs hev hyield
    have hins := evalBody_some_widths hev
    obtain ⟨_, hlen⟩ := recognize_shape h
    have hne : b.args ≠ [] := by intro h0; rw [h0] at hlen; simp at hlen
    simp only
    rw [lower_fixed_preserves (toKernelForm b k).toMBody ins (by simpa [KBody.toMBody, toKernelForm] using hins) ?_,
      evalMBody_ofKBody, hp]
    intro kb hkb
    have := KBody.toMBody_inj hkb
    subst this
    simp only [toKernelForm]
    rw [take_append_getLastD b.args hne]
    exact ht

/-! ## non-vacuity: concrete inputs meeting the hypotheses -/

/-- i8 x i8 -> i32 mac written with both commutative ops swapped (`muli b a`, `addi prod out`) -/
def macSwapped : Body :=
  ⟨[8, 8, 32], [⟨.extsi, [.val 0], 32⟩, ⟨.extsi, [.val 1], 32⟩, ⟨.muli, [.val 4, .val 3], 32⟩,
                ⟨.addi, [.val 5, .val 2], 32⟩], [.val 6]⟩

example : recognize true macSwapped = some .mac := by decide
example : kernelTyped .mac macSwapped.args = true := by decide
example : kernelTyped .qmac [8, 8, 32, 32, 32] = true := by decide
-- recognize_preserves / region_spec on extremes: (-128) * (-128) + (2^31 - 1) wraps
example : evalBody macSwapped [⟨8, 0x80#8⟩, ⟨8, 0x80#8⟩, ⟨32, 0x7fffffff#32⟩] = some [⟨32, 0x80003fff#32⟩] := by decide
example : evalKBody (toKernelForm macSwapped .mac) [⟨8, 0x80#8⟩, ⟨8, 0x80#8⟩, ⟨32, 0x7fffffff#32⟩] =
    some [⟨32, 0x80003fff#32⟩] := by decide
-- miswired_left_alone: same op kinds as mac, subtraction order swapped in a qmac-like body is not recognised
example : recognize true
    ⟨[8, 8, 32, 32, 32], [⟨.extsi, [.val 0], 32⟩, ⟨.subi, [.val 2, .val 5], 32⟩, ⟨.extsi, [.val 1], 32⟩,
      ⟨.subi, [.val 7, .val 3], 32⟩, ⟨.muli, [.val 6, .val 8], 32⟩, ⟨.addi, [.val 4, .val 9], 32⟩], [.val 10]⟩ = none := by
  decide
-- expand_sound_partial
example : (toKernelForm macSwapped .mac).canonical = true := by decide
-- dispatch_kind_partial
example : dispatch [aluAcc, gemmxAcc] .mac [8, 8, 32] true = .ok (some "snax_gemmx") := by
  simp [dispatch, findAcc, matchSupported, aluAcc, gemmxAcc]
-- dispatch_unsupported
example : ∀ a ∈ [aluAcc], ∀ sk ∈ a.supported, sk.kind ≠ .mac := by decide
-- rescale_expand_partial / rescale_body_eval
def rescaleEx : RescaleParams := ⟨23, -15, [1140768826], [47], 100, -110, false⟩
example : rescaleWf rescaleEx := by decide
example : noOverflow rescaleEx 47 1140768826 (BitVec.ofInt 32 (-8737248)) := by decide
example : (rescaleBody rescaleEx [32, 8]).isSome = true := by decide
example : rescaleExpand rescaleEx (BitVec.ofInt 32 (-8737248)) = some (BitVec.ofInt 8 (-86)) := by decide

-- fixed rescale: double rounding, i8 -> i32 (rescale up) and i32 -> i8, per-channel left alone
def rescaleExDr : RescaleParams := ⟨0, 0, [1140768826], [47], 127, -128, true⟩
example : rescaleWf rescaleExDr := by decide
example : uniformParam rescaleExDr.shift = some 47 ∧ uniformParam rescaleExDr.multiplier = some 1140768826 := by decide
example : rescaleExpandFixed rescaleExDr (BitVec.ofInt 32 (-8737248)) 8 = some (BitVec.ofInt 8 (-72)) := by decide
example : rescaleExpandFixed rescaleExDr (BitVec.ofInt 32 (-8737248)) 8 =
    (rescaleSpec rescaleExDr 0 (BitVec.ofInt 32 (-8737248))).map (BitVec.signExtend 8) := by decide
example : (rescaleBodyFixed rescaleExDr [8, 32]).isSome = true := by decide
example : rescaleBodyFixed ⟨0, 0, [1, 2], [1, 1], 127, -128, false⟩ [32, 8] = none := by decide

-- recognize_preserves_welltyped
example : evalBody macSwapped [⟨8, 0x80#8⟩, ⟨8, 0x80#8⟩, ⟨32, 0x7fffffff#32⟩] = some [⟨32, 0x80003fff#32⟩] ∧
    [⟨32, 0x80003fff#32⟩].map Val.w = [macSwapped.args.getLastD 0] := by decide

-- pipeline_preserves
example : pipelineRecognizeExpand macSwapped = (equivalentRegion .mac [8, 8, 32]).toMBody := by decide

-- recognize_dict_sound
example : recognizeDict macSwapped = some .mac := by decide

end SnaxVerif.C18
