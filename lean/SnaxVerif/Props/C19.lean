import SnaxVerif.Lemmas.Affine
/-!
# C19 — canonical forms and alternative representations denote the same object

Statements and theorems only; helper lemmas live in `Lemmas/`.
-/
namespace SnaxVerif.C19
open SnaxVerif AExpr

/-- Canonicalising an affine expression preserves its value on every input on which the original
evaluates (Python: does not raise `ZeroDivisionError`), for every expression over
`+ * floordiv mod ceildiv`, every depth, and every amount of fuel that suffices. -/
theorem canon_sound (fuel : Nat) (e r : AExpr) (h : canon fuel e = some r)
    (env : Nat → Int) (v : Int) (hv : e.eval env = some v) : r.eval env = some v :=
  canon_refines fuel e r h env v hv

/-- Canonicalisation is idempotent: the result is a fixed point, with the same or any larger fuel. -/
theorem canon_idem (fuel fuel' : Nat) (e r : AExpr) (h : canon fuel e = some r) (hle : fuel ≤ fuel') :
    canon fuel' r = some r :=
  canon_mono_le hle (canon_fixed fuel e r h)

/-- The answer does not depend on the fuel once there is enough of it (so the fuelled model and
the unfuelled Python recursion agree whenever the model answers). -/
theorem canon_fuel_irrelevant (f f' : Nat) (e r r' : AExpr)
    (h : canon f e = some r) (h' : canon f' e = some r') : r = r' := by
  rcases Nat.le_total f f' with hle | hle
  · have := canon_mono_le hle h; rw [this] at h'; exact Option.some.inj h'
  · have := canon_mono_le hle h'; rw [this] at h; exact (Option.some.inj h).symm

/-- Whole maps: same number of results and every result expression is preserved. -/
theorem canonMap_sound (fuel : Nat) (rs rs' : List AExpr) (h : canonMap fuel rs = some rs')
    (env : Nat → Int) :
    rs'.length = rs.length ∧
    ∀ (i : Nat) (e r : AExpr), rs[i]? = some e → rs'[i]? = some r →
      ∀ v : Int, e.eval env = some v → r.eval env = some v := by
  unfold canonMap at h
  induction rs generalizing rs' with
  | nil => simp at h; subst h; simp
  | cons e es ih =>
    rw [List.mapM_cons] at h
    cases he : canon fuel e with
    | none => simp [he] at h
    | some r =>
      cases hes : es.mapM (canon fuel) with
      | none => simp [he, hes] at h
      | some rs0 =>
        simp [he, hes] at h
        subst h
        obtain ⟨hlen, hall⟩ := ih rs0 hes
        refine ⟨by simp [hlen], ?_⟩
        intro i e' r' hi hi' v hv
        cases i with
        | zero =>
          simp at hi hi'; subst hi hi'
          exact canon_refines fuel e r he env v hv
        | succ i =>
          simp at hi hi'
          exact hall i e' r' hi hi' v hv

/-- Non-vacuity: a concrete non-trivial expression is canonicalised (and changed). -/
example : canon 10 (.bin .add (.const 1) (.bin .mul (.bin .add (.dim 1) (.dim 0)) (.const 2)))
    = some (.bin .add (.bin .mul (.dim 0) (.const 2)) (.bin .add (.bin .mul (.dim 1) (.const 2)) (.const 1))) := by
  decide

/-- The `% 1` rule is why the statement is a refinement and not an equality of partial functions:
`(d0 floordiv 0) mod 1` raises, its canonical form `0` does not. -/
example : (AExpr.bin .mod (.bin .fdiv (.dim 0) (.const 0)) (.const 1)).eval (fun _ => 3) = none ∧
    canon 5 (.bin .mod (.bin .fdiv (.dim 0) (.const 0)) (.const 1)) = some (.const 0) := by
  decide

end SnaxVerif.C19
