import SnaxVerif.Lemmas.Affine
import SnaxVerif.Lemmas.StridePattern
import SnaxVerif.Lemmas.StridePatternZ
import SnaxVerif.Lemmas.PackBits
import SnaxVerif.Lemmas.PackOps
import SnaxVerif.Lemmas.AffineTransform
import SnaxVerif.Lemmas.AttrSyntax
import SnaxVerif.Lemmas.AccessCanon
import SnaxVerif.Lemmas.AffineRoundTrip
import SnaxVerif.Lemmas.AffineCanonExtra
/-!
# C19 — canonical forms and alternative representations denote the same object

Statements and theorems only; helper lemmas live in `Lemmas/`.

Parts: (0) affine-expression canonicaliser, (1) `StridePattern.canonicalize`, (2) `pack_bitlist`,
(3) `AffineTransform` (matrix form), (4) attribute print -> parse round trips,
(5) `AccessPattern.canonicalize` / `inner_dims`.
-/
namespace SnaxVerif.C19
open SnaxVerif AExpr

/-- Canonicalising an affine expression preserves its value on every input on which the original
evaluates (Python: does not raise `ZeroDivisionError`), for every expression over
`+ * floordiv mod ceildiv`, every depth, and every amount of fuel that suffices. -/
theorem canon_sound (fuel : Nat) (e r : AExpr) (h : canon fuel e = some r)
    (env : Nat → Int) (v : Int) (hv : e.eval env = some v) : r.eval env = some v :=
  canon_refines fuel e r h env v hv

/-- Canonicalisation is idempotent: the result is a fixed point, with the same or any larger fuel. -/
theorem canon_idem (fuel fuel' : Nat) (e r : AExpr) (h : canon fuel e = some r) (hle : fuel ≤ fuel') :
    canon fuel' r = some r :=
  canon_mono_le hle (canon_fixed fuel e r h)

/-- The answer does not depend on the fuel once there is enough of it (so the fuelled model and
the unfuelled Python recursion agree whenever the model answers). -/
theorem canon_fuel_irrelevant (f f' : Nat) (e r r' : AExpr)
    (h : canon f e = some r) (h' : canon f' e = some r') : r = r' := by
  rcases Nat.le_total f f' with hle | hle
  · have := canon_mono_le hle h; rw [this] at h'; exact Option.some.inj h'
  · have := canon_mono_le hle h'; rw [this] at h; exact (Option.some.inj h).symm

/-- Whole maps: same number of results and every result expression is preserved. -/
theorem canonMap_sound (fuel : Nat) (rs rs' : List AExpr) (h : canonMap fuel rs = some rs')
    (env : Nat → Int) :
    rs'.length = rs.length ∧
    ∀ (i : Nat) (e r : AExpr), rs[i]? = some e → rs'[i]? = some r →
      ∀ v : Int, e.eval env = some v → r.eval env = some v := by
  unfold canonMap at h
  induction rs generalizing rs' with
  | nil => simp at h; subst h; simp
  | cons e es ih =>
    rw [List.mapM_cons] at h
    cases he : canon fuel e with
    | none => simp [he] at h
    | some r =>
      cases hes : es.mapM (canon fuel) with
      | none => simp [he, hes] at h
      | some rs0 =>
        simp [he, hes] at h
        subst h
        obtain ⟨hlen, hall⟩ := ih rs0 hes
        refine ⟨by simp [hlen], ?_⟩
        intro i e' r' hi hi' v hv
        cases i with
        | zero =>
          simp at hi hi'; subst hi hi'
          exact canon_refines fuel e r he env v hv
        | succ i =>
          simp at hi hi'
          exact hall i e' r' hi hi' v hv

/-- Non-vacuity: a concrete non-trivial expression is canonicalised (and changed). -/
example : canon 10 (.bin .add (.const 1) (.bin .mul (.bin .add (.dim 1) (.dim 0)) (.const 2)))
    = some (.bin .add (.bin .mul (.dim 0) (.const 2)) (.bin .add (.bin .mul (.dim 1) (.const 2)) (.const 1))) := by
  decide

/-- The `% 1` rule is why the statement is a refinement and not an equality of partial functions:
`(d0 floordiv 0) mod 1` raises, its canonical form `0` does not. -/
example : (AExpr.bin .mod (.bin .fdiv (.dim 0) (.const 0)) (.const 1)).eval (fun _ => 3) = none ∧
    canon 5 (.bin .mod (.bin .fdiv (.dim 0) (.const 0)) (.const 1)) = some (.const 0) := by
  decide


/-- The guard that fix F18 put in front of the operand swap of `canonicalize_addition` ("xdsl already
simplified the sum: return new_expr") can never fire: after the constant has been moved to the right
and the swap test holds, neither operand is a constant, so the smart `+` returns a plain `Add`.
(No generated case reaches that line; this is why.) -/
theorem canonAdd_swap_guard_dead (l r : AExpr) (h : ¬ (l.isConst = true ∧ r.isConst = true))
    (hre : addReorder (constRight l r).1 (constRight l r).2 = true) :
    smartAdd (constRight l r).2 (constRight l r).1 = .bin .add (constRight l r).2 (constRight l r).1 :=
  addOrder_swap_is_add _ _ (constRight_fst_nonconst l r h) hre

/-! ## (1) `StridePattern.canonicalize` -/

/-- The loop of `StridePattern.canonicalize` preserves the flattened temporal address sequence (as a
list: same addresses, same order, same multiplicity), for every loop nest: any rank, zero bounds, unit
bounds, zero / negative strides. (Bounds are naturals; negative bounds are outside the model.) -/
theorem spCanon_seq (p : List Stride.Loop) : Stride.offs (Stride.canonLoops p) = Stride.offs p :=
  Stride.canonLoops_offs p

/-- … and it is idempotent. -/
theorem spCanon_idem (p : List Stride.Loop) :
    Stride.canonLoops (Stride.canonLoops p) = Stride.canonLoops p :=
  Stride.canonLoops_idem p

/-- The guard: a pattern with a zero spatial stride is returned unchanged. -/
theorem stridePattern_guard (p : Stride.Pattern) (h : (0 : Int) ∈ p.ss) : p.canonicalize = p := by
  unfold Stride.Pattern.canonicalize; rw [if_pos h]

/-- The attribute-level statement: with or without the guard firing, the canonical pattern denotes the
same temporal address sequence and keeps the spatial strides. -/
theorem stridePattern_canon_seq (p : Stride.Pattern) :
    p.canonicalize.addrs = p.addrs ∧ p.canonicalize.ss = p.ss := by
  by_cases h : (0 : Int) ∈ p.ss
  · rw [stridePattern_guard p h]; exact ⟨rfl, rfl⟩
  · refine ⟨?_, ?_⟩
    · unfold Stride.Pattern.addrs
      rw [Stride.canonicalize_loops p h, Stride.canonLoops_offs]
    · unfold Stride.Pattern.canonicalize; rw [if_neg h]

theorem stridePattern_canon_idem (p : Stride.Pattern) :
    p.canonicalize.canonicalize = p.canonicalize := by
  have key : ∀ q : Stride.Pattern, (0 : Int) ∉ q.ss → q.canonicalize =
      { ub := (Stride.canonLoops q.loops).unzip.1, ts := (Stride.canonLoops q.loops).unzip.2, ss := q.ss } := by
    intro q hq; unfold Stride.Pattern.canonicalize; rw [if_neg hq]
  by_cases h : (0 : Int) ∈ p.ss
  · rw [stridePattern_guard p h, stridePattern_guard p h]
  · have hl := Stride.canonicalize_loops p h
    have hss : p.canonicalize.ss = p.ss := (stridePattern_canon_seq p).2
    have h' : (0 : Int) ∉ p.canonicalize.ss := by rw [hss]; exact h
    rw [key p.canonicalize h', hl, Stride.canonLoops_idem, hss, key p h]

/-- Shape of the canonical form: it verifies (equal lengths), has no unit bound, and every zero bound
carries stride 0. -/
theorem stridePattern_canon_shape (p : Stride.Pattern) (h : (0 : Int) ∉ p.ss) :
    p.canonicalize.verify = true ∧
    ∀ x ∈ p.canonicalize.loops, x.1 ≠ 1 ∧ (x.1 = 0 → x.2 = 0) := by
  refine ⟨?_, ?_⟩
  · unfold Stride.Pattern.canonicalize; rw [if_neg h]
    simp [Stride.Pattern.verify]
  · rw [Stride.canonicalize_loops p h]
    intro x hx
    unfold Stride.canonLoops at hx
    exact Stride.fixed_shape _ (Stride.foldl_step_fixed p.loops [] trivial) x (List.mem_reverse.mp hx)

/-- Non-vacuity: unit bound dropped, two loops merged, zero bound kept with stride 0, sequence equal. -/
example : Stride.canonLoops [(4, 2), (1, 7), (3, 8), (2, 100), (0, 5)] = [(12, 2), (2, 100), (0, 0)] := by
  decide
example : Stride.offs [(2, 1), (1, 7), (3, 2)] = [0, 1, 2, 3, 4, 5] ∧
    Stride.canonLoops [(2, 1), (1, 7), (3, 2)] = [(6, 1)] := by decide
example : (Stride.Pattern.mk [2, 3] [1, 2] [0, 8]).canonicalize = Stride.Pattern.mk [2, 3] [1, 2] [0, 8] := by
  decide

/-! ### (1, second deepening) the loop over integer bounds -/

open Stride in
/-- The Python loop run on `IntAttr` bounds (`stepZ`, nothing refuses a negative bound) is the
natural-bound model on the property's domain: for non-negative bounds the canonical loops are the
same, hence the address sequence is preserved … -/
theorem spCanonZ_seq (p : List LoopZ) (nonneg : ∀ x ∈ p, 0 ≤ x.1) : offsZ (canonLoopsZ p) = offsZ p := by
  obtain ⟨q, rfl⟩ := exists_nat_of_nonneg p nonneg
  rw [canonLoopsZ_toZ, offsZ_toZ, offsZ_toZ, canonLoops_offs]

open Stride in
/-- … and canonicalisation is idempotent. -/
theorem spCanonZ_idem (p : List LoopZ) (nonneg : ∀ x ∈ p, 0 ≤ x.1) :
    canonLoopsZ (canonLoopsZ p) = canonLoopsZ p := by
  obtain ⟨q, rfl⟩ := exists_nat_of_nonneg p nonneg
  rw [canonLoopsZ_toZ, canonLoopsZ_toZ, canonLoops_idem]

open Stride in
theorem spCanonZ_agrees (q : List Loop) : canonLoopsZ (q.map toZ) = (canonLoops q).map toZ :=
  canonLoopsZ_toZ q

/-- Outside the property's quantifier (a negative trip count means nothing to the streamer's loop
counters, which are unsigned): on negative bounds the loop merges `(-1, 3), (-1, -3)` into `(1, 3)` —
an empty nest becomes a one-point nest — and a second pass removes it. Modelled, compared with the real
code on every run, not claimed. -/
example : Stride.canonLoopsZ [(-1, 3), (-1, -3)] = [(1, 3)] ∧ Stride.canonLoopsZ [(1, 3)] = [] ∧
    Stride.offsZ [(-1, 3), (-1, -3)] = [] ∧ Stride.offsZ [(1, 3)] = [0] := by decide

/-! ## (2) `pack_bitlist` -/
open Pack in
theorem pack_eq_fold (vs os : List Nat) (t : Tree) (h : pack vs os = .ok (some t)) :
    t.eval = (List.zipWith (· <<< ·) vs os).foldl (· ||| ·) 0 := by
  unfold pack at h
  cases hs : shifted vs os with
  | none => simp [hs] at h
  | some l =>
    simp only [hs, Except.ok.injEq] at h
    cases l with
    | nil => simp [orLoop] at h
    | cons a l =>
      obtain ⟨t', ht', hv⟩ := orLoop_spec (a :: l).length (a :: l) (by simp) (by simp)
      rw [ht'] at h
      simp at h
      subst h
      rw [hv, shifted_eval vs os _ hs]
      rfl

open Pack in
/-- `pack_bitlist` raises exactly on unequal lengths (strict zip), emits nothing for empty lists and
one tree otherwise. -/
theorem pack_total (vs os : List Nat) :
    (vs.length ≠ os.length → pack vs os = .error .lengthMismatch) ∧
    (vs.length = os.length → vs ≠ [] → ∃ t, pack vs os = .ok (some t)) ∧
    pack [] [] = .ok none := by
  refine ⟨fun h => ?_, fun h hne => ?_, rfl⟩
  · unfold pack; rw [(shifted_none_iff vs os).mpr h]
  · unfold pack
    cases hs : shifted vs os with
    | none => exact absurd h ((shifted_none_iff vs os).mp hs)
    | some l =>
      have hl := (shifted_length vs os l hs).1
      have hne' : l ≠ [] := by
        intro hc; subst hc
        exact hne (List.length_eq_zero_iff.mp hl.symm)
      obtain ⟨t, ht, _⟩ := orLoop_spec l.length l hne' (Nat.le_succ _)
      exact ⟨t, by simp [ht]⟩

open Pack in
/-- Field extraction on the emitted tree: for pairwise disjoint fields whose values fit their widths,
field `i` is read back from the packed word by shift-and-mask. -/
theorem pack_extract (fs : List Field) (t : Tree)
    (h : pack (fs.map (·.v)) (fs.map (·.o)) = .ok (some t))
    (disjoint_clause : Disjoint fs) (inRange_clause : InRange fs) (i : Nat) (hi : i < fs.length) :
    (t.eval >>> fs[i].o) % 2 ^ fs[i].w = fs[i].v := by
  rw [pack_eq_fold _ _ t h]
  exact Pack.spec_extract fs disjoint_clause inRange_clause i hi

open Pack in
/-- `dtype`-bit machine arithmetic computes the same word when every field ends below bit `W`. -/
theorem pack_fits_width (fs : List Field) (t : Tree) (W : Nat)
    (h : pack (fs.map (·.v)) (fs.map (·.o)) = .ok (some t))
    (inRange_clause : InRange fs) (fits_clause : ∀ f ∈ fs, f.o + f.w ≤ W) :
    t.evalW W = t.eval := by
  rw [evalW_eq, Nat.mod_eq_of_lt]
  rw [pack_eq_fold _ _ t h]
  exact Pack.spec_lt fs inRange_clause W fits_clause

/-- Without disjointness extraction fails (why the clause is there): two overlapping fields. -/
theorem pack_extract_overlap_fails :
    ¬ ∀ (fs : List Pack.Field) (t : Pack.Tree), Pack.pack (fs.map (·.v)) (fs.map (·.o)) = .ok (some t) →
      Pack.InRange fs → ∀ (i : Nat) (hi : i < fs.length), (t.eval >>> fs[i].o) % 2 ^ fs[i].w = fs[i].v := by
  intro h
  have := h [⟨1, 0, 2⟩, ⟨1, 1, 2⟩] (.or (.shl 1 0) (.shl 1 1)) (by rfl)
    (by intro f hf; simp at hf; rcases hf with rfl | rfl <;> decide) 0 (by decide)
  revert this
  decide

/-- Non-vacuity: the gemmx word `[min, max, zp_out, zp_in]` at offsets `[24, 16, 8, 0]`; the tree is
`(v0 | v1) | (v2 | v3)` (queue order: for three values it is `v2 | (v0 | v1)`), its value the OR of the shifted fields. -/
example : Pack.pack [0x80, 0x7f, 5, 3] [24, 16, 8, 0]
    = .ok (some (.or (.or (.shl 0x80 24) (.shl 0x7f 16)) (.or (.shl 5 8) (.shl 3 0)))) := by rfl
example : Pack.pack [1, 2, 3] [0, 4, 8] = .ok (some (.or (.shl 3 8) (.or (.shl 1 0) (.shl 2 4)))) := by rfl
example : Pack.Disjoint [⟨0x80, 24, 8⟩, ⟨0x7f, 16, 8⟩, ⟨5, 8, 8⟩, ⟨3, 0, 8⟩] := by
  intro i j hi hj hij
  simp at hi hj
  have : i = 0 ∨ i = 1 ∨ i = 2 ∨ i = 3 := by omega
  have : j = 0 ∨ j = 1 ∨ j = 2 ∨ j = 3 := by omega
  rcases ‹i = 0 ∨ _› with rfl | rfl | rfl | rfl <;> rcases ‹j = 0 ∨ _› with rfl | rfl | rfl | rfl <;> simp at hij ⊢

/-! ### (2, second deepening) the emitted operation LIST -/

open Pack in
/-- The operation list `pack_bitlist` yields (constants for Python ints, nothing for SSA values passed
in, one `shli` per field, then the queue of `ori`), executed in order from nothing: every operand is
defined before it is used, one value per operation, and the value of the LAST operation is the OR of
all shifted fields — for every number of fields and every mixture of ints and SSA values. -/
theorem pack_ops_exec (vs os : List Src) (ops : List Op) (h : emit vs os = .ok ops) (hne : vs ≠ []) :
    ∃ env, execFrom [] ops = some env ∧ env.length = ops.length ∧
      env.getLast? = some (spec (vs.map Src.content) (os.map Src.content)) :=
  emit_exec' vs os ops h hne

open Pack in
/-- … which is the value of the expression tree of `Model/PackBits.lean` (so `pack_extract` and
`pack_fits_width` speak about the last emitted operation). -/
theorem pack_ops_tree (vs os : List Src) (ops : List Op) (t : Tree) (h : emit vs os = .ok ops) (hne : vs ≠ [])
    (ht : pack (vs.map Src.content) (os.map Src.content) = .ok (some t)) :
    ∃ env, execFrom [] ops = some env ∧ env.getLast? = some t.eval := by
  obtain ⟨env, h1, _, h3⟩ := emit_exec' vs os ops h hne
  exact ⟨env, h1, by rw [h3, pack_eq_fold _ _ t ht]; rfl⟩

open Pack in
theorem pack_ops_total (vs os : List Src) :
    (vs.length ≠ os.length → emit vs os = .error .lengthMismatch) ∧
    (vs.length = os.length → ∃ ops, emit vs os = .ok ops) ∧ emit [] [] = .ok [] := by
  refine ⟨fun h => by unfold emit; rw [if_pos h], fun h => ⟨_, by unfold emit; rw [if_neg (fun hc => hc h)]⟩, rfl⟩

/-- Non-vacuity: an int value at an SSA offset, an SSA value at an int offset, and an int/int pair:
offset constant first, then the value constant, then the shift; the queue ORs 0|1 first, then 2|(0|1). -/
example : Pack.emit [.lit 5, .ext 3, .lit 1] [.ext 8, .lit 4, .lit 0]
    = .ok [.const 5, .shl (.op 0) (.ext 8), .const 4, .shl (.ext 3) (.op 2), .const 0, .const 1, .shl (.op 5) (.op 4),
           .or (.op 1) (.op 3), .or (.op 6) (.op 7)] := by rfl
example : Pack.execFrom [] [.const 5, .shl (.op 0) (.ext 8), .const 4, .shl (.ext 3) (.op 2), .const 0, .const 1,
      .shl (.op 5) (.op 4), .or (.op 1) (.op 3), .or (.op 6) (.op 7)]
    = some [5, 1280, 4, 48, 0, 1, 1, 1328, 1329] := by decide

/-! ## (3) AffineTransform -/
open AT in
/-- `to_affine_map`: result `i` of the built map evaluates to `(A·x + b)[i]`, for every matrix, vector
and point (no shape hypothesis: both sides truncate alike). -/
theorem toMap_eval (t : Transform) (x : List Int) :
    t.toMap.map (fun e => e.eval (envOf x)) = (vecAdd (matVec t.A x) t.b).map some := by
  unfold Transform.toMap vecAdd matVec
  generalize t.A = A
  generalize t.b = b
  induction A generalizing b with
  | nil => simp
  | cons row A ih =>
    cases b with
    | nil => simp
    | cons b0 b =>
      simp only [List.zipWith_cons_cons, List.map_cons, toMapRow_eval, ih b]

open AT in
theorem compose_eval (s o c : Transform) (hc : s.compose o = .ok c)
    (ho : ∀ r ∈ o.A, r.length = o.nd)
    (hsb : s.A.length = s.b.length) (hob : o.A.length = o.b.length)
    (x : List Int) :
    c.eval x = (o.eval x).bind s.eval := by
  unfold Transform.compose at hc
  split at hc
  · cases hc
  · next hnd =>
    injection hc with hc
    subst hc
    have hnd' : s.nd = o.A.length := Decidable.of_not_not hnd
    unfold Transform.eval
    simp only []
    by_cases hx : x.length = o.nd
    · have hlen : (vecAdd (matVec o.A x) o.b).length = s.nd := by
        simp [vecAdd, matVec, hnd', hob]
      simp only [hx, ne_eq, not_true_eq_false, if_false, Except.bind, hlen]
      congr 1
      unfold matMul matVec
      -- row by row
      have hrow : ∀ r ∈ s.A, dot ((List.range o.nd).map fun j => dot r (col o.A j)) x + dot r o.b
          = dot r (vecAdd (o.A.map (dot · x)) o.b) := by
        intro r _
        rw [dot_matMul_row o.nd x hx r o.A ho, dot_vecAdd_right]
        · rfl
        · simp [hob]
      generalize s.b = sb at hsb ⊢
      revert hrow
      generalize s.A = sA at hsb ⊢
      intro hrow
      induction sA generalizing sb with
      | nil => simp [vecAdd]
      | cons r sA ih =>
        cases sb with
        | nil => simp at hsb
        | cons b0 sb =>
          simp only [vecAdd, List.map_cons, List.zipWith_cons_cons, List.cons.injEq]
          constructor
          · have := hrow r List.mem_cons_self
            simp only [vecAdd] at this
            rw [← this]
            omega
          · exact ih sb (by simpa using hsb) (fun r' hr' => hrow r' (List.mem_cons_of_mem _ hr'))
    · simp [hx, Except.bind]


/-- The full statement (false: a raw product of two dimensions is accepted and mis-converted). -/
def fromMap_statement : Prop :=
  ∀ (n : Nat) (rs : List AExpr) (t : AT.Transform), AT.fromMap n rs = .ok t →
    ∀ x : List Int, x.length = n →
      (t.eval x).toOption.map (·.map some) = some (rs.map fun e => e.eval (AT.envOf x))

open AT in
/-- clause `mulConstSide`: every product has a dimension-free side. -/
theorem fromMap_linear_partial (n : Nat) (rs : List AExpr) (t : Transform) (h : fromMap n rs = .ok t)
    (mulConstSide_clause : ∀ e ∈ rs, mulConstSide e = true)
    (x : List Int) (hx : x.length = n) :
    (t.eval x).toOption.map (·.map some) = some (rs.map fun e => e.eval (envOf x)) := by
  obtain ⟨hchk, _, _⟩ := AT.fromMap_checks n rs t h
  unfold fromMap at h
  split at h
  · cases h
  · split at h
    · cases h
    · injection h with h
      subst h
      simp only [Transform.eval, hx, ne_eq, not_true_eq_false, if_false, Except.toOption,
        Option.map_some, Option.some.injEq]
      unfold vecAdd matVec
      rw [List.map_map, List.zipWith_map_left, List.zipWith_map_right, List.zipWith_self, List.map_map]
      apply List.map_congr_left
      intro e he
      simp only [Function.comp]
      exact (fromMap_row n e (hchk e he).1 (mulConstSide_clause e he) (hchk e he).2 x hx).symm

theorem fromMap_nonlinear_fails : ¬ fromMap_statement := by
  intro h
  have := h 2 [.bin .mul (.dim 0) (.dim 1)] ⟨2, [[0, 0]], [0]⟩ (by rfl) [2, 3] rfl
  revert this
  decide


/-- Non-vacuity: `[[1,2],[0,3]]·x + [5,-1]` as a map, composition, and the matrix of a map. -/
example : (AT.Transform.mk 2 [[1, 2], [0, 3]] [5, -1]).toMap
    = [.bin .add (.bin .add (.dim 0) (.const 5)) (.bin .mul (.dim 1) (.const 2)),
       .bin .add (.bin .mul (.dim 1) (.const 3)) (.const (-1))] := by decide
example : (AT.Transform.mk 2 [[1, 2], [0, 3]] [5, -1]).compose (AT.Transform.mk 1 [[2], [1]] [1, 0])
    = .ok (AT.Transform.mk 1 [[4], [3]] [6, -1]) := by rfl
example : AT.fromMap 2 [.bin .add (.bin .mul (.const 3) (.bin .add (.dim 1) (.const 2))) (.dim 0)]
    = .ok (AT.Transform.mk 2 [[1, 3]] [6]) := by rfl
example : AT.mulConstSide (.bin .add (.bin .mul (.const 3) (.bin .add (.dim 1) (.const 2))) (.dim 0)) = true := by
  decide

/-! ### (3, deepening) round trip, shapes, batch `eval`, `__eq__` -/

open AT in
/-- `from_affine_map(to_affine_map(t)) = t` for every well-formed transform (any shape, any entries,
zero coefficients included). -/
theorem fromMap_toMap (t : Transform) (hwf : t.wf = true) : fromMap t.nd t.toMap = .ok t :=
  fromMap_toMap' t hwf

open AT in
/-- `from_affine_map` and `compose` produce well-formed transforms … -/
theorem fromMap_wf (n : Nat) (rs : List AExpr) (t : Transform) (h : fromMap n rs = .ok t) :
    t.wf = true ∧ t.nd = n ∧ t.b.length = rs.length := by
  obtain ⟨_, h2, h3⟩ := fromMap_checks n rs t h
  refine ⟨h3, h2, ?_⟩
  unfold fromMap at h
  split at h
  · cases h
  · split at h
    · cases h
    · injection h with h; subst h; simp

open AT in
theorem compose_wf (s o c : Transform) (hs : s.wf = true) (hc : s.compose o = .ok c) : c.wf = true :=
  compose_wf' s o c hs hc

open AT in
/-- … so the shape hypotheses of `compose_eval` are discharged by well-formedness alone. -/
theorem compose_eval_wf (s o c : Transform) (hs : s.wf = true) (ho : o.wf = true)
    (hc : s.compose o = .ok c) (x : List Int) : c.eval x = (o.eval x).bind s.eval := by
  obtain ⟨hsl, _⟩ := (wf_iff s).mp hs
  obtain ⟨hol, hor⟩ := (wf_iff o).mp ho
  exact compose_eval s o c hc hor hsl hol x

open AT in
/-- batch `eval` (2-D `x`) is `eval` on every row -/
theorem evalBatch_eq (t : Transform) (xs : List (List Int)) (h : ∀ x ∈ xs, x.length = t.nd) :
    t.evalBatch xs t.nd = xs.mapM t.eval :=
  evalBatch_mapM t xs h

/-- The full statement for `AffineTransform.__eq__`: it never raises and two transforms that compare
equal are the same. False on the unchanged tree (finding DC19b: numpy broadcasting). -/
def affineEq_statement : Prop :=
  ∀ s o : AT.Transform, s.wf = true → o.wf = true →
    (∃ r, s.eqNp o = .ok r) ∧ (s.eqNp o = .ok true → s = o)

open AT in
/-- clause `sameShape_clause`: equal numbers of rows and columns. -/
theorem affineEq_sameShape_partial (s o : Transform) (hs : s.wf = true) (ho : o.wf = true)
    (sameShape_clause : s.nd = o.nd ∧ s.A.length = o.A.length) :
    s.eqNp o = .ok (decide (s = o)) :=
  eqNp_sameShape s o hs ho sameShape_clause.1 sameShape_clause.2

/-- DC19b: a 1x2 and a 2x2 transform with equal rows compare equal. -/
theorem affineEq_broadcast_fails : ¬ affineEq_statement := by
  intro h
  have := (h ⟨2, [[1, 2]], [0]⟩ ⟨2, [[1, 2], [1, 2]], [0, 0]⟩ (by decide) (by decide)).2 (by rfl)
  revert this
  decide

/-- DC19b, second symptom: incompatible shapes raise instead of comparing unequal. -/
example : (AT.Transform.mk 3 [[1, 2, 3]] [0]).eqNp (AT.Transform.mk 2 [[1, 2]] [0]) = .error .valueError := by rfl

open AT in
/-- with fix FC19b (`np.array_equal`) `__eq__` decides equality of transforms, hence of their values -/
theorem affineEqFixed_iff (s o : Transform) : s.eqFixed o = true ↔ s = o := eqFixed_iff s o

example : AT.fromMap 2 (AT.Transform.mk 2 [[1, 0], [-2, 3]] [5, 0]).toMap = .ok (AT.Transform.mk 2 [[1, 0], [-2, 3]] [5, 0]) := by
  rfl
example : (AT.Transform.mk 2 [[1, 2]] [5]).evalBatch [[1, 1], [2, 0]] 2 = .ok [[8], [7]] := by rfl

/-! ## (4) attribute print -> parse round trips (token level) -/

/-- `StridePattern`: parsing what was printed gives the attribute back, for all integer arrays (any
lengths, negative entries included) and whatever follows. -/
theorem stridePattern_roundtrip (p : Syntax.SPAttr) (rest : List Syntax.Tok) :
    Syntax.parseSP (Syntax.printSP p ++ rest) = some (p, rest) :=
  Syntax.parseSP_print p rest

/-- The parser AS IT IS (`parse_identifier("ub")`: any identifier is accepted as a key) still reads back
what the printer wrote … -/
theorem stridePatternLoose_roundtrip (p : Syntax.SPAttr) (rest : List Syntax.Tok) :
    Syntax.parseSPLoose (Syntax.printSP p ++ rest) = some (p, rest) :=
  Syntax.parseSPLoose_print p rest

/-- … but the full statement "the text it accepts is keyed `ub`, `ts`, `ss`" (= it accepts nothing the
keyword-checking parser refuses) is false of it: finding DC19c. -/
def stridePatternKeys_statement : Prop :=
  ∀ (toks : List Syntax.Tok) (x : Syntax.SPAttr × List Syntax.Tok),
    Syntax.parseSPLoose toks = some x → Syntax.parseSP toks = some x

/-- DC19c: `<ts = [4], ub = [1], ss = []>` is accepted and read BY POSITION as ub=[4], ts=[1]. -/
theorem stridePatternKeys_fails : ¬ stridePatternKeys_statement := by
  intro h
  have := h [.lt, .ident "ts", .eq, .lsq, .nat 4, .rsq, .comma, .ident "ub", .eq, .lsq, .nat 1, .rsq, .comma,
    .ident "ss", .eq, .lsq, .rsq, .gt] (⟨[4], [1], []⟩, []) (by decide)
  revert this
  decide

/-- With fix FC19c (`parse_keyword`) the parser is `parseSP`: it round-trips (`stridePattern_roundtrip`)
and everything it accepts the current parser accepts with the same result (no accepted text changes
meaning). -/
theorem stridePatternFixed_sub_loose (toks : List Syntax.Tok) (x : Syntax.SPAttr × List Syntax.Tok)
    (h : Syntax.parseSP toks = some x) : Syntax.parseSPLoose toks = some x :=
  Syntax.parseSP_sub_loose toks x h

/-- The full statement for streamer configurations (false on the unchanged tree: D16). `nonempty` is
the class invariant `assert len(streamers)`. -/
def streamerCfg_statement : Prop :=
  ∀ c : Syntax.Config, c.streamers ≠ [] → Syntax.parseCfg (Syntax.printCfg c) = some (c, [])

/-- What does hold for every configuration: everything but the system type survives. -/
theorem streamerCfg_roundtrip_modulo_sys (c : Syntax.Config) (nonempty : c.streamers ≠ []) :
    Syntax.parseCfg (Syntax.printCfg c) = some ({ c with sys := .regular }, []) := by
  have := Syntax.parseCfg_print c nonempty []
  simpa using this

/-- clause `regular_clause`: the system type is the default one. -/
theorem streamerCfg_roundtrip_partial (c : Syntax.Config) (nonempty : c.streamers ≠ [])
    (regular_clause : c.sys = .regular) :
    Syntax.parseCfg (Syntax.printCfg c) = some (c, []) := by
  rw [streamerCfg_roundtrip_modulo_sys c nonempty]
  obtain ⟨ss, sys⟩ := c
  simp only [] at regular_clause
  subst regular_clause
  rfl

/-- D16: an `xdma` configuration prints without its system type and parses back as `reg`. -/
theorem streamerCfg_xdma_fails : ¬ streamerCfg_statement := by
  intro h
  have := h ⟨[⟨.reader, [.normal], [8], [.memset]⟩], .xdma⟩ (by simp)
  revert this
  decide

/-- Non-vacuity: a two-streamer configuration with options, a reuse flag and two spatial dims. -/
example : Syntax.printCfg ⟨[⟨.reader, [.normal, .reuse], [8, 4], [.channelMask, .addressRemap]⟩,
      ⟨.writer, [], [], []⟩], .regular⟩
    = [.lt, .ident "r", .lsq, .ident "opts", .eq, .ident "c", .minus, .ident "a", .comma, .ident "temp", .eq,
       .ident "n", .minus, .ident "r", .comma, .ident "spat", .eq, .nat 8, .minus, .nat 4, .rsq, .comma,
       .ident "w", .lsq, .ident "temp", .eq, .comma, .ident "spat", .eq, .rsq, .gt] := by decide
example : Syntax.printSP ⟨[2, -3], [0], []⟩
    = [.lt, .ident "ub", .eq, .lsq, .nat 2, .comma, .minus, .nat 3, .rsq, .comma, .ident "ts", .eq, .lsq, .nat 0,
       .rsq, .comma, .ident "ss", .eq, .lsq, .rsq, .gt] := by decide

/-- With fix FC19-D16 (`system=xdma, ` printed unless the system type is the default) the round trip
holds for EVERY configuration: the full statement, no clause. -/
theorem streamerCfgFixed_roundtrip (c : Syntax.Config) (nonempty : c.streamers ≠ []) (rest : List Syntax.Tok) :
    Syntax.parseCfgFixed (Syntax.printCfgFixed c ++ rest) = some (c, rest) :=
  Syntax.parseCfgFixed_print c nonempty rest

/-- … and regular configurations print exactly as before the fix. -/
theorem streamerCfgFixed_regular_unchanged (c : Syntax.Config) (h : c.sys = .regular) :
    Syntax.printCfgFixed c = Syntax.printCfg c := by
  unfold Syntax.printCfgFixed Syntax.printCfg
  rw [h]; rfl

example : Syntax.printCfgFixed ⟨[⟨.reader, [.normal], [8], [.memset]⟩], .xdma⟩
    = [.lt, .ident "system", .eq, .ident "xdma", .comma, .ident "r", .lsq, .ident "opts", .eq, .ident "memset_ext",
       .comma, .ident "temp", .eq, .ident "n", .comma, .ident "spat", .eq, .nat 8, .rsq, .gt] := by decide

/-! ## (5) `AccessPattern.canonicalize` / `inner_dims` -/

open AP AT in
/-- On every point of the iteration box (static dims `0 <= x_i < b_i`, dynamic dims `0 <= x_i`, any
rank, any mixture of `None`, zero, unit, negative and larger bounds) the canonical pattern, applied to
the point with the removed coordinates deleted, is again inside its box and evaluates identically. -/
theorem accessCanon_eval (p : Pattern) (h : p.valid) (x : List Int) (hx : InBox p.bounds x) :
    InBox p.canonicalize.bounds (select (p.bounds.map keep) x) ∧
    p.canonicalize.t.eval (select (p.bounds.map keep) x) = p.t.eval x :=
  canonWith_eval keep keep_dropsZero p h x hx

open AP AT in
/-- `type(self)(bounds, pattern)` at the end of `canonicalize` never raises, and the result keeps the
class invariant. -/
theorem accessCanon_valid (p : Pattern) (h : p.valid) (hc : construct p.cls p.bounds p.t = .ok p) :
    p.canonicalize.valid ∧
    construct p.cls p.canonicalize.bounds p.canonicalize.t = .ok p.canonicalize :=
  canonWith_valid keep p h hc

open AP AT in
theorem accessCanon_idem (p : Pattern) (h : p.valid) : p.canonicalize.canonicalize = p.canonicalize :=
  canonWith_idem keep p h

/-- The full statement "the canonical pattern denotes the same accesses": every point of the original
box maps to a point of the canonical box with the same value AND every point of the canonical box comes
from a point of the original box. False on the unchanged tree (finding DC19a). -/
def accessCanon_statement : Prop :=
  ∀ p : AP.Pattern, p.valid →
    (∀ x, AP.InBox p.bounds x → AP.InBox p.canonicalize.bounds (AP.select (p.bounds.map AP.keep) x) ∧
      p.canonicalize.t.eval (AP.select (p.bounds.map AP.keep) x) = p.t.eval x) ∧
    (∀ y, AP.InBox p.canonicalize.bounds y → ∃ x, AP.InBox p.bounds x ∧ AP.select (p.bounds.map AP.keep) x = y)

open AP AT in
/-- clause `positive_clause`: every static bound is at least 1 (what `SchedulePattern` enforces). Then
the two boxes are in bijection (`select` / `embed`) and the values agree. -/
theorem accessCanon_onto_partial (p : Pattern) (h : p.valid) (positive_clause : DroppedPositive p.bounds)
    (y : List Int) (hy : InBox p.canonicalize.bounds y) :
    InBox p.bounds (embed (p.bounds.map keep) y) ∧
    select (p.bounds.map keep) (embed (p.bounds.map keep) y) = y ∧
    p.t.eval (embed (p.bounds.map keep) y) = p.canonicalize.t.eval y :=
  canonWith_onto keep keep_dropsZero p h (droppedPositiveBy_of keep p.bounds positive_clause) y hy

/-- DC19a: a dimension with static bound 0 is removed like a unit dimension; the empty iteration space
`(0, 4)` becomes the 4-point space `(4,)`. -/
theorem accessCanon_zero_bound_fails : ¬ accessCanon_statement := by
  intro h
  have hv : (AP.Pattern.mk .access [some 0, some 4] ⟨2, [[1, 2]], [0]⟩).valid := by
    refine ⟨rfl, ?_, rfl⟩
    intro r hr; simp at hr; subst hr; rfl
  obtain ⟨x, hx, _⟩ := (h _ hv).2 [0] (by simp [AP.Pattern.canonicalize, AP.Pattern.canonicalizeWith, AP.keep, AP.InBox])
  match x, hx with
  | x0 :: _ :: [], hx =>
    simp only [AP.InBox] at hx
    have := hx.2.1 0 rfl
    omega

open AP AT in
/-- `inner_dims(dim)` for `dim >= 1`: the result keeps the last `min dim rank` bounds, keeps the class
invariant, and evaluates like the original with all outer indices set to 0 — including the ValueError
for an index vector of the wrong length. -/
theorem innerDims_eval (p : Pattern) (h : p.valid) (dim : Int) (hd : 0 < dim) :
    ∃ q, p.innerDims dim = .ok q ∧ q.cls = p.cls ∧
      q.bounds = p.bounds.drop (p.bounds.length - dim.toNat) ∧ q.valid ∧
      ∀ y, q.t.eval y = p.t.eval (List.replicate (p.bounds.length - dim.toNat) 0 ++ y) := by
  obtain ⟨hn, hrows, hb⟩ := h
  unfold Pattern.innerDims
  rw [if_neg (by omega)]
  refine ⟨_, rfl, rfl, rfl, ⟨?_, ?_, by simp [hb]⟩, ?_⟩
  · simp only [List.length_drop]; omega
  · intro r hr
    simp only [List.mem_map] at hr
    obtain ⟨r0, hr0, rfl⟩ := hr
    simp only [List.length_drop, hrows r0 hr0]
  · intro y
    unfold Transform.eval
    simp only [List.length_append, List.length_replicate]
    by_cases hy : y.length = p.t.nd - (p.t.nd - dim.toNat)
    · have hy' : p.bounds.length - dim.toNat + y.length = p.t.nd := by omega
      rw [if_neg (fun hc => hc hy), if_neg (fun hc => hc hy')]
      congr 2
      unfold matVec
      rw [List.map_map]
      apply List.map_congr_left
      intro r _
      simp only [Function.comp]
      rw [hn, dot_drop]
    · have hy' : ¬ (p.bounds.length - dim.toNat + y.length = p.t.nd) := by omega
      rw [if_pos hy, if_pos hy']

open AP in
theorem innerDims_error (p : Pattern) (dim : Int) (hd : dim ≤ 0) : p.innerDims dim = .error .valueError := by
  unfold Pattern.innerDims; rw [if_pos hd]

/-- Non-vacuity: the seeded example `(None, 1, 4)`, a schedule, and `inner_dims`. -/
example : (AP.Pattern.mk .template [none, some 1, some 4] ⟨3, [[16, 7, 1], [1, 0, 0]], [3, 0]⟩).canonicalize
    = AP.Pattern.mk .template [none, some 4] ⟨2, [[16, 1], [1, 0]], [3, 0]⟩ := by decide
example : AP.InBox [none, some 1, some 4] [9, 0, 3] := by simp [AP.InBox]
example : (AP.Pattern.mk .schedule [some 2, some 1, some 8] ⟨3, [[1, 2, 3]], [5]⟩).innerDims 2
    = .ok (AP.Pattern.mk .schedule [some 1, some 8] ⟨2, [[2, 3]], [5]⟩) := by rfl
example : AP.construct .schedule [some 2, none] ⟨2, [], []⟩ = .error .typeError ∧
    AP.construct .schedule [some 0, none] ⟨2, [], []⟩ = .error .valueError ∧
    AP.construct .access [some 0] ⟨2, [], []⟩ = .error .valueError := ⟨rfl, rfl, rfl⟩

/-! ### (5, deepening) fix FC19a: `bound is None or bound != 1` -/

/-- the full statement, for the fixed `canonicalize` -/
def accessCanonFixed_statement : Prop :=
  ∀ p : AP.Pattern, p.valid →
    (∀ x, AP.InBox p.bounds x → AP.InBox p.canonicalizeFixed.bounds (AP.select (p.bounds.map AP.keepFixed) x) ∧
      p.canonicalizeFixed.t.eval (AP.select (p.bounds.map AP.keepFixed) x) = p.t.eval x) ∧
    (∀ y, AP.InBox p.canonicalizeFixed.bounds y →
      ∃ x, AP.InBox p.bounds x ∧ AP.select (p.bounds.map AP.keepFixed) x = y)

open AP in
/-- With fix FC19a the full statement holds: the boxes are in bijection and the values agree, for all
bounds (dynamic, zero, negative, unit, larger) — no clause. -/
theorem accessCanonFixed_holds : accessCanonFixed_statement := by
  intro p h
  refine ⟨fun x hx => canonWith_eval keepFixed keepFixed_dropsZero p h x hx, fun y hy => ?_⟩
  obtain ⟨h1, h2, _⟩ := canonWith_onto keepFixed keepFixed_dropsZero p h (droppedPositiveBy_keepFixed _) y hy
  exact ⟨_, h1, h2⟩

open AP in
theorem accessCanonFixed_idem (p : Pattern) (h : p.valid) :
    p.canonicalizeFixed.canonicalizeFixed = p.canonicalizeFixed :=
  canonWith_idem keepFixed p h

open AP in
theorem accessCanonFixed_valid (p : Pattern) (h : p.valid) (hc : construct p.cls p.bounds p.t = .ok p) :
    p.canonicalizeFixed.valid ∧
    construct p.cls p.canonicalizeFixed.bounds p.canonicalizeFixed.t = .ok p.canonicalizeFixed :=
  canonWith_valid keepFixed p h hc

open AP in
/-- On patterns without a static bound <= 0 (every SchedulePattern) the fix changes nothing. -/
theorem accessCanonFixed_same_on_positive (p : Pattern) (positive_clause : DroppedPositive p.bounds) :
    p.canonicalizeFixed = p.canonicalize := by
  have hk : ∀ b ∈ p.bounds, keepFixed b = keep b := by
    intro b hb
    cases b with
    | none => rfl
    | some n =>
      have := positive_clause _ hb n rfl
      simp only [keepFixed, keep]
      by_cases h1 : n = 1
      · subst h1; decide
      · have h2 : n > 1 := by omega
        simp [h1, h2]
  unfold Pattern.canonicalizeFixed Pattern.canonicalize Pattern.canonicalizeWith
  have hf : p.bounds.filter keepFixed = p.bounds.filter keep := List.filter_congr hk
  have hm : p.bounds.map keepFixed = p.bounds.map keep := List.map_congr_left hk
  simp only [hf, hm]

example : (AP.Pattern.mk .access [some 0, some 4] ⟨2, [[1, 2]], [0]⟩).canonicalizeFixed
    = AP.Pattern.mk .access [some 0, some 4] ⟨2, [[1, 2]], [0]⟩ := by decide

/-- constructing from an `AffineMap`: the map is converted first (its errors surface), then the lengths
are compared. -/
example : AP.constructFromMap .template [none, some 4] 2 [.bin .add (.bin .mul (.dim 0) (.const 16)) (.dim 1)]
    = .ok (AP.Pattern.mk .template [none, some 4] ⟨2, [[16, 1]], [0]⟩) := by rfl
example : AP.constructFromMap .access [some 4] 1 [.bin .mod (.dim 0) (.const 2)] = .error .valueError ∧
    AP.constructFromMap .access [some 4] 1 [.dim 3] = .error .indexError := ⟨rfl, rfl⟩

end SnaxVerif.C19
