import SnaxVerif.Lemmas.PipelineProgram
/-! # C15 — pipelined double-buffered loops equal the sequential loop

Model: `Model/Pipeline.lean` (the three passes WITH fixes F16 and FC15b). `Prog` = stages after PipelineDuplicateBuffers; an event
`⟨k, o, n⟩` = op `o` of stage `k` on iteration `n`; `exec p true` runs events with parity-selected buffers, `exec p false`
with the original single buffers. -/
namespace SnaxVerif.C15
open SnaxVerif.Pipeline

/-- The property at full strength (NOT proved, refuted in three ways below): whenever the passes pipeline a loop, every
barrier-respecting schedule of the unrolled program ends with every location holding what the ORIGINAL loop (single
buffers, sequential order) leaves there. -/
def C15_statement : Prop :=
  ∀ (l : Loop) (tiles : List (Nat × Nat × Bool)) (st : List (List SOp)) (tr : List Tok) (u : Unrolled) (N : Nat) (sched : List Ev),
    run l = .ok (.pipelined st tr u) → l.ub = some (N : Int) → Schedule ⟨tiles, st⟩ N sched →
    tr = [] ∧ ∀ x, exec ⟨tiles, st⟩ true sched initMem x = exec ⟨tiles, st⟩ false (seqEvents ⟨tiles, st⟩ N) initMem x

/-- F16: facts established by ConstructPipeline itself for every loop it accepts -/
theorem accepted_bounds {l : Loop} {p : Pipe} (h : construct l = .ok (some p)) :
    l.lb = some 0 ∧ l.step = some 1 ∧ 2 ≤ p.stages.length ∧ ∃ ub : Int, l.ub = some ub ∧ (p.stages.length : Int) - 1 ≤ ub := by
  unfold construct at h
  split at h
  · next ub hlb hstep hub =>
    refine ⟨hlb, hstep, ?_⟩
    split at h
    · simp at h
    · split at h
      · simp at h
      · simp at h
      · split at h
        · simp at h
        · next stages trailing _ =>
          split at h
          · simp at h
          · split at h
            · simp at h
            · simp only [Except.ok.injEq, Option.some.injEq] at h
              subst h
              exact ⟨by simp only; omega, ub, hub, by simp only; omega⟩
  · simp at h

/-- every stage of every iteration exactly once: the emitted prologue / steady state / epilogue are the ideal slots,
and each pair `(k, n)` in range sits in exactly one slot -/
theorem slots_cover {S N : Nat} (hS : 0 < S) (hN : S - 1 ≤ N) :
    evalUnroll S N = (slots S N).map castSlot ∧
    ∀ k n, k < S → n < N → ∃ t, t < N + S - 1 ∧ (k, n) ∈ slot S N t ∧ ∀ t', (k, n) ∈ slot S N t' → t' = t :=
  ⟨unroll_eq_slots hS hN, fun k n hk hn =>
    ⟨n + k, by omega, mem_slot.mpr ⟨hk, hn, rfl⟩, fun _ h => (mem_slot.mp h).2.2⟩⟩

/-- stage `k` of iteration `n` runs in slot `n + k`; nothing outside `k < S`, `n < N` is ever run -/
theorem slot_index {S N t k n : Nat} : (k, n) ∈ slot S N t ↔ k < S ∧ n < N ∧ t = n + k := mem_slot

/-- inside one slot, events of different stages never conflict (parity of the duplicated buffers, aligned tiles) -/
theorem no_slot_conflict {p : Prog} {N : Nat} (hs : safeB p = true) {a b : Ev} (ha : a.Valid p N) (hb : b.Valid p N)
    (hslot : a.n + a.k = b.n + b.k) (hk : a.k ≠ b.k) : Indep p true a b := by
  rcases Nat.lt_or_gt_of_ne hk with h | h
  · exact safe_noBadConflict hs a b ha hb h (by omega) (by omega)
  · exact indep_symm (safe_noBadConflict hs b a hb ha h (by omega) (by omega))

/-- the consumer reads what its predecessor stage wrote in the same iteration: any event `w` that writes the copy of a
duplicated buffer read by `r` belongs to the stage before `r`'s; if it is of the same iteration it runs in the slot
just before `r`; otherwise it is at least two iterations away, so it runs before the same-iteration producer
(earlier iterations) or in a slot after `r` (later iterations) -/
theorem reads_predecessor {p : Prog} {N : Nat} (hs : safeB p = true) {w r : Ev} (hw : w.Valid p N) (hr : r.Valid p N)
    {b : Nat} (hin : Opnd.dup b ∈ (p.opAt r).ins) (hout : Opnd.dup b ∈ (p.opAt w).outs)
    (hsame : resolve p.tiles true w.n (.dup b) = resolve p.tiles true r.n (.dup b)) :
    r.k = w.k + 1 ∧ ((w.n = r.n ∧ w.n + w.k + 1 = r.n + r.k) ∨ w.n + 2 ≤ r.n ∨ (r.n + 2 ≤ w.n ∧ r.n + r.k < w.n + w.k)) := by
  have h := pairOK_of_safe hs (mem_touches_out hw hout) (mem_touches_in hr hin) rfl
  simp only [pairOK, bne_self_eq_false, Bool.false_or, Bool.and_false, if_false, if_true, Bool.false_eq_true,
    beq_iff_eq] at h
  simp only [resolve, if_true, Loc.buf.injEq, true_and] at hsame
  refine ⟨h, ?_⟩
  omega

/-- C15, proved part. Clauses: `safeB p` = TilesAligned ∧ OneWriterStage (input clauses) ∧ the facts PipelineDuplicateBuffers
establishes (evaluated by the driver on every generated loop); the reference is the sequential order WITH the
parity-selected buffers (clause DoubleBufferedReference: the step from the original single buffers to the parity-selected
ones on non-duplicated locations is validated by the oracle only, see `C15_equiv_dup_fails` for why it cannot hold on the
duplicated ones). For every trip count `N` and every schedule: same final memory everywhere, and only iterations
`< N` are run. -/
theorem C15_equiv_partial {p : Prog} {N : Nat} (hs : safeB p = true) {sched : List Ev} (h : Schedule p N sched) (m : Mem) :
    exec p true sched m = exec p true (seqEvents p N) m ∧ ∀ e ∈ sched, e.Valid p N :=
  ⟨schedule_eq_seq (safe_noBadConflict hs) h m, fun _ he => mem_seqEvents.mp (h.perm.symm.subset he)⟩

/-- the events of the emitted program (all slots) are exactly the events of the original loop -/
theorem pipeEvents_same_events {p : Prog} {N : Nat} {e : Ev} : e ∈ pipeEvents p N ↔ e ∈ seqEvents p N :=
  mem_pipeEvents.trans mem_seqEvents.symm

/-- FC15b: whatever the three passes pipeline, nothing is left in the loop body behind the pipeline (clause NoTrailing is a
fact established by ConstructPipeline) -/
theorem C15_no_trailing {l : Loop} {st : List (List SOp)} {tr : List Tok} {u : Unrolled}
    (h : run l = .ok (.pipelined st tr u)) : tr = [] := by
  obtain ⟨p, hc, _, rfl, _⟩ := run_pipelined h
  exact construct_no_trailing hc

/-- PipelineDuplicateBuffers establishes the side conditions of the equivalence theorems: `dupWF` always, `safeB` for
every input satisfying the input clauses `inputOK` (TilesAligned, OneWriterStage) -/
theorem duplicate_establishes_side_conditions {tiles : List (Nat × Nat × Bool)} {P st : List (List SOp)}
    (h : duplicate P = .ok st) (hnd : inputNoDup P = true) :
    dupWF ⟨tiles, st⟩ = true ∧ (inputOK tiles P = true → safeB ⟨tiles, st⟩ = true) :=
  duplicate_establishes h hnd

/-- double buffering refines the single buffer in the sequential order: for every trip count and stage count, the loop run
with the parity-selected copies and the loop run with the original buffers agree on every location that is not a copy of
a duplicated allocation -/
theorem double_buffer_refines {p : Prog} (hwf : dupWF p = true) (m : Mem) (N : Nat) (a : Loc)
    (ha : isDupLoc p a = false) : exec p true (seqEvents p N) m a = exec p false (seqEvents p N) m a :=
  double_eq_single hwf m N a ha

/-- ... and of a duplicated allocation `b` the copy selected by the last iteration (`(N-1) mod 2`) holds exactly what the
single buffer holds after the original loop (this is the precise content of finding DC15a) -/
theorem dup_last_copy {p : Prog} (hwf : dupWF p = true) (m : Mem) (N : Nat) {k b : Nat}
    (hw : (k, true, Opnd.dup b) ∈ touches p) :
    exec p true (seqEvents p (N + 1)) m (.buf b (N % 2)) = exec p false (seqEvents p (N + 1)) m (.buf b 0) :=
  double_last_copy hwf m N hw

/-- C15 against the ORIGINAL loop: every barrier-respecting schedule of the pipelined, double-buffered program leaves in
every location that is not a copy of a duplicated allocation (clause NotDuplicated, DC15a) exactly what the original
sequential loop with its single buffers leaves there; for every trip count, stage count and initial memory. -/
theorem C15_equiv_original_partial {p : Prog} {N : Nat} (hs : safeB p = true) (hwf : dupWF p = true) {sched : List Ev}
    (h : Schedule p N sched) (m : Mem) (a : Loc) (ha : isDupLoc p a = false) :
    exec p true sched m a = exec p false (seqEvents p N) m a := by
  rw [schedule_eq_seq (safe_noBadConflict hs) h m]
  exact double_eq_single hwf m N a ha

/-- C15 end to end over the model of the three passes: if ConstructPipeline accepts the loop and PipelineDuplicateBuffers
succeeds on its stages, then — under the input clauses only (`inputOK`: TilesAligned, OneWriterStage; `inputNoDup`: trivially
true of every input) — nothing is left behind the pipeline, the trip count `N` is a constant with `stages - 1 ≤ N`, the
program emitted by UnrollPipeline is the ideal slot sequence, and every schedule agrees with the ORIGINAL loop on every
non-duplicated location. -/
theorem C15_end_to_end_partial {l : Loop} {p : Pipe} {st : List (List SOp)} {tiles : List (Nat × Nat × Bool)}
    (hc : construct l = .ok (some p)) (hd : duplicate p.stages = .ok st)
    (hnd : inputNoDup p.stages = true) (hin : inputOK tiles p.stages = true) :
    p.trailing = [] ∧ l.lb = some 0 ∧ l.step = some 1 ∧
    ∃ N : Nat, l.ub = some (N : Int) ∧ st.length - 1 ≤ N ∧
      evalUnroll st.length N = (slots st.length N).map castSlot ∧
      ∀ (sched : List Ev) (m : Mem), Schedule ⟨tiles, st⟩ N sched → ∀ a, isDupLoc ⟨tiles, st⟩ a = false →
        exec ⟨tiles, st⟩ true sched m a = exec ⟨tiles, st⟩ false (seqEvents ⟨tiles, st⟩ N) m a := by
  obtain ⟨hlb, hstep, h2, ub, hub, hge⟩ := accepted_bounds hc
  obtain ⟨hwf, hsafe⟩ := duplicate_establishes (tiles := tiles) hd hnd
  have hlen := duplicate_length hd
  refine ⟨construct_no_trailing hc, hlb, hstep, ub.toNat, ?_, ?_, ?_, ?_⟩
  · rw [hub]
    congr 1
    omega
  · omega
  · exact unroll_eq_slots (by omega) (by omega)
  · intro sched m hsch a ha
    exact C15_equiv_original_partial (hsafe hin) hwf hsch m a ha

/-- every op event of the loop exactly once: the events of the program emitted by the model of UnrollPipeline (prologue,
steady-state loop, epilogue read off `evalUnroll`) are a permutation of the events of the original loop -/
theorem emitted_program_perm {p : Prog} {N : Nat} (hS : 0 < p.stages.length) (hN : p.stages.length - 1 ≤ N) :
    (seqEvents p N).Perm (emittedEvents p N) := by
  rw [emitted_eq_pipe hS hN]
  exact pipe_perm p N

/-- the emitted program order is itself a schedule (so the schedule theorems are not vacuous for any program, stage count or
trip count, and apply to the program as emitted) -/
theorem emitted_program_schedule {p : Prog} {N : Nat} (hS : 0 < p.stages.length) (hN : p.stages.length - 1 ≤ N) :
    Schedule p N (emittedEvents p N) := by
  rw [emitted_eq_pipe hS hN]
  exact pipe_schedule p N

/-- C15 for the program as emitted, run in program order, against the ORIGINAL loop -/
theorem C15_emitted_program_partial {p : Prog} {N : Nat} (hs : safeB p = true) (hwf : dupWF p = true)
    (hS : 0 < p.stages.length) (hN : p.stages.length - 1 ≤ N) (m : Mem) (a : Loc) (ha : isDupLoc p a = false) :
    exec p true (emittedEvents p N) m a = exec p false (seqEvents p N) m a :=
  C15_equiv_original_partial hs hwf (emitted_program_schedule hS hN) m a ha

/-- modules with several loops: the model transforms a module loop by loop (`runModule`), and every loop of a module is
transformed exactly as if it were alone in it (no state survives from one loop to the next); the real passes are compared
with `runModule` on multi-loop modules by the correspondence check -/
theorem module_loops_independent {ls : List Loop} {os : List Outcome} (h : runModule ls = .ok os) :
    os.length = ls.length ∧ ∀ (k : Nat) (hk : k < ls.length), ∃ o, os[k]? = some o ∧ run ls[k] = .ok o :=
  runModule_get h

/-! ## witnesses -/

/-- a 3-stage chain: tile 0 -> dup 0 -> dup 1 -> tile 1 (as produced by `duplicate`) -/
def chain3 : Prog := ⟨[(0, 0, false), (1, 0, false)],
  [[⟨0, [.tile 0], [.dup 0]⟩], [⟨1, [.dup 0, .alloc 5], [.dup 1]⟩], [⟨2, [.dup 1], [.tile 1, .alloc 6]⟩]]⟩

def chain3Loop : Loop := ⟨some 0, some 4, some 1, false,
  [.idx, .idx, .op ⟨0, [.tile 0], [.alloc 0]⟩, .sync, .op ⟨1, [.alloc 0, .alloc 5], [.alloc 1]⟩, .sync,
   .op ⟨2, [.alloc 1], [.tile 1, .alloc 6]⟩, .sync]⟩

example : run chain3Loop = .ok (.pipelined chain3.stages [] (unroll 3)) := by decide
example : safeB chain3 = true := by decide
example : runModule [chain3Loop, { chain3Loop with ub := some 1 }] = .ok [.pipelined chain3.stages [] (unroll 3), .declined] := by decide
example : emittedEvents chain3 4 = pipeEvents chain3 4 ∧ (emittedEvents chain3 4).length = 12 := by decide
example : dupWF chain3 = true ∧ isDupLoc chain3 (.cell 1 3) = false ∧ isDupLoc chain3 (.buf 6 0) = false ∧ isDupLoc chain3 (.buf 1 1) = true := by decide
/-- the stages of `chain3Loop` before duplication satisfy the input clauses, and `duplicate` maps them to `chain3` -/
def chain3In : List (List SOp) :=
  [[⟨0, [.tile 0], [.alloc 0]⟩], [⟨1, [.alloc 0, .alloc 5], [.alloc 1]⟩], [⟨2, [.alloc 1], [.tile 1, .alloc 6]⟩]]
example : inputNoDup chain3In = true ∧ inputOK chain3.tiles chain3In = true ∧ duplicate chain3In = .ok chain3.stages := by decide
example : (evalUnroll 3 4).length = 6 ∧ (slots 3 4).map castSlot = evalUnroll 3 4 := by decide
example : (1, 2) ∈ slot 3 4 3 := by decide
example : (⟨1, 0, 2⟩ : Ev).Valid chain3 4 ∧ (⟨2, 0, 1⟩ : Ev).Valid chain3 4 := by unfold Ev.Valid; decide
example : (pipeEvents chain3 4).Pairwise (fun a b => a.n + a.k ≤ b.n + b.k) := by decide
example : construct chain3Loop = .ok (some ⟨[[⟨0, [.tile 0], [.alloc 0]⟩], [⟨1, [.alloc 0, .alloc 5], [.alloc 1]⟩],
    [⟨2, [.alloc 1], [.tile 1, .alloc 6]⟩]], []⟩) := by decide

/-- D19 (fixed by F16): without the guard, 3 stages and 1 iteration run iteration -1 and iteration 1 -/
theorem unguarded_short_fails : (2, (-1 : Int)) ∈ (evalUnroll 3 1).flatten ∧ (0, (1 : Int)) ∈ (evalUnroll 3 1).flatten := by
  decide

/-- with the guard the same loop is declined -/
example : run { chain3Loop with ub := some 1 } = .ok .declined := by decide

def chain2 (off : Nat) : Prog := ⟨[(0, 0, false), (if off = 0 then 1 else 0, off, false)], [[⟨0, [.tile 0], [.dup 0]⟩], [⟨1, [.dup 0], [.tile 1]⟩]]⟩

/-- DC15a (clause NotDuplicated): after 2 iterations the original intermediate allocation holds iteration 0's data in the
pipelined program and iteration 1's data in the original loop -/
theorem C15_equiv_dup_fails :
    exec (chain2 0) true (pipeEvents (chain2 0) 2) initMem (.buf 0 0) ≠ exec (chain2 0) false (seqEvents (chain2 0) 2) initMem (.buf 0 0) := by
  decide

/-- ...while every other location of that program agrees (here: the output tiles) -/
example : ∀ i < 2, exec (chain2 0) true (pipeEvents (chain2 0) 2) initMem (.cell 1 i)
    = exec (chain2 0) false (seqEvents (chain2 0) 2) initMem (.cell 1 i) := by decide

/-- DC15c (clause TilesAligned): stage 0 reads `A[i]`, stage 1 writes `A[i+1]`; the pipelined program order computes another
`A[2]` than the loop (and the two events of slot 1 conflict) -/
theorem C15_alias_fails :
    safeB (chain2 1) = false ∧
    exec (chain2 1) true (pipeEvents (chain2 1) 3) initMem (.cell 0 2) ≠ exec (chain2 1) false (seqEvents (chain2 1) 3) initMem (.cell 0 2) := by
  decide

def trailingLoop : Loop := ⟨some 0, some 4, some 1, false,
  [.idx, .op ⟨0, [.tile 0], [.alloc 0]⟩, .sync, .op ⟨1, [.alloc 0], [.tile 1]⟩, .sync, .idx, .op ⟨2, [.tile 0], [.tile 2]⟩, .sync]⟩

/-- DC15b is fixed by FC15b: such a loop is declined -/
example : run trailingLoop = .ok .declined := by decide

/-- DC15b (fixed by FC15b): ops left in the loop body behind the pipeline ran only for the iterations of the steady-state
loop, `N - (S - 1) < N` of them -/
theorem trailing_orig_fails {S N : Nat} (hS : 2 ≤ S) (hN : S - 1 ≤ N) :
    (List.range ((N : Int) - ((unroll S).newLb : Int)).toNat).length < N := by
  simp only [unroll, List.length_range]
  omega

def chain2Loop : Loop := ⟨some 0, some 2, some 1, false,
  [.idx, .idx, .op ⟨0, [.tile 0], [.alloc 0]⟩, .sync, .op ⟨1, [.alloc 0], [.tile 1]⟩, .sync]⟩

/-- the full statement is false of the code (because of DC15a: the duplicated allocation itself) -/
theorem C15_statement_fails : ¬ C15_statement := by
  intro h
  have := (h chain2Loop (chain2 0).tiles (chain2 0).stages [] (unroll 2) 2 (seqEvents (chain2 0) 2) (by decide) (by decide)
    ⟨List.Perm.refl _, by decide, by unfold Indep; decide⟩).2 (.buf 0 0)
  exact absurd this (by decide)

/-! ## a view computed in the loop body as stage-to-stage buffer (seed C15-r2m2) -/

def viewLoop : Loop := ⟨some 0, some 4, some 1, false,
  [.idx, .idx, .idx, .op ⟨0, [.tile 0], [.tile 2]⟩, .sync, .op ⟨1, [.tile 2], [.tile 1]⟩, .sync]⟩

/-- the passes refuse it ("buffer should be the result of a memref.alloc operation") -/
example : run viewLoop = .error .notAlloc := by decide

def viewProg : Prog := ⟨[(0, 0, false), (1, 0, false), (2, 0, true)], [[⟨0, [.tile 0], [.tile 2]⟩], [⟨1, [.tile 2], [.tile 1]⟩]]⟩

/-- and rightly so: pipelined on the single loop-invariant view, `safeB` fails, the two events of slot 1 conflict and the
program order leaves `B[0] = f(A[1])` -/
theorem view_intermediate_unsafe :
    safeB viewProg = false ∧
    exec viewProg true (pipeEvents viewProg 2) initMem (.cell 1 0) ≠ exec viewProg false (seqEvents viewProg 2) initMem (.cell 1 0) := by
  decide

end SnaxVerif.C15
