import SnaxVerif.Lemmas.Casts
import SnaxVerif.Lemmas.CastsPlace
import SnaxVerif.Lemmas.CastsConst
import SnaxVerif.Props.C10
/-!
# C12 — materialised casts deliver the right data to every consumer

Statements and theorems only; helper lemmas live in `Lemmas/Casts.lean` (programs) and
`Lemmas/CastsConst.lean` (constants). The model is `Model/Casts.lean`.

* constants / globals re-laid-out at compile time: `transformConstant_correct`, `transposeTuple_correct`;
* memory spaces: `memspace_post`;
* copies around the stand-in buffer of a cast: `C12_realize_partial` (clause `Accepted`), with
  `C12_realize_fails` (the full statement is false of the rule even with F10: findings DC12a, DC12b) and
  `C12_wrw_fails` (the rule as found, D8, on a block that the fixed rule handles).
-/
namespace SnaxVerif.C12
open SnaxVerif SnaxVerif.Tsl SnaxVerif.Casts

/-! ## constants -/

/-- **Re-laid-out constants hold the same logical values at the positions the new layout prescribes.**
For every static layout with positive steps and bounds (any rank, any tiling depth, any order of the strides), any
offset and any data: whenever `transform_constant` produces new data, the element with logical index `idx`
(position `rowMajor idx` of the source) sits at position `addr l idx` of the new data, for every `idx` of the box.
(`transform_constant` only produces data for layouts that `is_dense()` accepts; density is not a hypothesis.) -/
theorem transformConstant_correct (ro : Bool) (data : List Int) (s : SLayout) (off : Option Int) (hpos : SPos s)
    (out : List Int) (h : transformConstantF ro data (ofStatic s off) = .ok (some out)) :
    out.length = data.length ∧
    ∀ idx ∈ points (shape s), addr s idx < out.length ∧ rowMajor (shape s) idx < data.length ∧
      out[addr s idx]? = data[rowMajor (shape s) idx]? := by
  obtain ⟨b, hb, hiff⟩ := C10.isDense_iff s off hpos
  unfold transformConstantF at h
  rw [hb] at h
  cases b with
  | false => simp at h
  | true =>
    simp only [static?_ofStatic] at h
    split at h
    · cases h
    · split at h
      · cases h
      next hlen =>
        have hlen' : data.length = size s := by simpa using hlen
        cases h
        have hch := dense_isChain s hpos (hiff.mp rfl)
        refine ⟨relayout_length data s, fun idx hidx => ?_⟩
        have := relayout_correct data s hpos hlen' hch idx hidx
        rw [relayout_length]
        exact this

/-- `transform_constant` does produce data for every dense static layout of the right size -/
theorem transformConstant_total (data : List Int) (s : SLayout) (off : Option Int)
    (hd : (ofStatic s off).isDense = .ok true) (hlen : data.length = size s) :
    transformConstant data (ofStatic s off) = .ok (some (relayout data s)) := by
  unfold transformConstant transformConstantF
  rw [hd]
  simp [static?_ofStatic, hlen]

/-- The full clause "at the positions the new layout prescribes" includes the offset of the layout: the element with
logical index `idx` has to sit at `offset + addr l idx`. Since the new data starts at element 0 this needs
`offset = 0` whenever data is produced. -/
def transformConstant_offset_statement (ro : Bool) : Prop :=
  ∀ (data : List Int) (l : Layout) (out : List Int), transformConstantF ro data l = .ok (some out) → l.offset = some 0

/-- with the proposed fix FC12d data is only produced for layouts without offset … -/
theorem transformConstant_offset_fixed : transformConstant_offset_statement true := by
  intro data l out h
  unfold transformConstantF at h
  split at h
  · cases h
  · cases h
  · split at h
    · cases h
    · split at h
      · cases h
      next hno =>
        simp only [Bool.true_and, bne_iff_ne, ne_eq, Decidable.not_not] at hno
        exact hno

/-- … and it still is produced for every dense static layout without offset -/
theorem transformConstant_total_fixed (data : List Int) (s : SLayout)
    (hd : (ofStatic s (some 0)).isDense = .ok true) (hlen : data.length = size s) :
    transformConstantF true data (ofStatic s (some 0)) = .ok (some (relayout data s)) := by
  unfold transformConstantF
  rw [hd]
  have ho : (ofStatic s (some 0)).offset = some 0 := rfl
  simp [static?_ofStatic, hlen, ho]

/-- **Finding DC12d**: the code as found re-lays-out a constant for a layout with offset 3 -/
theorem transformConstant_offset_fails : ¬ transformConstant_offset_statement false := by
  intro h
  have := h [1, 2, 3, 4] (ofStatic [[⟨1, 2⟩], [⟨2, 2⟩]] (some 3)) [1, 3, 2, 4] (by decide +kernel)
  revert this
  decide

/-- **`transpose_tuple` transposes**: for every `cols × rows` array (row-major, `rows` entries per row) the result
is the `rows × cols` array with `out[i][j] = in[j][i]`. -/
theorem transposeTuple_correct (a : List Int) (cols rows : Nat) (hlen : a.length = cols * rows) :
    ∃ out, transposeTuple a cols rows = .ok out ∧ out.length = rows * cols ∧
      ∀ i j, i < rows → j < cols → out[i * cols + j]? = a[j * rows + i]? := by
  have hlt : ∀ i j, i < rows → j < cols → i + j * rows < a.length := by
    intro i j hi hj
    rw [hlen]
    calc i + j * rows < rows + j * rows := by omega
      _ = (j + 1) * rows := by rw [Nat.succ_mul, Nat.add_comm]
      _ ≤ cols * rows := Nat.mul_le_mul_right rows hj
  have hall : (transposeIdx cols rows).all (· < a.length) = true := by
    simp only [transposeIdx, List.all_eq_true, List.mem_flatMap, List.mem_range, List.mem_map, decide_eq_true_eq]
    rintro k ⟨i, hi, j, hj, rfl⟩
    exact hlt i j hi hj
  refine ⟨(transposeIdx cols rows).map fun k => a.getD k 0, by unfold transposeTuple; rw [if_pos hall], ?_, ?_⟩
  · rw [List.length_map, transposeIdx, length_flatMap_const _ cols (by simp)]
  · intro i j hi hj
    rw [List.getElem?_map, transposeIdx,
      getElem?_flatMap_range (fun i => (List.range cols).map fun j => i + j * rows) cols (by simp) rows i j hi hj]
    simp only [List.getElem?_map, List.getElem?_range hj, Option.map_some]
    rw [Nat.add_comm i, List.getD_eq_getElem?_getD]
    have := hlt i j hi hj
    rw [Nat.add_comm] at this
    simp [List.getElem?_eq_getElem this]

/-! ## memory spaces -/

/-- **Function boundaries keep their external memory space; accelerator operands live in L1.**
`InitFuncMemorySpace` changes a signature entry only from "no memory space" to L3 (and only for public functions);
after `InitStreamAndLinalgMemorySpace` every memref operand of an accelerator operation is in L1; allocations are
in L1 and globals in L3; a returned value gets the declared memory space. -/
theorem memspace_post :
    (∀ (f : FuncSig), (initFunc f).ins.length = f.ins.length ∧ (initFunc f).outs.length = f.outs.length ∧
      (∀ (k : Nat) (t : Ty), f.ins[k]? = some t → (initFunc f).ins[k]? = some t ∨
        (f.pub = true ∧ t = some Space.none ∧ (initFunc f).ins[k]? = some (some Space.l3))) ∧
      (∀ (k : Nat) (t : Ty), f.outs[k]? = some t → (initFunc f).outs[k]? = some t ∨
        (f.pub = true ∧ t = some Space.none ∧ (initFunc f).outs[k]? = some (some Space.l3)))) ∧
    (∀ t sp, initOperand t = some sp → sp = Space.l1) ∧
    (∀ t sp, initAlloc t = some sp → sp = Space.l1) ∧
    (∀ t sp, initGlobal t = some sp → sp = Space.l3) ∧
    (∀ d a, initReturn (some d) (some a) = some d) := by
  refine ⟨?_, ?_, ?_, ?_, ?_⟩
  · intro f
    have key : ∀ (l : List Ty) (k : Nat) (t : Ty), l[k]? = some t →
        (l.map toL3)[k]? = some t ∨ (t = some Space.none ∧ (l.map toL3)[k]? = some (some Space.l3)) := by
      intro l k t h
      rw [List.getElem?_map, h]
      cases t with
      | none => left; rfl
      | some sp => cases sp <;> simp [toL3]
    unfold initFunc
    split
    next hc =>
      simp only [Bool.and_eq_true] at hc
      refine ⟨by simp, by simp, fun k t h => ?_, fun k t h => ?_⟩
      · rcases key f.ins k t h with h' | ⟨h1, h2⟩
        · exact Or.inl h'
        · exact Or.inr ⟨hc.1, h1, h2⟩
      · rcases key f.outs k t h with h' | ⟨h1, h2⟩
        · exact Or.inl h'
        · exact Or.inr ⟨hc.1, h1, h2⟩
    next => exact ⟨rfl, rfl, fun k t h => Or.inl h, fun k t h => Or.inl h⟩
  · intro t sp h; cases t <;> simp [initOperand] at h; exact h.symm
  · intro t sp h; cases t <;> simp [initAlloc] at h; exact h.symm
  · intro t sp h; cases t <;> simp [initGlobal] at h; exact h.symm
  · intro d a
    simp only [initReturn]
    split <;> simp_all

/-! ## the L1 casts of `set-memory-space` -/

/-- every operand of an accelerator operation is fed by a cast that is visible at the operation (the IR after the
pass is well-formed w.r.t. these casts) -/
def castsDominate_statement (fixed : Bool) : Prop :=
  ∀ (b : MBlk), ∀ e ∈ assignCasts fixed b, domB e.2.2 e.1 = true

/-- with the proposed fix FC12c: for every function body (any nesting, any operand lists) -/
theorem castsDominate_fixed : castsDominate_statement true := by
  intro b e he
  exact MBlk.walk_inv b [] 0 ⟨[], []⟩ (fun _ h => by cases h) e he

/-- **Finding DC12c** (code as found): a cast created inside a loop is re-used by a later operation outside of it -/
theorem castsDominate_fails : ¬ castsDominate_statement false := by
  intro h
  have := h (.cons (.loop (.cons (.op [0]) .nil)) (.cons (.op [0]) .nil)) ([1], 0, [0, 0]) (by decide +kernel)
  revert this
  decide

/-! ## a global read through a subview -/

/-- **The tiles of a re-laid-out global are laid out like the subview's tile**: in a dimension that got the extra
outermost stride `⟨cur, rem⟩`, element `i` of tile number `q` sits at `cur * q` + (address of `i` under the tile
layout) - a tile-aligned subview of the transformed global has exactly the layout its new result type declares, up to
the base address of the tile. (That different tiles do not overlap - `cur` at least the extent of a tile - is checked on
the real output by the oracle, not proved.) -/
theorem subviewGlobal_tile_addr (cur rem : Nat) (t : List SStride) (ht : ∀ x ∈ t, 0 < x.bound) (q i : Nat)
    (hi : i < prodB t) : addrDim (⟨cur, rem⟩ :: t) (prodB t * q + i) = cur * q + addrDim t i :=
  outerTile_addrDim cur rem t ht q i hi

/-- **The whole layout**: for every tile layout with positive bounds, every shape and every start stride, element `i`
of tile number `q` (inside the shape) of the re-laid-out global sits at the address of the first element of that tile
plus the address of `i` under the tile layout: a subview that selects a whole tile has exactly the layout its new
result type declares, up to the base address. (The guards of FC12e make the pattern fire only for such subviews as far
as the offsets are static: `subviewGlobalGuard`.) -/
theorem subviewGlobal_addr (l : SLayout) (shape : List Nat) (cur : Nat) (q i : List Nat)
    (hpos : ∀ t ∈ l, ∀ x ∈ t, 0 < x.bound) (h : TileIn l shape q i) :
    addr (outerTiles l shape cur) (tilePoint l q i) = addr (outerTiles l shape cur) (tileBase l q) + addr l i :=
  outerTiles_addr l shape cur q i hpos h

/-- the statement without the clause "tile `q` lies inside the shape / the subview is a tile": for every point `p` of
the global and every index `i` of the tile, `addr new (p + i) = addr new p + addr l i` -/
def subviewGlobal_addr_statement : Prop :=
  ∀ (l : SLayout) (shape p i : List Nat), (∀ t ∈ l, ∀ x ∈ t, 0 < x.bound) → i ∈ points (Tsl.shape l) →
    addr (subviewGlobalLayout l shape) (List.zipWith (· + ·) p i) = addr (subviewGlobalLayout l shape) p + addr l i

/-- **Finding DC12e** (code as found: the pattern fires for a subview that does not start at a tile boundary): with
tiles of 4 rows, the row at offset 5 + 3 is in the next tile -/
theorem subviewGlobal_addr_fails : ¬ subviewGlobal_addr_statement := by
  intro h
  have := h [[⟨1, 4⟩], [⟨4, 4⟩]] [16, 4] [5, 0] [3, 0] (by decide) (by decide +kernel)
  revert this
  decide +kernel

example : TileIn [[⟨1, 4⟩], [⟨4, 4⟩]] [16, 4] [1, 0] [3, 2] := by simp [TileIn, prodB]
example : subviewGlobalGuard true true [[⟨1, 4⟩], [⟨4, 4⟩]] [16, 4] [some 5, some 0] = false := by decide
example : subviewGlobalGuard true true [[⟨2, 2⟩], [⟨1, 2⟩]] [8, 3] [some 0, some 0] = false := by decide
example : subviewGlobalGuard true true [[⟨1, 4⟩], [⟨4, 4⟩]] [16, 4] [some 4, none] = true := by decide

example : subviewGlobalLayout [[⟨8, 4⟩], [⟨1, 5⟩]] [32, 5] = [[⟨32, 8⟩, ⟨8, 4⟩], [⟨1, 5⟩]] := by decide

/-! ## run-time shape of the stand-in buffer -/

/-- **The stand-in buffer has the run-time shape of the source**: for every shape of the cast type (any rank, any mix
of static and dynamic dimensions) and every run-time shape of that type, allocating with one `memref.dim(source, i)`
per dynamic dimension `i` (the position of the dimension in the shape) gives a buffer of exactly the source's run-time
shape - so copy-in and copy-out connect buffers of equal shapes. -/
theorem standInShape_correct (shape : List (Option Nat)) (rt : List Nat) (h : ShapeOf shape rt) :
    standInShape shape rt = rt :=
  allocShape_dynIdx rt shape rt 0 h (fun j => by simp)

example : standInShape [some 16, none] [16, 5] = [16, 5] := by decide
example : dynIdx [none, some 8, none] 0 = [0, 2] := by decide

/-! ## copies around the stand-in buffer -/

/-- What "delivers the right data to every consumer" means for one application of `RealizeMemrefCasts`
(`fixed = false`: rule as found, `true`: with F10) to a block `b` whose cast stands for the source cells `S` and
gets the fresh cells `A`: for every meaning of the operations, every trip count of every loop entry and every
initial memory, every operation reads the same values as in the run in which the cast is an alias of its source
(equal logs), and at the end every cell except the stand-in buffer — in particular the source — holds the same
value. -/
def Delivers (fixed : Bool) (S A : List Nat) (b : Blk) : Prop :=
  ∀ (fn : Fn) (trips : Nat → Nat → Nat) (m0 : Mem),
    ((realize fixed b).exec (realCfg fn trips S A) ⟨m0, [], 0⟩).log = (b.exec (aliasCfg fn trips S A) ⟨m0, [], 0⟩).log ∧
    ∀ x, x ∉ A → ((realize fixed b).exec (realCfg fn trips S A) ⟨m0, [], 0⟩).mem x
      = (b.exec (aliasCfg fn trips S A) ⟨m0, [], 0⟩).mem x

/-- The property at full strength: for all blocks (any mix of readers and writers, any nesting, any direct uses
of the source) that do not mention the fresh cells and contain no inserted copies. -/
def C12_realize_statement (fixed : Bool) : Prop :=
  ∀ (S A : List Nat) (b : Blk), WF S A → b.okB A true true = true → Delivers fixed S A b

/-- **Clause `Accepted`**: the placement chosen by the rule passes the checker `chk` — between the copy-in and
the copy-out the source is not addressed directly, the copy-out is not inside a region that may run zero times
while an earlier writer is outside of it, the copy-in does not overwrite written data. The checker is evaluated
on the output of the real pass for every generated program by the harness. -/
def Accepted (S A : List Nat) (b : Blk) : Prop := chk S A (realize true b) = true

/-- **Materialised casts deliver the right data (with F10), for every accepted placement**: all programs, all
nesting depths, all trip counts (also varying per loop entry), all operation semantics, all initial memories. -/
theorem C12_realize_partial (S A : List Nat) (b : Blk) (wf : WF S A) (hacc : Accepted S A b) :
    Delivers true S A b := by
  intro fn trips m0
  unfold Accepted chk at hacc
  split at hacc
  next q hq =>
    have hinit : Inv S A ⟨true, false⟩ ⟨m0, [], 0⟩ ⟨m0, [], 0⟩ :=
      ⟨rfl, rfl, fun _ _ _ => rfl, fun _ _ _ => rfl, fun h => by cases h⟩
    have h := chkFrom_sound fn trips S A wf (realize true b) _ q _ _ hq hinit
    rw [realize_alias (aliasCfg fn trips S A) rfl b] at h
    obtain ⟨hlog, _, hoff, hsrc, _⟩ := h
    refine ⟨hlog.symm, fun x hx => ?_⟩
    by_cases hs : x ∈ S
    · exact hsrc hacc x hs
    · exact hoff x hx hs
  next => cases hacc

/-- **The placement rule establishes the clause `Accepted`**: for every block that satisfies the syntactic clauses
`Syntactic` (= `Clean` + `SourceQuiet` + `LastWriterTop` on a split `pre ++ mid ++ post` with all uses in `mid`), the
placement computed by the rule (with F10) is accepted by the checker. Unbounded in the length of the block, in the
nesting inside the items and in the number and order of readers and writers. -/
theorem C12_placement_accepted (S A : List Nat) (b : Blk) (h : Syntactic S A b) : Accepted S A b :=
  realize_accepted S A b h

/-- **Materialised casts deliver the right data (with F10), under syntactic clauses only**:
* `Clean` — the block does not address the fresh stand-in cells and contains no inserted copies;
* `SourceQuiet` — between the first and the last item of the cast's block that use the cast, the source is not
  addressed through another path (dropped clause refuted by `C12_realize_direct_fails`, finding DC12b);
* `LastWriterTop` — the last use of the cast as an output, if any, is an operation of the cast's block itself, not
  nested in a loop (dropped clause refuted by `C12_realize_fails`, finding DC12a).
Readers, and writers other than the last one, may be nested at any depth; loops may run any number of times. -/
theorem C12_realize_syntactic_partial (S A : List Nat) (b : Blk) (wf : WF S A) (h : Syntactic S A b) :
    Delivers true S A b :=
  C12_realize_partial S A b wf (C12_placement_accepted S A b h)

/-- the clauses are decidable: `synB` (evaluated by the harness on every generated program) is sound for them -/
theorem C12_syntactic_decision (S A : List Nat) (b : Blk) (h : synB S A b = true) : Syntactic S A b :=
  synB_sound S A b h

/-- The checker is sound for any placement of the copies (not only the rule's): translation validation of the
real pass output. -/
theorem chk_sound (S A : List Nat) (b' : Blk) (wf : WF S A) (h : chk S A b' = true)
    (fn : Fn) (trips : Nat → Nat → Nat) (m0 : Mem) :
    (b'.exec (realCfg fn trips S A) ⟨m0, [], 0⟩).log = (b'.exec (aliasCfg fn trips S A) ⟨m0, [], 0⟩).log ∧
    ∀ x, x ∉ A → (b'.exec (realCfg fn trips S A) ⟨m0, [], 0⟩).mem x
      = (b'.exec (aliasCfg fn trips S A) ⟨m0, [], 0⟩).mem x := by
  unfold chk at h
  split at h
  next q hq =>
    have hinit : Inv S A ⟨true, false⟩ ⟨m0, [], 0⟩ ⟨m0, [], 0⟩ :=
      ⟨rfl, rfl, fun _ _ _ => rfl, fun _ _ _ => rfl, fun h => by cases h⟩
    obtain ⟨hlog, _, hoff, hsrc, _⟩ := chkFrom_sound fn trips S A wf b' _ q _ _ hq hinit
    refine ⟨hlog.symm, fun x hx => ?_⟩
    by_cases hs : x ∈ S
    · exact hsrc h x hs
    · exact hoff x hx hs
  next => cases h

/-! ### witnesses: cells `0` = source, `1` = stand-in buffer, `2` = another buffer -/

theorem wf01 : WF [0] [1] := ⟨by simp, by simp, rfl, by simp⟩

/-- an operation with tag `t` reading `i` and writing `o` -/
def op (t : Nat) (i o : Opd) : Item := .leaf t [i] [o]
def other : Opd := .direct [2]
def source : Opd := .direct [0]
def blk : List Item → Blk
  | [] => .nil
  | i :: r => .cons i (blk r)

/-- D8: writer, reader, writer -/
def wrw : Blk := blk [op 0 other .cast, op 1 .cast other, op 2 other .cast]
/-- DC12a: a writer, then a writer inside a loop (the copy-out lands inside the loop) -/
def wLoopW : Blk := blk [op 0 other .cast, .loop 0 (blk [op 1 other .cast])]
/-- DC12b: reader through the cast, direct write to the source, reader through the cast -/
def rDirectR : Blk := blk [op 0 .cast other, op 1 other source, op 2 .cast other]

def fn0 : Fn := fun tag _ _ _ => 100 + tag
def m0 : Mem := fun c => c

/-- **D8** (rule as found): writer, reader, writer — the copy-in in front of the reader overwrites what the first
writer produced; the reader sees the initial content of the source. -/
theorem C12_wrw_fails : ¬ Delivers false [0] [1] wrw := by
  intro h
  have := (h fn0 (fun _ _ => 0) m0).1
  revert this
  decide +kernel

/-- the same block is handled by the fixed rule (it is accepted, so `C12_realize_partial` applies) -/
example : Accepted [0] [1] wrw := by unfold Accepted; decide +kernel

/-- **The full statement is false of the rule even with F10** (finding DC12a): a writer followed by a writer inside
a loop that runs zero times — the copy-out is inside the loop, the first writer's data never reaches the source. -/
theorem C12_realize_fails : ¬ C12_realize_statement true := by
  intro h
  have := (h [0] [1] wLoopW wf01 (by decide +kernel) fn0 (fun _ _ => 0) m0).2 0 (by simp)
  revert this
  decide +kernel

/-- **… and for a second reason** (finding DC12b): the source is written directly between two readers through the
cast; the second reader sees the stale stand-in buffer. -/
theorem C12_realize_direct_fails : ¬ Delivers true [0] [1] rDirectR := by
  intro h
  have := (h fn0 (fun _ _ => 0) m0).1
  revert this
  decide +kernel

/-- neither failing block is accepted (the clause excludes them) -/
example : ¬ Accepted [0] [1] wLoopW := by unfold Accepted; decide +kernel
example : ¬ Accepted [0] [1] rDirectR := by unfold Accepted; decide +kernel

/-- the failing blocks violate the syntactic clauses -/
example : ¬ Syntactic [0] [1] wLoopW := fun h =>
  (by unfold Accepted; decide +kernel : ¬ Accepted [0] [1] wLoopW) (C12_placement_accepted _ _ _ h)
example : ¬ Syntactic [0] [1] rDirectR := fun h =>
  (by unfold Accepted; decide +kernel : ¬ Accepted [0] [1] rDirectR) (C12_placement_accepted _ _ _ h)

/-- the rule as found is also wrong on the full statement -/
theorem C12_realize_orig_fails : ¬ C12_realize_statement false := fun h =>
  C12_wrw_fails (h [0] [1] wrw wf01 (by decide +kernel))

/-! ### non-vacuity -/

/-- a block mixing a loop with reader and writer, a direct use of the source after the last use of the cast:
accepted -/
example : Accepted [0] [1]
    (blk [op 0 other other, .loop 0 (blk [op 1 .cast other, op 2 other .cast]), op 3 .cast .cast,
      op 4 source other]) := by unfold Accepted; decide +kernel

/-- the same block satisfies the syntactic clauses (loop with reader and writer, then a top-level reader/writer, a
direct use of the source only after the segment) -/
example : Syntactic [0] [1]
    (blk [op 0 other other, .loop 0 (blk [op 1 .cast other, op 2 other .cast]), op 3 .cast .cast,
      op 4 source other]) := C12_syntactic_decision _ _ _ (by decide +kernel)
example : Syntactic [0] [1] wrw := C12_syntactic_decision _ _ _ (by decide +kernel)

/-- `transform_constant` on a 2×4 array, layout `[2,2]→(1,4), [2]→(2)`: hypotheses of `transformConstant_correct` -/
example : transformConstant [0, 1, 2, 3, 4, 5, 6, 7] (ofStatic [[⟨2, 2⟩], [⟨1, 2⟩, ⟨4, 2⟩]] (some 0))
    = .ok (some [0, 2, 4, 6, 1, 3, 5, 7]) := by decide +kernel
example : SPos [[⟨2, 2⟩], [⟨1, 2⟩, ⟨4, 2⟩]] := by decide

example : transposeTuple [0, 1, 2, 3, 4, 5] 2 3 = .ok [0, 3, 1, 4, 2, 5] := by decide +kernel

example : initFunc ⟨true, [some Space.none, none, some Space.l1], [some Space.none]⟩
    = ⟨true, [some Space.l3, none, some Space.l1], [some Space.l3]⟩ := by decide

end SnaxVerif.C12
