import SnaxVerif.Lemmas.AccfgDce
import SnaxVerif.Props.C07
import SnaxVerif.Lemmas.AccfgLoopOverlap
/-!
# C01 — configuration deduplication never changes what a launch observes

`applyRule` (Model/AccfgRules.lean) mirrors the five rewrite patterns of `accfg_dedup.py` (with fixes F1, F7)
on the accfg program with state-typed values erased. The harness replays every individual rewrite the real
greedy driver performs through `applyRule` and requires the same result, so the output of the real pass is
the end of a chain of modelled steps; the theorems below are closed under arbitrary such chains, whatever
order the driver chooses.

The trace (`St.tr`) is the sequence of launches — each with the contents of *all* registers of its
accelerator and its launch values — awaits and calls: "every launch observes exactly the register contents
it would have observed without the optimisation".
-/
namespace SnaxVerif.C01
open SnaxVerif.Accfg

/-- SimplifyRedundantSetupCalls: the whole machine state (environment, every register, trace) after the
rewritten program equals the state after the original, for every program, position, hardware
configuration, initial state, branch outcome and trip count. Uses C07 (`soundB`) for the dropped fields. -/
theorem simplify_preserves (path : List Nat) (b b' : Block) (h : applyRule .simplify path b = some b')
    (hwf : wfB b = true) (hn : nodupB b = true) (cfg : Cfg) (st : St) :
    execB cfg false b' st = execB cfg false b st :=
  rewriteB_exec cfg (simplifyRw_ok cfg) b path noFacts b' h hwf hn st
    (by intro a f x h; simp [noFacts] at h) (by intro a f x h; simp [noFacts] at h)

/-- MergeSetupOps. -/
theorem merge_preserves (path : List Nat) (b b' : Block) (h : applyRule .merge path b = some b')
    (hwf : wfB b = true) (hn : nodupB b = true) (cfg : Cfg) (st : St) :
    execB cfg false b' st = execB cfg false b st :=
  rewriteB_exec cfg (mergeRw_ok cfg) b path noFacts b' h hwf hn st
    (by intro a f x h; simp [noFacts] at h) (by intro a f x h; simp [noFacts] at h)

/-- ElideEmptySetupOps. -/
theorem elide_preserves (path : List Nat) (b b' : Block) (h : applyRule .elide path b = some b')
    (hwf : wfB b = true) (hn : nodupB b = true) (cfg : Cfg) (st : St) :
    execB cfg false b' st = execB cfg false b st :=
  rewriteB_exec cfg (elideRw_ok cfg _) b path noFacts b' h hwf hn st
    (by intro a f x h; simp [noFacts] at h) (by intro a f x h; simp [noFacts] at h)

/-- HoistSetupCallsIntoConditionals (with the two guards of fix F7, which are exactly the hypotheses of
`hoist_core`: the setup sits in the block of the `scf.if`, and its operands are defined in front of it). -/
theorem hoist_preserves (path : List Nat) (b b' : Block) (h : applyRule .hoist path b = some b')
    (hwf : wfB b = true) (hn : nodupB b = true) (cfg : Cfg) (st : St) :
    execB cfg false b' st = execB cfg false b st :=
  rewriteB_exec cfg (hoistRw_ok cfg _) b path noFacts b' h hwf hn st
    (by intro a f x h; simp [noFacts] at h) (by intro a f x h; simp [noFacts] at h)

/-- PullSetupOpsOutOfLoops is the insertion of one setup in front of the loop… -/
theorem pull_is_insertion (j : Nat) (path : List Nat) (b b' : Block) (h : applyRule (.pull j) path b = some b') :
    ∃ a fs, insertAt path (.setup a fs) b = some b' :=
  applyRule_pull_insert j path b b' h

/-- …and an inserted setup is not observed by any launch provided every launch of the result stays *total*
for the analysis that forgets a field at the inserted write (`okBb`, a decidable predicate the check
evaluates on every real pull step; it holds for the full-field programs the lowerings emit). -/
theorem pull_preserves (path : List Nat) (a : AccId) (fs : List (Field × Var)) (b b' bg : Block) (cfg : Cfg)
    (h' : insertAt path (.setup a fs) b = some b') (hg : insertAt path (.ghost a fs) b = some bg)
    (hwf : wfB b = true) (hn : nodupB b = true) (hng : noGhostB b' = true)
    (hwfg : wfB bg = true) (hok : okBb cfg.fields bg noFacts = true) (st : St) :
    (execB cfg false b' st).tr = (execB cfg false b st).tr :=
  insert_setup_trace cfg path a fs b b' bg h' hg hwf hn hng hwfg hok st

/-- The same with the taint analysis as side condition (`okTB`: no launch and no effectful call of the result sees a register
field last written by the inserted setup before a real setup re-writes it) — it does not need the launches of *other*
accelerators, or of earlier code, to be total, and no well-formedness of the ghost variant. -/
theorem pull_preserves_taint (path : List Nat) (a : AccId) (fs : List (Field × Var)) (b b' bg : Block) (cfg : Cfg)
    (h' : insertAt path (.setup a fs) b = some b') (hg : insertAt path (.ghost a fs) b = some bg)
    (hwf : wfB b = true) (hn : nodupB b = true) (hng : noGhostB b' = true)
    (hok : okTB cfg.fields bg [] = true) (st : St) :
    (execB cfg false b' st).tr = (execB cfg false b st).tr :=
  insert_setup_trace_taint cfg path a fs b b' bg h' hg hwf hn hng hok st

/-- The greedy driver's erase of a trivially dead statement (side-effect free, results unused — `dceSide`
is that "unused" condition, evaluated on every real dce step): registers and trace are unchanged. -/
theorem dce_preserves (path : List Nat) (b b' : Block) (h : applyRule .dce path b = some b')
    (hside : dceSide path b b' = true) (cfg : Cfg) (st : St) :
    (execB cfg false b' st).tr = (execB cfg false b st).tr :=
  (dce_trace cfg path b b' h hside st).2

/-- One validated rewrite step of the pass. -/
inductive StepOK (cfg : Cfg) : Block → Block → Prop where
  | simplify (path) {b b'} : applyRule .simplify path b = some b' → wfB b = true → nodupB b = true → StepOK cfg b b'
  | merge (path) {b b'} : applyRule .merge path b = some b' → wfB b = true → nodupB b = true → StepOK cfg b b'
  | elide (path) {b b'} : applyRule .elide path b = some b' → wfB b = true → nodupB b = true → StepOK cfg b b'
  | hoist (path) {b b'} : applyRule .hoist path b = some b' → wfB b = true → nodupB b = true → StepOK cfg b b'
  | pull (j path a fs bg) {b b'} : applyRule (.pull j) path b = some b' →
      insertAt path (.setup a fs) b = some b' → insertAt path (.ghost a fs) b = some bg →
      wfB b = true → nodupB b = true → noGhostB b' = true → wfB bg = true → okBb cfg.fields bg noFacts = true →
      StepOK cfg b b'
  | pullT (j path a fs bg) {b b'} : applyRule (.pull j) path b = some b' →
      insertAt path (.setup a fs) b = some b' → insertAt path (.ghost a fs) b = some bg →
      wfB b = true → nodupB b = true → noGhostB b' = true → okTB cfg.fields bg [] = true → StepOK cfg b b'
  | dce (path) {b b'} : applyRule .dce path b = some b' → dceSide path b b' = true → StepOK cfg b b'

/-- Any sequence of validated steps, in any order (whatever the greedy driver chooses). -/
inductive Chain (cfg : Cfg) : Block → Block → Prop where
  | refl (b) : Chain cfg b b
  | step {b b' b''} : StepOK cfg b b' → Chain cfg b' b'' → Chain cfg b b''

theorem step_preserves {cfg : Cfg} {b b' : Block} (h : StepOK cfg b b') (st : St) :
    (execB cfg false b' st).tr = (execB cfg false b st).tr := by
  cases h with
  | simplify path h hwf hn => rw [simplify_preserves path _ _ h hwf hn]
  | merge path h hwf hn => rw [merge_preserves path _ _ h hwf hn]
  | elide path h hwf hn => rw [elide_preserves path _ _ h hwf hn]
  | hoist path h hwf hn => rw [hoist_preserves path _ _ h hwf hn]
  | pull j path a fs bg _ h' hg hwf hn hng hwfg hok => exact pull_preserves path a fs _ _ bg cfg h' hg hwf hn hng hwfg hok st
  | pullT j path a fs bg _ h' hg hwf hn hng hok => exact pull_preserves_taint path a fs _ _ bg cfg h' hg hwf hn hng hok st
  | dce path h hside => exact dce_preserves path _ _ h hside cfg st

/-- **C01.** Deduplication never changes the sequence of launches/awaits/calls nor the register contents any
launch observes: for every chain of rewrite steps, every execution (initial environment and registers, branch
outcomes, trip counts, clobbering calls), including the trivially-dead erase steps of the xDSL driver.
The side conditions inside `StepOK` (SSA well-formedness, unique field names per setup, `okBb` for pull,
`dceSide` for dce) are decidable and evaluated by the check on every step of every real run. -/
theorem dedup_preserves {cfg : Cfg} {b b' : Block} (h : Chain cfg b b') (st : St) :
    (execB cfg false b' st).tr = (execB cfg false b st).tr := by
  induction h with
  | refl => rfl
  | step hs _ ih => rw [ih, step_preserves hs]

/-- Non-vacuity: on the C07 demo program (two alternating configurations in a loop) `simplify` fires on the
second setup of the loop body and drops field `B`. -/
example : (applyRule .simplify [2, 0, 2] C07.demo).isSome = true := by decide

end SnaxVerif.C01
