import SnaxVerif.Lemmas.Loops
/-!
# C17 — Loop restructuring preserves the executed operation sequence

`trace I b env` = the side-effecting operations executed by block `b` from environment `env`, in order, with
their evaluated index / size operands (`I` interprets the uninterpreted pure operations). Every theorem
quantifies over all programs around the rewritten position (`applyAt_trace`), all bodies, all bounds, all
environments (= all inputs: dynamic bounds, memref shapes) and all interpretations `I`.
-/
namespace SnaxVerif.C17
open SnaxVerif.Loops

/-- The property for one rewrite function on a block suffix. -/
def Preserves (f : Blk → Except Err Blk) : Prop :=
  ∀ b b', f b = .ok b' → ∀ (I : Nat → List Val → Val) (e : Env), trace I b' e = trace I b e

/-- a rewrite that preserves the trace of the suffix it is anchored at preserves the trace of every program
that contains the suffix at any position (any loop nest around it, any trip counts) -/
theorem anywhere (f : Blk → Except Err Blk) (hf : Preserves f) (prog prog' : Blk) (p : List Nat)
    (h : applyAt f prog p = .ok prog') (I : Nat → List Val → Val) (e : Env) :
    trace I prog' e = trace I prog e :=
  applyAt_trace I f (fun b b' hb e => hf b b' hb I e) prog p prog' h e

/-! ## ChangeForStep (with fix F03) -/

/-- full: normalising a positive constant step to 1 with `ceil(ub/step)` iterations and `i = step * j` -/
theorem changeStep_trace (fresh : Var) (b b' : Blk) (h : changeStep true fresh b = .ok b')
    (hpos : positiveStep b = true) (I : Nat → List Val → Val) (e : Env) : trace I b' e = trace I b e := by
  unfold changeStep at h
  split at h
  next iv lb ub st body rest =>
    simp only [positiveStep, decide_eq_true_eq] at hpos
    split at h
    · simp at h
    next hlb =>
      simp only [ne_eq, Decidable.not_not] at hlb
      subst hlb
      split at h
      · simp at h
      split at h
      · simp at h
      split at h
      · simp at h
      next hfr =>
        simp only [Bool.or_eq_true, decide_eq_true_eq, List.contains_eq_mem, not_or] at hfr
        obtain ⟨hfi, hfb⟩ := hfr
        simp only [if_true, Except.ok.injEq] at h
        subst h
        simp only [trace, Arg.eval, Val.toInt]
        congr 1
        rw [changeStep_iters ub st hpos, List.flatMap_map]
        apply flatMap_congr'
        intro j _
        simp only [evalArgs, List.map, Arg.eval, upd_same, OpKind.apply, bin, Val.toInt]
        apply trace_congr
        intro v hv
        have hvf : v ≠ fresh := fun hh => hfb (by simp [allVars, ← hh, hv])
        by_cases hvi : v = iv
        · subst hvi; simp [upd]
        · simp [upd, hvi, hvf]
  · simp at h

example : changeStep true 9 (.loop 0 (.cst 0) (.cst 10) (.cst 3) (.eff 7 [.var 0] .nil) .nil)
    = .ok (.loop 9 (.cst 0) (.cst 4) (.cst 1) (.pure 0 .mul [.cst 3, .var 9] (.eff 7 [.var 0] .nil)) .nil)
    ∧ positiveStep (.loop 0 (.cst 0) (.cst 10) (.cst 3) (.eff 7 [.var 0] .nil) .nil) = true := ⟨rfl, rfl⟩

def wStep : Blk := .loop 0 (.cst 0) (.cst 10) (.cst 3) (.eff 7 [.var 0] .nil) .nil

/-- D17 (repaired by F03): the upstream trip count `ub // step` loses the iteration `i = 9` of `0..10 step 3` -/
theorem changeStep_floor_fails :
    ¬ (∀ fresh b b', changeStep false fresh b = .ok b' → positiveStep b = true →
        ∀ (I : Nat → List Val → Val) (e : Env), trace I b' e = trace I b e) := by
  intro h
  have h1 := h 9 wStep _ rfl (by decide) (fun _ _ => .int 0) (fun _ => .int 0)
  revert h1
  decide

/-! ## MergeForLoops -/

/-- the property at full strength (false of the code: D18, DC17a) -/
def mergeLoops_statement : Prop := ∀ fresh j, Preserves (mergeLoops false fresh j)

/-- partial. Clauses: `PerfectNest` (only value computations beside the inner loop in the parent body),
`NonNegBounds` (both constant upper bounds are ≥ 0). -/
theorem mergeLoops_trace_partial (g : Bool) (fresh : Var) (j : Nat) (b b' : Blk) (h : mergeLoops g fresh j b = .ok b')
    (PerfectNest : perfectNestAt j b = true) (NonNegBounds : nonNegBoundsAt j b = true)
    (I : Nat → List Val → Val) (e : Env) : trace I b' e = trace I b e := by
  unfold mergeLoops at h
  split at h
  next i lbp ubp stp pbody rest =>
    split at h
    next pre jv lb ub st ibody irest hsp =>
      simp only [perfectNestAt, hsp, Bool.and_eq_true] at PerfectNest
      simp only [nonNegBoundsAt, hsp, Bool.and_eq_true, decide_eq_true_eq] at NonNegBounds
      obtain ⟨hpre, hirest⟩ := PerfectNest
      obtain ⟨hub, hubp⟩ := NonNegBounds
      have hpb := splitAt_append j pbody _ _ hsp
      split at h
      · simp at h
      next hc =>
        simp only [Bool.or_eq_true, ne_eq, not_or, Decidable.not_not, decide_eq_true_eq] at hc
        obtain ⟨⟨⟨hlb, hlbp⟩, hst⟩, hstp⟩ := hc
        subst hlb; subst hlbp; subst hst; subst hstp
        split at h
        · simp at h
        split at h
        · simp at h
        next hfr =>
          simp only [Bool.or_eq_true, decide_eq_true_eq, List.contains_eq_mem, not_or] at hfr
          obtain ⟨⟨hfi, hfj⟩, hfb⟩ := hfr
          simp only [Except.ok.injEq] at h
          subst h
          have hfu : fresh ∉ usesOf pre ∧ fresh ∉ usesOf ibody := by
            constructor
            · intro hh; apply hfb; rw [hpb]
              simp [allVars, mem_usesOf_append, hh]
            · intro hh; apply hfb; rw [hpb]
              simp [allVars, mem_usesOf_append, usesOf, hh]
          have hfd : fresh ∉ defsTop pre := by
            intro hh; apply hfb; rw [hpb]
            simp [allVars, mem_defsAll_append, defsTop_sub_defsAll _ _ hh]
          simp only [trace, Arg.eval, Val.toInt]
          congr 1
          have hR : ∀ a : Int, trace I pbody (upd e i (.int a))
              = (iters 0 ub 1).flatMap (fun c => trace I ibody (upd (runPure I pre (upd e i (.int a))) jv (.int c))) := by
            intro a
            rw [hpb, trace_append_pure_left I pre _ _ hpre]
            simp only [trace, Arg.eval, Val.toInt, trace_pureOnly I irest _ hirest, List.append_nil]
          have hL : ∀ k : Int,
              trace I (.pure i .divui [.var fresh, .cst ub]
                  (append pre (.pure jv .remui [.var fresh, .cst ub] (append ibody irest)))) (upd e fresh (.int k))
              = trace I ibody (upd (runPure I pre (upd e i (.int (k / ub)))) jv (.int (k % ub))) := by
            intro k
            simp only [trace, evalArgs, List.map, Arg.eval, upd_same, OpKind.apply, bin, Val.toInt]
            rw [trace_append_pure_left I pre _ _ hpre]
            simp only [trace, evalArgs, List.map, Arg.eval, OpKind.apply, bin]
            rw [trace_append_pureOnly_right I ibody irest _ hirest, runPure_other I pre _ fresh hfd,
              upd_other _ _ _ _ hfi, upd_same]
            simp only [Val.toInt]
            apply trace_congr
            intro v hv
            have hvf : v ≠ fresh := fun hh => hfu.2 (hh ▸ hv)
            by_cases hvj : v = jv
            · subst hvj; simp [upd]
            · rw [upd_other _ _ _ _ hvj, upd_other _ _ _ _ hvj]
              apply runPure_agree I pre _ _ fresh hfu.1 _ v hvf
              intro w hw
              by_cases hwi : w = i
              · subst hwi; simp [upd]
              · simp [upd, hwi, hw]
          refine Eq.trans (flatMap_congr'
            (g := fun k => trace I ibody (upd (runPure I pre (upd e i (.int (k / ub)))) jv (.int (k % ub))))
            (fun k _ => ?_)) ?_
          · have := hL k
            simpa only [trace] using this
          · rw [flatMap_congr' (fun a _ => hR a)]
            exact merge_flat ub ubp hub hubp
              (fun a c => trace I ibody (upd (runPure I pre (upd e i (.int a))) jv (.int c)))
    · simp at h
  · simp at h


/-- a 2 x 3 nest with a side-effecting op before and after the inner loop (witness of D18) -/
def wImperfect : Blk :=
  .loop 0 (.cst 0) (.cst 2) (.cst 1)
    (.eff 1 [.var 0] (.loop 1 (.cst 0) (.cst 3) (.cst 1) (.eff 2 [.var 0, .var 1] .nil) (.eff 3 [.var 0] .nil))) .nil

/-- a perfect 2 x 3 nest whose parent body starts with a value computation (what ChangeForStep leaves behind) -/
def wPerfect : Blk :=
  .loop 0 (.cst 0) (.cst 2) (.cst 1)
    (.pure 5 .mul [.cst 2, .var 0] (.loop 1 (.cst 0) (.cst 3) (.cst 1) (.eff 2 [.var 5, .var 1] .nil) .nil)) .nil

/-- `for i = 0 to -2 { for j = 0 to -3 { op } }` (witness of DC17a) -/
def wNegative : Blk :=
  .loop 0 (.cst 0) (.cst (-2)) (.cst 1)
    (.loop 1 (.cst 0) (.cst (-3)) (.cst 1) (.eff 2 [.var 0, .var 1] .nil) .nil) .nil

example : (∃ b', mergeLoops false 9 1 wPerfect = .ok b') ∧ perfectNestAt 1 wPerfect = true ∧ nonNegBoundsAt 1 wPerfect = true :=
  ⟨⟨_, rfl⟩, rfl, rfl⟩

/-- D18: without the clause `PerfectNest` the statement is false (ops beside the inner loop run `ub` times more) -/
theorem mergeLoops_imperfect_fails :
    ¬ (∀ fresh j b b', mergeLoops false fresh j b = .ok b' → nonNegBoundsAt j b = true →
        ∀ (I : Nat → List Val → Val) (e : Env), trace I b' e = trace I b e) := by
  intro h
  have h1 := h 9 1 wImperfect _ rfl (by decide) (fun _ _ => .int 0) (fun _ => .int 0)
  revert h1
  decide

/-- DC17a: without the clause `NonNegBounds` the statement is false (two negative bounds multiply to a positive one) -/
theorem mergeLoops_negative_fails :
    ¬ (∀ fresh j b b', mergeLoops false fresh j b = .ok b' → perfectNestAt j b = true →
        ∀ (I : Nat → List Val → Val) (e : Env), trace I b' e = trace I b e) := by
  intro h
  have h1 := h 9 0 wNegative _ rfl (by decide) (fun _ _ => .int 0) (fun _ => .int 0)
  revert h1
  decide

/-- with the proposed fix FC17a (`if ub < 0 or ub_parent < 0: return`) the clause `NonNegBounds` is established by the
code itself: only `PerfectNest` remains -/
theorem mergeLoops_guarded_trace_partial (fresh : Var) (j : Nat) (b b' : Blk) (h : mergeLoops true fresh j b = .ok b')
    (PerfectNest : perfectNestAt j b = true) (I : Nat → List Val → Val) (e : Env) : trace I b' e = trace I b e := by
  refine mergeLoops_trace_partial true fresh j b b' h PerfectNest ?_ I e
  unfold mergeLoops at h
  split at h
  next i lbp ubp stp pbody rest =>
    split at h
    next pre jv lb ub st ibody irest hsp =>
      split at h
      · simp at h
      split at h
      · simp at h
      next hg =>
        simp only [Bool.true_and, Bool.or_eq_true, decide_eq_true_eq, not_or, Int.not_lt] at hg
        simp [nonNegBoundsAt, hsp, hg.1, hg.2]
    · simp at h
  · simp at h

example : mergeLoops true 9 0 wNegative = .error .noMatch := rfl

theorem mergeLoops_fails : ¬ mergeLoops_statement := by
  intro h
  exact mergeLoops_imperfect_fails (fun fresh j b b' hb _ I e => h fresh j b b' hb I e)

/-! ## LoopHoistPureOperations -/

/-- moving a value computation whose operands are neither the induction variable nor defined earlier in the body in
front of the loop, for every trip count (zero included), every position in the body and every loop body -/
theorem hoistCore_trace (j : Nat) : Preserves (hoistCore j) := by
  intro b b' h I e
  unfold hoistCore at h
  split at h
  next iv lb ub st body rest =>
    split at h
    next pre d op args suf hsp =>
      have hb := splitAt_append j body _ _ hsp
      split at h
      · simp at h
      next hg =>
        simp only [List.any_eq_true, Bool.or_eq_true, List.contains_eq_mem, decide_eq_true_eq, not_exists,
          not_and, not_or] at hg
        split at h
        · simp at h
        next hs =>
          simp only [Bool.or_eq_true, decide_eq_true_eq, List.contains_eq_mem, not_or] at hs
          obtain ⟨⟨⟨hdiv, hdpre⟩, hdb⟩, hdr⟩ := hs
          simp only [Except.ok.injEq] at h
          subst h
          obtain ⟨h1, h2, h3⟩ := not_mem_argVars3 hdb
          have hiv : iv ∉ argVars args := fun hh => (hg iv hh).1 rfl
          simp only [trace]
          rw [argEval_upd_of_not_mem _ _ _ _ h1, argEval_upd_of_not_mem _ _ _ _ h2,
            argEval_upd_of_not_mem _ _ _ _ h3,
            trace_congr I rest _ e (fun v hv => upd_other e d v _ (fun hh => hdr (hh ▸ hv)))]
          congr 1
          apply flatMap_congr'
          intro i _
          rw [hb, hoist_lemma I d op args suf pre _ hdpre (fun v hv => (hg v hv).2),
            evalArgs_upd_of_not_mem _ _ _ _ hiv, upd_comm _ _ _ _ _ (Ne.symm hdiv)]
    · simp at h
  · simp at h

/-- full: `LoopHoistPureOperations` (pure operation or allocation, operands defined outside the loop) -/
theorem hoistPure_trace (bargs : List Var) (j : Nat) : Preserves (hoist bargs j) := by
  intro b b' h I e
  unfold hoist at h
  split at h
  · exact hoistCore_trace j b b' h I e
  · simp at h

def wHoist : Blk :=
  .loop 0 (.cst 0) (.var 7) (.cst 1)
    (.eff 1 [.var 0] (.pure 2 .alloc [.var 8, .cst 4] (.eff 3 [.var 2] .nil))) .nil

example : hoist [0, 7] 1 wHoist = .ok (.pure 2 .alloc [.var 8, .cst 4]
    (.loop 0 (.cst 0) (.var 7) (.cst 1) (.eff 1 [.var 0] (.eff 3 [.var 2] .nil)) .nil)) := rfl

/-- full: the driver's dead-code step (an unused value computation, or a loop without effects) -/
theorem dce_trace : Preserves dce := by
  intro b b' h I e
  unfold dce at h
  split at h
  next d op args rest =>
    split at h
    next hc =>
      simp only [Bool.and_eq_true, Bool.not_eq_true', List.contains_eq_mem, decide_eq_false_iff_not] at hc
      simp only [Except.ok.injEq] at h
      subst h
      simp only [trace]
      exact trace_congr I rest e _ (fun v hv => (upd_other e d v _ (fun hh => hc.2 (hh ▸ hv))).symm)
    · simp at h
  next iv lb ub st body rest =>
    split at h
    next hc =>
      simp only [Except.ok.injEq] at h
      subst h
      simp only [trace]
      have : ∀ l : List Int, l.flatMap (fun i => trace I body (upd e iv (.int i))) = [] := by
        intro l
        induction l with
        | nil => rfl
        | cons a l ih => rw [List.flatMap_cons, ih, trace_deadBody I body _ hc]; rfl
      rw [this]; rfl
    · simp at h
  · simp at h

example : dce (.loop 0 (.cst 0) (.cst 4) (.cst 1) (.pure 1 .add [.var 0, .cst 1] .nil) (.eff 1 [] .nil))
    = .ok (.eff 1 [] .nil) := rfl

/-! ## MoveMemrefDims -/

/-- the dimension of a subview is its size operand (static sizes are literal operands) -/
theorem moveDim_value (I : Nat → List Val → Val) (rank idx : Nat) (src : Val) (sizes others : List Val)
    (hr : sizes.length = rank) (hi : idx < rank) :
    (OpKind.dim idx).apply I [(OpKind.subview rank).apply I (src :: (sizes ++ others))]
      = .int ((sizes.getD idx (.int 0)).toInt) := by
  simp only [OpKind.apply, List.headD, Val.shape, List.drop_succ_cons, List.drop_zero]
  rw [← hr, List.take_left']
  · congr 1
    rw [List.getD_eq_getElem?_getD, List.getD_eq_getElem?_getD, List.getElem?_map]
    have : idx < sizes.length := by omega
    simp [this]
  · rfl

example : (OpKind.dim 1).apply (fun _ _ => .int 0)
    [(OpKind.subview 2).apply (fun _ _ => .int 0) [.mem [16, 16], .int 8, .int 5, .int 0, .int 0]] = .int 5 := by
  decide

/-- replacing every use of a value by an operand that holds the same value (the `memref.dim` result by the
subview's size operand, `moveDim_value`) preserves the trace of everything below, for all loop nests and
trip counts; `x` and the operand are not redefined (SSA) -/
theorem replaceUses_trace (x : Var) (a : Arg) (b : Blk) (I : Nat → List Val → Val) (e : Env)
    (hval : e x = a.eval e) (hx : x ∉ defsAll b) (ha : ∀ v ∈ argVars [a], v ∉ defsAll b) :
    trace I (subst x a b) e = trace I b e :=
  subst_trace I x a b e hval hx ha

example : subst 3 (.var 1) (.eff 0 [.var 3] (.loop 4 (.cst 0) (.var 3) (.cst 1) (.eff 1 [.var 3, .var 4] .nil) .nil))
    = .eff 0 [.var 1] (.loop 4 (.cst 0) (.var 1) (.cst 1) (.eff 1 [.var 1, .var 4] .nil) .nil) := rfl

/-- the property at full strength for the pattern as it is (false of the code: D24, DC17b) -/
def moveDim_statement : Prop :=
  ∀ bargs prog path prog', moveDim false bargs prog path = .ok prog' →
    ∀ (I : Nat → List Val → Val) (e : Env), trace I prog' e = trace I prog e

/-- WHOLE-PROGRAM theorem for `MoveMemrefDims` (any function body, any position of the matched dim, any def-use chain
length, all trip counts and inputs). Clauses: `NoAffineMinSize` (the size is not an `affine.min` result) and
`NoExistingDimMove` (not an existing dim sitting under another loop) — the latter is not needed for the code with the
proposed fix FC17b (`keepDom = true`). SSA form along the way to the dim is checked by the rule itself. -/
theorem moveDim_trace_core (keepDom : Bool) (bargs : List Var) (prog : Blk) (path : List Nat) (prog' : Blk)
    (h : moveDim keepDom bargs prog path = .ok prog')
    (NoAffineMinSize : noAffineMinSize bargs prog path = true)
    (NoExistingDimMove : keepDom = true ∨ noExistingDimMove bargs prog path = true)
    (I : Nat → List Val → Val) (e : Env) : trace I prog' e = trace I prog e := by
  unfold moveDim at h
  split at h
  next d idx s rest hget =>
    split at h
    · simp at h
    next facts here hctx =>
      split at h
      · simp at h
      split at h
      · simp at h
      split at h
      · simp at h
      next r hr =>
        have hsrc : dimSrcAt bargs prog path = some r := by
          simp only [dimSrcAt, hget, hctx, hr]
        split at h
        · simp at h
        have hv := fun e' (he' : Holds I facts e') => resolveDim_value I facts bargs here e' he' _ s idx r hr
        split at h
        next c =>
          exact applyAt_trace_facts I _ facts here
            (replaceDimUses_local I facts d idx s (.cst c) (fun e' he' => by simpa [DimSrc.agrees, Arg.eval] using hv e' he'))
            prog path [] none prog' hctx h e (Holds_nil I e)
        next m alts =>
          simp [noAffineMinSize, hsrc] at NoAffineMinSize
        next src i =>
          cases h1 : applyAt (replaceDimRhs d idx s src i) prog path with
          | error x => simp [h1, Except.bind, bind] at h
          | ok p1 =>
            simp only [h1, Except.bind, bind] at h
            rw [anywhere _ (hoistCore_trace _) p1 prog' _ h I e]
            exact applyAt_trace_facts I _ facts here
              (replaceDimRhs_local I facts d idx s src i (fun e' he' => by simpa [DimSrc.agrees] using hv e' he'))
              prog path [] none p1 hctx h1 e (Holds_nil I e)
        next w inLoop =>
          split at h
          next hc =>
            simp only [Bool.and_eq_true, Bool.not_eq_true'] at hc
            rcases NoExistingDimMove with hk | hk
            · rw [hk] at hc; simp at hc
            · simp [noExistingDimMove, hsrc, hc.1] at hk
          · exact applyAt_trace_facts I _ facts here
              (replaceDimUses_local I facts d idx s (.var w) (fun e' he' => by simpa [DimSrc.agrees, Arg.eval] using hv e' he'))
              prog path [] none prog' hctx h e (Holds_nil I e)
  · simp at h

/-- partial, for the code as it is. Clauses `NoAffineMinSize`, `NoExistingDimMove`. -/
theorem moveDim_trace_partial (bargs : List Var) (prog : Blk) (path : List Nat) (prog' : Blk)
    (h : moveDim false bargs prog path = .ok prog')
    (NoAffineMinSize : noAffineMinSize bargs prog path = true)
    (NoExistingDimMove : noExistingDimMove bargs prog path = true)
    (I : Nat → List Val → Val) (e : Env) : trace I prog' e = trace I prog e :=
  moveDim_trace_core false bargs prog path prog' h NoAffineMinSize (Or.inr NoExistingDimMove) I e

/-- partial, for the code with the proposed fix FC17b: only `NoAffineMinSize` remains. -/
theorem moveDim_keepDom_trace_partial (bargs : List Var) (prog : Blk) (path : List Nat) (prog' : Blk)
    (h : moveDim true bargs prog path = .ok prog')
    (NoAffineMinSize : noAffineMinSize bargs prog path = true)
    (I : Nat → List Val → Val) (e : Env) : trace I prog' e = trace I prog e :=
  moveDim_trace_core true bargs prog path prog' h NoAffineMinSize (Or.inl rfl) I e

/-- upstream `streamer_matmul_6` reduced: arg 0 = memref, arg 1 = s0 (dynamic);
`for i < 2 { m = min(8, s0 - 6*i); sv = subview a0 [i] [m]; test.op(sv); d = dim sv, 0; al = alloc(d) }` -/
def wMin : Blk :=
  .loop 2 (.cst 0) (.cst 2) (.cst 1)
    (.pure 3 .mul [.cst 6, .var 2]
      (.pure 4 (.amin [(8, [0, 0]), (0, [-1, 1])]) [.var 3, .var 1]
        (.pure 5 (.subview 1) [.var 0, .var 4, .var 2]
          (.eff 0 [.var 5]
            (.pure 6 (.dim 0) [.var 5]
              (.pure 7 .alloc [.var 6] .nil)))))) .nil

def wMinEnv : Env := fun v => if v = 0 then .mem [16] else if v = 1 then .int 10 else .int 0

/-- D24: the size is an `affine.min`: its result is replaced by its constant bound in *every* use, so the
subview handed to the side-effecting op has size 8 instead of min(8, 10 - 6) = 4 in the last iteration.
(The witness satisfies the other clause, `NoExistingDimMove`.) -/
theorem moveDim_min_fails :
    ¬ (∀ bargs prog path prog', moveDim false bargs prog path = .ok prog' → noExistingDimMove bargs prog path = true →
        ∀ (I : Nat → List Val → Val) (e : Env), trace I prog' e = trace I prog e) := by
  intro h
  have h1 := h [0, 1, 2] wMin [0, 4] _ rfl (by decide) (fun _ _ => .int 0) wMinEnv
  revert h1
  decide

/-- args 0,1 = memrefs, 2,3 = sizes;
`for i<2 { sv = subview a1 [n0, n1]; d = dim sv, 0; a = alloc(d, d); op(a);
           for j<2 { sv2 = subview a1 [2, d]; d2 = dim sv2, 1; a2 = alloc(d2, 2); op(a2) } }` -/
def wExisting : Blk :=
  .loop 4 (.cst 0) (.cst 2) (.cst 1)
    (.pure 5 (.subview 2) [.var 1, .var 2, .var 3, .cst 0, .cst 0]
      (.pure 6 (.dim 0) [.var 5]
        (.pure 7 .alloc [.var 6, .var 6]
          (.eff 1 [.var 7]
            (.loop 8 (.cst 0) (.cst 2) (.cst 1)
              (.pure 9 (.subview 2) [.var 1, .cst 2, .var 6, .cst 0, .cst 0]
                (.pure 10 (.dim 1) [.var 9]
                  (.pure 11 .alloc [.var 10, .cst 2]
                    (.eff 2 [.var 11] .nil)))) .nil))))) .nil

def wExistingEnv : Env := fun v => if v = 1 then .mem [6, 6] else if v = 2 then .int 3 else if v = 3 then .int 5 else .int 0

/-- DC17b: the size is an existing `memref.dim` of the enclosing loop: the pattern detaches it and re-inserts it in
front of the inner loop, i.e. *after* its earlier use `alloc(d, d)`: the rewritten program reads `d` before its
definition. (The witness satisfies the other clause, `NoAffineMinSize`.) -/
theorem moveDim_existing_fails :
    ¬ (∀ bargs prog path prog', moveDim false bargs prog path = .ok prog' → noAffineMinSize bargs prog path = true →
        ∀ (I : Nat → List Val → Val) (e : Env), trace I prog' e = trace I prog e) := by
  intro h
  have h1 := h [0, 1, 2, 3, 4, 8] wExisting [0, 4, 1] _ rfl (by decide) (fun _ _ => .int 0) wExistingEnv
  revert h1
  decide

/-- non-vacuity of the whole-program theorem, and the repaired behaviour on the DC17b witness: with `keepDom` the existing
dim stays where it is and only the uses of `d2` change -/
example : moveDim true [0, 1, 2, 3, 4, 8] wExisting [0, 4, 1]
    = .ok (.loop 4 (.cst 0) (.cst 2) (.cst 1)
      (.pure 5 (.subview 2) [.var 1, .var 2, .var 3, .cst 0, .cst 0]
        (.pure 6 (.dim 0) [.var 5]
          (.pure 7 .alloc [.var 6, .var 6]
            (.eff 1 [.var 7]
              (.loop 8 (.cst 0) (.cst 2) (.cst 1)
                (.pure 9 (.subview 2) [.var 1, .cst 2, .var 6, .cst 0, .cst 0]
                  (.pure 11 .alloc [.var 6, .cst 2]
                    (.eff 2 [.var 11] .nil))) .nil))))) .nil)
    ∧ noAffineMinSize [0, 1, 2, 3, 4, 8] wExisting [0, 4, 1] = true := ⟨rfl, rfl⟩

/-- recursive resolution: `q = dim sv, 0` where the size of `sv` at position 0 is `d = dim a0, 1` (kept in the loop by a
side-effecting user): the rebuilt dim queries dimension 1 of `a0` (the INNER dim's index), not dimension 0 -/
example : moveDim false [0, 1, 2]
    (.loop 2 (.cst 0) (.cst 4) (.cst 1)
      (.pure 3 (.dim 1) [.var 0] (.eff 1 [.var 3]
        (.pure 4 (.subview 2) [.var 1, .var 3, .cst 8, .var 2, .cst 0]
          (.pure 5 (.dim 0) [.var 4] (.pure 6 .alloc [.var 5] (.eff 2 [.var 6] .nil)))))) .nil) [0, 3]
    = .ok (.pure 5 (.dim 1) [.var 0]
      (.loop 2 (.cst 0) (.cst 4) (.cst 1)
        (.pure 3 (.dim 1) [.var 0] (.eff 1 [.var 3]
          (.pure 4 (.subview 2) [.var 1, .var 3, .cst 8, .var 2, .cst 0]
            (.pure 6 .alloc [.var 5] (.eff 2 [.var 6] .nil))))) .nil)) := rfl

theorem moveDim_fails : ¬ moveDim_statement := by
  intro h
  exact moveDim_min_fails (fun bargs prog path prog' hp _ I e => h bargs prog path prog' hp I e)

/-- the model's dim move (a local rewrite below the dim) IS what the pattern does on the whole function
(`dim_op.results[0].replace_all_uses_with(new)` + erase), for the two size kinds that are rewritten in place: a static /
constant size and an existing dim that is not moved. (For a dim of an argument the pattern itself works locally: it
creates the new dim in front of the loop.) -/
theorem moveDim_eq_replaceAllUses (k : Bool) (bargs : List Var) (prog : Blk) (path : List Nat) (q : Blk)
    (d : Var) (idx : Nat) (s : Var) (rest : Blk)
    (hget : getAt prog path = some (.pure d (.dim idx) [.var s] rest))
    (h : moveDim k bargs prog path = .ok q) :
    (∀ c, dimSrcAt bargs prog path = some (.const c) → applyAt removeStmt (subst d (.cst c) prog) path = .ok q)
    ∧ (∀ w, dimSrcAt bargs prog path = some (.existing w false) →
        applyAt removeStmt (subst d (.var w) prog) path = .ok q) := by
  unfold moveDim at h
  simp only [hget] at h
  split at h
  · simp at h
  next facts here hctx =>
    split at h
    · simp at h
    split at h
    · simp at h
    split at h
    · simp at h
    next r hr =>
      have hsrc : dimSrcAt bargs prog path = some r := by
        simp only [dimSrcAt, hget, hctx, hr]
      split at h
      · simp at h
      next hcnt =>
        simp only [ne_eq, Decidable.not_not] at hcnt
        constructor
        · intro c hc
          rw [hsrc] at hc
          simp only [Option.some.injEq] at hc
          subst hc
          exact replaceAllUses_global_eq_local d idx s (.cst c) prog path q rest hget hcnt h
        · intro w hw
          rw [hsrc] at hw
          simp only [Option.some.injEq] at hw
          subst hw
          simp only [Bool.false_and, Bool.false_eq_true, if_false] at h
          exact replaceAllUses_global_eq_local d idx s (.var w) prog path q rest hget hcnt h

/-- the closed-form trip count of the trace semantics is the while loop `i = lb; while i < ub { …; i += st }`:
same iteration values in the same order, for every positive step and every fuel ≥ the trip count (so the loop has exited) -/
theorem iters_operational (lb ub st : Int) (hst : 0 < st) (fuel : Nat) (h : tripCount lb ub st ≤ fuel) :
    iters lb ub st = whileIters ub st fuel lb :=
  iters_eq_whileIters ub st hst fuel lb h

example : iters 2 11 3 = [2, 5, 8] ∧ whileIters 11 3 7 2 = [2, 5, 8] := by decide

/-! ## Whole passes: closed under arbitrary rewrite sequences

Whatever order, positions and number of rewrites the greedy driver chooses — in particular iterated merges of nests of
any depth, each merge re-indexing the result of the previous one — the final program has the trace of the original,
as long as every step is inside the clauses. The harness checks for every real step that it is an instance of the
model rule; steps outside the clauses are exactly the known findings. -/

theorem changeStepG_preserves (fresh : Var) : Preserves (changeStepG fresh) := by
  intro b b' h I e
  unfold changeStepG at h
  split at h
  next hp => exact changeStep_trace fresh b b' h hp I e
  · simp at h

theorem mergeLoopsG_preserves (g : Bool) (fresh : Var) (j : Nat) : Preserves (mergeLoopsG g fresh j) := by
  intro b b' h I e
  unfold mergeLoopsG at h
  split at h
  next hp =>
    simp only [Bool.and_eq_true] at hp
    exact mergeLoops_trace_partial g fresh j b b' h hp.1 hp.2 I e
  · simp at h

theorem canonStep_trace (g : Bool) (p q : Blk) (h : CanonStep g p q) (I : Nat → List Val → Val) (e : Env) :
    trace I q e = trace I p e := by
  obtain ⟨path, h | h | h⟩ := h
  · obtain ⟨fresh, h⟩ := h
    exact anywhere _ (changeStepG_preserves fresh) p q path h I e
  · obtain ⟨fresh, j, h⟩ := h
    exact anywhere _ (mergeLoopsG_preserves g fresh j) p q path h I e
  · exact anywhere _ dce_trace p q path h I e

theorem reuseStep_trace (k : Bool) (nargs : Nat) (p q : Blk) (h : ReuseStep k nargs p q)
    (I : Nat → List Val → Val) (e : Env) : trace I q e = trace I p e := by
  obtain ⟨path, h | h | h⟩ := h
  · obtain ⟨j, h⟩ := h
    exact anywhere _ (hoistPure_trace _ j) p q path h I e
  · exact anywhere _ dce_trace p q path h I e
  · exact moveDim_trace_core k _ p path q h.1 h.2.1 h.2.2 I e

theorem star_trace (R : Blk → Blk → Prop)
    (hR : ∀ p q, R p q → ∀ (I : Nat → List Val → Val) (e : Env), trace I q e = trace I p e)
    (p q : Blk) (h : Star R p q) (I : Nat → List Val → Val) (e : Env) : trace I q e = trace I p e := by
  induction h with
  | refl p => rfl
  | step hpq _ ih => rw [ih, hR _ _ hpq I e]

/-- `pipeline-canonicalize-for` (with F03): any sequence of step normalisations, merges (within `PerfectNest`,
`NonNegBounds`) and dead-code steps, at any positions — nests of any depth merged level by level included -/
theorem canonicalizeFor_sequence_trace (g : Bool) (p q : Blk) (h : Star (CanonStep g) p q)
    (I : Nat → List Val → Val) (e : Env) : trace I q e = trace I p e :=
  star_trace _ (canonStep_trace g) p q h I e

/-- `reuse-memref-allocs`: any sequence of hoists, dim moves (within `NoAffineMinSize`, `NoExistingDimMove`) and
dead-code steps, at any positions -/
theorem reuseMemrefAllocs_sequence_trace (k : Bool) (nargs : Nat) (p q : Blk) (h : Star (ReuseStep k nargs) p q)
    (I : Nat → List Val → Val) (e : Env) : trace I q e = trace I p e :=
  star_trace _ (reuseStep_trace k nargs) p q h I e

/-- a depth-3 nest `4 x 3 x 2` with steps 1: two merges in a row (inner pair first, then with the outer loop) -/
def wDepth3 : Blk :=
  .loop 0 (.cst 0) (.cst 4) (.cst 1)
    (.loop 1 (.cst 0) (.cst 3) (.cst 1)
      (.loop 2 (.cst 0) (.cst 2) (.cst 1) (.eff 1 [.var 0, .var 1, .var 2] .nil) .nil) .nil) .nil

example : ∃ q1 q2, applyAt (mergeLoopsG false 10 0) wDepth3 [0, 0] = .ok q1
    ∧ applyAt (mergeLoopsG false 11 0) q1 [0] = .ok q2
    ∧ q2 = .loop 11 (.cst 0) (.cst 24) (.cst 1)
        (.pure 0 .divui [.var 11, .cst 6]
          (.pure 10 .remui [.var 11, .cst 6]
            (.pure 1 .divui [.var 10, .cst 2]
              (.pure 2 .remui [.var 10, .cst 2] (.eff 1 [.var 0, .var 1, .var 2] .nil))))) .nil :=
  ⟨_, _, rfl, rfl, rfl⟩

end SnaxVerif.C17
