import SnaxVerif.Lemmas.CyclicLayout
import SnaxVerif.Lemmas.CyclicLayoutDeep
import SnaxVerif.Lemmas.CyclicLayoutTsl
import SnaxVerif.Lemmas.CyclicLayoutGlobal
/-!
# C09 — chosen memory layouts are one-to-one on the operand

Model: `Model/CyclicLayout.lean` (`set_memory_layout.py` with fix F15, `TiledStride.canonicalize`,
`TiledStridedLayoutAttr.get_affine_map`). Vocabulary (`InShape`, `Covers`, `InjectiveOn`, `InBox`,
`SpanLt`, `Inj`) is defined in `Lemmas/CyclicLayout.lean`. Statements and theorems only.
-/
namespace SnaxVerif.C09
open SnaxVerif.CyclicLayout

/-! ## access granularity -/

/-- padding never shrinks a stride -/
theorem granularity_ge (s g : Nat) : s ≤ pad s g := pad_ge s g

/-- the padded stride is a multiple of the granularity, for every granularity dividing 64 -/
theorem granularity_dvd (s g : Nat) (hg : g ∣ 64) : g ∣ pad s g := pad_dvd s g hg

/-- `ensure_access_granularity`: the result is never smaller than the running stride and, unless the
running stride is 1, it is a multiple of the granularity the code selected (8/16 temporal, 8/2
spatial) — for every stride, schedule dimension, template rank and element width. -/
theorem ensure_granularity (sp w cur k c : Nat)
    (h : ensureGranularity (some sp) (some w) cur k = .ok c) :
    cur ≤ c ∧ (cur ≠ 1 → gran sp w k ∣ c) := by
  refine ⟨ensure_ge h, fun h1 => ?_⟩
  simp only [ensureGranularity, if_neg h1] at h
  cases h
  exact pad_dvd _ _ (gran_dvd_64 sp w k)

/-! ## the strides form a chain -/

/-- `cyclic_chain`: at every iteration of the schedule loop (after any prefix `pre` of the schedule
dimensions, innermost first) the iteration either changes nothing or pushes ONE new outermost
stride `st` on one operand dimension, and `st.step ≥ p.step * p.bound` for every stride `p` created
before; the running stride becomes `st.step * st.bound`. -/
theorem cyclic_chain (c : Cfg) (hpos : ∀ n ∈ c.shape, 0 < n)
    (pre : List (Nat × List Int)) (S : Layout) (cur : Nat)
    (hpre : walk c pre 0 (initState c.shape) = .ok (S, cur))
    (k b : Nat) (col : List Int) (S' : Layout) (cur' : Nat)
    (hstep : stepCol c (S, cur) k b col = .ok (S', cur')) :
    (S' = S ∧ cur' = cur) ∨
    ∃ (d : Nat) (l : List Stride) (st : Stride), S[d]? = some l ∧ S' = S.set d (st :: l) ∧
      cur' = st.step * st.bound ∧ cur ≤ st.step ∧ ∀ l' ∈ S, ∀ p ∈ l', p.step * p.bound ≤ st.step := by
  have hI := inv_walk hpos pre 0 _ _ S cur (inv_init c.shape) hpre
  rcases stepCol_cases hstep with h | ⟨d, l, n, cu, hl, _, hcu, h1, h2⟩
  · exact Or.inl h
  · exact Or.inr ⟨d, l, ⟨cu, _⟩, hl, h1, h2, hcu,
      fun l' hl' p hp => Nat.le_trans (hI.chain l' hl' p hp) hcu⟩

/-- Layouts built by pushing outermost strides whose step is at least the running stride
(generalised mixed radix with gaps; the running stride may grow arbitrarily in between). -/
inductive Built : Layout → Nat → Prop
  | init (rank : Nat) : Built (List.replicate rank []) 1
  | grow {S : Layout} {cur c : Nat} : Built S cur → cur ≤ c → Built S c
  | push {S : Layout} {cur d : Nat} {l : List Stride} (b : Nat) :
      Built S cur → S[d]? = some l → 0 < b → Built (S.set d (⟨cur, b⟩ :: l)) (cur * b)

/-- `chain_injective`: every layout satisfying the chain condition is one-to-one on the box of its own
bounds, and all its addresses are below the running stride — for every rank, tiling depth, bound
and gap. -/
theorem chain_injective {S : Layout} {cur : Nat} (h : Built S cur) :
    Inj S ∧ SpanLt S cur ∧ ∀ l ∈ S, 0 < prodB l := by
  induction h with
  | init rank =>
    have hI := inv_init (List.replicate rank 1)
    have e : (initState (List.replicate rank 1)).1 = List.replicate rank [] := by
      simp [initState]
    rw [e] at hI
    refine ⟨hI.inj, hI.span, ?_⟩
    intro l hl
    rw [(List.mem_replicate.mp hl).2]; simp [prodB]
  | grow _ hle ih =>
    exact ⟨ih.1, fun idx hb => Nat.lt_of_lt_of_le (ih.2.1 idx hb) hle, ih.2.2⟩
  | @push S cur d l b _ hl hb ih =>
    have hP := ih.2.2 l (List.mem_of_getElem? hl)
    obtain ⟨hsp, hinj⟩ := push_inv (st := ⟨cur, b⟩) hl hP (Nat.le_refl _) ih.2.1 ih.1
    refine ⟨hinj, hsp, ?_⟩
    intro l' hl'
    rcases List.mem_or_eq_of_mem_set hl' with h | h
    · exact ih.2.2 l' h
    · subst h; simp only [prodB]; exact Nat.mul_pos hb hP

/-! ## coverage and injectivity of the chosen layouts (code with fix F15) -/

/-- `covers`: the layout chosen for an operand has one entry per operand dimension and the bounds of
every dimension multiply to exactly the extent of that dimension — for every schedule (any
coefficients, any order, reduction/broadcast/diagonal dimensions, bounds not dividing the shape),
shape with positive extents, element width, template rank, tiled or not. -/
theorem covers (c : Cfg) (L : Layout) (hpos : ∀ n ∈ c.shape, 0 < n)
    (h : cyclicLayout true c = .ok L) : Covers L c.shape :=
  (cyclicLayout_spec hpos h).1

/-- the chosen layout sends distinct elements of the operand to distinct addresses -/
theorem layout_injective (c : Cfg) (L : Layout) (hpos : ∀ n ∈ c.shape, 0 < n)
    (h : cyclicLayout true c = .ok L) : InjectiveOn L c.shape :=
  (cyclicLayout_spec hpos h).2

/-- The property for a whole `dart.schedule` op, at full strength. -/
def C09_statement (fixed : Bool) : Prop :=
  ∀ (tiled : Bool) (spatial : Option Nat) (bounds : List Int) (ops : List Operand) (Ls : List Layout),
    rewriteOp fixed tiled spatial bounds ops = .ok (some Ls) →
    Ls.length = ops.length ∧
    ∀ (i : Nat) (o : Operand) (L : Layout), ops[i]? = some o → Ls[i]? = some L →
      Covers L o.shape ∧ InjectiveOn L o.shape

/-- **C09** for the code with F15: whenever the pattern rewrites an op, every operand gets a layout
that covers exactly its shape and is one-to-one on it. No side condition: the model answers
`outsideModel` for zero-sized dimensions, and Python exceptions are `error`s, not layouts. -/
theorem C09_injective : C09_statement true := by
  intro tiled spatial bounds ops Ls h
  unfold rewriteOp at h
  split at h
  · cases h
  · split at h
    · cases h
    · split at h
      · cases h
      · rename_i ls hls
        cases h
        obtain ⟨hlen, hall⟩ := mapE_ok hls
        exact ⟨hlen, fun i o L ho hL => operandLayout_spec (hall i o L ho hL)⟩

/-- Operands that already carry an explicit (TSL) layout are left untouched: the op is not
rewritten at all, whatever the other inputs are; and that is the only way to get a no-op. -/
theorem explicit_untouched (fixed tiled : Bool) (spatial : Option Nat) (bounds : List Int) (ops : List Operand) :
    rewriteOp fixed tiled spatial bounds ops = .ok none ↔ ∃ o ∈ ops, o.hasTsl = true := by
  unfold rewriteOp
  constructor
  · intro h
    split at h
    · rename_i hany; exact List.any_eq_true.mp hany
    · split at h
      · cases h
      · split at h <;> cases h
  · intro h
    rw [if_pos (List.any_eq_true.mpr h)]

/-! ## the upstream code (without F15) violates the property: finding D22 -/

/-- the witness of D22: `memref<4x4x2xi8>`, bounds `[2,2,4]`, pattern `(d0,d1,d2) -> (3*d1, d2, d0)`,
`tiled = true`, one spatial dimension (snax_alu) -/
def d22Operand : Operand :=
  { shape := [4, 4, 2], elBits := some 8, hasTsl := false, ndims := 3,
    rows := [[0, 3, 0], [0, 0, 1], [1, 0, 0]] }

/-- upstream picks `[2] -> (8), [4] -> (1), [2] -> (16)`: dimension 0 (extent 4) is covered by a bound of 2 -/
theorem d22_upstream_layout :
    rewriteOp false true (some 1) [2, 2, 4] [d22Operand] = .ok (some [[[⟨8, 2⟩], [⟨1, 4⟩], [⟨16, 2⟩]]]) := by
  decide +kernel

/-- `C09_strided_alias_fails`: on the upstream code the statement is false — elements `(0,0,1)` and
`(2,0,0)` of the witness operand both live at address 16. -/
theorem C09_strided_alias_fails : ¬ C09_statement false := by
  intro h
  obtain ⟨_, hall⟩ := h true (some 1) [2, 2, 4] [d22Operand] _ d22_upstream_layout
  have hinj := (hall 0 d22Operand _ rfl rfl).2
  have hA : InShape d22Operand.shape [0, 0, 1] := by
    refine ⟨rfl, ?_⟩
    intro d n i hn hi
    match d, hn, hi with
    | 0, hn, hi => simp [d22Operand] at hn hi; omega
    | 1, hn, hi => simp [d22Operand] at hn hi; omega
    | 2, hn, hi => simp [d22Operand] at hn hi; omega
    | _ + 3, hn, _ => simp [d22Operand] at hn
  have hB : InShape d22Operand.shape [2, 0, 0] := by
    refine ⟨rfl, ?_⟩
    intro d n i hn hi
    match d, hn, hi with
    | 0, hn, hi => simp [d22Operand] at hn hi; omega
    | 1, hn, hi => simp [d22Operand] at hn hi; omega
    | 2, hn, hi => simp [d22Operand] at hn hi; omega
    | _ + 3, hn, _ => simp [d22Operand] at hn
  have := hinj [0, 0, 1] [2, 0, 0] hA hB (by decide)
  simp at this

/-- with F15 the same input gets `[2, 2] -> (32, 8), [4] -> (1), [2] -> (16)` -/
theorem d22_fixed_layout :
    rewriteOp true true (some 1) [2, 2, 4] [d22Operand] =
      .ok (some [[[⟨32, 2⟩, ⟨8, 2⟩], [⟨1, 4⟩], [⟨16, 2⟩]]]) := by
  decide +kernel

/-! ## non-vacuity -/

/-- the gemm operand of `set-memory-layout.mlir` (tiled): `[2, 8] -> (128, 8), [2, 8] -> (64, 1)`;
`C09_injective`, `covers`, `layout_injective` apply to it -/
example : rewriteOp true true (some 3) [2, 2, 2, 8, 8, 8]
    [{ shape := [16, 16], elBits := some 8, hasTsl := false, ndims := 6,
       rows := [[8, 0, 0, 1, 0, 0], [0, 0, 8, 0, 0, 1]] }] =
    .ok (some [[[⟨128, 2⟩, ⟨8, 8⟩], [⟨64, 2⟩, ⟨1, 8⟩]]]) := by decide +kernel

/-- granularity padding is exercised: the `memref<16xi32>` bias operand gets `[2, 8] -> (16, 1)` (gap 8..15) -/
example : rewriteOp true true (some 3) [2, 2, 2, 8, 8, 8]
    [{ shape := [16], elBits := some 32, hasTsl := false, ndims := 6,
       rows := [[8, 0, 0, 0, 1, 0]] }] =
    .ok (some [[[⟨16, 2⟩, ⟨1, 8⟩]]]) := by decide +kernel

example : ensureGranularity (some 3) (some 32) 8 4 = .ok 16 ∧ pad 9 8 = 72 := by decide

/-- `cyclic_chain` hypotheses are met by a real prefix and step -/
example :
    walk ⟨true, some 1, some 8, [4, 4, 2], [[0, 3, 0], [0, 0, 1], [1, 0, 0]], [2, 2, 4]⟩
      [(4, [0, 1, 0])] 0 (initState [4, 4, 2]) = .ok ([[], [⟨1, 4⟩], []], 4) ∧
    stepCol ⟨true, some 1, some 8, [4, 4, 2], [[0, 3, 0], [0, 0, 1], [1, 0, 0]], [2, 2, 4]⟩
      ([[], [⟨1, 4⟩], []], 4) 1 2 [3, 0, 0] = .ok ([[⟨8, 2⟩], [⟨1, 4⟩], []], 16) := by
  decide +kernel

/-- `Built` is inhabited by a tiled layout with a gap -/
example : Built [[⟨16, 2⟩, ⟨1, 8⟩]] 32 :=
  Built.push (S := [[⟨1, 8⟩]]) (d := 0) 2
    (Built.grow (Built.push (S := [[]]) (d := 0) 8 (Built.init 1) rfl (by decide)) (by decide : 1 * 8 ≤ 16))
    rfl (by decide)

/-- `explicit_untouched` is not vacuous -/
example : rewriteOp true true (some 1) [4]
    [{ shape := [4], elBits := some 8, hasTsl := true, ndims := 1, rows := [[1]] }] = .ok none := by decide +kernel


/-! # Deepening round

Vocabulary added in `Lemmas/CyclicLayoutDeep.lean`: `WellFormed`, `ErrOrigin`, `Granular`, `minGran`,
`AllPos`, `Squash`, `Canonical`, `WellFormedM`; front-end model `Model/CyclicLayoutMaps.lean`. -/

/-! ## exceptions: where they can come from, and totality inside the quantifier -/

/-- Every exception of the rewrite has one of four origins, per exception class:
`ValueError` — a bound ≤ 0 or #bounds ≠ #dims of some pattern; `AssertionError` — no accelerator
template or an element type without fixed width; `IndexError` — a pattern with more results than
its memref has dimensions; (`outsideModel` — a zero extent / ragged matrix). -/
theorem error_origin (fixed tiled : Bool) (spatial : Option Nat) (bounds : List Int) (ops : List Operand) (e : Err)
    (h : rewriteOp fixed tiled spatial bounds ops = .error e) : ErrOrigin spatial bounds ops e :=
  rewriteOp_error h

/-- `C09_total`: on every well-formed op (inside the property's quantifier) the pattern raises
nothing: it either leaves the op alone (explicit layout) or produces the layouts — for the upstream
and the fixed fill-up alike. (The oracle checks this per case on the real code; here for all inputs.) -/
theorem C09_total (fixed tiled : Bool) (spatial : Option Nat) (bounds : List Int) (ops : List Operand)
    (hwf : WellFormed spatial bounds ops) : ∃ r, rewriteOp fixed tiled spatial bounds ops = .ok r :=
  rewriteOp_total hwf

/-! ## the access granularity is met by every stride the schedule walk creates -/

/-- `granularity_met`: the stride pushed by one iteration of the schedule loop (schedule dimension
`k`) has step 1 (nothing allocated before it) or a step that is a multiple of the granularity of
ITS regime: 8/16 elements temporal (`k ≥ spatial`), 8/2 spatial — for every width and template. -/
theorem granularity_met (c : Cfg) (sp w : Nat) (hs : c.spatial = some sp) (hw : c.elBits = some w)
    (S S' : Layout) (cur cur' k b : Nat) (col : List Int)
    (h : stepCol c (S, cur) k b col = .ok (S', cur')) :
    (S' = S ∧ cur' = cur) ∨
    ∃ (d : Nat) (l : List Stride) (st : Stride), S[d]? = some l ∧ S' = S.set d (st :: l) ∧
      (st.step = 1 ∨ gran sp w k ∣ st.step) := by
  rcases stepCol_cases' h with h1 | ⟨d, l, n, cu, hl, _, hcu, h1, _⟩
  · exact Or.inl h1
  · rw [hs, hw] at hcu
    exact Or.inr ⟨d, l, ⟨cu, _⟩, hl, h1, ensure_granular hcu⟩

/-- after the whole walk every stride has step 1 or a multiple of 8 (8-bit) / 2 (wider) elements -/
theorem walk_granular (c : Cfg) (sp w : Nat) (hs : c.spatial = some sp) (hw : c.elBits = some w)
    (S : Layout) (cur : Nat) (h : walk c (revCols c) 0 (initState c.shape) = .ok (S, cur)) :
    ∀ l ∈ S, ∀ p ∈ l, p.step = 1 ∨ minGran w ∣ p.step :=
  granular_walk hs hw (revCols c) 0 _ _ S cur (granular_init w c.shape) h

/-- every step and every bound of a chosen layout is ≥ 1 (a 0 would print as the dynamic `?`) -/
theorem layout_positive (c : Cfg) (L : Layout) (hpos : ∀ n ∈ c.shape, 0 < n)
    (h : cyclicLayout true c = .ok L) : ∀ l ∈ L, ∀ p ∈ l, 0 < p.step ∧ 0 < p.bound :=
  cyclicLayout_pos hpos h

/-! ## `TiledStride.canonicalize` / `TiledStridedLayout.canonicalize`: full specification -/

/-- canonicalising a dimension changes neither the address of any index of its box nor its extent —
for every list of strides (any depth, zero steps and bounds included) -/
theorem canonicalize_dim (l : List Stride) :
    prodB (canon l) = prodB l ∧ ∀ i, i < prodB l → addrDim (canon l) i = addrDim l i :=
  ⟨prodB_canon l, fun i h => canon_addr l i h⟩

/-- the result is in normal form (no unit bound above the innermost stride, no pair of neighbours the
code would squash), normal forms are fixed points, hence `canonicalize` is idempotent; it never
lengthens the list -/
theorem canonicalize_normal_form (l : List Stride) :
    Canonical (canon l) ∧ (Canonical l → canon l = l) ∧ canon (canon l) = canon l ∧
    (canon l).length ≤ l.length :=
  ⟨canon_canonical l, canon_of_canonical l, canon_idem l, canon_length_le l⟩

/-- whole layouts: same box, same address for every element of the box, and aliasing is neither
created nor removed -/
theorem canonicalize_layout (S : Layout) :
    (∀ idx, InBox (S.map canon) idx ↔ InBox S idx) ∧
    (∀ idx, InBox S idx → addr (S.map canon) idx = addr S idx) ∧
    (Inj (S.map canon) ↔ Inj S) :=
  ⟨fun _ => inbox_map_canon, fun idx hb => addr_map_canon S idx hb.2, inj_map_canon⟩

/-- every dimension of every layout the pass emits is in normal form (upstream and fixed code) -/
theorem chosen_layout_canonical (fixed : Bool) (c : Cfg) (L : Layout)
    (h : cyclicLayout fixed c = .ok L) : ∀ l ∈ L, Canonical l := by
  unfold cyclicLayout at h
  split at h
  · cases h
  · cases h
    intro l hl
    simp only [List.mem_map] at hl
    obtain ⟨l0, _, rfl⟩ := hl
    exact canon_canonical l0

/-! ## the `TiledStridedLayout` class' own views of the chosen layouts (bridge to C10's model) -/

/-- `layout_views`: for every layout the pass chooses, `TiledStridedLayout.all_values()` (C10's model of
the class, `Model/Tsl.lean`) is exactly the list of addresses of the operand's elements in row-major
order — so it has as many entries as the operand has elements — and `self_overlaps()` is `False`.
(The oracle cross-checks both on the real objects per case; here for all inputs.) -/
theorem layout_views (c : Cfg) (L : Layout) (hpos : ∀ n ∈ c.shape, 0 < n)
    (h : cyclicLayout true c = .ok L) (off : Option Int) :
    (Tsl.ofStatic (toS L) off).allValues = .ok ((Tsl.points c.shape).map (addr L)) ∧
    (Tsl.ofStatic (toS L) off).selfOverlaps = .ok false :=
  chosen_layout_views hpos h off

/-- the two hand-written models of `TiledStride.canonicalize` (C09's `canon` on static strides, C10's
`canonT` on possibly dynamic ones) and of the address function are the same functions -/
theorem models_agree (l : List Stride) (L : Layout) (idx : List Nat) (hlen : idx.length = L.length) :
    Tsl.canonT ((toS1 l).map Tsl.SStride.toStride) = (toS1 (canon l)).map Tsl.SStride.toStride ∧
    Tsl.addr (toS L) idx = addr L idx := by
  refine ⟨?_, addr_toS L idx hlen⟩
  rw [Tsl.canonT_static, canonS_toS1]

/-! ## the property from the op's own attributes (affine maps instead of matrices) -/

def C09_statement_maps (fixed : Bool) : Prop :=
  ∀ (tiled : Bool) (spatial : Option Nat) (bounds : List Int) (ops : List OperandM) (Ls : List Layout),
    rewriteOpMaps fixed tiled spatial bounds ops = .ok (some Ls) →
    Ls.length = ops.length ∧
    ∀ (i : Nat) (o : OperandM) (L : Layout), ops[i]? = some o → Ls[i]? = some L →
      Covers L o.shape ∧ InjectiveOn L o.shape

/-- **C09** with the schedule construction (`SchedulePattern` + `AffineTransform.from_affine_map`)
inside the model: for all affine maps, bounds, shapes, widths, templates and both modes -/
theorem C09_injective_maps : C09_statement_maps true := by
  intro tiled spatial bounds ops Ls h
  exact rewriteOpMaps_spec h

theorem C09_total_maps (fixed tiled : Bool) (spatial : Option Nat) (bounds : List Int) (ops : List OperandM)
    (hwf : WellFormedM spatial bounds ops) : ∃ r, rewriteOpMaps fixed tiled spatial bounds ops = .ok r :=
  rewriteOpMaps_total hwf

/-- the guard comes before the schedule construction: an op with a TSL operand is untouched even if
its patterns are not linear or its bounds are invalid -/
theorem explicit_untouched_maps (fixed tiled : Bool) (spatial : Option Nat) (bounds : List Int)
    (ops : List OperandM) (h : ∃ o ∈ ops, o.hasTsl = true) :
    rewriteOpMaps fixed tiled spatial bounds ops = .ok none := by
  unfold rewriteOpMaps
  rw [if_pos (List.any_eq_true.mpr h)]

/-! ## the neighbouring pattern: the layout of a whole global derived from the layout of its tile

`ApplyLayoutCastSubviewGlobal` (realize-memref-casts, the pass right after set-memory-layout), model
`Model/CyclicLayoutGlobal.lean`. -/

/-- `global_start_stride`: the start stride of the outer tiles, `max(bound * step)` taken over the
CANONICAL tile layout, lies beyond every address of the tile — access-granularity padding and dropped
unit strides included — for every layout `set-memory-layout` can choose. -/
theorem global_start_stride (c : Cfg) (L : Layout) (hpos : ∀ n ∈ c.shape, 0 < n)
    (h : cyclicLayout true c = .ok L) (m : Nat) (hm : maxProd L = some m) :
    ∀ idx, InShape c.shape idx → addr L idx < m := by
  have hF := cyclicLayout_tileFacts hpos h
  intro idx hidx
  exact hF.top m hm idx (inbox_of_inshape hF.cov hidx)

/-- The full statement for the pattern WITHOUT fix FC12e (`globalLayout`): the layout given to the whole
global covers exactly the global's shape and is one-to-one on it. FALSE for that code
(`global_layout_fails`, finding DC09a = C12's DC12f, fixed by FC12e). The repaired pattern is
`globalLayoutFixed`; its statement `global_layout_statement_fixed` is proved in full (`global_layout`). -/
def global_layout_statement : Prop :=
  ∀ (c : Cfg) (L : Layout) (g : List Nat) (G : Layout), (∀ n ∈ c.shape, 0 < n) →
    cyclicLayout true c = .ok L → globalLayout L g = .ok (some G) → Covers G g ∧ InjectiveOn G g

/-- clause `tileDivides`: in every dimension the extent of the tile (the subview that is the operand)
divides the extent of the global. Under it the statement holds for every schedule, shape, width,
template, mode, and every global. -/
theorem global_layout_partial (c : Cfg) (L : Layout) (g : List Nat) (G : Layout)
    (hpos : ∀ n ∈ c.shape, 0 < n) (h : cyclicLayout true c = .ok L)
    (hg : globalLayout L g = .ok (some G))
    (tileDivides : ∀ (d t n : Nat), c.shape[d]? = some t → g[d]? = some n → t ∣ n) :
    Covers G g ∧ InjectiveOn G g :=
  globalLayout_spec (cyclicLayout_tileFacts hpos h) hg tileDivides

/-- the witness of DC09a: an `8x5xi8` tile (gemm operand A, bounds `[8, 8, 5]`, snax_gemmx) of a
`20x10` global -/
def dc09aCfg : Cfg :=
  ⟨true, some 3, some 8, [8, 5], [[1, 0, 0], [0, 0, 1]], [8, 8, 5]⟩

theorem dc09a_layouts :
    cyclicLayout true dc09aCfg = .ok [[⟨8, 8⟩], [⟨1, 5⟩]] ∧
    globalLayout [[⟨8, 8⟩], [⟨1, 5⟩]] [20, 10] = .ok (some [[⟨64, 2⟩, ⟨8, 8⟩], [⟨128, 2⟩, ⟨1, 5⟩]]) ∧
    addr [[⟨64, 2⟩, ⟨8, 8⟩], [⟨128, 2⟩, ⟨1, 5⟩]] [16, 0] = 128 ∧
    addr [[⟨64, 2⟩, ⟨8, 8⟩], [⟨128, 2⟩, ⟨1, 5⟩]] [0, 5] = 128 := by decide +kernel

/-- `global_layout_fails`: `remaining_size = shape // tile` is a floor division: the `20x10` global gets
`[2, 8] -> (64, 8), [2, 5] -> (128, 1)`, rows 16..19 are not covered and element (16,0) lives at the
address of (0,5). -/
theorem global_layout_fails : ¬ global_layout_statement := by
  intro h
  have hc := (h dc09aCfg _ [20, 10] _ (by decide) dc09a_layouts.1 dc09a_layouts.2.1).1
  have := hc.2 0 _ 20 rfl rfl
  revert this; decide

/-- The full statement for the repaired pattern (fix FC12e: the pattern only fires when the tile divides
the global and every static subview offset is tile-aligned). -/
def global_layout_statement_fixed : Prop :=
  ∀ (c : Cfg) (L : Layout) (g : List Nat) (offs : List (Option Nat)) (G : Layout), (∀ n ∈ c.shape, 0 < n) →
    cyclicLayout true c = .ok L → globalLayoutFixed L g offs = .ok (some G) → Covers G g ∧ InjectiveOn G g

/-- **`global_layout`** (full, no clause): whenever the repaired pattern fires, the layout it gives to the
whole global covers exactly the global's shape and maps distinct elements to distinct addresses — for
every layout `set-memory-layout` can choose for the tile (padding included), every global, all
offsets. The former clause `tileDivides` is established by the guard (`tileDividesB_spec`). -/
theorem global_layout : global_layout_statement_fixed := by
  intro c L g offs G hpos h hg
  exact globalLayoutFixed_spec (cyclicLayout_tileFacts hpos h) hg

/-- on the witness of DC09a the repaired pattern does not fire; neither does it for an unaligned static
offset; it fires (same result as before) for dividing tiles at aligned or dynamic offsets -/
theorem dc09a_fixed :
    globalLayoutFixed [[⟨8, 8⟩], [⟨1, 5⟩]] [20, 10] [some 0, some 0] = .ok none ∧
    globalLayoutFixed [[⟨8, 8⟩], [⟨1, 5⟩]] [32, 5] [some 3, some 0] = .ok none ∧
    globalLayoutFixed [[⟨8, 8⟩], [⟨1, 5⟩]] [32, 5] [some 16, some 0] = .ok (some [[⟨64, 4⟩, ⟨8, 8⟩], [⟨1, 5⟩]]) ∧
    globalLayoutFixed [[⟨8, 8⟩], [⟨1, 5⟩]] [32, 5] [none, some 0] = .ok (some [[⟨64, 4⟩, ⟨8, 8⟩], [⟨1, 5⟩]]) := by
  decide +kernel

/-! ## non-vacuity of the deepening theorems -/

/-- `global_layout_partial` applies to the padded tile of the round-5 seed: `32x5xi8` global, `8x5` tile,
result `[4, 8] -> (64, 8), [5] -> (1)` (the outer stride 64 = max(bound*step), not 40 = #elements) -/
example : globalLayout [[⟨8, 8⟩], [⟨1, 5⟩]] [32, 5] = .ok (some [[⟨64, 4⟩, ⟨8, 8⟩], [⟨1, 5⟩]]) ∧
    maxProd [[⟨8, 8⟩], [⟨1, 5⟩]] = some 64 := by decide +kernel


example : WellFormed (some 3) [2, 2, 2, 8, 8, 8]
    [{ shape := [16, 16], elBits := some 8, hasTsl := false, ndims := 6,
       rows := [[8, 0, 0, 1, 0, 0], [0, 0, 8, 0, 0, 1]] }] := by
  refine ⟨by simp, by decide, ?_⟩
  intro o ho
  simp at ho; subst ho
  refine ⟨by simp, rfl, by decide, by decide, by decide⟩

/-- each error class occurs (so `error_origin` is about reachable outcomes) -/
example :
    rewriteOp true true (some 1) [0] [{ shape := [4], elBits := some 8, hasTsl := false, ndims := 1, rows := [[1]] }]
      = .error .valueError ∧
    rewriteOp true true none [2, 2] [{ shape := [2, 2], elBits := some 8, hasTsl := false, ndims := 2, rows := [[1, 0], [0, 1]] }]
      = .error .assertion ∧
    rewriteOp true true (some 1) [2] [{ shape := [2], elBits := some 8, hasTsl := false, ndims := 1, rows := [[0], [1]] }]
      = .error .indexError := by decide +kernel

/-- granularity: spatial i32 stride 3 -> 66 (`3 + (2 - 3) % 64`: a multiple of 2, far from the next
one), temporal 3 -> 16 -/
example : ensureGranularity (some 1) (some 32) 3 0 = .ok 66 ∧ ensureGranularity (some 1) (some 32) 3 1 = .ok 16 := by
  decide

/-- canonicalize: unit bound dropped, contiguous tiles squashed, gap kept -/
example : canon [⟨32, 2⟩, ⟨8, 1⟩, ⟨4, 4⟩, ⟨1, 4⟩] = [⟨32, 2⟩, ⟨1, 16⟩] ∧
    canon [⟨16, 2⟩, ⟨1, 8⟩] = [⟨16, 2⟩, ⟨1, 8⟩] ∧ Canonical [⟨16, 2⟩, ⟨1, 8⟩] := by
  refine ⟨by decide, by decide, ?_⟩
  exact ⟨by decide, by intro h; exact absurd h.2.2.1 (by decide), trivial⟩

/-- the front end on the gemm operand of `set-memory-layout.mlir`: `(d0*8 + d3, d2*8 + d5)` -/
example : rewriteOpMaps true true (some 3) [2, 2, 2, 8, 8, 8]
    [{ shape := [16, 16], elBits := some 8, hasTsl := false, ndims := 6,
       exprs := [.bin .add (.bin .mul (.dim 0) (.const 8)) (.dim 3),
                 .bin .add (.bin .mul (.dim 2) (.const 8)) (.dim 5)] }] =
    .ok (some [[[⟨128, 2⟩, ⟨8, 8⟩], [⟨64, 2⟩, ⟨1, 8⟩]]]) := by decide +kernel

/-- a `floordiv` in a pattern is a `ValueError`; behind a TSL operand it is never looked at -/
example :
    rewriteOpMaps true true (some 1) [4]
      [{ shape := [4], elBits := some 8, hasTsl := false, ndims := 1, exprs := [.bin .fdiv (.dim 0) (.const 2)] }]
      = .error .valueError ∧
    rewriteOpMaps true true (some 1) [4]
      [{ shape := [4], elBits := some 8, hasTsl := true, ndims := 1, exprs := [.bin .fdiv (.dim 0) (.const 2)] }]
      = .ok none := by decide +kernel

end SnaxVerif.C09
