import SnaxVerif.Lemmas.AccfgMove
import SnaxVerif.Lemmas.AccfgLoopOverlap
import SnaxVerif.Lemmas.AccfgLoopCarried
import SnaxVerif.Props.C01
/-!
# C06 — setup/compute overlap keeps every launch's configuration

Both patterns of `accfg_config_overlap.py` are modelled as functions at a position (`applyBlockMove`, `applyLoopOverlap`)
and every real rewrite step is replayed through them. `block_move_preserves` certifies every block-level step (whole
machine state); `loop_overlap_preserves` certifies a loop-level step (trace) under decidable side conditions that the check
evaluates on every real step — steps outside them (the open finding D26 is the prominent class) are validated semantically
only and counted in the evidence. The model-level witness of D26 is kept beside the theorem.
-/
namespace SnaxVerif.C06
open SnaxVerif.Accfg

/-- **Block-level overlap, semantic core.** Executing a setup of accelerator `a` *before* a stretch of code `M`
instead of after it leaves the whole machine state (environment, all registers, trace) unchanged, provided `M`
neither sets up nor launches `a`, contains no call that may reconfigure the accelerators (at any nesting depth,
inside loops of any trip count and conditionals), and does not define an operand of the setup. `M` may await `a`,
launch and configure other accelerators, compute, branch and loop: this is exactly the code the pattern moves a
setup across (the two-uses guard excludes a launch or setup of `a`, the state threading excludes calls). -/
theorem setup_commutes_with_quiet_code (cfg : Cfg) (a : AccId) (fs : List (Field × Var)) (M : Block)
    (ht : touchesB a M = false) (hl : launchesB a M = false)
    (hav : ∀ x ∈ fs.map (·.2), x ∉ defsB M) (st : St) :
    execB cfg false M (execS cfg false (.setup a fs) st) =
    execS cfg false (.setup a fs) (execB cfg false M st) := by
  simp only [execS]
  rw [setRegs_eq_setVals st.regs st.env a fs, quietB_comm cfg a _ M ht hl st, setRegs_eq_setVals]
  have henv : (fs.map fun p => (p.1, (execB cfg false M st).env p.2)) = (fs.map fun p => (p.1, st.env p.2)) := by
    apply List.map_congr_left
    intro p hp
    rw [envB_frame cfg false _ p.2 (hav p.2 (List.mem_map_of_mem hp)) st]
  rw [henv]

/-- … in particular the launch that precedes the moved setup, and every launch in `M` (of other accelerators),
observe the same registers, and the number and order of launches and awaits is unchanged. -/
theorem block_overlap_trace (cfg : Cfg) (a : AccId) (fs : List (Field × Var)) (M rest : Block)
    (ht : touchesB a M = false) (hl : launchesB a M = false)
    (hav : ∀ x ∈ fs.map (·.2), x ∉ defsB M) (st : St) :
    (execB cfg false ((Block.cons (.setup a fs) M).append rest) st).tr =
    (execB cfg false ((M.append (.cons (.setup a fs) .nil)).append rest) st).tr := by
  simp only [execB_append, Block.append, execB]
  rw [setup_commutes_with_quiet_code cfg a fs M ht hl hav st]

/-- **Block-level overlap, every real step certified.** `applyBlockMove path flags b` moves the flagged statements of a
segment of the block at `path` to the front of that segment — the setup *and the side-effect-free operations computing
its operands* (`lazy_move_up`) — and succeeds only if every moved statement is independent (`indep`) of the statements it
jumps over. Then the whole machine state is unchanged, wherever the block sits (any nesting, all trip counts). Which
statements move is read off the real rewrite by the harness; the result must equal the real IR. -/
theorem block_move_preserves (path : List Nat) (flags : List Bool) (b b' : Block)
    (h : applyBlockMove path flags b = some b') (hwf : wfB b = true) (hn : nodupB b = true) (cfg : Cfg) (st : St) :
    execB cfg false b' st = execB cfg false b st :=
  rewriteB_exec cfg (blockMoveRw_ok cfg flags) b path noFacts b' h hwf hn st
    (by intro a f x h; simp [noFacts] at h) (by intro a f x h; simp [noFacts] at h)

/-- non-vacuity: the code between a launch and the next setup in the lowering's form -/
example : touchesB 0 (.cons (.await 0) (.cons (.pure 9 .add [1, 2]) (.cons (.launch 1 []) .nil))) = false ∧
    launchesB 0 (.cons (.await 0) (.cons (.pure 9 .add [1, 2]) (.cons (.launch 1 []) .nil))) = false := by decide

/-- **Loop-level overlap (rotation of the first setup of a loop body).** `b'` is what the pattern makes of `b` at `path`:
the side-effect-free chain computing the setup's operands is cloned in front of the loop with the induction variable
replaced by the lower bound, followed by a copy of the setup; a second clone with `iv + step` and a second copy go to the end
of the body; the original setup is erased. `b2` / `bg` are the same rewrite keeping the original setup / with the two copies
as ghosts. Hypotheses (all decidable, evaluated on every real step; `applyLoopOverlapGen` includes `loopSide`):
the statements in front of the setup are pure operations in SSA order, the cloned chain is closed, step and induction
variable are not redefined in the body, fresh ids are fresh; `bg` is well formed and **every launch of `bg` stays total**
when the two copies count as writes of unknown values — i.e. every launch after the loop (zero trips included) and in the
body re-writes the rotated fields first. Then, from every machine state, for every lower bound, step and trip count,
configuration and clobber behaviour, the trace — every launch with the registers it observes, every await, in order — is
unchanged. The loop-dependent values are recomputed for the iteration they are used in (`clone_correct`), and at every
iteration head the registers already hold what the erased setup would write (`rot_loop`). -/
theorem loop_overlap_preserves (cfg : Cfg) (path : List Nat) (j fresh : Nat) (b b' b2 bg : Block)
    (h' : applyLoopOverlapGen false false path j fresh b = some b')
    (h2 : applyLoopOverlapGen true false path j fresh b = some b2)
    (hg : applyLoopOverlapGen true true path j fresh b = some bg)
    (hng : noGhostB b2 = true) (hwfg : wfB bg = true) (hok : okBb cfg.fields bg noFacts = true)
    (hreads : ∀ x ∈ readsB b, x < fresh) (st : St) :
    (execB cfg false b' st).tr = (execB cfg false b st).tr :=
  loop_overlap_trace cfg path j fresh b b' b2 bg h' h2 hg hng hwfg hok hreads st

/-- The same with the taint analysis as side condition: no launch and no effectful call of `bg` sees a register field last
written by one of the two copies before a real setup re-writes it (`okTB`). Unlike launch totality this does not constrain
launches of other accelerators or loops rotated by earlier steps, and needs no well-formedness of `bg`. -/
theorem loop_overlap_preserves_taint (cfg : Cfg) (path : List Nat) (j fresh : Nat) (b b' b2 bg : Block)
    (h' : applyLoopOverlapGen false false path j fresh b = some b')
    (h2 : applyLoopOverlapGen true false path j fresh b = some b2)
    (hg : applyLoopOverlapGen true true path j fresh b = some bg)
    (hng : noGhostB b2 = true) (hok : okTB cfg.fields bg [] = true)
    (hreads : ∀ x ∈ readsB b, x < fresh) (st : St) :
    (execB cfg false b' st).tr = (execB cfg false b st).tr :=
  loop_overlap_trace_taint cfg path j fresh b b' b2 bg h' h2 hg hng hok hreads st

/-- a loop in the lowering's form: `%13 = cast %iv; setup(P = %13, Q = %1); launch; await`, re-configured after the loop -/
def rotExample : Block :=
  .cons (.pure 11 (.const 1) []) <|
  .cons (.forS 5 6 7 12 (
      .cons (.pure 13 .cast [12]) <| .cons (.setup 0 [(0, 13), (1, 1)]) <| .cons (.launch 0 [11]) <| .cons (.await 0) .nil)) <|
  .cons (.setup 0 [(0, 0), (1, 1)]) <| .cons (.launch 0 [11]) <| .cons (.await 0) .nil

/-- non-vacuity: the rule applies to `rotExample` and every hypothesis of `loop_overlap_preserves` holds -/
example : (do
    let _ ← applyLoopOverlapGen false false [1] 1 14 rotExample
    let b2 ← applyLoopOverlapGen true false [1] 1 14 rotExample
    let bg ← applyLoopOverlapGen true true [1] 1 14 rotExample
    pure (noGhostB b2 && wfB bg && okBb (fun _ => [0, 1]) bg noFacts && okTB (fun _ => [0, 1]) bg [] &&
      (readsB rotExample).all (· < 14))) = some true := by
  decide

/-- **Loop-level overlap on a loop with carried data values** (`scf.for … iter_args`, desugared by the converter into
`q := cast x` in front of the loop, `p := cast q` at the head of the body, `q := cast y` at its end). The real pattern
evaluates the copy in front of the loop with every block argument `p` replaced by the loop's init operand `x`, and the copy at
the end of the body (in front of the yield) with `p` replaced by the yield operand `y` and `iv` by `iv + step`:
`applyLoopOverlapCGen` (the init operands are found through the alias environment `aliasStep` accumulated along the block).
Hypotheses as for `loop_overlap_preserves` plus the decidable `carrySide` (every parameter comes from a head cast whose carry
register nothing else reads or defines, the trailing carry assignments are in SSA order, sources below `fresh`); either side
condition on the ghost variant may be used. Then the trace is unchanged from every state: the values carried around the loop
are the ones the setup of the *next* iteration would have seen (`rot_loop_C`). -/
theorem loop_overlap_carried_preserves (cfg : Cfg) (path : List Nat) (j fresh : Nat) (b b' b2 bg : Block)
    (h' : applyLoopOverlapCGen false false path j fresh b = some b')
    (h2 : applyLoopOverlapCGen true false path j fresh b = some b2)
    (hg : applyLoopOverlapCGen true true path j fresh b = some bg)
    (hng : noGhostB b2 = true)
    (hok : okTB cfg.fields bg [] = true ∨ (wfB bg = true ∧ okBb cfg.fields bg noFacts = true))
    (hreads : ∀ x ∈ readsB b, x < fresh) (st : St) :
    (execB cfg false b' st).tr = (execB cfg false b st).tr :=
  loop_overlap_carried_trace cfg path j fresh b b' b2 bg h' h2 hg hng hok hreads st

/-- a running pointer carried around the loop: `q := cast x0` … `for { p := cast q; setup(P = p, Q = %1); launch; await;
p' := p + %2; q := cast p' }`, re-configured after the loop -/
def rotCarriedExample : Block :=
  .cons (.pure 11 (.const 1) []) <| .cons (.pure 20 .cast [0]) <|
  .cons (.forS 5 6 7 12 (
      .cons (.pure 13 .cast [20]) <| .cons (.setup 0 [(0, 13), (1, 1)]) <| .cons (.launch 0 [11]) <| .cons (.await 0) <|
      .cons (.pure 14 .add [13, 2]) <| .cons (.pure 20 .cast [14]) .nil)) <|
  .cons (.pure 21 .cast [20]) <|
  .cons (.setup 0 [(0, 21), (1, 1)]) <| .cons (.launch 0 [11]) <| .cons (.await 0) .nil

/-- non-vacuity: the carried rule applies to `rotCarriedExample` (the copy in front of the loop reads `%0`, the copy at the
end of the body reads the yielded `%14`) and every hypothesis of `loop_overlap_carried_preserves` holds -/
example : (do
    let b' ← applyLoopOverlapCGen false false [2] 1 30 rotCarriedExample
    let b2 ← applyLoopOverlapCGen true false [2] 1 30 rotCarriedExample
    let bg ← applyLoopOverlapCGen true true [2] 1 30 rotCarriedExample
    pure (noGhostB b2 && okTB (fun _ => [0, 1]) bg [] && (readsB rotCarriedExample).all (· < 30) &&
      (usesB b').contains 0 && (usesB b').contains 14)) = some true := by
  decide

/-- One certified rewrite step of `accfg-config-overlap`. -/
inductive StepOK (cfg : Cfg) : Block → Block → Prop where
  | move (path : List Nat) (flags : List Bool) {b b'} : applyBlockMove path flags b = some b' → wfB b = true → nodupB b = true →
      StepOK cfg b b'
  | loop (path : List Nat) (j fresh : Nat) (b2 bg : Block) {b b'} :
      applyLoopOverlapGen false false path j fresh b = some b' → applyLoopOverlapGen true false path j fresh b = some b2 →
      applyLoopOverlapGen true true path j fresh b = some bg → noGhostB b2 = true → wfB bg = true →
      okBb cfg.fields bg noFacts = true → (∀ x ∈ readsB b, x < fresh) → StepOK cfg b b'
  | loopT (path : List Nat) (j fresh : Nat) (b2 bg : Block) {b b'} :
      applyLoopOverlapGen false false path j fresh b = some b' → applyLoopOverlapGen true false path j fresh b = some b2 →
      applyLoopOverlapGen true true path j fresh b = some bg → noGhostB b2 = true →
      okTB cfg.fields bg [] = true → (∀ x ∈ readsB b, x < fresh) → StepOK cfg b b'
  | loopC (path : List Nat) (j fresh : Nat) (b2 bg : Block) {b b'} :
      applyLoopOverlapCGen false false path j fresh b = some b' → applyLoopOverlapCGen true false path j fresh b = some b2 →
      applyLoopOverlapCGen true true path j fresh b = some bg → noGhostB b2 = true →
      (okTB cfg.fields bg [] = true ∨ (wfB bg = true ∧ okBb cfg.fields bg noFacts = true)) →
      (∀ x ∈ readsB b, x < fresh) → StepOK cfg b b'
  | dce (path : List Nat) {b b'} : applyRule .dce path b = some b' → dceSide path b b' = true → StepOK cfg b b'

/-- Any sequence of certified steps, in any order (whatever the greedy driver chooses). -/
inductive Chain (cfg : Cfg) : Block → Block → Prop where
  | refl (b) : Chain cfg b b
  | step {b b' b''} : StepOK cfg b b' → Chain cfg b' b'' → Chain cfg b b''

theorem step_preserves {cfg : Cfg} {b b' : Block} (h : StepOK cfg b b') (st : St) :
    (execB cfg false b' st).tr = (execB cfg false b st).tr := by
  cases h with
  | move path flags h hwf hn => rw [block_move_preserves path flags _ _ h hwf hn]
  | loop path j fresh b2 bg h' h2 hg hng hwfg hok hr =>
    exact loop_overlap_preserves cfg path j fresh _ _ b2 bg h' h2 hg hng hwfg hok hr st
  | loopT path j fresh b2 bg h' h2 hg hng hok hr =>
    exact loop_overlap_preserves_taint cfg path j fresh _ _ b2 bg h' h2 hg hng hok hr st
  | loopC path j fresh b2 bg h' h2 hg hng hok hr =>
    exact loop_overlap_carried_preserves cfg path j fresh _ _ b2 bg h' h2 hg hng hok hr st
  | dce path h hside => exact (dce_trace cfg path _ _ h hside st).2

/-- **C06 for every run whose steps are all certified**: the output of the pass has the same trace as its input — every launch
observes the same registers, launches and awaits keep their number and order — from every state, for all bounds, steps, trip
counts, branch outcomes and clobbering calls. (Runs containing a step outside the side conditions are covered up to that step
and validated semantically as a whole.) -/
theorem overlap_preserves {cfg : Cfg} {b b' : Block} (h : Chain cfg b b') (st : St) :
    (execB cfg false b' st).tr = (execB cfg false b st).tr := by
  induction h with
  | refl => rfl
  | step hs _ ih => rw [ih, step_preserves hs]

/-- **The accfg optimisation pipeline as a whole** (`accfg-dedup` followed by `accfg-config-overlap`, the order of the real flow):
any chain of validated deduplication steps (C01) followed by any chain of validated overlap steps leaves the sequence of
launches/awaits/calls and the registers every launch observes unchanged — for every execution. The check validates the steps of
both passes on the same program: the input of the overlap chain is the real output of the dedup pass. -/
theorem dedup_then_overlap_preserves {cfg : Cfg} {b b' b'' : Block} (h1 : C01.Chain cfg b b') (h2 : Chain cfg b' b'')
    (st : St) : (execB cfg false b'' st).tr = (execB cfg false b st).tr := by
  rw [overlap_preserves h2, C01.dedup_preserves h1]

/-! ## Known finding D26 (loop-level overlap with several setups in the body)

`d26Before` is the deduplicated program of the committed witness, `d26After` what the real
`accfg-config-overlap` makes of it (the correspondence check re-derives both from the real passes on every run and
compares them with these literals). With zero trips the launch after the loop observes `P = lb` instead of `P = x0`. -/

def d26Before : Block :=
  .cons (.pure 11 (.const 1) []) <| .cons (.setup 0 [(0, 0), (1, 1)]) <| .cons (.launch 0 [11]) <| .cons (.await 0) <|
  .cons (.forS 5 6 7 12 (
      .cons (.pure 13 .cast [12]) <| .cons (.setup 0 [(0, 13), (1, 1)]) <| .cons (.launch 0 [11]) <| .cons (.await 0) <|
      .cons (.setup 0 [(0, 0), (1, 2)]) <| .cons (.launch 0 [11]) <| .cons (.await 0) .nil)) <|
  .cons (.setup 0 [(1, 0)]) <| .cons (.launch 0 [11]) <| .cons (.await 0) .nil

def d26After : Block :=
  .cons (.pure 11 (.const 1) []) <| .cons (.setup 0 [(0, 0), (1, 1)]) <| .cons (.launch 0 [11]) <|
  .cons (.pure 12 .cast [5]) <| .cons (.setup 0 [(0, 12), (1, 1)]) <| .cons (.await 0) <|
  .cons (.forS 5 6 7 13 (
      .cons (.launch 0 [11]) <| .cons (.setup 0 [(0, 0), (1, 2)]) <| .cons (.await 0) <| .cons (.launch 0 [11]) <|
      .cons (.pure 14 .add [13, 7]) <| .cons (.pure 15 .cast [14]) <| .cons (.setup 0 [(0, 15), (1, 1)]) <|
      .cons (.await 0) .nil)) <|
  .cons (.setup 0 [(1, 0)]) <| .cons (.launch 0 [11]) <| .cons (.await 0) .nil

def d26Cfg : Cfg := { fields := fun _ => [0, 1], clob := fun _ r => r, opq := fun _ _ => 0 }
/-- x0 = -33, x1 = 22, x2 = 47, lb = 0, ub = 0, step = 1: the loop runs zero times -/
def d26St : St := { env := fun v => [-33, 22, 47, 0, 0, 0, 0, 1].getD v 0, regs := fun _ _ => 0, tr := [] }

/-- the full statement for the loop-level pattern on this input: same trace before and after -/
def loopOverlap_statement_on_witness : Prop :=
  (execB d26Cfg false d26After d26St).tr = (execB d26Cfg false d26Before d26St).tr

theorem C06_multisetup_fails : ¬ loopOverlap_statement_on_witness := by
  unfold loopOverlap_statement_on_witness
  decide

end SnaxVerif.C06
