import SnaxVerif.Lemmas.Stream
/-!
# C02 — Streamer address streams equal the scheduled element stream

Property (properties.jsonl): for every operand of a scheduled accelerator operation, the memory words that the
hardware data streamer touches under the generated spatial/temporal stride configuration are, temporal step by
temporal step, exactly the bytes holding the tensor elements the schedule assigns to that step under the operand's
memory layout. No element is skipped, duplicated, reordered across steps or fetched from another position.

Model: `Model/Stream.lean` (`resolve` = dart-layout-resolution, `toStridePattern` = convert-dart-to-snax-stream per
operand, `hwStream` = documented streamer address generator, `schedStream` = bytes of the scheduled elements).

The property is FALSE of the code as stated; the full statements stay visible (`…_statement`), the proved parts are
`…_partial` with named clauses, and each dropped clause has a `…_fails` witness:

* `LinearOnBox`   (layout resolution) : layout ∘ pattern is linear with value 0 at the origin on the iteration box.
                   Dropped: finding DC02a (offset / bias / unaligned tiles shift every stride) — `resolve_exact_fails`.
* `BankContiguous`(conversion)        : the innermost relevant stride is the element width and `stride·bound ≥ 8`
                   (no warning). Dropped: finding D29 — `d29_warned_fails`, `d29_noncontiguous_fails`.
* `ExactDivision` (conversion)        : no `//` of the conversion had a remainder. Dropped: finding DC02b —
                   `inexact_fails`.
* `NoBroadcast`   (conversion)        : the broadcast escape was not taken (hardware broadcast is not the documented
                   address generator). Dropped: `bcast_fails`.

Accelerator-specific `set_stride_patterns` (`customize`) is covered by correspondence + oracle only; the one
statement made about it is the refutation `xdma_add_second_input_fails` (finding DC02c).
-/
namespace SnaxVerif.C02
open SnaxVerif SnaxVerif.Stride SnaxVerif.Stream

/-! ## (1) layout resolution -/

/-- `x` is a point of the iteration box -/
def InBox (bounds : List Nat) (x : List Int) : Prop :=
  x.length = bounds.length ∧ ∀ i (_ : i < bounds.length), 0 ≤ x[i]! ∧ x[i]! < (bounds[i]! : Int)

/-- clause: the composed map is a linear form (no constant term) on the iteration box -/
def LinearOnBox (L : AExpr) (A : List (List Int)) (b : List Int) (bounds : List Nat) : Prop :=
  ∃ c : List Int, c.length = bounds.length ∧ ∀ x, InBox bounds x → accessEval L A b x = some (dotI c x)

/-- full statement: the resolved strides reproduce the byte address of every scheduled element -/
def resolve_exact_statement : Prop :=
  ∀ (L : AExpr) (A : List (List Int)) (b : List Int) (bounds : List Nat) (r : List Int),
    resolve L A b bounds.length = some r →
    ∀ x, InBox bounds x → accessEval L A b x = some (dotI r x)

private theorem unitVec_inBox (bounds : List Nat) (i : Nat) (hi : i < bounds.length)
    (hpos : ∀ j (_ : j < bounds.length), 1 ≤ bounds[j]!) (h2 : 2 ≤ bounds[i]!) :
    InBox bounds (unitVec bounds.length i) := by
  refine ⟨by simp [unitVec], ?_⟩
  intro j hj
  have hget : (unitVec bounds.length i)[j]! = if j = i then 1 else 0 := by
    simp [unitVec, hj]
  rw [hget]
  by_cases hji : j = i
  · subst hji
    rw [if_pos rfl]
    exact ⟨by decide, by omega⟩
  · rw [if_neg hji]
    have := hpos j hj
    exact ⟨by decide, by omega⟩

/-- **resolve_exact** (partial: clause `LinearOnBox`): the unit-response strides are exact on the whole box, for any
    layout expression, pattern, rank and bounds. -/
theorem resolve_exact_partial (L : AExpr) (A : List (List Int)) (b : List Int) (bounds : List Nat) (r : List Int)
    (hlin : LinearOnBox L A b bounds) (hres : resolve L A b bounds.length = some r) :
    ∀ x, InBox bounds x → accessEval L A b x = some (dotI r x) := by
  obtain ⟨c, hclen, hc⟩ := hlin
  intro x hx
  rw [hc x hx]
  congr 1
  obtain ⟨hrlen, hrget⟩ := mapM_range_get _ _ _ hres
  have hpos : ∀ j (_ : j < bounds.length), 1 ≤ bounds[j]! := by
    intro j hj
    have := (hx.2 j hj); omega
  apply dotI_congr c r x (by rw [hclen, hx.1]) (by rw [hrlen, hx.1])
  intro i hi
  rw [hx.1] at hi
  by_cases h2 : 2 ≤ bounds[i]!
  · have hu := unitVec_inBox bounds i hi hpos h2
    have e1 := hc _ hu
    have e2 := hrget i hi
    rw [e1] at e2
    have hd : dotI c (unitVec bounds.length i) = c[i]! := by
      rw [← hclen]; exact dotI_unitVec c i (by omega)
    rw [hd] at e2
    have : r[i]! = c[i]! := by
      have hri : i < r.length := by omega
      rw [List.getElem?_eq_getElem hri] at e2
      simp only [Option.some.injEq] at e2
      simp [hri, ← e2]
    rw [this]
  · have hxi := hx.2 i hi
    have : x[i]! = 0 := by have := hpos i hi; omega
    rw [this]; simp

/-- finding DC02a: a layout offset of 4 bytes (`L = d0 + 4`) is added to the stride: element 2 is at byte 6, the
    resolved stride says 10. -/
theorem resolve_exact_fails : ¬ resolve_exact_statement := by
  intro h
  have := h (.bin .add (.dim 0) (.const 4)) [[1]] [0] [4] [5] (by decide) [2]
    ⟨rfl, by intro i hi; have : i = 0 := by simpa using hi
             subst this; decide⟩
  revert this
  decide

example : LinearOnBox (.bin .add (.bin .mul (.dim 0) (.const 32)) (.bin .mul (.dim 1) (.const 8)))
    [[4, 1], [0, 0]] [0, 0] [3, 4] := by
  refine ⟨[128, 32], rfl, ?_⟩
  intro x hx
  obtain ⟨hl, _⟩ := hx
  match x, hl with
  | [a, b], _ =>
    simp [accessEval, patEval, dotI, envOf, AExpr.eval, AExpr.evalBin]
    omega

/-! ## (2) conversion to a stride pattern -/

/-- clause `BankContiguous`: innermost relevant stride = element width, and no `stride·bound < 8` warning -/
def BankContiguous (el : Nat) (it : List Loop) (r : Res) : Prop :=
  innerStride it = some (el : Int) ∧ r.warned = false

/-- clause `ExactDivision`: every `//` of the conversion was exact -/
def ExactDivision (r : Res) : Prop := r.inexact = false

/-- clause `NoBroadcast`: the broadcast escape was not taken -/
def NoBroadcast (r : Res) : Prop := r.bcast = false

instance (el : Nat) (it : List Loop) (r : Res) : Decidable (BankContiguous el it r) := by
  unfold BankContiguous; infer_instance
instance (r : Res) : Decidable (ExactDivision r) := by unfold ExactDivision; infer_instance
instance (r : Res) : Decidable (NoBroadcast r) := by unfold NoBroadcast; infer_instance

/-- full statement: whenever the conversion succeeds, the hardware byte sequence is the schedule's byte sequence -/
def toStridePattern_stream_statement : Prop :=
  ∀ (it : List Loop) (dims : List Nat) (bc : Bool) (el : Nat) (r : Res),
    toStridePattern it dims bc = .ok r → innerStride it = some (el : Int) →
    (hwStream dims r.pat).flatten = (schedStream el it 0).flatten

/-- **toStridePattern_stream** (partial): the concatenation of all hardware steps (ports in order, 8 bytes per port) is
    exactly the concatenation of the bytes of the scheduled elements in schedule order — same bytes, same order, same
    multiplicity: nothing skipped, duplicated, reordered or taken from elsewhere. For every loop nest, every number and
    size of spatial dimensions, every stride. `k` (where the schedule's steps are cut) is arbitrary. -/
theorem toStridePattern_stream_partial (it : List Loop) (dims : List Nat) (bc : Bool) (el k : Nat) (r : Res)
    (h : toStridePattern it dims bc = .ok r)
    (hbank : BankContiguous el it r) (hex : ExactDivision r) (hnb : NoBroadcast r) :
    (hwStream dims r.pat).flatten = (schedStream el it k).flatten := by
  rw [flatten_hwStream, flatten_schedStream]
  exact toStridePattern_offs it dims bc el r h hbank.2 hex hnb hbank.1

/-- **step by step, hardware steps at least as large as schedule steps**: if one hardware step holds `g` schedule
    steps' worth of bytes, hardware step `j` is exactly the concatenation of schedule steps `g·j … g·j+g-1`. -/
theorem toStridePattern_steps_partial (it : List Loop) (dims : List Nat) (bc : Bool) (el k g : Nat) (r : Res)
    (h : toStridePattern it dims bc = .ok r)
    (hbank : BankContiguous el it r) (hex : ExactDivision r) (hnb : NoBroadcast r)
    (hS : 0 < prodBounds ((el, 1) :: it.take k))
    (hg : prodBounds ((bank, 1) :: spatialLoops dims r.pat.ss) = g * prodBounds ((el, 1) :: it.take k)) :
    ∀ j (hj : j < (hwStream dims r.pat).length),
      (hwStream dims r.pat)[j] = (((schedStream el it k).drop (g * j)).take g).flatten := by
  apply chunks_regroup g _ hS
  · intro a ha; rw [hwStream_step_length dims r.pat a ha, hg]
  · exact schedStream_step_length el it k
  · exact toStridePattern_stream_partial it dims bc el k r h hbank hex hnb

/-- **step by step, schedule steps larger than hardware steps**: schedule step `j` is exactly the concatenation of
    hardware steps `g·j … g·j+g-1`. -/
theorem toStridePattern_steps_rev_partial (it : List Loop) (dims : List Nat) (bc : Bool) (el k g : Nat) (r : Res)
    (h : toStridePattern it dims bc = .ok r)
    (hbank : BankContiguous el it r) (hex : ExactDivision r) (hnb : NoBroadcast r)
    (hH : 0 < prodBounds ((bank, 1) :: spatialLoops dims r.pat.ss))
    (hg : prodBounds ((el, 1) :: it.take k) = g * prodBounds ((bank, 1) :: spatialLoops dims r.pat.ss)) :
    ∀ j (hj : j < (schedStream el it k).length),
      (schedStream el it k)[j] = (((hwStream dims r.pat).drop (g * j)).take g).flatten := by
  apply chunks_regroup g _ hH
  · intro a ha; rw [schedStream_step_length el it k a ha, hg]
  · exact hwStream_step_length dims r.pat
  · exact (toStridePattern_stream_partial it dims bc el k r h hbank hex hnb).symm

/-- `StridePattern.canonicalize` (applied to every pattern before the streaming region is built) leaves every
    hardware step unchanged. -/
theorem canonicalize_stream (dims : List Nat) (p : Pattern) : hwStream dims p.canonicalize = hwStream dims p := by
  by_cases h : (0 : Int) ∈ p.ss
  · unfold Pattern.canonicalize; rw [if_pos h]
  · have hss : p.canonicalize.ss = p.ss := by unfold Pattern.canonicalize; rw [if_neg h]
    unfold hwStream
    rw [canonicalize_loops p h, canonLoops_offs, hss]

/-! ### witnesses: non-vacuity and the dropped clauses -/

/-- gemmx operand C (`memref<16x8xi32>` row-major, streamer with 8×4 ports): schedule loops innermost first
    n:(8,4) m:(8,32) outer:(2,256) -/
def itC : List Loop := [(8, 4), (8, 32), (2, 256)]

example : ∃ r, toStridePattern itC [8, 4] true = .ok r ∧ BankContiguous 4 itC r ∧ ExactDivision r ∧ NoBroadcast r ∧
    r.pat = { ub := [2], ts := [256], ss := [8, 64] } ∧
    prodBounds ((bank, 1) :: spatialLoops [8, 4] r.pat.ss) = 1 * prodBounds ((4, 1) :: itC.take 2) := by
  refine ⟨_, rfl, ?_⟩
  decide

/-- xDMA, `memref<64xi8>`: one hardware step (8 ports) holds 4 schedule steps of 16 bytes -/
example : ∃ r, toStridePattern [(16, 1), (4, 16)] [8] false = .ok r ∧ BankContiguous 1 [(16, 1), (4, 16)] r ∧
    ExactDivision r ∧ NoBroadcast r ∧ r.pat = { ub := [1], ts := [64], ss := [8] } ∧
    prodBounds ((bank, 1) :: spatialLoops [8] r.pat.ss) = 4 * prodBounds ((1, 1) :: [(16, 1), (4, 16)].take 1) := by
  refine ⟨_, rfl, ?_⟩
  decide

/-- the same operand with the schedule cut above the outer loop (`k = 3`): one schedule step = 2 hardware steps -/
example : ∃ r, toStridePattern itC [8, 4] true = .ok r ∧ BankContiguous 4 itC r ∧ ExactDivision r ∧ NoBroadcast r ∧
    prodBounds ((4, 1) :: itC.take 3) = 2 * prodBounds ((bank, 1) :: spatialLoops [8, 4] r.pat.ss) := by
  refine ⟨_, rfl, ?_⟩
  decide

example : hwStream [4] (Pattern.canonicalize { ub := [1, 4], ts := [7, 32], ss := [8] }) =
    hwStream [4] { ub := [1, 4], ts := [7, 32], ss := [8] } := canonicalize_stream _ _

/-- finding D29, warning path: snax_alu streamer (4 ports), i8 elements, loops (4,1),(4,4): `1·4 < 8` only warns;
    the hardware then fetches 4 words at stride 4 = bytes 0..19, the schedule holds bytes 0..15. -/
theorem d29_warned_fails : ¬ toStridePattern_stream_statement := by
  intro h
  have := h [(4, 1), (4, 4)] [4] false 1 _ rfl rfl
  revert this
  decide

/-- finding D29, silent path: gemmx operand B `memref<16x8xi8>` row-major (loops k:(8,8) n:(8,1) outer:(2,64)):
    `8·8 > 8` is taken for 64 contiguous bytes, `n` becomes a temporal loop of stride 1: 16 steps instead of 2 and
    hardware step 7 (which belongs to schedule step 0 = bytes 0..63) fetches bytes 7..70. No diagnostic. -/
theorem d29_noncontiguous_fails :
    ∃ r, toStridePattern [(8, 8), (8, 1), (2, 64)] [8] false = .ok r ∧ r.warned = false ∧ ExactDivision r ∧
      NoBroadcast r ∧ innerStride [(8, 8), (8, 1), (2, 64)] ≠ some ((1 : Nat) : Int) ∧
      r.pat = { ub := [8, 2], ts := [1, 64], ss := [8] } ∧
      (hwStream [8] r.pat).length = 16 ∧ (70 : Int) ∈ (hwStream [8] r.pat)[7]! ∧
      (70 : Int) ∉ ((schedStream 1 [(8, 8), (8, 1), (2, 64)] 2)[0]!) := by
  refine ⟨_, rfl, ?_⟩
  decide +kernel

/-- finding DC02b: xDMA writer (8 ports), `memref<32xi8>`: loops (16,1),(2,16). `16/8 = 2 < 8` ports, so the next
    bound is divided: `2 // 4 = 0` — the pattern has upper bound 0 and streams nothing; the schedule holds 32 bytes. -/
theorem inexact_fails :
    ∃ r, toStridePattern [(16, 1), (2, 16)] [8] false = .ok r ∧ BankContiguous 1 [(16, 1), (2, 16)] r ∧
      NoBroadcast r ∧ r.inexact = true ∧ r.pat = { ub := [0], ts := [64], ss := [8] } ∧
      (hwStream [8] r.pat).flatten = [] ∧ ((schedStream 1 [(16, 1), (2, 16)] 1).flatten).length = 32 := by
  refine ⟨_, rfl, ?_⟩
  decide

/-- clause `NoBroadcast`: gemmx operand C with a broadcast row (loops n:(8,4), m:(8,0)): the escape keeps the spatial
    stride 8 for 8 ports (64 bytes) where the schedule only holds one row of 32 bytes, repeated. Under the documented
    address generator the streams differ (the hardware's broadcast mode is outside the model). -/
theorem bcast_fails :
    ∃ r, toStridePattern [(8, 4), (8, 0)] [8, 4] true = .ok r ∧ BankContiguous 4 [(8, 4), (8, 0)] r ∧
      ExactDivision r ∧ r.bcast = true ∧ r.pat.ss = [8, 0] ∧
      (40 : Int) ∈ (hwStream [8, 4] r.pat).flatten ∧ (40 : Int) ∉ (schedStream 4 [(8, 4), (8, 0)] 2).flatten := by
  refine ⟨_, rfl, ?_⟩
  decide

/-! ## (3) composition for the generic path (no accelerator customisation) -/

/-- full statement of the property for one operand on the generic path (all dimensions relevant): whenever both
    passes succeed, the hardware byte sequence is the sequence of the bytes of the elements at their LAYOUT addresses,
    in schedule order. False of the code: `resolve_exact_fails`, `d29_*_fails`, `inexact_fails`. -/
def C02_statement : Prop :=
  ∀ (L : AExpr) (A : List (List Int)) (b : List Int) (bounds : List Nat) (dims : List Nat) (bc : Bool) (el : Nat)
    (s : List Int) (r : Res),
    resolve L A b bounds.length = some s →
    toStridePattern (accessIter s bounds (bounds.map fun _ => true)) dims bc = .ok r →
    (hwStream dims r.pat).flatten.map some =
      (points bounds).flatMap fun x => (List.range el).map fun (k : Nat) =>
        (accessEval L A b (x.map Int.ofNat)).map (· + (k : Int))

private theorem inBox_of_mem_points : ∀ (bounds x : List Nat), x ∈ points bounds → InBox bounds (x.map Int.ofNat)
  | [], x, h => by
    simp [points] at h; subst h
    exact ⟨rfl, by intro i hi; simp at hi⟩
  | b :: bs, x, h => by
    simp only [points, List.mem_flatMap, List.mem_range, List.mem_map] at h
    obtain ⟨i, hi, y, hy, rfl⟩ := h
    obtain ⟨hl, hb⟩ := inBox_of_mem_points bs y hy
    refine ⟨by simpa using hl, ?_⟩
    intro j hj
    match j, hj with
    | 0, _ => simp; omega
    | j + 1, hj =>
      have := hb j (by simpa using hj)
      simpa using this

private theorem flatMap_congr' {α β} (l : List α) (f g : α → List β) (h : ∀ x ∈ l, f x = g x) :
    l.flatMap f = l.flatMap g := by
  induction l with
  | nil => rfl
  | cons a l ih =>
    rw [List.flatMap_cons, List.flatMap_cons, h a (by simp), ih (fun x hx => h x (by simp [hx]))]

private theorem dotI_ofNat : ∀ (s : List Int) (x : List Nat), dotI s (x.map Int.ofNat) = dotN s x
  | [], _ => by simp [dotI, dotN]
  | _ :: _, [] => by simp [dotI, dotN]
  | a :: s, y :: x => by simp [dotI, dotN, dotI_ofNat s x]

/-- **C02_partial**: composition of layout resolution and conversion on the generic path, all dimensions relevant
    (element-wise operands; an operand that ignores a spatial template dimension is covered by
    `toStridePattern_stream_partial` on its filtered loop list). Under the four clauses the concatenation of all
    hardware steps is, byte for byte and in order, the bytes of the scheduled elements at the addresses the memory
    LAYOUT gives them, enumerated in schedule order. Any rank, bounds, layout expression, streamer geometry. -/
theorem C02_partial (L : AExpr) (A : List (List Int)) (b : List Int) (bounds : List Nat) (dims : List Nat) (bc : Bool)
    (el : Nat) (s : List Int) (r : Res)
    (hlin : LinearOnBox L A b bounds)
    (hres : resolve L A b bounds.length = some s)
    (hconv : toStridePattern (accessIter s bounds (bounds.map fun _ => true)) dims bc = .ok r)
    (hbank : BankContiguous el (accessIter s bounds (bounds.map fun _ => true)) r)
    (hex : ExactDivision r) (hnb : NoBroadcast r) :
    (hwStream dims r.pat).flatten.map some =
      (points bounds).flatMap fun x => (List.range el).map fun (k : Nat) =>
        (accessEval L A b (x.map Int.ofNat)).map (· + (k : Int)) := by
  have hslen : bounds.length = s.length := (mapM_range_get _ _ _ hres).1.symm
  rw [toStridePattern_stream_partial _ dims bc el 0 r hconv hbank hex hnb, flatten_schedStream,
    accessIter_all, schedLoops, offs_bytes, offs_box bounds s hslen]
  simp only [List.flatMap_map, List.map_flatMap, elemBytes, List.map_map]
  apply flatMap_congr'
  intro x hx
  apply List.map_congr_left
  intro k _
  have := resolve_exact_partial L A b bounds s hlin hres _ (inBox_of_mem_points bounds x hx)
  rw [this, dotI_ofNat]
  rfl

/-- `C02_statement` is false of the code (finding D29, warning path, with a row-major `memref<16xi8>`). -/
theorem C02_fails : ¬ C02_statement := by
  intro h
  have := h (.bin .add (.const 0) (.bin .mul (.dim 0) (.const 1))) [[4, 1]] [0] [4, 4] [4] false 1 [4, 1] _
    (by decide) rfl
  revert this
  decide

/-- non-vacuity of `C02_partial`: snax_alu, `memref<16xi64>` row-major, schedule `(d0, d1) -> 4·d0 + d1`,
    bounds [4, 4]: strides [32, 8], pattern ub=[4] ts=[32] ss=[8] (the upstream filecheck expectation). -/
example : ∃ s r, resolve (.bin .mul (.dim 0) (.const 8)) [[4, 1]] [0] 2 = some s ∧
    toStridePattern (accessIter s [4, 4] [true, true]) [4] false = .ok r ∧
    BankContiguous 8 (accessIter s [4, 4] [true, true]) r ∧ ExactDivision r ∧ NoBroadcast r ∧
    r.pat = { ub := [4], ts := [32], ss := [8] } := by
  refine ⟨[32, 8], _, by decide, rfl, ?_⟩
  decide

/-! ## (4) accelerator customisation: one refutation (finding DC02c) -/

/-- xDMA add extension: the stride pattern of the SECOND input is discarded; both inputs are fetched by the first
    input's pattern with a hard-coded outer loop `(2, 512)`. With a second input whose layout differs (here: stride
    16 instead of 64 between its steps) the hardware's odd steps are the first pattern shifted by 512, not the second
    operand's steps. -/
theorem xdma_add_second_input_fails :
    ∃ (p0 p1 q : Pattern) (out : List Pattern), p0 ≠ p1 ∧ customize .xdmaAdd [p0, p1, q] = .ok out ∧
      out.length = 2 ∧ out[1]! = q ∧
      (hwStream [8] out[0]!)[1]! = ((hwStream [8] p0)[0]!).map (· + 512) ∧
      (hwStream [8] out[0]!)[3]! ≠ ((hwStream [8] p1)[1]!).map (· + 512) := by
  refine ⟨{ ub := [2], ts := [64], ss := [8] }, { ub := [2], ts := [16], ss := [8] },
    { ub := [2], ts := [64], ss := [8] }, _, by decide, rfl, ?_⟩
  decide

end SnaxVerif.C02
