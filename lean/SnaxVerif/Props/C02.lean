import SnaxVerif.Lemmas.Stream
import SnaxVerif.Lemmas.StreamLayout
/-!
# C02 — Streamer address streams equal the scheduled element stream

Property (properties.jsonl): for every operand of a scheduled accelerator operation, the memory words that the
hardware data streamer touches under the generated spatial/temporal stride configuration are, temporal step by
temporal step, exactly the bytes holding the tensor elements the schedule assigns to that step under the operand's
memory layout. No element is skipped, duplicated, reordered across steps or fetched from another position.

Model: `Model/Stream.lean` (`resolve` = dart-layout-resolution, `toStridePattern` = convert-dart-to-snax-stream per
operand, `hwStream` = documented streamer address generator, `schedStream` = bytes of the scheduled elements).

The property is FALSE of the code as stated; the full statements stay visible (`…_statement`), the proved parts are
`…_partial` with named clauses, and each dropped clause has a `…_fails` witness:

* `LinearOnBox`   (layout resolution) : layout ∘ pattern is linear with value 0 at the origin on the iteration box.
                   Dropped: finding DC02a (offset / bias / unaligned tiles shift every stride) — `resolve_exact_fails`.
* `BankContiguous`(conversion)        : the innermost relevant stride is the element width and `stride·bound ≥ 8`
                   (no warning). Dropped: finding D29 (warning path) — `d29_warned_fails`. The silent half (stride ≠
                   element width, `d29_noncontiguous_fails` on the inner function) is REPAIRED by fix FC02a: the code
                   refuses it (`d29_noncontiguous_refused`), `toStridePatternEl_stream_partial` needs no such clause.
* `ExactDivision` (conversion)        : no `//` of the conversion had a remainder. REPAIRED by fix FC02a (finding
                   DC02b): now a theorem, `exactDivision_holds`; former witness refused: `inexact_refused`.
* `NoBroadcast`   (conversion)        : the broadcast escape was not taken (hardware broadcast is not the documented
                   address generator). Dropped: `bcast_fails`.

Accelerator-specific `set_stride_patterns` (`customize`) is covered by correspondence + oracle only; the one
statement made about it is the refutation `xdma_add_second_input_fails` (finding DC02c).
-/
namespace SnaxVerif.C02
open SnaxVerif SnaxVerif.Stride SnaxVerif.Stream

/-! ## (1) layout resolution -/

/-- `x` is a point of the iteration box -/
def InBox (bounds : List Nat) (x : List Int) : Prop :=
  x.length = bounds.length ∧ ∀ i (_ : i < bounds.length), 0 ≤ x[i]! ∧ x[i]! < (bounds[i]! : Int)

/-- clause: the composed map is a linear form (no constant term) on the iteration box -/
def LinearOnBox (L : AExpr) (A : List (List Int)) (b : List Int) (bounds : List Nat) : Prop :=
  ∃ c : List Int, c.length = bounds.length ∧ ∀ x, InBox bounds x → accessEval L A b x = some (dotI c x)

/-- full statement: the resolved strides reproduce the byte address of every scheduled element -/
def resolve_exact_statement : Prop :=
  ∀ (L : AExpr) (A : List (List Int)) (b : List Int) (bounds : List Nat) (r : List Int),
    resolve L A b bounds.length = some r →
    ∀ x, InBox bounds x → accessEval L A b x = some (dotI r x)

private theorem unitVec_inBox (bounds : List Nat) (i : Nat) (hi : i < bounds.length)
    (hpos : ∀ j (_ : j < bounds.length), 1 ≤ bounds[j]!) (h2 : 2 ≤ bounds[i]!) :
    InBox bounds (unitVec bounds.length i) := by
  refine ⟨by simp [unitVec], ?_⟩
  intro j hj
  have hget : (unitVec bounds.length i)[j]! = if j = i then 1 else 0 := by
    simp [unitVec, hj]
  rw [hget]
  by_cases hji : j = i
  · subst hji
    rw [if_pos rfl]
    exact ⟨by decide, by omega⟩
  · rw [if_neg hji]
    have := hpos j hj
    exact ⟨by decide, by omega⟩

/-- **resolve_exact** (partial: clause `LinearOnBox`): the unit-response strides are exact on the whole box, for any
    layout expression, pattern, rank and bounds. -/
theorem resolve_exact_partial (L : AExpr) (A : List (List Int)) (b : List Int) (bounds : List Nat) (r : List Int)
    (hlin : LinearOnBox L A b bounds) (hres : resolve L A b bounds.length = some r) :
    ∀ x, InBox bounds x → accessEval L A b x = some (dotI r x) := by
  obtain ⟨c, hclen, hc⟩ := hlin
  intro x hx
  rw [hc x hx]
  congr 1
  obtain ⟨hrlen, hrget⟩ := mapM_range_get _ _ _ hres
  have hpos : ∀ j (_ : j < bounds.length), 1 ≤ bounds[j]! := by
    intro j hj
    have := (hx.2 j hj); omega
  apply dotI_congr c r x (by rw [hclen, hx.1]) (by rw [hrlen, hx.1])
  intro i hi
  rw [hx.1] at hi
  by_cases h2 : 2 ≤ bounds[i]!
  · have hu := unitVec_inBox bounds i hi hpos h2
    have e1 := hc _ hu
    have e2 := hrget i hi
    rw [e1] at e2
    have hd : dotI c (unitVec bounds.length i) = c[i]! := by
      rw [← hclen]; exact dotI_unitVec c i (by omega)
    rw [hd] at e2
    have : r[i]! = c[i]! := by
      have hri : i < r.length := by omega
      rw [List.getElem?_eq_getElem hri] at e2
      simp only [Option.some.injEq] at e2
      simp [hri, ← e2]
    rw [this]
  · have hxi := hx.2 i hi
    have : x[i]! = 0 := by have := hpos i hi; omega
    rw [this]; simp

/-- finding DC02a: a layout offset of 4 bytes (`L = d0 + 4`) is added to the stride: element 2 is at byte 6, the
    resolved stride says 10. -/
theorem resolve_exact_fails : ¬ resolve_exact_statement := by
  intro h
  have := h (.bin .add (.dim 0) (.const 4)) [[1]] [0] [4] [5] (by decide) [2]
    ⟨rfl, by intro i hi; have : i = 0 := by simpa using hi
             subst this; decide⟩
  revert this
  decide

example : LinearOnBox (.bin .add (.bin .mul (.dim 0) (.const 32)) (.bin .mul (.dim 1) (.const 8)))
    [[4, 1], [0, 0]] [0, 0] [3, 4] := by
  refine ⟨[128, 32], rfl, ?_⟩
  intro x hx
  obtain ⟨hl, _⟩ := hx
  match x, hl with
  | [a, b], _ =>
    simp [accessEval, patEval, dotI, envOf, AExpr.eval, AExpr.evalBin]
    omega

/-! ## (2) conversion to a stride pattern -/

/-- clause `BankContiguous`: innermost relevant stride = element width, and no `stride·bound < 8` warning -/
def BankContiguous (el : Nat) (it : List Loop) (r : Res) : Prop :=
  innerStride it = some (el : Int) ∧ r.warned = false

/-- clause `ExactDivision`: every `//` of the conversion was exact -/
def ExactDivision (r : Res) : Prop := r.inexact = false

/-- clause `NoBroadcast`: the broadcast escape was not taken -/
def NoBroadcast (r : Res) : Prop := r.bcast = false

instance (el : Nat) (it : List Loop) (r : Res) : Decidable (BankContiguous el it r) := by
  unfold BankContiguous; infer_instance
instance (r : Res) : Decidable (ExactDivision r) := by unfold ExactDivision; infer_instance
instance (r : Res) : Decidable (NoBroadcast r) := by unfold NoBroadcast; infer_instance

/-- full statement: whenever the conversion succeeds, the hardware byte sequence is the schedule's byte sequence -/
def toStridePattern_stream_statement : Prop :=
  ∀ (it : List Loop) (dims : List Nat) (bc : Bool) (el : Nat) (r : Res),
    toStridePattern it dims bc = .ok r → innerStride it = some (el : Int) →
    (hwStream dims r.pat).flatten = (schedStream el it 0).flatten

/-- **toStridePattern_stream** (partial): the concatenation of all hardware steps (ports in order, 8 bytes per port) is
    exactly the concatenation of the bytes of the scheduled elements in schedule order — same bytes, same order, same
    multiplicity: nothing skipped, duplicated, reordered or taken from elsewhere. For every loop nest, every number and
    size of spatial dimensions, every stride. `k` (where the schedule's steps are cut) is arbitrary. -/
theorem toStridePattern_stream_partial (it : List Loop) (dims : List Nat) (bc : Bool) (el k : Nat) (r : Res)
    (h : toStridePattern it dims bc = .ok r)
    (hbank : BankContiguous el it r) (hex : ExactDivision r) (hnb : NoBroadcast r) :
    (hwStream dims r.pat).flatten = (schedStream el it k).flatten := by
  rw [flatten_hwStream, flatten_schedStream]
  exact toStridePattern_offs it dims bc el r h hbank.2 hex hnb hbank.1

/-- **step by step, hardware steps at least as large as schedule steps**: if one hardware step holds `g` schedule
    steps' worth of bytes, hardware step `j` is exactly the concatenation of schedule steps `g·j … g·j+g-1`. -/
theorem toStridePattern_steps_partial (it : List Loop) (dims : List Nat) (bc : Bool) (el k g : Nat) (r : Res)
    (h : toStridePattern it dims bc = .ok r)
    (hbank : BankContiguous el it r) (hex : ExactDivision r) (hnb : NoBroadcast r)
    (hS : 0 < prodBounds ((el, 1) :: it.take k))
    (hg : prodBounds ((bank, 1) :: spatialLoops dims r.pat.ss) = g * prodBounds ((el, 1) :: it.take k)) :
    ∀ j (hj : j < (hwStream dims r.pat).length),
      (hwStream dims r.pat)[j] = (((schedStream el it k).drop (g * j)).take g).flatten := by
  apply chunks_regroup g _ hS
  · intro a ha; rw [hwStream_step_length dims r.pat a ha, hg]
  · exact schedStream_step_length el it k
  · exact toStridePattern_stream_partial it dims bc el k r h hbank hex hnb

/-- **step by step, schedule steps larger than hardware steps**: schedule step `j` is exactly the concatenation of
    hardware steps `g·j … g·j+g-1`. -/
theorem toStridePattern_steps_rev_partial (it : List Loop) (dims : List Nat) (bc : Bool) (el k g : Nat) (r : Res)
    (h : toStridePattern it dims bc = .ok r)
    (hbank : BankContiguous el it r) (hex : ExactDivision r) (hnb : NoBroadcast r)
    (hH : 0 < prodBounds ((bank, 1) :: spatialLoops dims r.pat.ss))
    (hg : prodBounds ((el, 1) :: it.take k) = g * prodBounds ((bank, 1) :: spatialLoops dims r.pat.ss)) :
    ∀ j (hj : j < (schedStream el it k).length),
      (schedStream el it k)[j] = (((hwStream dims r.pat).drop (g * j)).take g).flatten := by
  apply chunks_regroup g _ hH
  · intro a ha; rw [schedStream_step_length el it k a ha, hg]
  · exact hwStream_step_length dims r.pat
  · exact (toStridePattern_stream_partial it dims bc el k r h hbank hex hnb).symm

/-- `StridePattern.canonicalize` (applied to every pattern before the streaming region is built) leaves every
    hardware step unchanged. -/
theorem canonicalize_stream (dims : List Nat) (p : Pattern) : hwStream dims p.canonicalize = hwStream dims p := by
  by_cases h : (0 : Int) ∈ p.ss
  · unfold Pattern.canonicalize; rw [if_pos h]
  · have hss : p.canonicalize.ss = p.ss := by unfold Pattern.canonicalize; rw [if_neg h]
    unfold hwStream
    rw [canonicalize_loops p h, canonLoops_offs, hss]

/-! ### witnesses: non-vacuity and the dropped clauses -/

/-- gemmx operand C (`memref<16x8xi32>` row-major, streamer with 8×4 ports): schedule loops innermost first
    n:(8,4) m:(8,32) outer:(2,256) -/
def itC : List Loop := [(8, 4), (8, 32), (2, 256)]

example : ∃ r, toStridePattern itC [8, 4] true = .ok r ∧ BankContiguous 4 itC r ∧ ExactDivision r ∧ NoBroadcast r ∧
    r.pat = { ub := [2], ts := [256], ss := [8, 64] } ∧
    prodBounds ((bank, 1) :: spatialLoops [8, 4] r.pat.ss) = 1 * prodBounds ((4, 1) :: itC.take 2) := by
  refine ⟨_, rfl, ?_⟩
  decide

/-- xDMA, `memref<64xi8>`: one hardware step (8 ports) holds 4 schedule steps of 16 bytes -/
example : ∃ r, toStridePattern [(16, 1), (4, 16)] [8] false = .ok r ∧ BankContiguous 1 [(16, 1), (4, 16)] r ∧
    ExactDivision r ∧ NoBroadcast r ∧ r.pat = { ub := [1], ts := [64], ss := [8] } ∧
    prodBounds ((bank, 1) :: spatialLoops [8] r.pat.ss) = 4 * prodBounds ((1, 1) :: [(16, 1), (4, 16)].take 1) := by
  refine ⟨_, rfl, ?_⟩
  decide

/-- the same operand with the schedule cut above the outer loop (`k = 3`): one schedule step = 2 hardware steps -/
example : ∃ r, toStridePattern itC [8, 4] true = .ok r ∧ BankContiguous 4 itC r ∧ ExactDivision r ∧ NoBroadcast r ∧
    prodBounds ((4, 1) :: itC.take 3) = 2 * prodBounds ((bank, 1) :: spatialLoops [8, 4] r.pat.ss) := by
  refine ⟨_, rfl, ?_⟩
  decide

example : hwStream [4] (Pattern.canonicalize { ub := [1, 4], ts := [7, 32], ss := [8] }) =
    hwStream [4] { ub := [1, 4], ts := [7, 32], ss := [8] } := canonicalize_stream _ _

/-- finding D29, warning path: snax_alu streamer (4 ports), i8 elements, loops (4,1),(4,4): `1·4 < 8` only warns;
    the hardware then fetches 4 words at stride 4 = bytes 0..19, the schedule holds bytes 0..15. -/
theorem d29_warned_fails : ¬ toStridePattern_stream_statement := by
  intro h
  have := h [(4, 1), (4, 4)] [4] false 1 _ rfl rfl
  revert this
  decide

/-- finding D29, silent path: gemmx operand B `memref<16x8xi8>` row-major (loops k:(8,8) n:(8,1) outer:(2,64)):
    `8·8 > 8` is taken for 64 contiguous bytes, `n` becomes a temporal loop of stride 1: 16 steps instead of 2 and
    hardware step 7 (which belongs to schedule step 0 = bytes 0..63) fetches bytes 7..70. No diagnostic. -/
theorem d29_noncontiguous_fails :
    ∃ r, toStridePattern [(8, 8), (8, 1), (2, 64)] [8] false = .ok r ∧ r.warned = false ∧ ExactDivision r ∧
      NoBroadcast r ∧ innerStride [(8, 8), (8, 1), (2, 64)] ≠ some ((1 : Nat) : Int) ∧
      r.pat = { ub := [8, 2], ts := [1, 64], ss := [8] } ∧
      (hwStream [8] r.pat).length = 16 ∧ (70 : Int) ∈ (hwStream [8] r.pat)[7]! ∧
      (70 : Int) ∉ ((schedStream 1 [(8, 8), (8, 1), (2, 64)] 2)[0]!) := by
  refine ⟨_, rfl, ?_⟩
  decide +kernel

/-- finding DC02b, REPAIRED by fix FC02a: xDMA writer (8 ports), `memref<32xi8>`: loops (16,1),(2,16). `16/8 = 2 < 8`
    ports, so the next bound would be divided `2 // 4 = 0` (the unrepaired code emitted `ub = [0]`: nothing streamed
    where the schedule holds 32 bytes). The code now refuses the operand … -/
theorem inexact_refused : toStridePattern [(16, 1), (2, 16)] [8] false = .error .runtimeError := by decide

/-- … and in general the clause `ExactDivision` is no longer a hypothesis: it holds for every result of the conversion. -/
theorem exactDivision_holds (it : List Loop) (dims : List Nat) (bc : Bool) (r : Res)
    (h : toStridePattern it dims bc = .ok r) : ExactDivision r :=
  toStridePattern_exact it dims bc r h

/-- clause `NoBroadcast`: gemmx operand C with a broadcast row (loops n:(8,4), m:(8,0)): the escape keeps the spatial
    stride 8 for 8 ports (64 bytes) where the schedule only holds one row of 32 bytes, repeated. Under the documented
    address generator the streams differ (the hardware's broadcast mode is outside the model). -/
theorem bcast_fails :
    ∃ r, toStridePattern [(8, 4), (8, 0)] [8, 4] true = .ok r ∧ BankContiguous 4 [(8, 4), (8, 0)] r ∧
      ExactDivision r ∧ r.bcast = true ∧ r.pat.ss = [8, 0] ∧
      (40 : Int) ∈ (hwStream [8, 4] r.pat).flatten ∧ (40 : Int) ∉ (schedStream 4 [(8, 4), (8, 0)] 2).flatten := by
  refine ⟨_, rfl, ?_⟩
  decide

/-! ## (3) composition for the generic path (no accelerator customisation) -/

/-- full statement of the property for one operand on the generic path (all dimensions relevant): whenever both
    passes succeed, the hardware byte sequence is the sequence of the bytes of the elements at their LAYOUT addresses,
    in schedule order. False of the code: `resolve_exact_fails`, `d29_warned_fails`. -/
def C02_statement : Prop :=
  ∀ (L : AExpr) (A : List (List Int)) (b : List Int) (bounds : List Nat) (dims : List Nat) (bc : Bool) (el : Nat)
    (s : List Int) (r : Res),
    resolve L A b bounds.length = some s →
    toStridePattern (accessIter s bounds (bounds.map fun _ => true)) dims bc = .ok r →
    (hwStream dims r.pat).flatten.map some =
      (points bounds).flatMap fun x => (List.range el).map fun (k : Nat) =>
        (accessEval L A b (x.map Int.ofNat)).map (· + (k : Int))

private theorem inBox_of_mem_points : ∀ (bounds x : List Nat), x ∈ points bounds → InBox bounds (x.map Int.ofNat)
  | [], x, h => by
    simp [points] at h; subst h
    exact ⟨rfl, by intro i hi; simp at hi⟩
  | b :: bs, x, h => by
    simp only [points, List.mem_flatMap, List.mem_range, List.mem_map] at h
    obtain ⟨i, hi, y, hy, rfl⟩ := h
    obtain ⟨hl, hb⟩ := inBox_of_mem_points bs y hy
    refine ⟨by simpa using hl, ?_⟩
    intro j hj
    match j, hj with
    | 0, _ => simp; omega
    | j + 1, hj =>
      have := hb j (by simpa using hj)
      simpa using this

private theorem flatMap_congr' {α β} (l : List α) (f g : α → List β) (h : ∀ x ∈ l, f x = g x) :
    l.flatMap f = l.flatMap g := by
  induction l with
  | nil => rfl
  | cons a l ih =>
    rw [List.flatMap_cons, List.flatMap_cons, h a (by simp), ih (fun x hx => h x (by simp [hx]))]

private theorem dotI_ofNat : ∀ (s : List Int) (x : List Nat), dotI s (x.map Int.ofNat) = dotN s x
  | [], _ => by simp [dotI, dotN]
  | _ :: _, [] => by simp [dotI, dotN]
  | a :: s, y :: x => by simp [dotI, dotN, dotI_ofNat s x]

/-- **C02_partial**: composition of layout resolution and conversion on the generic path, all dimensions relevant
    (element-wise operands; an operand that ignores a spatial template dimension is covered by
    `toStridePattern_stream_partial` on its filtered loop list). Under the four clauses the concatenation of all
    hardware steps is, byte for byte and in order, the bytes of the scheduled elements at the addresses the memory
    LAYOUT gives them, enumerated in schedule order. Any rank, bounds, layout expression, streamer geometry. -/
theorem C02_partial (L : AExpr) (A : List (List Int)) (b : List Int) (bounds : List Nat) (dims : List Nat) (bc : Bool)
    (el : Nat) (s : List Int) (r : Res)
    (hlin : LinearOnBox L A b bounds)
    (hres : resolve L A b bounds.length = some s)
    (hconv : toStridePattern (accessIter s bounds (bounds.map fun _ => true)) dims bc = .ok r)
    (hbank : BankContiguous el (accessIter s bounds (bounds.map fun _ => true)) r)
    (hex : ExactDivision r) (hnb : NoBroadcast r) :
    (hwStream dims r.pat).flatten.map some =
      (points bounds).flatMap fun x => (List.range el).map fun (k : Nat) =>
        (accessEval L A b (x.map Int.ofNat)).map (· + (k : Int)) := by
  have hslen : bounds.length = s.length := (mapM_range_get _ _ _ hres).1.symm
  rw [toStridePattern_stream_partial _ dims bc el 0 r hconv hbank hex hnb, flatten_schedStream,
    accessIter_all, schedLoops, offs_bytes, offs_box bounds s hslen]
  simp only [List.flatMap_map, List.map_flatMap, elemBytes, List.map_map]
  apply flatMap_congr'
  intro x hx
  apply List.map_congr_left
  intro k _
  have := resolve_exact_partial L A b bounds s hlin hres _ (inBox_of_mem_points bounds x hx)
  rw [this, dotI_ofNat]
  rfl

/-- `C02_statement` is false of the code (finding D29, warning path, with a row-major `memref<16xi8>`). -/
theorem C02_fails : ¬ C02_statement := by
  intro h
  have := h (.bin .add (.const 0) (.bin .mul (.dim 0) (.const 1))) [[4, 1]] [0] [4, 4] [4] false 1 [4, 1] _
    (by decide) rfl
  revert this
  decide

/-- non-vacuity of `C02_partial`: snax_alu, `memref<16xi64>` row-major, schedule `(d0, d1) -> 4·d0 + d1`,
    bounds [4, 4]: strides [32, 8], pattern ub=[4] ts=[32] ss=[8] (the upstream filecheck expectation). -/
example : ∃ s r, resolve (.bin .mul (.dim 0) (.const 8)) [[4, 1]] [0] 2 = some s ∧
    toStridePattern (accessIter s [4, 4] [true, true]) [4] false = .ok r ∧
    BankContiguous 8 (accessIter s [4, 4] [true, true]) r ∧ ExactDivision r ∧ NoBroadcast r ∧
    r.pat = { ub := [4], ts := [32], ss := [8] } := by
  refine ⟨[32, 8], _, by decide, rfl, ?_⟩
  decide

/-! ## (4) accelerator customisation: one refutation (finding DC02c) -/

/-- xDMA add extension: the stride pattern of the SECOND input is discarded; both inputs are fetched by the first
    input's pattern with a hard-coded outer loop `(2, 512)`. With a second input whose layout differs (here: stride
    16 instead of 64 between its steps) the hardware's odd steps are the first pattern shifted by 512, not the second
    operand's steps. -/
theorem xdma_add_second_input_fails :
    ∃ (p0 p1 q : Pattern) (out : List Pattern), p0 ≠ p1 ∧ customize .xdmaAdd [p0, p1, q] = .ok out ∧
      out.length = 2 ∧ out[1]! = q ∧
      (hwStream [8] out[0]!)[1]! = ((hwStream [8] p0)[0]!).map (· + 512) ∧
      (hwStream [8] out[0]!)[3]! ≠ ((hwStream [8] p1)[1]!).map (· + 512) := by
  refine ⟨{ ub := [2], ts := [64], ss := [8] }, { ub := [2], ts := [16], ss := [8] },
    { ub := [2], ts := [64], ss := [8] }, _, by decide, rfl, ?_⟩
  decide

/-! ## (4b) what fix FC02a moves from hypothesis to theorem -/

/-- **toStridePatternEl_stream** (the conversion as the code does it now, with the contiguity guard): the only clauses
    left are "no `< 8` warning" (finding D29, warning path — a documented assumption of the code: zero padding) and
    `NoBroadcast`. That the innermost relevant stride is the element width (the silent half of the former D29) and
    that no division lost anything (former DC02b) are established by the code itself. -/
theorem toStridePatternEl_stream_partial (el : Nat) (it : List Loop) (dims : List Nat) (bc : Bool) (k : Nat) (r : Res)
    (h : toStridePatternEl el it dims bc = .ok r) (hw : r.warned = false) (hnb : NoBroadcast r) :
    (hwStream dims r.pat).flatten = (schedStream el it k).flatten := by
  obtain ⟨h', hin⟩ := toStridePatternEl_inner el it dims bc r h hw
  exact toStridePattern_stream_partial it dims bc el k r h' ⟨hin, hw⟩ (toStridePattern_exact it dims bc r h') hnb

/-- the former silent witness of D29 (gemmx B `memref<16x8xi8>` row-major: innermost relevant stride 8, element
    width 1) is refused now -/
theorem d29_noncontiguous_refused :
    toStridePatternEl 1 [(8, 8), (8, 1), (2, 64)] [8] false = .error .runtimeError := by decide

/-- the warning path is unchanged (finding D29 stays open there): alu, i8, loops (4,1),(4,4) -/
example : ∃ r, toStridePatternEl 1 [(4, 1), (4, 4)] [4] false = .ok r ∧ r.warned = true := ⟨_, rfl, rfl⟩

example : ∃ r, toStridePatternEl 4 itC [8, 4] true = .ok r ∧ r.warned = false ∧ NoBroadcast r :=
  ⟨_, rfl, by decide⟩

/-! ## (5) accelerator customisation (`set_stride_patterns`): the data-carrying patterns survive -/

/-- clause `SimdSpatial`: for the rescale-only gemmx op (2 operands) the spatial strides of the i32 input are
    `[8, 64]` — the customisation overwrites them with exactly that ("the spatial strides do not matter here (i think)").
    Established by `simd_spatial_of_contiguous` whenever the input row is contiguous and not broadcast. -/
def SimdSpatial (v : Variant) (ps : List Pattern) (i : Nat) : Prop :=
  ∀ o s d, v = .gemmx o s d → ps.length = 2 → i = 0 → (ps[0]!).ss = [8, 64]

/-- full statement: every operand's pattern is found unchanged at its `dataIndex` in the customised list -/
def customize_data_statement : Prop :=
  ∀ (v : Variant) (ps out : List Pattern) (i : Nat) (hi : i < ps.length),
    customize v ps = .ok out → out[dataIndex v ps.length i]? = some ps[i]

/-- **customize_data** (partial: not the xDMA add extension — see `xdma_add_streams` / `xdma_add_second_input_fails` —
    and clause `SimdSpatial`): `set_stride_patterns` of snax_alu (identity) and of every snax_gemmx variant (matmul
    i32/i8, gemm i32/i8, rescale-only) hands the pattern of every data-carrying operand on unchanged, at the position
    of the streamer that serves it; the patterns it adds (empty / zero / serializer) sit at the other positions. -/
theorem customize_data_partial (v : Variant) (ps out : List Pattern) (i : Nat) (hi : i < ps.length)
    (h : customize v ps = .ok out) (hv : v ≠ .xdmaAdd) (hs : SimdSpatial v ps i) :
    out[dataIndex v ps.length i]? = some ps[i] := by
  cases v with
  | generic =>
    simp only [customize, Except.ok.injEq] at h; subst h
    simp [dataIndex]
  | xdmaAdd => exact absurd rfl hv
  | gemmxOther =>
    simp only [customize] at h
    split at h
    · exact absurd h (by simp)
    · split at h
      · simp only [Except.ok.injEq] at h; subst h; simp [dataIndex]
      · exact absurd h (by simp)
  | gemmx o s d =>
    simp only [customize] at h
    split at h
    · next a b c =>
      split at h <;> simp only [Except.ok.injEq] at h <;> subst h <;>
        (match i, hi with
         | 0, _ => simp [dataIndex, *]
         | 1, _ => simp [dataIndex, *]
         | 2, _ => simp [dataIndex, *])
    · next a b c e =>
      split at h <;> simp only [Except.ok.injEq] at h <;> subst h <;>
        (match i, hi with
         | 0, _ => simp [dataIndex, *]
         | 1, _ => simp [dataIndex, *]
         | 2, _ => simp [dataIndex, *]
         | 3, _ => simp [dataIndex, *])
    · next x y =>
      simp only [Except.ok.injEq] at h; subst h
      match i, hi with
      | 0, _ =>
        have := hs o s d rfl rfl rfl
        simp only [List.getElem!_cons_zero] at this
        simp [dataIndex, ← this]
      | 1, _ => simp [dataIndex]
    · exact absurd h (by simp)

/-- …and therefore the FINAL streaming region (after `StridePattern.canonicalize`) streams, on the streamer that serves
    operand `i`, step by step exactly what the pattern computed by the conversion streams (for any port geometry). -/
theorem final_data_stream_partial (v : Variant) (ps out : List Pattern) (i : Nat) (hi : i < ps.length) (dims : List Nat)
    (h : finalPatterns v ps = .ok out) (hv : v ≠ .xdmaAdd) (hs : SimdSpatial v ps i) :
    ∃ q, out[dataIndex v ps.length i]? = some q ∧ hwStream dims q = hwStream dims ps[i] := by
  unfold finalPatterns at h
  cases hc : customize v ps with
  | error e => simp [hc, Except.map] at h
  | ok c =>
    simp only [hc, Except.map, Except.ok.injEq] at h
    subst h
    have := customize_data_partial v ps c i hi hc hv hs
    refine ⟨(ps[i]).canonicalize, ?_, canonicalize_stream dims _⟩
    rw [List.getElem?_map, this]; rfl

/-- the clause dropped: a broadcast input of the rescale-only op (`ss = [8, 0]`) is overwritten with `[8, 64]` -/
theorem simd_spatial_fails : ¬ customize_data_statement := by
  intro h
  have := h (.gemmx false 1 8) [{ ub := [2], ts := [256], ss := [8, 0] }, { ub := [2], ts := [64], ss := [8] }] _ 0
    (by decide) rfl
  revert this
  decide

/-- `SimdSpatial` holds for every i32 input the conversion accepts on the 8×4-port streamer whose innermost loop is a
    contiguous row of 8 elements (the gemmx template) and that is not broadcast: the conversion can only produce
    `ss = [8, 64]`. -/
theorem simd_spatial_of_contiguous (rest : List Loop) (bc : Bool) (r : Res)
    (h : toStridePattern ((8, 4) :: rest) [8, 4] bc = .ok r) (hb : NoBroadcast r) : r.pat.ss = [8, 64] := by
  unfold toStridePattern at h
  have hf : first ((8, 4) :: rest) = .ok (⟨some (4, 8), rest, false, false⟩, false) := by
    simp [first, bank]
  rw [hf] at h
  simp only [] at h
  match h2 : spatialLoop bc ⟨some (4, 8), rest, false, false⟩ [8, 4], h with
  | .ok (ss, st'), h =>
    simp only [Except.ok.injEq] at h
    subst h
    simp only [NoBroadcast] at hb
    simp only []
    unfold spatialLoop at h2
    match h3 : spatialStep bc ⟨some (4, 8), rest, false, false⟩ 8, h2 with
    | .ok (s1, st1), h2 =>
      simp only [] at h2
      unfold spatialLoop at h2
      match h4 : spatialStep bc st1 4, h2 with
      | .ok (s2, st2), h2 =>
        simp only [spatialLoop, Except.ok.injEq, Prod.mk.injEq] at h2
        obtain ⟨hss, hst⟩ := h2
        subst hss hst
        obtain ⟨_, hc1⟩ := spatialStep_emits bc _ _ _ _ h3
        simp only [Option.some.injEq, Prod.mk.injEq] at hc1
        obtain ⟨_, hc2⟩ := spatialStep_emits bc _ _ _ _ h4
        have hb1 : st1.bcast = false := (spatialStep_spec_flags bc st1 st2 4 s2 h4 hb)
        -- the first fill-up step: 4 < 8 ports, merged with the next loop
        unfold spatialStep at h3
        simp only [] at h3
        match rest, h3 with
        | (nb, ns) :: r', h3 =>
          simp only [show ¬ (4 : Nat) = 8 by decide, show (4 : Nat) < 8 by decide, show ¬ (4 : Nat) = 0 by decide,
            show ¬ (8 % 4 ≠ 0) by decide, if_true, if_false] at h3
          split at h3
          · exact absurd h3 (by simp)
          split at h3
          · split at h3
            · simp only [Except.ok.injEq, Prod.mk.injEq] at h3
              obtain ⟨_, hst1⟩ := h3
              subst hst1
              simp at hb1
            · exact absurd h3 (by simp)
          · simp only [Except.ok.injEq, Prod.mk.injEq] at h3
            obtain ⟨_, hst1⟩ := h3
            subst hst1
            simp only [Option.some.injEq, Prod.mk.injEq] at hc2
            rw [← hc1.2, ← hc2.2]
            decide

/-- **streamers_dataIndex**: the streamer whose geometry (ports, broadcast option) the conversion uses for operand `i`
    (`get_streamers`) is the streamer at whose position `set_stride_patterns` puts that operand's pattern: selection
    and placement use the same table, for every gemmx variant and for the xDMA add extension. -/
theorem streamers_dataIndex (nops outBits ser sd : Nat) (l : List Nat) (h : gemmxStreamers nops outBits = .ok l)
    (hn : nops = 2 ∨ nops = 3 ∨ nops = 4) :
    l = (List.range nops).map (dataIndex (.gemmx (outBits == 32) ser sd) nops) ∧
      xdmaAddStreamers = (List.range 3).map (dataIndex .xdmaAdd 3) := by
  refine ⟨?_, by decide⟩
  unfold gemmxStreamers at h
  rcases hn with rfl | rfl | rfl
  · simp at h; subst h; simp [dataIndex, List.range_succ]
  · simp only [if_true] at h
    split at h
    · next h32 => simp at h; subst h; subst h32; simp [dataIndex, List.range_succ]
    · next h32 =>
      split at h
      · next h8 => simp at h; subst h; subst h8; simp [dataIndex, List.range_succ]
      · exact absurd h (by simp)
  · simp only [show ¬ (4 = 3) by decide, if_false, if_true] at h
    split at h
    · next h32 => simp at h; subst h; subst h32; simp [dataIndex, List.range_succ]
    · next h32 =>
      split at h
      · next h8 => simp at h; subst h; subst h8; simp [dataIndex, List.range_succ]
      · exact absurd h (by simp)

/-- xDMA add extension: the single reader pattern is the first input's pattern with an outer loop `(2, 512)`: every
    step of the first input is followed by the same step 512 bytes further (where the second input is assumed to lie);
    the output pattern is handed on unchanged. (That the second input's own pattern is discarded is
    `xdma_add_second_input_fails`, finding DC02c.) -/
theorem xdma_add_streams (ps out : List Pattern) (dims : List Nat) (h : customize .xdmaAdd ps = .ok out) :
    ∃ p0 q o0, ps.head? = some p0 ∧ ps.getLast? = some q ∧ out = [o0, q] ∧
      hwStream dims o0 = (hwStream dims p0).flatMap fun st => [st, st.map (· + 512)] := by
  unfold customize at h
  simp only [] at h
  split at h
  · next p q hp hq =>
    simp only [Except.ok.injEq] at h
    exact ⟨p, q, _, hp, hq, h.symm, hwStream_cons2 dims p 512⟩
  · exact absurd h (by simp)

example : ∃ out, customize (.gemmx true 1 8) [⟨[2], [8], [16]⟩, ⟨[2], [64], [8]⟩, ⟨[2], [0], [8, 64]⟩] = .ok out ∧
    out[dataIndex (.gemmx true 1 8) 3 2]? = some ⟨[2], [0], [8, 64]⟩ := ⟨_, rfl, by decide⟩

example : ∃ r, toStridePattern ((8, 4) :: [(8, 32), (2, 256)]) [8, 4] true = .ok r ∧ NoBroadcast r ∧
    r.pat.ss = [8, 64] := ⟨_, rfl, by decide⟩

/-! ## (6) `LinearOnBox` established for aligned tiled-strided layouts -/

private theorem inBox_nat : ∀ (bounds : List Nat) (x : List Int), InBox bounds x →
    ∃ y : List Nat, x = y.map Int.ofNat ∧ Tsl.InBox bounds y
  | [], x, h => by
    have : x = [] := List.length_eq_zero_iff.mp h.1
    subst this
    exact ⟨[], rfl, trivial⟩
  | b :: bs, [], h => by have := h.1; simp at this
  | b :: bs, a :: xs, h => by
    obtain ⟨hl, hb⟩ := h
    have h0 := hb 0 (by simp)
    simp only [List.getElem!_cons_zero] at h0
    have htail : InBox bs xs := by
      refine ⟨by simpa using hl, ?_⟩
      intro i hi
      have := hb (i + 1) (by simpa using hi)
      simpa using this
    obtain ⟨ys, hxs, hys⟩ := inBox_nat bs xs htail
    refine ⟨a.toNat :: ys, ?_, ?_, hys⟩
    · simp only [List.map_cons, hxs, List.cons.injEq, and_true]
      exact (Int.toNat_of_nonneg h0.1).symm
    · have : ((a.toNat : Nat) : Int) < (b : Int) := by rw [Int.toNat_of_nonneg h0.1]; exact h0.2
      exact_mod_cast this

/-- clause `Aligned` (decidable on the inputs of the pass, `Model/StreamLayout.lean`): the pattern has no constant
    term and, with some digit assignment `D`, every operand index is the mixed-radix value of per-tile digits that are
    non-negative combinations of the schedule dimensions and stay inside their tile on the whole box. -/
def Aligned (lay : Tsl.SLayout) (A : List (List Int)) (b : List Int) (bounds : List Nat) : Prop :=
  ∃ D, alignedB lay A b bounds D = true

/-- **tsl_linear_of_aligned**: for every static tiled-strided layout (any rank, any tile depth, positive steps and
    bounds, gaps allowed), element width and aligned pattern, the map that `dart-layout-resolution` composes
    (`get_affine_map_in_bytes` of the memref ∘ schedule pattern; the layout part is the C10 model of
    `TiledStridedLayoutAttr.get_affine_map`) is a linear form on the iteration box: the hypothesis `LinearOnBox` of
    `resolve_exact_partial` / `C02_partial` is established, with the explicit coefficients `alignedStrides`. -/
theorem tsl_linear_of_aligned (lay : Tsl.SLayout) (el : Nat) (A : List (List Int)) (b : List Int) (bounds : List Nat)
    (L : AExpr) (hpos : Tsl.SPos lay) (hL : tslBytes lay el = .ok L) (hal : Aligned lay A b bounds) :
    LinearOnBox L A b bounds := by
  obtain ⟨D, hD⟩ := hal
  refine ⟨alignedStrides lay el D bounds.length, by simp [alignedStrides], ?_⟩
  intro x hx
  obtain ⟨y, rfl, hy⟩ := inBox_nat bounds x hx
  exact aligned_accessEval lay el A b bounds D L hpos hL hD y hy

/-- clause `AlignedCanon`: the same against the canonical layout (`TiledStride.canonicalize`: tiles that continue each
    other in memory are one tile), with all digits — also the outermost — inside their tiles, i.e. indices inside the
    shape. Covers schedule dimensions that run across squashable tiles (e.g. a row-major-like `[2, 8] -> (8, 1)`). -/
def AlignedCanon (lay : Tsl.SLayout) (A : List (List Int)) (b : List Int) (bounds : List Nat) : Prop :=
  ∃ D, alignedCanonB lay A b bounds D = true

/-- **tsl_linear_of_aligned_canon**: `LinearOnBox` for patterns aligned with the canonical form of the layout (uses the
    C10 theorem that canonicalisation preserves the address of every index inside the shape). -/
theorem tsl_linear_of_aligned_canon (lay : Tsl.SLayout) (el : Nat) (A : List (List Int)) (b : List Int)
    (bounds : List Nat) (L : AExpr) (hpos : Tsl.SPos lay) (hL : tslBytes lay el = .ok L)
    (hal : AlignedCanon lay A b bounds) : LinearOnBox L A b bounds := by
  obtain ⟨D, hD⟩ := hal
  refine ⟨alignedStrides (lay.map squash) el D bounds.length, by simp [alignedStrides], ?_⟩
  intro x hx
  obtain ⟨y, rfl, hy⟩ := inBox_nat bounds x hx
  exact aligned_accessEval_canon lay el A b bounds D L hpos hL hD y hy

/-- the strides that the pass extracts for an aligned operand are the layout's: on the box they reproduce the layout
    address of every scheduled element (no `LinearOnBox` hypothesis left) -/
theorem resolve_exact_tsl (lay : Tsl.SLayout) (el : Nat) (A : List (List Int)) (b : List Int) (bounds : List Nat)
    (L : AExpr) (r : List Int) (hpos : Tsl.SPos lay) (hL : tslBytes lay el = .ok L) (hal : Aligned lay A b bounds)
    (hres : resolve L A b bounds.length = some r) :
    ∀ x, InBox bounds x → accessEval L A b x = some (dotI r x) :=
  resolve_exact_partial L A b bounds r (tsl_linear_of_aligned lay el A b bounds L hpos hL hal) hres

/-- **C02_tsl_partial**: `C02_partial` for operands with a tiled-strided layout, with `LinearOnBox` replaced by the
    decidable input condition `Aligned`. -/
theorem C02_tsl_partial (lay : Tsl.SLayout) (A : List (List Int)) (b : List Int) (bounds : List Nat) (dims : List Nat)
    (bc : Bool) (el : Nat) (L : AExpr) (s : List Int) (r : Res)
    (hpos : Tsl.SPos lay) (hL : tslBytes lay el = .ok L) (hal : Aligned lay A b bounds)
    (hres : resolve L A b bounds.length = some s)
    (hconv : toStridePattern (accessIter s bounds (bounds.map fun _ => true)) dims bc = .ok r)
    (hbank : BankContiguous el (accessIter s bounds (bounds.map fun _ => true)) r)
    (hex : ExactDivision r) (hnb : NoBroadcast r) :
    (hwStream dims r.pat).flatten.map some =
      (points bounds).flatMap fun x => (List.range el).map fun (k : Nat) =>
        (accessEval L A b (x.map Int.ofNat)).map (· + (k : Int)) :=
  C02_partial L A b bounds dims bc el s r (tsl_linear_of_aligned lay el A b bounds L hpos hL hal) hres hconv hbank hex hnb

/-- non-vacuity of the canonical variant: `memref<16x8xi8, #tsl.tsl<[2, 8] -> (64, 8), [8] -> (1)>>` walked by one
    schedule dimension of bound 16 over the rows: not aligned with the tiles as written, aligned with the squashed
    layout `[16] -> (8)`. -/
example : ¬ alignedB [[⟨64, 2⟩, ⟨8, 8⟩], [⟨1, 8⟩]] [[1, 0], [0, 1]] [0, 0] [16, 8]
      (autoDigits [[⟨64, 2⟩, ⟨8, 8⟩], [⟨1, 8⟩]] [[1, 0], [0, 1]]) = true ∧
    AlignedCanon [[⟨64, 2⟩, ⟨8, 8⟩], [⟨1, 8⟩]] [[1, 0], [0, 1]] [0, 0] [16, 8] :=
  ⟨by decide, ⟨autoDigits ([[⟨64, 2⟩, ⟨8, 8⟩], [⟨1, 8⟩]].map squash) [[1, 0], [0, 1]], by decide⟩⟩

/-- the layout's `offset` never reaches layout resolution: `get_affine_map` of a tiled-strided layout is the same
    expression for every offset (finding DC02a, second half: an operand with `offset ≠ 0` is streamed from the aligned
    pointer). The theorems of this section are therefore statements about layouts with offset 0 — exactly the layouts
    for which `tslBytes` IS the layout's byte address function (`Tsl.addr`, C10 `affDims_eval`). -/
theorem tsl_offset_ignored (lay : Tsl.SLayout) (off : Option Int) :
    (Tsl.ofStatic lay off).affineMap = (Tsl.ofStatic lay (some 0)).affineMap := rfl

/-- full statement without the clause: false (finding DC02a, unaligned tiles) -/
def resolve_exact_tsl_statement : Prop :=
  ∀ (lay : Tsl.SLayout) (el : Nat) (A : List (List Int)) (b : List Int) (bounds : List Nat) (L : AExpr) (r : List Int),
    Tsl.SPos lay → tslBytes lay el = .ok L → resolve L A b bounds.length = some r →
    ∀ x, InBox bounds x → accessEval L A b x = some (dotI r x)

/-- `memref<6xi8, #tsl.tsl<[2, 3] -> (8, 1)>>` walked by a schedule dimension of bound 6 (tile of 3, not aligned):
    the unit response is 1, element 3 lives at byte 8. -/
theorem tsl_unaligned_fails : ¬ resolve_exact_tsl_statement := by
  intro h
  have := h [[⟨8, 2⟩, ⟨1, 3⟩]] 1 [[1]] [0] [6] _ [1] (by decide) rfl (by decide) [3]
    ⟨rfl, by intro i hi; have : i = 0 := by simpa using hi
             subst this; decide⟩
  revert this
  decide

/-- non-vacuity: gemmx operand A of the seeded demo, `memref<16x16xi8, #tsl.tsl<[2, 8] -> (128, 8), [2, 8] -> (64, 1)>>`,
    schedule `(d0..d5) -> (8·d1 + d3, 8·d2 + d5)`, bounds [2,2,2,8,8,8]; the digit assignment is the computed one. -/
example : Aligned [[⟨128, 2⟩, ⟨8, 8⟩], [⟨64, 2⟩, ⟨1, 8⟩]] [[0, 8, 0, 1, 0, 0], [0, 0, 8, 0, 0, 1]] [0, 0]
    [2, 2, 2, 8, 8, 8] :=
  ⟨autoDigits [[⟨128, 2⟩, ⟨8, 8⟩], [⟨64, 2⟩, ⟨1, 8⟩]] [[0, 8, 0, 1, 0, 0], [0, 0, 8, 0, 0, 1]], by decide⟩

example : alignedStrides [[⟨128, 2⟩, ⟨8, 8⟩], [⟨64, 2⟩, ⟨1, 8⟩]] 1
    (autoDigits [[⟨128, 2⟩, ⟨8, 8⟩], [⟨64, 2⟩, ⟨1, 8⟩]] [[0, 8, 0, 1, 0, 0], [0, 0, 8, 0, 0, 1]]) 6 =
    [0, 128, 64, 8, 0, 1] := by decide

end SnaxVerif.C02
