import SnaxVerif.Lemmas.PostInduct
import SnaxVerif.Props.C03
import SnaxVerif.Lemmas.Matcher
import SnaxVerif.Lemmas.First
import SnaxVerif.Lemmas.CheckSpecs
/-!
# C16 — returned schedules fit the accelerator template

Post-conditions of every schedule yielded by `scheduler_backtrack`, and soundness of the exact matcher
`matchesQ` that stands for `TemplatePattern.matches` in the model (the SVD of the real matcher is
floating point and is NOT modelled: it is compared with `matchesQ` by the correspondence check, within
`EntriesBelow 1000`; finding D27 documents what happens outside).
Statements and theorems only; helper lemmas live in `Lemmas/`.
-/
namespace SnaxVerif.C16
open SnaxVerif.Sched

/-- Steps of the search at level `k` never change the innermost `j < k` dims (matrices and bounds):
rotation of the outer `n-k+1` dims … -/
theorem inner_stable_rotate (s : Schedule) (k j : Nat) (hwf : WF s) (hk : k ≤ s.n) (hj : j < k) :
    innerRaw j (rotateRaw (s.n - k + 1) s) = innerRaw j s :=
  innerRaw_rotateRaw _ j s hwf (by omega)

/-- … and tiling of the focused dim `n-k`. -/
theorem inner_stable_tile (s : Schedule) (k j t : Nat) (hwf : WF s) (hk : k ≤ s.n) (hj : j < k) :
    innerRaw j (tileRaw (s.n - k) t s) = innerRaw j s :=
  innerRaw_tileRaw_lt _ t j s hwf (by omega)

/-- **Post-conditions of every yielded schedule** (every template, every start schedule, every position in
the result list, every fuel; arbitrary matcher and extra checks that read matrices/rank only — `OpsOnly`,
proved below for the real ones): at every level `1 ≤ j ≤ r.n` the innermost `j` dims of the result
match the innermost `j` dims of the template, satisfy every extra check, and the bound of dim `-j` does not
exceed the template's bound (where the template has one). -/
theorem C16_post (mtch : Template → Schedule → Except Err Bool) (checks : List (Template → Schedule → Bool))
    (tmpl : Template) (fuel : Nat) (s : Schedule) (rs : List Schedule)
    (hwf : WF s) (hm : OpsOnly mtch) (hch : ∀ ch ∈ checks, OpsOnly ch)
    (h : backtrack mtch checks tmpl fuel s 1 = .ok rs) :
    ∀ r ∈ rs, ∀ j, 1 ≤ j → j ≤ r.n →
      mtch (tInnerRaw j tmpl) (innerRaw j r) = .ok true ∧
      (∀ ch ∈ checks, ch (tInnerRaw j tmpl) (innerRaw j r) = true) ∧
      (templateBound tmpl j ≠ 0 → r.bounds.getD (r.n - j) 0 ≤ templateBound tmpl j) := by
  have key := backtrack_induct (mtch := mtch) (checks := checks) (tmpl := tmpl)
    (PostInv mtch checks tmpl)
    (fun r => ∀ j, 1 ≤ j → j ≤ r.n → PostAt mtch checks tmpl j (innerRaw j r))
    (fun k s' hI hk j hj1 hjn => hI.2 j hj1 (by omega) hjn)
    (fun k s' s1 cand hI hk hstep => postInv_step hm hch k s' s1 cand hI hk hstep)
    fuel s 1 rs ⟨hwf, fun j h1 h2 _ => by omega⟩ h
  intro r hr j hj1 hjn
  obtain ⟨h1, h2, h3⟩ := key r hr j hj1 hjn
  refine ⟨h1, h2, fun htb => ?_⟩
  have := h3 htb
  rwa [show (innerRaw j r).bounds = lastN j r.bounds from rfl, lastN_head] at this

/-- In particular the requested constraints hold for the returned schedule itself (level `j = r.n`). -/
theorem C16_post_self (mtch : Template → Schedule → Except Err Bool) (checks : List (Template → Schedule → Bool))
    (tmpl : Template) (fuel : Nat) (s : Schedule) (rs : List Schedule)
    (hwf : WF s) (hm : OpsOnly mtch) (hch : ∀ ch ∈ checks, OpsOnly ch)
    (h : backtrack mtch checks tmpl fuel s 1 = .ok rs) :
    ∀ r ∈ rs, 1 ≤ r.n → mtch (tInnerRaw r.n tmpl) r = .ok true ∧ ∀ ch ∈ checks, ch (tInnerRaw r.n tmpl) r = true := by
  intro r hr hn
  have hwfr := (C03.C03_backtrack mtch checks tmpl fuel s 1 rs hwf h r hr).1
  obtain ⟨h1, h2, _⟩ := C16_post mtch checks tmpl fuel s rs hwf hm hch h r hr r.n hn (Nat.le_refl _)
  have e : innerRaw r.n r = r := innerRaw_self r hwfr
  rw [e] at h1 h2
  exact ⟨h1, h2⟩

/-- The real matcher (exact version) and the extra checks of `scheduler.py` satisfy `OpsOnly`, so
`C16_post` applies to every combination the pass uses. -/
theorem C16_post_real (useStationary : Bool) (memSizes : Option (List Nat))
    (tmpl : Template) (fuel : Nat) (s : Schedule) (rs : List Schedule) (hwf : WF s)
    (h : backtrack matchesQ (realChecks useStationary memSizes) tmpl fuel s 1 = .ok rs) :
    ∀ r ∈ rs, ∀ j, 1 ≤ j → j ≤ r.n →
      matchesQ (tInnerRaw j tmpl) (innerRaw j r) = .ok true ∧
      (useStationary = true → isPureOutputStationary (tInnerRaw j tmpl) (innerRaw j r) = true) ∧
      (∀ sz, memSizes = some sz → isMemoryFlexibleEnough sz (tInnerRaw j tmpl) (innerRaw j r) = true) ∧
      (templateBound tmpl j ≠ 0 → r.bounds.getD (r.n - j) 0 ≤ templateBound tmpl j) := by
  intro r hr j hj1 hjn
  obtain ⟨h1, h2, h3⟩ := C16_post matchesQ _ tmpl fuel s rs hwf matchesQ_opsOnly
    (realChecks_opsOnly useStationary memSizes) h r hr j hj1 hjn
  refine ⟨h1, ?_, ?_, h3⟩
  · intro hu; subst hu
    exact h2 _ (stationary_mem_realChecks _)
  · intro sz hsz; subst hsz
    exact h2 _ (memflex_mem_realChecks _ _)

/-- `scheduler()` (top-level entry): whatever it RETURNS is an element of the search (`next(..)` = index 0, or
`schedule_idx`), so it satisfies all post-conditions; when the search is empty there is no such element
(`rs[idx]? = none`: Python raises `StopIteration` / `IndexError`) and nothing is returned — in particular
never the unscheduled input. -/
theorem C16_scheduler (mtch : Template → Schedule → Except Err Bool) (checks : List (Template → Schedule → Bool))
    (tmpl : Template) (fuel : Nat) (s : Schedule) (rs : List Schedule) (idx : Nat) (r : Schedule)
    (hwf : WF s) (hm : OpsOnly mtch) (hch : ∀ ch ∈ checks, OpsOnly ch)
    (h : backtrack mtch checks tmpl fuel s 1 = .ok rs) (hr : rs[idx]? = some r) :
    ∀ j, 1 ≤ j → j ≤ r.n →
      mtch (tInnerRaw j tmpl) (innerRaw j r) = .ok true ∧
      (∀ ch ∈ checks, ch (tInnerRaw j tmpl) (innerRaw j r) = true) ∧
      (templateBound tmpl j ≠ 0 → r.bounds.getD (r.n - j) 0 ≤ templateBound tmpl j) :=
  C16_post mtch checks tmpl fuel s rs hwf hm hch h r (List.mem_of_getElem? hr)

/-- An infeasible workload (6 elements on a 4-lane template) has an empty search: nothing may be returned. -/
example : backtrack matchesQ [isPureOutputStationary] ⟨[some 4], [⟨[[1]], [0]⟩]⟩ 12 ⟨[6], [⟨[[1]], [0]⟩]⟩ 1 = .ok [] := by
  decide +kernel

/-! ### what the requested constraints mean for every returned schedule -/

/-- `is_pure_output_stationary` (as modelled) implies its loop-level meaning: among the temporal loops no loop
that keeps the output index fixed encloses one that moves it. -/
theorem stationary_means (t : Template) (s : Schedule) (o : Operand)
    (h : isPureOutputStationary t s = true) (ho : s.ops.getLast? = some o) :
    OutputStationary (temporalCount t.n s.n) o := isPureOutputStationary_spec t s o h ho

/-- `is_memory_flexible_enough` (as modelled) implies its meaning: when there are temporal loops, every operand
with a known element size has a dimension with a unit spatial stride whose temporal strides are multiples of
the elements per 8-byte bank. -/
theorem granularity_means (sizes : List Nat) (t : Template) (s : Schedule)
    (h : isMemoryFlexibleEnough sizes t s = true) (hn : s.n > t.n) :
    ∀ p ∈ s.ops.zip sizes, Packable (temporalCount t.n s.n) t.n (perBank p.2) p.1 :=
  isMemoryFlexibleEnough_spec sizes t s h hn

/-- **Every schedule returned under the requested constraints satisfies their meaning** (not merely the code's
own predicate): for the exact matcher and any combination of the two constraints. -/
theorem C16_returned_constraints (useStationary : Bool) (memSizes : Option (List Nat))
    (tmpl : Template) (fuel : Nat) (s : Schedule) (rs : List Schedule) (hwf : WF s)
    (h : backtrack matchesQ (realChecks useStationary memSizes) tmpl fuel s 1 = .ok rs) :
    ∀ r ∈ rs, 1 ≤ r.n →
      (useStationary = true → ∀ o, r.ops.getLast? = some o →
        OutputStationary (temporalCount (tInnerRaw r.n tmpl).n r.n) o) ∧
      (∀ sz, memSizes = some sz → r.n > (tInnerRaw r.n tmpl).n →
        ∀ p ∈ r.ops.zip sz, Packable (temporalCount (tInnerRaw r.n tmpl).n r.n) (tInnerRaw r.n tmpl).n (perBank p.2) p.1) := by
  intro r hr hn
  obtain ⟨_, hchk⟩ := C16_post_self matchesQ _ tmpl fuel s rs hwf matchesQ_opsOnly
    (realChecks_opsOnly useStationary memSizes) h r hr hn
  refine ⟨?_, ?_⟩
  · intro hu o ho
    subst hu
    exact isPureOutputStationary_spec _ r o (hchk _ (stationary_mem_realChecks _)) ho
  · intro sz hsz hgt
    subst hsz
    exact isMemoryFlexibleEnough_spec sz _ r (hchk _ (memflex_mem_realChecks _ _)) hgt

/-- `AutoflowScheduler` (the `dart-scheduler` pass on one operation: canonicalize, then the first schedule found
under both default constraints): the emitted schedule satisfies every post-condition, at every level. -/
theorem C16_autoflow (sizes : List Nat) (tmpl : Template) (fuel : Nat) (s r : Schedule) (hwf : WF s)
    (h : autoflow sizes tmpl fuel s = .ok (some r)) :
    ∀ j, 1 ≤ j → j ≤ r.n →
      matchesQ (tInnerRaw j tmpl) (innerRaw j r) = .ok true ∧
      isPureOutputStationary (tInnerRaw j tmpl) (innerRaw j r) = true ∧
      isMemoryFlexibleEnough sizes (tInnerRaw j tmpl) (innerRaw j r) = true ∧
      (templateBound tmpl j ≠ 0 → r.bounds.getD (r.n - j) 0 ≤ templateBound tmpl j) := by
  unfold autoflow at h
  split at h
  · cases h
  · next rs hb =>
    simp only [Except.ok.injEq] at h
    have hmem : r ∈ rs := List.mem_of_mem_head? h
    have hb' : backtrack matchesQ (realChecks true (some sizes)) tmpl fuel (canonicalize s) 1 = .ok rs := hb
    intro j hj1 hjn
    obtain ⟨h1, h2, h3, h4⟩ := C16_post_real true (some sizes) tmpl fuel (canonicalize s) rs (WF_maskSched hwf) hb' r hmem j hj1 hjn
    exact ⟨h1, h2 rfl, h3 sizes rfl, h4⟩

/-- Post-conditions of the lazily computed first result (`next(scheduler_backtrack(..))`), as `C16_post`. -/
theorem C16_first_post (mtch : Template → Schedule → Except Err Bool) (checks : List (Template → Schedule → Bool))
    (tmpl : Template) (fuel : Nat) (s r : Schedule)
    (hwf : WF s) (hm : OpsOnly mtch) (hch : ∀ ch ∈ checks, OpsOnly ch)
    (h : backtrackFirst mtch checks tmpl fuel s 1 = .ok (some r)) :
    ∀ j, 1 ≤ j → j ≤ r.n →
      mtch (tInnerRaw j tmpl) (innerRaw j r) = .ok true ∧
      (∀ ch ∈ checks, ch (tInnerRaw j tmpl) (innerRaw j r) = true) ∧
      (templateBound tmpl j ≠ 0 → r.bounds.getD (r.n - j) 0 ≤ templateBound tmpl j) := by
  have key := backtrackFirst_induct (mtch := mtch) (checks := checks) (tmpl := tmpl)
    (PostInv mtch checks tmpl)
    (fun r => ∀ j, 1 ≤ j → j ≤ r.n → PostAt mtch checks tmpl j (innerRaw j r))
    (fun k s' hI hk j hj1 hjn => hI.2 j hj1 (by omega) hjn)
    (fun k s' s1 cand hI hk hstep => postInv_step hm hch k s' s1 cand hI hk hstep)
    fuel s 1 r ⟨hwf, fun j h1 h2 _ => by omega⟩ h
  intro j hj1 hjn
  obtain ⟨h1, h2, h3⟩ := key j hj1 hjn
  refine ⟨h1, h2, fun htb => ?_⟩
  have := h3 htb
  rwa [show (innerRaw j r).bounds = lastN j r.bounds from rfl, lastN_head] at this

/-- the schedule the `dart-scheduler` pass emits for an operation (`autoflowFirst`) fits the template at every
level and satisfies both requested constraints, WITH THE OPERATION'S ELEMENT SIZES ON EVERY CANDIDATE. -/
theorem C16_autoflow_first (sizes : List Nat) (tmpl : Template) (fuel : Nat) (s r : Schedule) (hwf : WF s)
    (h : autoflowFirst sizes tmpl fuel s = .ok (some r)) :
    ∀ j, 1 ≤ j → j ≤ r.n →
      matchesQ (tInnerRaw j tmpl) (innerRaw j r) = .ok true ∧
      isPureOutputStationary (tInnerRaw j tmpl) (innerRaw j r) = true ∧
      isMemoryFlexibleEnough sizes (tInnerRaw j tmpl) (innerRaw j r) = true ∧
      (templateBound tmpl j ≠ 0 → r.bounds.getD (r.n - j) 0 ≤ templateBound tmpl j) := by
  intro j hj1 hjn
  have hch : ∀ ch ∈ [isPureOutputStationary, isMemoryFlexibleEnough sizes], OpsOnly ch := by
    intro ch hmem
    simp only [List.mem_cons, List.not_mem_nil, or_false] at hmem
    rcases hmem with rfl | rfl
    · exact isPureOutputStationary_opsOnly
    · exact isMemoryFlexibleEnough_opsOnly _
  obtain ⟨h1, h2, h3⟩ := C16_first_post matchesQ _ tmpl fuel (canonicalize s) r (WF_maskSched hwf) matchesQ_opsOnly hch h j hj1 hjn
  exact ⟨h1, h2 _ (by simp), h2 _ (by simp), h3⟩

/-! ### accelerator templates as tables -/

/-- Every template `SNAXGEMMXAccelerator.get_template` can return (any array geometry, any kernel chain) is
rectangular (every pattern row has one entry per template dim), has 2, 3 or 4 operands and carries the array
geometry as bounds: the `Template` hypotheses the C16 theorems are applied to are established by the table. -/
theorem gemmxTemplate_wf (m n k : Nat) (body : List KOp) (t : Template) (h : gemmxTemplate m n k body = .ok t) :
    (∀ o ∈ t.ops, ∀ r ∈ o.rows, r.length = t.n) ∧
    (t.ops.length = 2 ∨ t.ops.length = 3 ∨ t.ops.length = 4) ∧
    (t.bounds = [some m, some n, some k] ∨ t.bounds = [some m, some k]) := by
  unfold gemmxTemplate at h
  repeat' split at h
  all_goals first
    | (cases h; done)
    | (injection h with h; subst h; simp [opMK, opKN, opMN, op2, Template.n])

/-- the snax_alu template: three one-row operands on one 4-lane dim -/
theorem aluTemplate_wf : (∀ o ∈ aluTemplate.ops, ∀ r ∈ o.rows, r.length = aluTemplate.n) ∧ aluTemplate.ops.length = 3 ∧
    templateBound aluTemplate 1 = 4 := by decide

/-- the default matmul template, as used by the pass cases -/
example : gemmxTemplate 8 8 8 [.qmac] = .ok ⟨[some 8, some 8, some 8], [opMK, opKN, opMN]⟩ := by decide
example : gemmxTemplate 8 8 8 [.qmac, .add, .rescale] = .ok ⟨[some 8, some 8, some 8], [opMK, opKN, opMN, opMN]⟩ := by decide
example : gemmxTemplate 8 8 8 [.qmac, .add, .add] = .error .runtime := by decide

/-- **Soundness of the exact matcher**: whenever `matchesQ` accepts, template and schedule have the same
number of operands, the schedule has at least the template's dims, and for every operand the template's
(non-broadcast) rows and the schedule's rows restricted to the template dims span the same rational
subspace — each row of one is, up to a non-zero integer factor, an integer combination of the other's. -/
theorem matchesQ_sound (t : Template) (s : Schedule) (h : matchesQ t s = .ok true) :
    t.ops.length = s.ops.length ∧
    ∀ p ∈ t.ops.zip s.ops, t.n ≤ s.n ∧ SameRowSpace (tRows p.1 p.2) (sRows t.n s.n p.2) := by
  unfold matchesQ at h
  split at h
  · simp at h
  · next hl => exact ⟨by simpa using hl, matchOps_sound t.n s.n t.ops s.ops h⟩

/-- **Exactness of the model's matcher** ("accepts exactly the patterns that span the same index subspace as
the template"): whenever `matchesQ` answers, the answer is `true` IF AND ONLY IF template and schedule have
the same number of operands and every operand fits (`OperandFits`: schedule has at least the template's dims
and the participating template rows and the schedule rows restricted to the template dims span the same
rational subspace).  Acceptance is backed by re-checked integer combinations, rejection by re-checked
orthogonal vectors; `matchesQ` never guesses (`.error .certificate` if a certificate search failed, which the
correspondence has never observed). -/
theorem matchesQ_exact (t : Template) (s : Schedule) (b : Bool) (h : matchesQ t s = .ok b) :
    (b = true ↔ (t.ops.length = s.ops.length ∧ ∀ p ∈ t.ops.zip s.ops, OperandFits t.n s.n p.1 p.2)) := by
  unfold matchesQ at h
  split at h
  · next hl =>
    simp only [Except.ok.injEq] at h
    subst h
    exact ⟨(fun hf => by cases hf), fun hs => absurd hs.1 (by simpa using hl)⟩
  · next hl =>
    have := matchOps_exact t.n s.n t.ops s.ops b h
    exact ⟨fun hb => ⟨by simpa using hl, this.mp hb⟩, fun hs => this.mpr hs.2⟩

/-- rejection is as trustworthy as acceptance -/
theorem matchesQ_reject_sound (t : Template) (s : Schedule) (h : matchesQ t s = .ok false) :
    ¬ (t.ops.length = s.ops.length ∧ ∀ p ∈ t.ops.zip s.ops, OperandFits t.n s.n p.1 p.2) := by
  intro hs
  have := (matchesQ_exact t s false h).mpr hs
  cases this

/-- "Accepts exactly the patterns that span the same subspace", for a matcher `m` on row lists. -/
def matches_exact_statement (m : List Vec → List Vec → Bool) : Prop :=
  ∀ A B, m A B = true ↔ SameRowSpace A B

/-- D27 witness pair (|entries| ≈ 1.7·10⁵ … 10⁶): same row space … -/
def d27A : List Vec := [[0, -167606, -1], [0, 1, 1]]
def d27B : List Vec := [[0, 167604, -1], [0, -167606, 1]]

theorem d27_same_space : SameRowSpace d27A d27B :=
  (sameRowSpaceD_exact d27A d27B true (by decide +kernel)).mp rfl

/-- … so any matcher that rejects it (the harness observes that `same_nonzero_singular_vectors` does, on
every run) is not exact.  Clause excluded from the correspondence claim: `EntriesBelow 1000`. -/
theorem matches_exact_fails (m : List Vec → List Vec → Bool) (hobs : m d27A d27B = false) :
    ¬ matches_exact_statement m := by
  intro hex
  have := (hex d27A d27B).mpr d27_same_space
  rw [hobs] at this
  exact Bool.noConfusion this

/-- D27, other direction (|entries| ≈ 7·10⁵): a rank-2 template against a rank-1 schedule: DIFFERENT row spaces
(certified by an orthogonal vector) … -/
def d27C : List Vec := [[0, 573060], [-348861, 396003]]
def d27D : List Vec := [[-697722, -792006], [-697722, -792006]]

theorem d27_different_space : ¬ SameRowSpace d27C d27D :=
  fun hs => by
    have := (sameRowSpaceD_exact d27C d27D false (by decide +kernel)).mpr hs
    cases this

/-- … so any matcher that accepts it (the harness observes that `same_nonzero_singular_vectors` does: a FALSE
POSITIVE, the scheduler could take an invalid candidate) is not exact. -/
theorem matches_exact_fails_false_positive (m : List Vec → List Vec → Bool) (hobs : m d27C d27D = true) :
    ¬ matches_exact_statement m := by
  intro hex
  exact d27_different_space ((hex d27C d27D).mp hobs)

/-! ### non-vacuity -/

/-- the GEMM-like example of C03 on the 2-dim template with bounds (2, 4): both checks on, two schedules
are yielded, both tiled twice (5 dims, inner bounds 2 and 4) -/
example : (backtrack matchesQ (realChecks true (some [8, 8, 8])) C03.exT 12 C03.exS 1).toOption.map (·.map (·.bounds))
    = some [[3, 4, 2, 2, 4], [4, 3, 2, 2, 4]] := by decide +kernel

example : WF C03.exS ∧ OpsOnly matchesQ ∧ ∀ ch ∈ realChecks true (some [8, 8, 8]), OpsOnly ch :=
  ⟨C03.exS_wf, matchesQ_opsOnly, realChecks_opsOnly _ _⟩

/-- `matchesQ` accepts a non-trivial pair (template rows recombined, schedule with an extra outer dim) … -/
example : matchesQ ⟨[some 2, none], [⟨[[1, 1], [0, 1]], [0, 0]⟩]⟩ ⟨[3, 2, 2], [⟨[[5, 2, 3], [7, 1, 0]], [0, 0]⟩]⟩ = .ok true := by
  decide +kernel
/-- … and rejects one with a smaller span -/
example : matchesQ ⟨[some 2, none], [⟨[[1, 1], [0, 1]], [0, 0]⟩]⟩ ⟨[3, 2, 2], [⟨[[5, 2, 2], [7, 1, 1]], [0, 0]⟩]⟩ = .ok false := by
  decide +kernel

end SnaxVerif.C16
