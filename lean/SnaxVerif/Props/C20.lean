import SnaxVerif.Lemmas.Phs
import SnaxVerif.Lemmas.PhsKeeps
import SnaxVerif.Lemmas.PhsHistory
import SnaxVerif.Lemmas.PhsEncode
/-! C20 — a merged processing element, configured as decoded, computes each kernel.

Top-level results: `C20_for_bodies` (kernel bodies -> encode -> merge history of any length -> decode -> exact
function; no structural hypothesis, clause `attr_clause`), `C20_history_partial` (`C20_statement` under
`attr_clause`; `C20_statement_attr_fails` = finding DC20a; `C20_history_attrfree` for attribute-free operations),
`combine_keeps` (= `combine_keeps_statement`).

`PE.wf` are the structural invariants of the IR (unique symbol names, a default region in every choose op,
one switch block argument per choose / mux); `covers A K` is what merging `K` into `A` establishes (every
operation of `K` is offered under the same name). They are hypotheses of the single-graph theorems
(`decode_sound`, `switch_count`, ...) and are PROVED for every graph a merge history reaches (`reachable_inv`)
and every kernel `encode` returns (`encode_produces_kernels`); the driver still evaluates them on every graph of
every generated history (`hyp_ok`) as a cross-check of the model. -/
namespace SnaxVerif.C20
open SnaxVerif.Phs

section Generic
/-! Theorems that hold for BOTH variants of the tree (see `Variant`): with fixes/DC20a (`fixed = true`, what the
committed harness expects) and before it. -/
variable [Variant]

/-- The property at full strength, for a merge history `k0 :: ks` of any length. Every kernel is a kernel as
`convert_generic_body_to_phs` produces it (`kwf`: structural IR invariants, concrete, switches and operands
refer to choose ops of the kernel) and has as many data ports as the first one. If the history merges into
`A`, every kernel of the history decodes against `A`, the number of decoded values is `trueSwitches A`, and
`A` under the decoded switches delivers exactly the values the kernel delivers (any value type, any
operation semantics, any data inputs). FALSE of the code as it is when two kernels use one operation class with
different attributes (`C20_statement_attr_fails`, finding DC20a); proved under `attr_clause`:
`C20_history_partial`. -/
def C20_statement : Prop :=
  ∀ (k0 : PE) (ks : List PE) (A : PE), k0.kwf = true → (∀ k, k ∈ ks → k.kwf = true) →
    (∀ k, k ∈ ks → k.argTys.length = k0.argTys.length) → mergeAll k0 ks = .ok A →
    ∀ k, k ∈ k0 :: ks → ∃ sw, decode A k = .ok sw ∧ sw.length = A.trueSwitches ∧
      ∀ (V : Type) (sem : OpCode → List V → V) (inp : List V) (v : V),
        Computes sem k (fun _ => 0) inp k.yld v ↔ Computes sem A (A.assign sw) inp A.yld v

/-- **decode soundness** (full): whenever `decode` returns switch values for a kernel that `A` covers, the
merged element under those values (expanded as the hardware sees them) delivers the kernel's value —
for every value type, every semantics of the operations and every data input. -/
theorem decode_sound (A K : PE) (sw : List Nat) (hA : A.wf = true) (hK : uniqueIds K.nodes = true)
    (hcov : covers A K = true) (h : decode A K = .ok sw)
    {V : Type} (sem : OpCode → List V → V) (inp : List V) (v : V)
    (hk : Computes sem K (fun _ => 0) inp K.yld v) : Computes sem A (A.assign sw) inp A.yld v := by
  obtain ⟨hargs, hnode, l, hl1, hl2⟩ := decode_facts A K sw hA hK hcov h
  exact sim sem A K (A.assign sw) inp hargs (wf_unique hA) hnode K.yld v hk A.yld l hl1 hl2

/-- **decode reflects** (full): conversely, the configured merged element delivers nothing the kernel does not
deliver — with `decode_sound`, the two deliver exactly the same values on every input, also on inputs where
neither delivers one. -/
theorem decode_reflects (A K : PE) (sw : List Nat) (hA : A.wf = true) (hK : uniqueIds K.nodes = true)
    (hcon : K.isConcrete = true) (hcov : covers A K = true) (h : decode A K = .ok sw)
    {V : Type} (sem : OpCode → List V → V) (inp : List V) (v : V)
    (ha : Computes sem A (A.assign sw) inp A.yld v) : Computes sem K (fun _ => 0) inp K.yld v := by
  obtain ⟨hargs, hnode, l, hl1, hl2⟩ := decode_facts A K sw hA hK hcov h
  refine sim_rev sem A K (A.assign sw) inp hargs (wf_unique hA) hnode ?_ A.yld v ha K.yld l hl1 hl2
  intro c k hk
  obtain ⟨⟨t, ht⟩, _⟩ := concrete_node hcon (List.mem_of_getElem? hk)
  exact ⟨t, by simp [ht]⟩

/-- the semantics is a function: a configured element delivers at most one value -/
theorem computes_functional (A : PE) (swv : Nat → Nat) {V : Type} (sem : OpCode → List V → V) (inp : List V)
    (s : Src) (v v' : V) (h : Computes sem A swv inp s v) (h' : Computes sem A swv inp s v') : v = v' :=
  computes_det sem A swv inp s v h v' h'

/-- **exactly the kernel's function**: where the kernel delivers a value, the configured merged element
delivers that value and no other. -/
theorem decode_exact (A K : PE) (sw : List Nat) (hA : A.wf = true) (hK : uniqueIds K.nodes = true)
    (hcov : covers A K = true) (h : decode A K = .ok sw)
    {V : Type} (sem : OpCode → List V → V) (inp : List V) (v : V)
    (hk : Computes sem K (fun _ => 0) inp K.yld v) (v' : V) :
    Computes sem A (A.assign sw) inp A.yld v' ↔ v' = v :=
  ⟨fun h' => computes_det sem A _ inp _ _ h' _ (decode_sound A K sw hA hK hcov h sem inp v hk),
   fun e => e ▸ decode_sound A K sw hA hK hcov h sem inp v hk⟩

/-- **switch count** (full): the number of values `decode` produces equals `get_true_switches()`, the number
of `phs_switch_i` fields `SNAXPHSAccelerator` reports. -/
theorem switch_count (A K : PE) (sw : List Nat) (hA : A.wf = true) (h : decode A K = .ok sw) :
    sw.length = A.trueSwitches := by
  obtain ⟨_, _, pre, m, hpre, _, hsw⟩ := decode_ok h
  rw [hsw]
  exact finalVals_length A K m (fun j a ha => (wf_node hA ha).1) A.switches 0 pre hpre

/-- the executable evaluator used by the driver (and compared with the Python PE interpreter on the real
graphs) only returns values the relational semantics admits -/
theorem eval_sound (A : PE) (swv : Nat → Nat) {V : Type} (sem : OpCode → List V → V) (inp : List V) (v : V)
    (h : A.eval sem swv inp = some v) : Computes sem A swv inp A.yld v :=
  evalF_sound sem A swv inp _ _ _ h

/-- `search_mapping` is complete: if some assignment of the mux switches is valid (and `valid_mapping` does
not raise), the backtracking search returns one. -/
theorem search_mapping_complete (K A : PE) (l : List Nat) (m0 : Nat → Nat)
    (hne : ∀ m e, validMapping K A m ≠ .error e)
    (hex : ∃ ms, validMapping K A ms = .ok true ∧ ∀ x, x ∉ l → (ms x = 1 ↔ m0 x = 1)) :
    ∃ sol, search (validMapping K A) l m0 = .ok (some sol) ∧ validMapping K A sol = .ok true := by
  obtain ⟨sol, hs⟩ := search_complete (validMapping K A) hne (validMapping_congr K A) l m0 hex
  exact ⟨sol, hs, search_sound _ _ _ _ hs⟩

/-- full statement of "merging a further kernel keeps earlier kernels decodable": `Inv A` is the invariant of
merged graphs (`Lemmas/PhsCombine.lean`; it holds for every kernel and is kept by every merge:
`reachable_inv`), the merged kernel `G` only has to offer an operation in every choose op. Proved below:
`combine_keeps`. -/
def combine_keeps_statement : Prop :=
  ∀ (A G A' K : PE) (sw : List Nat), Inv A → (∀ g, g ∈ G.nodes → g.ops ≠ []) → covers A K = true →
    decode A K = .ok sw → combine A G = .ok A' → ∃ sw', decode A' K = .ok sw'

/-- **combine keeps** (partial). Clauses:
* `extends_clause`: the merged graph `A'` extends `A` the way `append_to_abstract_graph` extends it (same data
  ports, switches appended, symbol lookups and choose-op positions kept, operands only wrapped in mux layers
  that are driven by NEW switches and whose lhs is the old operand) — `Extends` is a relation between the two
  graphs, not proved here from the definition of `combine`;
* `local_clause`: the per-switch local pass of `decode` on `A'` raises nothing (it can only raise
  `MappingNotFoundError` when the kernel's operation is missing from a choose op, which `covers` excludes).
Conclusion: the kernel is still decodable; by `decode_sound`/`decode_exact` (whose hypotheses `wf`/`covers`
are about `A'`) it decodes to the same function. The search finds a mapping because the old mapping, which
leaves every new mux on its lhs, is still valid (`validMapping_ext`) and the search is complete. -/
theorem combine_keeps_partial (A A' K : PE) (sw : List Nat) (h : decode A K = .ok sw)
    (extends_clause : Extends A A')
    (local_clause : ∃ pre', localChoices A' K A'.switches 0 = .ok pre') :
    ∃ sw', decode A' K = .ok sw' := by
  obtain ⟨hc, hargs, pre, m, hpre, hsearch, _⟩ := decode_ok h
  have hvalid := search_sound _ _ _ _ hsearch
  have hframe := search_frame _ _ _ _ hsearch
  have hmem := mem_muxSwitches A K A.switches 0 pre hpre
  have hlt : ∀ s, s ∈ muxSwitches pre → s < A.switches.length := by
    intro s hs
    obtain ⟨i, hi, rfl⟩ := (hmem s).mp hs
    rcases Nat.lt_or_ge i A.switches.length with h | h
    · omega
    · simp [List.getElem?_eq_none h] at hi
  have hm : ∀ s, A.switches.length ≤ s → m s ≠ 1 := by
    intro s hs
    have : s ∉ muxSwitches pre := fun hin => by have := hlt s hin; omega
    rw [hframe s this]; simp
  have hvalid' := validMapping_ext extends_clause m hm hvalid
  obtain ⟨pre', hpre'⟩ := local_clause
  have hmem' := mem_muxSwitches A' K A'.switches 0 pre' hpre'
  obtain ⟨ext, hext⟩ := extends_clause.sw
  obtain ⟨sol, hsol, _⟩ := search_mapping_complete K A' (muxSwitches pre') (fun _ => 0)
    (fun m' e => validMapping_total hvalid' m' e)
    ⟨m, hvalid', by
      intro x hx
      have hmx : m x ≠ 1 := by
        by_cases hin : x ∈ muxSwitches pre
        · exfalso
          obtain ⟨i, hi, rfl⟩ := (hmem x).mp hin
          apply hx
          apply (hmem' _).mpr
          refine ⟨i, ?_, rfl⟩
          have hil : i < A.switches.length := by
            rcases Nat.lt_or_ge i A.switches.length with h | h
            · exact h
            · simp [List.getElem?_eq_none h] at hi
          rw [hext, List.getElem?_append_left hil]; exact hi
        · rw [hframe x hin]; simp
      simp [hmx]⟩
  refine ⟨finalVals sol pre', ?_⟩
  unfold decode
  simp [hc, hargs, extends_clause.args, hpre', hsol]

/-- Prop form of the attribute clause: among the operations of all kernels of the history, the class (operation
name) determines the operation — no two kernels use one operation with different attributes -/
theorem attr_clause_iff (gs : List PE) : classFun (allOps gs) = true ↔ ClassFun (allOps gs) := classFun_iff _

/-- every graph a merge history reaches satisfies the invariant (and so `wf`, the hypothesis of
`decode_sound` / `switch_count`), has the data ports of the first kernel, every merged kernel is routable —
and, under `attr_clause`, covered (`attr_clause` cannot be dropped: `C20_statement_attr_fails`) -/
theorem reachable_inv_partial (k0 : PE) (ks : List PE) (A : PE) (h0 : k0.kwf = true)
    (hks : ∀ k, k ∈ ks → k.kwf = true) (attr_clause : classFun (allOps (k0 :: ks)) = true)
    (hm : mergeAll k0 ks = .ok A) :
    Inv A ∧ A.wf = true ∧ A.argTys = k0.argTys ∧ ∀ k, k ∈ k0 :: ks → Routable A k ∧ covers A k = true := by
  obtain ⟨hr0, hc0⟩ := routable_self h0
  have hS := (classFun_iff _).mp attr_clause
  have hin : ∀ k, k ∈ k0 :: ks → ∀ n, n ∈ k.nodes → ∀ o, o ∈ n.ops → o ∈ allOps (k0 :: ks) :=
    fun k hk n hn o ho => mem_allOps.mpr ⟨k, hk, n, hn, ho⟩
  obtain ⟨hinv, hcu, hargs, hall⟩ := mergeAll_ok (allOps (k0 :: ks)) hS ks k0 A [k0] (inv_of_kernel h0)
    (cu_of_wf (kwf_parts h0).1) (opsIn_of_mem (hin k0 (by simp)))
    (fun K hK => by simp at hK; subst hK; exact ⟨hr0, hc0⟩) hks
    (fun k hk => hin k (by simp [hk])) hm
  exact ⟨hinv, hinv.wf hcu, hargs, fun k hk => hall k (by simpa using hk)⟩

/-- **a merge establishes the extension relation** (discharges `extends_clause` of `combine_keeps_partial`) -/
theorem combine_establishes_extends (A G A' : PE) (hinv : Inv A) (hG : ∀ g, g ∈ G.nodes → g.ops ≠ [])
    (h : combine A G = .ok A') : Extends A A' ∧ Inv A' ∧ Routable A' G := by
  obtain ⟨hinv', hext, hr, _⟩ := combine_ok hinv hG h
  exact ⟨extends_of_ext hext, hinv', hr⟩

/-- **a merge covers the merged graph** (partial). Clause `attr_clause`: all operations offered by `A` and all
operations of `G` come from a set `S` in which the class determines the operation. Without it
`insert_operations` silently drops an operation whose class is present with other attributes (finding DC20a,
`C20_statement_attr_fails`). -/
theorem combine_establishes_covers_partial (A G A' : PE) (hinv : Inv A) (hG : ∀ g, g ∈ G.nodes → g.ops ≠ [])
    (h : combine A G = .ok A') (S : List OpCode) (attr_clause : ClassFun S) (hA : OpsIn S A)
    (hGS : ∀ g, g ∈ G.nodes → ∀ o, o ∈ g.ops → o ∈ S) : covers A' G = true ∧ OpsIn S A' := by
  obtain ⟨_, _, _, hf⟩ := combine_ok hinv hG h
  refine ⟨?_, hf.opsIn S hA hGS⟩
  simp only [covers, List.all_eq_true]
  exact fun g hg => hf.cov S attr_clause hA hGS g hg

/-- **combine keeps** (full): merging a further kernel never makes an earlier kernel undecodable. -/
theorem combine_keeps : combine_keeps_statement := by
  intro A G A' K sw hinv hG hcov hdec hcomb
  obtain ⟨hinv', hext, _, _⟩ := combine_ok hinv hG hcomb
  obtain ⟨hcon, _⟩ := decode_ok hdec
  refine combine_keeps_partial A A' K sw hdec (extends_of_ext hext) ?_
  apply localChoices_ok hinv'.uniq (covers_mono hext hcov) hcon
  intro u hu j hj
  obtain ⟨s, hs, hsu⟩ := List.getElem_of_mem hu
  exact hinv'.swt s j (by rw [List.getElem?_eq_getElem hs, hsu, hj])

/-- **C20 for merge histories of any length** (partial). Clause `attr_clause`: among the operations of all
kernels of the history the class (operation name) determines the operation. Everything else of `C20_statement`
is proved; the clause cannot be dropped (`C20_statement_attr_fails`, finding DC20a). -/
theorem C20_history_partial (k0 : PE) (ks : List PE) (A : PE) (h0 : k0.kwf = true)
    (hks : ∀ k, k ∈ ks → k.kwf = true) (hargs : ∀ k, k ∈ ks → k.argTys.length = k0.argTys.length)
    (attr_clause : classFun (allOps (k0 :: ks)) = true) (hm : mergeAll k0 ks = .ok A) :
    ∀ k, k ∈ k0 :: ks → ∃ sw, decode A k = .ok sw ∧ sw.length = A.trueSwitches ∧
      ∀ (V : Type) (sem : OpCode → List V → V) (inp : List V) (v : V),
        Computes sem k (fun _ => 0) inp k.yld v ↔ Computes sem A (A.assign sw) inp A.yld v := by
  intro k hk
  obtain ⟨hinv, hwf, hA, hall⟩ := reachable_inv_partial k0 ks A h0 hks attr_clause hm
  obtain ⟨hr, hc⟩ := hall k hk
  have hkw : k.kwf = true := by
    rcases List.mem_cons.mp hk with rfl | hk
    · exact h0
    · exact hks k hk
  have hlen : k.argTys.length = A.argTys.length := by
    rw [hA]
    rcases List.mem_cons.mp hk with rfl | hk
    · rfl
    · exact hargs k hk
  obtain ⟨hkwf, hcon, _, _⟩ := kwf_parts hkw
  have huK := wf_unique hkwf
  obtain ⟨sw, hsw⟩ := decodable_of_routable hwf hinv.swt hinv.slots hcon huK hlen hc hr
  refine ⟨sw, hsw, switch_count A k sw hwf hsw, fun V sem inp v => ⟨?_, ?_⟩⟩
  · exact decode_sound A k sw hwf huK hc hsw sem inp v
  · exact decode_reflects A k sw hwf huK hcon hc hsw sem inp v

/-- **attribute-free histories** (full for them; this is the theorem of the previous rounds, whose model had
no attributes): if no operation of any kernel carries an attribute, `attr_clause` holds. -/
theorem C20_history_attrfree (k0 : PE) (ks : List PE) (A : PE) (h0 : k0.kwf = true)
    (hks : ∀ k, k ∈ ks → k.kwf = true) (hargs : ∀ k, k ∈ ks → k.argTys.length = k0.argTys.length)
    (hfree : ∀ o, o ∈ allOps (k0 :: ks) → o.attr = "") (hm : mergeAll k0 ks = .ok A) :
    ∀ k, k ∈ k0 :: ks → ∃ sw, decode A k = .ok sw ∧ sw.length = A.trueSwitches ∧
      ∀ (V : Type) (sem : OpCode → List V → V) (inp : List V) (v : V),
        Computes sem k (fun _ => 0) inp k.yld v ↔ Computes sem A (A.assign sw) inp A.yld v := by
  apply C20_history_partial k0 ks A h0 hks hargs _ hm
  rw [classFun_iff]
  intro o o' ho ho' hc
  have h1 := hfree _ ho
  have h2 := hfree _ ho'
  by_cases hf : Variant.fixed = true
  · exact sameOp_fixed hf hc
  · simp only [sameOp, hf, Bool.false_eq_true, if_false, beq_iff_eq] at hc
    cases o; cases o'
    simp only at hc h1 h2
    simp [hc, h1, h2]

/-- full statement: `convert_generic_body_to_phs` returns a kernel in the sense of `C20_history` -/
def encode_kwf_statement : Prop := ∀ (b : KBody) (K : PE), encode b = .ok K → K.kwf = true

/-- **`encode` produces kernels** (full): a default region per choose op, plain operands, one switch per
choose op in order, concreteness, operands refer to earlier choose ops — and the `get_id` names are pairwise
distinct (a name is `key_counter`; the counter counts the earlier operations with the same key, and
`key_counter` determines key and counter because the key ends in `_` and a decimal numeral contains none). -/
theorem encode_produces_kernels : encode_kwf_statement :=
  fun _ _ h => encode_kwf_full h

/-- **`encode` preserves the function** (full): on every input of the right length, the encoded kernel
delivers exactly the value of the `linalg.generic` body (`KBody.eval`, on the values of all block arguments),
reading the used block arguments as its data ports — any number of operations, any arity, any semantics. -/
theorem encode_exact (b : KBody) (K : PE) (h : encode b = .ok K)
    {V : Type} (sem : OpCode → List V → V) (inp : List V) (hlen : inp.length = b.argTys.length) (v : V) :
    b.eval sem inp = some v ↔ Computes sem K (fun _ => 0) (b.usedInputs inp) K.yld v := by
  constructor
  · exact encode_sound_aux sem h inp hlen v
  · intro hc
    obtain ⟨v', hv'⟩ := body_total sem b (encode_shape h).1 inp hlen
    have := computes_det sem K _ _ _ _ (encode_sound_aux sem h inp hlen v' hv') _ hc
    rw [hv', this]

/-- **C20 down to the kernel bodies** (partial, clause `attr_clause`): in a merge history as in
`C20_history_partial`, a kernel that is the encoding of body `b` decodes, and the merged element under the
decoded switches computes exactly the function of `b`. -/
theorem C20_history_bodies_partial (k0 : PE) (ks : List PE) (A : PE) (h0 : k0.kwf = true)
    (hks : ∀ k, k ∈ ks → k.kwf = true) (hargs : ∀ k, k ∈ ks → k.argTys.length = k0.argTys.length)
    (attr_clause : classFun (allOps (k0 :: ks)) = true)
    (hm : mergeAll k0 ks = .ok A) (b : KBody) (k : PE) (hk : k ∈ k0 :: ks) (hb : encode b = .ok k) :
    ∃ sw, decode A k = .ok sw ∧ sw.length = A.trueSwitches ∧
      ∀ (V : Type) (sem : OpCode → List V → V) (inp : List V), inp.length = b.argTys.length → ∀ v : V,
        b.eval sem inp = some v ↔ Computes sem A (A.assign sw) (b.usedInputs inp) A.yld v := by
  obtain ⟨sw, h1, h2, h3⟩ := C20_history_partial k0 ks A h0 hks hargs attr_clause hm k hk
  refine ⟨sw, h1, h2, fun V sem inp hlen v => ?_⟩
  rw [encode_exact b k hb sem inp hlen v]
  exact h3 V sem (b.usedInputs inp) v

/-- **C20 for kernel bodies, no structural hypothesis left** (partial, clause `attr_clause`): encode any list of `linalg.generic`
bodies (`convert_generic_body_to_phs`), merge the kernels in the given order (`append_to_abstract_graph`); if
nothing raises and the kernels have equally many data ports, then every kernel decodes against the merged
element, the number of decoded values is `trueSwitches`, and the element under the decoded switches computes
exactly the function of the corresponding body. Any number of kernels, operations, muxes; any value type,
operation semantics and input. -/
theorem C20_for_bodies_partial (b0 : KBody) (bs : List KBody) (k0 : PE) (ks : List PE) (A : PE)
    (h0 : encode b0 = .ok k0) (hs : mapExcept encode bs = .ok ks)
    (hargs : ∀ k, k ∈ ks → k.argTys.length = k0.argTys.length)
    (attr_clause : classFun (allOps (k0 :: ks)) = true) (hm : mergeAll k0 ks = .ok A)
    (i : Nat) (b : KBody) (hb : (b0 :: bs)[i]? = some b) :
    ∃ k sw, (k0 :: ks)[i]? = some k ∧ encode b = .ok k ∧ decode A k = .ok sw ∧ sw.length = A.trueSwitches ∧
      ∀ (V : Type) (sem : OpCode → List V → V) (inp : List V), inp.length = b.argTys.length → ∀ v : V,
        b.eval sem inp = some v ↔ Computes sem A (A.assign sw) (b.usedInputs inp) A.yld v := by
  obtain ⟨_, hp⟩ := mapExcept_spec encode bs ks hs
  have hkw : ∀ k, k ∈ ks → k.kwf = true := by
    intro k hk
    obtain ⟨p, hpl, hpk⟩ := List.getElem_of_mem hk
    have hkp : ks[p]? = some k := by rw [List.getElem?_eq_getElem hpl, hpk]
    -- ks[p] is the encoding of bs[p]
    have hlen : ks.length = bs.length := (mapExcept_spec encode bs ks hs).1
    obtain ⟨k', hk', he⟩ := hp p _ (List.getElem?_eq_getElem (by omega : p < bs.length))
    rw [hkp] at hk'; injection hk' with hk'; subst hk'
    exact encode_kwf_full he
  have hfind : ∃ k, (k0 :: ks)[i]? = some k ∧ encode b = .ok k := by
    cases i with
    | zero => simp at hb; subst hb; exact ⟨k0, by simp, h0⟩
    | succ i =>
      obtain ⟨k, hk, he⟩ := hp i b (by simpa using hb)
      exact ⟨k, by simpa using hk, he⟩
  obtain ⟨k, hki, he⟩ := hfind
  obtain ⟨sw, h1, h2, h3⟩ := C20_history_bodies_partial k0 ks A (encode_kwf_full h0) hkw hargs attr_clause hm b k
    (List.mem_of_getElem? hki) he
  exact ⟨k, sw, hki, he, h1, h2, h3⟩

/-- **`PEOp.from_operations`** (full): the element it builds computes, under switch value `i`, operation `i` of
its data ports, port `j` feeding operand `j` — any number of operations, any arity, any semantics. -/
theorem from_operations_computes (ops : List (OpCode × List Ty × Ty)) (A : PE) (h : peFromOperations ops = .ok A)
    (i : Nat) (name : OpCode) (tys : List Ty) (res : Ty) (hi : ops[i]? = some (name, tys, res))
    {V : Type} (sem : OpCode → List V → V) (inp : List V) (hlen : inp.length = A.argTys.length) :
    Computes sem A (fun _ => i) inp A.yld (sem name inp) :=
  peFromOperations_computes h hi sem inp hlen

end Generic

/-! ### the tree with fixes/DC20a: operations are identified by name AND attributes -/

section Fixed
/-! the global default instance `Variant.fixedTree` (`fixed = true`) is the one in scope here -/

/-! the DC20a witness kernels (used on both trees) -/
def i1 : Ty := ⟨"IntegerType", "i1"⟩
def i32' : Ty := ⟨"IntegerType", "i32"⟩
/-- kernel `a < b` -/
def exLt : PE := ⟨[i32', i32'], [⟨"c0", [⟨"arith.cmpi", "slt"⟩], [.arg 0, .arg 1], 0, i1⟩], .node 0, [.choose 0]⟩
/-- kernel `a > b`: same operation class, other predicate -/
def exGt : PE := ⟨[i32', i32'], [⟨"c0", [⟨"arith.cmpi", "sgt"⟩], [.arg 0, .arg 1], 0, i1⟩], .node 0, [.choose 0]⟩
def semCmp (op : OpCode) (vs : List Int) : Int :=
  if op.attr = "slt" then (if vs.getD 0 0 < vs.getD 1 0 then 1 else 0)
  else (if vs.getD 0 0 > vs.getD 1 0 then 1 else 0)


/-- on the fixed tree `attr_clause` holds for every history -/
theorem attr_clause_fixed (gs : List PE) : classFun (allOps gs) = true :=
  (classFun_iff _).mpr (classFun_of_fixed rfl _)

/-- **C20 for merge histories of any length** (full, fixed tree): `C20_statement` holds. -/
theorem C20_history : C20_statement :=
  fun k0 ks A h0 hks hargs hm => C20_history_partial k0 ks A h0 hks hargs (attr_clause_fixed _) hm

/-- every reachable graph satisfies the invariant, `wf`, keeps the data ports, and every merged kernel is routable
and covered (full, fixed tree) -/
theorem reachable_inv (k0 : PE) (ks : List PE) (A : PE) (h0 : k0.kwf = true) (hks : ∀ k, k ∈ ks → k.kwf = true)
    (hm : mergeAll k0 ks = .ok A) :
    Inv A ∧ A.wf = true ∧ A.argTys = k0.argTys ∧ ∀ k, k ∈ k0 :: ks → Routable A k ∧ covers A k = true :=
  reachable_inv_partial k0 ks A h0 hks (attr_clause_fixed _) hm

/-- a merge covers the merged graph (full, fixed tree) -/
theorem combine_establishes_covers (A G A' : PE) (hinv : Inv A) (hG : ∀ g, g ∈ G.nodes → g.ops ≠ [])
    (h : combine A G = .ok A') : covers A' G = true := by
  have hS : ClassFun (allOps [A, G]) := classFun_of_fixed rfl _
  refine (combine_establishes_covers_partial A G A' hinv hG h (allOps [A, G]) hS ?_ ?_).1
  · exact fun j n hn o ho => mem_allOps.mpr ⟨A, by simp, n, List.mem_of_getElem? hn, ho⟩
  · exact fun g hg o ho => mem_allOps.mpr ⟨G, by simp, g, hg, ho⟩

/-- **C20 down to the kernel bodies** (full, fixed tree) -/
theorem C20_history_bodies (k0 : PE) (ks : List PE) (A : PE) (h0 : k0.kwf = true)
    (hks : ∀ k, k ∈ ks → k.kwf = true) (hargs : ∀ k, k ∈ ks → k.argTys.length = k0.argTys.length)
    (hm : mergeAll k0 ks = .ok A) (b : KBody) (k : PE) (hk : k ∈ k0 :: ks) (hb : encode b = .ok k) :
    ∃ sw, decode A k = .ok sw ∧ sw.length = A.trueSwitches ∧
      ∀ (V : Type) (sem : OpCode → List V → V) (inp : List V), inp.length = b.argTys.length → ∀ v : V,
        b.eval sem inp = some v ↔ Computes sem A (A.assign sw) (b.usedInputs inp) A.yld v :=
  C20_history_bodies_partial k0 ks A h0 hks hargs (attr_clause_fixed _) hm b k hk hb

/-- **C20 for kernel bodies, no structural hypothesis and no attribute clause** (full, fixed tree): encode any list
of `linalg.generic` bodies, merge the kernels in order; if nothing raises and the kernels have equally many data
ports, every kernel decodes, the number of values is `trueSwitches`, and the merged element under the decoded
switches computes exactly the function of the corresponding body — operations with attributes included. -/
theorem C20_for_bodies (b0 : KBody) (bs : List KBody) (k0 : PE) (ks : List PE) (A : PE)
    (h0 : encode b0 = .ok k0) (hs : mapExcept encode bs = .ok ks)
    (hargs : ∀ k, k ∈ ks → k.argTys.length = k0.argTys.length) (hm : mergeAll k0 ks = .ok A)
    (i : Nat) (b : KBody) (hb : (b0 :: bs)[i]? = some b) :
    ∃ k sw, (k0 :: ks)[i]? = some k ∧ encode b = .ok k ∧ decode A k = .ok sw ∧ sw.length = A.trueSwitches ∧
      ∀ (V : Type) (sem : OpCode → List V → V) (inp : List V), inp.length = b.argTys.length → ∀ v : V,
        b.eval sem inp = some v ↔ Computes sem A (A.assign sw) (b.usedInputs inp) A.yld v :=
  C20_for_bodies_partial b0 bs k0 ks A h0 hs hargs (attr_clause_fixed _) hm i b hb

/-- without the relation between the two graphs nothing is kept: an unrelated element does not decode the
kernel that `A` decodes (`extends_clause` cannot be dropped) -/
theorem combine_keeps_needs_extends_fails :
    ¬ (∀ (A A' K : PE) (sw : List Nat), decode A K = .ok sw →
        (∃ pre', localChoices A' K A'.switches 0 = .ok pre') → ∃ sw', decode A' K = .ok sw') := by
  intro h
  let i32 : Ty := ⟨"IntegerType", "i32"⟩
  let K : PE := ⟨[i32, i32], [⟨"x0", ["arith.addi"], [.arg 0, .arg 1], 0, i32⟩], .node 0, [.choose 0]⟩
  let A' : PE := ⟨[i32, i32], [⟨"x0", ["arith.addi"], [.arg 1, .arg 0], 0, i32⟩], .node 0, [.choose 0]⟩
  have := h K A' K [] (by decide) ⟨[.skip], by decide⟩
  obtain ⟨sw', hsw'⟩ := this
  have hd : decode A' K = .error .mappingNotFound := by decide
  rw [hd] at hsw'; cases hsw'


/-! ### non-vacuity: a concrete two-kernel history -/

section Examples
def semInt0 (op : OpCode) (vs : List Int) : Int :=
  if op = "arith.muli" then vs.getD 0 0 * vs.getD 1 0 else vs.getD 0 0 + vs.getD 1 0
def i32 : Ty := ⟨"IntegerType", "i32"⟩
/-- kernel 1: `(a*a) + b` -/
def exK1 : PE :=
  ⟨[i32, i32], [⟨"x0", ["arith.muli"], [.arg 0, .arg 0], 0, i32⟩, ⟨"x1", ["arith.addi"], [.node 0, .arg 1], 1, i32⟩],
   .node 1, [.choose 0, .choose 1]⟩
/-- kernel 2: `a*b` -/
def exK2 : PE := ⟨[i32, i32], [⟨"x0", ["arith.muli"], [.arg 0, .arg 1], 0, i32⟩], .node 0, [.choose 0]⟩
/-- kernel 1 with kernel 2 merged into it: two muxes -/
def exA : PE :=
  ⟨[i32, i32], [⟨"x0", ["arith.muli"], [.arg 0, .mux 2 (.arg 0) (.arg 1)], 0, i32⟩,
                ⟨"x1", ["arith.addi"], [.node 0, .arg 1], 1, i32⟩],
   .mux 3 (.node 1) (.node 0), [.choose 0, .choose 1, .mux, .mux]⟩

example : combine exK1 exK2 = .ok exA := by decide
/-- hypotheses of `C20_history` / `reachable_inv` for this history (and the conclusion, instantiated) -/
example : exK1.kwf = true ∧ exK2.kwf = true ∧ exK2.argTys.length = exK1.argTys.length ∧
    mergeAll exK1 [exK2] = .ok exA := by decide
example : ∃ sw, decode exA exK2 = .ok sw ∧ sw.length = exA.trueSwitches :=
  let ⟨sw, h1, h2, _⟩ := C20_history_partial exK1 [exK2] exA (by decide) (by decide) (by decide) (by decide) (by decide) exK2 (by simp)
  ⟨sw, h1, h2⟩
/-- a body whose encoding is kernel 2: `%0 = muli %in0, %in1; yield %0` with an unused third block argument -/
def exB2 : KBody := ⟨[i32, i32, i32], [⟨"arith.muli", [.arg 0, .arg 1], i32⟩], .res 0⟩
example : (encode exB2).toOption.map (·.nodes.length) = some 1 ∧ exB2.eval semInt0 [3, 5, 7] = some 15 ∧
    exB2.usedInputs [3, 5, 7] = [(3 : Int), 5] := by decide
/-- body of kernel 1: `%0 = muli %in0, %in0; %1 = addi %0, %in1; yield %1` (third block argument unused) -/
def exB1 : KBody :=
  ⟨[i32, i32, i32], [⟨"arith.muli", [.arg 0, .arg 0], i32⟩, ⟨"arith.addi", [.res 0, .arg 1], i32⟩], .res 1⟩
/-- hypotheses of `C20_for_bodies` hold for the history [exB1, exB2]: both encode, equally many data ports, the
merge succeeds (and needs two muxes) -/
example : (do
    let k0 ← encode exB1
    let ks ← mapExcept encode [exB2]
    let A ← mergeAll k0 ks
    pure (ks.all (fun k => k.argTys.length == k0.argTys.length) && A.trueSwitches == 2 && k0.kwf)
      : Except Err Bool) = .ok true := by decide
example : ∃ A, peFromOperations [("arith.addi", [i32, i32], i32), ("arith.muli", [i32, i32], i32)] = .ok A ∧
    A.argTys.length = 2 := ⟨_, rfl, rfl⟩
/-- hypotheses of `combine_keeps` / `combine_establishes_extends`: `Inv` holds for a kernel -/
example : Inv exK1 := inv_of_kernel (by decide)
/-- hypotheses of `decode_sound` / `decode_exact` / `switch_count` hold for both kernels of the history -/
example : exA.wf = true ∧ uniqueIds exK2.nodes = true ∧ covers exA exK2 = true ∧ decode exA exK2 = .ok [1, 1] ∧
    exA.trueSwitches = 2 := by decide
example : uniqueIds exK1.nodes = true ∧ covers exA exK1 = true ∧ decode exA exK1 = .ok [0, 0] := by decide
/-- and the kernel does deliver a value (hypothesis `hk`), here over `Int` with the obvious semantics -/
example : Computes (fun op vs => if op = "arith.muli" then vs.getD 0 0 * vs.getD 1 0 else vs.getD 0 0 + vs.getD 1 0)
    exK2 (fun _ => 0) [3, 5] exK2.yld (15 : Int) :=
  eval_sound exK2 (fun _ => 0) _ [3, 5] 15 (by decide)
/-- hypotheses of `search_mapping_complete` and of `combine_keeps_partial` -/
example : validMapping exK1 exA (fun _ => 0) = .ok true := by decide
example : ∃ pre', localChoices exA exK1 exA.switches 0 = .ok pre' := ⟨[.skip, .skip, .muxP 2, .muxP 3], by decide⟩
example : Extends exK1 exA where
  args := rfl
  sw := ⟨[.mux, .mux], rfl⟩
  lookup := by
    intro id ai h
    simp only [PE.lookup, exK1, exA, findId] at h ⊢
    exact h
  node := by
    intro j n h
    match j, h with
    | 0, h =>
      simp [exK1] at h; subst h
      exact ⟨_, rfl, rfl, .cons (.refl _) (.cons (.step 2 _ (.refl _) (by decide)) .nil)⟩
    | 1, h =>
      simp [exK1] at h; subst h
      exact ⟨_, rfl, rfl, .cons (.refl _) (.cons (.refl _) .nil)⟩
    | j + 2, h => simp [exK1] at h
  yld := .step 3 _ (.refl _) (by decide)
/-- operation semantics over `Int` -/
def semInt (op : OpCode) (vs : List Int) : Int :=
  if op = "arith.muli" then vs.getD 0 0 * vs.getD 1 0 else vs.getD 0 0 + vs.getD 1 0
/-- what the regions of the UNFIXED tree compute (finding D28): kernel 1's `muli %a, %a` was stored as
`muli %arg1, %arg1` because `ChooseOp.from_operations` remapped operands through a value-keyed dict -/
def semCollapsed (op : OpCode) (vs : List Int) : Int :=
  if op = "arith.muli" then vs.getD 1 0 * vs.getD 1 0 else vs.getD 0 0 + vs.getD 1 0

/-- D28 in the model: with the collapsed region the element configured for kernel 2 (`a*b`) delivers `b*b`.
The fixed tree (F09, positional wiring) is what `decode_sound` is about. -/
theorem D28_collapsed_region_fails :
    ¬ (∀ v, Computes semInt exK2 (fun _ => 0) [3, 5] exK2.yld v →
        Computes semCollapsed exA (exA.assign [1, 1]) [3, 5] exA.yld v) := by
  intro h
  have hk : Computes semInt exK2 (fun _ => 0) [3, 5] exK2.yld 15 := eval_sound exK2 _ _ _ 15 (by decide)
  have ha : Computes semCollapsed exA (exA.assign [1, 1]) [3, 5] exA.yld 25 := eval_sound exA _ _ _ 25 (by decide)
  have := computes_functional exA _ semCollapsed [3, 5] _ _ _ (h 15 hk) ha
  exact absurd this (by decide)
end Examples

/-- the DC20a witness on the FIXED tree: the second kernel's operation is offered and selected, the element
computes `a > b` -/
example : (do
    let A ← mergeAll exLt [exGt]
    let sw ← decode A exGt
    pure (A.trueSwitches == 1 && sw == [1]) : Except Err Bool) = .ok true := by decide

end Fixed

/-! ### the tree BEFORE fixes/DC20a: operations are identified by name only -/

section Unfixed
local instance unfixedVariant : Variant := ⟨false⟩
/-- **finding DC20a in the model**: `C20_statement` is false of the code as it is. Merging `a > b` into the
element for `a < b` changes nothing (`insert_operations` compares operation names only), decoding `a > b`
succeeds with no switch value (`decode` compares classes only), and the element computes `a < b`. The
attribute clause of `C20_history_partial` cannot be dropped. -/
theorem C20_statement_attr_fails : ¬ C20_statement := by
  intro h
  obtain ⟨sw, hsw, _, hiff⟩ := h exLt [exGt] exLt (by decide) (by decide) (by decide) (by decide) exGt (by simp)
  have hd : decode exLt exGt = .ok [] := by decide
  rw [hd] at hsw; injection hsw with hsw; subst hsw
  have hk : Computes semCmp exGt (fun _ => 0) [1, 2] exGt.yld 0 := eval_sound exGt _ _ _ 0 (by decide)
  have ha : Computes semCmp exLt (exLt.assign []) [1, 2] exLt.yld 1 := eval_sound exLt _ _ _ 1 (by decide)
  have := computes_functional exLt _ semCmp [1, 2] _ _ _ ((hiff Int semCmp [1, 2] 0).mp hk) ha
  exact absurd this (by decide)

/-- the clause is what fails for the witness -/
example : classFun (allOps [exLt, exGt]) = false := by decide
end Unfixed

end SnaxVerif.C20
