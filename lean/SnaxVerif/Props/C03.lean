import SnaxVerif.Lemmas.SchedWF
import SnaxVerif.Lemmas.SchedFromMap
import SnaxVerif.Lemmas.Fuel
import SnaxVerif.Lemmas.First
import SnaxVerif.Lemmas.EndToEnd
/-!
# C03 — scheduling preserves the iteration space

`imageS s` lists, for every iteration of the box `s.bounds` in execution order, the tuple of operand
indices.  "Visits exactly the same multiset of operand-index tuples" is `(imageS r).Perm (imageS s)`.
`WF s` is what the Python constructors enforce (bounds > 0, one matrix column per bound).
Statements and theorems only; helper lemmas live in `Lemmas/`.
-/
namespace SnaxVerif.C03
open SnaxVerif.Sched

/-- Tiling a dimension behind the divisibility guard (`schedule_bound % template_bound == 0`) visits the
same operand-index tuples IN THE SAME ORDER: for every rank, position, factor, matrix and bias. -/
theorem tile_image_eq (s c : Schedule) (i t : Nat) (hwf : WF s) (h : tile i t s = .ok c)
    (hdiv : s.bounds.getD i 0 % t = 0) : imageS c = imageS s := by
  obtain ⟨rfl, hi, _, _⟩ := tile_ok h
  exact tileRaw_image i t s hwf hi hdiv

/-- Loop rotation (`rotate(d)`, `1 ≤ d`) visits a permutation of the original tuples. -/
theorem rotate_image_perm (s r : Schedule) (d : Nat) (hwf : WF s) (h1 : 1 ≤ d) (h : rotate d s = .ok r) :
    (imageS r).Perm (imageS s) := by
  obtain ⟨rfl, hd, _⟩ := rotate_ok h
  exact rotateRaw_image d s hwf h1 hd

/-- Inserting a unit dimension (`add_dim`) does not change the visited tuples (same order). -/
theorem addDim_image_eq (s : Schedule) : imageS (addDim s) = imageS s := addDim_image' s

/-- Dropping the dimensions of extent 1 (`clear_unused_dims()`) does not change the visited tuples. -/
theorem clearUnused_image_eq (s : Schedule) : imageS (clearUnused s) = imageS s :=
  maskSched_image (· != 1) (by intro b hb; simpa using hb) s

/-- `clear_unused_dims(bounds)` with custom bounds: the result visits exactly the tuples of the schedule whose
box was replaced by the custom bounds (the dropped dims have custom extent 1). -/
theorem clearUnusedWith_image_eq (c : List Nat) (s r : Schedule) (h : clearUnusedWith c s = .ok r) :
    imageS r = imageS { s with bounds := c } := by
  unfold clearUnusedWith at h
  split at h
  · cases h
  · split at h
    · cases h
    · simp only [Except.ok.injEq] at h
      subst h
      exact maskSched_image (· != 1) (by intro b hb; simpa using hb) { s with bounds := c }

/-- `canonicalize()` (drop dims with bound == 1, as in the repaired /repo) does not change the visited tuples. -/
theorem canonicalize_image_eq (s : Schedule) : imageS (canonicalize s) = imageS s := by
  rw [canonicalize_eq_clearUnused, clearUnused_image_eq]

/-- **Every** schedule yielded by `scheduler_backtrack` — for an arbitrary matcher, arbitrary extra
checks, every template (bounded or unbounded dims), every start level `k`, every fuel, every position in
the result list — visits a permutation of the original operand-index tuples, and is well-formed. -/
theorem C03_backtrack (mtch : Template → Schedule → Except Err Bool)
    (checks : List (Template → Schedule → Bool)) (tmpl : Template) (fuel : Nat) (s : Schedule) (k : Nat)
    (rs : List Schedule) (hwf : WF s) (h : backtrack mtch checks tmpl fuel s k = .ok rs) :
    ∀ r ∈ rs, WF r ∧ (imageS r).Perm (imageS s) := by
  apply backtrack_induct (fun _ s' => WF s' ∧ (imageS s').Perm (imageS s))
    (fun r => WF r ∧ (imageS r).Perm (imageS s)) (fun _ _ hI _ => hI) ?_ fuel s k rs ⟨hwf, List.Perm.refl _⟩ h
  intro k s' s1 cand hI hk hstep
  obtain ⟨⟨hw1, hp1⟩, hn, hc⟩ := btStep_image hI.1 hk hstep
  exact ⟨⟨hw1, hp1.trans hI.2⟩, hn, fun c hcand => ⟨(hc c hcand).1, ((hc c hcand).2).trans hI.2⟩⟩

/-- `scheduler()` returns the first (or the `idx`-th) yielded schedule: same conclusion. -/
theorem C03_scheduler (mtch : Template → Schedule → Except Err Bool)
    (checks : List (Template → Schedule → Bool)) (tmpl : Template) (fuel : Nat) (s : Schedule)
    (rs : List Schedule) (idx : Nat) (r : Schedule) (hwf : WF s)
    (h : backtrack mtch checks tmpl fuel (canonicalize s) 1 = .ok rs) (hr : rs[idx]? = some r) :
    (imageS r).Perm (imageS s) := by
  have hwfc : WF (canonicalize s) := WF_maskSched hwf
  have := (C03_backtrack mtch checks tmpl fuel _ 1 rs hwfc h r (List.mem_of_getElem? hr)).2
  rw [canonicalize_image_eq s] at this
  exact this

/-- The `WF` hypothesis above is exactly what `SchedulePattern.__init__` enforces: every schedule the
constructor accepts (all bounds strictly positive, one matrix column per bound) is well-formed; in particular a
zero-extent dimension never reaches `canonicalize` / `tile_dim` / the scheduler. -/
theorem constructed_is_wf (bounds : List Int) (ops : List Operand) (s : Schedule)
    (h : construct bounds ops = .ok s) : WF s := construct_wf h

/-- `AutoflowScheduler` (the `dart-scheduler` pass on one operation: `canonicalize`, then the first schedule the
search yields under both default constraints): the emitted schedule is well-formed and visits a permutation
of the operation's own operand-index tuples; if the search is empty nothing is emitted (`.ok none`). -/
theorem C03_autoflow (sizes : List Nat) (tmpl : Template) (fuel : Nat) (s r : Schedule) (hwf : WF s)
    (h : autoflow sizes tmpl fuel s = .ok (some r)) : WF r ∧ (imageS r).Perm (imageS s) := by
  unfold autoflow at h
  split at h
  · cases h
  · next rs hb =>
    simp only [Except.ok.injEq] at h
    have hmem : r ∈ rs := List.mem_of_mem_head? h
    have := C03_backtrack matchesQ _ tmpl fuel (canonicalize s) 1 rs (WF_maskSched hwf) hb r hmem
    rw [canonicalize_image_eq s] at this
    exact this

/-- `next(scheduler_backtrack(..))` computed lazily (later candidates are never evaluated, exactly like the Python
generator): the first yielded schedule is well-formed and visits a permutation of the original tuples. -/
theorem C03_first (mtch : Template → Schedule → Except Err Bool) (checks : List (Template → Schedule → Bool))
    (tmpl : Template) (fuel : Nat) (s : Schedule) (k : Nat) (r : Schedule) (hwf : WF s)
    (h : backtrackFirst mtch checks tmpl fuel s k = .ok (some r)) : WF r ∧ (imageS r).Perm (imageS s) := by
  apply backtrackFirst_induct (fun _ s' => WF s' ∧ (imageS s').Perm (imageS s))
    (fun r => WF r ∧ (imageS r).Perm (imageS s)) (fun _ _ hI _ => hI) ?_ fuel s k r ⟨hwf, List.Perm.refl _⟩ h
  intro k s' s1 cand hI hk hstep
  obtain ⟨⟨hw1, hp1⟩, hn, hc⟩ := btStep_image hI.1 hk hstep
  exact ⟨⟨hw1, hp1.trans hI.2⟩, hn, fun c hcand => ⟨(hc c hcand).1, ((hc c hcand).2).trans hI.2⟩⟩

/-- whenever the whole list can be computed, the lazy first result is its head (the two models of the search agree) -/
theorem first_is_head (mtch : Template → Schedule → Except Err Bool) (checks : List (Template → Schedule → Bool))
    (tmpl : Template) (fuel : Nat) (s : Schedule) (k : Nat) (rs : List Schedule)
    (h : backtrack mtch checks tmpl fuel s k = .ok rs) : backtrackFirst mtch checks tmpl fuel s k = .ok rs.head? :=
  backtrackFirst_eq_head fuel s k rs h

/-- the pass step as it really runs (`autoflowFirst`: canonicalize, lazy `next`) -/
theorem C03_autoflow_first (sizes : List Nat) (tmpl : Template) (fuel : Nat) (s r : Schedule) (hwf : WF s)
    (h : autoflowFirst sizes tmpl fuel s = .ok (some r)) : WF r ∧ (imageS r).Perm (imageS s) := by
  have := C03_first matchesQ _ tmpl fuel (canonicalize s) 1 r (WF_maskSched hwf) h
  rw [canonicalize_image_eq s] at this
  exact this

/-! ### the pass step end to end: from the maps of `dart.operation` to the maps written into `dart.schedule` -/

/-- **End-to-end statement of C03 for the `dart-scheduler` pass step.**  Take the operation's iteration bounds and
its indexing maps (any number of operands, any affine result expressions: every product has a dimension-free side);
build the patterns with `from_affine_map` (`BuiltFrom`), run `AutoflowScheduler` (canonicalize + lazy first result
of the search under both constraints) and write the result back with `to_affine_map` (`emittedMaps`).  Then the
affine maps WRITTEN into `dart.schedule`, evaluated over the schedule's bounds, visit a permutation of the
operand-index tuples that the maps READ from `dart.operation` visit over the operation's bounds. -/
theorem C03_pass_end_to_end (sizes : List Nat) (tmpl : Template) (fuel : Nat)
    (bounds : List Nat) (maps : List (List AExpr)) (ops : List Operand) (r : Schedule)
    (hb : BuiltFrom bounds.length maps ops) (mulConstSide_clause : ∀ rs ∈ maps, ∀ e ∈ rs, AT.mulConstSide e = true)
    (hwf : WF ⟨bounds, ops⟩) (h : autoflowFirst sizes tmpl fuel ⟨bounds, ops⟩ = .ok (some r)) :
    (trueImage r.bounds (emittedMaps r)).Perm (trueImage bounds maps) := by
  rw [emitted_image r, ← imageS_built bounds maps ops hb mulConstSide_clause]
  exact (C03_autoflow_first sizes tmpl fuel ⟨bounds, ops⟩ r hwf h).2

/-- non-vacuity: a 16-element element-wise operation `(d0) -> (d0)` on the 4-lane template is emitted as
`(d0, d1) -> (d0 * 4 + d1)` over bounds (4, 4) -/
example : autoflowFirst [8] ⟨[some 4], [⟨[[1]], [0]⟩]⟩ 8 ⟨[16], [⟨[[1]], [0]⟩]⟩ = .ok (some ⟨[4, 4], [⟨[[4, 1]], [0]⟩]⟩) ∧
    emittedMaps ⟨[4, 4], [⟨[[4, 1]], [0]⟩]⟩ = [[.bin .add (.bin .mul (.dim 0) (.const 4)) (.dim 1)]] ∧
    BuiltFrom 1 [[.dim 0]] [⟨[[1]], [0]⟩] :=
  ⟨by decide +kernel, by decide +kernel, ⟨[⟨1, [[1]], [0]⟩], rfl, rfl⟩⟩

/-! ### the fuel of the model is adequate and irrelevant (the Python recursion has none) -/

/-- With fuel above `(n + 1 - k) + (template dims + 1 - k)` the model of `scheduler_backtrack` never runs out of
fuel, for any matcher that does not itself report `outOfFuel`, any checks, template and schedule: each recursive
call handles one more level, and a tiling (the only way the schedule grows) needs a bounded template dim. -/
theorem backtrack_fuel_adequate (mtch : Template → Schedule → Except Err Bool)
    (checks : List (Template → Schedule → Bool)) (tmpl : Template)
    (hm : ∀ t x, mtch t x ≠ .error .outOfFuel) (fuel : Nat) (s : Schedule) (k : Nat)
    (h : depthBound tmpl s k < fuel) : backtrack mtch checks tmpl fuel s k ≠ .error .outOfFuel :=
  backtrack_no_oof hm fuel s k h

/-- for the exact matcher and the start level 1: `n + template dims + 1` is enough -/
theorem backtrack_fuel_adequate_real (checks : List (Template → Schedule → Bool)) (tmpl : Template) (s : Schedule) :
    backtrack matchesQ checks tmpl (s.n + tmpl.n + 1) s 1 ≠ .error .outOfFuel :=
  backtrack_no_oof matchesQ_no_oof _ s 1 (by unfold depthBound; omega)

/-- More fuel never changes an answer: the result list is THE list the unfuelled recursion produces. -/
theorem backtrack_fuel_irrelevant (mtch : Template → Schedule → Except Err Bool)
    (checks : List (Template → Schedule → Bool)) (tmpl : Template) (f f' : Nat) (s : Schedule) (k : Nat)
    (rs rs' : List Schedule) (h : backtrack mtch checks tmpl f s k = .ok rs)
    (h' : backtrack mtch checks tmpl f' s k = .ok rs') : rs = rs' := by
  rcases Nat.le_total f f' with hle | hle
  · have := backtrack_mono_le hle s k rs h
    rw [this] at h'
    exact Except.ok.inj h'
  · have := backtrack_mono_le hle s k rs' h'
    rw [this] at h
    exact (Except.ok.inj h).symm

/-! ### construction path AffineMap -> (A, b) (`AffineTransform.from_affine_map`, model `AT.fromMap`) -/

/-- Full statement (false of the code: a raw product of two dims is accepted and mis-converted; such a tree is
not an affine expression and cannot be parsed or built with xDSL's `*`, see `C19.fromMap_nonlinear_fails`). -/
def fromAffineMap_statement : Prop :=
  ∀ (n : Nat) (rs : List AExpr) (t : AT.Transform), AT.fromMap n rs = .ok t →
    ∀ x : List Nat, x.length = n → (evalOp ⟨t.A, t.b⟩ x).map some = rs.map fun e => e.eval (AT.envOf (intPoint x))

/-- Whenever the construction ACCEPTS a map, the operand `(A, b)` every schedule is built from indexes, at
every iteration point, exactly the element the map indexes (clause `mulConstSide`: every product has a
dimension-free side, i.e. the results are affine expressions). -/
theorem fromAffineMap_sound_partial (n : Nat) (rs : List AExpr) (t : AT.Transform) (h : AT.fromMap n rs = .ok t)
    (mulConstSide_clause : ∀ e ∈ rs, AT.mulConstSide e = true) (x : List Nat) (hx : x.length = n) :
    (evalOp ⟨t.A, t.b⟩ x).map some = rs.map fun e => e.eval (AT.envOf (intPoint x)) :=
  fromMap_operand_eval n rs t h mulConstSide_clause x hx

theorem fromAffineMap_fails : ¬ fromAffineMap_statement := by
  intro h
  have := h 2 [.bin .mul (.dim 0) (.dim 1)] ⟨2, [[0, 0]], [0]⟩ (by rfl) [2, 3] rfl
  revert this
  decide

/-- A floordiv / mod / ceildiv at ANY position of ANY result expression (top level, lhs or rhs of an addition,
nested, under a multiplication by a constant) makes the construction raise `ValueError`: nothing non-linear
is ever linearised silently. -/
theorem fromAffineMap_rejects_nonlinear (n : Nat) (rs : List AExpr) (e : AExpr) (he : e ∈ rs)
    (hnl : AT.noDivMod e = false) : AT.fromMap n rs = .error .valueError :=
  fromMap_rejects n rs e he hnl

/-- non-vacuity: `d1 + (d0 floordiv 2) * 16` and `d0 + d1 floordiv 2` (non-linear term in the rhs) are rejected,
`d1 + d0 * 16` is accepted with `A = [[16, 1]]` -/
example : AT.fromMap 2 [.bin .add (.dim 1) (.bin .mul (.bin .fdiv (.dim 0) (.const 2)) (.const 16))] = .error .valueError := by
  decide
example : AT.fromMap 2 [.bin .add (.dim 0) (.bin .fdiv (.dim 1) (.const 2))] = .error .valueError := by decide
example : AT.fromMap 2 [.bin .add (.dim 1) (.bin .mul (.dim 0) (.const 16))] = .ok ⟨2, [[16, 1]], [0]⟩ := by rfl

/-- Why the divisibility guard is the mechanism: without it `tile_dim` loses iterations
(bound 3 tiled by 2 gives a 1×2 box). -/
theorem tile_nondivisible_fails :
    ∃ (s c : Schedule), WF s ∧ tile 0 2 s = .ok c ∧ ¬ (imageS c).Perm (imageS s) := by
  refine ⟨⟨[3], [⟨[[1]], [0]⟩]⟩, ⟨[1, 2], [⟨[[2, 1]], [0]⟩]⟩, ?_, by decide, ?_⟩
  · refine ⟨by decide, by decide⟩
  · intro h
    have := h.length_eq
    revert this
    decide

/-! ### non-vacuity: concrete inputs meeting the hypotheses -/

/-- a GEMM-like schedule: bounds (4, 6, 8), operands A[m,k], B[k,n], C[m,n] -/
def exS : Schedule :=
  ⟨[4, 6, 8], [⟨[[1, 0, 0], [0, 0, 1]], [0, 0]⟩, ⟨[[0, 0, 1], [0, 1, 0]], [0, 0]⟩, ⟨[[1, 0, 0], [0, 1, 0]], [0, 0]⟩]⟩
/-- a 2-dim template with bounds (2, 4) on the two innermost dims -/
def exT : Template :=
  ⟨[some 2, some 4], [⟨[[0, 0], [0, 1]], [0, 0]⟩, ⟨[[0, 1], [1, 0]], [0, 0]⟩, ⟨[[0, 0], [1, 0]], [0, 0]⟩]⟩

theorem exS_wf : WF exS := ⟨by decide, by decide⟩

example : ∃ c, tile 1 3 exS = .ok c ∧ exS.bounds.getD 1 0 % 3 = 0 ∧ c.bounds = [4, 2, 3, 8] := ⟨_, rfl, by decide, by decide⟩
example : ∃ r, rotate 3 exS = .ok r ∧ r.bounds = [6, 8, 4] := ⟨_, rfl, by decide⟩
example : (addDim exS).bounds = [1, 4, 6, 8] := by decide
example : (clearUnused (addDim exS)).bounds = [4, 6, 8] ∧ (canonicalize (addDim exS)).bounds = [4, 6, 8] := by decide

/-- `C03_backtrack` / `C03_scheduler` are not vacuous: the search on the example yields six schedules, all
tiled twice (exact matcher, no extra checks) -/
example : (backtrack matchesQ [] exT 12 (canonicalize exS) 1).toOption.map (·.map (·.bounds))
    = some [[3, 4, 2, 2, 4], [4, 3, 2, 2, 4], [2, 3, 4, 2, 4], [3, 2, 4, 2, 4], [4, 2, 3, 2, 4], [2, 4, 3, 2, 4]] := by
  decide +kernel

end SnaxVerif.C03
