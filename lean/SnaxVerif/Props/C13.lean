import SnaxVerif.Lemmas.Cores
import SnaxVerif.Lemmas.CoreSched
/-!
C13 — cross-core dependencies are separated by a cluster barrier.

The walk modelled is `InsertSyncBarrier.apply` WITH `fixes/F17-sync-barrier-reached-through.diff`
(`insertBarriers true`); `insertBarriers false` is the walk of the pinned commit (defect D5).
-/
namespace SnaxVerif.C13
open SnaxVerif.Cores

/-- well-formed IR: operation ids identify operations; `scf.if`, `scf.for`, `scf.yield` run on all cores -/
def WF (p : Blk) : Prop := (idsB p).Nodup ∧ CompoundAll p

/-- clause (D6): every buffer an operation touches is one of its own SSA operands/results
(no access through a view such as `memref.subview`) -/
def SsaVisible (p : Blk) : Prop :=
  ∀ l ∈ leavesB p, ∀ b, (b ∈ l.reads ∨ b ∈ l.writes) → b ∈ l.vals

/-- clause (DC13a): two dependent operations inside a common loop are direct children of one loop body -/
def BackEdgeSiblings (p : Blk) : Prop :=
  ∀ x ∈ leavesB p, ∀ u ∈ leavesB p, Dep x u → LoopOK x u p

/-- clause (D30), on the execution: no all-cores operation is followed, without a barrier, by a conflicting
single-core operation -/
def NoGlobalBeforeSingleCoreWrite (t : List Ev) : Prop :=
  ∀ a m c e1 e2, t = a ++ Ev.op e1 :: (m ++ Ev.op e2 :: c) → e1.cls = Cls.all → Conflict e1 e2 → Ev.sync ∈ m

/-- THE PROPERTY, full strength: after the pass, on every execution path (all branch outcomes, all trip
counts) every conflicting pair of operations of different core sets has a barrier in between. -/
def C13_statement : Prop :=
  ∀ p, WF p → ∀ t, Run (insertBarriers true p) t → Separated t

/-- Nested `scf.if` / `scf.for`, every branch outcome and trip count, the back edges included. -/
theorem C13_structured_partial (p : Blk) (hwf : WF p) (hssa : SsaVisible p) (hbe : BackEdgeSiblings p)
    (t : List Ev) (hr : Run (insertBarriers true p) t) (hg : NoGlobalBeforeSingleCoreWrite t) :
    Separated t := by
  intro a m c e1 e2 ht hc
  by_cases hall : e1.cls = Cls.all
  · exact hg a m c e1 e2 ht hall hc
  · have h1 : e1 ∈ leavesB p := run_mem _ _ _ _ _ _ _ hr (by rw [ht]; simp)
    have h2 : e2 ∈ leavesB p := run_mem _ _ _ _ _ _ _ hr (by rw [ht]; simp)
    have hd : Dep e1 e2 := by
      obtain ⟨hne, x, hx⟩ := hc
      refine ⟨?_, x, ?_⟩
      · cases h : e1.cls with
        | dm => exact Or.inl ⟨rfl, fun h' => hne (by rw [h, h'])⟩
        | cp => exact Or.inr ⟨rfl, fun h' => hne (by rw [h, h'])⟩
        | all => exact absurd h hall
      · rcases hx with ⟨hw, hrw⟩ | ⟨hr1, hw2⟩
        · exact ⟨hssa e1 h1 x (Or.inr hw), hssa e2 h2 x (hrw.imp id id)⟩
        · exact ⟨hssa e1 h1 x (Or.inl hr1), hssa e2 h2 x (Or.inr hw2)⟩
    exact from_single (leavesB p) e1 e2 hd h2 p (plainCtx p) [] t a m c hwf.1 hwf.2 (hbe e1 h1 e2 h2 hd) hr ht

/-- Straight-line code: no loop clause needed. -/
theorem C13_straightline_partial (p : Blk) (hnd : (idsB p).Nodup) (hsl : StraightLine p) (hssa : SsaVisible p)
    (t : List Ev) (hr : Run (insertBarriers true p) t) (hg : NoGlobalBeforeSingleCoreWrite t) :
    Separated t :=
  C13_structured_partial p ⟨hnd, straight_compoundAll p hsl⟩ hssa
    (fun x _ u _ _ => straight_loopOK x u p hsl) t hr hg

/-- Generic: in a barrier-separated execution no epoch holds two conflicting operations. -/
theorem epoch_race_free (t : List Ev) (h : Separated t) :
    ∀ ep ∈ epochs t, ∀ a m c e1 e2, ep = a ++ e1 :: (m ++ e2 :: c) → ¬ Conflict e1 e2 :=
  epoch_no_conflict t h

/-- Generic: a conflict-free epoch (all-cores operations not writing) leaves the same memory under every
schedule of the cores. -/
theorem race_free_deterministic (ep : List Leaf)
    (hfree : ∀ a m c e1 e2, ep = a ++ e1 :: (m ++ e2 :: c) → ¬ Conflict e1 e2 ∧ ¬ Conflict e2 e1)
    (hro : ∀ l ∈ ep, l.cls = Cls.all → l.writes = [])
    (s1 s2 : List (Core × Leaf)) (h1 : IsSchedule ep s1) (h2 : IsSchedule ep s2) :
    ∀ m, execS s1 m = execS s2 m :=
  epoch_schedule_deterministic ep hfree hro s1 s2 h1 h2

/-- Every core follows the same path through its dispatched copy of the function and meets exactly the
barriers of that path, in the same order: barrier k of one core is barrier k of every other core. -/
theorem barriers_on_all_cores (p : Blk) (hc : CompoundAll p) (t : List Ev) (hr : Run p t) (c : Core) :
    Run (perCore c p) (proj c t) ∧ (proj c t).filter isSync = t.filter isSync :=
  ⟨perCore_run c p t hc hr, proj_syncs c t⟩

/-! ## concrete witnesses -/

def mk (id : Nat) (cls : Cls) (vals reads writes : List Nat) : Leaf :=
  { id := id, cls := cls, vals := vals, reads := reads, writes := writes, dealloc := false }

/-- D6: `%1 = subview %0 ; generic ins(%2) outs(%1) ; copy %0 -> %3` -/
def pAlias : Blk :=
  .leaf (mk 1 .all [0, 1] [] []) (.leaf (mk 2 .cp [1, 2] [2] [0]) (.leaf (mk 3 .dm [0, 3] [0] [3]) .nil))

/-- D30: `test.op(%0)` on all cores, then `copy %1 -> %0` -/
def pGlobal : Blk := .leaf (mk 1 .all [0] [0] []) (.leaf (mk 2 .dm [0, 1] [1] [0]) .nil)

/-- DC13a: `for { generic ins(%1) outs(%2) ; if { copy %0 -> %1 } }` -/
def pBackEdge : Blk :=
  .forO (mk 1 .all [5, 6, 7] [] []) (.leaf (mk 2 .cp [1, 2] [1] [2])
    (.ifO (mk 3 .all [4] [] []) (.leaf (mk 4 .dm [0, 1] [0] [1]) (.leaf (mk 5 .all [] [] []) .nil)) .nil .nil))
    false (mk 6 .all [] [] []) .nil

/-- D5: `copy %0 -> %1 ; if { generic ins(%1) outs(%2) } ; generic ins(%1) outs(%2)` -/
def pIf : Blk :=
  .leaf (mk 1 .dm [0, 1] [0] [1])
    (.ifO (mk 2 .all [4] [] []) (.leaf (mk 3 .cp [1, 2] [1] [2]) (.leaf (mk 4 .all [] [] []) .nil)) .nil
      (.leaf (mk 5 .cp [1, 2] [1] [2]) .nil))

theorem C13_alias_fails :
    ¬ (∀ p, WF p → BackEdgeSiblings p → ∀ t, Run (insertBarriers true p) t →
        NoGlobalBeforeSingleCoreWrite t → Separated t) := by
  intro h
  have hrun : Run (insertBarriers true pAlias)
      [Ev.op (mk 1 .all [0, 1] [] []), Ev.op (mk 2 .cp [1, 2] [2] [0]), Ev.op (mk 3 .dm [0, 3] [0] [3])] :=
    run_leaf (run_leaf (run_leaf run_nil))
  have hs := h pAlias ⟨by decide, by simp [pAlias, CompoundAll]⟩
    (fun x _ u _ _ => straight_loopOK x u pAlias (by simp [pAlias, StraightLine])) _ hrun
    (by
      intro a m c e1 e2 ht hall hc
      exfalso
      have hm : Ev.op e1 ∈ [Ev.op (mk 1 .all [0, 1] [] []), Ev.op (mk 2 .cp [1, 2] [2] [0]),
          Ev.op (mk 3 .dm [0, 3] [0] [3])] := by rw [ht]; simp
      simp only [List.mem_cons, Ev.op.injEq, List.not_mem_nil, or_false] at hm
      rcases hm with rfl | rfl | rfl
      · revert hc; simp [Conflict, mk]
      · simp [mk] at hall
      · simp [mk] at hall)
  have := hs [Ev.op (mk 1 .all [0, 1] [] [])] [] [] (mk 2 .cp [1, 2] [2] [0]) (mk 3 .dm [0, 3] [0] [3]) rfl
    ⟨by simp [mk], 0, Or.inl ⟨by simp [mk], Or.inl (by simp [mk])⟩⟩
  simp at this

theorem C13_global_first_fails :
    ¬ (∀ p, WF p → SsaVisible p → BackEdgeSiblings p → ∀ t, Run (insertBarriers true p) t → Separated t) := by
  intro h
  have hrun : Run (insertBarriers true pGlobal)
      [Ev.op (mk 1 .all [0] [0] []), Ev.op (mk 2 .dm [0, 1] [1] [0])] :=
    run_leaf (run_leaf run_nil)
  have hs := h pGlobal ⟨by decide, by simp [pGlobal, CompoundAll]⟩
    (by intro l hl b hb; simp [pGlobal, leavesB, mk] at hl; rcases hl with rfl | rfl <;> simp at hb ⊢ <;> omega)
    (fun x _ u _ _ => straight_loopOK x u pGlobal (by simp [pGlobal, StraightLine])) _ hrun
  have := hs [] [] [] (mk 1 .all [0] [0] []) (mk 2 .dm [0, 1] [1] [0]) rfl
    ⟨by simp [mk], 0, Or.inr ⟨by simp [mk], by simp [mk]⟩⟩
  simp at this


theorem no_global_of_inert (p : Blk) (t : List Ev) (hr : Run (insertBarriers true p) t)
    (h : ∀ l ∈ leavesB p, l.cls = Cls.all → l.reads = [] ∧ l.writes = []) : NoGlobalBeforeSingleCoreWrite t := by
  intro a m c e1 e2 ht hall hc
  have h1 : e1 ∈ leavesB p := run_mem _ _ _ _ _ _ _ hr (by rw [ht]; simp)
  obtain ⟨hr1, hw1⟩ := h e1 h1 hall
  obtain ⟨_, x, hx⟩ := hc
  rw [hr1, hw1] at hx
  simp at hx

theorem C13_backedge_fails :
    ¬ (∀ p, WF p → SsaVisible p → ∀ t, Run (insertBarriers true p) t →
        NoGlobalBeforeSingleCoreWrite t → Separated t) := by
  intro h
  have hbody : Run (.leaf (mk 2 .cp [1, 2] [1] [2]) (.ifO (mk 3 .all [4] [] [])
      (.sync (.leaf (mk 4 .dm [0, 1] [0] [1]) (.leaf (mk 5 .all [] [] []) .nil))) .nil .nil)) _ :=
    run_leaf (run_ifT (run_sync (run_leaf (run_leaf run_nil))) run_nil)
  have hrun : Run (insertBarriers true pBackEdge) _ :=
    run_for2 (l := mk 1 .all [5, 6, 7] [] []) (y := mk 6 .all [] [] []) (ys := false) hbody hbody run_nil
  have hs := h pBackEdge ⟨by decide, by simp [pBackEdge, CompoundAll, mk]⟩
    (by
      intro l hl b hb
      simp [pBackEdge, leavesB, mk] at hl
      rcases hl with rfl | rfl | rfl | rfl | rfl | rfl <;> simp at hb ⊢ <;> omega)
    _ hrun
    (no_global_of_inert _ _ hrun (by
      intro l hl hall
      simp [pBackEdge, leavesB, mk] at hl
      rcases hl with rfl | rfl | rfl | rfl | rfl | rfl <;> simp at hall ⊢))
  have := hs [Ev.op (mk 1 .all [5, 6, 7] [] []), Ev.op (mk 2 .cp [1, 2] [1] [2]), Ev.op (mk 3 .all [4] [] []), Ev.sync]
    [Ev.op (mk 5 .all [] [] []), Ev.op (mk 6 .all [] [] [])]
    _ (mk 4 .dm [0, 1] [0] [1]) (mk 2 .cp [1, 2] [1] [2]) rfl
    ⟨by simp [mk], 1, Or.inl ⟨by simp [mk], Or.inl (by simp [mk])⟩⟩
  simp at this

/-- D5: the walk of the pinned commit (`fixed = false`) clears the whole pending list at the barrier it places
inside the `scf.if`; the path that skips the branch reaches the second consumer without a barrier. -/
theorem C13_unfixed_if_fails :
    ¬ (∀ p, WF p → SsaVisible p → BackEdgeSiblings p → ∀ t, Run (insertBarriers false p) t →
        NoGlobalBeforeSingleCoreWrite t → Separated t) := by
  intro h
  have hrun : Run (insertBarriers false pIf) _ :=
    run_leaf (l := mk 1 .dm [0, 1] [0] [1])
      (run_ifE (l := mk 2 .all [4] [] [])
        (a := .sync (.leaf (mk 3 .cp [1, 2] [1] [2]) (.leaf (mk 4 .all [] [] []) .nil)))
        run_nil (run_leaf (l := mk 5 .cp [1, 2] [1] [2]) run_nil))
  have hs := h pIf ⟨by decide, by simp [pIf, CompoundAll, mk]⟩
    (by
      intro l hl b hb
      simp [pIf, leavesB, mk] at hl
      rcases hl with rfl | rfl | rfl | rfl | rfl <;> simp at hb ⊢ <;> omega)
    (fun x _ u _ _ => by simp [pIf, LoopOK])
    _ hrun
    (by
      intro a m c e1 e2 ht hall hc
      exfalso
      have hm : Ev.op e1 ∈ [Ev.op (mk 1 .dm [0, 1] [0] [1]), Ev.op (mk 2 .all [4] [] []),
          Ev.op (mk 5 .cp [1, 2] [1] [2])] := by
        simp only [List.nil_append] at ht; rw [ht]; simp
      simp only [List.mem_cons, Ev.op.injEq, List.not_mem_nil, or_false] at hm
      rcases hm with rfl | rfl | rfl
      · simp [mk] at hall
      · revert hc; simp [Conflict, mk]
      · simp [mk] at hall)
  have := hs [] [Ev.op (mk 2 .all [4] [] [])] [] (mk 1 .dm [0, 1] [0] [1]) (mk 5 .cp [1, 2] [1] [2]) rfl
    ⟨by simp [mk], 1, Or.inl ⟨by simp [mk], Or.inl (by simp [mk])⟩⟩
  simp at this

/-- with F17 the same function gets its second barrier (after the `scf.if`) -/
example : insertBarriers true pIf =
    .leaf (mk 1 .dm [0, 1] [0] [1])
      (.ifO (mk 2 .all [4] [] []) (.sync (.leaf (mk 3 .cp [1, 2] [1] [2]) (.leaf (mk 4 .all [] [] []) .nil))) .nil
        (.sync (.leaf (mk 5 .cp [1, 2] [1] [2]) .nil))) := by decide

/-! ## non-vacuity -/

/-- `for { copy %0 -> %1 ; generic ins(%1) outs(%2) } ; return` -/
def pLoop : Blk :=
  .forO (mk 1 .all [5, 6, 7] [] [])
    (.leaf (mk 2 .dm [0, 1] [0] [1]) (.leaf (mk 3 .cp [1, 2] [1] [2]) .nil)) false (mk 4 .all [] [] [])
    (.leaf (mk 5 .all [] [] []) .nil)

/-- the hypotheses of `C13_structured_partial` are met by a loop with a loop-carried cross-core dependency;
the pass puts a barrier between producer and consumer and one in front of the yield -/
example : WF pLoop ∧ SsaVisible pLoop ∧ BackEdgeSiblings pLoop ∧
    insertBarriers true pLoop = .forO (mk 1 .all [5, 6, 7] [] [])
      (.leaf (mk 2 .dm [0, 1] [0] [1]) (.sync (.leaf (mk 3 .cp [1, 2] [1] [2]) .nil))) true (mk 4 .all [] [] [])
      (.leaf (mk 5 .all [] [] []) .nil) ∧
    ∃ t, Run (insertBarriers true pLoop) t ∧ NoGlobalBeforeSingleCoreWrite t ∧ 10 ≤ t.length := by
  have hbody : Run (.leaf (mk 2 .dm [0, 1] [0] [1]) (.sync (.leaf (mk 3 .cp [1, 2] [1] [2]) .nil))) _ :=
    run_leaf (run_sync (run_leaf run_nil))
  have hrun : Run (insertBarriers true pLoop) _ :=
    run_for2 (l := mk 1 .all [5, 6, 7] [] []) (y := mk 4 .all [] [] []) (ys := true) hbody hbody
      (run_leaf (l := mk 5 .all [] [] []) run_nil)
  refine ⟨⟨by decide, by simp [pLoop, CompoundAll, mk]⟩, ?_, ?_, by decide, _, hrun, ?_, by simp [ySync]⟩
  · intro l hl b hb
    simp [pLoop, leavesB, mk] at hl
    rcases hl with rfl | rfl | rfl | rfl | rfl <;> simp at hb ⊢ <;> omega
  · intro x hx u hu hd
    simp [pLoop, leavesB] at hx hu
    rcases hx with rfl | rfl | rfl | rfl | rfl <;> rcases hu with rfl | rfl | rfl | rfl | rfl <;>
      first
        | (exfalso; revert hd; simp [Dep, mk]; done)
        | simp [pLoop, LoopOK, SibLoop, kidL, leavesB, mk]
  · exact no_global_of_inert _ _ hrun (by
      intro l hl hall
      simp [pLoop, leavesB, mk] at hl
      rcases hl with rfl | rfl | rfl | rfl | rfl <;> simp at hall ⊢)

/-- straight-line instance: producer on the DMA core, consumer on the compute core -/
example : (idsB (Blk.leaf (mk 1 .dm [0, 1] [0] [1]) (.leaf (mk 2 .cp [1, 2] [1] [2]) .nil))).Nodup ∧
    StraightLine (Blk.leaf (mk 1 .dm [0, 1] [0] [1]) (.leaf (mk 2 .cp [1, 2] [1] [2]) .nil)) ∧
    insertBarriers true (Blk.leaf (mk 1 .dm [0, 1] [0] [1]) (.leaf (mk 2 .cp [1, 2] [1] [2]) .nil)) =
      .leaf (mk 1 .dm [0, 1] [0] [1]) (.sync (.leaf (mk 2 .cp [1, 2] [1] [2]) .nil)) := by
  refine ⟨by decide, by simp [StraightLine], by decide⟩

/-- epochs of a separated execution; two schedules of a conflict-free epoch -/
example : epochs [Ev.op (mk 1 .dm [0, 1] [0] [1]), Ev.sync, Ev.op (mk 2 .cp [1, 2] [1] [2])] =
    [[mk 1 .dm [0, 1] [0] [1]], [mk 2 .cp [1, 2] [1] [2]]] := by decide

example : IsSchedule [mk 1 .dm [0, 1] [0] [1], mk 2 .cp [2, 3] [2] [3]]
      [(Core.dmc, mk 1 .dm [0, 1] [0] [1]), (Core.cpc, mk 2 .cp [2, 3] [2] [3])] ∧
    IsSchedule [mk 1 .dm [0, 1] [0] [1], mk 2 .cp [2, 3] [2] [3]]
      [(Core.cpc, mk 2 .cp [2, 3] [2] [3]), (Core.dmc, mk 1 .dm [0, 1] [0] [1])] := by
  constructor <;> intro c <;> cases c <;> simp [execs, mk]

/-- the compute core's view of a dispatched loop keeps both barriers -/
example : (proj Core.cpc [Ev.op (mk 2 .dm [0, 1] [0] [1]), Ev.sync, Ev.op (mk 3 .cp [1, 2] [1] [2]), Ev.sync]).filter isSync
    = [Ev.sync, Ev.sync] := by decide

/-! ## `snax-to-func`: the barriers in the code that runs

The pass replaces every `snax.cluster_sync_op` by one `func.call @snax_cluster_hw_barrier` at the same position
(the constructor `sync` stands for both) and erases every `memref.dealloc` (`lowerB`). -/

/-- Generic: erasing operations that are not barriers (any choice `keep` of what stays) keeps every
barrier separation of an execution. -/
theorem erase_keeps_separation (keep : Leaf → Bool) (t : List Ev) (h : Separated t) :
    Separated (t.filter (fun e => match e with | .sync => true | .op l => keep l)) :=
  separated_filter keep t h

/-- Every execution of the lowered code is an execution of the code before `snax-to-func` (same branch outcomes,
same trip counts) with the deallocs erased and every barrier kept; if that execution was barrier-separated, so is
the lowered one. -/
theorem snax_to_func_preserves (q : Blk) (hk : CompoundKept q) (t' : List Ev) (hr : Run (lowerB q) t') :
    ∃ t, Run q t ∧ t' = lowerT t ∧ (Separated t → Separated t') := by
  obtain ⟨t, h1, h2⟩ := lower_run q t' hk hr
  exact ⟨t, h1, h2, fun hs => h2 ▸ separated_lowerT t hs⟩

/-- `insert-sync-barrier` followed by `snax-to-func`: the code that runs is barrier-separated on every path. -/
theorem C13_lowered_partial (p : Blk) (hwf : WF p) (hk : CompoundKept p) (hssa : SsaVisible p)
    (hbe : BackEdgeSiblings p)
    (hg : ∀ t, Run (insertBarriers true p) t → NoGlobalBeforeSingleCoreWrite t)
    (t' : List Ev) (hr : Run (lowerB (insertBarriers true p)) t') : Separated t' := by
  obtain ⟨t, h1, _, h3⟩ := snax_to_func_preserves (insertBarriers true p)
    (walk_compoundKept true _ p _ _ hk) t' hr
  exact h3 (C13_structured_partial p hwf hssa hbe t h1 (hg t h1))

/-- producer on the DMA core, consumer on the compute core, the buffer freed, the result copied out:
`copy %0 -> %4 ; generic ins(%4) outs(%2) ; dealloc %4 ; copy %2 -> %3` -/
def pDealloc : Blk :=
  .leaf (mk 1 .dm [0, 4] [0] [4]) (.leaf (mk 2 .cp [2, 4] [4] [2])
    (.leaf { id := 3, cls := .all, vals := [4], reads := [], writes := [4], dealloc := true }
      (.leaf (mk 4 .dm [2, 3] [2] [3]) .nil)))

/-- the barrier that `insert-sync-barrier` places in front of the dealloc is the only one between the compute
operation and the copy-out; the lowering erases the dealloc and keeps that barrier -/
example : lowerB (insertBarriers true pDealloc) =
    .leaf (mk 1 .dm [0, 4] [0] [4]) (.sync (.leaf (mk 2 .cp [2, 4] [4] [2])
      (.sync (.leaf (mk 4 .dm [2, 3] [2] [3]) .nil)))) ∧ CompoundKept pDealloc ∧ (idsB pDealloc).Nodup := by
  refine ⟨by decide, by simp [pDealloc, CompoundKept], by decide⟩

example : lowerT [Ev.op (mk 1 .dm [0, 4] [0] [4]), Ev.sync,
      Ev.op { id := 3, cls := .all, vals := [4], reads := [], writes := [4], dealloc := true }, Ev.sync] =
    [Ev.op (mk 1 .dm [0, 4] [0] [4]), Ev.sync, Ev.sync] := by decide

end SnaxVerif.C13
