import SnaxVerif.Lemmas.Cores
import SnaxVerif.Lemmas.CoreSched
import SnaxVerif.Lemmas.CoresModule
import SnaxVerif.Lemmas.CoresDispatch
import SnaxVerif.Props.C14
/-!
C13 — cross-core dependencies are separated by a cluster barrier.

The walk modelled is `InsertSyncBarrier.apply` WITH
`fixes/F17-sync-barrier-reached-through.diff` (D5), `fixes/FC13a-sync-barrier-common-loop.diff` (DC13a) and
`fixes/FC13b-sync-barrier-views.diff` (D6): `insertBarriers Fix.all rt`, `rt` = the root of an SSA value under the
view-like operations. `Fix.f17` with `rt = id` is the tree with F17 only, `Fix.orig` the pinned commit.
-/
namespace SnaxVerif.C13
open SnaxVerif.Cores

/-- well-formed IR: operation ids identify operations; `scf.if`, `scf.for`, `scf.yield` run on all cores -/
def WF (p : Blk) : Prop := (idsB p).Nodup ∧ CompoundAll p

/-- clause: every buffer an operation touches is the root of one of its own SSA operands/results, i.e. it is
reached through a chain of the view-like operations the pass follows (`rt`), not through any other aliasing
(block arguments, iter_args, calls). -/
def RootVisible (rt : Nat → Nat) (p : Blk) : Prop :=
  ∀ l ∈ leavesB p, ∀ b, (b ∈ l.reads ∨ b ∈ l.writes) → ∃ v ∈ l.vals, rt v = b

/-- the special case without views (the clause of the earlier rounds): the buffer IS an operand/result -/
def SsaVisible (p : Blk) : Prop :=
  ∀ l ∈ leavesB p, ∀ b, (b ∈ l.reads ∨ b ∈ l.writes) → b ∈ l.vals

theorem ssaVisible_rootVisible (p : Blk) (h : SsaVisible p) : RootVisible id p :=
  fun l hl b hb => ⟨b, h l hl b hb, rfl⟩

/-- clause (D30), on the execution: no all-cores operation is followed, without a barrier, by a conflicting
single-core operation -/
def NoGlobalBeforeSingleCoreWrite (t : List Ev) : Prop :=
  ∀ a m c e1 e2, t = a ++ Ev.op e1 :: (m ++ Ev.op e2 :: c) → e1.cls = Cls.all → Conflict e1 e2 → Ev.sync ∈ m

/-- static sufficient condition for the D30 clause: operations that run on all cores touch no buffer -/
def GlobalsInert (p : Blk) : Prop :=
  ∀ l ∈ leavesB p, l.cls = Cls.all → l.reads = [] ∧ l.writes = []

/-- THE PROPERTY, full strength: after the pass, on every execution path (all branch outcomes, all trip
counts) every conflicting pair of operations of different core sets has a barrier in between. -/
def C13_statement : Prop :=
  ∀ p rt eff, WF p → CompoundOK eff p → ∀ t, Run (insertBarriers Fix.all rt eff p) t → Separated t

/-- Nested `scf.if` / `scf.for` at any depth, every branch outcome and trip count, every back edge, accesses through
any chain of views: no clause about loops (FC13a) and none about views the pass follows (FC13b) any more. -/
theorem C13_structured_partial (p : Blk) (rt : Nat → Nat) (eff : Nat → List Nat) (hwf : WF p)
    (hce : CompoundOK eff p) (hrv : RootVisible rt p)
    (t : List Ev) (hr : Run (insertBarriers Fix.all rt eff p) t) (hg : NoGlobalBeforeSingleCoreWrite t) :
    Separated t := by
  intro a m c e1 e2 ht hc
  by_cases hall : e1.cls = Cls.all
  · exact hg a m c e1 e2 ht hall hc
  · have h1 : e1 ∈ leavesB p := run_mem _ _ _ _ _ _ _ _ _ hr (by rw [ht]; simp)
    have h2 : e2 ∈ leavesB p := run_mem _ _ _ _ _ _ _ _ _ hr (by rw [ht]; simp)
    have hd : Dep rt eff e1 e2 := by
      obtain ⟨hne, x, hx⟩ := hc
      refine Or.inl ⟨?_, ?_⟩
      · cases h : e1.cls with
        | dm => exact Or.inl ⟨rfl, fun h' => hne (by rw [h, h'])⟩
        | cp => exact Or.inr ⟨rfl, fun h' => hne (by rw [h, h'])⟩
        | all => exact absurd h hall
      · rcases hx with ⟨hw, hrw⟩ | ⟨hr1, hw2⟩
        · obtain ⟨v, hv, ev⟩ := hrv e1 h1 x (Or.inr hw)
          obtain ⟨w, hw', ew⟩ := hrv e2 h2 x (hrw.imp id id)
          exact ⟨v, w, hv, hw', by rw [ev, ew]⟩
        · obtain ⟨v, hv, ev⟩ := hrv e1 h1 x (Or.inl hr1)
          obtain ⟨w, hw', ew⟩ := hrv e2 h2 x (Or.inr hw2)
          exact ⟨v, w, hv, hw', by rw [ev, ew]⟩
    exact from_single (leavesB p) rt eff e1 e2 hd h2 p (topCtx p) [] t a m c hwf.1 hce hr ht

/-- Straight-line code. -/
theorem C13_straightline_partial (p : Blk) (rt : Nat → Nat) (hnd : (idsB p).Nodup) (hsl : StraightLine p)
    (hrv : RootVisible rt p)
    (t : List Ev) (hr : Run (insertBarriers Fix.all rt (fun _ => []) p) t) (hg : NoGlobalBeforeSingleCoreWrite t) :
    Separated t :=
  C13_structured_partial p rt _ ⟨hnd, straight_compoundAll p hsl⟩ (compoundOK_of_all p (straight_compoundAll p hsl))
    hrv t hr hg

theorem no_global_of_inert (fx : Fix) (rt : Nat → Nat) (eff : Nat → List Nat) (p : Blk) (t : List Ev)
    (hr : Run (insertBarriers fx rt eff p) t)
    (h : GlobalsInert p) : NoGlobalBeforeSingleCoreWrite t := by
  intro a m c e1 e2 ht hall hc
  have h1 : e1 ∈ leavesB p := run_mem _ _ _ _ _ _ _ _ _ hr (by rw [ht]; simp)
  obtain ⟨hr1, hw1⟩ := h e1 h1 hall
  obtain ⟨_, x, hx⟩ := hc
  rw [hr1, hw1] at hx
  simp at hx

/-- The D30 clause discharged statically: when the operations that run on all cores touch no buffer, every execution
of the pass output is barrier-separated (no hypothesis about the execution left). -/
theorem C13_inert_globals_partial (p : Blk) (rt : Nat → Nat) (hwf : WF p) (hrv : RootVisible rt p)
    (hin : GlobalsInert p) (t : List Ev) (hr : Run (insertBarriers Fix.all rt (fun _ => []) p) t) : Separated t :=
  C13_structured_partial p rt _ hwf (compoundOK_of_all p hwf.2) hrv t hr (no_global_of_inert _ rt _ p t hr hin)

/-- clause of the repaired walk (FC13c): every buffer an all-cores operation touches is reached through one of the
operands the pass treats as accessed (`eff`: the operation is not side-effect free, has no regions, is not view-like) -/
def GlobalsDeclared (rt : Nat → Nat) (eff : Nat → List Nat) (p : Blk) : Prop :=
  ∀ l ∈ leavesB p, l.cls = Cls.all → ∀ b, (b ∈ l.reads ∨ b ∈ l.writes) → ∃ v ∈ eff l.id, rt v = b

/-- The walk WITH the proposed repair FC13c (all-cores operations that access memory make their later single-core
users pending): the D30 clause is gone - every execution is barrier-separated, whichever kind of operation a
dependency starts at. `eff = fun _ => []` is the code as it is: then `GlobalsDeclared` says all-cores operations
touch nothing (`C13_inert_globals_partial`). -/
theorem C13_declared_globals_partial (p : Blk) (rt : Nat → Nat) (eff : Nat → List Nat) (hwf : WF p)
    (hce : CompoundOK eff p) (hrv : RootVisible rt p) (hgd : GlobalsDeclared rt eff p)
    (t : List Ev) (hr : Run (insertBarriers Fix.all rt eff p) t) : Separated t :=
  C13_structured_partial p rt eff hwf hce hrv t hr (fun a m c g1 g2 ht hg1 hc => by
    -- a dependency that starts at an all-cores operation: recorded by the repaired walk
    have h1 : g1 ∈ leavesB p := run_mem _ _ _ _ _ _ _ _ _ hr (by rw [ht]; simp)
    have h2 : g2 ∈ leavesB p := run_mem _ _ _ _ _ _ _ _ _ hr (by rw [ht]; simp)
    have hd : Dep rt eff g1 g2 := by
      obtain ⟨hne, x, hx⟩ := hc
      refine Or.inr ⟨hg1, fun h' => hne (by rw [hg1, h']), ?_⟩
      rcases hx with ⟨hw, hrw⟩ | ⟨hr1, hw2⟩
      · obtain ⟨v, hv, ev⟩ := hgd g1 h1 hg1 x (Or.inr hw)
        obtain ⟨w, hw', ew⟩ := hrv g2 h2 x (hrw.imp id id)
        exact ⟨v, w, hv, hw', by rw [ev, ew]⟩
      · obtain ⟨v, hv, ev⟩ := hgd g1 h1 hg1 x (Or.inl hr1)
        obtain ⟨w, hw', ew⟩ := hrv g2 h2 x (Or.inr hw2)
        exact ⟨v, w, hv, hw', by rw [ev, ew]⟩
    exact from_single (leavesB p) rt eff g1 g2 hd h2 p (topCtx p) [] t a m c hwf.1 hce hr ht)

/-- Generic: in a barrier-separated execution no epoch holds two conflicting operations. -/
theorem epoch_race_free (t : List Ev) (h : Separated t) :
    ∀ ep ∈ epochs t, ∀ a m c e1 e2, ep = a ++ e1 :: (m ++ e2 :: c) → ¬ Conflict e1 e2 :=
  epoch_no_conflict t h

/-- Generic: a conflict-free epoch (all-cores operations not writing) leaves the same memory under every
schedule of the cores. -/
theorem race_free_deterministic (ep : List Leaf)
    (hfree : ∀ a m c e1 e2, ep = a ++ e1 :: (m ++ e2 :: c) → ¬ Conflict e1 e2 ∧ ¬ Conflict e2 e1)
    (hro : ∀ l ∈ ep, l.cls = Cls.all → l.writes = [])
    (s1 s2 : List (Core × Leaf)) (h1 : IsSchedule ep s1) (h2 : IsSchedule ep s2) :
    ∀ m, execS s1 m = execS s2 m :=
  epoch_schedule_deterministic ep hfree hro s1 s2 h1 h2

/-- Every core follows the same path through its dispatched copy of the function and meets exactly the
barriers of that path, in the same order: barrier k of one core is barrier k of every other core. -/
theorem barriers_on_all_cores (p : Blk) (hc : CompoundAll p) (t : List Ev) (hr : Run p t) (c : Core) :
    Run (perCore c p) (proj c t) ∧ (proj c t).filter isSync = t.filter isSync :=
  ⟨perCore_run c p t hc hr, proj_syncs c t⟩

/-! ## concrete witnesses -/

def mk (id : Nat) (cls : Cls) (vals reads writes : List Nat) : Leaf :=
  { id := id, cls := cls, vals := vals, reads := reads, writes := writes, dealloc := false }

/-- D6: `%1 = subview %0 ; generic ins(%2) outs(%1) ; copy %0 -> %3` -/
def pAlias : Blk :=
  .leaf (mk 1 .all [0, 1] [] []) (.leaf (mk 2 .cp [1, 2] [2] [0]) (.leaf (mk 3 .dm [0, 3] [0] [3]) .nil))

/-- D30: `test.op(%0)` on all cores, then `copy %1 -> %0` -/
def pGlobal : Blk := .leaf (mk 1 .all [0] [0] []) (.leaf (mk 2 .dm [0, 1] [1] [0]) .nil)

/-- DC13a: `for { generic ins(%1) outs(%2) ; if { copy %0 -> %1 } }` -/
def pBackEdge : Blk :=
  .forO (mk 1 .all [5, 6, 7] [] []) (.leaf (mk 2 .cp [1, 2] [1] [2])
    (.ifO (mk 3 .all [4] [] []) (.leaf (mk 4 .dm [0, 1] [0] [1]) (.leaf (mk 5 .all [] [] []) .nil)) .nil .nil))
    false (mk 6 .all [] [] []) .nil

/-- D5: `copy %0 -> %1 ; if { generic ins(%1) outs(%2) } ; generic ins(%1) outs(%2)` -/
def pIf : Blk :=
  .leaf (mk 1 .dm [0, 1] [0] [1])
    (.ifO (mk 2 .all [4] [] []) (.leaf (mk 3 .cp [1, 2] [1] [2]) (.leaf (mk 4 .all [] [] []) .nil)) .nil
      (.leaf (mk 5 .cp [1, 2] [1] [2]) .nil))

theorem C13_alias_fails :
    ¬ (∀ p rt, WF p → ∀ t, Run (insertBarriers Fix.all rt (fun _ => []) p) t →
        NoGlobalBeforeSingleCoreWrite t → Separated t) := by
  intro h
  have hrun : Run (insertBarriers Fix.all id (fun _ => []) pAlias)
      [Ev.op (mk 1 .all [0, 1] [] []), Ev.op (mk 2 .cp [1, 2] [2] [0]), Ev.op (mk 3 .dm [0, 3] [0] [3])] :=
    run_leaf (run_leaf (run_leaf run_nil))
  have hs := h pAlias id ⟨by decide, by simp [pAlias, CompoundAll]⟩ _ hrun
    (by
      intro a m c e1 e2 ht hall hc
      exfalso
      have hm : Ev.op e1 ∈ [Ev.op (mk 1 .all [0, 1] [] []), Ev.op (mk 2 .cp [1, 2] [2] [0]),
          Ev.op (mk 3 .dm [0, 3] [0] [3])] := by rw [ht]; simp
      simp only [List.mem_cons, Ev.op.injEq, List.not_mem_nil, or_false] at hm
      rcases hm with rfl | rfl | rfl
      · revert hc; simp [Conflict, mk]
      · simp [mk] at hall
      · simp [mk] at hall)
  have := hs [Ev.op (mk 1 .all [0, 1] [] [])] [] [] (mk 2 .cp [1, 2] [2] [0]) (mk 3 .dm [0, 3] [0] [3]) rfl
    ⟨by simp [mk], 0, Or.inl ⟨by simp [mk], Or.inl (by simp [mk])⟩⟩
  simp at this

theorem C13_global_first_fails :
    ¬ (∀ p rt, WF p → RootVisible rt p → ∀ t, Run (insertBarriers Fix.all rt (fun _ => []) p) t → Separated t) := by
  intro h
  have hrun : Run (insertBarriers Fix.all id (fun _ => []) pGlobal)
      [Ev.op (mk 1 .all [0] [0] []), Ev.op (mk 2 .dm [0, 1] [1] [0])] :=
    run_leaf (run_leaf run_nil)
  have hs := h pGlobal id ⟨by decide, by simp [pGlobal, CompoundAll]⟩
    (ssaVisible_rootVisible _ (by
      intro l hl b hb; simp [pGlobal, leavesB, mk] at hl; rcases hl with rfl | rfl <;> simp at hb ⊢ <;> omega))
    _ hrun
  have := hs [] [] [] (mk 1 .all [0] [0] []) (mk 2 .dm [0, 1] [1] [0]) rfl
    ⟨by simp [mk], 0, Or.inr ⟨by simp [mk], by simp [mk]⟩⟩
  simp at this


/-- DC13a: the walk without FC13a (`Fix.f17`) only makes the yield pending for two direct children of one loop. -/
theorem C13_f17_backedge_fails :
    ¬ (∀ p, WF p → SsaVisible p → ∀ t, Run (insertBarriers Fix.f17 id (fun _ => []) p) t →
        NoGlobalBeforeSingleCoreWrite t → Separated t) := by
  intro h
  have hbody : Run (.leaf (mk 2 .cp [1, 2] [1] [2]) (.ifO (mk 3 .all [4] [] [])
      (.sync (.leaf (mk 4 .dm [0, 1] [0] [1]) (.leaf (mk 5 .all [] [] []) .nil))) .nil .nil)) _ :=
    run_leaf (run_ifT (run_sync (run_leaf (run_leaf run_nil))) run_nil)
  have hrun : Run (insertBarriers Fix.f17 id (fun _ => []) pBackEdge) _ :=
    run_for2 (l := mk 1 .all [5, 6, 7] [] []) (y := mk 6 .all [] [] []) (ys := false) hbody hbody run_nil
  have hs := h pBackEdge ⟨by decide, by simp [pBackEdge, CompoundAll, mk]⟩
    (by
      intro l hl b hb
      simp [pBackEdge, leavesB, mk] at hl
      rcases hl with rfl | rfl | rfl | rfl | rfl | rfl <;> simp at hb ⊢ <;> omega)
    _ hrun
    (no_global_of_inert _ _ _ _ _ hrun (by
      intro l hl hall
      simp [pBackEdge, leavesB, mk] at hl
      rcases hl with rfl | rfl | rfl | rfl | rfl | rfl <;> simp at hall ⊢))
  have := hs [Ev.op (mk 1 .all [5, 6, 7] [] []), Ev.op (mk 2 .cp [1, 2] [1] [2]), Ev.op (mk 3 .all [4] [] []), Ev.sync]
    [Ev.op (mk 5 .all [] [] []), Ev.op (mk 6 .all [] [] [])]
    _ (mk 4 .dm [0, 1] [0] [1]) (mk 2 .cp [1, 2] [1] [2]) rfl
    ⟨by simp [mk], 1, Or.inl ⟨by simp [mk], Or.inl (by simp [mk])⟩⟩
  simp at this

/-- D5: the walk of the pinned commit (`Fix.orig`) clears the whole pending list at the barrier it places
inside the `scf.if`; the path that skips the branch reaches the second consumer without a barrier. -/
theorem C13_unfixed_if_fails :
    ¬ (∀ p, WF p → SsaVisible p → ∀ t, Run (insertBarriers Fix.orig id (fun _ => []) p) t →
        NoGlobalBeforeSingleCoreWrite t → Separated t) := by
  intro h
  have hrun : Run (insertBarriers Fix.orig id (fun _ => []) pIf) _ :=
    run_leaf (l := mk 1 .dm [0, 1] [0] [1])
      (run_ifE (l := mk 2 .all [4] [] [])
        (a := .sync (.leaf (mk 3 .cp [1, 2] [1] [2]) (.leaf (mk 4 .all [] [] []) .nil)))
        run_nil (run_leaf (l := mk 5 .cp [1, 2] [1] [2]) run_nil))
  have hs := h pIf ⟨by decide, by simp [pIf, CompoundAll, mk]⟩
    (by
      intro l hl b hb
      simp [pIf, leavesB, mk] at hl
      rcases hl with rfl | rfl | rfl | rfl | rfl <;> simp at hb ⊢ <;> omega)
    _ hrun
    (by
      intro a m c e1 e2 ht hall hc
      exfalso
      have hm : Ev.op e1 ∈ [Ev.op (mk 1 .dm [0, 1] [0] [1]), Ev.op (mk 2 .all [4] [] []),
          Ev.op (mk 5 .cp [1, 2] [1] [2])] := by
        simp only [List.nil_append] at ht; rw [ht]; simp
      simp only [List.mem_cons, Ev.op.injEq, List.not_mem_nil, or_false] at hm
      rcases hm with rfl | rfl | rfl
      · simp [mk] at hall
      · revert hc; simp [Conflict, mk]
      · simp [mk] at hall)
  have := hs [] [Ev.op (mk 2 .all [4] [] [])] [] (mk 1 .dm [0, 1] [0] [1]) (mk 5 .cp [1, 2] [1] [2]) rfl
    ⟨by simp [mk], 1, Or.inl ⟨by simp [mk], Or.inl (by simp [mk])⟩⟩
  simp at this

/-- with F17 the same function gets its second barrier (after the `scf.if`) -/
example : insertBarriers Fix.f17 id (fun _ => []) pIf =
    .leaf (mk 1 .dm [0, 1] [0] [1])
      (.ifO (mk 2 .all [4] [] []) (.sync (.leaf (mk 3 .cp [1, 2] [1] [2]) (.leaf (mk 4 .all [] [] []) .nil))) .nil
        (.sync (.leaf (mk 5 .cp [1, 2] [1] [2]) .nil))) := by decide

/-- with FC13a the DC13a witness gets the barrier in front of the loop's yield -/
example : insertBarriers Fix.all id (fun _ => []) pBackEdge =
    .forO (mk 1 .all [5, 6, 7] [] []) (.leaf (mk 2 .cp [1, 2] [1] [2])
      (.ifO (mk 3 .all [4] [] []) (.sync (.leaf (mk 4 .dm [0, 1] [0] [1]) (.leaf (mk 5 .all [] [] []) .nil))) .nil .nil))
      true (mk 6 .all [] [] []) .nil := by decide

/-- with FC13b (`rt` = root under the view `%1 = subview %0`) the D6 witness gets its barrier, and the program
meets `RootVisible` although it is not `SsaVisible` -/
example : insertBarriers Fix.all (rootOf [(1, 0)] 1) (fun _ => []) pAlias =
    .leaf (mk 1 .all [0, 1] [] []) (.leaf (mk 2 .cp [1, 2] [2] [0]) (.sync (.leaf (mk 3 .dm [0, 3] [0] [3]) .nil))) ∧
    RootVisible (rootOf [(1, 0)] 1) pAlias ∧ ¬ SsaVisible pAlias := by
  refine ⟨by decide, ?_, ?_⟩
  · intro l hl b hb
    simp [pAlias, leavesB, mk] at hl
    rcases hl with rfl | rfl | rfl <;> simp at hb ⊢
    · rcases hb with rfl | rfl
      · exact Or.inr (by decide)
      · exact Or.inl (by decide)
    · rcases hb with rfl | rfl
      · exact Or.inl (by decide)
      · exact Or.inr (by decide)
  · intro h
    have := h (mk 2 .cp [1, 2] [2] [0]) (by simp [pAlias, leavesB]) 0 (Or.inr (by simp [mk]))
    simp [mk] at this

/-- with the proposed repair FC13c (`test.op(%0)` declared as accessing `%0`) the D30 witness gets its barrier, and
`pGlobal` meets `GlobalsDeclared` -/
example : insertBarriers Fix.all id (fun i => if i = 1 then [0] else []) pGlobal =
    .leaf (mk 1 .all [0] [0] []) (.sync (.leaf (mk 2 .dm [0, 1] [1] [0]) .nil)) ∧
    GlobalsDeclared id (fun i => if i = 1 then [0] else []) pGlobal := by
  refine ⟨by decide, ?_⟩
  intro l hl hall b hb
  simp [pGlobal, leavesB, mk] at hl
  rcases hl with rfl | rfl
  · simp at hb ⊢; exact hb.symm
  · simp at hall

/-! ## non-vacuity -/

/-- `for { copy %0 -> %1 ; generic ins(%1) outs(%2) } ; return` -/
def pLoop : Blk :=
  .forO (mk 1 .all [5, 6, 7] [] [])
    (.leaf (mk 2 .dm [0, 1] [0] [1]) (.leaf (mk 3 .cp [1, 2] [1] [2]) .nil)) false (mk 4 .all [] [] [])
    (.leaf (mk 5 .all [] [] []) .nil)

/-- the hypotheses of `C13_structured_partial` are met by a loop with a loop-carried cross-core dependency;
the pass puts a barrier between producer and consumer and one in front of the yield -/
example : WF pLoop ∧ RootVisible id pLoop ∧ GlobalsInert pLoop ∧
    insertBarriers Fix.all id (fun _ => []) pLoop = .forO (mk 1 .all [5, 6, 7] [] [])
      (.leaf (mk 2 .dm [0, 1] [0] [1]) (.sync (.leaf (mk 3 .cp [1, 2] [1] [2]) .nil))) true (mk 4 .all [] [] [])
      (.leaf (mk 5 .all [] [] []) .nil) ∧
    ∃ t, Run (insertBarriers Fix.all id (fun _ => []) pLoop) t ∧ NoGlobalBeforeSingleCoreWrite t ∧ 10 ≤ t.length := by
  have hbody : Run (.leaf (mk 2 .dm [0, 1] [0] [1]) (.sync (.leaf (mk 3 .cp [1, 2] [1] [2]) .nil))) _ :=
    run_leaf (run_sync (run_leaf run_nil))
  have hrun : Run (insertBarriers Fix.all id (fun _ => []) pLoop) _ :=
    run_for2 (l := mk 1 .all [5, 6, 7] [] []) (y := mk 4 .all [] [] []) (ys := true) hbody hbody
      (run_leaf (l := mk 5 .all [] [] []) run_nil)
  have hin : GlobalsInert pLoop := by
    intro l hl hall
    simp [pLoop, leavesB, mk] at hl
    rcases hl with rfl | rfl | rfl | rfl | rfl <;> simp at hall ⊢
  refine ⟨⟨by decide, by simp [pLoop, CompoundAll, mk]⟩, ssaVisible_rootVisible _ ?_, hin, by decide, _, hrun,
    no_global_of_inert _ _ _ _ _ hrun hin, by simp [ySync]⟩
  intro l hl b hb
  simp [pLoop, leavesB, mk] at hl
  rcases hl with rfl | rfl | rfl | rfl | rfl <;> simp at hb ⊢ <;> omega

/-- straight-line instance: producer on the DMA core, consumer on the compute core -/
example : (idsB (Blk.leaf (mk 1 .dm [0, 1] [0] [1]) (.leaf (mk 2 .cp [1, 2] [1] [2]) .nil))).Nodup ∧
    StraightLine (Blk.leaf (mk 1 .dm [0, 1] [0] [1]) (.leaf (mk 2 .cp [1, 2] [1] [2]) .nil)) ∧
    insertBarriers Fix.all id (fun _ => []) (Blk.leaf (mk 1 .dm [0, 1] [0] [1]) (.leaf (mk 2 .cp [1, 2] [1] [2]) .nil)) =
      .leaf (mk 1 .dm [0, 1] [0] [1]) (.sync (.leaf (mk 2 .cp [1, 2] [1] [2]) .nil)) := by
  refine ⟨by decide, by simp [StraightLine], by decide⟩

/-- epochs of a separated execution; two schedules of a conflict-free epoch -/
example : epochs [Ev.op (mk 1 .dm [0, 1] [0] [1]), Ev.sync, Ev.op (mk 2 .cp [1, 2] [1] [2])] =
    [[mk 1 .dm [0, 1] [0] [1]], [mk 2 .cp [1, 2] [1] [2]]] := by decide

example : IsSchedule [mk 1 .dm [0, 1] [0] [1], mk 2 .cp [2, 3] [2] [3]]
      [(Core.dmc, mk 1 .dm [0, 1] [0] [1]), (Core.cpc, mk 2 .cp [2, 3] [2] [3])] ∧
    IsSchedule [mk 1 .dm [0, 1] [0] [1], mk 2 .cp [2, 3] [2] [3]]
      [(Core.cpc, mk 2 .cp [2, 3] [2] [3]), (Core.dmc, mk 1 .dm [0, 1] [0] [1])] := by
  constructor <;> intro c <;> cases c <;> simp [execs, mk]

/-- the compute core's view of a dispatched loop keeps both barriers -/
example : (proj Core.cpc [Ev.op (mk 2 .dm [0, 1] [0] [1]), Ev.sync, Ev.op (mk 3 .cp [1, 2] [1] [2]), Ev.sync]).filter isSync
    = [Ev.sync, Ev.sync] := by decide

/-! ## `snax-to-func`: the barriers in the code that runs

The pass replaces every `snax.cluster_sync_op` by one `func.call @snax_cluster_hw_barrier` at the same position
(the constructor `sync` stands for both) and erases every `memref.dealloc` (`lowerB`). -/

/-- Generic: erasing operations that are not barriers (any choice `keep` of what stays) keeps every
barrier separation of an execution. -/
theorem erase_keeps_separation (keep : Leaf → Bool) (t : List Ev) (h : Separated t) :
    Separated (t.filter (fun e => match e with | .sync => true | .op l => keep l)) :=
  separated_filter keep t h

/-- Every execution of the lowered code is an execution of the code before `snax-to-func` (same branch outcomes,
same trip counts) with the deallocs erased and every barrier kept; if that execution was barrier-separated, so is
the lowered one. -/
theorem snax_to_func_preserves (q : Blk) (hk : CompoundKept q) (t' : List Ev) (hr : Run (lowerB q) t') :
    ∃ t, Run q t ∧ t' = lowerT t ∧ (Separated t → Separated t') := by
  obtain ⟨t, h1, h2⟩ := lower_run q t' hk hr
  exact ⟨t, h1, h2, fun hs => h2 ▸ separated_lowerT t hs⟩

/-- `insert-sync-barrier` followed by `snax-to-func`: the code that runs is barrier-separated on every path. -/
theorem C13_lowered_partial (p : Blk) (rt : Nat → Nat) (hwf : WF p) (hk : CompoundKept p) (hrv : RootVisible rt p)
    (hg : ∀ t, Run (insertBarriers Fix.all rt (fun _ => []) p) t → NoGlobalBeforeSingleCoreWrite t)
    (t' : List Ev) (hr : Run (lowerB (insertBarriers Fix.all rt (fun _ => []) p)) t') : Separated t' := by
  obtain ⟨t, h1, _, h3⟩ := snax_to_func_preserves (insertBarriers Fix.all rt (fun _ => []) p)
    (walk_compoundKept Fix.all _ rt _ p _ _ hk) t' hr
  exact h3 (C13_structured_partial p rt _ hwf (compoundOK_of_all p hwf.2) hrv t h1 (hg t h1))

/-- producer on the DMA core, consumer on the compute core, the buffer freed, the result copied out:
`copy %0 -> %4 ; generic ins(%4) outs(%2) ; dealloc %4 ; copy %2 -> %3` -/
def pDealloc : Blk :=
  .leaf (mk 1 .dm [0, 4] [0] [4]) (.leaf (mk 2 .cp [2, 4] [4] [2])
    (.leaf { id := 3, cls := .all, vals := [4], reads := [], writes := [4], dealloc := true }
      (.leaf (mk 4 .dm [2, 3] [2] [3]) .nil)))

/-- the barrier that `insert-sync-barrier` places in front of the dealloc is the only one between the compute
operation and the copy-out; the lowering erases the dealloc and keeps that barrier -/
example : lowerB (insertBarriers Fix.all id (fun _ => []) pDealloc) =
    .leaf (mk 1 .dm [0, 4] [0] [4]) (.sync (.leaf (mk 2 .cp [2, 4] [4] [2])
      (.sync (.leaf (mk 4 .dm [2, 3] [2] [3]) .nil)))) ∧ CompoundKept pDealloc ∧ (idsB pDealloc).Nodup := by
  refine ⟨by decide, by simp [pDealloc, CompoundKept], by decide⟩

example : lowerT [Ev.op (mk 1 .dm [0, 4] [0] [4]), Ev.sync,
      Ev.op { id := 3, cls := .all, vals := [4], reads := [], writes := [4], dealloc := true }, Ev.sync] =
    [Ev.op (mk 1 .dm [0, 4] [0] [4]), Ev.sync, Ev.sync] := by decide

/-! ## `dispatch-regions`: every core executes every barrier

Through the model of the real `dispatch-regions` of property C14 (`SnaxVerif.Dispatch`: the grouping dispatcher, the
`scf.if` guards on `core_id == c`, both phases, every block, any number of cores): an operation that neither rule
dispatches - a barrier (`snax.cluster_sync_op`, later the call of `@snax_cluster_hw_barrier`) in particular - is
never put under a core guard. -/

/-- For every function, every number of cores `nb`, every core, every resolution of the control flow: the
non-dispatched operations (barriers included) that the core executes after `dispatch-regions`, in order, are exactly
those it executes in the function before the pass. No barrier is lost under a guard, none is executed twice, on
any core. -/
theorem barriers_survive_dispatch (r : Bool) (f : Dispatch.Func) (nb core : Nat) (orc : Dispatch.Orc) (fuel entry : Nat)
    (isBarrier : Dispatch.Leaf → Bool)
    (hb : ∀ l, isBarrier l = true → Dispatch.dmOf l = false ∧ Dispatch.cpOf r l = false) :
    (Dispatch.runF core orc (Dispatch.dispatch r true nb f) fuel entry).filter isBarrier =
      (Dispatch.runF core orc f fuel entry).filter isBarrier := by
  rw [SnaxVerif.C14.C14_dispatch r f nb core orc fuel entry, List.filter_filter]
  congr 1
  funext l
  cases h : isBarrier l with
  | false => simp
  | true =>
    obtain ⟨h1, h2⟩ := hb l h
    simp [Dispatch.allowed, h1, h2]

/-- two cores meet the same barriers when they follow the same path through the function before the pass -/
theorem barriers_same_on_all_cores (r : Bool) (f : Dispatch.Func) (nb c1 c2 : Nat) (orc : Dispatch.Orc) (fuel entry : Nat)
    (isBarrier : Dispatch.Leaf → Bool)
    (hb : ∀ l, isBarrier l = true → Dispatch.dmOf l = false ∧ Dispatch.cpOf r l = false)
    (hsame : Dispatch.runF c1 orc f fuel entry = Dispatch.runF c2 orc f fuel entry) :
    (Dispatch.runF c1 orc (Dispatch.dispatch r true nb f) fuel entry).filter isBarrier =
      (Dispatch.runF c2 orc (Dispatch.dispatch r true nb f) fuel entry).filter isBarrier := by
  rw [barriers_survive_dispatch r f nb c1 orc fuel entry isBarrier hb,
    barriers_survive_dispatch r f nb c2 orc fuel entry isBarrier hb, hsame]

/-- a barrier between a copy (DMA core) and a generic (compute core), three cores: every core executes it -/
example :
    let f : Dispatch.Func := ⟨[], [⟨.cons (.leaf ⟨1, .copy, false⟩) (.cons (.leaf ⟨2, .other, false⟩)
      (.cons (.leaf ⟨3, .generic, true⟩) .nil)), .ret⟩]⟩
    ∀ core, core < 3 →
      ((Dispatch.runF core (fun _ _ _ => []) (Dispatch.dispatch false true 3 f) 1 0).filter
        (fun l => l.kind == .other)).map (·.id) = [2] := by
  decide

/-- Unconditional form: a function before `dispatch-regions` has no core guard (`gfB`) and no core-id prelude, so
after the pass EVERY two cores meet exactly the same barriers in the same order, for every number of cores and every
resolution of the control flow - barrier k of one core is barrier k of every other core, no core waits alone. -/
theorem every_core_meets_the_same_barriers (r : Bool) (f : Dispatch.Func) (hpre : f.pre = [])
    (hgf : ∀ bb ∈ f.blocks, Dispatch.gfB bb.body = true) (nb c1 c2 : Nat) (orc : Dispatch.Orc) (fuel entry : Nat)
    (isBarrier : Dispatch.Leaf → Bool)
    (hb : ∀ l, isBarrier l = true → Dispatch.dmOf l = false ∧ Dispatch.cpOf r l = false) :
    (Dispatch.runF c1 orc (Dispatch.dispatch r true nb f) fuel entry).filter isBarrier =
      (Dispatch.runF c2 orc (Dispatch.dispatch r true nb f) fuel entry).filter isBarrier :=
  barriers_same_on_all_cores r f nb c1 c2 orc fuel entry isBarrier hb
    (Dispatch.runF_guard_free f hpre hgf c1 c2 orc fuel entry)

/-! ## modules: the pending list survives from one function to the next

`InsertSyncBarrier.apply` walks the whole module once; `ops_to_sync` is never reset between functions
(`walkModule`). -/

/-- The surviving state is harmless: for a module whose functions have disjoint operations, the one walk over the
module yields for every function exactly what the pass yields for that function alone - so every theorem above
about `insertBarriers` holds for each function of a module, in whatever order the functions appear. -/
theorem C13_module_stateless (fx : Fix) (rt : Nat → Nat) (eff : Nat → List Nat) (fs : List Blk)
    (hdis : fs.Pairwise (fun f g => ∀ z ∈ idsB f, z ∉ idsB g)) :
    walkModule fx rt eff fs [] = fs.map (insertBarriers fx rt eff) :=
  walkModule_independent fx rt eff fs [] hdis (fun _ _ _ h => by simp at h)

/-- the same with anything pending on entry that names no operation of the module (e.g. left over from
declarations or from operations outside any function) -/
theorem C13_module_stateless_pending (fx : Fix) (rt : Nat → Nat) (eff : Nat → List Nat) (fs : List Blk) (P : List Nat)
    (hdis : fs.Pairwise (fun f g => ∀ z ∈ idsB f, z ∉ idsB g)) (hP : ∀ f ∈ fs, ∀ z ∈ P, z ∉ idsB f) :
    walkModule fx rt eff fs P = fs.map (insertBarriers fx rt eff) :=
  walkModule_independent fx rt eff fs P hdis hP

/-- two functions: the first leaves its consumer and its dealloc pending at its end; the second is processed as if
alone (`copy %0 -> %1 ; generic ins(%1) outs(%2)` twice, ids 1-2 and 11-12) -/
example :
    let f := Blk.leaf (mk 1 .dm [0, 1] [0] [1]) (.leaf (mk 2 .cp [1, 2] [1] [2]) .nil)
    let g := Blk.leaf (mk 11 .dm [0, 1] [0] [1]) (.leaf (mk 12 .cp [1, 2] [1] [2]) .nil)
    walkModule Fix.all id (fun _ => []) [f, g] [] =
      [.leaf (mk 1 .dm [0, 1] [0] [1]) (.sync (.leaf (mk 2 .cp [1, 2] [1] [2]) .nil)),
       .leaf (mk 11 .dm [0, 1] [0] [1]) (.sync (.leaf (mk 12 .cp [1, 2] [1] [2]) .nil))] ∧
    (walkB Fix.all (leavesB f) id (fun _ => []) (topCtx f) f []).2 ≠ [] := by
  decide

end SnaxVerif.C13
