import SnaxVerif.Lemmas.DmaDynStrided
/-!
# C05 — DMA lowering of a copy moves every element to its layout position

Statements and theorems only; helper lemmas live in `Lemmas/Dma.lean`, the model in `Model/Dma.lean`.

`expectedMoves el sbase dbase shape nested` is the property's demand: for every logical index of the box `shape` and
every byte `k < el` of the element, the byte at `sbase + (address the source layout assigns) + k` goes to
`dbase + (address the destination layout assigns) + k`.  `DmaProg.moves` is the list of byte moves performed by the
emitted loop nest and `snax_dma_1d/2d_transfer` calls (semantics of `snrt_dma_start_1d/2d`).  A permutation between the
two says: every logical element is moved exactly once to its layout position, only bytes of the source footprint are
read and only bytes of the destination footprint are written.
-/
namespace SnaxVerif.C05
open SnaxVerif.Dma List

/-! ## clauses -/

/-- `EqualTileBounds`: the quantifier's "pairs of layouts with equal tile bounds"; under it the entries' `bound`
(computed from the source only, as in the code) and `dstep` are the destination layout's own resolution. -/
def EqualTileBounds (l : Lowered) : Prop := l.tS.tileBounds = l.tD.tileBounds

/-- `TileDividesShape`: every run-time extent is exactly the product of the resolved tile bounds of its dimension
(static: the TSL tiles the extent; dynamic: the extent is a multiple of the inner tile, else `divui` floors — D32). -/
def TileDividesShape (rs : Rt) (l : Lowered) : Prop := rs.shape = l.nested.map prodB

/-- `LcbStepsStatic`: no member of the reported common block has a dynamic step (`None == None` matching — D40). -/
def LcbStepsStatic (l : Lowered) : Prop := ∀ s ∈ l.lcb, s.step ≠ none

/-- `ByValueDistinct` (only needed for the code BEFORE fix F21): two positions of the source layout carry the same
Stride value with a static step only if both have run-time bound 1 (`stride not in lcb` compared by value — D41). -/
def ByValueDistinctC (l : Lowered) : Prop := ByValueDistinct l.nested.flatten

/-- `ResolutionConsistent`: the run-time values of `get_bound_ops`/`get_step_ops` agree with the static strides where
those are static. Formerly a hypothesis; now PROVED of the model's `resolve` for every input
(`resolution_consistent`). -/
def ResolutionConsistent (el : Nat) (l : Lowered) : Prop := ∀ e ∈ l.nested.flatten, e.Consistent el

/-! ## the property at full strength -/

/-- Full statement for the layout-aware path (`TransformDMA`, with fix F21), over all memref types, layouts and
run-time descriptors on which the pass emits code; the pointers are the descriptor's aligned pointers plus element size
times the layout's offset. FALSE of the code as it is (D32, D40): see the `_fails` theorems. -/
def C05_statement : Prop :=
  ∀ (src dst : MemTy) (rs rd : Rt) (l : Lowered), transformDma false src dst rs rd = .ok l →
    EqualTileBounds l →
    l.prog.moves ~ expectedMoves src.el (rs.base + src.el * layoutOffset src rs) (rd.base + src.el * layoutOffset dst rd)
      rs.shape l.nested

/-! ## theorems -/

/-- The reported largest common contiguous block: its members sit at distinct positions of the layout pair
(`flat ~ mem ++ rest`), at each of them source and destination carry the same (step, bound), the first has step 1 and
each next step is the previous step × bound (`ChainR`, most recent first). All ranks, depths, bounds, dynamic entries. -/
theorem lcb_contiguous (flat mem : List Entry) (h : lcbMembers flat = .ok mem) :
    ChainR mem.reverse ∧ ∃ rest, flat ~ mem ++ rest :=
  lcbMembers_inv h

/-- Hence, when its steps are static, the block is ONE contiguous burst of `Π bounds · el` bytes in both layouts:
the loop nest over its members and the element bytes visits offsets `0, 1, 2, …` on both sides, in order. -/
theorem lcb_one_burst (el : Nat) (flat mem : List Entry) (h : lcbMembers flat = .ok mem)
    (hs : ∀ m ∈ mem, m.ss.step ≠ none) (hk : ∀ e ∈ flat, e.consistentB el = true) :
    offs (mem.reverse.map Entry.triple ++ [(el, 1, 1)]) =
      (List.range (prodT (mem.reverse.map Entry.triple ++ [(el, 1, 1)]))).map fun k => (k, k) := by
  obtain ⟨hc, rest, hp⟩ := lcbMembers_inv h
  refine offs_dense _ (chain_dense el _ hc (fun m hm => hs m (by simpa using hm)) (fun m hm => ?_))
  exact consistentB_sound (hk m (hp.symm.subset (by simp [mem_reverse.mp hm])))

/-- The loop order chosen by `TransformDMA` (sort by bound, largest as the 2-D repeat) is irrelevant: any
permutation of a loop nest visits the same offsets. -/
theorem loop_order_irrelevant {l1 l2 : List (Nat × Nat × Nat)} (h : l1 ~ l2) : offs l1 ~ offs l2 := offs_perm h

/-- Steps 6.2/6.3 for EVERY number of loops: the nest assembled by the code's index arithmetic (innermost loop to
`upper[-1]`, wrapped by `upper[n-2-i]`, the `i`-th loop from outside advancing by `remaining_strides_list[i]`) is the
list of remaining strides in order, each with its own trip count and steps. -/
theorem loop_nest_faithful (rest : List Entry) : buildLoops rest = rest.map Entry.triple := buildLoops_eq rest

/-- `ResolutionConsistent` holds for EVERY result of `TransformDMA` (every rank, depth, static or dynamic entry,
descriptor): wherever a step or bound is static in the (reconstructed) layout, the value the emitted `get_bound_ops` /
`get_step_ops` ops compute at run time is that bound, resp. that step × element size. (Was an assumed clause.) -/
theorem resolution_consistent (bv : Bool) (src dst : MemTy) (rs rd : Rt) (l : Lowered)
    (h : transformDma bv src dst rs rd = .ok l) : ResolutionConsistent src.el l :=
  transformDma_consistent h

/-- byte/element scaling of the offsets: the pointers handed to the DMA calls start at the descriptor's aligned
pointer plus element size × the layout's offset (static, or the descriptor's for `offset: ?`), on both sides. -/
theorem C05_bases (bv : Bool) (src dst : MemTy) (rs rd : Rt) (l : Lowered) (h : transformDma bv src dst rs rd = .ok l) :
    l.prog.sbase = rs.base + src.el * layoutOffset src rs ∧ l.prog.dbase = rd.base + src.el * layoutOffset dst rd :=
  transformDma_bases h

/-- C05 for `TransformDMA` WITH fix F21, all ranks / depths / shapes / widths / offsets / static and dynamic entries:
the emitted transfers are a permutation of the layout-defined element moves. PARTIAL: clauses `TileDividesShape`
(D32) and `LcbStepsStatic` (D40) exclude the two open defects; `ResolutionConsistent` and `ByValueDistinct` are gone
(proved, resp. removed by the fix). -/
theorem C05_moves_partial (src dst : MemTy) (rs rd : Rt) (l : Lowered)
    (h : transformDma false src dst rs rd = .ok l)
    (_hETB : EqualTileBounds l) (hTD : TileDividesShape rs l) (hLS : LcbStepsStatic l) :
    l.prog.moves ~ expectedMoves src.el l.prog.sbase l.prog.dbase rs.shape l.nested := by
  have h' := transformDma_inv h
  unfold TileDividesShape at hTD
  rw [hTD] at h' ⊢
  exact lowerResolved_moves src.el _ _ l.nested l.lcb l.prog h' hLS (transformDma_consistent h)

/-- the same with the pointers spelled out from the descriptors and the layouts' offsets -/
theorem C05_moves_abs_partial (src dst : MemTy) (rs rd : Rt) (l : Lowered)
    (h : transformDma false src dst rs rd = .ok l)
    (hETB : EqualTileBounds l) (hTD : TileDividesShape rs l) (hLS : LcbStepsStatic l) :
    l.prog.moves ~ expectedMoves src.el (rs.base + src.el * layoutOffset src rs) (rd.base + src.el * layoutOffset dst rd)
      rs.shape l.nested := by
  have := C05_moves_partial src dst rs rd l h hETB hTD hLS
  rwa [(transformDma_bases h).1, (transformDma_bases h).2] at this

/-- C05 for `TransformDMA` BEFORE fix F21 (by-value membership): additionally needs `ByValueDistinct` (D41). -/
theorem C05_moves_byValue_partial (src dst : MemTy) (rs rd : Rt) (l : Lowered)
    (h : transformDma true src dst rs rd = .ok l)
    (_hETB : EqualTileBounds l) (hTD : TileDividesShape rs l) (hLS : LcbStepsStatic l) (hBV : ByValueDistinctC l) :
    l.prog.moves ~ expectedMoves src.el l.prog.sbase l.prog.dbase rs.shape l.nested := by
  have h' := transformDma_inv h
  unfold TileDividesShape at hTD
  rw [hTD] at h' ⊢
  exact lowerResolved_moves_byValue src.el _ _ l.nested l.lcb l.prog h' hLS hBV (transformDma_consistent h)

/-- The entries over which `expectedMoves` is stated are, position by position, the strides of the source layout and
of the destination layout (for TSL operands: the attribute itself). -/
theorem entries_are_layout_strides (bv : Bool) (src dst : MemTy) (rs rd : Rt) (l : Lowered)
    (h : transformDma bv src dst rs rd = .ok l) :
    l.nested.map (·.map (·.ss)) = l.tS.ts ∧ l.nested.map (·.map (·.ds)) = l.tD.ts :=
  resolve_strides (transformDma_resolve h).1

/-- TSL reconstruction, SOURCE: for a `strided<…>` or default-layout source, a dimension with static stride
`s` (0 included since fix F42: broadcast) and static non-zero inner tile bounds (any outer bound, static or `?`, any tiling depth) is addressed at
`x · s · el` bytes by the resolved entries — exactly what the memref's own layout says. -/
theorem strided_source_address (bv : Bool) (src dst : MemTy) (rs rd : Rt) (l : Lowered)
    (h : transformDma bv src dst rs rd = .ok l) (hnt : ∀ t, src.layout ≠ .tsl t)
    (strides : List (Option Nat)) (hstr : extractStrides src = some strides)
    (d s : Nat) (hs : strides[d]? = some (some s))
    (es : List Entry) (hd : l.nested[d]? = some es)
    (b0 : Option Nat) (bs : List Nat) (htb : es.map (·.ss.bound) = b0 :: bs.map some) (hbs : ∀ b ∈ bs, b ≠ 0) (x : Nat) :
    (tileAddr es x).1 = x * (s * src.el) :=
  Dma.strided_source_address h hnt hstr hs hd htb hbs x

/-- TSL reconstruction, DESTINATION (under `EqualTileBounds`). -/
theorem strided_dest_address (bv : Bool) (src dst : MemTy) (rs rd : Rt) (l : Lowered)
    (h : transformDma bv src dst rs rd = .ok l) (hnt : ∀ t, dst.layout ≠ .tsl t) (hETB : EqualTileBounds l)
    (strides : List (Option Nat)) (hstr : extractStrides dst = some strides)
    (d s : Nat) (hs : strides[d]? = some (some s))
    (es : List Entry) (hd : l.nested[d]? = some es)
    (b0 : Option Nat) (bs : List Nat) (htb : es.map (·.ss.bound) = b0 :: bs.map some) (hbs : ∀ b ∈ bs, b ≠ 0) (x : Nat) :
    (tileAddr es x).2 = x * (s * src.el) :=
  Dma.strided_dest_address h hnt hETB hstr hs hd htb hbs x

/-- DYNAMIC strides, SOURCE: a `strided<…>` source whose stride of dimension `d` is `?` is addressed, by the resolved
entries, at `x · rs.strides[d] · el` — the stride of the SOURCE's own run-time descriptor (`extract_strided_metadata`),
for any tiling the other side imposes. (Was validated by correspondence only.) -/
theorem strided_dynamic_source_address (bv : Bool) (src dst : MemTy) (rs rd : Rt) (l : Lowered)
    (h : transformDma bv src dst rs rd = .ok l) (strides : List (Option Nat)) (off : Option Nat)
    (hl : src.layout = .strided strides off) (d m : Nat) (hs : strides[d]? = some none)
    (hm : rs.strides[d]? = some m) (es : List Entry) (hd : l.nested[d]? = some es) (x : Nat) :
    (tileAddr es x).1 = x * (m * src.el) :=
  Dma.strided_dynamic_source_address h hl hs hm hd x

/-- DYNAMIC strides, DESTINATION: `x · rd.strides[d] · el`, from the DESTINATION's own descriptor (this is what seed
C05-r4m2 broke: reusing the source's step ops for an equal-looking destination type). -/
theorem strided_dynamic_dest_address (bv : Bool) (src dst : MemTy) (rs rd : Rt) (l : Lowered)
    (h : transformDma bv src dst rs rd = .ok l) (strides : List (Option Nat)) (off : Option Nat)
    (hl : dst.layout = .strided strides off) (d m : Nat) (hs : strides[d]? = some none)
    (hm : rd.strides[d]? = some m) (es : List Entry) (hd : l.nested[d]? = some es) (x : Nat) :
    (tileAddr es x).2 = x * (m * src.el) :=
  Dma.strided_dynamic_dest_address h hl hs hm hd x

/-- C05 for `MatchSimpleCopy` (both layouts absent, any rank, static or dynamic shape, any width): the single 1-D
transfer performs exactly the row-major element moves, in order. FULL. -/
theorem simpleCopy_moves (src dst : MemTy) (rs rd : Rt) (p : DmaProg) (h : simpleCopy src dst rs rd = .ok p) :
    p.moves = expectedMoves src.el rs.base rd.base rs.shape (rowMajorNested src.el rs.shape) := by
  have he := expectedMoves_eq src.el rs.base rd.base (rowMajorNested src.el rs.shape)
  rw [rowMajor_prodB] at he
  rw [he, offs_dense _ (rowMajor_dense _ _), rowMajor_prodT]
  unfold simpleCopy at h
  split at h
  · simp at h
  · split at h
    · split at h
      · simp at h
      · injection h with h; subst h
        rw [moves_oneD]; rfl
    · simp at h

/-- With fix F21 (membership by position) only the block's own members and loops of trip count 1 are dropped, for
EVERY layout pair (no distinctness assumption). -/
theorem byKey_drop_harmless (el : Nat) (flat : List Entry) (mr : List Entry × List Entry) (hs : lcbSplit flat = .ok mr)
    (hk : ∀ e ∈ flat, e.Consistent el) :
    ∃ U R, flat ~ U ++ (R ++ mr.1.reverse) ∧ (∀ u ∈ U, u.bound = 1) ∧ remainingByKey (lcbOfMembers mr.1) mr.2 ~ R :=
  byKey_split el hs hk

/-- Before the fix: under `NoSelfOverlap`-style distinctness the by-value test `stride not in lcb` only ever drops
loops of trip count 1 besides the block's own members (DESIGN: `byValue_drop_harmless`). -/
theorem byValue_drop_harmless (el : Nat) (flat mem : List Entry) (hm : lcbMembers flat = .ok mem)
    (hk : ∀ e ∈ flat, e.consistentB el = true) (hs : ∀ m ∈ mem, m.ss.step ≠ none) (hbv : ByValueDistinct flat) :
    ∃ U R, flat ~ U ++ (R ++ mem.reverse) ∧ (∀ u ∈ U, u.bound = 1) ∧ remaining (lcbOfMembers mem) flat ~ R :=
  byValue_split el hm (fun e he => consistentB_sound (hk e he)) hs hbv

/-! ## the dropped clauses are necessary: counterexamples in the model (replayed on the real code by the harness) -/

/-- Bool evaluation of "the clauses other than the named ones hold and the conclusion holds" on a concrete input. -/
def check (bv : Bool) (src dst : MemTy) (rs rd : Rt) (needTD needLS needBV : Bool) : Option Bool :=
  match transformDma bv src dst rs rd with
  | .ok l =>
    if decide (l.tS.tileBounds = l.tD.tileBounds) && l.nested.flatten.all (·.consistentB src.el)
        && (!needTD || decide (rs.shape = l.nested.map prodB))
        && (!needLS || l.lcb.all (·.step.isSome))
        && (!needBV || byValueDistinctB l.nested.flatten) then
      some (decide (l.prog.moves ~ expectedMoves src.el l.prog.sbase l.prog.dbase rs.shape l.nested))
    else none
  | .error _ => none

def i32 (shape : List (Option Nat)) (lay : Layout) : MemTy := ⟨shape, 4, true, lay⟩

/-- D32: `memref<?xi32, #tsl.tsl<[?, 2] -> (4, 1)>>` to `strided<[2]>` with run-time extent 5: the bound `5 / 2`
floors to 2 and element 4 is never copied (all other clauses hold). -/
theorem C05_tileDividesShape_fails :
    check false (i32 [none] (.tsl ⟨[[⟨some 4, none⟩, ⟨some 1, some 2⟩]], some 0⟩)) (i32 [none] (.strided [some 2] (some 0)))
      ⟨1000, [5], [], 0⟩ ⟨5000, [5], [2], 0⟩ false true true = some false := by decide +kernel

/-- D40: `memref<?x?xi32, strided<[?, 1]>>` on both sides (an upstream filecheck input) with run-time row strides 3
and 2 for a 2x2 copy: the dynamic stride `?` matches `None == None`, joins the block and ONE 1-D transfer of 16 bytes
is emitted. -/
theorem C05_lcbStepsStatic_fails :
    check false (i32 [none, none] (.strided [none, some 1] (some 0)))
      (i32 [none, none] (.strided [none, some 1] (some 0)))
      ⟨1000, [2, 2], [3, 1], 0⟩ ⟨5000, [2, 2], [2, 1], 0⟩ true false true = some false := by decide +kernel

/-- D41 (code BEFORE fix F21): `memref<2x2xi32, strided<[1, 1]>>` (equal steps in different dimensions) to
`strided<[1, 2]>`: the second source stride equals the block member `2 -> 1` by value, its loop is dropped and a 1-D
transfer is emitted. -/
theorem C05_byValueDistinct_fails :
    check true (i32 [some 2, some 2] (.strided [some 1, some 1] (some 0)))
      (i32 [some 2, some 2] (.strided [some 1, some 2] (some 0)))
      ⟨1000, [2, 2], [1, 1], 0⟩ ⟨5000, [2, 2], [1, 2], 0⟩ true true false = some false := by decide +kernel

/-- … and WITH fix F21 the same input is lowered correctly although it violates `ByValueDistinct`. -/
theorem C05_byValueDistinct_fixed :
    check false (i32 [some 2, some 2] (.strided [some 1, some 1] (some 0)))
      (i32 [some 2, some 2] (.strided [some 1, some 2] (some 0)))
      ⟨1000, [2, 2], [1, 1], 0⟩ ⟨5000, [2, 2], [1, 2], 0⟩ true true false = some true := by decide +kernel

/-- `strided_source_address` at full strength, i.e. WITHOUT the former clause `s ≠ 0` (`NonZeroStride`): also a broadcast
source (static stride 0) is addressed at `x · 0 · el = 0`. With fix F42 this is a THEOREM (`strided_source_address_full`);
of the code before the fix it was false (D42, `strided_source_address_pre42_fails`). -/
def strided_source_address_statement (tdma : Bool → MemTy → MemTy → Rt → Rt → Except Err Lowered) : Prop :=
  ∀ (bv : Bool) (src dst : MemTy) (rs rd : Rt) (l : Lowered), tdma bv src dst rs rd = .ok l →
    (∀ t, src.layout ≠ .tsl t) → ∀ (strides : List (Option Nat)), extractStrides src = some strides →
    ∀ (d s : Nat), strides[d]? = some (some s) → ∀ (es : List Entry), l.nested[d]? = some es →
    ∀ (b0 : Option Nat) (bs : List Nat), es.map (·.ss.bound) = b0 :: bs.map some → (∀ b ∈ bs, b ≠ 0) →
    ∀ x, (tileAddr es x).1 = x * (s * src.el)

/-- the full statement holds of the code WITH fix F42 -/
theorem strided_source_address_full : strided_source_address_statement transformDma :=
  fun bv src dst rs rd l h hnt strides hstr d s hs es hd b0 bs htb hbs x =>
    strided_source_address bv src dst rs rd l h hnt strides hstr d s hs es hd b0 bs htb hbs x

/-- D42 (code BEFORE fix F42, `transformDmaPre42`): `memref<4x4xi32, strided<[0, 1]>>` (every row is the same data)
into a destination tiled `[2, 2] x [4]`: `TiledStride.from_stride` tested `bound and steps[0]` by truthiness, the static
inner step 0 made the OUTER tile step `None`, `get_step_ops` then invented a run-time value for it (16 bytes) and row 2
was read from byte 16 instead of 0. -/
theorem strided_source_address_pre42_fails : ¬ strided_source_address_statement transformDmaPre42 := by
  intro hst
  have hw : transformDmaPre42 false (i32 [some 4, some 4] (.strided [some 0, some 1] (some 0)))
      (i32 [some 4, some 4] (.tsl ⟨[[⟨some 8, some 2⟩, ⟨some 4, some 2⟩], [⟨some 1, some 4⟩]], some 0⟩))
      ⟨1000, [4, 4], [0, 1], 0⟩ ⟨5000, [4, 4], [], 0⟩ =
      .ok ⟨⟨[[⟨none, some 2⟩, ⟨some 0, some 2⟩], [⟨some 1, some 4⟩]], some 0⟩,
        ⟨[[⟨some 8, some 2⟩, ⟨some 4, some 2⟩], [⟨some 1, some 4⟩]], some 0⟩,
        [[⟨⟨none, some 2⟩, ⟨some 8, some 2⟩, 2, 16, 32⟩, ⟨⟨some 0, some 2⟩, ⟨some 4, some 2⟩, 2, 0, 16⟩],
         [⟨⟨some 1, some 4⟩, ⟨some 1, some 4⟩, 4, 4, 4⟩]],
        [⟨some 1, some 4⟩], ⟨1000, 5000, [(2, 0, 16)], .twoD 16 16 32 2⟩⟩ := by decide +kernel
  have := hst _ _ _ _ _ _ hw (by intro t h; cases h) [some 0, some 1] (by decide) 0 0 (by decide)
    [⟨⟨none, some 2⟩, ⟨some 8, some 2⟩, 2, 16, 32⟩, ⟨⟨some 0, some 2⟩, ⟨some 4, some 2⟩, 2, 0, 16⟩] (by decide)
    (some 2) [2] (by decide) (by decide) 2
  revert this
  decide +kernel

/-- … and WITH fix F42 the same input satisfies the clauses of `C05_moves_partial` and is lowered correctly (the outer
source step is the static 0, every row is read from the same bytes). -/
theorem strided_zeroStride_fixed :
    check false (i32 [some 4, some 4] (.strided [some 0, some 1] (some 0)))
      (i32 [some 4, some 4] (.tsl ⟨[[⟨some 8, some 2⟩, ⟨some 4, some 2⟩], [⟨some 1, some 4⟩]], some 0⟩))
      ⟨1000, [4, 4], [0, 1], 0⟩ ⟨5000, [4, 4], [], 0⟩ true true false = some true := by decide +kernel

/-- therefore the full statement is false of the code as it is (D40 witness) -/
theorem C05_statement_fails : ¬ C05_statement := by
  intro hst
  have hw : transformDma false (i32 [none, none] (.strided [none, some 1] (some 0)))
      (i32 [none, none] (.strided [none, some 1] (some 0)))
      ⟨1000, [2, 2], [3, 1], 0⟩ ⟨5000, [2, 2], [2, 1], 0⟩ =
      .ok ⟨⟨[[⟨none, none⟩], [⟨some 1, none⟩]], some 0⟩, ⟨[[⟨none, none⟩], [⟨some 1, none⟩]], some 0⟩,
        [[⟨⟨none, none⟩, ⟨none, none⟩, 2, 12, 8⟩], [⟨⟨some 1, none⟩, ⟨some 1, none⟩, 2, 4, 4⟩]],
        [⟨some 1, none⟩, ⟨none, none⟩], ⟨1000, 5000, [], .oneD 16⟩⟩ := by decide +kernel
  have := hst _ _ _ _ _ hw (by unfold EqualTileBounds; decide)
  revert this
  decide +kernel

/-! ## non-vacuity -/

/-- the upstream 8x8 tiled pair of `copy_to_dma.mlir` meets every clause of `C05_moves_partial` (and yields a loop
nest around a 2-D transfer) -/
example :
    check false (i32 [some 8, some 8] (.tsl ⟨[[⟨some 4, some 2⟩, ⟨some 1, some 4⟩], [⟨some 32, some 2⟩, ⟨some 8, some 4⟩]], some 0⟩))
      (i32 [some 8, some 8] (.tsl ⟨[[⟨some 16, some 2⟩, ⟨some 1, some 4⟩], [⟨some 32, some 2⟩, ⟨some 4, some 4⟩]], some 0⟩))
      ⟨1000, [8, 8], [], 0⟩ ⟨5000, [8, 8], [], 0⟩ true true true = some true := by decide +kernel

/-- a dynamic tiled block layout `[?, 2] -> (?, 2), [?, 2] -> (?, 1)` against the default layout, run-time 4x4,
meets every clause -/
example :
    check false (i32 [none, none] (.tsl ⟨[[⟨none, none⟩, ⟨some 2, some 2⟩], [⟨none, none⟩, ⟨some 1, some 2⟩]], some 0⟩))
      (i32 [none, none] .none) ⟨1000, [4, 4], [], 0⟩ ⟨5000, [4, 4], [], 0⟩ true true true = some true := by
  decide +kernel

/-- `strided_source_address` / `strided_dest_address`: a default-layout 4x6 source against a destination TSL tiled
`[2, 2] x [3, 2]`: the reconstructed source TSL of dimension 0 has two depths, and index 3 of it sits at 3·6·4 bytes -/
example :
    (match transformDma false (i32 [some 4, some 6] .none)
        (i32 [some 4, some 6] (.tsl ⟨[[⟨some 12, some 2⟩, ⟨some 2, some 2⟩], [⟨some 4, some 3⟩, ⟨some 1, some 2⟩]], some 0⟩))
        ⟨1000, [4, 6], [], 0⟩ ⟨5000, [4, 6], [], 0⟩ with
     | .ok l => (l.nested[0]?.map fun es => (es.length, (tileAddr es 3).1)) == some (2, 72)
     | .error _ => false) = true := by decide +kernel

/-- `strided_dynamic_*_address`: `memref<?x4xi32, strided<[?, 1]>>` on both sides, rows of a 12-wide buffer into a
7-wide one: row 2 starts at 2·12·4 bytes in the source and at 2·7·4 bytes in the destination -/
example :
    (match transformDma false (i32 [none, some 4] (.strided [none, some 1] (some 0)))
        (i32 [none, some 4] (.strided [none, some 1] (some 0))) ⟨1000, [3, 4], [12, 1], 0⟩ ⟨5000, [3, 4], [7, 1], 0⟩ with
     | .ok l => (l.nested[0]?.map fun es => tileAddr es 2) == some (96, 56)
     | .error _ => false) = true := by decide +kernel

/-- `loop_nest_faithful`: four remaining strides -/
example : wrapLoops [7, 5, 3, 2] = [7, 5, 3, 2] := by decide

/-- `lcb_contiguous` / `lcb_one_burst`: a three-member block is found -/
example : (lcbMembers [⟨⟨some 4, some 2⟩, ⟨some 4, some 2⟩, 2, 16, 16⟩, ⟨⟨some 1, some 4⟩, ⟨some 1, some 4⟩, 4, 4, 4⟩,
    ⟨⟨some 8, some 3⟩, ⟨some 8, some 3⟩, 3, 32, 32⟩]).map (·.length) = .ok 3 := by decide

/-- `simpleCopy_moves`: a dynamic `?x?` copy of 3x5 i32 is one transfer of 60 bytes -/
example : simpleCopy (i32 [none, none] .none) (i32 [none, none] .none) ⟨1000, [3, 5], [], 0⟩ ⟨5000, [3, 5], [], 0⟩
    = .ok ⟨1000, 5000, [], .oneD 60⟩ := by decide

end SnaxVerif.C05
