import SnaxVerif.Lemmas.SetupVals
import SnaxVerif.Lemmas.SetupValsPhs
import SnaxVerif.Lemmas.SetupValsGemmx
/-!
# C08 — generated configuration values line up with field names

`…Fields` / `…Vals` are the two separately written generators of `Model/SetupVals.lean`; `…Meaning` says what a
register NAME means (independent of any list position). `AlignedAt m fs vs` is the property: exactly one value
per declared field, in the declared order, and the i-th value denotes what the i-th name means.
Theorems quantify over every configuration (any number of streamers, any number of temporal / spatial
dimensions and flags, any option list in any order), every stride pattern and operand list.
-/
namespace SnaxVerif.C08
open SnaxVerif SnaxVerif.SV

/-- The property, index form. -/
def AlignedAt (m : Field → Option Den) (fs : List Field) (vs : List Val) : Prop :=
  vs.length = fs.length ∧ ∀ (i : Nat) f, fs[i]? = some f → ∃ v : Val, vs[i]? = some v ∧ m f = some v.den

/-! ## Regular streamer (`snax.py`), for every configuration and operation — full -/

theorem aligned_streamer (cfg : List Streamer) (op : StreamOp) (vs : List Val)
    (h : streamerVals cfg op = .ok vs) : AlignedAt (streamMeaning cfg op) (streamerFields cfg) vs :=
  (streamerVals_aligned cfg op vs h).index

/-- "padded to the hardware dimensionality (bound 1, stride 0)": for a pattern the region verifier accepts, the
dimensions that are written are the pattern's own followed by `(1, 0)` up to the streamer's dimensionality. -/
theorem written_dims_padded (st : Streamer) (p : Pattern) (hle : p.dims.length ≤ st.tdims.length) :
    (padDims st p).length = st.tdims.length ∧
    (∀ i, i < p.dims.length → (padDims st p)[i]? = p.dims[i]?) ∧
    (∀ i, p.dims.length ≤ i → i < st.tdims.length → (padDims st p)[i]? = some (1, 0)) := by
  refine ⟨by simp [padDims]; omega, ?_, ?_⟩
  · intro i hi
    rw [padDims_get st p i (by omega), List.getD_eq_getElem?_getD]
    simp [List.getElem?_eq_getElem hi]
  · intro i h1 h2
    rw [padDims_get st p i h2, List.getD_eq_getElem?_getD]
    have : p.dims[i]? = none := by rw [List.getElem?_eq_none_iff]; omega
    simp [this]

/-! ## Accepted regions are written verbatim; regions that do not fit are rejected -/

/-- full statement WITHOUT the verifier: the registers reproduce the address stream of the pattern as written -/
def written_stream_statement : Prop :=
  ∀ (st : Streamer) (p : Pattern), addrStream (writtenDims st p) = addrStream p.dims

/-- what the region verifier guarantees per streamer: the pattern as written fits -/
theorem accepted_region_fits (cfg : List Streamer) (op : StreamOp) (h : regionAccepts cfg op = true)
    (s : Nat) (st : Streamer) (p : Pattern) (hst : cfg[s]? = some st) (hp : op.pats[s]? = some p) :
    p.dims.length ≤ st.tdims.length ∧ p.ss.length ≤ st.sdims.length :=
  regionAccepts_fits cfg op h s st p hst hp

/-- clause `haccept`: the region passed `StreamingRegionOp.verify_`. Then, for every streamer, the (bound, stride)
pairs that reach `bound_i` / `tstride_i` (before the reuse collapse) generate exactly the temporal address stream of
the stride pattern as written — any number of loops, any bounds and strides. -/
theorem accepted_written_stream_partial (cfg : List Streamer) (op : StreamOp)
    (haccept : regionAccepts cfg op = true)
    (s : Nat) (st : Streamer) (p : Pattern) (hst : cfg[s]? = some st) (hp : op.pats[s]? = some p) :
    addrStream (writtenDims st p) = addrStream p.dims :=
  written_stream st p (regionAccepts_fits cfg op haccept s st p hst hp).1

def oneDim : Streamer := { tdims := [.n], sdims := [4], opts := [] }

/-- Without the verifier's guard the generator silently drops outer loops: a leading unit loop `ub = [1, 16]` on a
1-dimensional streamer writes bound 1 (1 of 16 steps), two contiguous loops `ub = [4, 4], ts = [32, 128]` give 4 of
16 steps — although both canonicalise to one loop. The verifier of the unchanged tree rejects both. -/
theorem written_stream_fails : ¬ written_stream_statement := by
  intro h
  have := h oneDim { dims := [(1, 0), (16, 8)], ss := [8] }
  revert this
  decide

example : regionAccepts [oneDim] { pats := [{ dims := [(1, 0), (16, 8)], ss := [8] }], zero := [false] } = false ∧
    regionAccepts [oneDim] { pats := [{ dims := [(4, 32), (4, 128)], ss := [8] }], zero := [false] } = false ∧
    (addrStream (writtenDims oneDim { dims := [(4, 32), (4, 128)], ss := [8] })).length = 4 ∧
    (addrStream [(4, 32), (4, 128)]).length = 16 ∧
    regionAccepts [oneDim] { pats := [{ dims := [(16, 8)], ss := [8] }], zero := [false] } = true := by decide

/-- an environment that separates `dim` leaves from constants (used by the counterexamples) -/
def envDim5 : Env := fun l => match l with | .dim _ => 5#32 | _ => 0#32

/-! ## snax_alu — full on the repaired tree (FC08c); the unrepaired loop bound is D82 -/

/-- full statement: every ALU register, INCLUDING `loop_bound_alu` = the number of temporal steps of stream 0 -/
def aligned_alu_statement (v : Variant) : Prop :=
  ∀ (cfg : List Streamer) (op : StreamOp) (vs : List Val), aluVals v cfg op = .ok vs →
    AlignedAt (aluMeaning cfg op) (aluFields cfg) vs

/-- With FC08c (`loop_bound_alu` = product of all upper bounds): full, for every configuration, pattern, operand list. -/
theorem aligned_alu : aligned_alu_statement .fixed := by
  intro cfg op vs h
  exact (aluVals_aligned .fixed cfg op vs h (Or.inl rfl)).index

/-- Any tree: clause `hsingle` — the repair is in, or stream 0 has exactly one temporal loop. -/
theorem aligned_alu_partial (v : Variant) (cfg : List Streamer) (op : StreamOp) (vs : List Val)
    (h : aluVals v cfg op = .ok vs)
    (hsingle : v.loopAllDims = true ∨ ∀ p, op.pats[0]? = some p → p.dims.length = 1) :
    AlignedAt (aluMeaning cfg op) (aluFields cfg) vs :=
  (aluVals_aligned v cfg op vs h hsingle).index

/-- D82 (tree without FC08c): two temporal loops `ub = [2, 3]`, `loop_bound_alu` receives 2, the stream makes 6 steps. -/
theorem aligned_alu_unrepaired_fails : ¬ aligned_alu_statement .repo := by
  intro h
  have hv : ∃ vs, aluVals .repo [{ tdims := [.n, .n], sdims := [4], opts := [] }]
      { pats := [{ dims := [(2, 8), (3, 16)], ss := [8] }], zero := [false] } = .ok vs ∧ vs[8]? = some (.c 2) :=
    ⟨_, rfl, by decide⟩
  obtain ⟨vs, hvs, h8⟩ := hv
  obtain ⟨v, hv, hm⟩ := (h _ _ vs hvs).2 8 .loopBoundAlu (by decide)
  rw [h8] at hv; injection hv with hv; subst hv
  simp [aluMeaning, prodI] at hm
  have := congrFun hm envDim5
  simp [Val.den, konst] at this

/-- full statement: the ALU loop count equals the number of steps of stream 0 -/
def loopcount_alu_statement (v : Variant) : Prop :=
  ∀ (op : StreamOp) (lb : Int) (p : Pattern), firstBound v op = .ok lb → op.pats[0]? = some p →
    lb = prodI (p.dims.map (·.1))

/-- with FC08c: full -/
theorem loopcount_alu : loopcount_alu_statement .fixed :=
  fun op lb p h hp => firstBound_steps .fixed op lb p h hp (Or.inl rfl)

/-- clause `hsingle`: stream 0 has exactly one temporal dimension (any tree) -/
theorem loopcount_alu_partial (v : Variant) (op : StreamOp) (lb : Int) (p : Pattern) (h : firstBound v op = .ok lb)
    (hp : op.pats[0]? = some p) (hsingle : p.dims.length = 1) : lb = prodI (p.dims.map (·.1)) :=
  firstBound_steps v op lb p h hp (Or.inr hsingle)

/-- D82: with two temporal dimensions `loop_bound_alu` is the first bound only. -/
theorem loopcount_alu_fails : ¬ loopcount_alu_statement .repo := by
  intro h
  have := h { pats := [{ dims := [(2, 8), (3, 16)], ss := [8] }], zero := [false] } 2
    { dims := [(2, 8), (3, 16)], ss := [8] } rfl rfl
  simp [prodI] at this

/-! ## snax_alu, legacy linalg path — a table written for the default configuration (DC08a otherwise) -/

def aligned_alu_linalg_statement : Prop :=
  ∀ cfg : List Streamer, AlignedAt aluLinalgMeaning (aluFields cfg) aluLinalgVals

/-- clause `hdefault`: the accelerator has the default streamer configuration -/
theorem aligned_alu_linalg_partial (cfg : List Streamer) (hdefault : cfg = aluDefault) :
    AlignedAt aluLinalgMeaning (aluFields cfg) aluLinalgVals := by
  subst hdefault
  exact Aligned.index (m := aluLinalgMeaning)
    (by simp [Aligned, aluLinalgMeaning, aluLinalgVals, aluFields, aluDefault, streamerFields, streamerBlockFields,
          transposeField, bcastField, Streamer.has, List.zipIdx, List.range, List.range.loop]
        refine ⟨?_, ?_, ?_, ?_, ?_, ?_, ?_, ?_, ?_, ?_, ?_, ?_, ?_, ?_, ?_, ?_, ?_⟩ <;> rfl)

/-- DC08a: a configurable ALU with two temporal dimensions per streamer declares 20 fields, the legacy path still
emits its 17 values. -/
theorem alu_linalg_other_config_fails : ¬ aligned_alu_linalg_statement := by
  intro h
  have := (h [ { tdims := [.n, .n], sdims := [4], opts := [] }, { tdims := [.n, .n], sdims := [4], opts := [] },
               { tdims := [.n, .n], sdims := [4], opts := [] } ]).1
  revert this
  decide

/-! ## snax_phs — streamer registers, one `phs_switch_i` per true switch of the processing element, loop bound -/

def aligned_phs_statement (v : Variant) : Prop :=
  ∀ (cfg : List Streamer) (op : StreamOp) (A : Phs.PE) (K : Except Phs.Err Phs.PE) (vs : List Val),
    A.wf = true → phsVals v cfg op A K = .ok vs →
    ∃ k sw, K = .ok k ∧ Phs.decode A k = .ok sw ∧ AlignedAt (phsMeaning cfg op sw) (phsFields cfg A) vs

/-- Repaired tree (FC08c), for EVERY streamer configuration, pattern / operand list, processing element `A`
satisfying the IR invariants `PE.wf` (C20) and kernel `K`: when the generator returns, the kernel was encoded and
decoded, and the streamer registers, the `phs_switch_i` registers (exactly `get_true_switches()` of them — the
count that used to be an assumption is `decode_length`, proved from the decoder model) and `loop_bound_alu` (=
temporal steps of stream 0) line up with the values. -/
theorem aligned_phs : aligned_phs_statement .fixed := by
  intro cfg op A K vs hA h
  obtain ⟨k, sw, hk, hd, hal⟩ := phsVals_aligned .fixed cfg op A K vs h hA (Or.inl rfl)
  exact ⟨k, sw, hk, hd, hal.index⟩

/-- any tree: clause `hsingle` as for snax_alu (D82: the same expression is in snax_phs.py) -/
theorem aligned_phs_partial (v : Variant) (cfg : List Streamer) (op : StreamOp) (A : Phs.PE)
    (K : Except Phs.Err Phs.PE) (vs : List Val) (hA : A.wf = true) (h : phsVals v cfg op A K = .ok vs)
    (hsingle : v.loopAllDims = true ∨ ∀ p, op.pats[0]? = some p → p.dims.length = 1) :
    ∃ k sw, K = .ok k ∧ Phs.decode A k = .ok sw ∧ AlignedAt (phsMeaning cfg op sw) (phsFields cfg A) vs := by
  obtain ⟨k, sw, hk, hd, hal⟩ := phsVals_aligned v cfg op A K vs h hA hsingle
  exact ⟨k, sw, hk, hd, hal.index⟩

/-- the number of switch values is the number of `phs_switch_i` fields, for every well-formed element -/
theorem phs_switch_count (A K : Phs.PE) (sw : List Nat) (hA : A.wf = true) (h : Phs.decode A K = .ok sw) :
    (switchVals sw).length = ((List.range A.trueSwitches).map Field.phsSwitch).length := by
  simp [switchVals, decode_length A K sw hA h]

/-! ## snax_gemmx -/

/-- full statement (false on the pristine tree and for short per-channel arrays) -/
def aligned_gemmx_statement (v : Variant) : Prop :=
  ∀ (cfg : List Streamer) (n : Nat) (op : GemmxOp) (vs : List Val), gemmxVals v cfg n op = .ok vs →
    ∃ P, gemmxParams v n op = .ok P ∧ AlignedAt (gemmxMeaning cfg op.s P) (gemmxFields cfg n) vs

/-- clause `hcount`: the kernel-parameter generator produced one packed shift word per `shift_i` and one
multiplier per `mult_i` (see `gemmx_counts_fixed` for when that is guaranteed). -/
theorem aligned_gemmx_partial (v : Variant) (cfg : List Streamer) (n : Nat) (op : GemmxOp) (vs : List Val)
    (h : gemmxVals v cfg n op = .ok vs) :
    ∃ P, gemmxParams v n op = .ok P ∧
      ((hcount : P.shifts.length = ceil4 n ∧ P.mults.length = n) →
        AlignedAt (gemmxMeaning cfg op.s P) (gemmxFields cfg n) vs) := by
  obtain ⟨P, hP, hal⟩ := gemmxVals_aligned v cfg n op vs h
  exact ⟨P, hP, fun hc => (hal hc.1 hc.2).index⟩

/-- The count clause holds with F11 for every geometry `n`, every configuration and every pattern, for the
rescale-only kernel and for mac/qmac with i32 output. -/
theorem gemmx_counts_fixed (v : Variant) (hv : v.f11 = true) (n : Nat) (op : GemmxOp) (P : GParams)
    (h : gemmxParams v n op = .ok P)
    (hk : (∃ r, op.kernel = .rescale r) ∨ op.i8out = false) :
    P.shifts.length = ceil4 n ∧ P.mults.length = n := by
  unfold gemmxParams at h
  rcases hk with ⟨r, hr⟩ | hi
  · simp only [hr] at h
    split at h
    · simp at h
    · split at h
      · injection h with h; subst h; simp [hv]
      · simp at h
  · split at h
    · simp only [hi] at h
      split at h
      · simp at h
      · split at h
        · simp at h
        · split at h
          · simp at h
          · simp at h; subst h; simp
    · split at h
      · simp at h
      · split at h
        · injection h with h; subst h; simp [hv]
        · simp at h
    · simp at h

/-- The count clause for mac/qmac with i8 output, whatever chain of generics the region has (the rescale
parameters are those of the LAST generic if it is a rescale, the defaults otherwise), on either tree, for every
geometry: clause `hchan` — per-channel arrays are per-tensor (length 1) or cover the `n` columns (D81 otherwise). -/
theorem gemmx_counts_i8 (v : Variant) (n : Nat) (op : GemmxOp) (P : GParams) (zp : Option (Nat × Nat))
    (hk : op.kernel = .mac zp) (hi : op.i8out = true) (h : gemmxParams v n op = .ok P)
    (hchan : ∀ r, op.post = some r → (r.shifts.length = 1 ∨ n ≤ r.shifts.length) ∧
      (r.mults.length = 1 ∨ n ≤ r.mults.length)) :
    P.shifts.length = ceil4 n ∧ P.mults.length = n :=
  SV.gemmx_counts_i8 v n op P zp hk hi h hchan

/-- `hcount` discharged: with F11, for every configuration, geometry `n`, pattern list, operand list and region
body the generator accepts (mac, qmac, any chain of generics, rescale only; i8 and i32 outputs), every register —
streamer part and K, N, M, subtractions, csr0, csr1, shift_i, mult_i, temporal_loop_bound, bypassSIMD — lines up
with its name. The only clause left is `hchan` (per-channel arrays of a trailing rescale are per-tensor or cover the
n columns; D81 is its counterexample). -/
theorem aligned_gemmx (v : Variant) (hv : v.f11 = true) (cfg : List Streamer) (n : Nat) (op : GemmxOp)
    (vs : List Val) (h : gemmxVals v cfg n op = .ok vs)
    (hchan : ∀ r, op.post = some r → (r.shifts.length = 1 ∨ n ≤ r.shifts.length) ∧
      (r.mults.length = 1 ∨ n ≤ r.mults.length)) :
    ∃ P, gemmxParams v n op = .ok P ∧ AlignedAt (gemmxMeaning cfg op.s P) (gemmxFields cfg n) vs := by
  obtain ⟨P, hP, hal⟩ := aligned_gemmx_partial v cfg n op vs h
  refine ⟨P, hP, hal ?_⟩
  cases hk : op.kernel with
  | mac zp =>
    cases hi : op.i8out with
    | true => exact SV.gemmx_counts_i8 v n op P zp hk hi hP hchan
    | false => exact gemmx_counts_fixed v hv n op P hP (Or.inr hi)
  | rescale r => exact gemmx_counts_fixed v hv n op P hP (Or.inl ⟨r, hk⟩)
  | other =>
    unfold gemmxParams at hP
    simp [hk] at hP

/-- The count facts of `aligned_gemmx`, as a lemma of their own. -/
theorem gemmx_counts (v : Variant) (hv : v.f11 = true) (n : Nat) (op : GemmxOp) (P : GParams)
    (hP : gemmxParams v n op = .ok P)
    (hchan : ∀ r, op.post = some r → (r.shifts.length = 1 ∨ n ≤ r.shifts.length) ∧
      (r.mults.length = 1 ∨ n ≤ r.mults.length)) :
    P.shifts.length = ceil4 n ∧ P.mults.length = n := by
  cases hk : op.kernel with
  | mac zp =>
    cases hi : op.i8out with
    | true => exact SV.gemmx_counts_i8 v n op P zp hk hi hP hchan
    | false => exact gemmx_counts_fixed v hv n op P hP (Or.inr hi)
  | rescale r => exact gemmx_counts_fixed v hv n op P hP (Or.inl ⟨r, hk⟩)
  | other =>
    unfold gemmxParams at hP
    simp [hk] at hP

/-- **Absolute form** (no parameter record in the statement). `gemmxFullSpec` reads the meaning of every register off
the OPERATION: `K = steps(A) // M`, `N = 1`, `M` = non-reduction steps of the output stream (rescale only: 1, 1,
steps), `subtractions = zp_a & 255 | (zp_b & 255) << 8` with the run-time zero points of the qmac, `csr0 = min | max |
out_zp | in_zp` (8 bits each, offsets 24/16/8/0), `csr1` = double round, `shift_i` = the shifts of channels 4i…4i+3
with channel 4i in the low byte, `mult_i` = multiplier of channel i, loop bound, bypass — rescale parameters from the
trailing rescale of the region (single values broadcast to n channels) or the defaults; the other registers by the
streamer meaning. With F11, for every configuration, geometry, pattern list, operand list and region body the
generator accepts; only clause `hchan` (D81). The packed words are proved as 32-bit identities (`pack4_den`,
`chunks4_get`), no longer judged by the oracle only. -/
theorem aligned_gemmx_abs (v : Variant) (hv : v.f11 = true) (cfg : List Streamer) (n : Nat) (op : GemmxOp)
    (vs : List Val) (h : gemmxVals v cfg n op = .ok vs)
    (hchan : ∀ r, op.post = some r → (r.shifts.length = 1 ∨ n ≤ r.shifts.length) ∧
      (r.mults.length = 1 ∨ n ≤ r.mults.length)) :
    AlignedAt (gemmxFullSpec cfg n op) (gemmxFields cfg n) vs := by
  obtain ⟨P, hP, hal⟩ := gemmxVals_aligned v cfg n op vs h
  obtain ⟨hs, hm⟩ := gemmx_counts v hv n op P hP hchan
  obtain ⟨hsc, hsh, hmu⟩ := gemmx_kernel_spec v hv cfg n op P hP hs
  refine ((hal hs hm).mono ?_).index
  intro f d hd
  cases f with
  | K => show gemmxSpec n op _ = some d; rw [← hsc _ (by simp)]; exact hd
  | N => show gemmxSpec n op _ = some d; rw [← hsc _ (by simp)]; exact hd
  | M => show gemmxSpec n op _ = some d; rw [← hsc _ (by simp)]; exact hd
  | subtractions => show gemmxSpec n op _ = some d; rw [← hsc _ (by simp)]; exact hd
  | csr0 => show gemmxSpec n op _ = some d; rw [← hsc _ (by simp)]; exact hd
  | csr1 => show gemmxSpec n op _ = some d; rw [← hsc _ (by simp)]; exact hd
  | temporalLoopBound => show gemmxSpec n op _ = some d; rw [← hsc _ (by simp)]; exact hd
  | bypassSIMD => show gemmxSpec n op _ = some d; rw [← hsc _ (by simp)]; exact hd
  | shift i =>
    by_cases hi : i < ceil4 n
    · show gemmxSpec n op _ = some d; rw [← hsh i hi]; exact hd
    · have : P.shifts[i]? = none := by rw [List.getElem?_eq_none_iff]; omega
      simp [gemmxMeaning, this] at hd
  | mult i =>
    by_cases hi : i < n
    · show gemmxSpec n op _ = some d; rw [← hmu i hi]; exact hd
    · have : P.mults[i]? = none := by rw [List.getElem?_eq_none_iff]; omega
      simp [gemmxMeaning, this] at hd
  | _ => simpa [gemmxMeaning, gemmxFullSpec] using hd

/-- the spec is not vacuous: channel 4i sits in the low byte, and csr0 keeps negative fields to 8 bits -/
example : shiftWord [1, 2, 3, 4, 5, 6, 7, 8] 1 = some 0x08070605#32 ∧
    csr0Spec { inZp := -1, outZp := 2, maxI := 127, minI := -128, dr := 0, shifts := [], mults := [] } = 0x807f02ff#32 := by
  decide

/-- What the mac/qmac kernel registers carry, for every region shape: `M` = number of non-reduction steps of the
output stream (operand 2 for i8, the last operand for i32), `N = 1`, `K = steps(A) // M`; with i8 output csr0/csr1,
the multipliers and `temporal_loop_bound = M` come from `effRescale` = the rescale kernel of the generic in front of
the region's yield (single values broadcast to n channels) or the no-rescale defaults. -/
theorem gemmx_mac_params (v : Variant) (n : Nat) (op : GemmxOp) (P : GParams) (zp : Option (Nat × Nat))
    (hk : op.kernel = .mac zp) (h : gemmxParams v n op = .ok P) :
    ∃ last p0, (if op.i8out then op.s.pats[2]? else op.s.pats.getLast?) = some last ∧ op.s.pats[0]? = some p0 ∧
      P.m = prodI ((last.dims.filter fun d => d.2 ≠ 0).map (·.1)) ∧ P.n = 1 ∧
      P.k = Int.fdiv (prodI (p0.dims.map (·.1))) P.m ∧
      (op.i8out = true →
        P.mults = ((effRescale n op).mults.map Val.c).take n ∧ P.tlb = .c P.m ∧ P.byp = .c 0 ∧
        P.csr1 = .c (effRescale n op).dr ∧
        P.csr0 = csr0Val (effRescale n op).minI (effRescale n op).maxI (effRescale n op).outZp (effRescale n op).inZp) := by
  obtain ⟨last, p0, h1, h2, h3, _, h5, h6, h7⟩ := gemmxParams_mac_inv v n op P zp hk h
  refine ⟨last, p0, h1, h2, h3, h5, h6, fun hi => ?_⟩
  obtain ⟨_, _, _, hm, ht, hb, hc1, hc0, _⟩ := h7 hi
  exact ⟨hm, ht, hb, hc1, hc0⟩

/-- Channel-wise requantisation with more channels than columns loses nothing: whenever the trailing rescale has
more than `n` multipliers, the complete multiplier array as written and `M` are attached to the launch (the
registers carry the first `n` channels, `gemmx_mac_params`). -/
theorem gemmx_channels_not_lost (v : Variant) (n : Nat) (op : GemmxOp) (P : GParams) (zp : Option (Nat × Nat))
    (hk : op.kernel = .mac zp) (hi : op.i8out = true) (h : gemmxParams v n op = .ok P) (r : Rescale)
    (hr : op.post = some r) (hlong : n < (bcastN n r.mults).length) :
    ("mult_vals", r.mults) ∈ P.attrs ∧ ("m", [P.m]) ∈ P.attrs := by
  obtain ⟨_, _, _, _, _, _, _, _, h7⟩ := gemmxParams_mac_inv v n op P zp hk h
  obtain ⟨sh, _, _, _, _, _, _, _, hat⟩ := h7 hi
  have he : (effRescale n op).mults = bcastN n r.mults := by simp [effRescale, hr]
  rw [hat, he]
  simp [launchAttrs, hr, hlong]

/-- full statement: the kernel loop counts multiply to the number of temporal steps of stream A -/
def loopcount_gemmx_statement : Prop :=
  ∀ (v : Variant) (n : Nat) (op : GemmxOp) (P : GParams) (p0 : Pattern), gemmxParams v n op = .ok P →
    op.s.pats[0]? = some p0 → P.k * P.n * P.m = prodI (p0.dims.map (·.1))

/-- clause `hdiv`: the output loops are a sub-nest of A's loops, i.e. `M` divides the number of steps of A
(always true for the rescale-only kernel, where K = N = 1 and M = steps). -/
theorem loopcount_gemmx_partial (v : Variant) (n : Nat) (op : GemmxOp) (P : GParams)
    (h : gemmxParams v n op = .ok P) (p0 : Pattern) (hp0 : op.s.pats[0]? = some p0)
    (hdiv : P.m ∣ prodI (p0.dims.map (·.1))) : P.k * P.n * P.m = prodI (p0.dims.map (·.1)) :=
  gemmx_loopcount v n op P h p0 hp0 hdiv

def lcOp : GemmxOp :=
  { s := { pats := [ { dims := [(6, 8)], ss := [8] }, { dims := [(4, 8)], ss := [8] } ], zero := [false, false] },
    generics := [.mac none], i8out := false }

/-- `K = steps(A) // M` floors: 6 steps of A against 4 output steps give K·N·M = 4. -/
theorem loopcount_gemmx_fails : ¬ loopcount_gemmx_statement := by
  intro h
  have hv : ∃ P, gemmxParams .fixed 8 lcOp = .ok P ∧ P.k * P.n * P.m = 4 := ⟨_, rfl, by decide⟩
  obtain ⟨P, hP, h4⟩ := hv
  have := h .fixed 8 lcOp P { dims := [(6, 8)], ss := [8] } hP rfl
  rw [h4] at this
  simp [prodI] at this

/-- the seeded-change shape: qmac → add → rescale takes its parameters from the trailing rescale, not from the
generic that follows the matmul -/
example : (effRescale 8 (GemmxOp.mk default [.mac none, .other,
    .rescale { inZp := 1, outZp := 2, maxI := 100, minI := -100, dr := 1, shifts := [7], mults := [5] }]
    true)).mults = List.replicate 8 5 := by decide

def gemmxDefault : List Streamer :=
  [ { tdims := [.n, .n, .n, .n, .n, .n], sdims := [8], opts := [.ext .transpose, .remap] },
    { tdims := [.n, .n, .n], sdims := [8], opts := [.ext .transpose, .remap] },
    { tdims := [.r, .n, .n], sdims := [8], opts := [.remap] },
    { tdims := [.r, .n, .n], sdims := [8, 4], opts := [.chan, .remap, .bcast] },
    { tdims := [.r, .n, .n], sdims := [8, 4], opts := [.remap] } ]

def rescaleOnlyOp : GemmxOp :=
  { s := { pats := [ { dims := [(2, 0), (3, 0)], ss := [8] }, { dims := [(2, 0), (3, 0)], ss := [8] },
                     { dims := [(2, 64), (3, 128)], ss := [8] }, { dims := [(2, 64), (3, 128)], ss := [8, 64] },
                     { dims := [(0, 0), (0, 0), (0, 0)], ss := [8, 64] } ],
           zero := [true, true, false, false, false] },
    generics := [.rescale { inZp := 1, outZp := 2, maxI := 127, minI := -128, dr := 0, shifts := [3], mults := [4] }],
    i8out := true }

/-- D11 (pristine tree): the rescale-only kernel on the default geometry yields 74 values for 80 fields. -/
theorem gemmx_rescale_pristine_fails : ¬ aligned_gemmx_statement .pristine := by
  intro h
  have hv : ∃ vs, gemmxVals .pristine gemmxDefault 8 rescaleOnlyOp = .ok vs ∧ vs.length = 74 := by
    refine ⟨_, rfl, by decide⟩
  obtain ⟨vs, hvs, hlen⟩ := hv
  obtain ⟨P, _, hal, _⟩ := h gemmxDefault 8 rescaleOnlyOp vs hvs
  have hf : (gemmxFields gemmxDefault 8).length = 80 := by decide
  omega

/-- the same operation on the repaired tree: 80 values for 80 fields (non-vacuity of `gemmx_counts_fixed`) -/
example : ∃ vs, gemmxVals .fixed gemmxDefault 8 rescaleOnlyOp = .ok vs ∧ vs.length = 80 ∧
    (gemmxFields gemmxDefault 8).length = 80 := ⟨_, rfl, by decide, by decide⟩

def shortChannelsOp : GemmxOp :=
  { rescaleOnlyOp with
    generics := [.mac none, .rescale { inZp := 0, outZp := 0, maxI := 127, minI := -128, dr := 0,
                                       shifts := [1, 2, 3, 4], mults := [5, 6, 7, 8] }] }

/-- D81: mac + rescale with 4 per-channel shifts / multipliers on an n = 8 array: 74 values for 80 fields
(also on the repaired tree). -/
theorem gemmx_short_channels_fails : ¬ aligned_gemmx_statement .fixed := by
  intro h
  have hv : ∃ vs, gemmxVals .fixed gemmxDefault 8 shortChannelsOp = .ok vs ∧ vs.length = 75 := by
    refine ⟨_, rfl, by decide⟩
  obtain ⟨vs, hvs, hlen⟩ := hv
  obtain ⟨P, _, hal, _⟩ := h gemmxDefault 8 shortChannelsOp vs hvs
  have hf : (gemmxFields gemmxDefault 8).length = 80 := by decide
  omega

/-! ## snax_hwpe_mult — D10 -/

def hwpe_statement : Prop := AlignedAt hwpeMeaning hwpeFields hwpeVals

/-- clause `hnot_swapped`: every register except `vector_length` / `nr_iters` (positions 3 and 4) -/
theorem aligned_hwpe_partial (i : Nat) (f : Field) (hf : hwpeFields[i]? = some f)
    (hnot_swapped : i ≠ 3 ∧ i ≠ 4) : ∃ v : Val, hwpeVals[i]? = some v ∧ hwpeMeaning f = some v.den := by
  match i with
  | 0 => simp [hwpeFields] at hf; subst hf; exact ⟨_, rfl, rfl⟩
  | 1 => simp [hwpeFields] at hf; subst hf; exact ⟨_, rfl, rfl⟩
  | 2 => simp [hwpeFields] at hf; subst hf; exact ⟨_, rfl, rfl⟩
  | 3 => exact absurd rfl hnot_swapped.1
  | 4 => exact absurd rfl hnot_swapped.2
  | 5 => simp [hwpeFields] at hf; subst hf; exact ⟨_, rfl, rfl⟩
  | (k + 6) => simp [hwpeFields] at hf


/-- D10: `vector_length` receives the constant 1 (the value computed for `nr_iters`). -/
theorem hwpe_fails : ¬ hwpe_statement := by
  intro h
  obtain ⟨v, hv, hm⟩ := h.2 3 .vectorLength rfl
  simp [hwpeVals] at hv
  subst hv
  simp [hwpeMeaning] at hm
  have := congrFun hm envDim5
  simp [Val.den, konst, envDim5] at this

/-- the values do follow the order of the address map in the accelerator's docstring (nr_iters before
vector_length): which of the two tables is wrong is not decidable from the code -/
theorem hwpe_values_follow_docstring_order :
    AlignedAt hwpeMeaning [.hA, .hB, .hO, .nrIters, .vectorLength, .mode] hwpeVals :=
  Aligned.index (m := hwpeMeaning) (by simp [Aligned, hwpeMeaning, hwpeVals]; exact ⟨rfl, rfl, rfl, rfl, rfl, rfl⟩)

/-! ## snax_xdma — full on the repaired tree (F14, FC08a, FC08b); each unrepaired site has its counterexample -/

def aligned_xdma_statement (v : Variant) : Prop :=
  ∀ (cfg : List Streamer) (op : XdmaOp) (vs : List Val), xdmaVals v cfg op = .ok vs →
    AlignedAt (xdmaMeaning cfg op) (xdmaFields v cfg) vs

/-- Repaired tree: for EVERY configuration (any number of streamers, any option / extension list in any order, with
duplicates), pattern, operand list (zero pointers anywhere) and body (add, rescale up/down, other kernels, no
generic at all): base pointers, strides, bounds, `enabled_chan`, `enabled_byte`, the bypass bit set and every
extension CSR line up with their names. -/
theorem aligned_xdma : aligned_xdma_statement .fixed := by
  intro cfg op vs h
  exact (xdmaVals_aligned .fixed cfg op vs h rfl (Or.inl rfl) (Or.inl rfl)).index

/-- Any tree with F14: clause `hzero` — FC08a is in, or all operands have the same zero-pointer flag (D80 otherwise);
clause `hgen` — FC08b is in, or the body starts with a `dart.generic` (D83 otherwise). -/
theorem aligned_xdma_partial (v : Variant) (cfg : List Streamer) (op : XdmaOp) (vs : List Val)
    (h : xdmaVals v cfg op = .ok vs) (h14 : v.f14 = true)
    (hzero : v.zeroPerOperand = true ∨ ∃ b, ∀ s, s < cfg.length → op.s.zero[s]? = some b)
    (hgen : v.extCsrLen = true ∨ op.kernel ≠ .notGeneric) :
    AlignedAt (xdmaMeaning cfg op) (xdmaFields v cfg) vs :=
  (xdmaVals_aligned v cfg op vs h h14 hzero hgen).index

def xdmaPlain : List Streamer :=
  [ { tdims := [.n], sdims := [8], opts := [.ext .add] }, { tdims := [.n], sdims := [8], opts := [] } ]

def xdmaPlainOp (k : XKernel) (z : List Bool) : XdmaOp :=
  { s := { pats := [ { dims := [(4, 64)], ss := [8] }, { dims := [(4, 64)], ss := [8] } ], zero := z },
    kernel := k }

/-- D12 (pristine tree): `_enabled_chan` is declared for streamers without a channel mask: 15 fields, 13 values. -/
theorem xdma_pristine_enabled_chan_fails : ¬ aligned_xdma_statement .pristine := by
  intro h
  have hv : ∃ vs, xdmaVals .pristine xdmaPlain (xdmaPlainOp .add [false, false]) = .ok vs ∧ vs.length = 13 :=
    ⟨_, rfl, by decide⟩
  obtain ⟨vs, hvs, hlen⟩ := hv
  have := (h xdmaPlain (xdmaPlainOp .add [false, false]) vs hvs).1
  have hf : (xdmaFields .pristine xdmaPlain).length = 15 := by decide
  omega

example : ∃ vs, xdmaVals .fixed xdmaPlain (xdmaPlainOp .add [false, false]) = .ok vs ∧ vs.length = 13 ∧
    (xdmaFields .fixed xdmaPlain).length = 13 := ⟨_, rfl, by decide, by decide⟩

def xdmaMasked : List Streamer :=
  [ { tdims := [.n], sdims := [8], opts := [.chan] }, { tdims := [.n], sdims := [8], opts := [.chan] } ]

/-- D80 (every repair except FC08a): `is_zero_pattern` leaks from the first loop: the reader is a zero pointer, the
writer is not, and the reader's `a_enabled_chan` (position 7) receives -1 (all channels enabled) instead of 0. -/
theorem xdma_zero_flag_leak_fails : ¬ aligned_xdma_statement { Variant.fixed with zeroPerOperand := false } := by
  intro h
  have hv : ∃ vs, xdmaVals { Variant.fixed with zeroPerOperand := false } xdmaMasked
      (xdmaPlainOp .other [true, false]) = .ok vs ∧ vs[7]? = some (.c (-1)) :=
    ⟨_, rfl, by decide⟩
  obtain ⟨vs, hvs, h7⟩ := hv
  obtain ⟨v, hv, hm⟩ := (h xdmaMasked (xdmaPlainOp .other [true, false]) vs hvs).2 7 (.enabledChan 0) (by decide)
  rw [h7] at hv; injection hv with hv; subst hv
  simp [xdmaMeaning, xdmaPlainOp] at hm
  have := congrFun hm envDim5
  simp [Val.den, konst] at this

/-- the same operation with FC08a: the reader's mask is 0 -/
example : ∃ vs, xdmaVals .fixed xdmaMasked (xdmaPlainOp .other [true, false]) = .ok vs ∧ vs[7]? = some (.c 0) ∧
    vs[12]? = some (.c (-1)) := ⟨_, rfl, by decide⟩

def xdmaRescale : List Streamer :=
  [ { tdims := [.n], sdims := [8], opts := [.ext .rescaleDown] }, { tdims := [.n], sdims := [8], opts := [] } ]

/-- D83 (every repair except FC08b): a body that does not start with `dart.generic` yields one value per extension
instead of `csr_length` (rescale: 4): 13 values for 16 fields. -/
theorem xdma_nongeneric_fails : ¬ aligned_xdma_statement { Variant.fixed with extCsrLen := false } := by
  intro h
  have hv : ∃ vs, xdmaVals { Variant.fixed with extCsrLen := false } xdmaRescale
      (xdmaPlainOp .notGeneric [false, false]) = .ok vs ∧ vs.length = 13 :=
    ⟨_, rfl, by decide⟩
  obtain ⟨vs, hvs, hlen⟩ := hv
  have := (h xdmaRescale (xdmaPlainOp .notGeneric [false, false]) vs hvs).1
  have hf : (xdmaFields { Variant.fixed with extCsrLen := false } xdmaRescale).length = 16 := by decide
  omega

example : ∃ vs, xdmaVals .fixed xdmaRescale (xdmaPlainOp .notGeneric [false, false]) = .ok vs ∧ vs.length = 16 :=
  ⟨_, rfl, by decide⟩

/-! ## non-vacuity -/

/-- a 2-streamer configuration with padding (pattern shorter than the streamer), a collapsed reuse dimension,
a zero pointer, broadcast and every option: the generator answers and the theorem applies -/
example : ∃ vs, aluVals .fixed
    [ { tdims := [.r, .n, .i], sdims := [8, 4], opts := [.bcast, .chan, .remap, .ext .transpose] },
      { tdims := [.n], sdims := [4], opts := [] } ]
    { pats := [ { dims := [(5, 0), (3, 16)], ss := [0, 8] }, { dims := [(7, 32)], ss := [8] } ],
      zero := [true, false] } = .ok vs ∧ vs.length = 21 ∧ vs[0]? = some (.c zeroAddress) ∧ vs[4]? = some (.c 1) ∧
      vs[6]? = some (.c 1) ∧ vs[9]? = some (.c 0) := ⟨_, rfl, by decide⟩

end SnaxVerif.C08
